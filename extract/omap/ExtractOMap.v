(* ExtractOMap.v — extraction of the open-addressing map model (theories/OpenMap.v) instantiated as the real
   MultiMapStorage<u64, u64>: keys and values N, equality N.eqb, stable_hash = identity, minimum capacity 64,
   probe fuel = capacity.  Own small driver (omap_driver.ml), built by checks/c19.py; ExtrOcamlBasic only. *)
From Coq Require Import NArith List.
From Agdb Require Import OpenMap.
From Coq Require Import extraction.Extraction ExtrOcamlBasic.
Extraction Language OCaml.

Definition om_hash (k : N) : N := k.
Definition om_rev (a b c : bool) : om_revision :=
  {| fix_insert_wrap_guard := a; fix_rehash_in_place := b; fix_iter_finished := c |}.
Definition om_empty : omap N N := empty_map.
Definition om_insert (rv : om_revision) := insert N N om_hash 64.
Definition om_ior (rv : om_revision) (m : omap N N) (k : N) (only : option N) (v : N) :=
  insert_or_replace N N N.eqb om_hash 64 rv m k
    (match only with None => fun _ => true | Some x => fun y => N.eqb y x end) v.
Definition om_remove_key (rv : om_revision) := remove_key N N N.eqb om_hash 64 rv.
Definition om_remove_value (rv : om_revision) := remove_value N N N.eqb N.eqb om_hash 64 rv.
Definition om_reserve (m : omap N N) (c : N) := reserve N N om_hash 64 m (N.to_nat c).
Definition om_value := value N N N.eqb om_hash.
Definition om_values (rv : om_revision) := values N N N.eqb om_hash rv.
Definition om_len (m : omap N N) : N := N.of_nat (len m).
Definition om_slots (m : omap N N) : list (slot N N) := slots m.

Extraction "omap_model.ml" om_rev om_empty om_insert om_ior om_remove_key om_remove_value om_reserve
  om_value om_values om_len om_slots.
