(* omap_driver.ml — runs the extracted open-addressing map model (Omap_model) on one command per line:
     reset <abc>            a b c in {0,1}: wrap guard, in-place rehash, iterator flag   -> ok
     ins <k> <v>                                                                         -> ok | fuel
     ior <k> <only|-> <v>                                                                -> ok <old|-> | fuel
     rk <k> | rv <k> <v> | reserve <n>                                                   -> ok | fuel
     value <k>                                                                           -> <v> | - | fuel
     values <k>                                                                          -> [v v ...] | fuel
     dump                                                                                -> len cap slot*   (slot = e | d | <k>:<v>)
   numbers in hexadecimal; one output line per input line. *)
open Omap_model

let n_double = function N0 -> N0 | Npos p -> Npos (XO p)
let n_succ_double = function N0 -> Npos XH | Npos p -> Npos (XI p)

let hexval c = match c with
  | '0'..'9' -> Char.code c - 48
  | 'a'..'f' -> Char.code c - 87
  | _ -> failwith "bad hex digit"

let n_of_hex (s : string) : n =
  let acc = ref N0 in
  String.iter (fun c ->
      let d = hexval c in
      for k = 3 downto 0 do
        acc := if (d lsr k) land 1 = 1 then n_succ_double !acc else n_double !acc
      done) s;
  !acc

let rec pos_bits (p : positive) : int list = match p with
  | XH -> [1] | XO q -> 0 :: pos_bits q | XI q -> 1 :: pos_bits q

let hex_of_n (x : n) : string =
  match x with
  | N0 -> "0"
  | Npos p ->
    let bits = Array.of_list (pos_bits p) in
    let nb = Array.length bits in
    let nd = (nb + 3) / 4 in
    let b = Bytes.create nd in
    for i = 0 to nd - 1 do
      let v = ref 0 in
      for k = 0 to 3 do
        let j = 4 * i + k in
        if j < nb && bits.(j) = 1 then v := !v lor (1 lsl k)
      done;
      Bytes.set b (nd - 1 - i) "0123456789abcdef".[!v]
    done;
    Bytes.to_string b

let state = ref om_empty
let rv = ref (om_rev true true true)

let upd (o : (n, n) omap outcome) : string =
  match o with Done m -> state := m; "ok" | OutOfFuel -> "fuel"

let dump () : string =
  let b = Buffer.create 1024 in
  let sl = om_slots !state in
  Buffer.add_string b (hex_of_n (om_len !state));
  Buffer.add_char b ' ';
  Buffer.add_string b (Printf.sprintf "%x" (List.length sl));
  List.iter (fun s ->
      Buffer.add_char b ' ';
      match s with
      | Empty -> Buffer.add_char b 'e'
      | Deleted -> Buffer.add_char b 'd'
      | Valid (k, v) -> Buffer.add_string b (hex_of_n k); Buffer.add_char b ':'; Buffer.add_string b (hex_of_n v)) sl;
  Buffer.contents b

let handle (line : string) : string =
  match String.split_on_char ' ' line with
  | ["reset"; f] ->
    state := om_empty;
    rv := om_rev (f.[0] = '1') (f.[1] = '1') (f.[2] = '1');
    "ok"
  | ["ins"; k; v] -> upd (om_insert !rv !state (n_of_hex k) (n_of_hex v))
  | ["ior"; k; only; v] ->
    let o = if only = "-" then None else Some (n_of_hex only) in
    (match om_ior !rv !state (n_of_hex k) o (n_of_hex v) with
     | Done (m, r) -> state := m; "ok " ^ (match r with None -> "-" | Some x -> hex_of_n x)
     | OutOfFuel -> "fuel")
  | ["rk"; k] -> upd (om_remove_key !rv !state (n_of_hex k))
  | ["rv"; k; v] -> upd (om_remove_value !rv !state (n_of_hex k) (n_of_hex v))
  | ["reserve"; c] -> upd (om_reserve !state (n_of_hex c))
  | ["value"; k] ->
    (match om_value !state (n_of_hex k) with
     | Done None -> "-" | Done (Some x) -> hex_of_n x | OutOfFuel -> "fuel")
  | ["values"; k] ->
    (match om_values !rv !state (n_of_hex k) with
     | Done l -> "[" ^ String.concat " " (List.map hex_of_n l) ^ "]" | OutOfFuel -> "fuel")
  | ["dump"] -> dump ()
  | _ -> "ERROR bad line"

let () =
  let out = Buffer.create (1 lsl 16) in
  (try
     while true do
       let line = input_line stdin in
       let r = try handle line with Failure m -> "ERROR " ^ m | Stack_overflow -> "ERROR stack overflow" in
       Buffer.add_string out r; Buffer.add_char out '\n';
       if Buffer.length out > (1 lsl 16) then (print_string (Buffer.contents out); Buffer.clear out)
     done
   with End_of_file -> ());
  print_string (Buffer.contents out)
