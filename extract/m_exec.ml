(* m_exec.ml — driver commands for the execution scheduling model (ExecSched.v, C31)
     exec run <spawn|fifo> (<index> ...) (<events>)
        -> trace=(..) tasks=(..) pending=(..) executed=(..) committed=(..)
   log entry i carries the action i; events: (c <idx>) Commit | (r <i>) RunTask | (m <i>) MarkExecuted | x Restart
   numbers are hexadecimal *)
open Model
open Util
open ExecM

let ev_of (s : sexp) : event = match s with
  | L [A "c"; A i] -> Commit (n_of_hex i)
  | L [A "r"; A i] -> RunTask (n_of_hex i)
  | L [A "m"; A i] -> MarkExecuted (n_of_hex i)
  | A "x" -> Restart
  | _ -> failwith ("bad event " ^ string_of_sexp s)

let disc_of = function
  | "spawn" -> SpawnPerEntry
  | "fifo" -> FifoWorker
  | d -> failwith ("bad discipline " ^ d)

let str_list (l : n list) : string = "(" ^ String.concat " " (List.map hex_of_n l) ^ ")"

let handle (cmd : string) (args : sexp list) : string =
  match cmd, args with
  | "run", [A d; L idxs; L evs] ->
    let lg = List.map (fun s -> match s with A i -> let x = n_of_hex i in (x, x) | _ -> failwith "bad index") idxs in
    let s = run (disc_of d) lg (List.map ev_of evs) in
    Printf.sprintf "trace=%s tasks=%s pending=%s executed=%s committed=%s"
      (str_list s.trace) (str_list s.tasks) (str_list s.pending) (str_list s.executed) (str_list s.committed)
  | _ -> failwith ("exec: bad command " ^ cmd)
