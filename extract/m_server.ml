(* m_server.ml — driver commands for the HTTP server model (Auth.v: C24, C25).
   The module keeps one server state; `reset` starts a new sequence.
     server reset <ttl> <admin> ((u pw) ...)                 -> ok
     server req <now> <tok|-> <request>                      -> <code> <body> | <observable state>
     server kinds                                            -> classification table of the 18 query kinds
     server matrix                                           -> documented matrix (doc_perm x holds) *)
(* NOTE: Auth is extracted into the monolithic model.ml after the other models; the extraction renames its
   clashing identifiers (state1, step2, QId0, QSearch0, PRead0, c_nodes0) — see Extract.v *)
open Model
open Util

let st : state1 ref = ref (init_state N0 N0 [])

let num = function A h -> n_of_hex h | s -> failwith ("number expected: " ^ string_of_sexp s)
let hx = hex_of_n

let role_of_sexp = function
  | A "admin" -> RoAdmin | A "write" -> RoWrite | A "read" -> RoRead
  | s -> failwith ("bad role " ^ string_of_sexp s)
let string_of_role = function RoAdmin -> "admin" | RoWrite -> "write" | RoRead -> "read"
let kind_of_sexp = function
  | A "mapped" -> KMapped | A "file" -> KFile | s -> failwith ("bad db kind " ^ string_of_sexp s)
let string_of_kind = function KMapped -> "mapped" | KFile -> "file"

let probes = [
  "insert_alias", PInsertAlias; "insert_edges", PInsertEdges; "insert_index", PInsertIndex;
  "remove", PRemove; "remove_aliases", PRemoveAliases; "remove_index", PRemoveIndex;
  "select_aliases", PSelectAliases; "select_all_aliases", PSelectAllAliases;
  "select_edge_count", PSelectEdgeCount; "select_indexes", PSelectIndexes;
  "select_keys", PSelectKeys; "select_key_count", PSelectKeyCount ]

let ref_of_sexp = function
  | L [A "id"; n] -> QId0 (num n)
  | L [A "res"; A k] -> QRes (nat_of_int (int_of_string k))
  | s -> failwith ("bad ref " ^ string_of_sexp s)
let refs_of_sexp = function L l -> List.map ref_of_sexp l | s -> failwith ("bad refs " ^ string_of_sexp s)

let query_of_sexp = function
  | L [A "insnode"; m] -> QInsertNode (num m)
  | L [A "setval"; ids; m] -> QSetValue (refs_of_sexp ids, num m)
  | L [A "rmval"; ids] -> QRemoveValue (refs_of_sexp ids)
  | L [A "select"; ids] -> QSelect (refs_of_sexp ids)
  | A "count" -> QCount
  | A "search" -> QSearch0
  | L [A "probe"; A p] -> (try QProbe (List.assoc p probes) with Not_found -> failwith ("bad probe " ^ p))
  | s -> failwith ("bad query " ^ string_of_sexp s)

let sexp_of_ref = function
  | QId0 n -> L [A "id"; A (hx n)]
  | QRes k -> L [A "res"; A (string_of_int (int_of_nat k))]
let sexp_of_query = function
  | QInsertNode m -> L [A "insnode"; A (hx m)]
  | QSetValue (ids, m) -> L [A "setval"; L (List.map sexp_of_ref ids); A (hx m)]
  | QRemoveValue ids -> L [A "rmval"; L (List.map sexp_of_ref ids)]
  | QSelect ids -> L [A "select"; L (List.map sexp_of_ref ids)]
  | QCount -> A "count"
  | QSearch0 -> A "search"
  | QProbe p -> L [A "probe"; A (fst (List.find (fun (_, q) -> q = p) probes))]

let sel_of_sexp = function
  | A "cur" -> LoCurrent | A "all" -> LoAll | A "others" -> LoOthers
  | L [A "sid"; n] -> LoSession (num n)
  | s -> failwith ("bad logout selector " ^ string_of_sexp s)

let op_of_sexp = function
  | L [A "add"; k] -> OAdd (kind_of_sexp k)
  | A "audit" -> OAudit
  | A "backup" -> OBackup
  | L [A "clear"; A r] ->
    OClear (match r with "all" -> ResAll | "db" -> ResDb | "audit" -> ResAudit | "backup" -> ResBackup
                       | _ -> failwith ("bad resource " ^ r))
  | L [A "convert"; k] -> OConvert (kind_of_sexp k)
  | L [A "copy"; no; nd] -> OCopy (num no, num nd)
  | A "delete" -> ODelete
  | L (A "exec" :: qs) -> OExec (List.map query_of_sexp qs)
  | L (A "execmut" :: qs) -> OExecMut (List.map query_of_sexp qs)
  | A "optimize" -> OOptimize
  | A "remove" -> ORemove
  | L [A "rename"; no; nd] -> ORename (num no, num nd)
  | A "restore" -> ORestore
  | A "rollback" -> ORollback
  | L [A "uadd"; u; r] -> OUserAdd (num u, role_of_sexp r)
  | A "ulist" -> OUserList
  | L [A "uremove"; u] -> OUserRemove (num u)
  | s -> failwith ("bad db op " ^ string_of_sexp s)

let request_of_sexp = function
  | L [A "login"; u; pw] -> ReqLogin (num u, num pw)
  | L [A "logout"; sel] -> ReqLogout (sel_of_sexp sel)
  | L [A "chpw"; o; n] -> ReqChangePassword (num o, num n)
  | L [A "status"] -> ReqStatus
  | L [A "dblist"] -> ReqDbList
  | L [A "db"; o; d; op] -> ReqDb (num o, num d, op_of_sexp op)
  | L [A "adblist"] -> ReqAdminDbList
  | L [A "adb"; o; d; op] -> ReqAdminDb (num o, num d, op_of_sexp op)
  | L [A "auadd"; u; pw] -> ReqAdminUserAdd (num u, num pw)
  | L [A "auchpw"; u; pw] -> ReqAdminUserChangePassword (num u, num pw)
  | L [A "audel"; u] -> ReqAdminUserDelete (num u)
  | L [A "aulogout"; u; sel] -> ReqAdminUserLogout (num u, sel_of_sexp sel)
  | L [A "aulogoutall"] -> ReqAdminUserLogoutAll
  | L [A "aulist"] -> ReqAdminUserList
  | L [A "astatus"] -> ReqAdminStatus
  | s -> failwith ("bad request " ^ string_of_sexp s)

(* ---- canonical printing (the Rust harness prints the same text) ---- *)
let cmp_n a b = compare (int_of_n a) (int_of_n b)
let sort_by f l = List.sort (fun a b -> compare (f a) (f b)) l

let sexp_of_result (r : qresult) =
  L (A (hx r.qr_result) :: List.map (fun (id, vs) -> L (A (hx id) :: List.map (fun v -> A (hx v)) vs)) r.qr_elems)
let sexp_of_audit (l : aentry list) =
  List.map (fun (u, q) -> L [A (hx u); sexp_of_query q]) l
let sexp_of_roles (l : (n * role) list) =
  List.map (fun (u, r) -> L [A (hx u); A (string_of_role r)]) (sort_by (fun (u, _) -> int_of_n u) l)

let string_of_body = function
  | BNone -> "-"
  | BToken t -> string_of_sexp (L [A "token"; A (hx t)])
  | BDbList l ->
    string_of_sexp (L (A "dbs" :: List.map (fun ((o, d), r) -> L [A (hx o); A (hx d); A (string_of_role r)])
                                  (sort_by (fun ((o, d), _) -> (int_of_n o, int_of_n d)) l)))
  | BUsers l -> string_of_sexp (L (A "users" :: sexp_of_roles l))
  | BAudit l -> string_of_sexp (L (A "audit" :: sexp_of_audit l))
  | BResults l -> string_of_sexp (L (A "results" :: List.map sexp_of_result l))
  | BStatus (u, a, n) -> string_of_sexp (L [A "status"; A (hx u); A (if a then "1" else "0"); A (hx n)])
  | BUserList l ->
    string_of_sexp (L (A "ulist" :: List.map (fun (u, n) -> L [A (hx u); A (hx n)])
                                    (sort_by (fun (u, _) -> int_of_n u) l)))

let string_of_obs (s : state1) (now : n) =
  let users = L (A "users" :: List.map (fun (u, _) -> L [A (hx u); A (hx (sessions_of s now u))])
                                (sort_by (fun (u, _) -> int_of_n u) s.s_users)) in
  let db (r : dbrec) =
    L [A (hx r.d_owner); A (hx r.d_name); A (string_of_kind r.d_kind);
       L (A "roles" :: sexp_of_roles r.d_roles);
       L (A "nodes" :: List.map (function Some v -> A (hx v) | None -> A "-") r.d_content.c_nodes0);
       L (A "audit" :: sexp_of_audit r.d_audit)] in
  let dbs = L (A "dbs" :: List.map db (sort_by (fun r -> (int_of_n r.d_owner, int_of_n r.d_name)) s.s_dbs)) in
  string_of_sexp users ^ " " ^ string_of_sexp dbs

let string_of_response = function
  | RespOk (c, b) -> string_of_int (int_of_n c) ^ " " ^ string_of_body b
  | RespErr c -> string_of_int (int_of_n c) ^ " -"

let all_kinds = [
  "insert_alias", KInsertAlias; "insert_edges", KInsertEdges; "insert_index", KInsertIndex;
  "insert_nodes", KInsertNodes; "insert_values", KInsertValues; "remove", KRemove;
  "remove_aliases", KRemoveAliases; "remove_index", KRemoveIndex; "remove_values", KRemoveValues;
  "search", KSearch; "select_aliases", KSelectAliases; "select_all_aliases", KSelectAllAliases;
  "select_edge_count", KSelectEdgeCount; "select_indexes", KSelectIndexes; "select_keys", KSelectKeys;
  "select_key_count", KSelectKeyCount; "select_node_count", KSelectNodeCount; "select_values", KSelectValues ]

let handle (cmd : string) (args : sexp list) : string =
  match cmd, args with
  | "reset", [ttl; admin; L users] ->
    st := init_state (num admin) (num ttl)
        (List.map (function L [u; p] -> (num u, num p) | s -> failwith ("bad user " ^ string_of_sexp s)) users);
    "ok"
  | ("req" | "reqx"), [now; tok; req] ->
    let now = num now in
    let tok = (match tok with
        | A "-" -> None
        | A t when String.length t > 1 && t.[0] = 't' -> Some (n_of_hex (String.sub t 1 (String.length t - 1)))
        | s -> failwith ("bad token " ^ string_of_sexp s)) in
    let (resp, s') = step2 !st now tok (request_of_sexp req) in
    st := s';
    (* reqx: the harness could not observe the state after this request (it logged the observer out) *)
    string_of_response resp ^ " | " ^ (if cmd = "reqx" then "-" else string_of_obs s' now)
  | "kinds", [] ->
    String.concat " " (List.map (fun (name, k) ->
        Printf.sprintf "(%s %s %s %s)" name
          (if kind_is_write k then "write" else "read")
          (if kind_read_allowed k then "exec" else "noexec")
          (if kind_audited k then "audited" else "silent")) all_kinds)
  | "docperm", [] ->
    (* the documented permission per endpoint as the model has it (Auth.v doc_perm) *)
    let tags = [ "add", TAdd; "audit", TAudit; "backup", TBackup; "clear", TClear; "convert", TConvert; "copy", TCopy;
                 "delete", TDelete; "exec", TExec; "exec_mut", TExecMut; "optimize", TOptimize; "remove", TRemove;
                 "rename", TRename; "restore", TRestore; "rollback", TRollback; "user_add", TUserAdd;
                 "user_list", TUserList; "user_remove", TUserRemove ] in
    String.concat " " (List.map (fun (n, t) ->
        Printf.sprintf "(%s %s)" n (match doc_perm t with POwner -> "owner" | PAdmin -> "admin" | PWrite -> "write" | PRead0 -> "read")) tags)
  | _ -> failwith ("server: bad command " ^ cmd)
