(* driver.ml — reads one command per line on stdin:  <module> <cmd> <sexp args...>
   prints one result line per command (or "ERROR <msg>"). *)
let () =
  Util.self_test ();
  let out = Buffer.create (1 lsl 16) in
  (try
     while true do
       let line = input_line stdin in
       if String.length line > 0 && line.[0] <> '#' then begin
         let r =
           try
             match Util.parse_sexps line with
             | Util.A m :: Util.A cmd :: args ->
               (match m with
                | "codec" -> M_codec.handle cmd args
                | "db" -> M_db.handle cmd args
                | "wal" -> M_wal.handle cmd args
                | "raft" -> M_raft.handle cmd args
                | "exec" -> M_exec.handle cmd args
                | "value" -> M_value.handle cmd args
                | "open" -> M_open.handle cmd args
                | "stor" -> M_storage.handle cmd args
                | "conc" -> M_conc.handle cmd args
                | "derive" -> M_derive.handle cmd args
                | "server" -> M_server.handle cmd args
                | "paths" -> M_paths.handle cmd args
                | "coll" -> M_coll.handle cmd args
                | "stored" -> M_stored.handle cmd args
                | "lo" -> M_loadout.handle cmd args
                | "ops" -> M_ops.handle cmd args
                | _ -> failwith ("unknown module " ^ m))
             | _ -> failwith "bad line"
           with
           | Failure msg -> "ERROR " ^ msg
           | Stack_overflow -> "ERROR stack overflow"
           | Not_found -> "ERROR not found" in
         Buffer.add_string out r; Buffer.add_char out '\n';
         if Buffer.length out > (1 lsl 16) then (print_string (Buffer.contents out); Buffer.clear out)
       end
     done
   with End_of_file -> ());
  print_string (Buffer.contents out)
