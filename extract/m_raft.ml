(* m_raft.ml — driver commands for the consensus model (C27–C30).
   Line format of one cluster state (identical to harness/hx_raft/src/fmt.rs):
     <node> <node> ... | <msg> <msg> ...
     node := i:S:term:et:c<commit>:[i.t.d,...]:[li.lt.lc.v,...]     S := C | E | F<l> | L | V<t>
     msg  := Q(<req>) | R(<res>;<req>)
     req  := K:from>to:t<term>:li.lt.lc:[i.t.d,...]                   K := A | H | P | V
     res  := ok | lm<l> | tm<l>.<r> | gm<il>.<ir>.<tl>.<tr>.<cl>.<cr> | av<l>.<r>
   commands (r<abc> = revision of raft.rs, Raft.raftrev: a = fix_vote_term, b = fix_vote_match, c = fix_ack_term;
   optional, default r000 = rr_pinned; the two-bit form r<ab> of older replay files means c = 0):
     run  [r<abc>] <n> <ev>...   -> the state line after every event, joined by " ;; "
     flags [r<abc>] <n> <ev>...  -> es=<0|1> agree=<0|1> lc=<0|1> dv=.. sv=.. ad=.. ot=.. av=.. nq=.. sa=..   (sa = root-cause marker RaftLog.stale_ack_counted_b; oracles / KnownClass on the model's run; lc = leaders of HIGHER terms hold the leader-committed entries)
   events: (T i elapsed (j ...)) (D k elapsed) (X k) (U k) (A i d); numbers decimal *)
open Model
open Util

let ni (x : n) : string = string_of_int (int_of_n x)
let n_of_s (s : string) : n = n_of_int (int_of_string s)

let str_state = function
  | Candidate -> "C" | Election -> "E" | Follower l -> "F" ^ ni l | Leader -> "L" | Voted t -> "V" ^ ni t

let str_entry (e : entry) = ni e.e_index ^ "." ^ ni e.e_term ^ "." ^ ni e.e_data
let str_entries l = "[" ^ String.concat "," (List.map str_entry l) ^ "]"
let str_peer (p : peer) = ni p.p_li ^ "." ^ ni p.p_lt ^ "." ^ ni p.p_lc ^ "." ^ (if p.p_voted then "1" else "0")

let str_node (nd : node) =
  String.concat ":" [ ni nd.n_index; str_state nd.n_state; ni nd.n_term; ni nd.n_et; "c" ^ ni nd.n_commit;
                      str_entries nd.n_logs; "[" ^ String.concat "," (List.map str_peer nd.n_peers) ^ "]" ]

let str_req (r : request) =
  let k, logs = match r.q_kind with
    | KAppend l -> "A", l | KHeartbeat -> "H", [] | KPreVote -> "P", [] | KVote -> "V", [] in
  String.concat ":" [ k; ni r.q_from ^ ">" ^ ni r.q_to; "t" ^ ni r.q_term;
                      ni r.q_li ^ "." ^ ni r.q_lt ^ "." ^ ni r.q_lc; str_entries logs ]

let str_res = function
  | ROk0 -> "ok"
  | RLeaderMismatch l -> "lm" ^ ni l
  | RTermMismatch (l, r) -> "tm" ^ ni l ^ "." ^ ni r
  | RLogMismatch (il, ir, tl, tr, cl, cr) -> "gm" ^ String.concat "." (List.map ni [il; ir; tl; tr; cl; cr])
  | RAlreadyVoted (l, r) -> "av" ^ ni l ^ "." ^ ni r

let str_msg = function
  | MReq r -> "Q(" ^ str_req r ^ ")"
  | MResp (r, s) -> "R(" ^ str_res s.s_result ^ ";" ^ str_req r ^ ")"

let str_cluster (c : cluster) =
  String.concat " " (List.map str_node c.c_nodes) ^ " | " ^ String.concat " " (List.map str_msg c.c_net)

let ev_of_sexp = function
  | L [A "T"; A i; A e; L due] -> Tick (n_of_s i, n_of_s e, List.map (function A j -> n_of_s j | _ -> failwith "due") due)
  | L [A "D"; A k; A e] -> Deliver (nat_of_int (int_of_string k), n_of_s e)
  | L [A "X"; A k] -> Drop (nat_of_int (int_of_string k))
  | L [A "U"; A k] -> Duplicate (nat_of_int (int_of_string k))
  | L [A "A"; A i; A d] -> ClientAppend (n_of_s i, n_of_s d)
  | s -> failwith ("bad event " ^ string_of_sexp s)

let b x = if x then "1" else "0"

(* optional leading revision token r<abc> (or r<ab>: c = 0) *)
let split_rev (args : sexp list) : raftrev * sexp list =
  let bit c = (c = '0' || c = '1') in
  match args with
  | A s :: rest when String.length s = 4 && s.[0] = 'r' && bit s.[1] && bit s.[2] && bit s.[3] ->
    ({ fix_vote_term = (s.[1] = '1'); fix_vote_match = (s.[2] = '1'); fix_ack_term = (s.[3] = '1') }, rest)
  | A s :: rest when String.length s = 3 && s.[0] = 'r' && bit s.[1] && bit s.[2] ->
    ({ fix_vote_term = (s.[1] = '1'); fix_vote_match = (s.[2] = '1'); fix_ack_term = false }, rest)
  | _ -> ({ fix_vote_term = false; fix_vote_match = false; fix_ack_term = false }, args)

let handle (cmd : string) (args : sexp list) : string =
  let rv, args = split_rev args in
  match cmd, args with
  | "run", A n :: evs ->
    let c = ref (init_default (n_of_s n)) in
    let out = List.map (fun e -> c := step0 rv !c (ev_of_sexp e); str_cluster !c) evs in
    String.concat " ;; " out
  | "flags", A n :: evs ->
    let evl = List.map ev_of_sexp evs in
    let c = run rv (n_of_s n) evl in
    let h = c.c_hist in
    Printf.sprintf "es=%s agree=%s lc=%s dv=%s sv=%s ad=%s ot=%s av=%s nq=%s sa=%s"
      (b (election_safety_b h)) (b (committed_agree_b c)) (b (leader_completeness_up_b h))
      (b (double_vote_b h)) (b (stale_vote_b h)) (b (ack_diverged_b h)) (b (old_term_commit_b h)) (b (ack_below_vote_b h))
      (b (commit_noquorum_b rv (n_of_s n) evl)) (b (stale_ack_counted_b rv (n_of_s n) evl))
  | "init", [A n] -> str_cluster (init_default (n_of_s n))
  | _ -> failwith ("raft: bad command " ^ cmd)
