(* m_storage.ml — driver commands for the storage layer model (Records.v, Storage.v,
   StorageSpec.v; C04 and the storage parts of C05/C06).  Stateful.
     stor new <file|mem|rawmem|rawfile|rawmapped>   fresh storage on an empty byte store
     stor op <op>                                   one operation
   op:  (ins <bytes>) (at <i> <off> <bytes>) (rep <i> <bytes>) (rsz <i> <n>) (mov <i> <from> <to> <n>)
        (rm <i>) opt reopen copy begin (tx_commit <id>) (val <i>) (vat <i> <off>) (vas <i> <off> <n>) (vsz <i>) len
   answer: <obs> len=<hex> live=[<i>:<bytes> ...] spec=<ok|REJECT>
   obs: u | n <hex> | b <bytes> | e <kind> | panic | fault.
   `spec=` is the verdict of the abstract specification (StorageSpec.spec_step) on the model's own
   observation; the implementation's line must be identical, so it is accepted iff the model's is. *)
open Model
open Util

(* the three literal back-end instances have different carrier types; each is wrapped in closures *)
type inst = {
  st_step : sop -> obs;                    (* runs one operation, updates the state *)
  len : unit -> n;
  live : unit -> (n * byte list) list;
}

let make_inst (type t) (ops : t store_ops) (init : t) : inst =
  let (s0, _) = with_data ops init in
  let st = ref s0 in
  { st_step = (fun o -> let (s', v) = st_step ops !st o in st := s'; v);
    len = (fun () -> ops.so_len !st.sdata);
    live = (fun () -> live_values ops !st) }

let cur_inst : inst option ref = ref None
let cur_spec : spec ref = ref spec_init
let cur_filelike = ref true

let n_of (s : sexp) = match s with A h -> n_of_hex h | _ -> failwith "n"
let b_of (s : sexp) = match s with A h -> bytes_of_hex h | _ -> failwith "bytes"

let op_of (s : sexp) : sop = match s with
  | L [A "ins"; b] -> SInsert (b_of b)
  | L [A "at"; i; o; b] -> SInsertAt (n_of i, n_of o, b_of b)
  | L [A "rep"; i; b] -> SReplace (n_of i, b_of b)
  | L [A "rsz"; i; n] -> SResize (n_of i, n_of n)
  | L [A "mov"; i; f; t; n] -> SMove (n_of i, n_of f, n_of t, n_of n)
  | L [A "rm"; i] -> SRemove (n_of i)
  | A "opt" -> SOptimize
  | A "reopen" -> SReopen
  | A "copy" -> SReopenCopy
  | A "begin" -> STransaction
  | L [A "commit"; i] -> SCommit (n_of i)
  | L [A "val"; i] -> SValue (n_of i)
  | L [A "vat"; i; o] -> SValueAt (n_of i, n_of o)
  | L [A "vas"; i; o; n] -> SValueAtSize (n_of i, n_of o, n_of n)
  | L [A "vsz"; i] -> SValueSize (n_of i)
  | A "len" -> SLen
  | _ -> failwith ("bad storage op " ^ string_of_sexp s)

let str_err = function
  | SeNotFound -> "NotFound" | SeOutOfBounds -> "OutOfBounds" | SeNotAllowed -> "NotAllowed" | SeNotEnoughData -> "NotEnoughData"

let str_obs = function
  | ObUnit -> "u"
  | ObNum n -> "n " ^ hex_of_n n
  | ObBytes b -> "b " ^ hex_of_bytes b
  | ObErr e -> "e " ^ str_err e
  | ObPanic -> "panic"
  | ObFault -> "fault"

let empty_c : cdata = { cur = []; dur = [] }

let handle (cmd : string) (args : sexp list) : string =
  match cmd, args with
  | "new", [A k] ->
    let (i, fl) = (match k with
        | "file" -> (make_inst ops_file empty_c, true)
        | "mem" -> (make_inst ops_mem empty_c, false)
        | "rawmem" -> (make_inst mem_raw [], false)
        | "rawfile" -> (make_inst file_raw empty_c, true)
        | "rawmapped" -> (make_inst mapped_raw (empty_c, []), true)
        | _ -> failwith ("bad back-end " ^ k)) in
    cur_inst := Some i; cur_spec := spec_init; cur_filelike := fl;
    "new len=" ^ hex_of_n (i.len ())
  | "op", [o] ->
    (match !cur_inst with
     | None -> failwith "no storage"
     | Some i ->
       let o = op_of o in
       let v = i.st_step o in
       let verdict = (match spec_step !cur_filelike !cur_spec o v with
           | Some s' -> cur_spec := s'; "ok"
           | None -> "REJECT") in
       str_obs v ^ " len=" ^ hex_of_n (i.len ()) ^ " live=["
       ^ String.concat " " (List.map (fun (k, b) -> hex_of_n k ^ ":" ^ hex_of_bytes b) (i.live ()))
       ^ "] spec=" ^ verdict)
  | _ -> failwith ("stor: bad command " ^ cmd)
