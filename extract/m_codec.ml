(* m_codec.ml — driver commands for the serialization model (C20, C21) *)
open Model
open Util

let rec ty_of_sexp (s : sexp) : ty = match s with
  | A "u64" -> TU64 | A "i64" -> TI64 | A "f64" -> TF64 | A "usize" -> TUsize
  | A "bool" -> TBool | A "str" -> TStr | A "bytes" -> TBytes | A "time" -> TTime
  | L [A "vec"; t] -> TVec (ty_of_sexp t)
  | L (A "struct" :: fs) -> TStruct (List.map ty_of_sexp fs)
  | L (A "enum" :: vs) -> TEnum (List.map (function L fs -> List.map ty_of_sexp fs | _ -> failwith "enum variant") vs)
  | _ -> failwith ("bad ty " ^ string_of_sexp s)

let rec val_of_sexp (s : sexp) : val0 = match s with
  | L [A "u64"; A h] -> VU64 (n_of_hex h)
  | L [A "i64"; A h] -> VI64 (z_of_hex h)
  | L [A "f64"; A h] -> VF64 (n_of_hex h)
  | L [A "usize"; A h] -> VUsize (n_of_hex h)
  | L [A "bool"; A b] -> VBool (b = "1")
  | L [A "str"; A h] -> VStr (bytes_of_hex h)
  | L [A "bytes"; A h] -> VBytes (bytes_of_hex h)
  | L [A "time"; A s; A n; A a] -> VTime (n_of_hex s, n_of_hex n, a = "1")
  | L (A "vec" :: l) -> VVec (List.map val_of_sexp l)
  | L (A "struct" :: l) -> VStruct (List.map val_of_sexp l)
  | L (A "enum" :: A tag :: l) -> VEnum (nat_of_int (int_of_string tag), List.map val_of_sexp l)
  | _ -> failwith ("bad val " ^ string_of_sexp s)

let rec sexp_of_val (v : val0) : sexp = match v with
  | VU64 n -> L [A "u64"; A (hex_of_n n)]
  | VI64 z -> L [A "i64"; A (hex_of_z z)]
  | VF64 n -> L [A "f64"; A (hex_of_n n)]
  | VUsize n -> L [A "usize"; A (hex_of_n n)]
  | VBool b -> L [A "bool"; A (if b then "1" else "0")]
  | VStr bs -> L [A "str"; A (hex_of_bytes bs)]
  | VBytes bs -> L [A "bytes"; A (hex_of_bytes bs)]
  | VTime (s, n, a) -> L [A "time"; A (hex_of_n s); A (hex_of_n n); A (if a then "1" else "0")]
  | VVec l -> L (A "vec" :: List.map sexp_of_val l)
  | VStruct l -> L (A "struct" :: List.map sexp_of_val l)
  | VEnum (tag, l) -> L (A "enum" :: A (string_of_int (int_of_nat tag)) :: List.map sexp_of_val l)

let string_of_outcome (o : (val0 * n) outcome) : string = match o with
  | Ok (v, k) -> "ok " ^ string_of_sexp (sexp_of_val v) ^ " " ^ hex_of_n k
  | Err -> "err" | Panic -> "panic" | Alloc -> "alloc" | Fuel -> "fuel"

(* commands:
     enc <val>                       -> <hexbytes> <size>
     wf <ty> <val>                   -> 0|1
     dec <d|r> <f|p> <ty> <hexbytes> -> outcome        (profile, guards fixed|pinned) *)
let handle (cmd : string) (args : sexp list) : string =
  match cmd, args with
  | "enc", [v] -> let v = val_of_sexp v in hex_of_bytes (enc v) ^ " " ^ hex_of_n (size v)
  | "wf", [t; v] ->
    let t = ty_of_sexp t and v = val_of_sexp v in
    if ty_ok t && has_type t v then "1" else "0"
  | "dec", [A p; A g; t; A h] ->
    let p = if p = "d" then Debug else Release in
    let g = if g = "p" then guards_pinned else guards_fixed in
    string_of_outcome (dec p g (ty_of_sexp t) (bytes_of_hex h))
  | _ -> failwith ("codec: bad command " ^ cmd)
