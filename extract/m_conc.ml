(* m_conc.ml — driver commands for the concurrent read model (ConcRead.v, C23)

     conc replay <content> (<reqs of thread 0> <reqs of thread 1> ...) (<events>)
        reqs   : ((<pos> <len>) ...)
        events : (L t) ReadLocked hook event of thread t (it holds the lock)
                 (D t) ReadDone (seek + read_exact on the shared handle finished, guard still held)
                 (C t) ReadContended (try_lock failed)
                 (E t) `read` returned in thread t (without a preceding L / C: rejected by the range check)
     -> ok <results of thread 0> | <results of thread 1> ...        each result x<hex> | err
        unordered <same>      the log order cannot be replayed as is (a hook event was logged late); the
                              results are those of a sequential schedule
        reject <why>          no model execution has these events: overlapping critical sections, an
                              event of a thread that is not inside the corresponding branch, missing results

   The events are turned into a schedule of the model's atomic actions (trace acceptor):
     L t -> try_lock of t, which must succeed in the model (nobody else inside the locked branch);
     D t -> seek, read of t (locked branch); its guard drop is placed as late as the log allows (before the
            next L event or t's own next event) because a C event may be logged after the holder's D;
     C t -> try_lock of t, which must fail in the model; if nobody holds the lock at this point of the log
            the event was logged before the holder's own L event: t's actions are deferred to the next L;
     E t -> the remaining actions of t's read.
   The model's results are then compared with the implementation's by bin/check. *)
open Model
open Util

let nat_of_hex h = N.to_nat (n_of_hex h)

let reqs_of (s : sexp) : (nat * nat) list = match s with
  | L l -> List.map (function L [A p; A n] -> (nat_of_hex p, nat_of_hex n) | x -> failwith ("bad req " ^ string_of_sexp x)) l
  | _ -> failwith "bad reqs"

let show_results (s : conc_state) (n : int) : string =
  let one t = match conc_result s (nat_of_int t) with
    | Some l -> String.concat " " (List.map (function Some b -> hex_of_bytes b | None -> "err") l)
    | None -> "unfinished" in
  String.concat " | " (List.init n one)

let contains (s : string) (sub : string) : bool =
  try ignore (Str.search_forward (Str.regexp_string sub) s 0); true with Not_found -> false

exception Reject of string
exception Unordered of string

let replay (content : byte list) (reqs : (nat * nat) list list) (events : (string * int) list) : string =
  let n = List.length reqs in
  let s = ref (conc_init (nat_of_int (List.length content)) reqs) in
  let stp t = s := conc_step true content !s (nat_of_int t) in
  let pc t = match conc_pc !s (nat_of_int t) with Some p -> p | None -> raise (Reject (Printf.sprintf "unknown thread %d" t)) in
  let lazy_unlock : int option ref = ref None in
  let pending : (int * bool ref) list ref = ref [] in
  let returned = Array.make (max n 1) true in       (* false between a thread's L / C event and its E event *)
  let flush_unlock () = match !lazy_unlock with
    | Some h -> (match pc h with LUnlock _ -> stp h | _ -> raise (Reject "internal: lazy unlock of a thread not in LUnlock")); lazy_unlock := None
    | None -> () in
  let start t =
    if t < 0 || t >= n then raise (Reject (Printf.sprintf "unknown thread %d" t));
    if not returned.(t) then raise (Reject (Printf.sprintf "thread %d started a read before its previous read returned" t));
    returned.(t) <- false in
  let own_event t =
    if !lazy_unlock = Some t then flush_unlock ();
    if List.mem_assoc t !pending then raise (Unordered (Printf.sprintf "thread %d issued its next read before its contended read could be placed" t)) in
  let finish_private t =
    (match pc t with POpen -> stp t | _ -> raise (Reject "internal: not in POpen"));
    stp t; stp t in
  (try
     List.iter (fun (k, t) ->
         match k with
         | "L" ->
           start t;
           own_event t;
           flush_unlock ();
           (match pc t with Idle -> () | _ -> raise (Reject (Printf.sprintf "L %d: thread is inside another read" t)));
           (match conc_lock !s with
            | Some h -> raise (Reject (Printf.sprintf "L %d while thread %d is inside its critical section (mutual exclusion)" t (int_of_nat h)))
            | None -> ());
           stp t;
           (match pc t with LSeek -> () | _ -> raise (Reject (Printf.sprintf "L %d: model did not take the locked branch" t)));
           List.iter (fun (u, ended) ->
               stp u;
               (match pc u with POpen -> () | _ -> raise (Reject "internal: deferred contended try_lock succeeded"));
               if !ended then finish_private u) (List.rev !pending);
           pending := []
         | "D" ->
           (match pc t with LSeek -> () | _ -> raise (Reject (Printf.sprintf "D %d: thread is not in the locked branch" t)));
           stp t; stp t;
           lazy_unlock := Some t
         | "C" ->
           start t;
           own_event t;
           (match pc t with Idle -> () | _ -> raise (Reject (Printf.sprintf "C %d: thread is inside another read" t)));
           (match conc_lock !s with
            | Some _ -> stp t; (match pc t with POpen -> () | _ -> raise (Reject "internal: contended try_lock succeeded"))
            | None -> pending := (t, ref false) :: !pending)
         | "E" when t >= 0 && t < n && returned.(t) ->
           (* no L / C event before the return: the read was rejected by the range check (no lock, no system call) *)
           own_event t;
           (match conc_result !s (nat_of_int t) with
            | Some _ -> raise (Reject (Printf.sprintf "E %d: the thread has no read left" t))
            | None -> ());
           (match pc t with Idle -> () | _ -> raise (Reject (Printf.sprintf "E %d: thread is inside another read" t)));
           stp t;
           (match pc t with
            | Idle -> ()
            | _ -> raise (Reject (Printf.sprintf "E %d: a read in range returned without a ReadLocked / ReadContended event" t)))
         | "E" ->
           if t < 0 || t >= n then raise (Reject (Printf.sprintf "E %d: unknown thread" t));
           returned.(t) <- true;
           (match List.assoc_opt t !pending with
            | Some ended -> ended := true
            | None ->
              (match pc t with
               | POpen -> finish_private t
               | LSeek -> stp t; stp t; lazy_unlock := Some t     (* the locked read failed: no D event, `?` returned *)
               | LUnlock _ -> ()
               | Idle -> ()                                       (* its guard drop has been placed already (before an L event) *)
               | _ -> raise (Reject (Printf.sprintf "E %d: thread is not inside a read" t))))
         | _ -> raise (Reject ("unknown event " ^ k))) events;
     flush_unlock ();
     if !pending <> [] then raise (Unordered "a contended read has no holder later in the log");
     let r = show_results !s n in
     if contains r "unfinished" then "reject incomplete: " ^ r else "ok " ^ r
   with
   | Reject why -> "reject " ^ why
   | Unordered _ ->
     (* fall back to a sequential schedule: thread 0 to completion, then thread 1, ... *)
     let s2 = ref (conc_init (nat_of_int (List.length content)) reqs) in
     List.iteri (fun t rs -> for _ = 1 to 4 * List.length rs do s2 := conc_step true content !s2 (nat_of_int t) done) reqs;
     "unordered " ^ show_results !s2 n)

(* conc nolock <content> (<reqs>...) (<schedule: thread ids>) -> results without the lock (the mutation) *)
let handle (cmd : string) (args : sexp list) : string =
  match cmd, args with
  | "replay", [A c; L reqs; L evs] ->
    let evs = List.map (function L [A k; A t] -> (k, int_of_string ("0x" ^ t)) | x -> failwith ("bad event " ^ string_of_sexp x)) evs in
    replay (bytes_of_hex c) (List.map reqs_of reqs) evs
  | "sched", [A ul; A c; L reqs; L sched] ->
    let content = bytes_of_hex c in
    let reqs = List.map reqs_of reqs in
    let s = ref (conc_init (nat_of_int (List.length content)) reqs) in
    List.iter (function A t -> s := conc_step (ul = "1") content !s (nat_of_hex t) | _ -> failwith "bad schedule") sched;
    "ok " ^ show_results !s (List.length reqs)
  | _ -> failwith ("conc: bad command " ^ cmd)
