(* m_wal.ml — driver commands for the file storage / undo log model (FileWal.v, C01)
     wal trace <d0 bytes> (<ops>)            -> the file system calls of the operation list
     wal recover <d0> (<ops>) <k> <j>        -> content recovered from crash cut (k, j)
     wal recoverg <d0> (<ops>) <k> <j>       -> the same through the guarded recovery (recover_g): bytes | error
     wal open <guard 0|1> <data> <log>       -> recovery of ARBITRARY files (a log the storage did not write):
                                                guard 1: recover_g -> bytes | error
                                                guard 0: recover -> bytes, or `beyond` when a record lies beyond the
                                                current end of the data (the sparse extension is not modelled here)
     wal rcalls <guard 0|1> <drop 0|1> <data> <log>  -> the file system calls of the recovery of these files
                                                (recovery_calls; drop 1: as issued by Drop = no repair, then flush),
                                                followed by `error` when the guard fires
   ops: (w <pos> <bytes>) | (r <len>) | f *)
open Model
open Util

let nat_of_hex h = N.to_nat (n_of_hex h)
let hex_of_nat n = hex_of_n (N.of_nat n)

let op_of (s : sexp) : op = match s with
  | L [A "w"; A p; A b] -> OWrite (nat_of_hex p, bytes_of_hex b)
  | L [A "r"; A n] -> OResize (nat_of_hex n)
  | A "f" -> OFlush
  | _ -> failwith ("bad op " ^ string_of_sexp s)

let str_sys = function
  | WalAppend b -> "(wa " ^ hex_of_bytes b ^ ")"
  | WalSetLen n -> "(ws " ^ hex_of_nat n ^ ")"
  | DataWrite (p, b) -> "(dw " ^ hex_of_nat p ^ " " ^ hex_of_bytes b ^ ")"
  | DataSetLen n -> "(ds " ^ hex_of_nat n ^ ")"

let st_of (d : byte list) : fstate = { data = d; wal = [] }

let handle (cmd : string) (args : sexp list) : string =
  match cmd, args with
  | "trace", [A d0; L ops] ->
    let st = st_of (bytes_of_hex d0) in
    String.concat " " (List.map str_sys (trace walrev_fixed st (List.map op_of ops)))
  | "recover", [A d0; L ops; A k; A j] ->
    let st = st_of (bytes_of_hex d0) in
    let cs = trace walrev_fixed st (List.map op_of ops) in
    let c = crash st cs (nat_of_hex k) (nat_of_hex j) in
    hex_of_bytes (recover walrev_fixed c).data
  | "recoverg", [A d0; L ops; A k; A j] ->
    let st = st_of (bytes_of_hex d0) in
    let cs = trace walrev_fixed st (List.map op_of ops) in
    let c = crash st cs (nat_of_hex k) (nat_of_hex j) in
    (match recover_g walrev_fixed c with Some r -> hex_of_bytes r.data | None -> "error")
  | "open", [A g; A d; A w] ->
    let st = { data = bytes_of_hex d; wal = bytes_of_hex w } in
    (match recover_g walrev_fixed st, g with
     | Some r, "1" -> hex_of_bytes r.data
     | None, "1" -> "error"
     | Some _, _ -> hex_of_bytes (recover walrev_fixed st).data
     | None, _ -> "beyond")
  | "rcalls", [A g; A drop; A d; A w] ->
    let st = { data = bytes_of_hex d; wal = bytes_of_hex w } in
    let (cs, ok) = recovery_calls (g = "1") st in
    let cs = if ok && drop = "1" then cs @ [WalSetLen O] else cs in
    String.concat " " (List.map str_sys cs) ^ (if ok then "" else " error")
  | _ -> failwith ("wal: bad command " ^ cmd)
