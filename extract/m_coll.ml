(* m_coll.ml — driver commands for the storage-backed collections (Collections.v; C05).
   The programs of Collections.v are executed on the extracted model of storage.rs (Storage.v), so
   the answer contains the EXACT record bytes and indexes.  Stateful.
     coll new <mem|file> <vec_u64|vec_i64|vec_str|vec_val|vec_kv|map_u64|map_str|graph>
     coll op <op>
   vector ops:   (push x) (replace i x) (remove i) (swap i j) (resize n x) (reserve n) shrink (value i) values len
   map-data ops: (set_state i s) (set_key i k) (set_value i v) (set_len n) (resize c) (swap i j) shrink
                 (state i) (key i) (value i) caplen
   graph ops:    (set f i v) (get f i) grow shrink cap free_index node_count (set_node_count n)      f = from|to|from_meta|to_meta
   all kinds:    reload   opt reopen copy
   values: u64 / i64 (two's complement) / state as hex numbers, strings as x<hex>, database values as in m_db.ml
   ((i -5) (u ff) (f <bits>) (s x..) (b x..) (vi ..) (vu ..) (vf ..) (vs ..)), key-value pairs (kv <k> <v>).
   answer: <obs> | <handle> | [<index>:<bytes> ...]      (every live record of the storage) *)
open Model
open Util

type inst = {
  run : 'a. 'a cprog -> 'a cres;
  live : unit -> (n * byte list) list;
}

let make_inst (ops : cdata store_ops) : inst =
  let (s0, _) = with_data ops { cur = []; dur = [] } in
  let st = ref s0 in
  { run = (fun p -> let (s', r) = cp_run (st_step ops) p !st in st := s'; r);
    live = (fun () -> live_values ops !st) }

type coll =
  | VecU of cv_vec | VecI of cv_vec | VecS of cv_vec | VecV of cv_vec | VecKV of cv_vec
  | MapU of cm_data | MapS of cm_data
  | Graph of cg_data

let cur_inst : inst option ref = ref None
let cur_coll : coll option ref = ref None

let n_of (s : sexp) = match s with A h -> n_of_hex h | _ -> failwith "n"
let b_of (s : sexp) = match s with A h -> bytes_of_hex h | _ -> failwith "bytes"

(* i64 travels as its u64 pattern *)
let two64 : n = n_of_hex "10000000000000000"
let z_of_u (x : n) : z = u2z x
let u_of_z (x : z) : n = z2u x
let zi_of (s : sexp) : z = z_of_u (n_of s)

(* database values: the text form of m_db.ml (which is compiled after this file) *)
let zh_of (s : sexp) : z = match s with A h -> z_of_hex h | _ -> failwith "z"
let dbv_of (s : sexp) : dbvalue = match s with
  | L [A "b"; x] -> DBytes (b_of x)
  | L [A "i"; x] -> DI64 (zh_of x)
  | L [A "u"; A h] -> DU64 (n_of_hex h)
  | L [A "f"; A h] -> DF64 (n_of_hex h)
  | L [A "s"; x] -> DString (b_of x)
  | L (A "vi" :: l) -> DVecI64 (List.map zh_of l)
  | L (A "vu" :: l) -> DVecU64 (List.map n_of l)
  | L (A "vf" :: l) -> DVecF64 (List.map n_of l)
  | L (A "vs" :: l) -> DVecString (List.map b_of l)
  | _ -> failwith ("bad value " ^ string_of_sexp s)
let dbkv_of (s : sexp) = match s with
  | L [A "kv"; k; v] -> (dbv_of k, dbv_of v)
  | _ -> failwith "kv"
let str_dbv (v : dbvalue) : string = match v with
  | DBytes b -> "(b " ^ hex_of_bytes b ^ ")"
  | DI64 z -> "(i " ^ hex_of_z z ^ ")"
  | DU64 n -> "(u " ^ hex_of_n n ^ ")"
  | DF64 n -> "(f " ^ hex_of_n n ^ ")"
  | DString b -> "(s " ^ hex_of_bytes b ^ ")"
  | DVecI64 l -> "(vi" ^ String.concat "" (List.map (fun z -> " " ^ hex_of_z z) l) ^ ")"
  | DVecU64 l -> "(vu" ^ String.concat "" (List.map (fun n -> " " ^ hex_of_n n) l) ^ ")"
  | DVecF64 l -> "(vf" ^ String.concat "" (List.map (fun n -> " " ^ hex_of_n n) l) ^ ")"
  | DVecString l -> "(vs" ^ String.concat "" (List.map (fun b -> " " ^ hex_of_bytes b) l) ^ ")"
let str_dbkv ((k, v) : dbvalue * dbvalue) = "(kv " ^ str_dbv k ^ " " ^ str_dbv v ^ ")"

let str_serr = function
  | SeNotFound -> "NotFound" | SeOutOfBounds -> "OutOfBounds" | SeNotAllowed -> "NotAllowed" | SeNotEnoughData -> "NotEnoughData"
let str_err = function
  | CvIndex -> "OutOfBounds" | CvVecLen -> "OutOfBounds" | CvStorage e -> str_serr e | CvData -> "Data"

let maint_of = function
  | A "opt" -> Some SOptimize | A "reopen" -> Some SReopen | A "copy" -> Some SReopenCopy | _ -> None

(* ---- vectors ---- *)
let vec_op (pv : sexp -> 'a) (s : sexp) : 'a cv_op = match s with
  | L [A "push"; x] -> VoPush (pv x)
  | L [A "replace"; i; x] -> VoReplace (n_of i, pv x)
  | L [A "remove"; i] -> VoRemove (n_of i)
  | L [A "swap"; i; j] -> VoSwap (n_of i, n_of j)
  | L [A "resize"; n; x] -> VoResize (n_of n, pv x)
  | L [A "reserve"; n] -> VoReserve (n_of n)
  | A "shrink" -> VoShrink
  | L [A "value"; i] -> VoValue (n_of i)
  | A "values" -> VoValues
  | A "len" -> VoLen
  | A "reload" -> VoReload
  | m -> (match maint_of m with Some o -> VoMaint o | None -> failwith ("bad vector op " ^ string_of_sexp s))

let vec_obs (sv : 'a -> string) (v : 'a cv_obs) : string = match v with
  | VbUnit -> "u"
  | VbVal x -> "v " ^ sv x
  | VbVals l -> "vs [" ^ String.concat " " (List.map sv l) ^ "]"
  | VbNum n -> "n " ^ hex_of_n n
  | VbErr e -> "e " ^ str_err e

let str_vec (h : cv_vec) = hex_of_n h.cv_index ^ "," ^ hex_of_n h.cv_len ^ "," ^ hex_of_n h.cv_cap

(* ---- map data ---- *)
let st_of (s : sexp) : cm_st = match n_of s with
  | N0 -> StEmpty | Npos XH -> StValid | _ -> StDeleted
let str_st = function StEmpty -> "0" | StValid -> "1" | StDeleted -> "2"

let map_op (pk : sexp -> 'k) (s : sexp) : ('k, n) cm_op = match s with
  | L [A "set_state"; i; x] -> MoSetState (n_of i, st_of x)
  | L [A "set_key"; i; k] -> MoSetKey (n_of i, pk k)
  | L [A "set_value"; i; v] -> MoSetValue (n_of i, n_of v)
  | L [A "set_len"; n] -> MoSetLen (n_of n)
  | L [A "resize"; c] -> MoResize (n_of c)
  | L [A "swap"; i; j] -> MoSwap (n_of i, n_of j)
  | A "shrink" -> MoShrink
  | L [A "state"; i] -> MoState (n_of i)
  | L [A "key"; i] -> MoKey (n_of i)
  | L [A "value"; i] -> MoValue (n_of i)
  | A "caplen" -> MoCapLen
  | A "reload" -> MoReload
  | m -> (match maint_of m with Some o -> MoMaint o | None -> failwith ("bad map op " ^ string_of_sexp s))

let map_obs (sk : 'k -> string) (v : ('k, n) cm_obs) : string = match v with
  | MbUnit -> "u"
  | MbState s -> "s " ^ str_st s
  | MbKey k -> "k " ^ sk k
  | MbVal x -> "v " ^ hex_of_n x
  | MbNums (c, l) -> "n " ^ hex_of_n c ^ " " ^ hex_of_n l
  | MbErr e -> "e " ^ str_err e

let str_map (d : cm_data) = hex_of_n d.cm_index ^ "," ^ hex_of_n d.cm_len ^ "," ^ hex_of_n d.cm_states.cv_len

(* ---- graph data ---- *)
let field_of = function
  | A "from" -> GfFrom | A "to" -> GfTo | A "from_meta" -> GfFromMeta | A "to_meta" -> GfToMeta
  | s -> failwith ("bad field " ^ string_of_sexp s)

let str_graph (g : cg_data) = hex_of_n g.cg_index ^ "," ^ hex_of_n g.cg_from.cv_len

let str_res (f : 'a -> string) (r : 'a cres) : string = match r with
  | CrOk a -> f a | CrErr e -> "e " ^ str_err e | CrDead -> "panic"

let dump (i : inst) : string =
  "[" ^ String.concat " " (List.map (fun (k, b) -> hex_of_n k ^ ":" ^ hex_of_bytes b) (i.live ())) ^ "]"

let hz (x : z) = hex_of_n (u_of_z x)

let handle (cmd : string) (args : sexp list) : string =
  match cmd, args with
  | "new", [A backend; A kind] ->
    let i = make_inst (match backend with "mem" -> ops_mem | "file" -> ops_file | _ -> failwith ("bad back-end " ^ backend)) in
    cur_inst := Some i;
    let fin c s = cur_coll := Some c; "new | " ^ s ^ " | " ^ dump i in
    let dead () = cur_coll := None; "panic" in
    (match kind with
     | "vec_u64" -> (match i.run cv_new with CrOk h -> fin (VecU h) (str_vec h) | _ -> dead ())
     | "vec_i64" -> (match i.run cv_new with CrOk h -> fin (VecI h) (str_vec h) | _ -> dead ())
     | "vec_str" -> (match i.run cv_new with CrOk h -> fin (VecS h) (str_vec h) | _ -> dead ())
     | "vec_val" -> (match i.run cv_new with CrOk h -> fin (VecV h) (str_vec h) | _ -> dead ())
     | "vec_kv" -> (match i.run cv_new with CrOk h -> fin (VecKV h) (str_vec h) | _ -> dead ())
     | "map_u64" -> (match i.run (cm_new) with CrOk d -> fin (MapU d) (str_map d) | _ -> dead ())
     | "map_str" -> (match i.run (cm_new) with CrOk d -> fin (MapS d) (str_map d) | _ -> dead ())
     | "graph" -> (match i.run cg_new with CrOk g -> fin (Graph g) (str_graph g) | _ -> dead ())
     | _ -> failwith ("bad kind " ^ kind))
  | "op", [o] ->
    (match !cur_inst, !cur_coll with
     | Some i, Some c ->
       let out obs hs = obs ^ " | " ^ hs ^ " | " ^ dump i in
       (match c with
        | VecU h ->
          (match i.run (cv_step ce_u64 h (vec_op n_of o)) with
           | CrOk (h', v) -> cur_coll := Some (VecU h'); out (vec_obs hex_of_n v) (str_vec h')
           | r -> out (str_res (fun _ -> "") r) (str_vec h))
        | VecI h ->
          (match i.run (cv_step ce_i64 h (vec_op zi_of o)) with
           | CrOk (h', v) -> cur_coll := Some (VecI h'); out (vec_obs hz v) (str_vec h')
           | r -> out (str_res (fun _ -> "") r) (str_vec h))
        | VecS h ->
          (match i.run (cv_step ce_string h (vec_op b_of o)) with
           | CrOk (h', v) -> cur_coll := Some (VecS h'); out (vec_obs hex_of_bytes v) (str_vec h')
           | r -> out (str_res (fun _ -> "") r) (str_vec h))
        | VecV h ->
          (match i.run (cv_step ce_dbvalue h (vec_op dbv_of o)) with
           | CrOk (h', v) -> cur_coll := Some (VecV h'); out (vec_obs str_dbv v) (str_vec h')
           | r -> out (str_res (fun _ -> "") r) (str_vec h))
        | VecKV h ->
          (match i.run (cv_step ce_dbkv h (vec_op dbkv_of o)) with
           | CrOk (h', v) -> cur_coll := Some (VecKV h'); out (vec_obs str_dbkv v) (str_vec h')
           | r -> out (str_res (fun _ -> "") r) (str_vec h))
        | MapU d ->
          (match i.run (cm_step ce_u64 ce_u64 N0 N0 d (map_op n_of o)) with
           | CrOk (d', v) -> cur_coll := Some (MapU d'); out (map_obs hex_of_n v) (str_map d')
           | r -> out (str_res (fun _ -> "") r) (str_map d))
        | MapS d ->
          (match i.run (cm_step ce_string ce_u64 [] N0 d (map_op b_of o)) with
           | CrOk (d', v) -> cur_coll := Some (MapS d'); out (map_obs hex_of_bytes v) (str_map d')
           | r -> out (str_res (fun _ -> "") r) (str_map d))
        | Graph g ->
          let go : cg_op option = (match o with
              | L [A "set"; f; ix; v] -> Some (GoSet (field_of f, zi_of ix, zi_of v))
              | L [A "get"; f; ix] -> Some (GoGet (field_of f, zi_of ix))
              | A "grow" -> Some GoGrow
              | A "shrink" -> Some GoShrink
              | A "cap" -> Some GoCap
              | A "reload" -> Some GoReload
              | m -> (match maint_of m with Some x -> Some (GoMaint x) | None -> None)) in
          (match go with
           | Some op ->
             (match i.run (cg_step g op) with
              | CrOk (g', v) ->
                cur_coll := Some (Graph g');
                out (match v with GbUnit -> "u" | GbVal z -> "v " ^ hz z | GbNum n -> "n " ^ hex_of_n n | GbErr e -> "e " ^ str_err e) (str_graph g')
              | r -> out (str_res (fun _ -> "") r) (str_graph g))
           | None ->
             (match o with
              | A "free_index" -> out (str_res (fun z -> "v " ^ hz z) (i.run (cg_free_index g))) (str_graph g)
              | A "node_count" -> out (str_res (fun n -> "n " ^ hex_of_n n) (i.run (cg_node_count g))) (str_graph g)
              | L [A "set_node_count"; n] -> out (str_res (fun () -> "u") (i.run (cg_set_node_count g (n_of n)))) (str_graph g)
              | _ -> failwith ("bad graph op " ^ string_of_sexp o))))
     | _, _ -> "panic")
  | _ -> failwith ("coll: bad command " ^ cmd)
