(* m_ops.ml — driver command for the core mutations as storage programs (theories/StoredDbOps.v; C05 L3, correspondence (d)).
     ops run <op> x<file bytes>
   op:  (node <kv>...)            so_q_insert_node h l        = QueryBuilder::insert().nodes().values([l])
        (values <id> <kv>...)     so_q_insert_values h id l   = QueryBuilder::insert().values([l]).ids(id)      (id: signed hex)
        (edge <from> <to>)        so_q_insert_edge h from to  = QueryBuilder::insert().edges().from(from).to(to)
        (remove <id>)             so_q_remove h id            = QueryBuilder::remove().ids(id)   (an edge, or a node without edges and alias)
   key-value pairs and database values in the text form of m_db.ml / m_coll.ml: (kv <k> <v>).
   The file bytes are the image of a REAL, closed database file.  The extracted model of storage.rs opens the image the way
   FileStorage::new does (Storage.with_data on the byte store: version record, record table, free lists), the program
   `h <~ so_open 1 ;; so_q_... h args` runs on it through cp_run (st_step ops_file), and the answer lists every live record
   of the model storage before and after:
     answer:  pre=[<index>:<bytes> ...] ret=<id <z> | none | u | e <kind> | panic> post=[<index>:<bytes> ...]
              | open-failed                       (the storage model could not open the image)
   The harness produces the same line from the real file (raw records through VStorage<FileStorage> only). *)
open Model
open Util

let zh_of (s : sexp) : z = match s with A h -> z_of_hex h | _ -> failwith "z"

let dump_live (l : (n * byte list) list) : string =
  "[" ^ String.concat " " (List.filter_map (fun (k, b) -> if k = N0 then None else Some (hex_of_n k ^ ":" ^ hex_of_bytes b)) l) ^ "]"

let str_res (f : 'a -> string) (r : 'a cres) : string = match r with
  | CrOk a -> f a | CrErr e -> "e " ^ M_coll.str_err e | CrDead -> "panic"

let root1 : n = Npos XH

let handle (cmd : string) (args : sexp list) : string =
  match cmd, args with
  | "run", [op; A file] ->
    let image = bytes_of_hex file in
    let (s0, r0) = with_data ops_file { cur = image; dur = image } in
    (match r0 with
     | ROk1 _ ->
       let pre = dump_live (live_values ops_file s0) in
       let step = st_step ops_file in
       let (s1, ret) = (match op with
           | L (A "node" :: l) ->
             let l = List.map M_coll.dbkv_of l in
             let (s1, r) = cp_run step (cbind (so_open root1) (fun h -> so_q_insert_node h l)) s0 in
             (s1, str_res (fun (_, id) -> "id " ^ hex_of_z id) r)
           | L (A "values" :: id :: l) ->
             let l = List.map M_coll.dbkv_of l in
             let (s1, r) = cp_run step (cbind (so_open root1) (fun h -> so_q_insert_values h (zh_of id) l)) s0 in
             (s1, str_res (fun _ -> "u") r)
           | L [A "remove"; id] ->
             let (s1, r) = cp_run step (cbind (so_open root1) (fun h -> so_q_remove h (zh_of id))) s0 in
             (s1, str_res (fun _ -> "u") r)
           | L [A "edge"; f; t] ->
             let (s1, r) = cp_run step (cbind (so_open root1) (fun h -> so_q_insert_edge h (zh_of f) (zh_of t))) s0 in
             (s1, str_res (fun (_, e) -> match e with Some id -> "id " ^ hex_of_z id | None -> "none") r)
           | _ -> failwith ("ops: bad operation " ^ string_of_sexp op)) in
       "pre=" ^ pre ^ " ret=" ^ ret ^ " post=" ^ dump_live (live_values ops_file s1)
     | _ -> "open-failed")
  | _ -> failwith ("ops: bad command " ^ cmd)
