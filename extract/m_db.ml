(* m_db.ml — driver commands for the database model (DbModel / Search / Queries).
   Stateful: the commands operate on a current database.
     db reset <rev>                      rev = "pinned" | "fixed" | explicit 6 bits e.g. 101101
     db exec <query>                     one query = one transaction
     db txn <0|1 fail_at_end> <query>*   multi-query transaction
     db dump | db dumpn                  ordered / order-normalised full dump *)
open Model
open Util

let rv_of_string s : revision =
  let b i = s.[i] = '1' in
  match s with
  | "pinned" -> { fix_rollback_replace = false; fix_alias_steal_undo = false; fix_alias_nodes_only = false;
                  fix_strict_order = false; fix_slice_clamp = false; fix_edge_origin = false; fix_visited_chain = false;
                  fix_nodes_ids_alias = false; fix_empty_alias = false }
  | "fixed" -> { fix_rollback_replace = true; fix_alias_steal_undo = true; fix_alias_nodes_only = true;
                 fix_strict_order = true; fix_slice_clamp = true; fix_edge_origin = true; fix_visited_chain = true;
                 fix_nodes_ids_alias = true; fix_empty_alias = true }
  | _ -> { fix_rollback_replace = b 0; fix_alias_steal_undo = b 1; fix_alias_nodes_only = b 2;
           fix_strict_order = b 3; fix_slice_clamp = b 4; fix_edge_origin = b 5;
           fix_visited_chain = (String.length s > 6 && b 6);
           fix_nodes_ids_alias = (String.length s > 7 && b 7);
           fix_empty_alias = (String.length s > 8 && b 8) }

let cur_rv = ref (rv_of_string "pinned")
let cur_db = ref db_new

(* ---- parsing ---- *)
let z_of (s : sexp) = match s with A h -> z_of_hex h | _ -> failwith "z"
let bytes_of (s : sexp) = match s with A h -> bytes_of_hex h | _ -> failwith "bytes"

let value_of (s : sexp) : dbvalue = match s with
  | L [A "b"; x] -> DBytes (bytes_of x)
  | L [A "i"; x] -> DI64 (z_of x)
  | L [A "u"; A h] -> DU64 (n_of_hex h)
  | L [A "f"; A h] -> DF64 (n_of_hex h)
  | L [A "s"; x] -> DString (bytes_of x)
  | L (A "vi" :: l) -> DVecI64 (List.map z_of l)
  | L (A "vu" :: l) -> DVecU64 (List.map (function A h -> n_of_hex h | _ -> failwith "vu") l)
  | L (A "vf" :: l) -> DVecF64 (List.map (function A h -> n_of_hex h | _ -> failwith "vf") l)
  | L (A "vs" :: l) -> DVecString (List.map bytes_of l)
  | _ -> failwith ("bad value " ^ string_of_sexp s)

let kv_of (s : sexp) = match s with
  | L [A "kv"; k; v] -> (value_of k, value_of v)
  | _ -> failwith "kv"

let qid_of (s : sexp) : qid = match s with
  | L [A "id"; x] -> QId (z_of x)
  | L [A "al"; x] -> QAlias (bytes_of x)
  | _ -> failwith "qid"

let cc_of (s : sexp) : count_cmp = match s with
  | L [A "eq"; x] -> KEqual (z_of x) | L [A "gt"; x] -> KGreaterThan (z_of x)
  | L [A "ge"; x] -> KGreaterThanOrEqual (z_of x) | L [A "lt"; x] -> KLessThan (z_of x)
  | L [A "le"; x] -> KLessThanOrEqual (z_of x) | L [A "ne"; x] -> KNotEqual (z_of x)
  | _ -> failwith "count comparison"

let op_of = function
  | "eq" -> CEqual | "gt" -> CGreaterThan | "ge" -> CGreaterThanOrEqual | "lt" -> CLessThan
  | "le" -> CLessThanOrEqual | "ne" -> CNotEqual | "contains" -> CContains
  | "startswith" -> CStartsWith | "endswith" -> CEndsWith | s -> failwith ("op " ^ s)

let rec cond_of (s : sexp) : cond = match s with
  | L [A "c"; A lg; A md; data] ->
    let l = (match lg with "and" -> LAnd | "or" -> LOr | _ -> failwith "logic") in
    let m = (match md with "none" -> MNone | "beyond" -> MBeyond | "not" -> MNot | "notbeyond" -> MNotBeyond
                          | _ -> failwith "modifier") in
    Cond (l, m, data_of data)
  | _ -> failwith ("cond " ^ string_of_sexp s)
and data_of (s : sexp) : cond_data = match s with
  | L [A "distance"; c] -> CDistance (cc_of c)
  | A "edge" -> CEdge
  | L [A "edgecount"; c] -> CEdgeCount (cc_of c)
  | L [A "edgecountfrom"; c] -> CEdgeCountFrom (cc_of c)
  | L [A "edgecountto"; c] -> CEdgeCountTo (cc_of c)
  | L (A "cids" :: l) -> CIds (List.map qid_of l)
  | L [A "keyvalue"; k; A op; v] -> CKeyValue (value_of k, op_of op, value_of v)
  | L (A "keys" :: l) -> CKeys (List.map value_of l)
  | A "node" -> CNode
  | L (A "where" :: l) -> CWhere (List.map cond_of l)
  | _ -> failwith ("cond data " ^ string_of_sexp s)

let search_of (s : sexp) : search_query = match s with
  | L [A "sq"; A alg; o; d; lim; off; L (A "order" :: ords); L (A "conds" :: cs)] ->
    { s_algorithm = (match alg with "b" -> ABreadthFirst | "d" -> ADepthFirst | "i" -> AIndex | "e" -> AElements
                                    | _ -> failwith "alg");
      s_origin = qid_of o; s_destination = qid_of d; s_limit = z_of lim; s_offset = z_of off;
      s_order_by = List.map (function L [A "asc"; v] -> Asc (value_of v) | L [A "desc"; v] -> Desc (value_of v)
                                      | _ -> failwith "order") ords;
      s_conditions = List.map cond_of cs }
  | _ -> failwith ("search " ^ string_of_sexp s)

let qids_of (s : sexp) : qids = match s with
  | L (A "ids" :: l) -> Ids (List.map qid_of l)
  | L [A "search"; q] -> QSearch (search_of q)
  | _ -> failwith "qids"

let qvalues_of (s : sexp) : qvalues = match s with
  | L (A "single" :: l) -> Single (List.map kv_of l)
  | L (A "multi" :: l) -> Multi (List.map (function L (A "kvs" :: k) -> List.map kv_of k | _ -> failwith "kvs") l)
  | _ -> failwith "qvalues"

let aliases_of (s : sexp) = match s with
  | L (A "aliases" :: l) -> List.map bytes_of l | _ -> failwith "aliases"
let keys_of (s : sexp) = match s with
  | L (A "keys" :: l) -> List.map value_of l | _ -> failwith "keys"
let bool_of (s : sexp) = match s with A "1" -> true | A "0" -> false | _ -> failwith "bool"

let query_of (s : sexp) : query = match s with
  | L [A "insert_nodes"; c; v; a; i] -> InsertNodes (z_of c, qvalues_of v, aliases_of a, qids_of i)
  | L [A "insert_edges"; f; t; v; e; i] -> InsertEdges (qids_of f, qids_of t, qvalues_of v, bool_of e, qids_of i)
  | L [A "insert_aliases"; i; a] -> InsertAliases (qids_of i, aliases_of a)
  | L [A "insert_values"; i; v] -> InsertValues (qids_of i, qvalues_of v)
  | L [A "insert_index"; k] -> InsertIndex (value_of k)
  | L [A "remove_index"; k] -> RemoveIndex (value_of k)
  | L [A "remove"; i] -> Remove (qids_of i)
  | L [A "remove_aliases"; a] -> RemoveAliases (aliases_of a)
  | L [A "remove_values"; i; k] -> RemoveValues (qids_of i, keys_of k)
  | L [A "select_values"; k; i] -> SelectValues (keys_of k, qids_of i)
  | L [A "select_keys"; i] -> SelectKeys (qids_of i)
  | L [A "select_key_count"; i] -> SelectKeyCount (qids_of i)
  | L [A "select_aliases"; i] -> SelectAliases (qids_of i)
  | A "select_all_aliases" -> SelectAllAliases
  | L [A "select_edge_count"; i; f; t] -> SelectEdgeCount (qids_of i, bool_of f, bool_of t)
  | A "select_indexes" -> SelectIndexes
  | A "select_node_count" -> SelectNodeCount
  | L [A "search_q"; q] -> SearchQ (search_of q)
  | _ -> failwith ("bad query " ^ string_of_sexp s)

(* ---- printing ---- *)
let str_value (v : dbvalue) : string = match v with
  | DBytes b -> "(b " ^ hex_of_bytes b ^ ")"
  | DI64 z -> "(i " ^ hex_of_z z ^ ")"
  | DU64 n -> "(u " ^ hex_of_n n ^ ")"
  | DF64 n -> "(f " ^ hex_of_n n ^ ")"
  | DString b -> "(s " ^ hex_of_bytes b ^ ")"
  | DVecI64 l -> "(vi" ^ String.concat "" (List.map (fun z -> " " ^ hex_of_z z) l) ^ ")"
  | DVecU64 l -> "(vu" ^ String.concat "" (List.map (fun n -> " " ^ hex_of_n n) l) ^ ")"
  | DVecF64 l -> "(vf" ^ String.concat "" (List.map (fun n -> " " ^ hex_of_n n) l) ^ ")"
  | DVecString l -> "(vs" ^ String.concat "" (List.map (fun b -> " " ^ hex_of_bytes b) l) ^ ")"

let str_kv ((k, v) : dbvalue * dbvalue) = "(kv " ^ str_value k ^ " " ^ str_value v ^ ")"

let str_err = function
  | EDbCreate -> "DbCreate" | EInvalidIndex -> "InvalidIndex" | ENotAllowed -> "NotAllowed"
  | ENotEnoughData -> "NotEnoughData" | ENotFound -> "NotFound" | EOutOfBounds -> "OutOfBounds"
  | ETypeError -> "TypeError" | EFuel -> "FUEL"

let str_elem (e : element) =
  "(e " ^ hex_of_z e.e_id ^ " " ^ hex_of_z e.e_from ^ " " ^ hex_of_z e.e_to
  ^ String.concat "" (List.map (fun x -> " " ^ str_kv x) e.e_values) ^ ")"

let cmp_z (a : z) (b : z) : int = match Z.compare a b with Eq -> 0 | Lt -> -1 | Gt -> 1

let str_qres (sort_by_id : bool) (r : qres) : string = match r with
  | QOk (n, els) ->
    let els = if sort_by_id then List.sort (fun (a : element) b -> cmp_z a.e_id b.e_id) els else els in
    "ok " ^ hex_of_z n ^ String.concat "" (List.map (fun e -> " " ^ str_elem e) els)
  | QErr e -> "err " ^ str_err e
  | QPanic -> "panic"

let is_index_search (q : query) = match q with
  | SearchQ s -> (match s.s_algorithm with AIndex -> true | _ -> false)
  | _ -> false

(* ---- dumps ---- *)
let dump (normalise : bool) (d : db) : string =
  let g = d.gr in
  let els = elements g in
  let b = Buffer.create 1024 in
  Buffer.add_string b ("nc=" ^ hex_of_z (node_count g));
  let sortz l = if normalise then List.sort cmp_z l else l in
  let sorts l = if normalise then List.sort compare l else l in
  List.iter (fun id ->
      let isn = (match Z.compare id Z0 with Gt -> true | _ -> false) in
      let alias = (match imap_key d.aliases id with Some a -> hex_of_bytes a | None -> "-") in
      let zl l = String.concat "," (List.map hex_of_z l) in
      let kvs = sorts (List.map str_kv (kvs_get d.vals id)) in
      Buffer.add_string b (" | " ^ hex_of_z id);
      if isn then
        Buffer.add_string b (" a=" ^ alias ^ " out=[" ^ zl (sortz (out_edges g id)) ^ "] in=[" ^ zl (sortz (in_edges g id)) ^ "] c="
                             ^ hex_of_z (edge_count_from g id) ^ "/" ^ hex_of_z (edge_count_to g id))
      else
        Buffer.add_string b (" f=" ^ hex_of_z (edge_from g id) ^ " t=" ^ hex_of_z (edge_to g id)
                             ^ (if alias = "-" then "" else " a=" ^ alias));
      Buffer.add_string b (" kv=[" ^ String.concat " " kvs ^ "]")) els;
  (* aliases (sorted) *)
  let al = List.sort compare (List.map (fun (a, id) -> hex_of_bytes a ^ "=" ^ hex_of_z id) d.aliases.k2v) in
  Buffer.add_string b (" || aliases " ^ String.concat " " al);
  (* indexes: per index the count and, for every value present on some element under that key, the sorted ids *)
  let idx = List.map (fun (key, ids) ->
      let present = List.sort_uniq compare
          (List.concat_map (fun id ->
               List.filter_map (fun (k, v) -> if dbv_eqb k key then Some (str_value v) else None) (kvs_get d.vals id)) els) in
      let per = List.map (fun vs ->
          let l = List.filter_map (fun (v, id) -> if str_value v = vs then Some id else None) ids in
          vs ^ ":" ^ String.concat "," (List.map hex_of_z (List.sort cmp_z l))) present in
      "idx " ^ str_value key ^ " n=" ^ string_of_int (List.length ids) ^ " {" ^ String.concat ";" per ^ "}") d.indexes in
  let idx = if normalise then List.sort compare idx else idx in
  Buffer.add_string b (" || " ^ String.concat " " idx);
  Buffer.contents b

let handle (cmd : string) (args : sexp list) : string =
  match cmd, args with
  | "reset", [A r] -> cur_rv := rv_of_string r; cur_db := db_new; "reset"
  | "exec", [q] ->
    let q = query_of q in
    let (d, r) = exec !cur_rv !cur_db q in
    cur_db := d; str_qres (is_index_search q) r
  | "txn", (A f :: qs) ->
    let qs = List.map query_of qs in
    let (d, rs) = transaction !cur_rv !cur_db qs (f = "1") in
    cur_db := d;
    if List.exists (function QPanic -> true | _ -> false) rs then "panic"
    else "txn " ^ String.concat " ; " (List.map (str_qres false) rs)
  | "dump", [] -> dump false !cur_db
  | "dumpn", [] -> dump true !cur_db
  | _ -> failwith ("db: bad command " ^ cmd)
