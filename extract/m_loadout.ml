(* m_loadout.ml — driver command for the outcome of loading a database from an ARBITRARY record store
   (theories/LoadOutcome.v; C07 above the storage layer).
     lo load <root> (<index> x<bytes>) (<index> x<bytes>) ...
   The arguments are the record store of a (damaged) database file whose storage layer opened: every live record
   with its raw bytes, read by the harness through the storage layer only.  Answer:
     open=<opens|error|panic|alloc|fresh|legacy> read=<db <ordered dump>|error|panic|alloc|->
   `open` is the outcome class of DbImpl::new itself; `read` the outcome of the complete read of the opened
   database (`-` when it did not open); together they are `load_outcome`. *)
open Model
open Util

let record_of (s : sexp) : n * byte list = match s with
  | L [A i; A b] -> (n_of_hex i, bytes_of_hex b)
  | _ -> failwith ("bad record " ^ string_of_sexp s)

let handle (cmd : string) (args : sexp list) : string =
  match cmd, args with
  | "load", (A root :: recs) ->
    let m = List.map record_of recs in
    let r = n_of_hex root in
    let cls = int_of_n (lo_open_class m r) in
    let o = (match cls with 0 -> "opens" | 1 -> "error" | 2 -> "panic" | 3 -> "alloc" | 4 -> "fresh" | _ -> "legacy") in
    let rd =
      if cls = 4 then "db " ^ M_db.dump false db_new      (* a new, empty database is created *)
      else if cls <> 0 then "-"
      else (match load_outcome m r with
          | Loaded d -> (try "db " ^ M_db.dump false d with Stack_overflow -> "db ?")   (* the dump walks a damaged graph *)
          | LErr -> "error"
          | LPanic -> "panic"
          | LHugeAlloc _ -> "alloc"
          | LFresh -> "fresh"
          | LLegacy -> "legacy") in
    "open=" ^ o ^ " read=" ^ rd
  | _ -> failwith ("lo: bad command " ^ cmd)
