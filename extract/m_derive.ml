(* m_derive.ml — driver commands for the derive model (DeriveType.v, C22)
     derive tovalues <desc> (<svals>)              -> (<kv> ...)       to_db_values
     derive fromelement <desc> <id> (<kv> ...)     -> ok <svals> | err | panic | alloc | fuel      from_db_element
     derive update (<kv> ...) <desc> (<svals>)     -> (<kv> ...)       the element's pairs after insert-or-replace of to_db_values
     derive keys <0|1 fixed> <desc>                -> (<name> ...)     db_keys
     derive select <0|1 fixed> <desc> (<kv> ...)   -> (<kv> ...) | err the pairs select().elements::<T>().ids(id) returns
   desc  : (desc <element name | -> <field>...)
   field : (plain <name> <kind>) | (opt <name> <kind>) | (flatten <field>...) | (skip 0|1) | (dbid opt|req)
   kind  : u64 i64 f64 u32 i32 bool str bytes vi64 vu64 vf64 vstr vi32 vu32 vbool (custom <ty>) (vcustom <ty>)
   sval  : (p <fval>) | (o none) | (o <fval>) | (fl <sval>...) | skip | (id none|<hex>) *)
open Model
open Util

let kind_of (s : sexp) : fkind = match s with
  | A "u64" -> KU64 | A "i64" -> KI64 | A "f64" -> KF64 | A "u32" -> KU32 | A "i32" -> KI32 | A "bool" -> KBool
  | A "str" -> KStr | A "bytes" -> KBytes | A "vi64" -> KVecI64 | A "vu64" -> KVecU64 | A "vf64" -> KVecF64
  | A "vstr" -> KVecStr | A "vi32" -> KVecI32 | A "vu32" -> KVecU32 | A "vbool" -> KVecBool
  | L [A "custom"; t] -> KCustom (M_codec.ty_of_sexp t)
  | L [A "vcustom"; t] -> KVecCustom (M_codec.ty_of_sexp t)
  | _ -> failwith ("bad kind " ^ string_of_sexp s)

let rec field_of (s : sexp) : fdesc = match s with
  | L [A "plain"; A n; k] -> DPlain (bytes_of_hex n, kind_of k)
  | L [A "opt"; A n; k] -> DOpt (bytes_of_hex n, kind_of k)
  | L (A "flatten" :: fs) -> DFlatten (List.map field_of fs)
  | L [A "skip"; A o] -> DSkip (o = "1")
  | L [A "dbid"; A o] -> DId (o = "opt")
  | _ -> failwith ("bad field " ^ string_of_sexp s)

let desc_of (s : sexp) : byte list option * fdesc list = match s with
  | L (A "desc" :: A e :: fs) -> ((if e = "-" then None else Some (bytes_of_hex e)), List.map field_of fs)
  | _ -> failwith ("bad desc " ^ string_of_sexp s)

let n_of = function A h -> n_of_hex h | _ -> failwith "n"
let z_of = function A h -> z_of_hex h | _ -> failwith "z"
let b_of = function A "1" -> true | A "0" -> false | _ -> failwith "bool"
let bs_of = function A h -> bytes_of_hex h | _ -> failwith "bytes"

let fval_of (s : sexp) : fval = match s with
  | L [A "u64"; x] -> FU64 (n_of x) | L [A "i64"; x] -> FI64 (z_of x) | L [A "f64"; x] -> FF64 (n_of x)
  | L [A "u32"; x] -> FU32 (n_of x) | L [A "i32"; x] -> FI32 (z_of x) | L [A "bool"; x] -> FBool (b_of x)
  | L [A "str"; x] -> FStr (bs_of x) | L [A "bytes"; x] -> FBytes (bs_of x)
  | L (A "vi64" :: l) -> FVecI64 (List.map z_of l) | L (A "vu64" :: l) -> FVecU64 (List.map n_of l)
  | L (A "vf64" :: l) -> FVecF64 (List.map n_of l) | L (A "vstr" :: l) -> FVecStr (List.map bs_of l)
  | L (A "vi32" :: l) -> FVecI32 (List.map z_of l) | L (A "vu32" :: l) -> FVecU32 (List.map n_of l)
  | L (A "vbool" :: l) -> FVecBool (List.map b_of l)
  | L [A "custom"; v] -> FCustom (M_codec.val_of_sexp v)
  | L (A "vcustom" :: l) -> FVecCustom (List.map M_codec.val_of_sexp l)
  | _ -> failwith ("bad fval " ^ string_of_sexp s)

let rec sval_of (s : sexp) : sval = match s with
  | L [A "p"; v] -> SPlain (fval_of v)
  | L [A "o"; A "none"] -> SOpt None
  | L [A "o"; v] -> SOpt (Some (fval_of v))
  | L (A "fl" :: l) -> SFlat (List.map sval_of l)
  | A "skip" -> SSkip
  | L [A "id"; A "none"] -> SId None
  | L [A "id"; x] -> SId (Some (z_of x))
  | _ -> failwith ("bad sval " ^ string_of_sexp s)

let sp f l = String.concat "" (List.map (fun x -> " " ^ f x) l)
let str_b b = if b then "1" else "0"

let str_fval (v : fval) : string = match v with
  | FU64 n -> "(u64 " ^ hex_of_n n ^ ")" | FI64 z -> "(i64 " ^ hex_of_z z ^ ")" | FF64 n -> "(f64 " ^ hex_of_n n ^ ")"
  | FU32 n -> "(u32 " ^ hex_of_n n ^ ")" | FI32 z -> "(i32 " ^ hex_of_z z ^ ")" | FBool b -> "(bool " ^ str_b b ^ ")"
  | FStr s -> "(str " ^ hex_of_bytes s ^ ")" | FBytes s -> "(bytes " ^ hex_of_bytes s ^ ")"
  | FVecI64 l -> "(vi64" ^ sp hex_of_z l ^ ")" | FVecU64 l -> "(vu64" ^ sp hex_of_n l ^ ")"
  | FVecF64 l -> "(vf64" ^ sp hex_of_n l ^ ")" | FVecStr l -> "(vstr" ^ sp hex_of_bytes l ^ ")"
  | FVecI32 l -> "(vi32" ^ sp hex_of_z l ^ ")" | FVecU32 l -> "(vu32" ^ sp hex_of_n l ^ ")"
  | FVecBool l -> "(vbool" ^ sp str_b l ^ ")"
  | FCustom v -> "(custom " ^ string_of_sexp (M_codec.sexp_of_val v) ^ ")"
  | FVecCustom l -> "(vcustom" ^ sp (fun v -> string_of_sexp (M_codec.sexp_of_val v)) l ^ ")"

let rec str_sval (v : sval) : string = match v with
  | SPlain x -> "(p " ^ str_fval x ^ ")"
  | SOpt None -> "(o none)"
  | SOpt (Some x) -> "(o " ^ str_fval x ^ ")"
  | SFlat l -> "(fl " ^ String.concat " " (List.map str_sval l) ^ ")"
  | SSkip -> "skip"
  | SId None -> "(id none)"
  | SId (Some z) -> "(id " ^ hex_of_z z ^ ")"

let str_kvs (l : (dbvalue * dbvalue) list) = "(" ^ String.concat " " (List.map M_db.str_kv l) ^ ")"
let kvs_of (s : sexp) = match s with L l -> List.map M_db.kv_of l | _ -> failwith "kvs"
let svals_of (s : sexp) = match s with L l -> List.map sval_of l | _ -> failwith "svals"

let handle (cmd : string) (args : sexp list) : string =
  match cmd, args with
  | "tovalues", [d; v] ->
    let (e, fs) = desc_of d in
    str_kvs (to_values e fs (svals_of v))
  | "fromelement", [d; A id; kvs] ->
    let (_, fs) = desc_of d in
    (match from_element Release (z_of_hex id) (kvs_of kvs) fs with
     | Ok l -> "ok " ^ String.concat " " (List.map str_sval l)
     | Err -> "err" | Panic -> "panic" | Alloc -> "alloc" | Fuel -> "fuel")
  | "update", [old; d; v] ->
    let (e, fs) = desc_of d in
    str_kvs (upsert_pairs (kvs_of old) (to_values e fs (svals_of v)))
  | "keys", [A f; d] ->
    let (_, fs) = desc_of d in
    "(" ^ String.concat " " (List.map hex_of_bytes (db_keys (f = "1") fs)) ^ ")"
  | "select", [A f; d; kvs] ->
    let (_, fs) = desc_of d in
    (match select_pairs (db_keys (f = "1") fs) (kvs_of kvs) with
     | Ok l -> str_kvs l
     | _ -> "err")
  | _ -> failwith ("derive: bad command " ^ cmd)
