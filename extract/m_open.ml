(* m_open.ml — driver commands for the model of opening a damaged file (OpenFile.v; C07)
     open o <guards: 4 bits read,table,wal_framed,wal_pos> <file|mapped|memory> <data hex> <log hex | ->
        -> opens len=<n> <i>:<size>:<fnv64 of the value | err> ...   (record indexes 1..24)
         | error | panic | alloc-buffer | alloc-table | hang *)
open Model
open Util

let fnv (bs : byte list) : string =
  let h = ref 0xcbf29ce484222325L in
  List.iter (fun b ->
      h := Int64.logxor !h (Int64.of_int (int_of_byte b));
      h := Int64.mul !h 0x100000001b3L) bs;
  Printf.sprintf "%016Lx" !h

let dec_of_n (x : n) : string =
  (* values here are file lengths and record sizes of small inputs *)
  string_of_int (int_of_n x)

let handle (cmd : string) (args : sexp list) : string =
  match cmd, args with
  | "o", [A gb; A be; A data; A wal] ->
    let bit i = String.length gb > i && gb.[i] = '1' in
    let g = { og_read_checked = bit 0; og_table_checked = bit 1; og_wal_framed = bit 2; og_wal_pos = bit 3 } in
    let be = (match be with "file" -> BFile | "mapped" -> BMapped | "memory" -> BMemory | _ -> failwith "backend") in
    let data = bytes_of_hex data in
    let wal = if wal = "-" then None else Some (bytes_of_hex wal) in
    let limit = alloc_limit (lenN data) (match wal with Some w -> lenN w | None -> N0) in
    (match open_file g be data wal with
     | OOk st ->
       let b = Buffer.create 128 in
       Buffer.add_string b ("opens len=" ^ dec_of_n (lenN st.o_data));
       for i = 1 to 24 do
         let ix = n_of_int i in
         match table_get ix st.o_table with
         | None -> ()
         | Some (_, size) ->
           let v = (match value_as_bytes g be limit st ix with OOk bs -> fnv bs | _ -> "err") in
           Buffer.add_string b (Printf.sprintf " %d:%s:%s" i (dec_of_n size) v)
       done;
       Buffer.contents b
     | OErr -> "error"
     | OPanic -> "panic"
     | OAlloc (ABuffer, _) -> "alloc-buffer"
     | OAlloc (ATable, _) -> "alloc-table"
     | OFuel -> "hang")
  | _ -> failwith ("open: bad command " ^ cmd)
