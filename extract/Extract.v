(* Extract.v — extraction of the executable models to OCaml.
   Directives used: those of ExtrOcamlBasic only
   (Extract Inductive bool, option, unit, list, prod, sumbool; no Extract Constant). *)
From Agdb Require Import ExtractDeps.
From Coq Require Import extraction.Extraction ExtrOcamlBasic.
Extraction Language OCaml.
Extraction "model.ml"
  (* Bytes *) n2b b2n le64 le32 de lenN
  (* Codec *) enc size dec has_type ty_ok guards_fixed guards_pinned utf8_valid
  (* Auth *) init_state step authorize sessions_of kind_is_write kind_read_allowed kind_audited
             doc_perm doc_allows tag_of holds_of
  (* Paths *) files dirs resolve name_defect_of valid_name escapes clashes op_creates op_removes paths_of_kinds.
