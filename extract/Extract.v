(* Extract.v — extraction of the executable models to OCaml.
   Directives used: those of ExtrOcamlBasic only
   (Extract Inductive bool, option, unit, list, prod, sumbool; no Extract Constant). *)
From Agdb Require Import ExtractDeps.
From Coq Require Import extraction.Extraction ExtrOcamlBasic.
Extraction Language OCaml.
Extraction "model.ml"
  (* Bytes *) n2b b2n le64 le32 de lenN
  (* Codec *) enc size dec has_type ty_ok guards_fixed guards_pinned utf8_valid
  (* Db *) db_new exec transaction elements out_edges in_edges node_count edge_from edge_to
           imap_key kvs_get dbv_eqb dbv_cmp edge_count_from edge_count_to
  (* FileWal *) trace crash recover recover_g recovery_calls walrev_fixed walrev_pinned well_positioned
  (* Raft *) Raft.init_default Raft.step Raft.run Raft.election_safety_b Raft.committed_agree_b
             Raft.leader_completeness_b Raft.double_vote_b Raft.stale_vote_b Raft.ack_diverged_b
             Raft.old_term_commit_b Raft.ack_below_vote_b Raft.all_synced_b Raft.drain
  (* RaftLog *) RaftLog.commit_noquorum_b RaftLog.leader_completeness_up_b RaftLog.stale_ack_counted_b
  (* ExecSched *) ExecM.run
  (* ValueIndex *) store_db_value load_db_value store_kv load_kv remove_value remove_kv fresh_ix lookup
                   is_value vi_index vi_type vi_size wf_value utf8_lossy
  (* OpenFile *) open_file OpenFile.value_as_bytes OpenFile.table_get alloc_limit og_fixed og_pinned
  (* Storage *) with_data st_step live_values ops_file ops_mem mem_raw file_raw mapped_raw spec_init spec_step accepts tight_len st_run
  (* ConcRead *) conc_init conc_step conc_pc conc_lock conc_result ConcRead.file_read
  (* DeriveType *) to_values from_element db_keys select_pairs upsert_pairs
  (* Auth *) Auth.init_state Auth.step Auth.authorize sessions_of kind_is_write kind_read_allowed kind_audited
             doc_perm doc_allows tag_of holds_of
  (* Paths *) files dirs resolve name_defect_of valid_name escapes clashes op_creates op_removes paths_of_kinds
  (* Collections *) cp_run cbind cp_value cv_new cv_from_storage cv_step cv_run cv_remove_from_storage ce_u64 ce_i64 ce_string ce_raw ce_state
                    cl_step cl_run cm_new cm_from_storage cm_step cm_run ct_step cg_new cg_from_storage cg_step cg_run ga_step
                    cg_free_index cg_node_count cg_set_node_count cr_load cr_store cr_create
                    ce_dbvalue ce_pair ce_dbkv
  (* StoredDb *) load_db sd_load sd_step
  (* LoadOutcome *) load_outcome load_outcome_g lo_open_class lo_phase lo_limit lo_run
  (* StoredDbOps *) so_open so_q_insert_node so_q_insert_values so_q_insert_edge so_q_remove.
