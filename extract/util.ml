(* util.ml — conversions between the extracted Coq datatypes and text.
   Numbers travel as hexadecimal (Coq's positive is binary, so no arithmetic is
   needed and nothing is truncated to OCaml's 63-bit int). *)
open Model

(* ---- byte <-> int.  The 256 constant constructors X00..Xff are represented
   by OCaml as the immediate integers 0..255 in declaration order; checked
   against Model.n2b / Model.b2n at start-up (self_test). *)
let byte_of_int (i : int) : byte = (Obj.magic (i land 255) : byte)
let int_of_byte (b : byte) : int = (Obj.magic b : int)

(* ---- N *)
let n_double = function N0 -> N0 | Npos p -> Npos (XO p)
let n_succ_double = function N0 -> Npos XH | Npos p -> Npos (XI p)

let n_of_int (i : int) : n =
  let rec go i = if i = 0 then N0 else
      let h = go (i lsr 1) in if i land 1 = 1 then n_succ_double h else n_double h in
  if i < 0 then failwith "n_of_int" else go i

let hexval c = match c with
  | '0'..'9' -> Char.code c - 48
  | 'a'..'f' -> Char.code c - 87
  | 'A'..'F' -> Char.code c - 55
  | _ -> failwith ("bad hex digit " ^ String.make 1 c)

let n_of_hex (s : string) : n =
  let acc = ref N0 in
  String.iter (fun c ->
      let d = hexval c in
      for k = 3 downto 0 do
        acc := if (d lsr k) land 1 = 1 then n_succ_double !acc else n_double !acc
      done) s;
  !acc

let rec pos_bits (p : positive) : int list = match p with   (* LSB first *)
  | XH -> [1] | XO q -> 0 :: pos_bits q | XI q -> 1 :: pos_bits q

let hex_of_n (x : n) : string =
  match x with
  | N0 -> "0"
  | Npos p ->
    let bits = Array.of_list (pos_bits p) in
    let nb = Array.length bits in
    let nd = (nb + 3) / 4 in
    let b = Bytes.create nd in
    for i = 0 to nd - 1 do
      let v = ref 0 in
      for k = 0 to 3 do
        let j = 4 * i + k in
        if j < nb && bits.(j) = 1 then v := !v lor (1 lsl k)
      done;
      Bytes.set b (nd - 1 - i) "0123456789abcdef".[!v]
    done;
    Bytes.to_string b

let int_of_n (x : n) : int =   (* only for small values *)
  match x with N0 -> 0 | Npos p ->
    List.fold_right (fun b acc -> acc * 2 + b) (pos_bits p) 0

(* ---- Z *)
let z_of_hex (s : string) : z =
  if String.length s > 0 && s.[0] = '-' then
    (match n_of_hex (String.sub s 1 (String.length s - 1)) with N0 -> Z0 | Npos p -> Zneg p)
  else (match n_of_hex s with N0 -> Z0 | Npos p -> Zpos p)

let hex_of_z (x : z) : string = match x with
  | Z0 -> "0" | Zpos p -> hex_of_n (Npos p) | Zneg p -> "-" ^ hex_of_n (Npos p)

(* ---- nat *)
let rec nat_of_int (i : int) : nat = if i <= 0 then O else S (nat_of_int (i - 1))
let rec int_of_nat (x : nat) : int = match x with O -> 0 | S y -> 1 + int_of_nat y
let nat_of_int i =
  let r = ref O in for _ = 1 to i do r := S !r done; !r
let int_of_nat x =
  let rec go acc = function O -> acc | S y -> go (acc + 1) y in go 0 x

(* ---- byte strings: "x" followed by hex pairs *)
let bytes_of_hex (s : string) : byte list =
  if String.length s = 0 || s.[0] <> 'x' then failwith ("bad bytes literal " ^ s);
  let n = (String.length s - 1) / 2 in
  let r = ref [] in
  for i = n - 1 downto 0 do
    r := byte_of_int (hexval s.[1 + 2 * i] * 16 + hexval s.[2 + 2 * i]) :: !r
  done;
  !r

let hex_of_bytes (l : byte list) : string =
  let b = Buffer.create 64 in
  Buffer.add_char b 'x';
  List.iter (fun x -> Buffer.add_string b (Printf.sprintf "%02x" (int_of_byte x))) l;
  Buffer.contents b

(* ---- s-expressions *)
type sexp = A of string | L of sexp list

let parse_sexps (s : string) : sexp list =
  let n = String.length s in
  let pos = ref 0 in
  let rec skip () = if !pos < n && (s.[!pos] = ' ' || s.[!pos] = '\t') then (incr pos; skip ()) in
  let rec one () : sexp =
    skip ();
    if !pos >= n then failwith "sexp: unexpected end";
    if s.[!pos] = '(' then begin
      incr pos;
      let items = ref [] in
      let rec loop () =
        skip ();
        if !pos >= n then failwith "sexp: missing )";
        if s.[!pos] = ')' then incr pos
        else (items := one () :: !items; loop ()) in
      loop ();
      L (List.rev !items)
    end else begin
      let st = !pos in
      while !pos < n && s.[!pos] <> ' ' && s.[!pos] <> '(' && s.[!pos] <> ')' && s.[!pos] <> '\t' do incr pos done;
      A (String.sub s st (!pos - st))
    end in
  let res = ref [] in
  let rec all () = skip (); if !pos < n then (res := one () :: !res; all ()) in
  all ();
  List.rev !res

let rec string_of_sexp = function
  | A s -> s
  | L l -> "(" ^ String.concat " " (List.map string_of_sexp l) ^ ")"

let self_test () =
  for i = 0 to 255 do
    if int_of_n (b2n (byte_of_int i)) <> i then failwith "byte representation self-test failed";
    if int_of_byte (n2b (n_of_int i)) <> i then failwith "byte representation self-test failed (n2b)"
  done;
  if hex_of_n (n_of_hex "ffffffffffffffff") <> "ffffffffffffffff" then failwith "hex self-test";
  if hex_of_n (n_of_hex "0") <> "0" then failwith "hex self-test 0"
