(* m_stored.ml — driver command for the loader of the whole database (theories/StoredDb.v; C05 L3).
     stored load <root> (<index> x<bytes>) (<index> x<bytes>) ...
   The arguments are a record store: every live record of a REAL database file with its raw bytes (read by the
   harness through the storage layer only), and the index of the root record (1).  The extracted `load_db` is run on
   it; the answer is the full ORDERED dump of the model database it returns, in the format of m_db.ml `dump`
   (graph elements in slot order with adjacency lists and degree counters, property lists in stored order, aliases,
   indexes with counts and ids per value) — the line the harness produces from the reopened real database.
     answer:  db <dump>   |   none   (some loader failed) *)
open Model
open Util

let record_of (s : sexp) : n * byte list = match s with
  | L [A i; A b] -> (n_of_hex i, bytes_of_hex b)
  | _ -> failwith ("bad record " ^ string_of_sexp s)

let handle (cmd : string) (args : sexp list) : string =
  match cmd, args with
  | "load", (A root :: recs) ->
    let m = List.map record_of recs in
    (match load_db m (n_of_hex root) with
     | Some d -> "db " ^ M_db.dump false d
     | None -> "none")
  | _ -> failwith ("stored: bad command " ^ cmd)
