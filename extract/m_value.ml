(* m_value.ml — driver commands for the value index model (ValueIndex.v; C12, C07)
     value wf <v>          -> 0|1
     value rt <v>          -> ok <v'> | err | panic       load (store v) in an empty store
     value kv <k> <v>      -> ok (kv k' v') | ...         load_kv (store_kv k v)
     value ix <k> <v>      -> ix <32 bytes, storage indexes zeroed> <key record|-> <value record|->
     value load <16 bytes> (<idx> <bytes>)*  -> outcome    load_db_value on an arbitrary index / store *)
open Model
open Util

let str_outcome (f : 'a -> string) (o : 'a outcome) : string = match o with
  | Ok a -> "ok " ^ f a
  | Err -> "err" | Panic -> "panic" | Alloc -> "alloc" | Fuel -> "fuel"

let rec take n l = if n <= 0 then [] else match l with [] -> [] | x :: r -> x :: take (n - 1) r
let rec drop n l = if n <= 0 then l else match l with [] -> [] | _ :: r -> drop (n - 1) r

let is_zero8 (ix : byte list) = List.for_all (fun b -> int_of_byte b = 0) (take 8 ix)

let handle (cmd : string) (args : sexp list) : string =
  match cmd, args with
  | "wf", [v] -> if wf_value (M_db.value_of v) then "1" else "0"
  | "rt", [v] ->
    let (ix, st) = store_db_value fresh_ix (M_db.value_of v) [] in
    str_outcome M_db.str_value (load_db_value ix st)
  | "kv", [k; v] ->
    let (bs, st) = store_kv fresh_ix (M_db.value_of k) (M_db.value_of v) [] in
    str_outcome M_db.str_kv (load_kv bs st)
  | "ix", [k; v] ->
    let (bs, st) = store_kv fresh_ix (M_db.value_of k) (M_db.value_of v) [] in
    let half h = take 16 (drop (16 * h) bs) in
    let one h =
      let ix = half h in
      if is_value ix then (ix, "-")
      else
        let r = match lookup (vi_index ix) st with Some b -> hex_of_bytes b | None -> "?" in
        (List.map (fun _ -> byte_of_int 0) (take 8 ix) @ drop 8 ix, r) in
    let (k16, kr) = one 0 and (v16, vr) = one 1 in
    ignore is_zero8;
    "ix " ^ hex_of_bytes (k16 @ v16) ^ " " ^ kr ^ " " ^ vr
  | "load", A ix :: recs ->
    let st = List.map (function L [A i; A b] -> (n_of_hex i, bytes_of_hex b) | _ -> failwith "record") recs in
    str_outcome M_db.str_value (load_db_value (bytes_of_hex ix) st)
  | _ -> failwith ("value: bad command " ^ cmd)
