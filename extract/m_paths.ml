(* m_paths.ml — driver commands for the database file-path model (Paths.v: C26).
   Names and paths travel as x<hex> byte strings.
     paths defect <name>                         -> valid | <defect>
     paths files <data> <owner> <db>             -> (kind path)... resolved
     paths predict <none|strict> <data> <owner> <db> <op> <accepted 0|1>
           -> rejected | MODEL-REJECTS <defect> | (new p...) (gone p...)
     paths verdict <data> <o> <d> (<o'> <d'>)... -> escapes=0|1 clashes=<indices of the victims hit> *)
open Model
open Util

let bytes_arg = function A h -> bytes_of_hex h | s -> failwith ("bytes expected: " ^ string_of_sexp s)

let string_of_bytes (l : byte list) : string =
  let b = Buffer.create 32 in
  List.iter (fun x -> let c = int_of_byte x in
              if c > 32 && c < 127 && c <> 40 && c <> 41 && c <> 37 then Buffer.add_char b (Char.chr c)
              else Buffer.add_string b (Printf.sprintf "%%%02x" c)) l;
  Buffer.contents b

(* a resolved path, relative to the server's working directory (or absolute) *)
let string_of_rpath (r : rpath) : string =
  let comps = List.map string_of_bytes r.r_comps in
  if r.r_abs then "/" ^ String.concat "/" comps
  else
    let ups = List.init (int_of_nat r.r_ups) (fun _ -> "..") in
    (match ups @ comps with [] -> "." | l -> String.concat "/" l)

let string_of_defect = function
  | NEmpty -> "empty" | NNul -> "nul" | NSeparator -> "separator" | NDotName -> "dot_name"
  | NLeadingDot -> "leading_dot" | NReserved -> "reserved" | NReservedSuffix -> "reserved_suffix"

let string_of_fkind = function
  | FDb -> "db" | FWal -> "wal" | FWalServer -> "wal_server" | FBackup -> "backup"
  | FBackupAudit -> "backup_audit" | FAudit -> "audit" | FTmpDb -> "tmp_db" | FTmpAudit -> "tmp_audit"

let fsop_of = function
  | "add" -> FsAdd | "copy_to" -> FsCopyTo | "rename_from" -> FsRenameFrom | "rename_to" -> FsRenameTo
  | "backup" -> FsBackup | "clear_all" -> FsClearAll | "delete" -> FsDelete | "exec_mut" -> FsExecMut
  | s -> failwith ("bad fs op " ^ s)

let sorted_paths l = String.concat " " (List.sort_uniq compare (List.map (fun (_, r) -> string_of_rpath r) l))

let handle (cmd : string) (args : sexp list) : string =
  match cmd, args with
  | "defect", [n] ->
    (match name_defect_of (bytes_arg n) with None -> "valid" | Some d -> string_of_defect d)
  | "files", [data; o; d] ->
    String.concat " " (List.map (fun (k, p) -> "(" ^ string_of_fkind k ^ " " ^ string_of_rpath (resolve p) ^ ")")
                         (files (bytes_arg data) (bytes_arg o) (bytes_arg d)))
  | "predict", [A mode; data; o; d; A op; A acc] ->
    let data = bytes_arg data and o = bytes_arg o and d = bytes_arg d in
    if acc <> "1" then "rejected"
    else begin
      match (if mode = "strict" then name_defect_of d else None) with
      | Some df -> "MODEL-REJECTS " ^ string_of_defect df
      | None ->
        if op = "restore" then "(new ) (gone )" else
        let op = fsop_of op in
        "(new " ^ sorted_paths (paths_of_kinds data o d (op_creates op)) ^ ") (gone "
        ^ sorted_paths (paths_of_kinds data o d (op_removes op)) ^ ")"
    end
  | "verdict", data :: o :: d :: victims ->
    let data = bytes_arg data and o = bytes_arg o and d = bytes_arg d in
    let hits = List.mapi (fun i v -> match v with
        | L [o'; d'] -> if clashes data o d (bytes_arg o') (bytes_arg d') then Some (string_of_int i) else None
        | s -> failwith ("bad victim " ^ string_of_sexp s)) victims in
    Printf.sprintf "escapes=%d clashes=(%s)" (if escapes data o d then 1 else 0)
      (String.concat " " (List.filter_map (fun x -> x) hits))
  | _ -> failwith ("paths: bad command " ^ cmd)
