(* UndoGraph.v — C13, the graph (Graph.v slot arrays) seen through an abstract view:
   kind of every slot, out-/in-lists of every node, node count, the LIFO free list and the capacity.
   `rep g a` = the arrays g are well formed and represent the abstract graph a. *)
From Agdb Require Import Bytes BytesProofs DbValue Graph DbModel UndoBase UndoObs UndoKv UndoGraphBase.
From Coq Require Import Permutation ZifyBool ZifyNat ZifyN.
Ltac Zify.zify_post_hook ::= Z.div_mod_to_equations.
Open Scope Z_scope.

Definition two63z : Z := 9223372036854775808.

(* ---- abstract graphs ---- *)
Record ag := {
  ak : Z -> skind;          (* kind of slot i (i > 0) *)
  aout : Z -> list Z;       (* out-list of node n: edge slots, newest first *)
  ain : Z -> list Z;        (* in-list *)
  acount : Z;               (* node count *)
  afree : list Z;           (* free list, next slot to be handed out first *)
  acap : Z                  (* capacity: first never-used slot *)
}.

Definition upd {A} (f : Z -> A) (i : Z) (v : A) : Z -> A := fun j => if j =? i then v else f j.

Lemma upd_same {A} (f : Z -> A) i v : upd f i v i = v.
Proof. unfold upd. rewrite Z.eqb_refl. reflexivity. Qed.
Lemma upd_other {A} (f : Z -> A) i v j : j <> i -> upd f i v j = f j.
Proof. unfold upd. intros. destruct (Z.eqb_spec j i); [contradiction | reflexivity]. Qed.

(* Xo / Xi: edge slots that are currently detached from their source's out-list / their
   target's in-list (only inside insert_edge / remove_edge; both empty otherwise) *)
Record rep_x (g : graph) (a : ag) (Xo Xi : Z -> Prop) : Prop := {
  r_lens : lens_ok g;
  r_cap : 1 <= capacity g <= two63z;
  r_acap : acap a = capacity g;
  r_count : acount a = node_count g;
  r_free : fchain (fmeta g) (fmeta g 0) (afree a);
  r_free_nd : NoDup (afree a);
  r_free_in : forall s, In s (afree a) ->
      0 < s < capacity g /\ fmeta g s < 0 /\ from g s = 0 /\ to g s = 0 /\ tmeta g s = 0;
  r_kind : forall i, 0 < i -> ak a i = slot_kind g i;
  r_out : forall n, 0 < n -> ak a n = KNode ->
      chain (fmeta g) (from g n) (aout a n) /\ NoDup (aout a n) /\ fmeta g n = Z.of_nat (length (aout a n));
  r_in : forall n, 0 < n -> ak a n = KNode ->
      chain (tmeta g) (to g n) (ain a n) /\ NoDup (ain a n) /\ tmeta g n = Z.of_nat (length (ain a n));
  r_out_mem : forall n e, 0 < n -> ak a n = KNode ->
      (In e (aout a n) <-> 0 < e /\ (exists t, ak a e = KEdge n t) /\ ~ Xo e);
  r_in_mem : forall n e, 0 < n -> ak a n = KNode ->
      (In e (ain a n) <-> 0 < e /\ (exists f, ak a e = KEdge f n) /\ ~ Xi e);
  r_edge : forall e f t, 0 < e -> ak a e = KEdge f t -> 0 < f /\ 0 < t /\ ak a f = KNode /\ ak a t = KNode
}.

Definition xnone : Z -> Prop := fun _ => False.
Definition rep (g : graph) (a : ag) : Prop := rep_x g a xnone xnone.

Lemma rep_x_ext g a Xo Xi Xo' Xi' :
  (forall x, Xo x <-> Xo' x) -> (forall x, Xi x <-> Xi' x) -> rep_x g a Xo Xi -> rep_x g a Xo' Xi'.
Proof.
  intros Eo Ei R. destruct R. constructor; auto.
  - intros n e Hn Hk. rewrite r_out_mem0 by assumption. rewrite Eo. reflexivity.
  - intros n e Hn Hk. rewrite r_in_mem0 by assumption. rewrite Ei. reflexivity.
Qed.

(* ---- kinds in terms of the arrays ---- *)

Lemma slot_kind_node g n : 0 < n ->
  (slot_kind g n = KNode <-> n < capacity g /\ 0 <= fmeta g n /\ 0 <= from g n).
Proof.
  intros Hn. unfold slot_kind, valid_index.
  destruct (Z.eqb_spec n 0); [lia|]. cbn [negb andb]. rewrite Z.abs_eq by lia.
  destruct (Z.ltb_spec n (capacity g)); cbn [andb]; [|split; [discriminate | lia]].
  destruct (Z.ltb_spec (fmeta g n) 0); cbn [negb]; [split; [discriminate | lia]|].
  destruct (Z.ltb_spec (from g n) 0); [split; [discriminate | lia] | split; [lia | reflexivity]].
Qed.

Lemma slot_kind_edge g e f t : 0 < e ->
  (slot_kind g e = KEdge f t <-> e < capacity g /\ 0 <= fmeta g e /\ from g e < 0 /\ f = - from g e /\ t = - to g e).
Proof.
  intros Hn. unfold slot_kind, valid_index, edge_from, edge_to.
  destruct (Z.eqb_spec e 0); [lia|]. cbn [negb andb]. rewrite Z.abs_eq by lia.
  destruct (Z.ltb_spec e (capacity g)); cbn [andb]; [|split; [discriminate | lia]].
  destruct (Z.ltb_spec (fmeta g e) 0); cbn [negb]; [split; [discriminate | lia]|].
  destruct (Z.ltb_spec (from g e) 0).
  - split; [intros [= -> ->]; lia | intros (_ & _ & _ & -> & ->); reflexivity].
  - split; [discriminate | lia].
Qed.

Lemma slot_kind_free g i : 0 < i ->
  (slot_kind g i = KFree <-> capacity g <= i \/ fmeta g i < 0).
Proof.
  intros Hn. unfold slot_kind, valid_index.
  destruct (Z.eqb_spec i 0); [lia|]. cbn [negb andb]. rewrite Z.abs_eq by lia.
  destruct (Z.ltb_spec i (capacity g)); cbn [andb]; [|split; [lia | reflexivity]].
  destruct (Z.ltb_spec (fmeta g i) 0); cbn [negb]; [split; [lia | reflexivity]|].
  destruct (Z.ltb_spec (from g i) 0); split; try discriminate; lia.
Qed.

(* slot_kind only depends on the capacity test and on fmeta/from/to at the slot *)
Lemma slot_kind_ext g g' i : 0 < i ->
  ((i <? capacity g') = (i <? capacity g)) ->
  fmeta g' i = fmeta g i -> from g' i = from g i -> to g' i = to g i ->
  slot_kind g' i = slot_kind g i.
Proof.
  intros Hi Hc Hf Hfr Hto. unfold slot_kind, valid_index, edge_from, edge_to.
  rewrite Z.abs_eq by lia. rewrite Hc, Hf, Hfr, Hto. reflexivity.
Qed.

Lemma is_node_kind g n : 0 < n -> is_node g n = true <-> slot_kind g n = KNode.
Proof.
  intros Hn. unfold is_node, slot_kind. destruct (valid_index g n); cbn [andb]; [|split; discriminate].
  destruct (Z.leb_spec 0 (from g n)), (Z.ltb_spec (from g n) 0); try lia; split; try discriminate; auto.
Qed.

Lemma is_edge_kind g e : 0 < e -> is_edge g e = true <-> exists f t, slot_kind g e = KEdge f t.
Proof.
  intros Hn. unfold is_edge, slot_kind. destruct (valid_index g e); cbn [andb].
  - destruct (Z.ltb_spec (from g e) 0); split; try discriminate; eauto. intros (f & t & Hk). discriminate.
  - split; [discriminate|]. intros (f & t & Hk). discriminate.
Qed.

Lemma valid_index_opp g i : valid_index g (- i) = valid_index g i.
Proof.
  unfold valid_index. rewrite fmeta_opp, Z.abs_opp. replace (- i =? 0) with (i =? 0) by lia. reflexivity.
Qed.
Lemma is_node_opp g i : is_node g (- i) = is_node g i.
Proof. unfold is_node. rewrite valid_index_opp, from_opp. reflexivity. Qed.
Lemma is_edge_opp g i : is_edge g (- i) = is_edge g i.
Proof. unfold is_edge. rewrite valid_index_opp, from_opp. reflexivity. Qed.

(* ---- consequences of rep ---- *)

Section RepFacts.
  Variables (g : graph) (a : ag) (Xo Xi : Z -> Prop).
  Hypothesis R : rep_x g a Xo Xi.

  Lemma rep_free_range s : In s (afree a) -> 0 < s < capacity g.
  Proof. intros Hs. destruct (r_free_in _ _ _ _ R s Hs) as (Hr & _). exact Hr. Qed.

  Lemma rep_free_kind s : In s (afree a) -> ak a s = KFree.
  Proof.
    intros Hs. destruct (r_free_in _ _ _ _ R s Hs) as (Hr & Hf & _). rewrite (r_kind _ _ _ _ R) by lia.
    apply slot_kind_free; lia.
  Qed.

  Lemma rep_out_of_range i : capacity g <= i -> ak a i = KFree.
  Proof.
    intros Hi. pose proof (r_cap _ _ _ _ R). rewrite (r_kind _ _ _ _ R) by lia. apply slot_kind_free; lia.
  Qed.

  Lemma rep_node_range n : 0 < n -> ak a n = KNode -> n < capacity g /\ 0 <= fmeta g n /\ 0 <= from g n.
  Proof. intros Hn Hk. rewrite (r_kind _ _ _ _ R) in Hk by assumption. apply slot_kind_node in Hk; assumption. Qed.

  Lemma rep_edge_arrays e f t : 0 < e -> ak a e = KEdge f t ->
    e < capacity g /\ 0 <= fmeta g e /\ from g e = - f /\ to g e = - t /\ 0 < f /\ 0 < t.
  Proof.
    intros He Hk. destruct (r_edge _ _ _ _ R e f t He Hk) as (Hf & Ht & _).
    rewrite (r_kind _ _ _ _ R) in Hk by assumption. apply slot_kind_edge in Hk; [|assumption]. lia.
  Qed.

  Lemma rep_out_range n e : 0 < n -> ak a n = KNode -> In e (aout a n) -> 0 < e < capacity g.
  Proof.
    intros Hn Hk He. apply (r_out_mem _ _ _ _ R) in He; [|assumption|assumption]. destruct He as (He & (t & Ht) & _).
    pose proof (rep_edge_arrays e n t He Ht). lia.
  Qed.
  Lemma rep_in_range n e : 0 < n -> ak a n = KNode -> In e (ain a n) -> 0 < e < capacity g.
  Proof.
    intros Hn Hk He. apply (r_in_mem _ _ _ _ R) in He; [|assumption|assumption]. destruct He as (He & (f & Hf) & _).
    pose proof (rep_edge_arrays e f n He Hf). lia.
  Qed.

  Lemma rep_out_edge n e : 0 < n -> ak a n = KNode -> In e (aout a n) -> exists t, ak a e = KEdge n t.
  Proof. intros Hn Hk He. apply (r_out_mem _ _ _ _ R) in He; tauto. Qed.
  Lemma rep_in_edge n e : 0 < n -> ak a n = KNode -> In e (ain a n) -> exists f, ak a e = KEdge f n.
  Proof. intros Hn Hk He. apply (r_in_mem _ _ _ _ R) in He; tauto. Qed.

  Lemma rep_free_empty : fmeta g 0 = i64_min <-> afree a = [].
  Proof. eapply fchain_nil_iff, (r_free _ _ _ _ R). Qed.

  Lemma rep_out_length n : 0 < n -> ak a n = KNode -> (length (aout a n) <= length (g_from g))%nat.
  Proof.
    intros Hn Hk. destruct (r_out _ _ _ _ R n Hn Hk) as (_ & Hnd & _).
    apply NoDup_bounded_length; [assumption|]. intros e He. pose proof (rep_out_range n e Hn Hk He).
    unfold capacity in *. lia.
  Qed.
  Lemma rep_in_length n : 0 < n -> ak a n = KNode -> (length (ain a n) <= length (g_from g))%nat.
  Proof.
    intros Hn Hk. destruct (r_in _ _ _ _ R n Hn Hk) as (_ & Hnd & _).
    apply NoDup_bounded_length; [assumption|]. intros e He. pose proof (rep_in_range n e Hn Hk He).
    unfold capacity in *. lia.
  Qed.
End RepFacts.

Lemma rep_edge_in_out g a e f t : rep g a -> 0 < e -> ak a e = KEdge f t -> In e (aout a f) /\ In e (ain a t).
Proof.
  intros R He Hk. destruct (r_edge _ _ _ _ R e f t He Hk) as (Hf & Ht & Kf & Kt). split.
  - apply (r_out_mem _ _ _ _ R); [assumption|assumption|]. split; [assumption|]. split; [eauto | intros []].
  - apply (r_in_mem _ _ _ _ R); [assumption|assumption|]. split; [assumption|]. split; [eauto | intros []].
Qed.

(* the empty graph *)
Definition ag_new : ag :=
  {| ak := fun _ => KFree; aout := fun _ => []; ain := fun _ => []; acount := 0; afree := []; acap := 1 |}.

Lemma rep_new : rep graph_new ag_new.
Proof.
  constructor; cbn [ak aout ain acount afree acap ag_new]; try (intros; discriminate).
  - repeat split.
  - unfold two63z. cbn. lia.
  - reflexivity.
  - reflexivity.
  - constructor.
  - constructor.
  - intros s [].
  - intros i Hi. symmetry. apply slot_kind_free; [assumption|]. left. cbn. lia.
Qed.

(* ------------------------------------------------------------------ *)
(* activating a free slot as an isolated node (get_free_index)          *)

Definition a_activate (a : ag) (s : Z) (fl : list Z) (cap : Z) : ag :=
  {| ak := upd (ak a) s KNode; aout := upd (aout a) s []; ain := upd (ain a) s [];
     acount := acount a; afree := fl; acap := cap |}.

Lemma rep_activate g a Xo Xi g' s fl :
  rep_x g a Xo Xi ->
  lens_ok g' -> capacity g <= capacity g' <= two63z -> 0 < s < capacity g' ->
  (forall i, capacity g <= i < capacity g' -> i = s) ->
  ak a s = KFree ->
  from g s = 0 -> to g s = 0 -> tmeta g s = 0 ->
  (forall j, from g' j = from g j) -> (forall j, to g' j = to g j) -> (forall j, tmeta g' j = tmeta g j) ->
  (forall j, 0 < j -> j <> s -> fmeta g' j = fmeta g j) -> fmeta g' s = 0 ->
  fchain (fmeta g') (fmeta g' 0) fl -> NoDup fl -> (forall x, In x fl -> In x (afree a) /\ x <> s) ->
  rep_x g' (a_activate a s fl (capacity g')) Xo Xi.
Proof.
  intros R Hl Hcap Hs Hnew Hfree Hfs Hts Htms Hfrom Hto Htm Hfm Hfms Hch Hnd Hfl.
  assert (Hk' : forall i, 0 < i -> i <> s -> slot_kind g' i = slot_kind g i).
  { intros i Hi Hne. apply slot_kind_ext; auto.
    destruct (Z.ltb_spec i (capacity g)), (Z.ltb_spec i (capacity g')); try reflexivity; try lia.
    all: try (exfalso; apply Hne, Hnew; lia). }
  assert (Hnoedge : forall e f t, 0 < e -> ak a e = KEdge f t -> e <> s /\ f <> s /\ t <> s).
  { intros e f t He Hk. destruct (r_edge _ _ _ _ R e f t He Hk) as (_ & _ & Kf & Kt).
    repeat split; intros ->; congruence. }
  constructor; cbn [a_activate ak aout ain acount afree acap].
  - assumption.
  - pose proof (r_cap _ _ _ _ R). lia.
  - reflexivity.
  - rewrite (r_count _ _ _ _ R). unfold node_count. symmetry. apply Htm.
  - assumption.
  - assumption.
  - intros x Hx. destruct (Hfl x Hx) as (Hin & Hne).
    destruct (r_free_in _ _ _ _ R x Hin) as (Hr & Hf & H1 & H2 & H3).
    rewrite Hfm, Hfrom, Hto, Htm by lia. repeat split; try assumption; lia.
  - intros i Hi. destruct (Z.eq_dec i s) as [->|Hne].
    + rewrite upd_same. symmetry. apply slot_kind_node; [lia|]. rewrite Hfms, Hfrom, Hfs. lia.
    + rewrite upd_other by assumption. rewrite Hk' by assumption. apply (r_kind _ _ _ _ R). assumption.
  - intros n Hn Hk. destruct (Z.eq_dec n s) as [->|Hne].
    + rewrite upd_same. rewrite Hfrom, Hfs, Hfms. repeat split; constructor.
    + rewrite upd_other in Hk by assumption; rewrite ?upd_other by assumption. destruct (r_out _ _ _ _ R n Hn Hk) as (Hc & Hnd' & Hdeg).
      rewrite Hfrom, Hfm by assumption. repeat split; try assumption.
      eapply chain_ext; [exact Hc|]. intros e He.
      destruct (rep_out_edge _ _ _ _ R n e Hn Hk He) as (t & Ht).
      pose proof (rep_out_range _ _ _ _ R n e Hn Hk He).
      destruct (Hnoedge e n t) as (Hes & _); [lia | assumption|]. apply Hfm; lia.
  - intros n Hn Hk. destruct (Z.eq_dec n s) as [->|Hne].
    + rewrite upd_same. rewrite Hto, Hts, Htm, Htms. repeat split; constructor.
    + rewrite upd_other in Hk by assumption; rewrite ?upd_other by assumption. destruct (r_in _ _ _ _ R n Hn Hk) as (Hc & Hnd' & Hdeg).
      rewrite Hto, Htm. repeat split; try assumption.
      eapply chain_ext; [exact Hc|]. intros e He. apply Htm.
  - intros n e Hn Hk. destruct (Z.eq_dec n s) as [->|Hne].
    + rewrite upd_same. split; [intros []|]. intros (He & (t & Ht) & _). exfalso.
      destruct (Z.eq_dec e s) as [->|Hes]; [rewrite upd_same in Ht; discriminate|].
      rewrite upd_other in Ht by assumption. destruct (Hnoedge e s t He Ht) as (_ & Hc & _). congruence.
    + rewrite upd_other in Hk by assumption; rewrite ?upd_other by assumption. rewrite (r_out_mem _ _ _ _ R) by assumption.
      destruct (Z.eq_dec e s) as [->|Hes].
      * rewrite upd_same, Hfree. split; intros (_ & (t & Ht) & _); discriminate.
      * rewrite upd_other by assumption. reflexivity.
  - intros n e Hn Hk. destruct (Z.eq_dec n s) as [->|Hne].
    + rewrite upd_same. split; [intros []|]. intros (He & (f & Hf) & _). exfalso.
      destruct (Z.eq_dec e s) as [->|Hes]; [rewrite upd_same in Hf; discriminate|].
      rewrite upd_other in Hf by assumption. destruct (Hnoedge e f s He Hf) as (_ & _ & Hc). congruence.
    + rewrite upd_other in Hk by assumption; rewrite ?upd_other by assumption. rewrite (r_in_mem _ _ _ _ R) by assumption.
      destruct (Z.eq_dec e s) as [->|Hes].
      * rewrite upd_same, Hfree. split; intros (_ & (t & Ht) & _); discriminate.
      * rewrite upd_other by assumption. reflexivity.
  - intros e f t He Hk. destruct (Z.eq_dec e s) as [->|Hes]; [rewrite upd_same in Hk; discriminate|].
    rewrite upd_other in Hk by assumption. destruct (r_edge _ _ _ _ R e f t He Hk) as (Hf & Ht & Kf & Kt).
    destruct (Hnoedge e f t He Hk) as (_ & Hfs' & Hts').
    rewrite !upd_other by assumption. auto.
Qed.
