(* UndoMain.v — C13_rollback_restores: every sequence of mutation primitives of DbModel.v
   executed from a well-formed state with an empty undo stack is undone by `rollback` up to the
   observational equivalence — by induction over the executed steps. *)
From Agdb Require Import Bytes BytesProofs DbValue Graph DbModel Revisions UndoBase UndoObs UndoAlias UndoKv
  UndoGraphBase UndoGraph UndoGraphAlloc UndoGraphEdge UndoGraphOps UndoAbs UndoDb
  UndoStepsAlias UndoStepsKv UndoStepsKv2 UndoStepsIndex UndoStepsGraph UndoBridge.
From Coq Require Import Permutation ZifyBool ZifyNat ZifyN.
Ltac Zify.zify_post_hook ::= Z.div_mod_to_equations.
Open Scope Z_scope.

(* ---- raw capacity facts (no well-formedness needed) ---- *)

Lemma cap_remove_from_edge g i g1 : remove_from_edge g i = Some g1 -> capacity g1 = capacity g.
Proof.
  unfold remove_from_edge. destruct (_ =? i).
  - intros [= <-]. rewrite cap_set_fmeta, cap_set_from. reflexivity.
  - destruct (find_prev _ _ _ _); [|discriminate]. intros [= <-]. rewrite !cap_set_fmeta. reflexivity.
Qed.
Lemma cap_remove_to_edge g i g1 : remove_to_edge g i = Some g1 -> capacity g1 = capacity g.
Proof.
  unfold remove_to_edge. destruct (_ =? i).
  - intros [= <-]. rewrite cap_set_tmeta, cap_set_to. reflexivity.
  - destruct (find_prev _ _ _ _); [|discriminate]. intros [= <-]. rewrite !cap_set_tmeta. reflexivity.
Qed.
Lemma cap_free_index' g s : capacity (free_index g s) = capacity g.
Proof. unfold free_index. rewrite cap_set_tmeta, cap_set_to, cap_set_from, !cap_set_fmeta. reflexivity. Qed.

Lemma cap_remove_edge g i g1 : remove_edge g i = Some g1 -> capacity g1 = capacity g.
Proof.
  unfold remove_edge. destruct (is_edge g i); [|intros [= <-]; reflexivity].
  destruct (remove_from_edge g i) as [ga|] eqn:E1; [|discriminate].
  destruct (remove_to_edge ga i) as [gb|] eqn:E2; [|discriminate]. intros [= <-].
  rewrite cap_free_index', (cap_remove_to_edge _ _ _ E2), (cap_remove_from_edge _ _ _ E1). reflexivity.
Qed.

Lemma cap_remove_from_edges fuel : forall g e g1, remove_from_edges fuel g e = Some g1 -> capacity g1 = capacity g.
Proof.
  induction fuel as [|f IH]; intros g e g1; cbn [remove_from_edges]; destruct (e =? 0); try (intros [= <-]; reflexivity); try discriminate.
  destruct (remove_to_edge g e) as [ga|] eqn:E; [|discriminate]. intros H. apply IH in H.
  rewrite H, cap_free_index'. eapply cap_remove_to_edge, E.
Qed.
Lemma cap_remove_to_edges fuel : forall g e g1, remove_to_edges fuel g e = Some g1 -> capacity g1 = capacity g.
Proof.
  induction fuel as [|f IH]; intros g e g1; cbn [remove_to_edges]; destruct (e =? 0); try (intros [= <-]; reflexivity); try discriminate.
  destruct (remove_from_edge g e) as [ga|] eqn:E; [|discriminate]. intros H. apply IH in H.
  rewrite H, cap_free_index'. eapply cap_remove_from_edge, E.
Qed.
Lemma cap_remove_node g n g1 : Graph.remove_node g n = Some g1 -> capacity g1 = capacity g.
Proof.
  unfold Graph.remove_node. destruct (is_node g n); [|intros [= <-]; reflexivity].
  destruct (remove_from_edges _ g _) as [ga|] eqn:E1; [|discriminate].
  destruct (remove_to_edges _ ga _) as [gb|] eqn:E2; [|discriminate]. intros [= <-].
  rewrite cap_set_tmeta, cap_free_index', (cap_remove_to_edges _ _ _ _ E2), (cap_remove_from_edges _ _ _ _ E1). reflexivity.
Qed.

Lemma cap_get_free_index_le g : capacity g <= capacity (snd (get_free_index g)).
Proof. rewrite cap_get_free_index. destruct (fmeta g 0 =? i64_min); lia. Qed.

(* ---- graph component of the key-value / alias / index primitives ---- *)

Lemma gr_remove_sel_fold id sel l : forall d, gr (fold_left (remove_sel id sel) l d) = gr d.
Proof.
  induction l as [|x r IH]; intros d; cbn [fold_left]; [reflexivity|]. rewrite IH.
  unfold remove_sel. destruct (sel x); reflexivity.
Qed.

Section Main.
  Variable rv : revision.
  Hypothesis Hrv : fix_rollback_replace rv = true.
  Hypothesis Hsteal : fix_alias_steal_undo rv = true.

  (* one mutation primitive, with the side condition under which its recorded inverse is exact *)
  Inductive pstep : db -> db -> Prop :=
  | ps_insert_node d i d1 : insert_node_db d = (i, d1) -> pstep d d1
  | ps_insert_edge d f t i d1 : 0 < f -> 0 < t -> insert_edge_db d f t = ROk (i, d1) -> pstep d d1
  | ps_remove_edge d e0 d1 : 0 < e0 -> is_edge (gr d) e0 = true -> remove_edge_db d (- e0) = (d1, None) -> pstep d d1
  | ps_remove_isolated_node d n g' :
      0 < n -> is_node (gr d) n = true -> out_edges (gr d) n = [] -> in_edges (gr d) n = [] ->
      Graph.remove_node (gr d) n = Some g' -> pstep d (push_undo (with_gr d g') CInsertNode)
  | ps_insert_new_alias d id a :
      imap_value (aliases d) a = None -> imap_key (aliases d) id = None -> pstep d (insert_new_alias d id a)
  | ps_insert_alias d id a : pstep d (insert_alias rv d id a)
  | ps_remove_alias d a : pstep d (snd (remove_alias d a))
  | ps_insert_key_value d id x : ~ has_key (kvs_get (vals d) id) (fst x) -> pstep d (insert_key_value d id x)
  | ps_insert_or_replace d id x :
      (forall old l', replace_first (kvs_get (vals d) id) x = Some (old, l') -> idx_has d id old) ->
      pstep d (insert_or_replace_key_value d id x)
  | ps_reserve d id : pstep d (reserve_kv d id)
  | ps_remove_keys d id keys : idx_has_all d id -> pstep d (snd (remove_keys d id keys))
  | ps_remove_all_values d id : idx_has_all d id -> pstep d (remove_all_values d id)
  | ps_insert_index d key n d1 : insert_index d key = ROk (n, d1) -> pstep d d1
  | ps_remove_index d key : pstep d (snd (remove_index d key)).

  Inductive psteps : db -> db -> Prop :=
  | pss_nil d : psteps d d
  | pss_snoc d d1 d2 : psteps d d1 -> pstep d1 d2 -> psteps d d2.

  Lemma pstep_cap d d1 : pstep d d1 -> capacity (gr d) <= capacity (gr d1).
  Proof.
    intros H. destruct H.
    - unfold insert_node_db in H. destruct (insert_node (gr d)) as [i0 g] eqn:E. injection H as <- <-.
      cbn [gr push_undo with_gr]. change g with (snd (i0, g)). rewrite <- E, cap_insert_node. apply cap_get_free_index_le.
    - unfold insert_edge_db in H1. destruct (insert_edge (gr d) f t) as [[i0 g]|] eqn:E; [|discriminate].
      injection H1 as <- <-. cbn [gr push_undo with_gr]. rewrite (cap_insert_edge _ _ _ _ _ E). apply cap_get_free_index_le.
    - unfold remove_edge_db in H1. destruct (Graph.remove_edge (gr d) (- e0)) as [g|] eqn:E; [|discriminate].
      injection H1 as <-. cbn [gr push_undo with_gr]. rewrite (cap_remove_edge _ _ _ E). lia.
    - cbn [gr push_undo with_gr]. rewrite (cap_remove_node _ _ _ H3). lia.
    - cbn. lia.
    - unfold insert_alias. rewrite Hsteal.
      destruct (imap_key (aliases d) id); cbn [aliases with_aliases push_undo];
        match goal with |- context [imap_value ?m a] => destruct (imap_value m a) end; cbn; lia.
    - unfold remove_alias. destruct (imap_value (aliases d) a); cbn; lia.
    - cbn. lia.
    - unfold insert_or_replace_key_value. destruct (kvs_insert_or_replace (vals d) id x) as [[old|] s]; cbn; lia.
    - cbn. lia.
    - rewrite remove_keys_fold, gr_remove_sel_fold. lia.
    - unfold remove_all_values. cbn [gr with_vals].
      destruct (remove_all_fold_fields (kvs_get (vals d) id) id d) as (Eg & _). rewrite Eg, gr_remove_sel_fold. lia.
    - unfold insert_index in H. destruct (idx_find (indexes d) key); [discriminate|]. injection H as _ <-.
      match goal with |- _ <= capacity (gr ?X) => assert (Hinv : backfill_inv key (with_indexes (push_undo d (CRemoveIndex key)) (indexes (push_undo d (CRemoveIndex key)) ++ [(key, [])])) X) end.
      { apply backfill_inv_outer. repeat split. }
      destruct Hinv as (Eg & _). rewrite Eg. cbn. lia.
    - unfold remove_index. destruct (idx_find (indexes d) key) as [ids|]; cbn [snd]; [|lia].
      cbn [gr with_indexes push_undo]. destruct (push_fold_fields key ids d) as (Eg & _). rewrite Eg. lia.
  Qed.

  Lemma psteps_cap d d1 : psteps d d1 -> capacity (gr d) <= capacity (gr d1).
  Proof. induction 1; [lia|]. pose proof (pstep_cap _ _ H0). lia. Qed.

  (* C13_step_inverse, all primitives at once *)
  Theorem pstep_ok d d1 :
    db_ok d -> pstep d d1 -> capacity (gr d1) <= two63z -> db_ok d1 /\ undoable rv d d1.
  Proof.
    intros Hok H Hb. destruct H.
    - destruct (step_insert_node_db rv Hrv d i d1 Hok H Hb) as (H1 & H2 & _). auto.
    - destruct (step_insert_edge_db rv Hrv d f t i d1 Hok H H0 H1 Hb) as (H2 & H3 & _). auto.
    - destruct (db_ok_rep d Hok) as (a & R).
      apply is_edge_kind in H0; [|assumption]. destruct H0 as (f & t & Hk).
      unfold rep in R. rewrite <- (r_kind _ _ _ _ R) in Hk by assumption.
      destruct (step_remove_edge_db rv Hrv d a e0 f t Hok R H Hk) as (d1' & E & H2 & H3 & _).
      rewrite H1 in E. injection E as <-. auto.
    - destruct (db_ok_rep d Hok) as (a & R).
      apply is_node_kind in H0; [|assumption]. unfold rep in R. rewrite <- (r_kind _ _ _ _ R) in H0 by assumption.
      pose proof (out_edges_nil_aout _ _ _ R H H0 H1) as Ho. pose proof (in_edges_nil_ain _ _ _ R H H0 H2) as Hi.
      destruct (step_remove_isolated_node rv Hrv d a n Hok R H H0 Ho Hi) as (g'' & E & H4 & H5 & _).
      rewrite H3 in E. injection E as <-. auto.
    - apply step_insert_new_alias; assumption.
    - apply step_insert_alias; assumption.
    - apply step_remove_alias; assumption.
    - apply step_insert_key_value; assumption.
    - apply step_insert_or_replace; assumption.
    - apply step_reserve_kv; assumption.
    - apply step_remove_keys; assumption.
    - apply step_remove_all_values; assumption.
    - eapply step_insert_index; eassumption.
    - apply step_remove_index; assumption.
  Qed.

  Lemma psteps_ok d d1 :
    db_ok d -> psteps d d1 -> capacity (gr d1) <= two63z -> db_ok d1 /\ undoable rv d d1.
  Proof.
    intros Hok H. induction H as [d|d d1 d2 H12 IH H2]; intros Hb.
    - split; [assumption | apply undoable_refl; assumption].
    - pose proof (pstep_cap _ _ H2) as Hc. destruct IH as (Hok1 & U1); [assumption | lia|].
      destruct (pstep_ok d1 d2 Hok1 H2 Hb) as (Hok2 & U2).
      split; [assumption | eapply undoable_trans; eassumption].
  Qed.

  (* C13_rollback_restores *)
  Theorem rollback_restores d d1 :
    db_ok d -> undo d = [] -> psteps d d1 -> capacity (gr d1) <= two63z ->
    exists d', rollback rv d1 = ROk d' /\ sim d' d.
  Proof.
    intros Hok Hu H Hb. destruct (psteps_ok d d1 Hok H Hb) as (Hok1 & U).
    apply (undoable_rollback rv d d1 Hu U Hok1).
  Qed.
End Main.
