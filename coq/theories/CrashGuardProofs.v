(* CrashGuardProofs.v — C02 / C03 / C32 for the recovery WITH the position guard of apply_wal_record
   (recover_g): at every crash cut of a log the storage wrote the guard does not fire and the guarded
   recovery is the unguarded one (FileWalGuardProofs.v), so every consequence of C01 in CrashProofs.v
   carries over word for word. *)
From Agdb Require Import Bytes FileWal FileWalProofs FileWalGuardProofs TxnNesting CrashProofs.
From Coq Require Import ZifyBool ZifyNat.
Open Scope nat_scope.

Notation st_of d0 := {| data := d0; wal := [] |}.

Lemma guarded_cut d0 ops k j : wp d0 ops ->
  recover_g walrev_fixed (crash (st_of d0) (trace walrev_fixed (st_of d0) ops) k j)
  = Some (recover walrev_fixed (crash (st_of d0) (trace walrev_fixed (st_of d0) ops) k j)).
Proof. intros H. apply (recover_g_from_committed d0 ops k j H). Qed.

Theorem crash_recovers_a_flush_point_g d0 ops k j :
  wp d0 ops ->
  let st := st_of d0 in
  exists r, recover_g walrev_fixed (crash st (trace walrev_fixed st ops) k j) = Some r /\
            wal r = [] /\ In (data r) (d0 :: flush_points st ops).
Proof.
  intros H st. subst st. eexists. split; [apply guarded_cut; exact H|].
  split; [reflexivity|]. apply crash_recovers_a_flush_point. exact H.
Qed.

Theorem atomic_single_flush_g d0 body k j :
  no_flush body = true -> wp d0 (body ++ [OFlush]) ->
  let st := st_of d0 in
  exists r, recover_g walrev_fixed (crash st (trace walrev_fixed st (body ++ [OFlush])) k j) = Some r /\
            wal r = [] /\ (data r = d0 \/ data r = final_data st body).
Proof.
  intros Hnf H st. subst st. eexists. split; [apply guarded_cut; exact H|].
  apply (atomic_single_flush d0 body k j Hnf H).
Qed.

Theorem leaked_transaction_loses_later_work_g d0 n later k j :
  1 <= n -> stays_open n later = true -> wp d0 (sd_ops n later) ->
  let st := st_of d0 in
  recover_g walrev_fixed (crash st (trace walrev_fixed st (sd_ops n later)) k j) = Some (st_of d0).
Proof.
  intros Hn Hs H st. subst st. rewrite guarded_cut by exact H. f_equal.
  now apply leaked_transaction_loses_later_work.
Qed.

Theorem flushed_work_is_kept_g d0 ops :
  wp d0 (ops ++ [OFlush]) ->
  let st := st_of d0 in
  let fin := run_calls st (trace walrev_fixed st (ops ++ [OFlush])) in
  recover_g walrev_fixed fin = Some {| data := data fin; wal := [] |}.
Proof.
  intros H st fin.
  pose proof (flushed_work_is_kept d0 ops H) as K. cbv zeta in K. fold st fin in K.
  pose proof (guarded_cut d0 (ops ++ [OFlush]) (length (trace walrev_fixed st (ops ++ [OFlush]))) 0 H) as G.
  fold st in G. rewrite crash_all in G by lia. fold fin in G. now rewrite G, K.
Qed.

Lemma clean_reopen_g (d : bytes) : recover_g walrev_fixed (st_of d) = Some (st_of d).
Proof. reflexivity. Qed.
