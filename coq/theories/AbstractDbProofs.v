(* AbstractDbProofs.v — the "abstract database" facts users rely on, as corollaries of the joint
   invariant Inv, which holds at every point of every history (HistoryAtomicProofs.v):
   ids that resolve exist; aliases are one-to-one names of existing nodes; an element's keys are
   unique and only existing elements carry properties; index searches are exact; every search returns
   existing elements; edges join existing nodes and the adjacency lists are exact; the unconditioned
   traversals return exactly the reachable elements; any element can be removed. *)
From Agdb Require Import Bytes BytesProofs DbValue Graph DbModel Search Queries Revisions
  GraphSim GraphWf GraphC08 DbCascadeProofs AdjOk TraverseSpec TraverseProofs AdjOkWf
  ImapProofs AliasProofs KvProofs KvDbProofs IndexProofs IndexDbProofs IndexDb3Proofs IndexDb4Proofs IndexInvProofs
  DbInvProofs QueryInvProofs TraversalLiveProofs DbInvariantProofs HistoryAtomicProofs.
Open Scope Z_scope.

Theorem Inv_abstract d :
  Inv d ->
  (* ids *)
  (forall q id, db_id d q = ROk id -> live d id = true) /\
  (* aliases *)
  (alias_bij d /\ alias_nodes d /\
   forall a b id, imap_value (aliases d) a = Some id -> imap_value (aliases d) b = Some id -> a = b) /\
  (* properties *)
  (kvs_distinct (vals d) /\ vals_live d) /\
  (* indexes *)
  (forall key ids value id, idx_find (indexes d) key = Some ids ->
     count_occ Z.eq_dec (map snd (filter (fun p : dbvalue * Z => dbv_eqb (fst p) value) ids)) id =
     if live d id then match kvs_value (vals d) id key with
                       | Some v' => b2nat (dbv_eqb v' value)
                       | None => 0%nat
                       end
     else 0%nat) /\
  (* searches *)
  (forall s ids, search rv_fixed d s = SOk ids -> forall id, In id ids -> live d id = true) /\
  (* graph *)
  (forall e, is_edge (gr d) e = true ->
     0 < edge_from (gr d) e /\ is_node (gr d) (edge_from (gr d) e) = true /\
     0 < edge_to (gr d) e /\ is_node (gr d) (edge_to (gr d) e) = true) /\
  (forall n, 0 < n -> is_node (gr d) n = true ->
     (forall e, In e (out_edges (gr d) n) <-> e < 0 /\ is_edge (gr d) e = true /\ edge_from (gr d) e = n) /\
     (forall e, In e (in_edges (gr d) n) <-> e < 0 /\ is_edge (gr d) e = true /\ edge_to (gr d) e = n) /\
     edge_count_from (gr d) n = Z.of_nat (length (out_edges (gr d) n)) /\
     edge_count_to (gr d) n = Z.of_nat (length (in_edges (gr d) n))) /\
  (forall a reverse origin, live d origin = true ->
     exists r, graph_search rv_fixed d a reverse origin [] HDefault = Some (origin :: r) /\
               NoDup (origin :: r) /\ (forall x, In x (origin :: r) <-> reach (gr d) reverse origin x)) /\
  (forall id, exists d' b, remove_id d id = (d', ROk b) /\ live d' id = false).
Proof.
  intros Hd. pose proof Hd as (Hwf & Hb & Hn & Hk & Hi).
  split; [intros q id; now apply db_id_live|].
  split; [split; [exact Hb|split; [exact Hn|intros a b id; now apply bij_injective]]|].
  split; [now apply Inv_values|].
  split; [apply (Inv_indexes d Hd)|].
  split; [intros s ids; now apply search_live_fixed|].
  split; [intros e; now apply wf_edge_ends|].
  split.
  { intros n Hp Hnode. destruct (wf_adjacency (gr d) n Hwf Hp Hnode) as [(_ & A & B) (_ & C & D)]. auto. }
  split; [intros a reverse origin Ho; now apply traversal_exact_wf|].
  intros id. destruct (remove_id_total d id Hwf) as (d' & b & E & _ & G). exists d', b. now split.
Qed.

Theorem history_abstract_fixed its :
  Forall item_ok its -> bounded rv_fixed db_new its ->
  Inv (run_items rv_fixed db_new its).
Proof. intros Hok Hb. apply (history_HInv_fixed its Hok Hb). Qed.
