(* IndexExample.v — a concrete history for C11 (non-vacuity): data inserted before the index is
   created, a replacement, a removed element; the index search and the listing on the model. *)
From Agdb Require Import Bytes DbValue Graph DbModel Search Queries Revisions QStepProofs
  KvProofs KvDbProofs IndexProofs IndexDbProofs IndexDb3Proofs IndexDb4Proofs IndexInvProofs.
Open Scope Z_scope.

Definition c11_key : dbvalue := DString [x6b].
Definition c11_search (v : dbvalue) : search_query :=
  {| s_algorithm := AIndex; s_origin := QId 0; s_destination := QId 0; s_limit := 0; s_offset := 0;
     s_order_by := []; s_conditions := [Cond LAnd MNone (CKeyValue c11_key CEqual v)] |}.

Definition c11_history : list query :=
  [InsertNodes 3 (Multi [[(c11_key, DI64 1)]; [(c11_key, DI64 2)]; [(c11_key, DI64 1)]]) [] (Ids []);
   InsertIndex c11_key;
   InsertValues (Ids [QId 2]) (Single [(c11_key, DI64 1)]);
   Remove (Ids [QId 1])].

Lemma c11_example :
  let d := exec_all rv_fixed db_new c11_history in
  search rv_fixed d (c11_search (DI64 1)) = SOk [3; 2] /\
  search rv_fixed d (c11_search (DI64 2)) = SOk [] /\
  count_having d c11_key = 2%nat /\
  snd (exec rv_fixed d (InsertIndex c11_key)) = QErr ENotAllowed /\
  exec_select rv_fixed d SelectIndexes =
    QOk 1 [ {| e_id := 0; e_from := 0; e_to := 0; e_values := [(c11_key, DU64 2)] |} ].
Proof.
  cbv zeta. split; [vm_compute; reflexivity|]. split; [vm_compute; reflexivity|].
  split; [vm_compute; reflexivity|]. split; vm_compute; reflexivity.
Qed.
