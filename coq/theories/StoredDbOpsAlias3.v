(* StoredDbOpsAlias3.v — DbImpl::insert_new_alias on a stored database (layer L3): so_alias_insert_new_stored.

   From a stored database (stored_db_w) whose two alias tables satisfy C19's invariant (so_alias_tables_ok), for an alias
   that is not in use (imap_value = None) and an id that has no alias (imap_key = None), under so_alias_new_ok —
     neither table grows (len < capacity * 15 / 16: so_no_grow),
     neither probe comes back to its start (so_no_full_cycle: no in-place rehash),
     the alias and the id are valid elements (valid UTF-8 of bounded length / an i64), len + 1 < 2^64 —
   the program so_alias_insert_new (StoredDbOpsAlias2.v) ends in a store that holds DbModel's insert_new_alias d id alias;
   the witness differs in the two alias components only (so the graph / values handles stay valid); the new tables
   satisfy C19's invariant again; the transaction depth is restored; only the footprint changed (frame). *)
From Coq Require Import List NArith ZArith Arith Bool Lia Permutation.
Import ListNotations.
From Agdb Require Import Bytes BytesProofs Utf8 Codec DbValue ValueIndex Graph DbModel Records RecordsProofs Storage StorageSpec
  StorageLayout Collections CollValues CollWp CollBytes CollVecBase CollVecOps CollVec CollVec2 CollElems CollSep CollMap CollMapHist
  CollGraph CollValuesProofs OpenMap OpenMapProofs OpenMapSpec OpenMapRefineBase OpenMapRefineStep OpenMapRefine
  StoredDb StoredDbRep StoredDbLoad StoredDbProbe StoredDbFrame StoredDbOps StoredDbOpsDb StoredDbOpsDb2 StoredDbOpsAlias
  StoredDbOpsAlias2.
Open Scope N_scope.

Section Absent.
  Variables K V : Type.
  Variable keqb : K -> K -> bool.
  Hypothesis keqb_eq : forall a b, keqb a b = true <-> a = b.

  (* a key the model's list does not hold is in no Valid slot *)
  Lemma so_absent_from_lookup (t : cm_table K V) (l : list (K * V)) key :
    Permutation (sd_table_entries t) l -> alookup keqb l key = None ->
    so_key_absent K V keqb (ct_slots K V (ct_states t) (ct_keys t) (ct_values t)) key.
  Proof.
    intros HP Hn j k v Hj. destruct (keqb k key) eqn:E; [|reflexivity]. exfalso.
    apply keqb_eq in E. subst k.
    set (sl := ct_slots K V (ct_states t) (ct_keys t) (ct_values t)) in *.
    assert (Hlt : (j < length sl)%nat).
    { destruct (Nat.lt_ge_cases j (length sl)) as [X|X]; [exact X|]. rewrite nth_overflow in Hj by exact X. discriminate. }
    pose proof (entries_nth_in K V sl j key v Hlt Hj) as Hin.
    assert (Hin2 : In (key, v) (sd_table_entries t)).
    { rewrite (sd_table_entries_iter_all K V). exact Hin. }
    apply (alookup_none_notin keqb keqb_eq l key Hn).
    apply in_map_iff. exists (key, v). split; [reflexivity|]. exact (Permutation_in _ HP Hin2).
  Qed.

  Lemma aremove_absent (l : list (K * V)) k : alookup keqb l k = None -> aremove keqb l k = l.
  Proof.
    induction l as [|[k' v'] r IH]; cbn [alookup aremove]; [reflexivity|].
    destruct (keqb k' k); [discriminate|]. intros H. rewrite IH by exact H. reflexivity.
  Qed.

  Lemma nodup_snoc (l : list (K * V)) k v : NoDup (map fst l) -> alookup keqb l k = None -> NoDup (map fst (l ++ [(k, v)])).
  Proof.
    intros ND Hn. rewrite map_app. cbn [map fst].
    eapply Permutation_NoDup; [apply Permutation_cons_append|]. constructor; [|exact ND].
    exact (alookup_none_notin keqb keqb_eq l k Hn).
  Qed.
End Absent.

Lemma imap_insert_new (m : imap) (a : bytes) (id : Z) :
  imap_value m a = None -> imap_key m id = None ->
  imap_insert m a id = {| k2v := k2v m ++ [(a, id)]; v2k := v2k m ++ [(id, a)] |}.
Proof.
  unfold imap_value, imap_key, imap_insert, ainsert. intros H1 H2. rewrite H1, H2.
  rewrite (aremove_absent bytes Z bytes_eqb _ _ H1), (aremove_absent Z bytes Z.eqb _ _ H2). reflexivity.
Qed.

Section AliasInsert.
  Variable hs : bytes -> N.
  Variable hi : Z -> N.
  Variable mincap : nat.
  Hypothesis Hmin : (4 <= mincap)%nat.
  Variable fl : bool.

  Definition so_alias_new_ok (w : sd_wit) (id : Z) (alias : bytes) : Prop :=
    so_no_grow bytes Z (mw_t (sw_a1 w)) /\ so_no_grow Z bytes (mw_t (sw_a2 w)) /\
    so_no_full_cycle bytes Z bytes_eqb hs (mw_t (sw_a1 w)) alias id /\
    so_no_full_cycle Z bytes Z.eqb hi (mw_t (sw_a2 w)) id alias /\
    el_valid law_string alias /\ el_valid law_i64 id /\
    ct_len (mw_t (sw_a1 w)) + 1 < two64 /\ ct_len (mw_t (sw_a2 w)) + 1 < two64.

  Theorem so_alias_insert_new_stored x root d w h a id alias sp :
    stored_db_w (hp sp) root d w -> so_handles h w -> so_alias_handles a w -> so_alias_tables_ok hs hi mincap w ->
    imap_value (aliases d) alias = None -> imap_key (aliases d) id = None ->
    so_alias_new_ok w id alias ->
    cwp fl (so_alias_insert_new hs hi x a id alias) sp
        (fun r sp' => exists a' w', r = CrOk a' /\ stored_db_w (hp sp') root (insert_new_alias d id alias) w' /\
                        so_handles h w' /\ so_alias_handles a' w' /\ so_alias_tables_ok hs hi mincap w' /\
                        (exists m1 m2, w' = sd_with_a2 (sd_with_a1 w m1) m2) /\
                        sdepth sp' = sdepth sp /\ frame (hp sp) (hp sp') (sd_foot root w) (sd_foot root w')).
  Proof.
    intros H Hh [Ea1 Ea2] [P1 P2] Hv Hk (G1 & G2 & F1 & F2 & VA & VI & L1 & L2).
    destruct a as [a1 a2]. cbn [fst snd] in Ea1, Ea2. subst a1 a2.
    unfold so_alias_insert_new, so_imap_insert. cbn [fst snd].
    destruct (sr_a1 _ _ _ _ H) as (HM1 & Hi1 & Hp1).
    apply cwp_bind.
    eapply (so_map_insert_absent bytes Z ce_string ce_i64 law_string law_i64 bytes_eqb Z.eqb hs mincap fl bytes_eqb_eq Z.eqb_eq Hmin);
      [exact HM1|exact P1|eapply (so_absent_from_lookup bytes Z bytes_eqb bytes_eqb_eq); [exact Hp1|exact Hv]|exact G1|exact F1|exact VA|exact VI|exact L1|].
    intros d1 ss1 ks1 vs1 t1 sp1 HM1' Hidx1 P1' Perm1 Hd1 Hf1. cbn [kont snd fst cbind].
    set (m1 := {| mw_d := d1; mw_ss := ss1; mw_ks := ks1; mw_vs := vs1; mw_t := t1 |}).
    destruct (sd_a1_update (hp sp) (hp sp1) root d w m1 (k2v (aliases d) ++ [(alias, id)])) as [H1 Fr1]; [exact H| | |exact Hf1|].
    { split; [exact HM1'|]. split; [cbn [m1 mw_d]; congruence|]. cbn [m1 mw_t].
      eapply Permutation_trans; [exact Perm1|]. eapply Permutation_trans; [apply perm_skip; exact Hp1|]. apply Permutation_cons_append. }
    { apply (nodup_snoc bytes Z bytes_eqb bytes_eqb_eq); [exact (sr_a1_keys _ _ _ _ H)|exact Hv]. }
    set (w1 := sd_with_a1 w m1) in *.
    destruct (sr_a2 _ _ _ _ H1) as (HM2 & Hi2 & Hp2). cbn [w1 sd_with_a1 sw_a2 sw_root with_aliases aliases v2k] in HM2, Hi2, Hp2.
    apply cwp_bind.
    eapply (so_map_insert_absent Z bytes ce_i64 ce_string law_i64 law_string Z.eqb bytes_eqb hi mincap fl Z.eqb_eq bytes_eqb_eq Hmin);
      [exact HM2|exact P2|eapply (so_absent_from_lookup Z bytes Z.eqb Z.eqb_eq); [exact Hp2|exact Hk]|exact G2|exact F2|exact VI|exact VA|exact L2|].
    intros d2 ss2 ks2 vs2 t2 sp2 HM2' Hidx2 P2' Perm2 Hd2 Hf2. cbn [kont snd fst cbind cwp].
    set (m2 := {| mw_d := d2; mw_ss := ss2; mw_ks := ks2; mw_vs := vs2; mw_t := t2 |}).
    destruct (sd_a2_update (hp sp1) (hp sp2) root _ w1 m2 (v2k (aliases d) ++ [(id, alias)]) H1) as [H2 Fr2]; [| |exact Hf2|].
    { split; [exact HM2'|]. split; [cbn [m2 mw_d w1 sd_with_a1 sw_root]; congruence|]. cbn [m2 mw_t].
      eapply Permutation_trans; [exact Perm2|]. eapply Permutation_trans; [apply perm_skip; exact Hp2|]. apply Permutation_cons_append. }
    { apply (nodup_snoc Z bytes Z.eqb Z.eqb_eq); [exact (sr_a2_keys _ _ _ _ H)|exact Hk]. }
    exists (d1, d2), (sd_with_a2 w1 m2). split; [reflexivity|]. split.
    { eapply stored_db_w_same; [exact H2| | | |]; try reflexivity.
      unfold insert_new_alias. cbn [with_aliases push_undo aliases k2v v2k]. rewrite (imap_insert_new _ _ _ Hv Hk). reflexivity. }
    split; [exact Hh|]. split; [split; reflexivity|]. split; [split; [exact P1'|exact P2']|].
    split; [exists m1, m2; reflexivity|]. split; [lia|].
    eapply frame_trans; [exact Fr1|exact Fr2].
  Qed.
End AliasInsert.
