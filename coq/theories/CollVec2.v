(* CollVec2.v — proofs (collections, part 6): VecImpl::remove, VecImpl::swap and
   DbVecData::remove_from_storage (continuation of CollVec.v). *)
From Agdb Require Import Bytes BytesProofs Records RecordsProofs Storage StorageSpec StorageLayout
  Collections CollWp CollBytes CollVecBase CollVecOps CollVec.
From Coq Require Import ZifyBool ZifyNat ZifyN Permutation.
Ltac Zify.zify_post_hook ::= Z.div_mod_to_equations.
Open Scope N_scope.
Arguments N.add : simpl never.
Arguments N.mul : simpl never.
Arguments N.sub : simpl never.
Arguments N.of_nat : simpl never.
Arguments N.to_nat : simpl never.
Arguments N.eqb : simpl never.
Arguments N.ltb : simpl never.
Arguments N.leb : simpl never.
Arguments N.div : simpl never.

Section Vec2.
  Variable T : Type.
  Variable E : cv_elem T.
  Variable L : elem_law E.
  Variable fl : bool.

  Let sz := ce_size E.
  Let k := N.to_nat sz.

  Notation owned := (owned T E L).
  Notation vinv := (vinv T E L).
  Notation vrep := (vrep T E L).
  Notation foot := (foot T E L).
  Notation rep := (el_rep L).
  Notation own := (el_own L).

  (* ---------------- VecImpl::remove ---------------- *)
  Lemma cv_remove_spec h bss l i sp (Q : cres (cv_vec * T) -> spec -> Prop) :
    vrep (hp sp) h bss l ->
    match nth_error l (N.to_nat i) with
    | Some old => forall bss' sp', vrep (hp sp') (cv_set_len h (cv_len h - 1)) bss' (cl_remove l (N.to_nat i)) ->
                    sdepth sp' = sdepth sp ->
                    frame (hp sp) (hp sp') (foot h bss) (foot h bss') -> Q (CrOk (cv_set_len h (cv_len h - 1), old)) sp'
    | None => Q (CrErr CvIndex) sp
    end ->
    cwp fl (cv_remove T E h i) sp Q.
  Proof.
    intros HR HQ. unfold cv_remove. pose proof (vr_len _ _ _ _ _ _ _ HR) as HL.
    destruct (N.lt_ge_cases i (cv_len h)) as [Hi|Hi].
    2:{ apply (cv_validate_err T E fl); [exact Hi|]. destruct (nth_error l (N.to_nat i)) eqn:En; [|exact HQ].
        apply nth_error_Some_lt in En. unfold lenN in HL. lia. }
    apply (cv_validate_ok T E fl); [exact Hi|]. destruct (vrep_nth T E L _ _ _ _ _ HR Hi) as (old & Hx & Hrep). rewrite Hx in HQ.
    pose proof (vr_inv _ _ _ _ _ _ _ HR) as HI. pose proof (vrep_lenN T E L _ _ _ _ HR) as HB.
    assert (Hin : (N.to_nat i < length bss)%nat) by (unfold lenN in HB; lia).
    assert (Hli : (N.to_nat i < length l)%nat) by (eapply nth_error_Some_lt; eauto).
    set (bi := nth (N.to_nat i) bss []) in *.
    apply cwp_bind. eapply cv_read_slot_spec; [exact HR|intros j; reflexivity|exact Hi|]. cbn [kont]. fold bi.
    apply cwp_bind. eapply (el_load E L); [exact Hrep|]. cbn [kont].
    apply cwp_bind. apply hwp_transaction. intros sp0 Hm0 Hd0. cbn [kont].
    assert (Hrep0 : rep (hp sp0) bi old) by (eapply (el_local E L); [exact Hrep|intros j _; apply Hm0]).
    apply cwp_bind. eapply (el_remove E L); [exact Hrep0|]. intros sp1 Hd1 Hfree1 Hsame1. cbn [kont].
    pose proof (vi_nodup _ _ _ _ _ _ _ _ HI) as Hnd.
    destruct (nodup_remove T E L _ _ _ Hin Hnd) as [Hnd' Hdis]. fold bi in Hdis.
    assert (Hidx_bi : ~ In (cv_index h) (own bi)) by (intros I; destruct (Hdis _ I) as [X _]; congruence).
    destruct (vinv_rec_get T E L _ _ _ _ _ HI) as (spare & Hrec).
    assert (Hrec1 : hp sp1 (cv_index h) = Some (le64 (cv_len h) ++ concat bss ++ spare)) by (rewrite (Hsame1 _ Hidx_bi), Hm0; exact Hrec).
    apply cwp_bind. rewrite <- HB.
    eapply (wr_move_down T E fl); [exact Hrec1|eapply vinv_chunks; exact HI|exact Hin|]. intros spare' sp2 Hm2 Hd2. cbn [kont].
    apply cwp_bind. cbn [cv_set_len cv_len].
    eapply wr_header; [rewrite Hm2; apply hupd_same|]. intros sp3 Hm3 Hd3. cbn [kont].
    apply cwp_bind. apply hwp_commit; [lia|lia|]. intros sp4 Hm4 Hd4. cbn [kont cwp].
    pose proof (vi_elems _ _ _ _ _ _ _ _ HI) as HE.
    assert (H4 : forall j, j <> cv_index h -> hp sp4 j = hp sp1 j).
    { intros j Hj. rewrite Hm4, Hm3, hupd_other by congruence. rewrite Hm2. apply hupd_other. congruence. }
    rewrite HB.
    eapply (HQ (cl_remove bss (N.to_nat i)) sp4); [|lia|].
    - constructor; cbn [cv_set_len cv_index cv_len cv_cap].
      + constructor.
        * exists spare'. rewrite Hm4, Hm3. rewrite HB. apply hupd_same.
        * eapply elems_transport; [apply Forall2_remove; exact HE|]. intros j Hj.
          assert (Hjo : In j (owned bss)) by (eapply owned_remove_in; eauto).
          rewrite H4 by (intros ->; exact (nodup_head_in _ _ Hnd Hjo)).
          rewrite Hsame1; [apply Hm0|]. intros I. destruct (Hdis _ I) as [_ X]. contradiction.
        * exact Hnd'.
      + unfold lenN. rewrite cl_remove_length by exact Hli. unfold lenN in HL. lia.
      + pose proof (vr_cap _ _ _ _ _ _ _ HR). lia.
      + pose proof (vr_fits _ _ _ _ _ _ _ HR) as HF. unfold lenN in *. rewrite cl_remove_length by exact Hli.
        assert (ce_size E * N.of_nat (length l - 1) <= ce_size E * N.of_nat (length l)) by (apply N.mul_le_mono_l; lia). lia.
    - unfold foot. rewrite (owned_split T E L bss _ Hin). fold bi. unfold cl_remove. rewrite owned_app.
      split; [|split]; intros j; cbn [In]; rewrite !in_app_iff; intros H1 H2.
      + assert (j <> cv_index h) by (intros ->; tauto). rewrite H4 by assumption. rewrite Hsame1 by tauto. apply Hm0.
      + exfalso. tauto.
      + assert (Hjb : In j (own bi)) by tauto. assert (j <> cv_index h) by (intros ->; tauto).
        rewrite H4 by assumption. apply Hfree1. exact Hjb.
  Qed.

  (* ---------------- VecImpl::swap ---------------- *)
  Lemma cv_swap_spec h bss l i j sp (Q : cres unit -> spec -> Prop) :
    vrep (hp sp) h bss l ->
    (if i =? j then Q (CrOk tt) sp
     else match nth_error l (N.to_nat i), nth_error l (N.to_nat j) with
          | Some a, Some b => forall bss' sp', vrep (hp sp') h bss' (cl_upd (cl_upd l (N.to_nat i) b) (N.to_nat j) a) ->
                                sdepth sp' = sdepth sp ->
                                frame (hp sp) (hp sp') (foot h bss) (foot h bss') -> Q (CrOk tt) sp'
          | _, _ => Q (CrErr CvIndex) sp
          end) ->
    cwp fl (cv_swap T E h i j) sp Q.
  Proof.
    intros HR HQ. unfold cv_swap. pose proof (vr_len _ _ _ _ _ _ _ HR) as HL.
    destruct (N.eqb_spec i j) as [Eij|Nij]; [exact HQ|].
    destruct (N.lt_ge_cases i (cv_len h)) as [Hi|Hi].
    2:{ apply (cv_validate_err T E fl); [exact Hi|]. destruct (nth_error l (N.to_nat i)) eqn:En.
        - apply nth_error_Some_lt in En. unfold lenN in HL. lia.
        - exact HQ. }
    apply (cv_validate_ok T E fl); [exact Hi|].
    destruct (vrep_nth T E L _ _ _ _ _ HR Hi) as (a & Ha & Hrepa). rewrite Ha in HQ.
    destruct (N.lt_ge_cases j (cv_len h)) as [Hj|Hj].
    2:{ apply (cv_validate_err T E fl); [exact Hj|]. destruct (nth_error l (N.to_nat j)) eqn:En; [|exact HQ].
        apply nth_error_Some_lt in En. unfold lenN in HL. lia. }
    apply (cv_validate_ok T E fl); [exact Hj|].
    destruct (vrep_nth T E L _ _ _ _ _ HR Hj) as (b & Hb & Hrepb). rewrite Hb in HQ.
    pose proof (vr_inv _ _ _ _ _ _ _ HR) as HI. pose proof (vrep_lenN T E L _ _ _ _ HR) as HB.
    assert (Hin : (N.to_nat i < length bss)%nat) by (unfold lenN in HB; lia).
    assert (Hjn : (N.to_nat j < length bss)%nat) by (unfold lenN in HB; lia).
    set (bi := nth (N.to_nat i) bss []) in *. set (bj := nth (N.to_nat j) bss []) in *.
    assert (Hc : chunks k bss) by (eapply vinv_chunks; exact HI).
    apply cwp_bind. eapply cv_read_slot_spec; [exact HR|intros x; reflexivity|exact Hi|]. cbn [kont]. fold bi.
    apply cwp_bind. apply hwp_transaction. intros sp0 Hm0 Hd0. cbn [kont].
    destruct (vinv_rec_get T E L _ _ _ _ _ HI) as (spare & Hrec).
    apply cwp_bind. eapply (wr_move_slot T E L fl); [rewrite Hm0; exact Hrec|exact Hc|exact Hin|exact Hjn|exact Nij|].
    intros sp1 Hm1 Hd1. cbn [kont]. fold bj in Hm1.
    apply cwp_bind.
    eapply (wr_slot T E fl); [rewrite Hm1; apply hupd_same| | |apply chunks_nth; assumption|].
    { apply chunks_upd; [apply chunks_upd; [exact Hc|apply chunks_nth; assumption]|rewrite zeros_length; reflexivity]. }
    { rewrite !cl_upd_length. exact Hjn. }
    fold bi. rewrite cl_upd_upd. intros sp2 Hm2 Hd2. cbn [kont].
    apply hwp_commit; [lia|lia|]. intros sp3 Hm3 Hd3.
    pose proof (vi_nodup _ _ _ _ _ _ _ _ HI) as Hnd.
    assert (H3 : forall x, x <> cv_index h -> hp sp3 x = hp sp x).
    { intros x Hx. rewrite Hm3, Hm2, hupd_other by congruence. rewrite Hm1, hupd_other by congruence. apply Hm0. }
    assert (Hperm : Permutation (cl_upd (cl_upd bss (N.to_nat i) bj) (N.to_nat j) bi) bss).
    { apply swap_perm; [| |lia].
      - unfold bi. clear - Hin. revert Hin. generalize (N.to_nat i). intros n. revert bss. induction n as [|n IH]; intros [|y t] H; cbn [length] in H; try lia; cbn [nth_error nth]; [reflexivity|apply IH; lia].
      - unfold bj. clear - Hjn. revert Hjn. generalize (N.to_nat j). intros n. revert bss. induction n as [|n IH]; intros [|y t] H; cbn [length] in H; try lia; cbn [nth_error nth]; [reflexivity|apply IH; lia]. }
    assert (Hpo : Permutation (owned (cl_upd (cl_upd bss (N.to_nat i) bj) (N.to_nat j) bi)) (owned bss)).
    { unfold CollVecBase.owned. apply Permutation_flat_map. exact Hperm. }
    pose proof (vi_elems _ _ _ _ _ _ _ _ HI) as HE.
    assert (HE3 : Forall2 (rep (hp sp3)) bss l).
    { eapply elems_transport; [exact HE|]. intros x Hx. apply H3. intros ->. exact (nodup_head_in _ _ Hnd Hx). }
    eapply (HQ (cl_upd (cl_upd bss (N.to_nat i) bj) (N.to_nat j) bi) sp3); [|lia|].
    - constructor.
      + constructor.
        * exists spare. rewrite Hm3, Hm2. apply hupd_same.
        * apply Forall2_upd; [apply Forall2_upd; [exact HE3|]|].
          -- eapply elems_nth; [exact HE3|exact Hb].
          -- eapply elems_nth; [exact HE3|exact Ha].
        * apply NoDup_cons_iff in Hnd. destruct Hnd as [Hx Ho]. constructor.
          -- intros I. apply Hx. eapply Permutation_in; [exact Hpo|exact I].
          -- eapply Permutation_NoDup; [symmetry; exact Hpo|exact Ho].
      + rewrite HL. unfold lenN. rewrite !cl_upd_length. reflexivity.
      + exact (vr_cap _ _ _ _ _ _ _ HR).
      + unfold lenN. rewrite !cl_upd_length. exact (vr_fits _ _ _ _ _ _ _ HR).
    - eapply (frame_equiv _ _ (foot h bss) (foot h bss)); [intros x; reflexivity| |].
      + intros x. unfold foot. cbn [In]. split; intros [Hx|Hx]; auto; right.
        * eapply Permutation_in; [symmetry; exact Hpo|exact Hx].
        * eapply Permutation_in; [exact Hpo|exact Hx].
      + split; [|split]; intros x; try tauto. intros Hx _. apply H3. intros ->. apply Hx. left; reflexivity.
  Qed.

  (* ---------------- DbVecData::remove_from_storage ---------------- *)
  Lemma cv_remove_from_storage_spec h bss l sp (Q : cres unit -> spec -> Prop) :
    vrep (hp sp) h bss l ->
    (forall sp', sdepth sp' = sdepth sp -> frame (hp sp) (hp sp') (foot h bss) [] -> Q (CrOk tt) sp') ->
    cwp fl (cv_remove_from_storage T E h) sp Q.
  Proof.
    intros HR HQ. unfold cv_remove_from_storage.
    pose proof (vr_inv _ _ _ _ _ _ _ HR) as HI. pose proof (vrep_lenN T E L _ _ _ _ HR) as HB.
    apply cwp_bind. apply hwp_transaction. intros sp0 Hm0 Hd0. cbn [kont].
    destruct (vinv_rec_get T E L _ _ _ _ _ HI) as (spare & Hrec).
    apply cwp_bind.
    replace (N.to_nat (cv_len h)) with (length bss) by (unfold lenN in HB; lia).
    change 0 with (lenN (@nil bytes ++ [])).
    eapply (drop_spec T E L fl bss l (cv_index h) (cv_len h) [] [] [] spare).
    - cbn [app]. rewrite Hm0. exact Hrec.
    - constructor.
    - constructor.
    - eapply elems_transport; [exact (vi_elems _ _ _ _ _ _ _ _ HI)|]. intros j _. apply Hm0.
    - cbn [CollVecBase.owned flat_map app]. exact (vi_nodup _ _ _ _ _ _ _ _ HI).
    - intros sp1 Hrec1 _ Hd1 Hf1. cbn [kont]. cbn [CollVecBase.owned flat_map app] in Hf1.
      apply cwp_bind. eapply hwp_remove; [exact Hrec1|]. intros sp2 Hm2 Hd2. cbn [kont].
      apply hwp_commit; [lia|lia|]. intros sp3 Hm3 Hd3.
      apply HQ; [lia|].
      eapply frame_trans; [apply (frame_refl _ _ (foot h bss)); exact Hm0|].
      eapply frame_trans; [exact Hf1|].
      split; [|split]; intros j; cbn [In].
      + intros H1 _. rewrite Hm3, Hm2. unfold hdel. destruct (N.eqb_spec (cv_index h) j); [tauto|reflexivity].
      + intros [].
      + intros [<-|[]] _. rewrite Hm3, Hm2. unfold hdel. rewrite N.eqb_refl. reflexivity.
  Qed.
End Vec2.
