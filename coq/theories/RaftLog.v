(* RaftLog.v — a third decidable defect class of the log replication of raft.rs (C28c, C29).
   Definitions only (executable, extracted; the model Raft.v is not touched).

   `commit()` decides "replicated on a quorum" by counting the rows `nodes[*].log_index` of the leader's
   peer table.  A row is NOT an acknowledgement of the leader's current term:
     * the rows are never reset when a node becomes Leader;
     * `update_node` writes the row of peer j from j's OWN Append/Heartbeat requests (when j was leader) —
       in `append_request` even before the request is validated;
     * `response()` passes every (Leader, Append|Heartbeat, Ok) answer to `commit()` whatever term the answered
       request belongs to.
   So a leader can count a peer that never received its entry and commit an entry held by fewer than a quorum.
   The observation below is the decidable consequence: at the moment a Leader raises its commit index to
   (or past) idx, fewer than size/2+1 nodes WITH THE LEADER'S TERM hold the leader's entry at idx.

   It is a function of the run (pre-state and post-state of every step), not of the ghost history `c_hist`:
   the history does not record the followers' logs. *)
From Coq Require Import NArith List Bool.
From Agdb Require Import Raft.
Import ListNotations.
Open Scope N_scope.

(* C29 as checked by the oracles: every entry committed by a leader of term t is in the log of every node that
   becomes leader LATER FOR A HIGHER TERM (Raft's Leader Completeness).  `Raft.leader_completeness_b` is the literal
   reading (every later leader whatever its term), which a harmless history violates — a stale candidate that
   becomes leader of an older term (RaftLogLC.late_leader_refutes_literal_C29). *)
Fixpoint leader_completeness_up_b (h : list ghost) : bool :=
  match h with
  | [] => true
  | GCommit _ true t idx e :: rest =>
      forallb (fun g => match g with
                        | GLeader _ t' log => negb (t <? t') || oentry_eqb (log_at log idx) e
                        | _ => true end) rest
      && leader_completeness_up_b rest
  | _ :: rest => leader_completeness_up_b rest
  end.

(* does node v, being in term t, hold e at idx *)
Definition holds_b (t idx : N) (e : option entry) (v : node) : bool :=
  (n_term v =? t) && oentry_eqb (log_at (n_logs v) idx) e.

Definition holders (nodes : list node) (t idx : N) (e : option entry) : N :=
  lenN (filter (holds_b t idx e) nodes).

(* node `old` -> `new` stayed Leader and raised its commit index over an index at which fewer than a quorum of
   `nodes` (the post-state of the cluster) hold its entry in its term *)
Definition nq_node (nodes : list node) (old new : node) : bool :=
  is_leader (n_state old) && is_leader (n_state new) &&
  existsb (fun idx => holders nodes (n_term new) idx (log_at (n_logs new) idx) <? n_size new / 2 + 1)
          (range_from (n_commit old + 1) (N.to_nat (n_commit new - n_commit old))).

Fixpoint nq_nodes (all olds news : list node) : bool :=
  match olds, news with
  | o :: olds', n :: news' => nq_node all o n || nq_nodes all olds' news'
  | _, _ => false
  end.

Definition nq_step (c c' : cluster) : bool := nq_nodes (c_nodes c') (c_nodes c) (c_nodes c').

(* KnownClass `commit-without-quorum` of an event list *)
Fixpoint commit_noquorum_from (rv : raftrev) (c : cluster) (evs : list event) : bool :=
  match evs with
  | [] => false
  | e :: rest => let c' := step rv c e in nq_step c c' || commit_noquorum_from rv c' rest
  end.

Definition commit_noquorum_b (rv : raftrev) (size : N) (evs : list event) : bool :=
  commit_noquorum_from rv (init_default size) evs.
