(* RaftLog.v — a third decidable defect class of the log replication of raft.rs (C28c, C29).
   Definitions only (executable, extracted; the model Raft.v is not touched).

   `commit()` decides "replicated on a quorum" by counting the rows `nodes[*].log_index` of the leader's
   peer table.  A row is NOT an acknowledgement of the leader's current term:
     * the rows are never reset when a node becomes Leader;
     * `update_node` writes the row of peer j from j's OWN Append/Heartbeat requests (when j was leader) —
       in `append_request` even before the request is validated;
     * `response()` passes every (Leader, Append|Heartbeat, Ok) answer to `commit()` whatever term the answered
       request belongs to.
   So a leader can count a peer that never received its entry and commit an entry held by fewer than a quorum.
   The observation below is the decidable consequence: at the moment a Leader raises its commit index to
   (or past) idx, fewer than size/2+1 nodes WITH THE LEADER'S TERM hold the leader's entry at idx.

   It is a function of the run (pre-state and post-state of every step), not of the ghost history `c_hist`:
   the history does not record the followers' logs. *)
From Coq Require Import NArith List Bool.
From Agdb Require Import Raft.
Import ListNotations.
Open Scope N_scope.

(* C29 as checked by the oracles: every entry committed by a leader of term t is in the log of every node that
   becomes leader LATER FOR A HIGHER TERM (Raft's Leader Completeness).  `Raft.leader_completeness_b` is the literal
   reading (every later leader whatever its term), which a harmless history violates — a stale candidate that
   becomes leader of an older term (RaftLogLC.late_leader_refutes_literal_C29). *)
Fixpoint leader_completeness_up_b (h : list ghost) : bool :=
  match h with
  | [] => true
  | GCommit _ true t idx e :: rest =>
      forallb (fun g => match g with
                        | GLeader _ t' log => negb (t <? t') || oentry_eqb (log_at log idx) e
                        | _ => true end) rest
      && leader_completeness_up_b rest
  | _ :: rest => leader_completeness_up_b rest
  end.

(* does node v, being in term t, hold e at idx *)
Definition holds_b (t idx : N) (e : option entry) (v : node) : bool :=
  (n_term v =? t) && oentry_eqb (log_at (n_logs v) idx) e.

Definition holders (nodes : list node) (t idx : N) (e : option entry) : N :=
  lenN (filter (holds_b t idx e) nodes).

(* node `old` -> `new` stayed Leader and raised its commit index over an index at which fewer than a quorum of
   `nodes` (the post-state of the cluster) hold its entry in its term *)
Definition nq_node (nodes : list node) (old new : node) : bool :=
  is_leader (n_state old) && is_leader (n_state new) &&
  existsb (fun idx => holders nodes (n_term new) idx (log_at (n_logs new) idx) <? n_size new / 2 + 1)
          (range_from (n_commit old + 1) (N.to_nat (n_commit new - n_commit old))).

Fixpoint nq_nodes (all olds news : list node) : bool :=
  match olds, news with
  | o :: olds', n :: news' => nq_node all o n || nq_nodes all olds' news'
  | _, _ => false
  end.

Definition nq_step (c c' : cluster) : bool := nq_nodes (c_nodes c') (c_nodes c) (c_nodes c').

(* KnownClass `commit-without-quorum` of an event list *)
Fixpoint commit_noquorum_from (rv : raftrev) (c : cluster) (evs : list event) : bool :=
  match evs with
  | [] => false
  | e :: rest => let c' := step rv c e in nq_step c c' || commit_noquorum_from rv c' rest
  end.

Definition commit_noquorum_b (rv : raftrev) (size : N) (evs : list event) : bool :=
  commit_noquorum_from rv (init_default size) evs.

(* ------------------------------------------------------------------ the ROOT-CAUSE marker of `commit-without-quorum`
   `commit_noquorum_b` above is the observable consequence and also fires in harmless histories of a correct leader
   (a follower that acknowledged and then moved on to a higher term is still counted, rightly).  The root cause is:
   a Leader's commit step COUNTED A ROW OF ITS PEER TABLE THAT IS NOT AN ACKNOWLEDGEMENT OF ITS CURRENT TERM, i.e. a
   row that was not written by `commit()` from an Ok answer to an Append/Heartbeat request of the leader's current term
   since the node became Leader.  The model's state does not record who wrote a row, so this is reconstructed along
   the run (ghost; `Raft.v` is untouched, the handlers never see it):

     `fresh g i j` = node i has been Leader without interruption since row j of its table was last written, and that
                     write was `commit()` handling an Ok answer to a request with `q_term = n_term` of the leader.

   Every step that leaves node i in a state other than Leader, and the step that makes it Leader, clear `fresh g i _`
   (the rows a new leader finds were written by `update_node` from the peers' own requests, by `commit()` in an
   earlier term of office, or never); while a node is and stays Leader its rows of OTHER nodes are written by
   `commit()` only (RaftLogAck.v).  The marker fires when a node that is and stays Leader raises its
   commit index and some row j <> self with `log_index >= new commit index` — a row `commit()` counted — is not fresh. *)
Definition ackg := N -> N -> bool.
Definition ackg0 : ackg := fun _ _ => false.
Definition ackg_clear (g : ackg) (i : N) : ackg := fun i' j => if i' =? i then false else g i' j.
Definition ackg_set (g : ackg) (i j : N) (v : bool) : ackg :=
  fun i' j' => if (i' =? i) && (j' =? j) then v else g i' j'.

(* the node that acts in a step, and the Append/Heartbeat request whose Ok answer it handles (if that is the step) *)
Definition acting (c : cluster) (ev : event) : option (N * option request) :=
  match ev with
  | Tick i _ _ => Some (i, None)
  | ClientAppend i _ => Some (i, None)
  | Deliver k _ =>
      match nth_error (c_net c) k with
      | Some (MReq r) => Some (q_to r, None)
      | Some (MResp r s) => Some (s_to s, if is_append_or_hb (q_kind r) && is_ok (s_result s) then Some r else None)
      | None => None
      end
  | _ => None
  end.

(* rows other than its own that the leader `nd'` counts for the commit index it has just reached, and that are not fresh *)
Definition stale_counted (g : ackg) (i : N) (nd' : node) : bool :=
  existsb (fun j => negb (j =? n_index nd') && (n_commit nd' <=? p_li (node_at nd' j)) && negb (g i j)) (indices nd').

(* one step: the ghost after it, and whether the marker fires in it *)
Definition ackg_step (rv : raftrev) (c : cluster) (g : ackg) (ev : event) : ackg * bool :=
  match acting c ev with
  | Some (i, ack) =>
      match get_node c i, get_node (step rv c ev) i with
      | Some nd, Some nd' =>
          if is_leader (n_state nd) && is_leader (n_state nd') then
            let g' := match ack with
                      | Some r => if ack_counts rv nd r then ackg_set g i (q_to r) (q_term r =? n_term nd) else g
                      | None => g
                      end in
            (g', (n_commit nd <? n_commit nd') && stale_counted g' i nd')
          else (ackg_clear g i, false)
      | _, _ => (g, false)
      end
  | None => (g, false)
  end.

Fixpoint stale_ack_from (rv : raftrev) (c : cluster) (g : ackg) (evs : list event) : bool :=
  match evs with
  | [] => false
  | e :: rest => let '(g', b) := ackg_step rv c g e in b || stale_ack_from rv (step rv c e) g' rest
  end.

(* root-cause marker of the class `commit-without-quorum` of an event list *)
Definition stale_ack_counted_b (rv : raftrev) (size : N) (evs : list event) : bool :=
  stale_ack_from rv (init_default size) ackg0 evs.
