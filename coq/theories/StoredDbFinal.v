(* StoredDbFinal.v — proofs (stored database, part 7): reload and maintenance preserve every order-independent
   read-only query result (`Queries.exec` is a function of the database; `sd_query_ok` names the queries whose
   result does not depend on what a reload leaves open, StoredDbQueries.v). *)
From Agdb Require Import Bytes BytesProofs Utf8 Codec DbValue ValueIndex Graph DbModel Search Queries Records RecordsProofs
  Storage StorageSpec StorageLayout StorageWp StorageRefine StorageProofs Collections CollValues CollWp CollBytes CollVecBase
  StoredDb StoredDbRep StoredDbRun StoredDbLoad StoredDbProofs StoredDbQueries.
Open Scope N_scope.

(* a database at rest (no transaction running: empty undo stack) that lies in a record store: the database loaded
   from the store answers every order-independent read-only query exactly as d does *)
Theorem sd_queries_after_reload rv m root d :
  stored_db (m_get m) root d -> undo d = [] ->
  exists d1, load_db m root = Some d1 /\ sd_eqv d d1 /\
             forall q, sd_query_ok q -> snd (exec rv d1 q) = snd (exec rv d q).
Proof.
  intros H Hu. destruct (load_db_of_stored m root d H) as (d1 & E & He & Hu1).
  exists d1. split; [exact E|]. split; [exact He|].
  intros q Hq. symmetry. apply (proj1 (sd_exec rv d d1 He q Hq Hu Hu1)).
Qed.

Section OnStorage.
  Variable ops : store_ops cdata.
  Variable fl : bool.
  Hypothesis K : kind ops fl.

  (* optimize_storage / drop + open / backup + open on the model of storage.rs, with no transaction open *)
  Theorem sd_queries_after_maintenance rv s sp o root d :
    Rel s sp -> sdepth sp = 0 -> cv_is_maint o = true -> stored_db (hp sp) root d -> undo d = [] ->
    snd (st_step cdata ops s o) = ObPanic \/
    exists sp' d1, Rel (fst (st_step cdata ops s o)) sp' /\ sdepth sp' = 0 /\
                   stored_db (hp sp') root d /\
                   load_db (sm sp) root = Some d1 /\ load_db (sm sp') root = Some d1 /\ sd_eqv d d1 /\
                   forall q, sd_query_ok q -> snd (exec rv d1 q) = snd (exec rv d q).
  Proof.
    intros RL Hd Hm H Hu.
    destruct (sd_maintenance_on_storage ops fl K s sp o root d RL Hd Hm H) as [P|(sp' & RL' & Hd' & H' & d1 & E1 & E2 & He)];
      [left; exact P|right].
    exists sp', d1. split; [exact RL'|]. split; [exact Hd'|]. split; [exact H'|]. split; [exact E1|]. split; [exact E2|].
    split; [exact He|].
    destruct (load_db_of_stored (sm sp) root d H) as (d2 & E3 & _ & Hu2).
    assert (d2 = d1) by congruence. subst d2.
    intros q Hq. symmetry. apply (proj1 (sd_exec rv d d1 He q Hq Hu Hu2)).
  Qed.
End OnStorage.
