(* CollVecBase.v — proofs (collections, part 3): the representation invariant of a
   storage-backed vector and the effect of each storage call on its record.

   heap        the abstract record map as a function index -> option bytes
   elem_law    what is required of an element class (VecValue): a representation predicate
               `el_rep g bs x` (the slot bytes bs stand for x in heap g), the records a slot
               owns (`el_own`; none for inline elements, the string record for String), and
               the three programs store / load / remove meeting it
   vinv        record g(idx) = le64 n ++ concat slots ++ spare (spare bytes unconstrained),
               slot i represents element i, the index and all owned records are pairwise
               distinct
   frame       the exact footprint change of an operation: records outside the old and the new
               footprint are untouched, records entering the footprint were free, records
               leaving it are freed (no leaks) *)
From Agdb Require Import Bytes BytesProofs Records RecordsProofs Storage StorageSpec StorageLayout
  Collections CollWp CollBytes.
From Coq Require Import ZifyBool ZifyNat ZifyN.
Ltac Zify.zify_post_hook ::= Z.div_mod_to_equations.
Open Scope N_scope.
Arguments N.add : simpl never.
Arguments N.mul : simpl never.
Arguments N.sub : simpl never.
Arguments N.of_nat : simpl never.
Arguments N.to_nat : simpl never.
Arguments N.eqb : simpl never.
Arguments N.ltb : simpl never.
Arguments N.leb : simpl never.
Arguments N.div : simpl never.

Definition heap := N -> option bytes.
Definition hp (sp : spec) : heap := m_get (sm sp).
Definition hupd (g : heap) (i : N) (v : bytes) : heap := fun j => if i =? j then Some v else g j.
Definition hdel (g : heap) (i : N) : heap := fun j => if i =? j then None else g j.
Definition heq (g g' : heap) : Prop := forall j, g j = g' j.

(* ---------- the storage calls, on heaps ---------- *)
Section HeapRules.
  Variable fl : bool.

  Lemma hwp_insert bs sp (Q : cres N -> spec -> Prop) :
    (forall i sp', i <> 0 -> i < two64 -> hp sp i = None -> heq (hp sp') (hupd (hp sp) i bs) -> sdepth sp' = sdepth sp -> Q (CrOk i) sp') ->
    cwp fl (cp_insert bs) sp Q.
  Proof.
    intros HQ. apply cwp_insert. intros i sp' Hi Hlt Hn Hm Hd. apply HQ; auto.
    intros j. unfold hp, hupd. rewrite Hm. apply m_get_put.
  Qed.

  Lemma hwp_insert_at i off bs sp x (Q : cres unit -> spec -> Prop) :
    hp sp i = Some x ->
    (forall sp', heq (hp sp') (hupd (hp sp) i (bs_write x (N.to_nat off) bs)) -> sdepth sp' = sdepth sp -> Q (CrOk tt) sp') ->
    cwp fl (cp_insert_at i off bs) sp Q.
  Proof.
    intros Hg HQ. eapply cwp_insert_at; [exact Hg|]. intros sp' Hm Hd. apply HQ; auto.
    intros j. unfold hp, hupd. rewrite Hm. apply m_get_put.
  Qed.

  Lemma hwp_resize_value i n sp x (Q : cres unit -> spec -> Prop) :
    hp sp i = Some x ->
    (forall sp', heq (hp sp') (hupd (hp sp) i (pad_to x n)) -> sdepth sp' = sdepth sp -> Q (CrOk tt) sp') ->
    cwp fl (cp_resize_value i n) sp Q.
  Proof.
    intros Hg HQ. eapply cwp_resize_value; [exact Hg|]. intros sp' Hm Hd. apply HQ; auto.
    intros j. unfold hp, hupd. rewrite Hm. apply m_get_put.
  Qed.

  Lemma hwp_move_at i from to n sp x (Q : cres unit -> spec -> Prop) :
    hp sp i = Some x -> from + n <= lenN x ->
    (forall sp', heq (hp sp') (hupd (hp sp) i (v_move x from to n)) -> sdepth sp' = sdepth sp -> Q (CrOk tt) sp') ->
    cwp fl (cp_move_at i from to n) sp Q.
  Proof.
    intros Hg Hb HQ. eapply cwp_move_at; [exact Hg|exact Hb|]. intros sp' Hm Hd. apply HQ; auto.
    intros j. unfold hp, hupd. rewrite Hm. apply m_get_put.
  Qed.

  Lemma hwp_remove i sp x (Q : cres unit -> spec -> Prop) :
    hp sp i = Some x ->
    (forall sp', heq (hp sp') (hdel (hp sp) i) -> sdepth sp' = sdepth sp -> Q (CrOk tt) sp') ->
    cwp fl (cp_remove i) sp Q.
  Proof.
    intros Hg HQ. eapply cwp_remove; [exact Hg|]. intros sp' Hm Hd. apply HQ; auto.
    intros j. unfold hp, hdel. rewrite Hm. apply m_get_del.
  Qed.

  Lemma hwp_transaction sp (Q : cres N -> spec -> Prop) :
    (forall sp', heq (hp sp') (hp sp) -> sdepth sp' = sdepth sp + 1 -> Q (CrOk (sdepth sp + 1)) sp') ->
    cwp fl cp_transaction sp Q.
  Proof. intros HQ. apply cwp_transaction. intros sp' Hm Hd. apply HQ; auto. intros j. unfold hp. rewrite Hm. reflexivity. Qed.

  Lemma hwp_commit id sp (Q : cres unit -> spec -> Prop) :
    sdepth sp = id -> id <> 0 ->
    (forall sp', heq (hp sp') (hp sp) -> sdepth sp' = id - 1 -> Q (CrOk tt) sp') ->
    cwp fl (cp_commit id) sp Q.
  Proof. intros H1 H2 HQ. apply cwp_commit; auto. intros sp' Hm Hd. apply HQ; auto. intros j. unfold hp. rewrite Hm. reflexivity. Qed.

  Lemma hwp_maint o sp (Q : cres unit -> spec -> Prop) :
    cv_is_maint o = true -> sdepth sp = 0 ->
    (forall sp', heq (hp sp') (hp sp) -> sdepth sp' = 0 -> Q (CrOk tt) sp') ->
    cwp fl (cp_unit o) sp Q.
  Proof. intros H1 H2 HQ. apply cwp_maint; auto. intros sp' Hm Hd. apply HQ; auto. intros j. unfold hp. rewrite Hm. reflexivity. Qed.
End HeapRules.

(* ---------- footprints ---------- *)
Definition frame (g g' : heap) (F F' : list N) : Prop :=
  (forall j, ~ In j F -> ~ In j F' -> g' j = g j) /\
  (forall j, In j F' -> ~ In j F -> g j = None) /\
  (forall j, In j F -> ~ In j F' -> g' j = None).

Lemma frame_refl g g' F : heq g' g -> frame g g' F F.
Proof. intros H. split; [|split]; intros j; try tauto. intros _ _. apply H. Qed.

Lemma in_dec_N (j : N) (F : list N) : In j F \/ ~ In j F.
Proof. destruct (in_dec N.eq_dec j F); auto. Qed.

Lemma frame_trans g g1 g2 F F1 F2 : frame g g1 F F1 -> frame g1 g2 F1 F2 -> frame g g2 F F2.
Proof.
  intros (A1 & A2 & A3) (B1 & B2 & B3). split; [|split]; intros j.
  - intros H H2. destruct (in_dec_N j F1) as [I|I].
    + rewrite (B3 j I H2). symmetry. apply A2; assumption.
    + rewrite (B1 j I H2). apply A1; assumption.
  - intros H2 H. destruct (in_dec_N j F1) as [I|I].
    + apply A2; assumption.
    + rewrite <- (A1 j H I). apply B2; assumption.
  - intros H H2. destruct (in_dec_N j F1) as [I|I].
    + apply B3; assumption.
    + rewrite (B1 j I H2). apply A3; assumption.
Qed.

(* footprints are compared as sets *)
Lemma frame_equiv g g' F F' G G' :
  (forall j, In j F <-> In j G) -> (forall j, In j F' <-> In j G') -> frame g g' F F' -> frame g g' G G'.
Proof.
  intros E E' (A1 & A2 & A3). split; [|split]; intros j; rewrite <- ?E, <- ?E'; auto.
Qed.

(* an update of a record inside the footprint *)
Lemma frame_hupd g g' F i v : In i F -> heq g' (hupd g i v) -> frame g g' F F.
Proof.
  intros Hi H. split; [|split]; intros j; try tauto. intros Hj _. rewrite H. unfold hupd.
  destruct (N.eqb_spec i j); [subst; contradiction|reflexivity].
Qed.

Lemma NoDup_app_iff {A} (a b : list A) : NoDup (a ++ b) <-> NoDup a /\ NoDup b /\ (forall x, In x a -> ~ In x b).
Proof.
  induction a as [|y t IH]; cbn [app].
  - split; [intros H; split; [constructor|split; [exact H|intros x []]]|tauto].
  - split.
    + intros H. inversion H as [|? ? Hy Ht]; subst. apply IH in Ht. destruct Ht as (T1 & T2 & T3).
      split; [constructor; [intros I; apply Hy, in_or_app; auto|exact T1]|]. split; [exact T2|].
      intros x [->|I]; [intros Ib; apply Hy, in_or_app; auto|apply T3; exact I].
    + intros (H1 & H2 & H3). inversion H1 as [|? ? Hy Ht]; subst. constructor.
      * intros I. apply in_app_or in I. destruct I as [I|I]; [contradiction|]. apply (H3 y); [left; reflexivity|exact I].
      * apply IH. split; [exact Ht|]. split; [exact H2|]. intros x I. apply H3. right; exact I.
Qed.

(* ---------- element classes ---------- *)
Record elem_law {T} (E : cv_elem T) := {
  el_valid : T -> Prop;
  el_rep : heap -> bytes -> T -> Prop;
  el_own : bytes -> list N;
  el_size_pos : 0 < ce_size E;
  el_len : forall g bs x, el_rep g bs x -> lenN bs = ce_size E;
  el_live : forall g bs x j, el_rep g bs x -> In j (el_own bs) -> g j <> None;
  el_nodup : forall g bs x, el_rep g bs x -> NoDup (el_own bs);
  el_local : forall g g' bs x, el_rep g bs x -> (forall j, In j (el_own bs) -> g' j = g j) -> el_rep g' bs x;
  el_store : forall fl x sp (Q : cres bytes -> spec -> Prop), el_valid x ->
    (forall bs sp', el_rep (hp sp') bs x -> sdepth sp' = sdepth sp ->
       (forall j, In j (el_own bs) -> hp sp j = None) ->
       (forall j, ~ In j (el_own bs) -> hp sp' j = hp sp j) -> Q (CrOk bs) sp') ->
    cwp fl (ce_store E x) sp Q;
  el_load : forall fl bs x sp (Q : cres T -> spec -> Prop),
    el_rep (hp sp) bs x -> Q (CrOk x) sp -> cwp fl (ce_load E bs) sp Q;
  el_remove : forall fl bs x sp (Q : cres unit -> spec -> Prop), el_rep (hp sp) bs x ->
    (forall sp', sdepth sp' = sdepth sp ->
       (forall j, In j (el_own bs) -> hp sp' j = None) ->
       (forall j, ~ In j (el_own bs) -> hp sp' j = hp sp j) -> Q (CrOk tt) sp') ->
    cwp fl (ce_remove E bs) sp Q
}.
Arguments el_valid {T E}. Arguments el_rep {T E}. Arguments el_own {T E}.

Section VecBase.
  Variable T : Type.
  Variable E : cv_elem T.
  Variable L : elem_law E.
  Variable fl : bool.

  Let sz := ce_size E.
  Let k := N.to_nat sz.

  Definition owned (bss : list bytes) : list N := flat_map (el_own L) bss.

  Lemma owned_app (a b : list bytes) : owned (a ++ b) = owned a ++ owned b.
  Proof. apply flat_map_app. Qed.
  Lemma owned_cons (b : bytes) (t : list bytes) : owned (b :: t) = el_own L b ++ owned t.
  Proof. reflexivity. Qed.
  Lemma owned_in (bss : list bytes) j : In j (owned bss) <-> exists b, In b bss /\ In j (el_own L b).
  Proof. apply in_flat_map. Qed.

  Record vinv (g : heap) (idx n : N) (bss : list bytes) (l : list T) : Prop := {
    vi_rec : exists spare, g idx = Some (le64 n ++ concat bss ++ spare);
    vi_elems : Forall2 (el_rep L g) bss l;
    vi_nodup : NoDup (idx :: owned bss)
  }.

  Lemma sz_pos : 0 < sz. Proof. apply (el_size_pos E L). Qed.
  Lemma k_eq : N.of_nat k = sz. Proof. unfold k. lia. Qed.

  Lemma elems_chunks g (bss : list bytes) l : Forall2 (el_rep L g) bss l -> chunks k bss.
  Proof.
    induction 1 as [|b x t l' Hb Ht IH]; constructor; [|exact IH].
    pose proof (el_len E L _ _ _ Hb) as HL. unfold lenN in HL. unfold k, sz. lia.
  Qed.

  Lemma elems_length g (bss : list bytes) l : Forall2 (el_rep L g) bss l -> length bss = length l.
  Proof. induction 1; cbn [length]; auto. Qed.

  Lemma elems_transport g g' (bss : list bytes) l :
    Forall2 (el_rep L g) bss l -> (forall j, In j (owned bss) -> g' j = g j) -> Forall2 (el_rep L g') bss l.
  Proof.
    induction 1 as [|b x t l' Hb Ht IH]; intros H; constructor.
    - eapply (el_local E L); [exact Hb|]. intros j Hj. apply H. rewrite owned_cons. apply in_or_app; auto.
    - apply IH. intros j Hj. apply H. rewrite owned_cons. apply in_or_app; auto.
  Qed.

  Lemma elems_live g (bss : list bytes) l j : Forall2 (el_rep L g) bss l -> In j (owned bss) -> g j <> None.
  Proof.
    induction 1 as [|b x t l' Hb Ht IH]; cbn [owned flat_map]; [intros []|].
    intros I. apply in_app_or in I. destruct I as [I|I]; [eapply (el_live E L); eauto|apply IH; exact I].
  Qed.

  Lemma elems_nth g (bss : list bytes) l i x :
    Forall2 (el_rep L g) bss l -> nth_error l i = Some x -> el_rep L g (nth i bss []) x.
  Proof.
    intros H. revert i. induction H as [|b y t l' Hb Ht IH]; intros [|i]; cbn [nth_error nth]; try discriminate.
    - intros [= <-]. exact Hb.
    - apply IH.
  Qed.

  Lemma elems_firstn g (bss : list bytes) l n : Forall2 (el_rep L g) bss l -> Forall2 (el_rep L g) (firstn n bss) (firstn n l).
  Proof. intros H. revert n. induction H; intros [|n]; cbn [firstn]; constructor; auto. Qed.
  Lemma elems_skipn g (bss : list bytes) l n : Forall2 (el_rep L g) bss l -> Forall2 (el_rep L g) (skipn n bss) (skipn n l).
  Proof. intros H. revert n. induction H; intros [|n]; cbn [skipn]; try constructor; auto. Qed.

  Lemma owned_firstn_in (bss : list bytes) n j : In j (owned (firstn n bss)) -> In j (owned bss).
  Proof. rewrite !owned_in. intros (b & Hb & Hj). exists b. split; [eapply In_firstn_in; eauto|exact Hj]. Qed.
  Lemma owned_skipn_in (bss : list bytes) n j : In j (owned (skipn n bss)) -> In j (owned bss).
  Proof. rewrite !owned_in. intros (b & Hb & Hj). exists b. split; [eapply In_skipn_in; eauto|exact Hj]. Qed.

  (* bss = pre ++ b :: post at i *)
  Lemma owned_split (bss : list bytes) i :
    (i < length bss)%nat ->
    owned bss = owned (firstn i bss) ++ el_own L (nth i bss []) ++ owned (skipn (S i) bss).
  Proof. intros Hi. rewrite (split_nth bss i [] Hi) at 1. rewrite owned_app, owned_cons. reflexivity. Qed.

  Lemma owned_upd (bss : list bytes) i (b : bytes) :
    (i < length bss)%nat ->
    owned (cl_upd bss i b) = owned (firstn i bss) ++ el_own L b ++ owned (skipn (S i) bss).
  Proof. intros Hi. rewrite cl_upd_split by exact Hi. rewrite owned_app, owned_cons. reflexivity. Qed.

  (* offsets *)
  Lemma offset_nat i : N.to_nat (cv_offset T E i) = (length (le64 0) + k * N.to_nat i)%nat.
  Proof. unfold cv_offset. rewrite le64_length. fold sz. unfold k. lia. Qed.

  Lemma le64_len n : length (le64 n) = length (le64 0).
  Proof. rewrite !le64_length. reflexivity. Qed.

  Lemma rec_len n (bss : list bytes) (spare : bytes) : chunks k bss -> lenN (le64 n ++ concat bss ++ spare) = 8 + sz * lenN bss + lenN spare.
  Proof.
    intros H. rewrite !lenN_app, lenN_le64. unfold lenN at 1. rewrite (concat_length_chunks k) by exact H.
    unfold lenN. rewrite <- k_eq. lia.
  Qed.

  (* ---------- the record under the storage calls ---------- *)
  Lemma rd_slot idx n (bss : list bytes) (spare : bytes) i sp (Q : cres bytes -> spec -> Prop) :
    hp sp idx = Some (le64 n ++ concat bss ++ spare) -> chunks k bss -> (N.to_nat i < length bss)%nat ->
    Q (CrOk (nth (N.to_nat i) bss [])) sp ->
    cwp fl (cp_value_at_size idx (cv_offset T E i) sz) sp Q.
  Proof.
    intros Hg Hc Hi HQ. eapply cwp_value_at_size; [exact Hg| |].
    - rewrite rec_len by exact Hc. unfold cv_offset. fold sz.
      assert (sz * i + sz <= sz * lenN bss); [|lia].
      replace (sz * i + sz) with (sz * (i + 1)) by lia. apply N.mul_le_mono_l. unfold lenN. lia.
    - rewrite offset_nat, <- (le64_len n). fold k. rewrite slot_read by assumption. exact HQ.
  Qed.

  Lemma wr_slot idx n (bss : list bytes) (spare : bytes) i (b : bytes) sp (Q : cres unit -> spec -> Prop) :
    hp sp idx = Some (le64 n ++ concat bss ++ spare) -> chunks k bss -> (N.to_nat i < length bss)%nat -> length b = k ->
    (forall sp', heq (hp sp') (hupd (hp sp) idx (le64 n ++ concat (cl_upd bss (N.to_nat i) b) ++ spare)) ->
                 sdepth sp' = sdepth sp -> Q (CrOk tt) sp') ->
    cwp fl (cp_insert_at idx (cv_offset T E i) b) sp Q.
  Proof.
    intros Hg Hc Hi Hb HQ. eapply hwp_insert_at; [exact Hg|]. intros sp' Hm Hd. apply HQ; [|exact Hd].
    rewrite offset_nat, <- (le64_len n) in Hm. rewrite slot_write in Hm by assumption. exact Hm.
  Qed.

  Lemma wr_append idx n (bss : list bytes) (spare : bytes) i (b : bytes) sp (Q : cres unit -> spec -> Prop) :
    hp sp idx = Some (le64 n ++ concat bss ++ spare) -> chunks k bss -> i = lenN bss -> length b = k ->
    (forall sp', heq (hp sp') (hupd (hp sp) idx (le64 n ++ concat (bss ++ [b]) ++ skipn k spare)) ->
                 sdepth sp' = sdepth sp -> Q (CrOk tt) sp') ->
    cwp fl (cp_insert_at idx (cv_offset T E i) b) sp Q.
  Proof.
    intros Hg Hc -> Hb HQ. eapply hwp_insert_at; [exact Hg|]. intros sp' Hm Hd. apply HQ; [|exact Hd].
    rewrite offset_nat, <- (le64_len n) in Hm. unfold lenN in Hm. rewrite Nat2N.id in Hm.
    rewrite slot_append in Hm by assumption. exact Hm.
  Qed.

  Lemma wr_header idx n n' (R : bytes) sp (Q : cres unit -> spec -> Prop) :
    hp sp idx = Some (le64 n ++ R) ->
    (forall sp', heq (hp sp') (hupd (hp sp) idx (le64 n' ++ R)) -> sdepth sp' = sdepth sp -> Q (CrOk tt) sp') ->
    cwp fl (cp_insert_at idx 0 (le64 n')) sp Q.
  Proof.
    intros Hg HQ. eapply hwp_insert_at; [exact Hg|]. intros sp' Hm Hd. apply HQ; [|exact Hd].
    change (N.to_nat 0) with 0%nat in Hm. rewrite header_write in Hm by (rewrite !le64_length; reflexivity). exact Hm.
  Qed.

  Lemma wr_resize idx n (bss : list bytes) (spare : bytes) c sp (Q : cres unit -> spec -> Prop) :
    hp sp idx = Some (le64 n ++ concat bss ++ spare) -> chunks k bss -> lenN bss <= c ->
    (forall (spare' : bytes) sp', heq (hp sp') (hupd (hp sp) idx (le64 n ++ concat bss ++ spare')) ->
                 sdepth sp' = sdepth sp -> Q (CrOk tt) sp') ->
    cwp fl (cp_resize_value idx (8 + sz * c)) sp Q.
  Proof.
    intros Hg Hc Hle HQ. eapply hwp_resize_value; [exact Hg|]. intros sp' Hm Hd.
    destruct (pad_keep (le64 n ++ concat bss) spare (8 + sz * c)) as (spare' & Hp & _).
    { rewrite lenN_app, lenN_le64. unfold lenN at 1. rewrite (concat_length_chunks k) by exact Hc.
      assert (sz * lenN bss <= sz * c) by (apply N.mul_le_mono_l; exact Hle). unfold lenN in *. rewrite <- k_eq in *. lia. }
    rewrite <- app_assoc in Hp. rewrite Hp in Hm. rewrite <- app_assoc in Hm. eapply HQ; [exact Hm|exact Hd].
  Qed.

  (* DbVecData::remove: move the tail down over slot i *)
  Lemma wr_move_down idx n (bss : list bytes) (spare : bytes) i sp (Q : cres unit -> spec -> Prop) :
    hp sp idx = Some (le64 n ++ concat bss ++ spare) -> chunks k bss -> (N.to_nat i < length bss)%nat ->
    (forall (spare' : bytes) sp', heq (hp sp') (hupd (hp sp) idx (le64 n ++ concat (cl_remove bss (N.to_nat i)) ++ spare')) ->
                 sdepth sp' = sdepth sp -> Q (CrOk tt) sp') ->
    cwp fl (cp_move_at idx (cv_offset T E (i + 1)) (cv_offset T E i) (sz * (lenN bss - i - 1))) sp Q.
  Proof.
    intros Hg Hc Hi HQ.
    set (pre := firstn (N.to_nat i) bss). set (post := skipn (S (N.to_nat i)) bss). set (bi := nth (N.to_nat i) bss []).
    assert (Hsplit : bss = pre ++ bi :: post) by (apply split_nth; exact Hi).
    assert (Hpre : length (concat pre) = (k * N.to_nat i)%nat) by (apply concat_firstn_length; [exact Hc|lia]).
    assert (Hbi : length bi = k) by (apply chunks_nth; assumption).
    assert (Hpost : length (concat post) = (k * (length bss - N.to_nat i - 1))%nat).
    { rewrite (concat_length_chunks k) by (apply chunks_skipn; exact Hc). unfold post. rewrite skipn_length. f_equal. lia. }
    assert (Hrec : le64 n ++ concat bss ++ spare = (le64 n ++ concat pre) ++ bi ++ concat post ++ spare).
    { rewrite Hsplit at 1. rewrite concat_app. cbn [concat]. rewrite <- !app_assoc. reflexivity. }
    assert (HA : lenN (le64 n ++ concat pre) = cv_offset T E i).
    { rewrite lenN_app, lenN_le64. unfold lenN. rewrite Hpre. unfold cv_offset. fold sz. rewrite <- k_eq. lia. }
    assert (HAB : lenN ((le64 n ++ concat pre) ++ bi) = cv_offset T E (i + 1)).
    { rewrite lenN_app, HA. unfold lenN. rewrite Hbi. unfold cv_offset. fold sz. rewrite <- k_eq. lia. }
    assert (HC : lenN (concat post) = sz * (lenN bss - i - 1)).
    { unfold lenN. rewrite Hpost. rewrite <- k_eq. lia. }
    eapply hwp_move_at; [exact Hg| |].
    - rewrite rec_len by exact Hc. unfold cv_offset. fold sz.
      assert (i + 1 <= lenN bss) by (unfold lenN; lia).
      replace (8 + sz * (i + 1) + sz * (lenN bss - i - 1)) with (8 + sz * lenN bss) by nia. lia.
    - intros sp' Hm Hd. rewrite Hrec in Hm. rewrite <- HAB, <- HA, <- HC in Hm.
      rewrite v_move_down in Hm.
      eapply (HQ (skipn (length (concat post)) bi ++ zeros (N.min (lenN bi) (lenN (concat post))) ++ spare)); [|exact Hd].
      intros j. rewrite Hm. unfold hupd. destruct (idx =? j); [|reflexivity]. f_equal.
      unfold cl_remove. fold pre post. rewrite concat_app, <- !app_assoc. reflexivity.
  Qed.

  (* DbVecData::swap: slot j onto slot i, the source zeroed *)
  Lemma wr_move_slot idx n (bss : list bytes) (spare : bytes) i j sp (Q : cres unit -> spec -> Prop) :
    hp sp idx = Some (le64 n ++ concat bss ++ spare) -> chunks k bss ->
    (N.to_nat i < length bss)%nat -> (N.to_nat j < length bss)%nat -> i <> j ->
    (forall sp', heq (hp sp') (hupd (hp sp) idx
                   (le64 n ++ concat (cl_upd (cl_upd bss (N.to_nat i) (nth (N.to_nat j) bss [])) (N.to_nat j) (zeros sz)) ++ spare)) ->
                 sdepth sp' = sdepth sp -> Q (CrOk tt) sp') ->
    cwp fl (cp_move_at idx (cv_offset T E j) (cv_offset T E i) sz) sp Q.
  Proof.
    intros Hg Hc Hi Hj Hij HQ.
    assert (Hzl : length (zeros sz) = k) by (rewrite zeros_length; reflexivity).
    eapply hwp_move_at; [exact Hg| |].
    - rewrite rec_len by exact Hc. unfold cv_offset. fold sz.
      assert (sz * j + sz <= sz * lenN bss); [|lia].
      replace (sz * j + sz) with (sz * (j + 1)) by lia. apply N.mul_le_mono_l. unfold lenN. lia.
    - intros sp' Hm Hd. apply HQ; [|exact Hd].
      rewrite v_move_disjoint in Hm.
      + rewrite !offset_nat, <- !(le64_len n) in Hm. fold k in Hm.
        rewrite slot_read in Hm by assumption.
        rewrite slot_write in Hm by (try assumption; apply chunks_nth; assumption).
        rewrite slot_write in Hm; [exact Hm|apply chunks_upd; [exact Hc|apply chunks_nth; assumption]|rewrite cl_upd_length; exact Hj|exact Hzl].
      + apply sz_pos.
      + unfold cv_offset. fold sz. pose proof sz_pos.
        destruct (N.lt_ge_cases i j) as [Lt|Ge]; [left|right; assert (j < i) by lia].
        * replace (sz * j) with (sz * i + sz * (j - i)) by nia. assert (sz * 1 <= sz * (j - i)) by (apply N.mul_le_mono_l; lia). lia.
        * replace (sz * i) with (sz * j + sz * (i - j)) by nia. assert (sz * 1 <= sz * (i - j)) by (apply N.mul_le_mono_l; lia). lia.
  Qed.
End VecBase.
