(* RaftLiveInd.v — C30 for an UNBOUNDED number of appended entries (FIFO schedule), base definitions and tactics.
   * `nstep`: `step` without the ghost history (the handlers never read it): `strip (step rv c e) = nstep rv (strip c) e`;
   * `fifo_drain` / `fifo_run`: oldest-first delivery until the network is empty, as relations with no bound
     (deterministic; `drain rv fuel` computes them whenever it ends with an empty network);
   * the symbolic-evaluation tactics used by RaftLiveInd3.v / RaftLiveInd5.v. *)
From Coq Require Import NArith List Bool Lia Arith.
From Agdb Require Import Raft RaftProofs RaftLive RaftVote.
Import ListNotations.
Open Scope N_scope.

(* ------------------------------------------------------------------ step without history *)

(* a private copy of `app` for the network queue, so that the evaluation tactic below can unfold it without
   touching the `++` of the (symbolic) logs *)
Fixpoint napp (a b : list msg) : list msg :=
  match a with [] => b | x :: a' => x :: napp a' b end.

Lemma napp_app : forall a b, napp a b = a ++ b.
Proof. induction a as [|x a IH]; intros b; cbn; [reflexivity | rewrite IH; reflexivity]. Qed.

Definition nstep (rv : raftrev) (c : cluster) (ev : event) : cluster :=
  match ev with
  | Tick i elapsed due =>
      match get_node c i with
      | Some nd => let '(nd', reqs) := process nd elapsed due in
                   mkCluster (put_node c i nd') (napp (c_net c) (map MReq reqs)) []
      | None => strip c
      end
  | ClientAppend i d =>
      match get_node c i with
      | Some nd =>
          if is_leader (n_state nd) then
            let '(nd', reqs) := append nd d in
            mkCluster (put_node c i nd') (napp (c_net c) (map MReq reqs)) []
          else strip c
      | None => strip c
      end
  | Drop k => mkCluster (c_nodes c) (remove_nth k (c_net c)) []
  | Duplicate k =>
      match nth_error (c_net c) k with
      | Some m => mkCluster (c_nodes c) (napp (c_net c) [m]) []
      | None => strip c
      end
  | Deliver k elapsed =>
      match nth_error (c_net c) k with
      | Some (MReq r) =>
          let net := remove_nth k (c_net c) in
          match get_node c (q_to r) with
          | Some nd => let '(nd', s) := handle_request rv nd r elapsed in
                       mkCluster (put_node c (q_to r) nd') (napp net [MResp r s]) []
          | None => mkCluster (c_nodes c) net []
          end
      | Some (MResp r s) =>
          let net := remove_nth k (c_net c) in
          match get_node c (s_to s) with
          | Some nd => let '(nd', reqs) := handle_response rv nd r s in
                       mkCluster (put_node c (s_to s) nd') (napp net (map MReq reqs)) []
          | None => mkCluster (c_nodes c) net []
          end
      | None => strip c
      end
  end.

Lemma nstep_step : forall rv c e, strip (step rv c e) = nstep rv (strip c) e.
Proof.
  intros rv c e. destruct e as [i el due | k el | k | k | i d]; cbn [step nstep].
  - change (get_node (strip c) i) with (get_node c i).
    destruct (get_node c i) as [n|]; [|reflexivity]. destruct (process n el due). unfold strip; cbn [c_nodes c_net]; f_equal; symmetry; apply napp_app.
  - change (c_net (strip c)) with (c_net c).
    destruct (nth_error (c_net c) k) as [[r|r s]|]; [| |reflexivity].
    + change (get_node (strip c) (q_to r)) with (get_node c (q_to r)).
      destruct (get_node c (q_to r)) as [n|]; [|reflexivity]. destruct (handle_request rv n r el).
      unfold strip; cbn [c_nodes c_net]; f_equal; symmetry; apply napp_app.
    + change (get_node (strip c) (s_to s)) with (get_node c (s_to s)).
      destruct (get_node c (s_to s)) as [n|]; [|reflexivity]. destruct (handle_response rv n r s).
      unfold strip; cbn [c_nodes c_net]; f_equal; symmetry; apply napp_app.
  - reflexivity.
  - change (c_net (strip c)) with (c_net c). destruct (nth_error (c_net c) k); [|reflexivity]. unfold strip; cbn [c_nodes c_net]; f_equal; symmetry; apply napp_app.
  - change (get_node (strip c) i) with (get_node c i).
    destruct (get_node c i) as [n|]; [|reflexivity]. destruct (is_leader (n_state n)); [|reflexivity].
    destruct (append n d). unfold strip; cbn [c_nodes c_net]; f_equal; symmetry; apply napp_app.
Qed.

Fixpoint ndrain (rv : raftrev) (fuel : nat) (c : cluster) : cluster :=
  match fuel with
  | O => c
  | S f => match c_net c with [] => c | _ => ndrain rv f (nstep rv c (Deliver 0 0)) end
  end.

Lemma ndrain_drain : forall rv fuel c, strip (drain rv fuel c) = ndrain rv fuel (strip c).
Proof.
  intros rv. induction fuel as [|f IH]; intros c; cbn [drain ndrain]; [reflexivity|].
  change (c_net (strip c)) with (c_net c). destruct (c_net c); [reflexivity|].
  rewrite IH, nstep_step. reflexivity.
Qed.

Lemma ndrain_S : forall rv f c m net, c_net c = m :: net ->
  ndrain rv (S f) c = ndrain rv f (nstep rv c (Deliver 0 0)).
Proof. intros rv f c m net H. cbn [ndrain]. rewrite H. reflexivity. Qed.

Lemma ndrain_nil : forall rv f c, c_net c = [] -> ndrain rv f c = c.
Proof. intros rv [|f] c H; cbn [ndrain]; [reflexivity|]. rewrite H. reflexivity. Qed.

(* ------------------------------------------------------------------ the FIFO schedule, without a bound *)

(* deliver the OLDEST message in flight until none is left (`elapsed = 0`: no timer has expired at a receiver) *)
Inductive fifo_drain (rv : raftrev) : cluster -> cluster -> Prop :=
| fd_done : forall c, c_net c = [] -> fifo_drain rv c c
| fd_step : forall c c', c_net c <> [] -> fifo_drain rv (step rv c (Deliver 0 0)) c' -> fifo_drain rv c c'.

(* the scripted actions happen one after the other, each followed by oldest-first delivery until quiescence *)
Inductive fifo_run (rv : raftrev) : list event -> cluster -> cluster -> Prop :=
| fr_nil : forall c, fifo_run rv [] c c
| fr_act : forall a rest c c1 c',
    fifo_drain rv (step rv c a) c1 -> fifo_run rv rest c1 c' -> fifo_run rv (a :: rest) c c'.

Lemma fifo_drain_det : forall rv c c1, fifo_drain rv c c1 -> forall c2, fifo_drain rv c c2 -> c1 = c2.
Proof.
  intros rv c c1 H. induction H as [c Hn | c c' Hn H IH]; intros c2 H2.
  - destruct H2 as [c _ | c c2 Hn2 _]; [reflexivity | contradiction].
  - destruct H2 as [c Hn2 | c c2 _ H2]; [contradiction | apply IH; exact H2].
Qed.

Lemma fifo_run_det : forall rv evs c c1, fifo_run rv evs c c1 -> forall c2, fifo_run rv evs c c2 -> c1 = c2.
Proof.
  intros rv evs c c1 H. induction H as [c | a rest c m c1 D R IH]; intros c2 H2.
  - inversion H2; subst; reflexivity.
  - inversion H2 as [|a0 rest0 c0 m2 c2' D2 R2]; subst.
    rewrite <- (fifo_drain_det _ _ _ D _ D2) in R2. apply IH; exact R2.
Qed.

Lemma fifo_drain_drain : forall rv fuel c, c_net (drain rv fuel c) = [] -> fifo_drain rv c (drain rv fuel c).
Proof.
  intros rv. induction fuel as [|f IH]; intros c H; cbn [drain] in *.
  - apply fd_done; exact H.
  - destruct (c_net c) as [|m net] eqn:E.
    + apply fd_done; exact E.
    + apply fd_step; [rewrite E; discriminate | apply IH; exact H].
Qed.

(* a FIFO run is one of the fault-free runs of RaftLive.v *)
Lemma fifo_drain_dl : forall rv c c', fifo_drain rv c c' -> dl_run rv c c'.
Proof.
  intros rv c c' H. induction H as [c Hn | c c' Hn H IH]; [apply dl_done; exact Hn|].
  apply (dl_step rv c 0%nat); [destruct (c_net c); [contradiction | cbn; lia] | exact IH].
Qed.

Lemma fifo_run_ff : forall rv evs c c', fifo_run rv evs c c' -> ff_run rv evs c c'.
Proof.
  intros rv evs c c' H. induction H as [c | a rest c m c1 D R IH]; [apply ff_nil|].
  eapply ff_act; [apply fifo_drain_dl; exact D | exact IH].
Qed.

(* if the history-free drain with some fuel ends with an empty network, that is where the FIFO delivery ends *)
Lemma fifo_drain_strip : forall rv fuel c c' g,
  ndrain rv fuel (strip c) = g -> c_net g = [] -> fifo_drain rv c c' -> strip c' = g.
Proof.
  intros rv fuel c c' g E Hn D. rewrite <- ndrain_drain in E.
  assert (Hn' : c_net (drain rv fuel c) = []) by (rewrite <- E in Hn; exact Hn).
  rewrite (fifo_drain_det _ _ _ D _ (fifo_drain_drain rv fuel c Hn')). exact E.
Qed.

Lemma fifo_drain_exists : forall rv fuel c g,
  ndrain rv fuel (strip c) = g -> c_net g = [] -> exists c', fifo_drain rv c c'.
Proof.
  intros rv fuel c g E Hn. rewrite <- ndrain_drain in E. exists (drain rv fuel c).
  apply fifo_drain_drain. rewrite <- E in Hn. exact Hn.
Qed.

(* ------------------------------------------------------------------ symbolic evaluation of one event *)

Ltac is_pos_const p :=
  lazymatch p with xH => idtac | xO ?q => is_pos_const q | xI ?q => is_pos_const q end.
Ltac is_N_const n := lazymatch n with N0 => idtac | Npos ?p => is_pos_const p end.
Ltac is_nat_const n := lazymatch n with O => idtac | S ?m => is_nat_const m end.

(* evaluate the closed arithmetic sub-terms (patterns on the literal constructors, so that symbolic terms such as
   `k + 1` are not even tried) *)
Ltac ground_bin op a b := let v := eval vm_compute in (op a b) in change (op a b) with v.
Ltac ground_step :=
  match goal with
  | |- context [N.eqb N0 N0] => ground_bin N.eqb N0 N0
  | |- context [N.eqb N0 (Npos ?q)] => is_pos_const q; ground_bin N.eqb N0 (Npos q)
  | |- context [N.eqb (Npos ?p) N0] => is_pos_const p; ground_bin N.eqb (Npos p) N0
  | |- context [N.eqb (Npos ?p) (Npos ?q)] => is_pos_const p; is_pos_const q; ground_bin N.eqb (Npos p) (Npos q)
  | |- context [N.ltb N0 N0] => ground_bin N.ltb N0 N0
  | |- context [N.ltb N0 (Npos ?q)] => is_pos_const q; ground_bin N.ltb N0 (Npos q)
  | |- context [N.ltb (Npos ?p) N0] => is_pos_const p; ground_bin N.ltb (Npos p) N0
  | |- context [N.ltb (Npos ?p) (Npos ?q)] => is_pos_const p; is_pos_const q; ground_bin N.ltb (Npos p) (Npos q)
  | |- context [N.leb N0 N0] => ground_bin N.leb N0 N0
  | |- context [N.leb N0 (Npos ?q)] => is_pos_const q; ground_bin N.leb N0 (Npos q)
  | |- context [N.leb (Npos ?p) N0] => is_pos_const p; ground_bin N.leb (Npos p) N0
  | |- context [N.leb (Npos ?p) (Npos ?q)] => is_pos_const p; is_pos_const q; ground_bin N.leb (Npos p) (Npos q)
  | |- context [N.add N0 N0] => ground_bin N.add N0 N0
  | |- context [N.add N0 (Npos ?q)] => is_pos_const q; ground_bin N.add N0 (Npos q)
  | |- context [N.add (Npos ?p) (Npos ?q)] => is_pos_const p; is_pos_const q; ground_bin N.add (Npos p) (Npos q)
  | |- context [N.sub (Npos ?p) (Npos ?q)] => is_pos_const p; is_pos_const q; ground_bin N.sub (Npos p) (Npos q)
  | |- context [N.sub (Npos ?p) N0] => is_pos_const p; ground_bin N.sub (Npos p) N0
  | |- context [N.div (Npos ?p) (Npos ?q)] => is_pos_const p; is_pos_const q; ground_bin N.div (Npos p) (Npos q)
  end.

Lemma skipn_app_exact : forall A (l x : list A) n, n = length l -> skipn n (l ++ x) = x.
Proof. intros A l x n ->. rewrite skipn_app, skipn_all, Nat.sub_diag. reflexivity. Qed.

(* decide the comparisons of symbolic numbers by lia *)
Ltac sym_step :=
  match goal with
  (* `N.to_nat a` of a symbolic a has been unfolded by model_cbv into `match a with 0 => 0%nat | N.pos p => _ end` *)
  | |- context [firstn ?n ?l] =>
      lazymatch n with
      | match ?a with N0 => _ | Npos _ => _ end =>
          replace (firstn n l) with l by (symmetry; apply firstn_all2; change n with (N.to_nat a); lia)
      end
  | |- context [skipn ?n (?l ++ ?x)] =>
      lazymatch n with
      | match ?a with N0 => _ | Npos _ => _ end =>
          first [ replace (skipn n (l ++ x)) with x
                    by (symmetry; apply skipn_app_exact; change n with (N.to_nat a); lia)
                | replace (skipn n (l ++ x)) with (@nil entry)
                    by (symmetry; apply skipn_all2; rewrite app_length; cbn [length]; change n with (N.to_nat a); lia) ]
      end
  | |- context [?a =? ?b] =>
      first [ replace (a =? b) with true by (symmetry; apply N.eqb_eq; lia)
            | replace (a =? b) with false by (symmetry; apply N.eqb_neq; lia) ]
  | |- context [?a <? ?b] =>
      first [ replace (a <? b) with true by (symmetry; apply N.ltb_lt; lia)
            | replace (a <? b) with false by (symmetry; apply N.ltb_ge; lia) ]
  | |- context [?a <=? ?b] =>
      first [ replace (a <=? b) with true by (symmetry; apply N.leb_le; lia)
            | replace (a <=? b) with false by (symmetry; apply N.leb_gt; lia) ]
  end.

Ltac model_cbv :=
  cbv beta iota zeta delta
    [nstep napp strip get_node put_node nth_error remove_nth upd_nth map filter seq length fst snd
     negb andb orb existsb memN lenN
     handle_request handle_response append_request heartbeat_request pre_vote_request vote_request
     append_logs validate_term validate_log validate_log_append validate_log_for_vote validate_term_for_vote
     validate_vote_state become_follower update_node append_storage commit_storage st_append st_commit st_logs
     commit reconcile heartbeat_no_timer pre_vote_received vote_received election pre_election clear_votes clear_from
     reset_rows reset_from ack_counts fix_ack_term
     vote_counts votes count_peers process append is_election is_leader is_candidate is_append_or_hb
     ok log_mismatch mk_req others indices local node_at nth upd_peer upd_local set_peers set_state set_term set_et
     set_storage p_set_log p_set_commit p_set_all p_set_voted
     n_index n_size n_state n_term n_peers n_logs n_commit n_first n_et n_hb n_tt
     p_li p_lt p_lc p_voted q_from q_to q_term q_li q_lt q_lc q_kind s_to s_result e_index e_term e_data
     c_nodes c_net c_hist fix_vote_term fix_vote_match
     N.to_nat Pos.to_nat Pos.iter_op Nat.add N.of_nat Pos.of_succ_nat Pos.succ].

Ltac sym_eval := model_cbv; repeat (first [ground_step | sym_step]; model_cbv).

(* one oldest-first delivery on an explicit state *)
Ltac fifo_one := erewrite ndrain_S by (cbv [c_net]; reflexivity); sym_eval.

(* ------------------------------------------------------------------ the live schedule *)

(* entries `ds` appended one after the other in term `t` to a log of `k` entries *)
Fixpoint mk_log (t k : N) (ds : list N) : list entry :=
  match ds with
  | [] => []
  | d :: rest => mkEntry (k + 1) t d :: mk_log t (k + 1) rest
  end.

(* the indices 1 .. size-1 of the peers of node 0 *)
Definition peers_of (size : nat) : list N := map N.of_nat (seq 1 (size - 1)).

(* the scripted actions of the healthy run: node 0's election timer fires (its configured first election timeout is
   0 ms), the client appends the payloads one after the other at node 0, then node 0's heartbeat timers for all
   peers are due (elapsed 1001 ms > heartbeat timeout 1000 ms) *)
Definition live_actions (size : nat) (payloads : list N) : list event :=
  Tick 0 0 [] :: map (ClientAppend 0) payloads ++ [Tick 0 1001 (peers_of size)].

(* the same run as ONE event list: each action followed by `fe` / `fa` / `fh` oldest-first deliveries
   (a `Deliver 0 0` on an empty network is a no-op of the model) *)
Definition live_tail (fa fh : nat) (size : nat) (payloads : list N) : list event :=
  flat_map (fun d => ClientAppend 0 d :: repeat (Deliver 0 0) fa) payloads ++
  Tick 0 1001 (peers_of size) :: repeat (Deliver 0 0) fh.
Definition live_script (fe fa fh : nat) (size : nat) (payloads : list N) : list event :=
  Tick 0 0 [] :: repeat (Deliver 0 0) fe ++ live_tail fa fh size payloads.

Lemma run_from_app : forall rv a b c, run_from rv c (a ++ b) = run_from rv (run_from rv c a) b.
Proof. intros. unfold run_from. apply fold_left_app. Qed.

Lemma run_from_repeat : forall rv n c, run_from rv c (repeat (Deliver 0 0) n) = drain rv n c.
Proof.
  intros rv. induction n as [|n IH]; intros c; [reflexivity|].
  cbn [repeat drain]. change (run_from rv c (Deliver 0 0 :: repeat (Deliver 0 0) n))
    with (run_from rv (step rv c (Deliver 0 0)) (repeat (Deliver 0 0) n)).
  rewrite IH. destruct (c_net c) eqn:E; [|reflexivity].
  assert (S0 : step rv c (Deliver 0 0) = c) by (cbn [step]; rewrite E; reflexivity).
  rewrite S0. destruct n; cbn [drain]; [reflexivity | rewrite E; reflexivity].
Qed.

Lemma fifo_drain_events : forall rv c c', fifo_drain rv c c' -> exists n, c' = run_from rv c (repeat (Deliver 0 0) n).
Proof.
  intros rv c c' H. induction H as [c Hn | c c' Hn H [n IH]]; [exists 0%nat; reflexivity|].
  exists (S n). exact IH.
Qed.

Lemma fifo_run_events : forall rv acts c c', fifo_run rv acts c c' -> exists evs, c' = run_from rv c evs.
Proof.
  intros rv acts c c' H. induction H as [c | a rest c m c1 D R [evs IH]]; [exists []; reflexivity|].
  destruct (fifo_drain_events _ _ _ D) as [n En]. exists (a :: repeat (Deliver 0 0) n ++ evs).
  change (run_from rv c (a :: repeat (Deliver 0 0) n ++ evs))
    with (run_from rv (step rv c a) (repeat (Deliver 0 0) n ++ evs)).
  rewrite run_from_app, <- En. exact IH.
Qed.

Definition pt_of (k : N) : N := if k =? 0 then 0 else 1.

Lemma lenN_cons : forall A (x : A) l, lenN (x :: l) = lenN l + 1.
Proof. intros. unfold lenN. cbn [length]. lia. Qed.

Lemma mk_log_length : forall t ds k, length (mk_log t k ds) = length ds.
Proof. induction ds as [|d ds IH]; intros k; cbn [mk_log length]; [reflexivity | rewrite IH; reflexivity]. Qed.

Lemma mk_log_data : forall t ds k, map e_data (mk_log t k ds) = ds.
Proof. induction ds as [|d ds IH]; intros k; cbn [mk_log map e_data]; [reflexivity | rewrite IH; reflexivity]. Qed.

(* the induction over the payloads, for any cluster whose steady states `ss k pt L` (leader 0 in term 1, every log = L
   with k entries, every commit index = k; pt = term of the last entry, 0 for the empty log) satisfy the four
   round lemmas below — RaftLiveInd3.v / RaftLiveInd5.v prove them for 3 and 5 nodes by symbolic evaluation *)
Section Induction.
  Variable rv : raftrev.
  Variable size : nat.
  Variable ss : N -> N -> list entry -> cluster.
  Variables fe fa fh : nat.
  Hypothesis ss_net : forall k pt L, c_net (ss k pt L) = [].
  Hypothesis H_elect :
    ndrain rv fe (nstep rv (strip (init_default (N.of_nat size))) (Tick 0 0 [])) = ss 0 0 [].
  Hypothesis H_round0 : forall d,
    ndrain rv fa (nstep rv (ss 0 0 []) (ClientAppend 0 d)) = ss 1 1 [mkEntry 1 1 d].
  Hypothesis H_round : forall k L d, 1 <= k -> length L = N.to_nat k ->
    ndrain rv fa (nstep rv (ss k 1 L) (ClientAppend 0 d)) = ss (k + 1) 1 (L ++ [mkEntry (k + 1) 1 d]).
  Hypothesis H_hb : forall k pt L,
    ndrain rv fh (nstep rv (ss k pt L) (Tick 0 1001 (peers_of size))) = ss k pt L.

  Lemma round_any : forall k L d, length L = N.to_nat k ->
    ndrain rv fa (nstep rv (ss k (pt_of k) L) (ClientAppend 0 d)) =
    ss (k + 1) (pt_of (k + 1)) (L ++ [mkEntry (k + 1) 1 d]).
  Proof.
    intros k L d HL.
    assert (P1 : pt_of (k + 1) = 1) by (unfold pt_of; destruct (k + 1 =? 0) eqn:E; [apply N.eqb_eq in E; lia | reflexivity]).
    rewrite P1. destruct (N.eq_dec k 0) as [->|Hk].
    - destruct L; [|discriminate HL]. exact (H_round0 d).
    - assert (P : pt_of k = 1) by (unfold pt_of; destruct (k =? 0) eqn:E; [apply N.eqb_eq in E; lia | reflexivity]).
      rewrite P. apply H_round; [lia | exact HL].
  Qed.

  (* one phase: an action on a steady state, then the deliveries *)
  Lemma phase_strip : forall fuel c a g c1,
    ndrain rv fuel (nstep rv (strip c) a) = g -> c_net g = [] ->
    fifo_drain rv (step rv c a) c1 -> strip c1 = g.
  Proof.
    intros fuel c a g c1 E Hn D. apply (fifo_drain_strip rv fuel (step rv c a)); [|exact Hn|exact D].
    rewrite nstep_step. exact E.
  Qed.

  Lemma phase_drain : forall fuel c a g,
    ndrain rv fuel (nstep rv (strip c) a) = g -> c_net g = [] ->
    fifo_drain rv (step rv c a) (drain rv fuel (step rv c a)).
  Proof.
    intros fuel c a g E Hn. apply fifo_drain_drain.
    rewrite <- nstep_step, <- ndrain_drain in E. rewrite <- E in Hn. exact Hn.
  Qed.

  Lemma appends_run : forall payloads k L c c',
    length L = N.to_nat k -> strip c = ss k (pt_of k) L ->
    fifo_run rv (map (ClientAppend 0) payloads ++ [Tick 0 1001 (peers_of size)]) c c' ->
    strip c' = ss (k + lenN payloads) (pt_of (k + lenN payloads)) (L ++ mk_log 1 k payloads).
  Proof.
    induction payloads as [|d rest IH]; intros k L c c' HL Hc R.
    - cbn [map app] in R. inversion R as [|a0 r0 c0 c1 c2 D R2]; subst. inversion R2; subst.
      change (lenN (@nil N)) with 0. rewrite N.add_0_r. cbn [mk_log]. rewrite app_nil_r.
      eapply (phase_strip fh); [rewrite Hc; apply H_hb | apply ss_net | exact D].
    - cbn [map app] in R. inversion R as [|a0 r0 c0 c1 c2 D R2]; subst.
      assert (H1 : strip c1 = ss (k + 1) (pt_of (k + 1)) (L ++ [mkEntry (k + 1) 1 d])).
      { eapply (phase_strip fa); [rewrite Hc; apply round_any; exact HL | apply ss_net | exact D]. }
      rewrite lenN_cons. replace (k + (lenN rest + 1)) with (k + 1 + lenN rest) by lia.
      cbn [mk_log]. replace (L ++ mkEntry (k + 1) 1 d :: mk_log 1 (k + 1) rest)
        with ((L ++ [mkEntry (k + 1) 1 d]) ++ mk_log 1 (k + 1) rest) by (rewrite <- app_assoc; reflexivity).
      apply (IH (k + 1) _ c1 c'); [rewrite app_length, HL; cbn [length]; lia | exact H1 | exact R2].
  Qed.

  Lemma appends_script : forall payloads k L c,
    length L = N.to_nat k -> strip c = ss k (pt_of k) L ->
    fifo_run rv (map (ClientAppend 0) payloads ++ [Tick 0 1001 (peers_of size)]) c
             (run_from rv c (live_tail fa fh size payloads)).
  Proof.
    induction payloads as [|d rest IH]; intros k L c HL Hc; unfold live_tail; cbn [map app flat_map].
    - change (run_from rv c (Tick 0 1001 (peers_of size) :: repeat (Deliver 0 0) fh))
        with (run_from rv (step rv c (Tick 0 1001 (peers_of size))) (repeat (Deliver 0 0) fh)).
      rewrite run_from_repeat. eapply fr_act; [|apply fr_nil].
      eapply phase_drain; [rewrite Hc; apply H_hb | apply ss_net].
    - rewrite <- app_assoc.
      change (run_from rv c (ClientAppend 0 d :: repeat (Deliver 0 0) fa ++
                flat_map (fun d0 => ClientAppend 0 d0 :: repeat (Deliver 0 0) fa) rest ++
                Tick 0 1001 (peers_of size) :: repeat (Deliver 0 0) fh))
        with (run_from rv (step rv c (ClientAppend 0 d))
                (repeat (Deliver 0 0) fa ++ live_tail fa fh size rest)).
      rewrite run_from_app, run_from_repeat.
      assert (D : fifo_drain rv (step rv c (ClientAppend 0 d)) (drain rv fa (step rv c (ClientAppend 0 d)))).
      { eapply phase_drain; [rewrite Hc; apply round_any; exact HL | apply ss_net]. }
      eapply fr_act; [exact D|].
      apply (IH (k + 1) (L ++ [mkEntry (k + 1) 1 d])); [rewrite app_length, HL; cbn [length]; lia|].
      eapply (phase_strip fa); [rewrite Hc; apply round_any; exact HL | apply ss_net | exact D].
  Qed.

  (* every FIFO run of the live schedule ends in the steady state holding exactly the payloads *)
  Theorem live_fifo : forall payloads c',
    fifo_run rv (live_actions size payloads) (init_default (N.of_nat size)) c' ->
    strip c' = ss (lenN payloads) (pt_of (lenN payloads)) (mk_log 1 0 payloads).
  Proof.
    intros payloads c' R. unfold live_actions in R.
    inversion R as [|a0 r0 c0 c1 c2 D R2]; subst.
    assert (H1 : strip c1 = ss 0 (pt_of 0) []).
    { eapply (phase_strip fe); [exact H_elect | apply ss_net | exact D]. }
    exact (appends_run payloads 0 [] c1 c' eq_refl H1 R2).
  Qed.

  (* ... and there is one: the run of the event list `live_script` *)
  Theorem live_fifo_script : forall payloads,
    fifo_run rv (live_actions size payloads) (init_default (N.of_nat size))
             (run_from rv (init_default (N.of_nat size)) (live_script fe fa fh size payloads)).
  Proof.
    intros payloads. unfold live_actions, live_script.
    change (run_from rv (init_default (N.of_nat size))
              (Tick 0 0 [] :: repeat (Deliver 0 0) fe ++ live_tail fa fh size payloads))
      with (run_from rv (step rv (init_default (N.of_nat size)) (Tick 0 0 []))
              (repeat (Deliver 0 0) fe ++ live_tail fa fh size payloads)).
    rewrite run_from_app, run_from_repeat.
    assert (D : fifo_drain rv (step rv (init_default (N.of_nat size)) (Tick 0 0 []))
                           (drain rv fe (step rv (init_default (N.of_nat size)) (Tick 0 0 [])))).
    { eapply phase_drain; [exact H_elect | apply ss_net]. }
    eapply fr_act; [exact D|].
    apply (appends_script payloads 0 []); [reflexivity|].
    eapply (phase_strip fe); [exact H_elect | apply ss_net | exact D].
  Qed.
End Induction.

(* ------------------------------------------------------------------ the steady state of a cluster of `size` nodes
   node 0 is Leader of term 1 and has recorded (k, pt, k) for every node (its vote marks are those of the election:
   itself and the first size/2 peers); node i > 0 is Follower of 0, knows its own row and the leader's row; every log
   is L, every commit index is k; nothing is in flight.  (Found by evaluation, then proved to be reproduced.) *)
Definition ss_node (size : nat) (k pt : N) (L : list entry) (i : nat) : node :=
  match i with
  | O => mkNode 0 (N.of_nat size) Leader 1
           (map (fun j => mkPeer k pt k (Nat.leb j (size / 2))) (seq 0 size)) L k 0 1000 1000 3000
  | S _ => mkNode (N.of_nat i) (N.of_nat size) (Follower 0) 1
             (map (fun j => if (Nat.eqb j 0 || Nat.eqb j i)%bool then mkPeer k pt k (Nat.eqb j i) else peer0)
                  (seq 0 size))
             L k (1000 * N.of_nat i) (1000 * N.of_nat i) 1000 3000
  end.

Definition ss_gen (size : nat) (k pt : N) (L : list entry) : cluster :=
  mkCluster (map (ss_node size k pt L) (seq 0 size)) [] [].

Lemma ss_gen_net : forall size k pt L, c_net (ss_gen size k pt L) = [].
Proof. reflexivity. Qed.

Lemma ss_gen_nodes : forall size k pt L,
  Forall (fun nd => n_term nd = 1 /\ n_logs nd = L /\ n_commit nd = k) (c_nodes (ss_gen size k pt L)).
Proof.
  intros. unfold ss_gen. cbn [c_nodes]. apply Forall_forall. intros nd H.
  apply in_map_iff in H as [i [<- _]]. destruct i; cbn; auto.
Qed.

(* replace `ss_gen size k pt L` (size a numeral, k / pt / L variables or constants) by the explicit cluster *)
Ltac expand_ss :=
  match goal with
  | |- context [ss_gen ?s ?k ?pt ?L] =>
      let e := eval cbv in (ss_gen s k pt L) in change (ss_gen s k pt L) with e
  end.

Lemma entries_eqb_refl : forall l, entries_eqb l l = true.
Proof.
  induction l as [|x l IH]; cbn [entries_eqb]; [reflexivity|].
  rewrite IH, andb_true_r. apply entry_eqb_eq. reflexivity.
Qed.

(* the goal of C30 (Raft.v: all_synced_b) from the shape of the node list *)
Lemma all_synced_intro : forall ld rest net h data,
  is_leader (n_state ld) = true ->
  Forall (fun nd => n_state nd = Follower (n_index ld) /\ n_logs nd = n_logs ld /\ n_commit nd = lenN (n_logs ld)) rest ->
  n_commit ld = lenN (n_logs ld) -> map e_data (n_logs ld) = data ->
  all_synced_b (mkCluster (ld :: rest) net h) data = true.
Proof.
  intros ld rest net h data Hl Hr Hc Hd. unfold all_synced_b. cbn [c_nodes filter]. rewrite Hl.
  assert (F : filter (fun nd => is_leader (n_state nd)) rest = []).
  { induction Hr as [|x l [Hx _] _ IH]; cbn [filter]; [reflexivity|]. rewrite Hx. cbn [is_leader]. exact IH. }
  rewrite F. apply andb_true_iff. split.
  - cbn [forallb]. rewrite Hl, entries_eqb_refl, Hc, N.eqb_refl. cbn [orb andb].
    apply forallb_forall. intros x Hx. rewrite Forall_forall in Hr. destruct (Hr x Hx) as [H1 [H2 H3]].
    rewrite H1, H2, H3, entries_eqb_refl, !N.eqb_refl. destruct (is_leader (Follower (n_index ld))); reflexivity.
  - rewrite Hd. clear. induction data as [|x data IH]; [reflexivity|]. rewrite N.eqb_refl. exact IH.
Qed.

(* with the repaired election code (the code in /repo) every run has at most one leader per term (C27) *)
Lemma fifo_run_election_safety : forall size acts c',
  fifo_run rr_fixed acts (init_default size) c' -> election_safety (c_hist c').
Proof.
  intros size acts c' R. destruct (fifo_run_events _ _ _ _ R) as [evs ->].
  exact (election_safety_fixed size evs).
Qed.
