(* RaftLiveAll.v — C30: EVERY interleaving of the deliveries of one round, from a SYMBOLIC steady state.
   `Reach rv G s`: every delivery order (`dl_run` of RaftLive.v: any in-flight message next, none lost or duplicated,
   until none is left) started in a cluster whose nodes and network are `s` ends in a state satisfying `G`.
   Two rules (`reach_done`, `reach_step`) and a tactic `explore` that walks the graph of the symbolic states reachable
   from `s` depth-first, evaluating each delivery symbolically (RaftLiveInd.sym_eval) and remembering the states
   already proved (as hypotheses), so that every distinct state is expanded once. *)
From Coq Require Import NArith List Bool Lia Arith.
From Agdb Require Import Raft RaftProofs RaftLive RaftLiveInd.
Import ListNotations.
Open Scope N_scope.

Definition Reach (rv : raftrev) (G : cluster -> Prop) (s : cluster) : Prop :=
  forall c c', strip c = s -> dl_run rv c c' -> G (strip c').

Lemma reach_done : forall rv (G : cluster -> Prop) s, c_net s = [] -> G s -> Reach rv G s.
Proof.
  intros rv G s Hn HG c c' Hc R.
  assert (Hnc : c_net c = []) by (rewrite <- Hc in Hn; exact Hn).
  destruct R as [c _ | c k c' Hk _].
  - rewrite Hc. exact HG.
  - rewrite Hnc in Hk. cbn in Hk. lia.
Qed.

Lemma reach_step : forall rv (G : cluster -> Prop) s,
  c_net s <> [] ->
  (forall j, (j < length (c_net s))%nat -> Reach rv G (nstep rv s (Deliver j 0))) ->
  Reach rv G s.
Proof.
  intros rv G s Hn Hs c c' Hc R.
  assert (Hnc : c_net c = c_net s) by (rewrite <- Hc; reflexivity).
  destruct R as [c Hn0 | c k c' Hk R].
  - rewrite Hnc in Hn0. contradiction.
  - rewrite Hnc in Hk. apply (Hs k Hk (step rv c (Deliver k 0)) c'); [|exact R].
    rewrite nstep_step, Hc. reflexivity.
Qed.

(* ------------------------------------------------------------------ the exploration tactic *)

(* E : nstep rv s (Deliver j 0) = <explicit successor>; `prep` clears the context down to what `lia` needs *)
Ltac succ_eq prep rv s j E :=
  eassert (E : nstep rv s (Deliver j 0) = _) by (prep; sym_eval; reflexivity).

Ltac use_succ :=
  match goal with
  | E : nstep ?rv ?s ?e = _ |- Reach ?rv _ (nstep ?rv ?s ?e) => rewrite E; assumption
  end.

Ltac clear_succs rv s :=
  repeat match goal with E : nstep rv s _ = _ |- _ => clear E end.

Ltac split_index j :=
  lazymatch goal with
  | H : (j < 0)%nat |- _ => exfalso; inversion H
  | H : (j < S _)%nat |- _ =>
      destruct j as [|j]; [clear H | apply Nat.succ_lt_mono in H; split_index j]
  end.

(* `explore prep rv G s final k`: add `Reach rv G s` to the context (unless it is there), then continue with `k` *)
Ltac explore prep rv G s final k :=
  lazymatch goal with
  | _ : Reach rv G s |- _ => k ()
  | _ =>
      let net := eval cbv [c_net] in (c_net s) in
      lazymatch net with
      | nil =>
          let H := fresh "R" in
          assert (H : Reach rv G s) by (apply reach_done; [reflexivity | final]);
          k ()
      | _ =>
          let n := eval cbv [length] in (length net) in
          explore_from prep rv G s final n O
            ltac:(fun _ =>
                    let H := fresh "R" in
                    assert (H : Reach rv G s)
                      by (apply reach_step;
                          [cbv [c_net]; discriminate
                          | let j := fresh "j" in let Hj := fresh "Hj" in
                            intros j Hj; cbv [c_net length] in Hj; split_index j; use_succ]);
                    clear_succs rv s;
                    k ())
      end
  end
with explore_from prep rv G s final n j k :=
  lazymatch n with
  | O => k ()
  | S ?n' =>
      let E := fresh "E" in
      succ_eq prep rv s j E;
      lazymatch type of E with
      | _ = ?s' => explore prep rv G s' final ltac:(fun _ => explore_from prep rv G s final n' (S j) k)
      end
  end.

(* ================================================================== per-channel FIFO delivery
   What the server's transport gives: the messages between one pair of nodes are delivered in the order in which they
   were sent (a response belongs to the channel of the request it answers), deliveries of DIFFERENT channels interleave
   arbitrarily.  `pf_run` = `dl_run` restricted to deliverable messages: no older message of the same channel is in flight. *)

Definition msg_req (m : msg) : request := match m with MReq r => r | MResp r _ => r end.
Definition same_chan (a b : msg) : bool :=
  (q_from (msg_req a) =? q_from (msg_req b)) && (q_to (msg_req a) =? q_to (msg_req b)).
Definition deliverable (net : list msg) (j : nat) : bool :=
  match nth_error net j with
  | Some m => forallb (fun m' => negb (same_chan m' m)) (firstn j net)
  | None => false
  end.

Inductive pf_run (rv : raftrev) : cluster -> cluster -> Prop :=
| pf_done : forall c, c_net c = [] -> pf_run rv c c
| pf_step : forall c k c', (k < length (c_net c))%nat -> deliverable (c_net c) k = true ->
    pf_run rv (step rv c (Deliver k 0)) c' -> pf_run rv c c'.

(* scripted actions, each followed by per-channel-FIFO delivery until quiescence *)
Inductive pff_run (rv : raftrev) : list event -> cluster -> cluster -> Prop :=
| pff_nil : forall c, pff_run rv [] c c
| pff_act : forall a rest c c1 c', pf_run rv (step rv c a) c1 -> pff_run rv rest c1 c' -> pff_run rv (a :: rest) c c'.

Lemma pf_run_dl : forall rv c c', pf_run rv c c' -> dl_run rv c c'.
Proof.
  intros rv c c' H. induction H as [c Hn | c k c' Hk Hd H IH]; [apply dl_done; exact Hn|].
  apply (dl_step rv c k); [exact Hk | exact IH].
Qed.

Lemma fifo_drain_pf : forall rv c c', fifo_drain rv c c' -> pf_run rv c c'.
Proof.
  intros rv c c' H. induction H as [c Hn | c c' Hn H IH]; [apply pf_done; exact Hn|].
  destruct (c_net c) as [|m net] eqn:E; [contradiction|].
  apply (pf_step rv c 0%nat); [rewrite E; cbn; lia | rewrite E; reflexivity | exact IH].
Qed.

Lemma fifo_run_pff : forall rv acts c c', fifo_run rv acts c c' -> pff_run rv acts c c'.
Proof.
  intros rv acts c c' H. induction H as [c | a rest c m c1 D R IH]; [apply pff_nil|].
  eapply pff_act; [apply fifo_drain_pf; exact D | exact IH].
Qed.

(* a given delivery order is a per-channel-FIFO run (used for examples) *)
Fixpoint pf_check (rv : raftrev) (ks : list nat) (c : cluster) : bool :=
  match ks with
  | [] => match c_net c with [] => true | _ => false end
  | k :: rest => (k <? length (c_net c))%nat && deliverable (c_net c) k && pf_check rv rest (step rv c (Deliver k 0))
  end.

Lemma pf_check_sound : forall rv ks c,
  pf_check rv ks c = true -> pf_run rv c (run_from rv c (map (fun k => Deliver k 0) ks)).
Proof.
  intros rv. induction ks as [|k rest IH]; intros c H; cbn [pf_check] in H.
  - cbn [map]. change (run_from rv c []) with c. apply pf_done. destruct (c_net c); [reflexivity | discriminate H].
  - apply andb_true_iff in H as [H H3]. apply andb_true_iff in H as [H1 H2].
    apply (pf_step rv c k); [apply Nat.ltb_lt; exact H1 | exact H2 | exact (IH _ H3)].
Qed.

Definition ReachP (rv : raftrev) (G : cluster -> Prop) (s : cluster) : Prop :=
  forall c c', strip c = s -> pf_run rv c c' -> G (strip c').

Lemma reach_reachp : forall rv G s, Reach rv G s -> ReachP rv G s.
Proof. intros rv G s H c c' Hc R. exact (H c c' Hc (pf_run_dl _ _ _ R)). Qed.

Lemma reachp_done : forall rv (G : cluster -> Prop) s, c_net s = [] -> G s -> ReachP rv G s.
Proof.
  intros rv G s Hn HG c c' Hc R.
  assert (Hnc : c_net c = []) by (rewrite <- Hc in Hn; exact Hn).
  destruct R as [c _ | c k c' Hk _ _].
  - rewrite Hc. exact HG.
  - rewrite Hnc in Hk. cbn in Hk. lia.
Qed.

Lemma reachp_step : forall rv (G : cluster -> Prop) s,
  c_net s <> [] ->
  (forall j, (j < length (c_net s))%nat -> deliverable (c_net s) j = true -> ReachP rv G (nstep rv s (Deliver j 0))) ->
  ReachP rv G s.
Proof.
  intros rv G s Hn Hs c c' Hc R.
  assert (Hnc : c_net c = c_net s) by (rewrite <- Hc; reflexivity).
  destruct R as [c Hn0 | c k c' Hk Hd R].
  - rewrite Hnc in Hn0. contradiction.
  - rewrite Hnc in Hk, Hd. apply (Hs k Hk Hd (step rv c (Deliver k 0)) c'); [|exact R].
    rewrite nstep_step, Hc. reflexivity.
Qed.

Ltac use_succ_p :=
  match goal with
  | E : nstep ?rv ?s ?e = _ |- ReachP ?rv _ (nstep ?rv ?s ?e) => rewrite E; assumption
  end.

Ltac explore_p prep rv G s final k :=
  lazymatch goal with
  | _ : ReachP rv G s |- _ => k ()
  | _ =>
      let net := eval cbv [c_net] in (c_net s) in
      lazymatch net with
      | nil =>
          let H := fresh "R" in
          assert (H : ReachP rv G s) by (apply reachp_done; [reflexivity | final]);
          k ()
      | _ =>
          let n := eval cbv [length] in (length net) in
          explore_p_from prep rv G s net final n O
            ltac:(fun _ =>
                    let H := fresh "R" in
                    assert (H : ReachP rv G s)
                      by (apply reachp_step;
                          [cbv [c_net]; discriminate
                          | let j := fresh "j" in let Hj := fresh "Hj" in let Hd := fresh "Hd" in
                            intros j Hj Hd; cbv [c_net length] in Hj; split_index j;
                            first [use_succ_p | exfalso; cbv in Hd; discriminate Hd]]);
                    clear_succs rv s;
                    k ())
      end
  end
with explore_p_from prep rv G s net final n j k :=
  lazymatch n with
  | O => k ()
  | S ?n' =>
      let d := eval cbv in (deliverable net j) in
      lazymatch d with
      | true =>
          let E := fresh "E" in
          succ_eq prep rv s j E;
          lazymatch type of E with
          | _ = ?s' => explore_p prep rv G s' final ltac:(fun _ => explore_p_from prep rv G s net final n' (S j) k)
          end
      | false => explore_p_from prep rv G s net final n' (S j) k
      end
  end.
