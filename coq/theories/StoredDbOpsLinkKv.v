(* StoredDbOpsLinkKv.v — proofs (stored database, part 32): the DbKeyValues programs again, with what they do to the SLOT VECTOR
   made visible: an allocated slot (<> 0: the element has a property vector) stays allocated (slot_keep) — except the slot
   DbKeyValues::remove frees —, and the slot insert_value / reserve_capacity / insert_or_replace work on IS allocated
   afterwards.  The specifications of StoredDbOpsKv2/3/4.v hide the slot vector of the final state; the removal of an element
   WITHOUT properties needs to know that its vector was allocated (so_slot_valid), which only the history can tell. *)
From Coq Require Import Permutation.
From Agdb Require Import Bytes BytesProofs Utf8 Codec DbValue ValueIndex Graph DbModel Records RecordsProofs Storage StorageSpec
  StorageLayout Collections CollValues CollWp CollBytes CollVecBase CollVecOps CollVec CollVec2 CollElems CollSep CollMap
  CollGraph CollValuesProofs StoredDb StoredDbRep StoredDbLoad StoredDbFrame StoredDbOps StoredDbOpsKv StoredDbOpsKv2 StoredDbOpsKv3
  StoredDbOpsKv4.
From Coq Require Import ZifyBool ZifyNat ZifyN.
Ltac Zify.zify_post_hook ::= Z.div_mod_to_equations.
Open Scope N_scope.
Arguments N.add : simpl never.
Arguments N.mul : simpl never.
Arguments N.sub : simpl never.
Arguments N.of_nat : simpl never.
Arguments N.to_nat : simpl never.
Arguments N.eqb : simpl never.
Arguments N.ltb : simpl never.
Arguments N.leb : simpl never.
Arguments N.div : simpl never.

Definition slot_keep (vi vi' : list N) : Prop := forall n, nth n vi 0 <> 0 -> nth n vi' 0 <> 0.
(* every allocated slot but n stays allocated *)
Definition slot_keep_but (k : nat) (vi vi' : list N) : Prop := forall n, n <> k -> nth n vi 0 <> 0 -> nth n vi' 0 <> 0.

Lemma slot_keep_refl vi : slot_keep vi vi.
Proof. intros n H. exact H. Qed.
Lemma slot_keep_trans a b c : slot_keep a b -> slot_keep b c -> slot_keep a c.
Proof. intros H1 H2 n H. apply H2, H1, H. Qed.
Lemma slot_keep_app vi x : slot_keep vi (vi ++ x).
Proof.
  intros n H. destruct (Nat.lt_ge_cases n (length vi)) as [L|L]; [rewrite app_nth1 by exact L; exact H|].
  rewrite nth_overflow in H by exact L. contradiction H. reflexivity.
Qed.
Lemma nth_mid_other {A} (a : list A) x y b n d : n <> length a -> nth n (a ++ x :: b) d = nth n (a ++ y :: b) d.
Proof.
  intros Hn. destruct (Nat.lt_ge_cases n (length a)) as [L|L]; [rewrite !app_nth1 by exact L; reflexivity|].
  rewrite !app_nth2 by exact L. destruct (n - length a)%nat eqn:E; [lia|reflexivity].
Qed.
Lemma slot_keep_mid0 ia i ib : slot_keep (ia ++ 0 :: ib) (ia ++ i :: ib).
Proof.
  intros n H. destruct (Nat.eq_dec n (length ia)) as [->|Hn]; [rewrite nth_mid in H; contradiction H; reflexivity|].
  rewrite (nth_mid_other ia i 0 ib n 0 Hn). exact H.
Qed.
Lemma slot_keep_to_but k a b : slot_keep a b -> slot_keep_but k a b.
Proof. intros H n _ X. apply H, X. Qed.

Section KvOps.
  Variable fl : bool.

  Lemma so_kv_grow_spec' vh vs vi vw kvs index sp (Q : cres cv_vec -> spec -> Prop) :
    kvrep (hp sp) vh vs vi vw kvs -> so_index_ok index ->
    (forall vh1 vs1 vi1 vw1 sp',
        kvrep (hp sp') vh1 vs1 vi1 vw1 (kvs_pad kvs (N.to_nat index)) -> cv_index vh1 = cv_index vh -> sdepth sp' = sdepth sp ->
        frame (hp sp) (hp sp') (kvfoot vh vs vw) (kvfoot vh1 vs1 vw1) -> slot_keep vi vi1 -> Q (CrOk vh1) sp') ->
    cwp fl (if cv_len vh <=? index then cv_resize N ce_u64 vh (index + 1) 0 else CRet vh) sp Q.
  Proof.
    intros H Hix HQ. pose proof H as [A B C]. unfold so_index_ok in Hix.
    destruct (sd_kv_rep_lengths _ _ _ _ B) as [L1 L2].
    pose proof (vr_len _ _ _ _ _ _ _ A) as Hlen. unfold lenN in Hlen.
    destruct (N.leb_spec (cv_len vh) index) as [Hle|Hlt].
    - eapply cv_resize_spec; [exact A|cbn; unfold two64; lia|cbn [ce_size ce_u64]; unfold two64; lia|].
      intros vh1 vs1 sp1 R1 I1 D1 F1.
      destruct (kv_step_vec _ _ _ _ _ _ _ _ _ _ H R1 F1) as (B1 & N1 & Fr1).
      set (k := (S (N.to_nat index) - length kvs)%nat).
      assert (Er : cl_resize vi (N.to_nat (index + 1)) 0 = vi ++ repeat 0 k).
      { unfold cl_resize, k. rewrite firstn_all2 by lia. f_equal. f_equal. lia. }
      rewrite Er in R1.
      apply (HQ vh1 vs1 (vi ++ repeat 0 k) (vw ++ repeat None k) sp1); [|exact I1|exact D1| |apply slot_keep_app].
      + constructor; [exact R1| |].
        * unfold kvs_pad. fold k. apply sd_kv_rep_app; [exact B1|apply sd_kv_rep_none].
        * unfold kvfoot in *. rewrite sd_kv_foot_app, sd_kv_foot_none, app_nil_r. exact N1.
      + unfold kvfoot in *. rewrite sd_kv_foot_app, sd_kv_foot_none, app_nil_r. exact Fr1.
    - cbn [cwp]. apply (HQ vh vs vi vw sp); [|reflexivity|reflexivity|apply frame_refl; intros j; reflexivity|apply slot_keep_refl].
      rewrite kvs_pad_in by lia. exact H.
  Qed.

  Lemma so_kv_slot_spec' {R} (rest : cv_vec -> cprog R) vh vs vi vw kvs index sp (Q : cres R -> spec -> Prop) :
    kvrep (hp sp) vh vs vi vw kvs -> (N.to_nat index < length kvs)%nat ->
    (forall vs1 ia i ib a k bss b ka l kb sp',
        kvrep (hp sp') vh vs1 (ia ++ i :: ib) (a ++ Some (k, bss) :: b) (ka ++ l :: kb) ->
        length ia = N.to_nat index -> length a = N.to_nat index -> length ka = N.to_nat index ->
        ka ++ l :: kb = kvs -> sdepth sp' = sdepth sp ->
        frame (hp sp) (hp sp') (kvfoot vh vs vw) (kvfoot vh vs1 (a ++ Some (k, bss) :: b)) ->
        slot_keep vi (ia ++ i :: ib) -> i <> 0 -> cwp fl (rest k) sp' Q) ->
    cwp fl (si <~ cv_value N ce_u64 vh index ;;
            k <~ (if si =? 0 then k0 <~ cv_new ;; cv_replace N ce_u64 vh index (cv_index k0) ;;~ CRet k0
                  else cv_from_storage kv ce_dbkv si) ;; rest k) sp Q.
  Proof.
    intros H Hn HQ. pose proof H as [A B C].
    destruct (sd_kv_rep_at _ _ _ _ _ B Hn) as (ia & i & ib & a & w & b & ka & l & kb & -> & -> & -> & Lia & La & Lka & Ba & Bs & Bb).
    apply cwp_bind. eapply cv_value_spec; [exact A|]. rewrite <- Lia, nth_error_mid. cbn [kont].
    destruct w as [[k bss]|]; cbn [sd_kv_slot_rep] in Bs.
    - destruct Bs as (Hnz & Hki & HR). destruct (N.eqb_spec i 0) as [X|_]; [contradiction|].
      apply cwp_bind. rewrite <- Hki. eapply cv_from_storage_spec; [exact HR|]. intros k' HR' Hi' Hl'. cbn [kont].
      destruct (kvrep_slot_update _ _ _ _ _ _ _ _ _ _ _ _ _ _ k' bss l H (eq_trans La (eq_sym Lia)) (eq_trans Lka (eq_sym Lia)) HR' Hi') as [H' F'].
      { unfold foot. rewrite Hi'. apply frame_refl. intros j; reflexivity. }
      eapply (HQ vs ia i ib a k' bss b ka l kb sp); [exact H'|exact Lia|exact La|exact Lka|reflexivity|reflexivity|exact F'|apply slot_keep_refl|exact Hnz].
    - destruct Bs as [-> ->]. rewrite N.eqb_refl.
      apply cwp_bind. apply cwp_bind. apply (cv_new_spec kv ce_dbkv law_dbkv fl). intros k0 sp1 R0 Z0 B0 N0 D0 F0. cbn [kont].
      destruct (kv_step_slot _ _ vh vs ia 0 ib a None b ka [] kb (footK k0 []) H (eq_trans La (eq_sym Lia)) (eq_trans Lka (eq_sym Lia)) F0)
        as (A1 & Ba1 & Bb1 & N1 & Fr1); [eapply vrep_nodup; exact R0|].
      apply cwp_bind.
      eapply cv_replace_spec; [exact A1|cbn; exact B0|]. rewrite <- Lia, nth_error_mid.
      intros vs2 sp2 R2 D2 F2. cbn [kont cwp]. rewrite cl_upd_mid in R2.
      assert (Hlive : live_all (hp sp1) (sd_kv_foot a ++ footK k0 [] ++ sd_kv_foot b)).
      { apply live_all_app. split; [eapply sd_kv_live; exact Ba1|]. apply live_all_app. split; [eapply vrep_live; exact R0|eapply sd_kv_live; exact Bb1]. }
      destruct (kv_step_vec_raw (hp sp1) (hp sp2) vh vs vh vs2 _ (sd_kv_foot a ++ footK k0 [] ++ sd_kv_foot b) N1 Hlive R2 F2) as (N2 & Fr2 & Same).
      assert (R0' : vrepK (hp sp2) k0 [] []).
      { eapply vrep_transport; [exact R0|]. intros j Hj. apply Same. apply in_or_app. right. apply in_or_app. left. exact Hj. }
      eapply (HQ vs2 ia (cv_index k0) ib a k0 [] b ka [] kb sp2); [|exact Lia|exact La|exact Lka|reflexivity|congruence| |apply slot_keep_mid0|exact Z0].
      + constructor; [exact R2| |unfold kvfoot; rewrite sd_kv_foot_mid; exact N2].
        apply sd_kv_rep_mid.
        * eapply sd_transport_kv; [exact Ba1|]. intros j Hj. apply Same. apply in_or_app. left. exact Hj.
        * cbn [sd_kv_slot_rep]. split; [exact Z0|]. split; [reflexivity|exact R0'].
        * eapply sd_transport_kv; [exact Bb1|]. intros j Hj. apply Same. apply in_or_app. right. apply in_or_app. right. exact Hj.
      + eapply frame_trans; [exact Fr1|]. unfold kvfoot. rewrite sd_kv_foot_mid. exact Fr2.
  Qed.

  Lemma so_kv_open_slot_spec' vh vs vi vw kvs index sp (Q : cres (cv_vec * cv_vec) -> spec -> Prop) :
    kvrep (hp sp) vh vs vi vw kvs -> so_index_ok index ->
    (forall vh1 vs1 ia i ib a k bss b ka l kb sp',
        kvrep (hp sp') vh1 vs1 (ia ++ i :: ib) (a ++ Some (k, bss) :: b) (ka ++ l :: kb) ->
        length ia = N.to_nat index -> length a = N.to_nat index -> length ka = N.to_nat index ->
        ka ++ l :: kb = kvs_pad kvs (N.to_nat index) -> cv_index vh1 = cv_index vh -> sdepth sp' = sdepth sp ->
        frame (hp sp) (hp sp') (kvfoot vh vs vw) (kvfoot vh1 vs1 (a ++ Some (k, bss) :: b)) ->
        slot_keep vi (ia ++ i :: ib) -> i <> 0 -> Q (CrOk (vh1, k)) sp') ->
    cwp fl (so_kv_open_slot vh index) sp Q.
  Proof.
    intros H Hix HQ. unfold so_kv_open_slot.
    apply cwp_bind. eapply so_kv_grow_spec'; [exact H|exact Hix|].
    intros vh1 vs1 vi1 vw1 sp1 H1 I1 D1 F1 K1. cbn [kont].
    eapply so_kv_slot_spec'; [exact H1|apply kvs_pad_length|].
    intros vs2 ia i ib a k bss b ka l kb sp2 H2 Lia La Lka Ek D2 F2 K2 Hnz. cbn [cwp].
    eapply HQ; [exact H2|exact Lia|exact La|exact Lka|exact Ek|exact I1|congruence|eapply frame_trans; eassumption
               |eapply slot_keep_trans; eassumption|exact Hnz].
  Qed.

  Theorem so_kv_insert_value_spec' vh vs vi vw kvs index x sp (Q : cres cv_vec -> spec -> Prop) :
    kvrep (hp sp) vh vs vi vw kvs -> so_index_ok index -> el_valid law_dbkv x ->
    8 + ce_size ce_dbkv * (lenN (nth (N.to_nat index) kvs []) + 1) < two64 ->
    (forall vh1 vs1 vi1 vw1 sp',
        kvrep (hp sp') vh1 vs1 vi1 vw1 (kvs_set_nth kvs (N.to_nat index) (nth (N.to_nat index) kvs [] ++ [x])) ->
        cv_index vh1 = cv_index vh -> sdepth sp' = sdepth sp ->
        frame (hp sp) (hp sp') (kvfoot vh vs vw) (kvfoot vh1 vs1 vw1) ->
        slot_keep vi vi1 -> nth (N.to_nat index) vi1 0 <> 0 -> Q (CrOk vh1) sp') ->
    cwp fl (so_kv_insert_value vh index x) sp Q.
  Proof.
    intros H Hix Hx Hfit HQ. unfold so_kv_insert_value.
    apply cwp_bind. eapply so_kv_open_slot_spec'; [exact H|exact Hix|].
    intros vh1 vs1 ia i ib a k bss b ka l kb sp1 H1 Lia La Lka Ek I1 D1 F1 K1 Hnz. cbn [kont fst snd].
    assert (El : l = nth (N.to_nat index) kvs []).
    { rewrite <- (kvs_pad_nth kvs (N.to_nat index)), <- Ek, <- Lka. symmetry. apply nth_mid. }
    destruct (sd_kv_rep_split _ ia a ka (i :: ib) (Some (k, bss) :: b) (l :: kb) (eq_trans La (eq_sym Lia)) (eq_trans Lka (eq_sym Lia)) (kr_kv _ _ _ _ _ _ H1)) as [_ Bs].
    cbn [sd_kv_rep sd_kv_slot_rep] in Bs. destruct Bs as [(_ & _ & HR) _].
    apply cwp_bind. eapply cv_reserve_spec; [exact HR|]. intros k1 sp2 HR1 Ik1 _ D2 F2. cbn [kont].
    apply cwp_bind. eapply cv_push_spec; [exact HR1|exact Hx|rewrite El; exact Hfit|].
    intros k2 bss2 sp3 HR2 Ik2 D3 F3. cbn [kont cwp].
    destruct (kvrep_slot_update _ _ _ _ _ _ _ _ _ _ _ _ _ _ k2 bss2 (l ++ [x]) H1 (eq_trans La (eq_sym Lia)) (eq_trans Lka (eq_sym Lia)) HR2) as [H3 Fr3];
      [congruence|eapply frame_trans; eassumption|].
    eapply HQ; [|exact I1|congruence|eapply frame_trans; eassumption|exact K1|rewrite <- Lia, nth_mid; exact Hnz].
    rewrite <- El, <- (kvs_set_nth_pad (N.to_nat index) kvs), <- Ek, <- Lka, kvs_set_nth_mid. exact H3.
  Qed.

  Theorem so_kv_reserve_capacity_spec' vh vs vi vw kvs index len sp (Q : cres cv_vec -> spec -> Prop) :
    kvrep (hp sp) vh vs vi vw kvs -> so_index_ok index ->
    (forall vh1 vs1 vi1 vw1 sp',
        kvrep (hp sp') vh1 vs1 vi1 vw1 (kvs_pad kvs (N.to_nat index)) ->
        cv_index vh1 = cv_index vh -> sdepth sp' = sdepth sp ->
        frame (hp sp) (hp sp') (kvfoot vh vs vw) (kvfoot vh1 vs1 vw1) ->
        slot_keep vi vi1 -> nth (N.to_nat index) vi1 0 <> 0 -> Q (CrOk vh1) sp') ->
    cwp fl (so_kv_reserve_capacity vh index len) sp Q.
  Proof.
    intros H Hix HQ. unfold so_kv_reserve_capacity.
    apply cwp_bind. eapply so_kv_open_slot_spec'; [exact H|exact Hix|].
    intros vh1 vs1 ia i ib a k bss b ka l kb sp1 H1 Lia La Lka Ek I1 D1 F1 K1 Hnz. cbn [kont fst snd].
    destruct (sd_kv_rep_split _ ia a ka (i :: ib) (Some (k, bss) :: b) (l :: kb) (eq_trans La (eq_sym Lia)) (eq_trans Lka (eq_sym Lia)) (kr_kv _ _ _ _ _ _ H1)) as [_ Bs].
    cbn [sd_kv_rep sd_kv_slot_rep] in Bs. destruct Bs as [(_ & _ & HR) _].
    apply cwp_bind. eapply cv_reserve_spec; [exact HR|]. intros k1 sp2 HR1 Ik1 _ D2 F2. cbn [kont cwp].
    destruct (kvrep_slot_update _ _ _ _ _ _ _ _ _ _ _ _ _ _ k1 bss l H1 (eq_trans La (eq_sym Lia)) (eq_trans Lka (eq_sym Lia)) HR1 Ik1 F2) as [H3 Fr3].
    eapply HQ; [|exact I1|congruence|eapply frame_trans; eassumption|exact K1|rewrite <- Lia, nth_mid; exact Hnz].
    rewrite <- Ek. exact H3.
  Qed.

  Theorem so_kv_insert_or_replace_spec' vh vs vi vw kvs index x sp (Q : cres (cv_vec * option kv) -> spec -> Prop) :
    kvrep (hp sp) vh vs vi vw kvs -> so_index_ok index -> el_valid law_dbkv x ->
    8 + ce_size ce_dbkv * (lenN (nth (N.to_nat index) kvs []) + 1) < two64 ->
    (forall vh1 vs1 vi1 vw1 sp',
        kvrep (hp sp') vh1 vs1 vi1 vw1 (snd (kvs_ior kvs (N.to_nat index) x)) ->
        cv_index vh1 = cv_index vh -> sdepth sp' = sdepth sp ->
        frame (hp sp) (hp sp') (kvfoot vh vs vw) (kvfoot vh1 vs1 vw1) ->
        slot_keep vi vi1 -> nth (N.to_nat index) vi1 0 <> 0 ->
        Q (CrOk (vh1, fst (kvs_ior kvs (N.to_nat index) x))) sp') ->
    cwp fl (so_kv_insert_or_replace vh index x) sp Q.
  Proof.
    intros H Hix Hx Hfit HQ. pose proof H as [A B C].
    destruct (sd_kv_rep_lengths _ _ _ _ B) as [L1 L2].
    pose proof (vr_len _ _ _ _ _ _ _ A) as Hlen. unfold lenN in Hlen.
    unfold so_kv_insert_or_replace, so_kv_valid_index.
    assert (Hins : nth (N.to_nat index) kvs [] = [] ->
                   cwp fl (vh' <~ so_kv_insert_value vh index x ;; CRet (vh', None)) sp Q).
    { intros El. apply cwp_bind. eapply so_kv_insert_value_spec'; [exact H|exact Hix|exact Hx|exact Hfit|].
      intros vh1 vs1 vi1 vw1 sp' H1 I1 D1 F1 K1 Hnz. cbn [kont cwp].
      unfold kvs_ior in HQ. rewrite El in HQ. cbn [replace_first fst snd] in HQ. rewrite El in H1. cbn [app] in *.
      eapply HQ; eassumption. }
    apply cwp_bind. destruct (N.ltb_spec index (cv_len vh)) as [Hlt|Hge].
    2:{ cbn [cwp kont negb]. apply Hins. apply nth_overflow. lia. }
    assert (Hn : (N.to_nat index < length kvs)%nat) by lia.
    destruct (sd_kv_rep_at _ _ _ _ _ B Hn) as (ia & i & ib & a & w & b & ka & l & kb & Evi & Evw & Ekvs & Lia & La & Lka & Ba & Bs & Bb).
    subst vi vw kvs.
    assert (El : nth (N.to_nat index) (ka ++ l :: kb) [] = l) by (rewrite <- Lka; apply nth_mid). pose proof Hfit as Hfit'. rewrite El in Hfit'.
    apply cwp_bind. eapply cv_value_spec; [exact A|]. rewrite <- Lia, nth_error_mid. cbn [kont cwp].
    destruct w as [[k bss]|]; cbn [sd_kv_slot_rep] in Bs.
    2:{ destruct Bs as [-> ->]. rewrite N.eqb_refl. cbn [negb]. apply Hins. exact El. }
    destruct Bs as (Hnz & Hki & HR). destruct (N.eqb_spec i 0) as [X|_]; [contradiction|]. cbn [negb].
    assert (Hnz' : nth (N.to_nat index) (ia ++ i :: ib) 0 <> 0) by (rewrite <- Lia, nth_mid; exact Hnz).
    apply cwp_bind. unfold so_kv_kvs. apply cwp_bind. eapply cv_value_spec; [exact A|]. rewrite <- Lia, nth_error_mid. cbn [kont].
    rewrite <- Hki. eapply cv_from_storage_spec; [exact HR|]. intros k' HR' Hi' Hl'. cbn [kont].
    destruct (kvrep_slot_update _ _ _ _ _ _ _ _ _ _ _ _ _ _ k' bss l H (eq_trans La (eq_sym Lia)) (eq_trans Lka (eq_sym Lia)) HR' Hi') as [H' F'].
    { unfold foot. rewrite Hi'. apply frame_refl. intros j; reflexivity. }
    apply cwp_bind. eapply so_kv_find_spec; [exact HR'|pose proof (vr_len _ _ _ _ _ _ _ HR') as X; unfold lenN in X; lia|].
    change (N.to_nat 0) with 0%nat. cbn [skipn].
    unfold kvs_ior in HQ. rewrite El, replace_first_pos in HQ. rewrite <- Lka in HQ.
    destruct (kv_pos l (fst x)) as [[n old]|] eqn:Ep; cbn [kont fst snd] in *.
    - apply cwp_bind. eapply cv_replace_spec; [exact HR'|exact Hx|].
      replace (N.to_nat (0 + N.of_nat n)) with n by lia. rewrite (kv_pos_nth _ _ _ _ Ep).
      intros bss2 sp2 HR2 D2 F2. cbn [kont cwp].
      destruct (kvrep_slot_update _ _ _ _ _ _ _ _ _ _ _ _ _ _ k' bss2 (cl_upd l n x) H' (eq_trans La (eq_sym Lia)) (eq_trans Lka (eq_sym Lia)) HR2 eq_refl F2) as [H3 F3].
      rewrite kvs_set_nth_mid in HQ.
      eapply HQ; [exact H3|reflexivity|exact D2|eapply frame_trans; eassumption|apply slot_keep_refl|rewrite Lka; exact Hnz'].
    - apply cwp_bind. eapply cv_reserve_spec; [exact HR'|]. intros k1 sp2 HR1 Ik1 _ D2 F2. cbn [kont].
      apply cwp_bind. eapply cv_push_spec; [exact HR1|exact Hx|exact Hfit'|].
      intros k2 bss2 sp3 HR2 Ik2 D3 F3. cbn [kont cwp].
      destruct (kvrep_slot_update _ _ _ _ _ _ _ _ _ _ _ _ _ _ k2 bss2 (l ++ [x]) H' (eq_trans La (eq_sym Lia)) (eq_trans Lka (eq_sym Lia)) HR2) as [H3 Fr3];
        [congruence|eapply frame_trans; eassumption|].
      rewrite kvs_set_nth_mid in HQ.
      eapply HQ; [exact H3|reflexivity|congruence|eapply frame_trans; eassumption|apply slot_keep_refl|rewrite Lka; exact Hnz'].
  Qed.

  Theorem so_kv_remove_spec' vh vs vi vw kvs index sp (Q : cres cv_vec -> spec -> Prop) :
    kvrep (hp sp) vh vs vi vw kvs -> so_slot_valid vi (N.to_nat index) ->
    (forall vh1 vs1 vi1 vw1 sp',
        kvrep (hp sp') vh1 vs1 vi1 vw1 (kvs_remove_nth kvs (N.to_nat index)) ->
        cv_index vh1 = cv_index vh -> sdepth sp' = sdepth sp ->
        frame (hp sp) (hp sp') (kvfoot vh vs vw) (kvfoot vh1 vs1 vw1) ->
        slot_keep_but (N.to_nat index) vi vi1 -> Q (CrOk vh1) sp') ->
    cwp fl (so_kv_remove vh index) sp Q.
  Proof.
    intros H Hval HQ. pose proof H as [A B C].
    destruct (sd_kv_rep_lengths _ _ _ _ B) as [L1 L2].
    pose proof (vr_len _ _ _ _ _ _ _ A) as Hlen. unfold lenN in Hlen.
    unfold so_kv_remove, so_kv_valid_index.
    apply cwp_bind. destruct (N.ltb_spec index (cv_len vh)) as [Hlt|Hge].
    2:{ cbn [cwp kont negb]. unfold kvs_remove_nth in HQ.
        destruct (Nat.eqb_spec (S (N.to_nat index)) (length kvs)); [lia|]. destruct (Nat.ltb_spec (N.to_nat index) (length kvs)); [lia|].
        eapply (HQ vh vs vi vw sp); [exact H|reflexivity|reflexivity|apply frame_refl; intros j; reflexivity
                                   |apply slot_keep_to_but, slot_keep_refl]. }
    assert (Hn : (N.to_nat index < length kvs)%nat) by lia.
    destruct (sd_kv_rep_at _ _ _ _ _ B Hn) as (ia & i & ib & a & w & b & ka & l & kb & Evi & Evw & Ekvs & Lia & La & Lka & Ba & Bs & Bb).
    subst vi vw kvs.
    assert (Ei : nth (N.to_nat index) (ia ++ i :: ib) 0 = i) by (rewrite <- Lia; apply nth_mid).
    destruct Hval as [X|Hnz]; [rewrite app_length in X; cbn [length] in X; lia|]. rewrite Ei in Hnz.
    apply cwp_bind. eapply cv_value_spec; [exact A|]. rewrite <- Lia, nth_error_mid. cbn [kont cwp].
    destruct w as [[k bss]|]; cbn [sd_kv_slot_rep] in Bs; [|destruct Bs as [X _]; contradiction].
    destruct Bs as (_ & Hki & HR). destruct (N.eqb_spec i 0) as [X|_]; [contradiction|]. cbn [negb].
    apply cwp_bind. unfold so_kv_kvs. apply cwp_bind. eapply cv_value_spec; [exact A|]. rewrite <- Lia, nth_error_mid. cbn [kont].
    rewrite <- Hki. eapply cv_from_storage_spec; [exact HR|]. intros k' HR' Hi' Hl'. cbn [kont].
    apply cwp_bind. eapply cv_remove_from_storage_spec; [exact HR'|]. intros sp1 D1 F1. cbn [kont].
    assert (F1' : frame (hp sp) (hp sp1) (slotfoot (Some (k, bss))) []).
    { cbn [slotfoot]. unfold foot in *. rewrite <- Hi'. exact F1. }
    destruct (kv_step_slot _ _ vh vs ia i ib a (Some (k, bss)) b ka l kb [] H (eq_trans La (eq_sym Lia)) (eq_trans Lka (eq_sym Lia)) F1' (NoDup_nil _))
      as (A1 & Ba1 & Bb1 & N1 & Fr1).
    cbn [app] in N1, Fr1.
    assert (Hlive : live_all (hp sp1) (sd_kv_foot a ++ sd_kv_foot b)).
    { apply live_all_app. split; [eapply sd_kv_live; exact Ba1|eapply sd_kv_live; exact Bb1]. }
    rewrite app_length in Hlen. cbn [length] in Hlen.
    destruct (N.eqb_spec (cv_len vh - 1) index) as [Elast|Nlast].
    - assert (Eib : ib = []) by (destruct ib; [reflexivity|cbn [length] in Hlen; lia]).
      assert (Eb : b = []) by (destruct b; [reflexivity|rewrite !app_length in L1; cbn [length] in L1; lia]).
      assert (Ekb : kb = []) by (destruct kb; [reflexivity|rewrite !app_length in L2; cbn [length] in L2; lia]).
      subst ib b kb.
      apply cwp_bind. eapply cv_remove_spec; [exact A1|]. rewrite <- Lia, nth_error_mid.
      intros vs2 sp2 R2 D2 F2. cbn [kont cwp fst]. rewrite cl_remove_last in R2.
      destruct (kv_step_vec_raw (hp sp1) (hp sp2) vh vs _ vs2 _ (sd_kv_foot a ++ sd_kv_foot []) N1 Hlive R2 F2) as (N2 & Fr2 & Same).
      cbn [sd_kv_foot] in *. rewrite app_nil_r in *.
      assert (Ek : kvs_remove_nth (ka ++ [l]) (N.to_nat index) = ka).
      { unfold kvs_remove_nth. rewrite app_length. cbn [length]. destruct (Nat.eqb_spec (S (N.to_nat index)) (length ka + 1)); [|lia]. apply removelast_last. }
      rewrite Ek in HQ.
      eapply (HQ _ vs2 ia a sp2); [|reflexivity|congruence| |].
      + constructor; [exact R2| |exact N2].
        eapply sd_transport_kv; [exact Ba1|]. intros j Hj. apply Same. exact Hj.
      + eapply frame_trans; [exact Fr1|]. unfold kvfoot. exact Fr2.
      + intros n Hne Hx. destruct (Nat.lt_ge_cases n (length ia)) as [L|L]; [rewrite app_nth1 in Hx by exact L; exact Hx|].
        rewrite nth_overflow in Hx; [contradiction Hx; reflexivity|]. rewrite app_length. cbn [length]. lia.
    - apply cwp_bind. eapply cv_replace_spec; [exact A1|cbn; unfold two64; lia|]. rewrite <- Lia, nth_error_mid.
      intros vs2 sp2 R2 D2 F2. cbn [kont cwp]. rewrite cl_upd_mid in R2.
      destruct (kv_step_vec_raw (hp sp1) (hp sp2) vh vs vh vs2 _ (sd_kv_foot a ++ sd_kv_foot b) N1 Hlive R2 F2) as (N2 & Fr2 & Same).
      assert (Ek : kvs_remove_nth (ka ++ l :: kb) (N.to_nat index) = ka ++ [] :: kb).
      { unfold kvs_remove_nth. rewrite !app_length in *. cbn [length] in *.
        destruct (Nat.eqb_spec (S (N.to_nat index)) (length ka + S (length kb))); [lia|].
        destruct (Nat.ltb_spec (N.to_nat index) (length ka + S (length kb))); [|lia]. rewrite <- Lka, kvs_set_nth_mid. reflexivity. }
      rewrite Ek in HQ.
      eapply (HQ vh vs2 (ia ++ 0 :: ib) (a ++ None :: b) sp2); [|reflexivity|congruence| |].
      + constructor; [exact R2| |unfold kvfoot; rewrite sd_kv_foot_mid; cbn [slotfoot app]; exact N2].
        apply sd_kv_rep_mid.
        * eapply sd_transport_kv; [exact Ba1|]. intros j Hj. apply Same. apply in_or_app. left. exact Hj.
        * cbn [sd_kv_slot_rep]. split; reflexivity.
        * eapply sd_transport_kv; [exact Bb1|]. intros j Hj. apply Same. apply in_or_app. right. exact Hj.
      + eapply frame_trans; [exact Fr1|]. unfold kvfoot. rewrite sd_kv_foot_mid. cbn [slotfoot app]. exact Fr2.
      + intros n Hne Hx. rewrite (nth_mid_other ia 0 i ib n 0) by lia. exact Hx.
  Qed.
End KvOps.
