(* IndexDb4Proofs.v — C11, part 5: insert_index establishes / keeps the invariants; what the
   invariant means for index searches and for the index listing. *)
From Agdb Require Import Bytes DbValue Graph DbModel Search Queries DbValueEqProofs DbFrameProofs
  KvProofs KvDbProofs KvSelectProofs IndexProofs IndexDbProofs IndexDb2Proofs IndexDb3Proofs QStepProofs.
From Coq Require Import ZifyBool ZifyNat ZifyN.
Open Scope Z_scope.

Lemma live_same_gr d d' : gr d' = gr d -> forall i, live d i = live d' i.
Proof. intros H i. unfold live. now rewrite H. Qed.

Lemma insert_index_exact d key n d' :
  insert_index d key = ROk (n, d') -> idx_exact d -> vals_live d -> idx_distinct d ->
  idx_exact d' /\ vals_live d' /\ idx_distinct d'.
Proof.
  intros Hi Hd Hl Hk. pose proof (insert_index_spec d key) as S. rewrite Hi in S.
  destruct S as (F & A & B & C & Hfind & Hkeys & _).
  split; [|split].
  - apply (idx_exact_on_ext (live d)); [now apply live_same_gr|].
    intros key' ids Hf P HP id. rewrite Hfind in Hf. rewrite B.
    destruct (idx_find (indexes d) key') as [ids0|] eqn:F'.
    + inversion Hf; subst. now apply Hd.
    + destruct (dbv_eqb key key') eqn:E; [|discriminate]. inversion Hf; subst.
      unfold backfill_pairs. rewrite (backfill_count d key P id Hl). unfold live.
      destruct (graph_index (gr d) id); [|reflexivity]. now apply cntK_congr.
  - apply (vals_live_on_ext (live d)); [now apply live_same_gr|].
    now apply (vals_live_on_frame (live d) d d').
  - unfold idx_distinct, idx_keys_distinct. rewrite Hkeys.
    apply vals_distinct_snoc; [exact Hk|]. now apply idx_find_none_mem.
Qed.

(* an existing index: error, nothing changes (at the query level the state is literally the same) *)
Lemma insert_index_duplicate d key :
  idx_find (indexes d) key <> None -> insert_index d key = RErr ENotAllowed.
Proof. unfold insert_index. destruct (idx_find (indexes d) key); [reflexivity|congruence]. Qed.

Lemma exec_insert_index_duplicate rv d key :
  undo d = [] -> idx_find (indexes d) key <> None ->
  exec rv d (InsertIndex key) = (d, QErr ENotAllowed).
Proof.
  intros Hu Hf. unfold exec, exec_in_txn. cbn [is_mutating exec_mut_step].
  rewrite (insert_index_duplicate d key Hf). unfold rollback. rewrite Hu. cbn [rollback_cmds].
  now rewrite (clear_undo_id d Hu).
Qed.

(* ---------- index search ---------- *)
Lemma search_index_unfold rv d s l m key op value rest :
  s_algorithm s = AIndex -> s_conditions s = Cond l m (CKeyValue key op value) :: rest ->
  search rv d s =
  match idx_find (indexes d) key with
  | Some ids => SOk (map snd (filter (fun p : dbvalue * Z => dbv_eqb (fst p) value) ids))
  | None => SErr ENotFound
  end.
Proof. intros Ha Hc. unfold search. rewrite Ha, Hc. reflexivity. Qed.

Lemma count_occ_index_result ids v id :
  count_occ Z.eq_dec (map snd (filter (fun p : dbvalue * Z => dbv_eqb (fst p) v) ids)) id =
  cntP ids (fun w => dbv_eqb w v) id.
Proof.
  induction ids as [|[v0 id0] ids IH]; [reflexivity|]. rewrite cntP_cons. cbn [filter fst snd].
  destruct (dbv_eqb v0 v); cbn [andb map count_occ snd b2nat].
  - destruct (Z.eq_dec id0 id) as [->|Hn].
    + rewrite Z.eqb_refl, IH. reflexivity.
    + rewrite (proj2 (Z.eqb_neq id0 id) Hn), IH. reflexivity.
  - exact IH.
Qed.

Lemma cntK_absent l key P : has_key l key = false -> cntK l key P = 0%nat.
Proof.
  induction l as [|x l IH]; [reflexivity|]. cbn [has_key existsb]. intros H.
  apply orb_false_iff in H. destruct H as [H1 H2]. rewrite cntK_cons, H1. cbn [andb b2nat]. now apply IH.
Qed.

(* with distinct keys an element contributes at most one entry: its value for the key *)
Lemma cntK_distinct l key P :
  keys_distinct l ->
  cntK l key P = match kv_lookup l key with Some v' => b2nat (P v') | None => 0%nat end.
Proof.
  unfold kv_lookup. induction l as [|x l IH]; cbn [keys_distinct kv_find find]; [reflexivity|].
  intros [Hx Hd]. rewrite cntK_cons. fold (kv_find l key). destruct (dbv_eqb (fst x) key) eqn:E; cbn [andb].
  - rewrite cntK_absent; [lia|]. rewrite <- Hx. symmetry. now apply has_key_congr.
  - cbn [b2nat]. now apply IH.
Qed.

(* an index search for key K and value V returns exactly (as a multiset) the live elements whose
   current value of K equals V *)
Lemma index_search_exact d key ids value id :
  idx_exact d -> kvs_distinct (vals d) -> idx_find (indexes d) key = Some ids ->
  count_occ Z.eq_dec (map snd (filter (fun p : dbvalue * Z => dbv_eqb (fst p) value) ids)) id =
  if live d id then match kvs_value (vals d) id key with
                    | Some v' => b2nat (dbv_eqb v' value)
                    | None => 0%nat
                    end
  else 0%nat.
Proof.
  intros Hd Hk Hf. rewrite count_occ_index_result.
  rewrite (Hd key ids Hf _ (respects_eqb value) id). destruct (live d id); [|reflexivity].
  rewrite kvs_value_lookup. now apply cntK_distinct.
Qed.

(* ---------- the index listing ---------- *)
Lemma in_elements g e : In e (elements g) <-> graph_index g e = true.
Proof.
  unfold elements. rewrite in_flat_map. split.
  - intros [s [Hs He]]. apply in_seq in Hs. unfold element_at in He.
    destruct (fmeta g (Z.of_nat s) <? 0) eqn:Ef; [destruct He|].
    assert (Hcap : Z.of_nat s < capacity g) by (unfold capacity; lia).
    destruct (from g (Z.of_nat s) <? 0) eqn:Efr; destruct He as [<-|[]]; unfold graph_index.
    + destruct (Z.ltb_spec (- Z.of_nat s) 0); [|lia].
      unfold is_edge, valid_index, fmeta, from, get, zabs_nat in *. rewrite Z.abs_opp.
      replace (Z.to_nat (Z.abs (Z.of_nat s))) with s in * by lia.
      rewrite Ef, Efr. cbn [negb andb]. rewrite andb_true_r.
      unfold capacity in *. lia.
    + destruct (Z.ltb_spec (Z.of_nat s) 0); [lia|]. destruct (Z.ltb_spec 0 (Z.of_nat s)); [|lia].
      unfold is_node, valid_index, fmeta, from, get, zabs_nat in *.
      replace (Z.to_nat (Z.abs (Z.of_nat s))) with s in * by lia.
      rewrite Ef. cbn [negb andb]. rewrite andb_true_r.
      unfold capacity in *. lia.
  - intros Hg. exists (zabs_nat e). unfold graph_index in Hg.
    assert (Hv : valid_index g e = true /\ ((e < 0 /\ from g e < 0) \/ (0 < e /\ 0 <= from g e))).
    { destruct (Z.ltb_spec e 0).
      - unfold is_edge in Hg. apply andb_true_iff in Hg. split; [tauto|left; lia].
      - destruct (Z.ltb_spec 0 e); [|discriminate]. unfold is_node in Hg. apply andb_true_iff in Hg.
        split; [tauto|right; lia]. }
    destruct Hv as [Hv Hs]. unfold valid_index in Hv. apply andb_true_iff in Hv. destruct Hv as [Hv Hf].
    apply andb_true_iff in Hv. destruct Hv as [Hz Hc]. unfold capacity in Hc.
    split.
    + apply in_seq. unfold zabs_nat. lia.
    + unfold element_at.
      assert (Hfm : fmeta g (Z.of_nat (zabs_nat e)) = fmeta g e).
      { unfold fmeta, get. f_equal. unfold zabs_nat. lia. }
      assert (Hfr : from g (Z.of_nat (zabs_nat e)) = from g e).
      { unfold from, get. f_equal. unfold zabs_nat. lia. }
      rewrite Hfm, Hfr. destruct (fmeta g e <? 0); [discriminate|].
      destruct Hs as [[H1 H2]|[H1 H2]].
      * destruct (Z.ltb_spec (from g e) 0); [|lia]. left. unfold zabs_nat. lia.
      * destruct (Z.ltb_spec (from g e) 0); [lia|]. left. unfold zabs_nat. lia.
Qed.

Lemma elements_abs_filter g (l : list nat) :
  map zabs_nat (flat_map (fun s => match element_at g s with Some e => [e] | None => [] end) l) =
  filter (fun s => match element_at g s with Some _ => true | None => false end) l.
Proof.
  induction l as [|s l IH]; [reflexivity|]. cbn [flat_map filter]. rewrite map_app, IH.
  unfold element_at at 1 3. destruct (fmeta g (Z.of_nat s) <? 0); [reflexivity|].
  destruct (from g (Z.of_nat s) <? 0); cbn [map app]; f_equal; unfold zabs_nat; lia.
Qed.

Lemma elements_nodup g : NoDup (elements g).
Proof.
  apply (NoDup_map_inv zabs_nat). unfold elements. rewrite elements_abs_filter.
  apply NoDup_filter, seq_NoDup.
Qed.

Lemma list_sum_cons a r : list_sum (a :: r) = (a + list_sum r)%nat.
Proof. reflexivity. Qed.

Lemma list_sum_add {A} (f g : A -> nat) l :
  list_sum (map (fun c => (f c + g c)%nat) l) = (list_sum (map f l) + list_sum (map g l))%nat.
Proof.
  induction l as [|x l IH]; [reflexivity|]. cbn [map]. rewrite !list_sum_cons, IH. lia.
Qed.

Lemma list_sum_indicator (x : Z) (l : list Z) :
  NoDup l -> list_sum (map (fun c => b2nat (x =? c)) l) = b2nat (existsb (Z.eqb x) l).
Proof.
  induction l as [|y l IH]; intros Hn; [reflexivity|]. inversion Hn as [|? ? Hy Hl]; subst.
  cbn [map existsb]. rewrite list_sum_cons, (IH Hl).
  destruct (Z.eqb_spec x y) as [->|Hne]; cbn [orb b2nat]; [|reflexivity].
  destruct (existsb (Z.eqb y) l) eqn:Ex; [|reflexivity].
  apply existsb_exists in Ex. destruct Ex as [z [Hz Hyz]]. apply Z.eqb_eq in Hyz. subst. contradiction.
Qed.

Lemma list_sum_zero {A} (l : list A) : list_sum (map (fun _ => 0%nat) l) = 0%nat.
Proof. induction l as [|x l IH]; [reflexivity|]. cbn [map]. now rewrite list_sum_cons, IH. Qed.

Lemma length_by_class (ids : list (dbvalue * Z)) (cands : list Z) :
  NoDup cands -> (forall p, In p ids -> In (snd p) cands) ->
  length ids = list_sum (map (fun c => cntP ids (fun _ => true) c) cands).
Proof.
  intros Hn. induction ids as [|p ids IH]; intros Hin.
  - cbn [length]. symmetry. apply list_sum_zero.
  - cbn [length]. rewrite (map_ext _ (fun c : Z => (b2nat (snd p =? c)%Z + cntP ids (fun _ => true) c)%nat)).
    2:{ intros c. now rewrite cntP_cons. }
    assert (Hex : existsb (Z.eqb (snd p)) cands = true).
    { apply existsb_exists. exists (snd p). split; [apply Hin; now left|apply Z.eqb_refl]. }
    rewrite list_sum_add, (list_sum_indicator (snd p) cands Hn), Hex. cbn [b2nat].
    rewrite IH; [reflexivity|]. intros q Hq. apply Hin. now right.
Qed.

Lemma list_sum_b2nat {A} (f : A -> bool) l : list_sum (map (fun c => b2nat (f c)) l) = length (filter f l).
Proof.
  induction l as [|x l IH]; [reflexivity|]. cbn [map filter]. rewrite list_sum_cons, IH. destruct (f x); reflexivity.
Qed.

(* number of existing elements that have the key *)
Definition count_having (d : db) (key : dbvalue) : nat :=
  length (filter (fun e => has_key (kvs_get (vals d) e) key) (elements (gr d))).

Lemma index_length_exact d key ids :
  idx_exact d -> kvs_distinct (vals d) -> idx_find (indexes d) key = Some ids ->
  length ids = count_having d key.
Proof.
  intros Hd Hk Hf. unfold count_having.
  rewrite (length_by_class ids (elements (gr d)) (elements_nodup (gr d))).
  - rewrite <- list_sum_b2nat. f_equal. apply map_ext_in. intros e He.
    rewrite (Hd key ids Hf _ respects_true e). apply in_elements in He. unfold live. rewrite He.
    rewrite (cntK_distinct _ key (fun _ => true) (Hk e)). unfold kv_lookup. rewrite has_key_find.
    now destruct (kv_find (kvs_get (vals d) e) key).
  - intros p Hp. apply in_elements. pose proof (Hd key ids Hf _ respects_true (snd p)) as H.
    fold (live d (snd p)). destruct (live d (snd p)); [reflexivity|]. exfalso.
    assert (Hpos : (0 < cntP ids (fun _ => true) (snd p))%nat); [|lia].
    clear -Hp. induction ids as [|q ids IH]; [destruct Hp|]. rewrite cntP_cons.
    destruct Hp as [->|Hp]; [rewrite Z.eqb_refl; cbn; lia|]. specialize (IH Hp). lia.
Qed.

Lemma idx_find_in ix k ids : idx_keys_distinct ix -> In (k, ids) ix -> idx_find ix k = Some ids.
Proof.
  unfold idx_keys_distinct. induction ix as [|[k0 ids0] r IH]; cbn [map fst vals_distinct]; [intros _ []|].
  intros [Hk Hd] [H|H].
  - inversion H; subst. rewrite idx_find_cons, dbv_eqb_refl. reflexivity.
  - rewrite idx_find_cons. destruct (dbv_eqb k0 k) eqn:E; [|now apply IH].
    exfalso. assert (Hm : mem dbv_eqb k0 (map fst r) = true).
    { clear -H E. induction r as [|[k1 ids1] r IH]; [destruct H|]. cbn [map fst mem].
      destruct H as [H|H]; [inversion H; subst; rewrite dbv_eqb_sym, E; reflexivity|].
      rewrite (IH H). apply orb_true_r. }
    congruence.
Qed.

(* SelectIndexes reports, per indexed key, exactly the number of elements having that key *)
Lemma select_indexes_exact rv d :
  idx_exact d -> kvs_distinct (vals d) -> idx_distinct d ->
  exec_select rv d SelectIndexes =
  QOk (lenZ (indexes d))
      [ {| e_id := 0; e_from := 0; e_to := 0;
           e_values := map (fun ix : index => (fst ix, DU64 (N.of_nat (count_having d (fst ix))))) (indexes d) |} ].
Proof.
  intros Hd Hk Hdist. cbn [exec_select]. unfold lenZ. rewrite map_length. do 3 f_equal.
  apply map_ext_in. intros [k ids] Hin. cbn [fst snd]. do 3 f_equal.
  apply (index_length_exact d k ids Hd Hk). now apply idx_find_in.
Qed.
