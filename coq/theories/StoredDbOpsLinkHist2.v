(* StoredDbOpsLinkHist2.v — proofs (stored database, part 34): covered histories WITHOUT the restriction that a removed element
   has a property.  The fact the removal needs — the element's property vector is allocated in the file — is an invariant of
   the pair (database, witness): slots_ok d w = every existing element's slot of the DbKeyValues slot vector is <> 0.  Every
   covered query preserves it (every public insertion reserves capacity for the element it creates / works on; a removal frees
   the removed element's slot only; the graph's set of elements changes by exactly the created / removed element: from C08's
   simulation), so histories of covered queries (so_covered2: as so_covered, a removal needs no property) keep the database
   stored from any stored database with HInv and slots_ok. *)
From Coq Require Import Permutation.
From Agdb Require Import Bytes BytesProofs Utf8 Codec DbValue ValueIndex Graph DbModel Search Queries Revisions Records RecordsProofs
  Storage StorageSpec
  StorageLayout StorageWp StorageRefine StorageProofs Collections CollValues CollWp CollBytes CollVecBase CollVecOps CollVec CollVec2
  CollElems CollSep CollMap CollGraph CollValuesProofs StoredDb StoredDbRep StoredDbLoad StoredDbProofs StoredDbFrame StoredDbOps
  StoredDbOpsGraph StoredDbOpsGraph2 StoredDbOpsGraph3 StoredDbOpsGraph4 StoredDbOpsDb StoredDbOpsKv StoredDbOpsKv2 StoredDbOpsKv3
  StoredDbOpsKv4 StoredDbOpsDb2 StoredDbOpsDb3 StoredDbOpsQuery StoredDbOpsRemove StoredDbOpsWf StoredDbOpsLink StoredDbOpsLinkWf
  StoredDbOpsLinkHist StoredDbOpsLinkKv StoredDbOpsLinkSlots.
From Agdb Require GraphArr GraphSim GraphWf GraphSpec GraphProofs DbInvProofs QueryInvProofs HistoryAtomicProofs TraversalLiveProofs UndoGraph.
From Coq Require Import ZifyBool ZifyNat ZifyN.
Ltac Zify.zify_post_hook ::= Z.div_mod_to_equations.
Open Scope N_scope.
Arguments N.add : simpl never.
Arguments N.mul : simpl never.
Arguments N.sub : simpl never.
Arguments N.of_nat : simpl never.
Arguments N.to_nat : simpl never.
Arguments N.eqb : simpl never.
Arguments N.ltb : simpl never.
Arguments N.leb : simpl never.
Arguments N.div : simpl never.

(* ---------------- the set of elements changes by the created / removed element only ---------------- *)
Lemma gi_insert_node g x :
  GraphSim.wf g -> graph_index (snd (insert_node g)) x = true -> graph_index g x = true \/ x = fst (insert_node g).
Proof.
  intros [a [fl HS]] Hx. pose proof (GraphProofs.insert_node_sim g a fl HS) as H.
  destruct (insert_node g) as [n g']. destruct H as (Hp & _ & _ & _ & S1). cbn [fst snd] in *.
  apply (GraphSpec.sim_graph_index _ _ _ S1) in Hx. cbn [GraphSim.a_nodes GraphSim.a_edges] in Hx.
  destruct Hx as [[P [E|I]]|[P I]].
  - right. symmetry. exact E.
  - left. apply (GraphSpec.sim_graph_index _ _ _ HS). left. split; assumption.
  - left. apply (GraphSpec.sim_graph_index _ _ _ HS). right. split; assumption.
Qed.

Lemma gi_insert_edge g f t e g' x :
  GraphSim.wf g -> (0 <= f)%Z -> (0 <= t)%Z -> insert_edge g f t = Some (e, g') ->
  graph_index g' x = true -> graph_index g x = true \/ x = e.
Proof.
  intros [a [fl HS]] Hf Ht E Hx.
  destruct (GraphSpec.gstep_sim g a fl (GraphSpec.GInsertEdge f t) HS (conj Hf Ht)) as [g1 [out [a1 [fl1 [E1 [A1 S1]]]]]].
  cbn [GraphSpec.gstep] in E1. rewrite E in E1. injection E1 as <- <-.
  cbn [GraphSpec.astep] in A1. destruct (_ && _) in A1; [|discriminate]. injection A1 as <-.
  apply (GraphSpec.sim_graph_index _ _ _ S1) in Hx. cbn [GraphSim.a_nodes GraphSim.a_edges map GraphSim.eslot fst] in Hx.
  destruct Hx as [[P I]|[P [E0|I]]].
  - left. apply (GraphSpec.sim_graph_index _ _ _ HS). left. split; assumption.
  - right. lia.
  - left. apply (GraphSpec.sim_graph_index _ _ _ HS). right. split; assumption.
Qed.

Lemma node_edge_slots g x y :
  GraphSim.wf g -> is_node g x = true -> is_edge g y = true -> zabs_nat x <> zabs_nat y.
Proof.
  intros W Nx Ey E. pose proof (GraphWf.wf_node_edge_disjoint g x W Nx) as D.
  rewrite <- GraphProofs.is_edge_abs in D, Ey. replace (Z.abs y) with (Z.abs x) in Ey by (unfold zabs_nat in E; lia). congruence.
Qed.

Lemma graph_index_cases g x :
  graph_index g x = true -> ((0 < x)%Z /\ is_node g x = true) \/ ((x < 0)%Z /\ is_edge g x = true).
Proof.
  unfold graph_index. destruct (Z.ltb_spec x 0) as [L|L]; [intros H; right; split; assumption|].
  destruct (Z.ltb_spec 0 x) as [P|P]; [intros H; left; split; assumption|discriminate].
Qed.

Lemma gi_remove_edge g e g' x :
  GraphSim.wf g -> (e < 0)%Z -> is_edge g e = true -> remove_edge g e = Some g' ->
  graph_index g' x = true -> graph_index g x = true /\ zabs_nat x <> zabs_nat e.
Proof.
  intros W He Ie E Hx. pose proof W as [a [fl HS]].
  destruct (GraphSpec.gstep_sim g a fl (GraphSpec.GRemoveEdge e) HS) as [g1 [out [a1 [fl1 [E1 [A1 S1]]]]]]; [cbn; lia|].
  cbn [GraphSpec.gstep] in E1. rewrite E in E1. injection E1 as <- <-.
  cbn [GraphSpec.astep] in A1. injection A1 as <-.
  apply (GraphSpec.sim_graph_index _ _ _ S1) in Hx. cbn [GraphSim.a_nodes GraphSim.a_edges] in Hx.
  destruct Hx as [[P I]|[P I]].
  - assert (G : graph_index g x = true) by (apply (GraphSpec.sim_graph_index _ _ _ HS); left; split; assumption).
    split; [exact G|]. destruct (graph_index_cases g x G) as [[_ Nx]|[X _]]; [|lia].
    eapply node_edge_slots; eassumption.
  - rewrite GraphSim.map_eslot_remE in I. apply GraphArr.in_zrem in I. destruct I as [I Hne].
    split; [apply (GraphSpec.sim_graph_index _ _ _ HS); right; split; assumption|unfold zabs_nat; lia].
Qed.

Lemma gi_remove_node g n g' x :
  GraphSim.wf g -> (0 < n)%Z -> is_node g n = true -> remove_node g n = Some g' ->
  graph_index g' x = true -> graph_index g x = true /\ zabs_nat x <> zabs_nat n.
Proof.
  intros W Hn Nn E Hx. pose proof W as [a [fl HS]].
  destruct (GraphSpec.gstep_sim g a fl (GraphSpec.GRemoveNode n) HS) as [g1 [out [a1 [fl1 [E1 [A1 S1]]]]]]; [cbn; lia|].
  cbn [GraphSpec.gstep] in E1. rewrite E in E1. injection E1 as <- <-.
  cbn [GraphSpec.astep] in A1. injection A1 as <-.
  apply (GraphSpec.sim_graph_index _ _ _ S1) in Hx. cbn [GraphSim.a_nodes GraphSim.a_edges] in Hx.
  destruct Hx as [[P I]|[P I]].
  - apply GraphArr.in_zrem in I. destruct I as [I Hne].
    split; [apply (GraphSpec.sim_graph_index _ _ _ HS); left; split; assumption|unfold zabs_nat; lia].
  - apply in_map_iff in I. destruct I as [y [Ey Iy]]. apply filter_In in Iy. destruct Iy as [Iy _].
    assert (G : graph_index g x = true).
    { apply (GraphSpec.sim_graph_index _ _ _ HS). right. split; [exact P|]. rewrite <- Ey. apply in_map. exact Iy. }
    split; [exact G|]. destruct (graph_index_cases g x G) as [[X _]|[_ Ex]]; [lia|].
    intros E0. eapply (node_edge_slots g n x W Nn Ex). symmetry. exact E0.
Qed.

(* ---------------- the graph of the results ---------------- *)
Lemma gr_mq_insert_key_values id l : forall d, gr (mq_insert_key_values d id l) = gr d.
Proof. unfold mq_insert_key_values. induction l as [|x t IH]; intros d; cbn [fold_left]; [reflexivity|]. rewrite IH. reflexivity. Qed.

Lemma gr_mq_insert_or_replace_key_values id l : forall d, gr (mq_insert_or_replace_key_values d id l) = gr d.
Proof.
  unfold mq_insert_or_replace_key_values. induction l as [|x t IH]; intros d; cbn [fold_left]; [reflexivity|]. rewrite IH.
  unfold insert_or_replace_key_value. destruct (kvs_insert_or_replace (vals d) id x) as [[old|] s]; reflexivity.
Qed.

Lemma link_gr rv d q d1 n els :
  is_mutating q = true -> exec_mut_step rv d q = StOk d1 (n, els) -> gr (fst (Queries.exec rv d q)) = gr d1.
Proof. intros M E. rewrite (exec_of_step rv d q d1 n els M E). reflexivity. Qed.

(* ---------------- the invariant of (database, witness) ---------------- *)
Definition slots_ok (d : db) (w : sd_wit) : Prop :=
  forall id, graph_index (gr d) id = true -> nth (zabs_nat id) (sw_vi w) 0 <> 0.

Definition so_covered2 (d : db) (c : so_cq) : Prop :=
  match c with
  | CqRemove id =>
    so_cap_ok d /\
    (forall x, In x (kvs_get (vals d) id) -> idx_find (indexes d) (fst x) = None) /\
    ((id < 0)%Z /\ is_edge (gr d) id = true \/
     (0 < id)%Z /\ is_node (gr d) id = true /\ imap_key (aliases d) id = None /\ from (gr d) id = 0%Z /\ to (gr d) id = 0%Z)
  | _ => so_covered d c
  end.

Lemma so_covered_covered2 d c : so_covered d c -> so_covered2 d c.
Proof. destruct c; cbn [so_covered2]; try (intros H; exact H). intros (C & _ & H1 & H2). auto. Qed.

Section Step2.
  Variable fl : bool.
  Variable rv : revision.

  Definition so_post2 (root : N) (d : db) (w : sd_wit) (sp : spec) (c : so_cq) (r : cres (so_db * option Z)) (sp' : spec) : Prop :=
    exists h' w', r = CrOk (h', cq_out (snd (Queries.exec rv d (cq_query c)))) /\
                  stored_db_w (hp sp') root (fst (Queries.exec rv d (cq_query c))) w' /\ so_handles h' w' /\
                  slots_ok (fst (Queries.exec rv d (cq_query c))) w' /\
                  sdepth sp' = sdepth sp /\ frame (hp sp) (hp sp') (sd_foot root w) (sd_foot root w').

  Theorem so_cq_stored2 root d w h c sp :
    stored_db_w (hp sp) root d w -> so_handles h w -> GraphSim.wf (gr d) -> slots_ok d w -> so_covered2 d c ->
    cwp fl (cq_run h c) sp (so_post2 root d w sp c).
  Proof.
    intros H Hh W SO Hc2.
    assert (Hcap : (capacity (gr d) < 1152921504606846976)%Z) by (destruct c; cbn [so_covered2] in Hc2; apply Hc2).
    pose proof (wf_so_graph_ok _ W Hcap) as OK.
    destruct c as [l|id l|f t|id]; cbn [cq_run cq_query so_covered2] in *.
    - (* insert node *)
      destruct Hc2 as [_ Hc]. cbv zeta in Hc. destruct (wf_new_ids_ok _ W Hcap) as [Hix _].
      assert (Hix' : so_index_ok (cg_as_u64 (fst (insert_node_db d)))).
      { unfold insert_node_db. destruct (insert_node (gr d)) as [i g1]. cbn [fst] in *. exact Hix. }
      apply cwp_bind. eapply cwp_mono; [|eapply (so_q_insert_node_stored' fl); [exact H|exact Hh|exact OK|exact Hix'|exact Hc]].
      intros r sp' (h' & w' & -> & H' & Hh' & D' & F' & [K A]). cbn [kont cwp fst snd].
      destruct (link_post rv d (lq_insert_node l) _ _ _ eq_refl (step_insert_node rv d l)) as [R S].
      unfold so_post2. cbn [cq_query]. exists h', w'. unfold cq_out. rewrite R. split; [reflexivity|]. split; [apply S; exact H'|]. split; [exact Hh'|].
      split; [|split; assumption].
      intros x Hx. rewrite (link_gr rv d (lq_insert_node l) _ _ _ eq_refl (step_insert_node rv d l)) in Hx.
      rewrite gr_mq_insert_key_values in Hx. unfold reserve_kv in Hx. cbn [with_vals gr] in Hx.
      unfold insert_node_db in Hx, A. destruct (insert_node (gr d)) as [i g1] eqn:EI. cbn [fst snd push_undo with_gr gr] in Hx, A.
      assert (Hx' : graph_index (snd (insert_node (gr d))) x = true) by (rewrite EI; exact Hx).
      destruct (gi_insert_node _ _ W Hx') as [G|E]; [apply K, SO, G|]. rewrite EI in E. cbn [fst] in E. subst x. exact A.
    - (* insert values *)
      destruct Hc2 as [_ [G Hkv]].
      apply cwp_bind. eapply cwp_mono; [|eapply (so_q_insert_values_stored' fl); [exact H|exact Hh|eapply graph_index_ok; eassumption|exact Hkv]].
      intros r sp' (h' & w' & -> & H' & Hh' & D' & F' & [K A]). cbn [kont cwp].
      destruct (link_post rv d (lq_insert_values id l) _ _ _ eq_refl (step_insert_values rv d id l G)) as [R S].
      unfold so_post2. cbn [cq_query]. exists h', w'. unfold cq_out. rewrite R. split; [reflexivity|]. split; [apply S; exact H'|]. split; [exact Hh'|].
      split; [|split; assumption].
      intros x Hx. rewrite (link_gr rv d (lq_insert_values id l) _ _ _ eq_refl (step_insert_values rv d id l G)) in Hx.
      rewrite gr_mq_insert_or_replace_key_values in Hx. apply K, SO, Hx.
    - (* insert edge *)
      destruct Hc2 as [_ (Pf & Pt & [[Nf Nt]|[Hn U]])].
      + destruct (wf_new_ids_ok _ W Hcap) as [_ Hix].
        assert (E : exists G', insert_edge (gr d) f t = Some ((- fst (get_free_index (gr d)))%Z, G')).
        { unfold insert_edge. rewrite Nf, Nt. cbn [andb]. destruct (get_free_index (gr d)) as [slot g1]. eexists. reflexivity. }
        destruct E as [G' EI]. set (e := (- fst (get_free_index (gr d)))%Z) in *.
        assert (ED : insert_edge_db d f t = DbModel.ROk (e, push_undo (with_gr d G') (CRemoveEdge e))).
        { unfold insert_edge_db. rewrite EI. reflexivity. }
        assert (Gf : graph_index (gr d) f = true).
        { unfold graph_index. destruct (Z.ltb_spec f 0) as [X|_]; [lia|]. destruct (Z.ltb_spec 0 f) as [_|X]; [exact Nf|lia]. }
        assert (Gt : graph_index (gr d) t = true).
        { unfold graph_index. destruct (Z.ltb_spec t 0) as [X|_]; [lia|]. destruct (Z.ltb_spec 0 t) as [_|X]; [exact Nt|lia]. }
        eapply cwp_mono; [|eapply (so_q_insert_edge_stored' fl); [exact H|exact Hh|exact OK|apply wf_so_edge_ok; assumption|exact ED|exact Hix]].
        intros r sp' (h' & w' & -> & H' & Hh' & D' & F' & [K A]).
        destruct (link_post rv d (lq_insert_edge f t) _ _ _ eq_refl (step_insert_edge rv d f t e _ Gf Gt ED)) as [R S].
        unfold so_post2. cbn [cq_query]. exists h', w'. unfold cq_out. rewrite R. split; [reflexivity|]. split; [apply S; exact H'|]. split; [exact Hh'|].
        split; [|split; assumption].
        intros x Hx. rewrite (link_gr rv d (lq_insert_edge f t) _ _ _ eq_refl (step_insert_edge rv d f t e _ Gf Gt ED)) in Hx.
        unfold reserve_kv in Hx. cbn [with_vals push_undo with_gr gr] in Hx.
        destruct (gi_insert_edge _ f t e G' x W) as [G|E0]; [lia|lia|exact EI|exact Hx|apply K, SO, G|]. subst x. exact A.
      + eapply cwp_mono; [|eapply (so_exec_insert_edge_rejected_stored fl rv); [exact H|exact Hh|exact OK|exact Pf|exact Pt|exact Hn|exact U]].
        intros r sp' (-> & R & Ed & H' & D' & F').
        unfold so_post2. cbn [cq_query]. exists h, w. unfold cq_out. rewrite R, Ed. auto 10.
    - (* remove *)
      destruct Hc2 as (_ & Hnix & [[He Ie]|(Hn & Nn & Al & Ef & Et)]).
      + assert (Gid : graph_index (gr d) id = true).
        { unfold graph_index. destruct (Z.ltb_spec id 0) as [_|X]; [exact Ie|lia]. }
        apply cwp_bind. eapply cwp_mono; [|eapply (so_q_remove_edge_stored' fl);
            [exact H|exact Hh|exact He|exact OK|apply wf_so_remove_edge_ok; assumption|right; apply SO; exact Gid|exact Hnix]].
        intros r sp' (G' & EG & h' & w' & -> & H' & Hh' & D' & F' & K). cbn [kont cwp].
        destruct (link_post rv d (lq_remove id) _ _ _ eq_refl (step_remove_edge rv d id G' He Ie EG)) as [R S].
        unfold so_post2. cbn [cq_query]. exists h', w'. unfold cq_out. rewrite R. split; [reflexivity|]. split; [apply S; exact H'|]. split; [exact Hh'|].
        split; [|split; assumption].
        intros x Hx. rewrite (link_gr rv d (lq_remove id) _ _ _ eq_refl (step_remove_edge rv d id G' He Ie EG)) in Hx.
        unfold remove_edge_db in Hx. rewrite EG in Hx. cbn [fst] in Hx.
        destruct (remove_all_values_fields (push_undo (with_gr d G') (CInsertEdge (edge_from (gr d) id) (edge_to (gr d) id))) id Hnix) as (E1 & _).
        rewrite E1 in Hx. cbn [push_undo with_gr gr] in Hx.
        destruct (gi_remove_edge _ id G' x W He Ie EG Hx) as [G Hne]. apply K; [exact Hne|apply SO, G].
      + assert (Gid : graph_index (gr d) id = true).
        { unfold graph_index. destruct (Z.ltb_spec id 0) as [X|_]; [lia|]. destruct (Z.ltb_spec 0 id) as [_|X]; [exact Nn|lia]. }
        destruct (GraphWf.wf_remove_node _ id W) as [G' [EG _]]; [lia|].
        apply cwp_bind. eapply cwp_mono; [|eapply (so_q_remove_isolated_node_stored' fl);
            [exact H|exact Hh|exact Hn|exact OK|exact Nn|exact Ef|exact Et|eapply wf_node_count_pos; eassumption
            |right; apply SO; exact Gid|exact Hnix]].
        intros r sp' (Er & h' & w' & -> & H' & Hh' & D' & F' & K). cbn [kont cwp].
        destruct (link_post rv d (lq_remove id) _ _ _ eq_refl (step_remove_isolated_node rv d id Hn Nn Al Er)) as [R S].
        unfold so_post2. cbn [cq_query]. exists h', w'. unfold cq_out. rewrite R. split; [reflexivity|]. split; [apply S; exact H'|]. split; [exact Hh'|].
        split; [|split; assumption].
        intros x Hx. rewrite (link_gr rv d (lq_remove id) _ _ _ eq_refl (step_remove_isolated_node rv d id Hn Nn Al Er)) in Hx.
        assert (ER : remove_node_db d id None = (push_undo (with_gr d G') CInsertNode, None)).
        { unfold remove_node_db. rewrite Nn. cbn [negb]. rewrite (node_edges_isolated d id Ef Et). cbn [fold_left]. rewrite EG. reflexivity. }
        rewrite ER in Hx. cbn [fst] in Hx.
        destruct (remove_all_values_fields (push_undo (with_gr d G') CInsertNode) id Hnix) as (E1 & _).
        rewrite E1 in Hx. cbn [push_undo with_gr gr] in Hx.
        destruct (gi_remove_node _ id G' x W Hn Nn EG Hx) as [G Hne]. apply K; [exact Hne|apply SO, G].
  Qed.

  Lemma covered_peak2 d c :
    GraphSim.wf (gr d) -> so_covered2 d c ->
    gr (fst (exec_in_txn rv d (cq_query c))) = gr (fst (Queries.exec rv d (cq_query c))).
  Proof.
    intros W Hc. destruct c as [l|id l|f t|id];
      [apply (covered_peak rv d (CqInsertNode l) W Hc)|apply (covered_peak rv d (CqInsertValues id l) W Hc)|apply (covered_peak rv d (CqInsertEdge f t) W Hc)|].
    cbn [so_covered2 cq_query] in *. destruct Hc as (_ & _ & [[He Ie]|(Hn & Nn & Al & Ef & Et)]).
    - destruct (GraphWf.wf_remove_edge _ id W) as [G' [EG _]]; [lia|]. eapply exec_peak; [reflexivity|]. eapply step_remove_edge; eassumption.
    - destruct (GraphWf.wf_remove_node _ id W) as [G' [EG _]]; [lia|]. eapply exec_peak; [reflexivity|]. apply step_remove_isolated_node; try assumption.
      unfold remove_node_db. rewrite Nn. cbn [negb]. rewrite (node_edges_isolated d id Ef Et). cbn [fold_left]. rewrite EG. reflexivity.
  Qed.
End Step2.

(* ---------------- histories ---------------- *)
Fixpoint so_covered_all2 (rv : revision) (d : db) (l : list so_cq) : Prop :=
  match l with
  | [] => True
  | c :: t => so_covered2 d c /\ QueryInvProofs.query_ok (cq_query c) /\
              so_cap_ok (fst (Queries.exec rv d (cq_query c))) /\
              so_covered_all2 rv (fst (Queries.exec rv d (cq_query c))) t
  end.

Section Hist2.
  Variable fl : bool.

  Theorem so_cqs_stored2 root : forall l d w h sp,
    stored_db_w (hp sp) root d w -> so_handles h w -> HistoryAtomicProofs.HInv d -> slots_ok d w -> so_covered_all2 rv_fixed d l ->
    cwp fl (cq_runs h l) sp
        (fun r sp' => exists h' w', r = CrOk (h', snd (cq_model rv_fixed d l)) /\
                        stored_db_w (hp sp') root (fst (cq_model rv_fixed d l)) w' /\ so_handles h' w' /\
                        HistoryAtomicProofs.HInv (fst (cq_model rv_fixed d l)) /\ slots_ok (fst (cq_model rv_fixed d l)) w' /\
                        sdepth sp' = sdepth sp /\ frame (hp sp) (hp sp') (sd_foot root w) (sd_foot root w')).
  Proof.
    induction l as [|c t IH]; intros d w h sp H Hh HI SO OK; cbn [cq_runs cq_model so_covered_all2 fst snd] in *.
    - cbn [cwp]. exists h, w. repeat (split; [first [reflexivity|assumption]|]). apply frame_refl. intros j; reflexivity.
    - destruct OK as (Hc & Hq & Hcap' & OK'). pose proof HI as [[W _] _].
      assert (HI' : HistoryAtomicProofs.HInv (fst (Queries.exec rv_fixed d (cq_query c)))).
      { apply (HistoryAtomicProofs.item_atomic rv_fixed eq_refl eq_refl eq_refl eq_refl eq_refl TraversalLiveProofs.search_live_fixed
                 d (HistoryAtomicProofs.HQuery (cq_query c)) Hq HI).
        cbn [HistoryAtomicProofs.item_peak]. rewrite (covered_peak2 rv_fixed d c W Hc).
        unfold so_cap_ok in Hcap'. unfold UndoGraph.two63z. lia. }
      apply cwp_bind. eapply cwp_mono; [|eapply (so_cq_stored2 fl rv_fixed); eassumption].
      intros r sp1 (h1 & w1 & -> & H1 & Hh1 & SO1 & D1 & F1). cbn [kont fst snd].
      apply cwp_bind. eapply cwp_mono; [|eapply IH; eassumption].
      intros r2 sp2 (h2 & w2 & -> & H2 & Hh2 & HI2 & SO2 & D2 & F2). cbn [kont cwp fst snd].
      exists h2, w2. split; [reflexivity|]. split; [exact H2|]. split; [exact Hh2|]. split; [exact HI2|]. split; [exact SO2|].
      split; [congruence|]. eapply frame_trans; eassumption.
  Qed.
End Hist2.
