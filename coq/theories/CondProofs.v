(* CondProofs.v — C15: the SearchControl algebra, the modifiers, the comparison
   operators and the recursive condition evaluator of Search.v meet the DOCUMENTED
   semantics (agdb_web/content/docs/03.references/01.queries.md, "Conditions" and
   "Truth tables"), written here as an independent specification `DocSpec`. *)
From Agdb Require Import Bytes DbValue DbValueProofs Graph DbModel Search Revisions.
From Coq Require Import ZifyBool ZifyNat ZifyN.
Ltac Zify.zify_post_hook ::= Z.div_mod_to_equations.
Open Scope Z_scope.

(* ====================================================================== *)
(* The documented semantics                                               *)
(* ====================================================================== *)
Module DocSpec.

  (* "pub enum SearchControl { Continue(bool), Finish(bool), Stop(bool) }":
     a kind (what the traversal does) and a selection bit *)
  Inductive ckind := KContinue | KStop | KFinish.

  Definition mk (k : ckind) (b : bool) : sc :=
    match k with KContinue => Continue b | KStop => Stop b | KFinish => Finish b end.
  Definition kind_of (c : sc) : ckind :=
    match c with Continue _ => KContinue | Stop _ => KStop | Finish _ => KFinish end.

  Definition ckind_eqb (a b : ckind) : bool :=
    match a, b with
    | KContinue, KContinue | KStop, KStop | KFinish, KFinish => true
    | _, _ => false
    end.

  (* #### And — the six rows of the table, (Left, Right, Result); the table lists
     unordered pairs, the selection bit is `left && right` in every row *)
  Definition and_rows : list (ckind * ckind * ckind) :=
    [ (KContinue, KContinue, KContinue);
      (KContinue, KStop,     KStop);
      (KContinue, KFinish,   KFinish);
      (KStop,     KStop,     KStop);
      (KStop,     KFinish,   KFinish);
      (KFinish,   KFinish,   KFinish) ].

  (* #### Or — selection bit `left || right` in every row *)
  Definition or_rows : list (ckind * ckind * ckind) :=
    [ (KContinue, KContinue, KContinue);
      (KContinue, KStop,     KContinue);
      (KContinue, KFinish,   KContinue);
      (KStop,     KStop,     KStop);
      (KStop,     KFinish,   KStop);
      (KFinish,   KFinish,   KFinish) ].

  (* reading a table: the row whose unordered pair is {l, r} *)
  Fixpoint lookup (rows : list (ckind * ckind * ckind)) (l r : ckind) : option ckind :=
    match rows with
    | [] => None
    | (a, b, res) :: rest =>
        if (ckind_eqb a l && ckind_eqb b r) || (ckind_eqb a r && ckind_eqb b l) then Some res
        else lookup rest l r
    end.

  (* the default is never taken: both tables cover all unordered pairs (rows_complete) *)
  Definition doc_and (l r : sc) : sc :=
    match lookup and_rows (kind_of l) (kind_of r) with
    | Some k => mk k (sc_true l && sc_true r)
    | None => Finish false
    end.
  Definition doc_or (l r : sc) : sc :=
    match lookup or_rows (kind_of l) (kind_of r) with
    | Some k => mk k (sc_true l || sc_true r)
    | None => Finish false
    end.

  Definition doc_logic (lg : logic) : sc -> sc -> sc :=
    match lg with LAnd => doc_and | LOr => doc_or end.

  (* #### Modifiers
       | None      | -                   | -                |
       | Beyond    | `&& Continue(true)` | `Stop(true)`     |
       | Not       | `!`                 | `!`              |
       | NotBeyond | `&& Stop(true)`     | `Continue(true)` |
     "Beyond / NotBeyond control traversal only, do not affect element selection":
     the modified condition contributes the selection bit that is neutral for the
     logic operator it is chained with (`true` for And — as the table writes it —
     and `false` for Or).  The start element of the search (distance 0) is exempt
     from Beyond (the documented examples `search().from(user).where_().neighbor()
     .and().beyond().keys("authored")` start at an element that does not pass). *)
  Definition neutral (lg : logic) : bool := match lg with LAnd => true | LOr => false end.

  Definition doc_modifier (md : modifier) (lg : logic) (distance : Z) (c : sc) : sc :=
    match md with
    | MNone => c
    | MNot => mk (kind_of c) (negb (sc_true c))
    | MBeyond => if sc_true c || (distance =? 0) then Continue (neutral lg) else Stop (neutral lg)
    | MNotBeyond => if sc_true c then Stop (neutral lg) else Continue (neutral lg)
    end.

  (* #### Results — which conditions may yield Stop *)
  Definition may_stop (c : cond_data) : bool :=
    match c with CWhere _ | CDistance _ => true | _ => false end.

  (* "The condition comparators are type strict ... do not perform type conversions nor
     coercion"; "slight exception ... Contains allows vectorized version of the base type ...
     StartsWith and EndsWith are provided with the same semantics (both single value and
     vectorized and vice versa)".  Kinds: 0 bytes, 1 i64, 2 u64, 3 f64, 4 string,
     5 vec<i64>, 6 vec<u64>, 7 vec<f64>, 8 vec<string>. *)
  Definition cross_kind_pairs : list (N * N) :=
    [ (4, 8); (5, 1); (6, 2); (7, 3); (8, 4) ]%N.
  Definition container_pairs : list (N * N) :=
    [ (4, 4); (5, 5); (6, 6); (7, 7); (8, 8) ]%N ++ cross_kind_pairs.

  Definition pair_in (ps : list (N * N)) (l r : dbvalue) : bool :=
    existsb (fun p => (fst p =? kind l)%N && (snd p =? kind r)%N) ps.

  Definition doc_compare (op : comparison_op) (l r : dbvalue) : bool :=
    let eq := same_kind l r && is_eq (dbv_cmp l r) in
    let lt := same_kind l r && is_lt (dbv_cmp l r) in
    let gt := same_kind l r && is_gt (dbv_cmp l r) in
    match op with
    | CEqual => eq
    | CNotEqual => negb eq
    | CGreaterThan => gt
    | CGreaterThanOrEqual => gt || eq
    | CLessThan => lt
    | CLessThanOrEqual => lt || eq
    | CContains => pair_in container_pairs l r && contains_cmp l r
    | CStartsWith => pair_in container_pairs l r && starts_cmp l r
    | CEndsWith => pair_in container_pairs l r && ends_cmp l r
    end.

  (* Distance: "if the current distance of the search satisfies the numerical comparison";
     it "can limit the depth of the search": Stop once no greater distance can satisfy it *)
  Definition doc_distance (c : count_cmp) (dist : Z) : sc :=
    match c with
    | KEqual n => if dist <? n then Continue false else Stop (dist =? n)
    | KLessThan n => if dist <? n then Continue true else Stop false
    | KLessThanOrEqual n => if dist <=? n then Continue true else Stop false
    | _ => Continue (count_compare c dist)
    end.

  Section Eval.
    Variable d : db.
    Variables index distance : Z.

    (* the per-condition prose of the list "The currently supported conditions are" *)
    Fixpoint doc_eval_data (c : cond_data) : sc :=
      match c with
      | CDistance v => doc_distance v distance
      | CEdge => Continue (index <? 0)
      | CNode => Continue (0 <? index)
      | CEdgeCount v =>
          Continue (is_node (gr d) index
                    && count_compare v (edge_count_from (gr d) index + edge_count_to (gr d) index))
      | CEdgeCountFrom v => Continue (is_node (gr d) index && count_compare v (edge_count_from (gr d) index))
      | CEdgeCountTo v => Continue (is_node (gr d) index && count_compare v (edge_count_to (gr d) index))
      | CIds ids => Continue (ids_match d index ids)
      | CKeyValue key op value =>
          Continue (match kvs_value (vals d) index key with
                    | Some v => doc_compare op v value
                    | None => false
                    end)
      | CKeys keys =>
          Continue (forallb (fun k => existsb (fun p : kv => dbv_eqb k (fst p)) (kvs_get (vals d) index)) keys)
      | CWhere conds =>
          (* "applied one at a time ... chained using logic operators", "the starting/default
             value being always Continue(true)" *)
          fold_left (fun result c =>
                       match c with
                       | Cond lg md data => doc_logic lg result (doc_modifier md lg distance (doc_eval_data data))
                       end) conds (Continue true)
      end.

    Definition doc_eval (conds : list cond) : sc := doc_eval_data (CWhere conds).
  End Eval.
End DocSpec.
Import DocSpec.

(* ====================================================================== *)
(* Truth tables                                                           *)
(* ====================================================================== *)

Lemma rows_complete :
  forall l r : ckind, lookup and_rows l r <> None /\ lookup or_rows l r <> None.
Proof. intros [] []; split; discriminate. Qed.

Lemma sc_and_doc : forall l r : sc, sc_and l r = doc_and l r.
Proof. intros [[]|[]|[]] [[]|[]|[]]; reflexivity. Qed.

Lemma sc_or_doc : forall l r : sc, sc_or l r = doc_or l r.
Proof. intros [[]|[]|[]] [[]|[]|[]]; reflexivity. Qed.

(* row by row, in both orders *)
Lemma and_table_rows :
  forall k1 k2 k a b, In (k1, k2, k) and_rows ->
    sc_and (mk k1 a) (mk k2 b) = mk k (a && b) /\ sc_and (mk k2 b) (mk k1 a) = mk k (a && b).
Proof.
  intros k1 k2 k a b H. cbn [In and_rows] in H.
  repeat (destruct H as [H|H]; [inversion H; subst; destruct a, b; split; reflexivity|]).
  contradiction.
Qed.

Lemma or_table_rows :
  forall k1 k2 k a b, In (k1, k2, k) or_rows ->
    sc_or (mk k1 a) (mk k2 b) = mk k (a || b) /\ sc_or (mk k2 b) (mk k1 a) = mk k (a || b).
Proof.
  intros k1 k2 k a b H. cbn [In or_rows] in H.
  repeat (destruct H as [H|H]; [inversion H; subst; destruct a, b; split; reflexivity|]).
  contradiction.
Qed.

Lemma rows_cover :
  forall k1 k2, (exists k, In (k1, k2, k) and_rows \/ In (k2, k1, k) and_rows)
             /\ (exists k, In (k1, k2, k) or_rows \/ In (k2, k1, k) or_rows).
Proof.
  intros [] []; split; cbn [In and_rows or_rows];
    first [ exists KContinue; intuition congruence
          | exists KStop; intuition congruence
          | exists KFinish; intuition congruence ].
Qed.

Lemma sc_and_comm : forall l r, sc_and l r = sc_and r l.
Proof. intros [[]|[]|[]] [[]|[]|[]]; reflexivity. Qed.
Lemma sc_or_comm : forall l r, sc_or l r = sc_or r l.
Proof. intros [[]|[]|[]] [[]|[]|[]]; reflexivity. Qed.

Lemma sc_and_true : forall l r, sc_true (sc_and l r) = sc_true l && sc_true r.
Proof. intros [] []; reflexivity. Qed.
Lemma sc_or_true : forall l r, sc_true (sc_or l r) = sc_true l || sc_true r.
Proof. intros [] []; reflexivity. Qed.

Theorem and_table :
  (forall l r : sc, sc_and l r = doc_and l r) /\
  (forall k1 k2 k a b, In (k1, k2, k) and_rows ->
     sc_and (mk k1 a) (mk k2 b) = mk k (a && b) /\ sc_and (mk k2 b) (mk k1 a) = mk k (a && b)) /\
  (forall k1 k2, exists k, In (k1, k2, k) and_rows \/ In (k2, k1, k) and_rows) /\
  (forall l r : sc, sc_and l r = sc_and r l).
Proof.
  split; [exact sc_and_doc|]. split; [exact and_table_rows|]. split; [|exact sc_and_comm].
  intros k1 k2. exact (proj1 (rows_cover k1 k2)).
Qed.

Theorem or_table :
  (forall l r : sc, sc_or l r = doc_or l r) /\
  (forall k1 k2 k a b, In (k1, k2, k) or_rows ->
     sc_or (mk k1 a) (mk k2 b) = mk k (a || b) /\ sc_or (mk k2 b) (mk k1 a) = mk k (a || b)) /\
  (forall k1 k2, exists k, In (k1, k2, k) or_rows \/ In (k2, k1, k) or_rows) /\
  (forall l r : sc, sc_or l r = sc_or r l).
Proof.
  split; [exact sc_or_doc|]. split; [exact or_table_rows|]. split; [|exact sc_or_comm].
  intros k1 k2. exact (proj2 (rows_cover k1 k2)).
Qed.

(* ====================================================================== *)
(* The evaluator as a fold                                                *)
(* ====================================================================== *)

Definition cond_d (c : cond) : cond_data := match c with Cond _ _ d => d end.

(* induction principle for the nested mutual inductive cond_data / cond *)
Section CondInd.
  Variable P : cond_data -> Prop.
  Hypothesis HDistance : forall c, P (CDistance c).
  Hypothesis HEdge : P CEdge.
  Hypothesis HEdgeCount : forall c, P (CEdgeCount c).
  Hypothesis HEdgeCountFrom : forall c, P (CEdgeCountFrom c).
  Hypothesis HEdgeCountTo : forall c, P (CEdgeCountTo c).
  Hypothesis HIds : forall ids, P (CIds ids).
  Hypothesis HKeyValue : forall k op v, P (CKeyValue k op v).
  Hypothesis HKeys : forall ks, P (CKeys ks).
  Hypothesis HNode : P CNode.
  Hypothesis HWhere : forall conds, Forall (fun c => P (cond_d c)) conds -> P (CWhere conds).

  Fixpoint cond_data_ind' (c : cond_data) : P c :=
    match c with
    | CDistance v => HDistance v
    | CEdge => HEdge
    | CEdgeCount v => HEdgeCount v
    | CEdgeCountFrom v => HEdgeCountFrom v
    | CEdgeCountTo v => HEdgeCountTo v
    | CIds ids => HIds ids
    | CKeyValue k op v => HKeyValue k op v
    | CKeys ks => HKeys ks
    | CNode => HNode
    | CWhere conds =>
        HWhere conds
          ((fix all (l : list cond) : Forall (fun c => P (cond_d c)) l :=
              match l with
              | [] => Forall_nil _
              | x :: r =>
                  Forall_cons x
                    (match x return P (cond_d x) with Cond _ _ dd => cond_data_ind' dd end)
                    (all r)
              end) conds)
    end.
End CondInd.

(* the modifier step of evaluate_conditions, as the code writes it *)
Definition mod_control (md : modifier) (distance : Z) (result control0 : sc) : sc :=
  match md with
  | MBeyond => if sc_true control0 || (distance =? 0) then Continue (sc_true result)
               else Stop (sc_true result)
  | MNot => sc_flip control0
  | MNotBeyond => if sc_true control0 then Stop (sc_true result) else Continue (sc_true result)
  | MNone => control0
  end.

Definition sc_logic (lg : logic) : sc -> sc -> sc :=
  match lg with LAnd => sc_and | LOr => sc_or end.

(* one iteration of the loop of evaluate_conditions *)
Definition step_result (lg : logic) (md : modifier) (distance : Z) (result control0 : sc) : sc :=
  sc_logic lg result (mod_control md distance result control0).

Lemma eval_where_fold rv d index distance conds :
  eval_data rv d index distance (CWhere conds) =
  fold_left (fun result c =>
               match c with
               | Cond lg md data => step_result lg md distance result (eval_data rv d index distance data)
               end) conds (Continue true).
Proof.
  cbn [eval_data]. generalize (Continue true) as result.
  induction conds as [|[lg md data] r IH]; intros result; [reflexivity|].
  cbn [fold_left]. rewrite <- IH. destruct lg; reflexivity.
Qed.

(* ====================================================================== *)
(* Condition evaluation never yields Finish; the "Results" table          *)
(* ====================================================================== *)

Lemma compare_distance_kind c dist : kind_of (compare_distance c dist) <> KFinish.
Proof. destruct c; cbn [compare_distance]; destruct (dist ?= n); discriminate. Qed.

Lemma step_result_no_finish lg md distance result c0 :
  kind_of result <> KFinish -> kind_of c0 <> KFinish ->
  kind_of (step_result lg md distance result c0) <> KFinish.
Proof.
  unfold step_result, mod_control.
  destruct lg, md, result as [a|a|a], c0 as [b|b|b]; cbn [kind_of]; intros H1 H2; try congruence;
    cbn [sc_true sc_flip orb]; try discriminate;
    try (destruct b; cbn [orb]; try discriminate; destruct (distance =? 0); discriminate).
Qed.

Lemma eval_no_finish_data rv d index distance :
  forall c, kind_of (eval_data rv d index distance c) <> KFinish.
Proof.
  induction c as [v| |v|v|v|ids|k op v|ks| |conds IH] using cond_data_ind';
    try (cbn [eval_data kind_of]; discriminate).
  - cbn [eval_data]. apply compare_distance_kind.
  - rewrite eval_where_fold.
    assert (H0 : kind_of (Continue true) <> KFinish) by discriminate.
    revert H0. generalize (Continue true) as result.
    induction IH as [|[lg md data] r Hx _ IHr]; intros result Hres; [exact Hres|].
    cbn [fold_left]. apply IHr. apply step_result_no_finish; [exact Hres|exact Hx].
Qed.

Theorem no_finish rv d index distance conds :
  forall b, eval_conditions rv d index distance conds <> Finish b.
Proof.
  intros b E. apply (eval_no_finish_data rv d index distance (CWhere conds)).
  unfold eval_conditions in E. rewrite E. reflexivity.
Qed.

(* the "Results" table: only Distance and Where may yield Stop, nothing yields Finish *)
Theorem result_table rv d index distance c :
  kind_of (eval_data rv d index distance c) = KContinue \/
  (may_stop c = true /\ kind_of (eval_data rv d index distance c) = KStop).
Proof.
  pose proof (eval_no_finish_data rv d index distance c) as NF.
  destruct c; try (left; reflexivity);
    (destruct (eval_data rv d index distance _) eqn:E; cbn [kind_of] in *;
     [left; reflexivity | congruence | right; split; reflexivity]).
Qed.

(* both columns of the table are inhabited for Distance and Where *)
Lemma result_table_stop_witness rv d :
  eval_data rv d 1 3 (CDistance (KLessThan 2)) = Stop false /\
  eval_data rv d 1 3 (CWhere [Cond LAnd MNone (CDistance (KEqual 3))]) = Stop true /\
  eval_data rv d 1 3 (CWhere [Cond LAnd MNotBeyond CNode]) = Stop true.
Proof. repeat split. Qed.

(* ====================================================================== *)
(* Modifiers                                                              *)
(* ====================================================================== *)

(* Beyond / NotBeyond never change the selection bit of the accumulated result *)
Lemma modifiers_selection lg md distance result c0 :
  md = MBeyond \/ md = MNotBeyond ->
  sc_true (step_result lg md distance result c0) = sc_true result.
Proof.
  intros [->| ->]; unfold step_result, mod_control;
    destruct lg; cbn [sc_logic]; rewrite ?sc_and_true, ?sc_or_true;
    destruct (sc_true c0), (distance =? 0); cbn [orb sc_true];
    destruct (sc_true result); reflexivity.
Qed.

(* what they do to the traversal: under And a result that would continue is turned into
   Stop exactly when the Beyond-condition fails (not at the start element) / the
   NotBeyond-condition passes; otherwise the accumulated result is unchanged.  Under Or the
   documented table makes `x || Continue = Continue` and `x || Stop = x`: a passing Beyond /
   failing NotBeyond condition re-opens the traversal, the other outcome changes nothing. *)
Definition stop_and (result : sc) : sc :=
  match result with Continue b => Stop b | other => other end.

Lemma modifiers_control_and distance result c0 :
  step_result LAnd MBeyond distance result c0 =
    (if sc_true c0 || (distance =? 0) then result else stop_and result) /\
  step_result LAnd MNotBeyond distance result c0 =
    (if sc_true c0 then stop_and result else result).
Proof.
  unfold step_result, mod_control; cbn [sc_logic];
    destruct (sc_true c0), (distance =? 0), result as [[]|[]|[]]; split; reflexivity.
Qed.

Lemma modifiers_control_or distance result c0 :
  kind_of result <> KFinish ->
  step_result LOr MBeyond distance result c0 =
    (if sc_true c0 || (distance =? 0) then Continue (sc_true result) else result) /\
  step_result LOr MNotBeyond distance result c0 =
    (if sc_true c0 then result else Continue (sc_true result)).
Proof.
  unfold step_result, mod_control; cbn [sc_logic];
    destruct (sc_true c0), (distance =? 0), result as [[]|[]|[]]; cbn [kind_of]; intros H;
    try congruence; split; reflexivity.
Qed.

(* the start element is exempt from Beyond *)
Lemma beyond_distance_0 result c0 :
  step_result LAnd MBeyond 0 result c0 = result /\
  step_result LOr MBeyond 0 result c0 = Continue (sc_true result).
Proof.
  unfold step_result, mod_control. rewrite Z.eqb_refl, orb_true_r.
  destruct result as [[]|[]|[]]; split; reflexivity.
Qed.

(* the code's modifier step agrees with the documented modifier table *)
Lemma sc_logic_doc lg l r : sc_logic lg l r = doc_logic lg l r.
Proof. destruct lg; [apply sc_and_doc|apply sc_or_doc]. Qed.

Lemma step_result_doc lg md distance result c0 :
  step_result lg md distance result c0 = doc_logic lg result (doc_modifier md lg distance c0).
Proof.
  rewrite <- sc_logic_doc. unfold step_result, mod_control, doc_modifier.
  destruct md; [reflexivity| | |].
  - destruct (sc_true c0 || (distance =? 0)), lg, result as [[]|[]|[]]; reflexivity.
  - destruct c0; reflexivity.
  - destruct (sc_true c0), lg, result as [[]|[]|[]]; reflexivity.
Qed.

Theorem modifiers :
  (* selection is never affected *)
  (forall lg md distance result c0, md = MBeyond \/ md = MNotBeyond ->
     sc_true (step_result lg md distance result c0) = sc_true result) /\
  (* traversal, chained with And *)
  (forall distance result c0,
     step_result LAnd MBeyond distance result c0 =
       (if sc_true c0 || (distance =? 0) then result else stop_and result) /\
     step_result LAnd MNotBeyond distance result c0 =
       (if sc_true c0 then stop_and result else result)) /\
  (* traversal, chained with Or *)
  (forall distance result c0, kind_of result <> KFinish ->
     step_result LOr MBeyond distance result c0 =
       (if sc_true c0 || (distance =? 0) then Continue (sc_true result) else result) /\
     step_result LOr MNotBeyond distance result c0 =
       (if sc_true c0 then result else Continue (sc_true result))) /\
  (* the start element *)
  (forall result c0, step_result LAnd MBeyond 0 result c0 = result /\
                     step_result LOr MBeyond 0 result c0 = Continue (sc_true result)) /\
  (* Not reverses the selection result and nothing else *)
  (forall lg distance result c0,
     step_result lg MNot distance result c0 = sc_logic lg result (mk (kind_of c0) (negb (sc_true c0)))) /\
  (* the documented modifier table *)
  (forall lg md distance result c0,
     step_result lg md distance result c0 = doc_logic lg result (doc_modifier md lg distance c0)).
Proof.
  split; [exact modifiers_selection|]. split; [exact modifiers_control_and|].
  split; [exact modifiers_control_or|]. split; [exact beyond_distance_0|].
  split; [|exact step_result_doc].
  intros lg distance result c0. unfold step_result, mod_control. destruct c0; reflexivity.
Qed.

(* ====================================================================== *)
(* Type strictness of the comparison operators                            *)
(* ====================================================================== *)

Lemma dbv_eqb_same_kind l r : dbv_eqb l r = true -> same_kind l r = true.
Proof.
  unfold dbv_eqb, same_kind. intros H.
  destruct (dbv_cmp l r) eqn:E; try discriminate. apply dbv_cmp_eq_kind in E. rewrite E. apply N.eqb_refl.
Qed.

Lemma value_compare_doc op l r : value_compare true op l r = doc_compare op l r.
Proof.
  unfold value_compare, doc_compare. cbn [negb orb].
  destruct op.
  - unfold dbv_eqb. destruct (same_kind l r) eqn:K; [reflexivity|].
    destruct (is_eq (dbv_cmp l r)) eqn:E; [|reflexivity].
    apply dbv_eqb_same_kind in E. congruence.
  - reflexivity.
  - unfold dbv_eqb. destruct (same_kind l r), (dbv_cmp l r); reflexivity.
  - reflexivity.
  - unfold dbv_eqb. destruct (same_kind l r), (dbv_cmp l r); reflexivity.
  - unfold dbv_eqb. destruct (same_kind l r) eqn:K; [reflexivity|].
    destruct (is_eq (dbv_cmp l r)) eqn:E; [|reflexivity].
    apply dbv_eqb_same_kind in E. congruence.
  - destruct l, r; reflexivity.
  - destruct l, r; reflexivity.
  - destruct l, r; reflexivity.
Qed.

Lemma ordering_same_kind op l r :
  In op [CEqual; CGreaterThan; CGreaterThanOrEqual; CLessThan; CLessThanOrEqual] ->
  value_compare true op l r = true -> same_kind l r = true.
Proof.
  intros Hop H. rewrite value_compare_doc in H. unfold doc_compare in H.
  cbn [In] in Hop. destruct Hop as [<-|[<-|[<-|[<-|[<-|[]]]]]];
    destruct (same_kind l r); cbn [andb orb] in H; congruence.
Qed.

Lemma not_equal_other_kind l r :
  same_kind l r = false -> value_compare true CNotEqual l r = true.
Proof. intros K. rewrite value_compare_doc. unfold doc_compare. rewrite K. reflexivity. Qed.

Lemma pair_in_In ps l r : pair_in ps l r = true -> In (kind l, kind r) ps.
Proof.
  unfold pair_in. rewrite existsb_exists. intros [[a b] [Hin H]]. cbn [fst snd] in H.
  apply andb_true_iff in H as [Ha Hb]. apply N.eqb_eq in Ha, Hb. now subst.
Qed.

Lemma container_pairs_only op l r :
  In op [CContains; CStartsWith; CEndsWith] ->
  value_compare true op l r = true -> In (kind l, kind r) container_pairs.
Proof.
  intros Hop H. rewrite value_compare_doc in H. unfold doc_compare in H.
  cbn [In] in Hop. destruct Hop as [<-|[<-|[<-|[]]]];
    apply andb_true_iff in H as [H _]; exact (pair_in_In _ _ _ H).
Qed.

(* the only cross-kind pairs that can compare true are the vector/element ones *)
Lemma cross_kind_only op l r :
  In op [CContains; CStartsWith; CEndsWith] ->
  value_compare true op l r = true ->
  same_kind l r = true \/ In (kind l, kind r) cross_kind_pairs.
Proof.
  intros Hop H. pose proof (container_pairs_only op l r Hop H) as P.
  unfold container_pairs in P. apply in_app_or in P as [P|P]; [left|right; exact P].
  unfold same_kind. cbn [In] in P.
  repeat (destruct P as [P|P]; [injection P as K1 K2; rewrite <- K1, <- K2; reflexivity|]).
  contradiction.
Qed.

Theorem type_strict :
  (forall op l r,
     In op [CEqual; CGreaterThan; CGreaterThanOrEqual; CLessThan; CLessThanOrEqual] ->
     value_compare true op l r = true -> same_kind l r = true) /\
  (forall l r, same_kind l r = false -> value_compare true CNotEqual l r = true) /\
  (forall op l r,
     In op [CContains; CStartsWith; CEndsWith] ->
     value_compare true op l r = true ->
     In (kind l, kind r) container_pairs /\
     (same_kind l r = true \/ In (kind l, kind r) cross_kind_pairs)) /\
  (forall op l r, value_compare true op l r = doc_compare op l r).
Proof.
  split; [exact ordering_same_kind|]. split; [exact not_equal_other_kind|].
  split; [|exact value_compare_doc].
  intros op l r Hop H. split; [exact (container_pairs_only op l r Hop H)|exact (cross_kind_only op l r Hop H)].
Qed.

(* every admitted pair is really admitted (the list is exact), the documented examples *)
Lemma container_pairs_inhabited :
  let s := fun l => DString l in
  value_compare true CContains (s [x61; x62; x63]) (s [x62; x63]) = true /\
  value_compare true CContains (s [x61; x62; x63; x64]) (DVecString [[x62; x63]; [x64]]) = true /\
  value_compare true CContains (DVecI64 [1; 2]) (DI64 2) = true /\
  value_compare true CContains (DVecI64 [1; 2]) (DVecI64 [2; 1]) = true /\
  value_compare true CContains (DVecU64 [1; 2]%N) (DU64 2) = true /\
  value_compare true CContains (DVecU64 [1; 2]%N) (DVecU64 [2]%N) = true /\
  value_compare true CContains (DVecF64 [1; 2]%N) (DF64 2) = true /\
  value_compare true CContains (DVecF64 [1; 2]%N) (DVecF64 [2]%N) = true /\
  value_compare true CContains (DVecString [[x61]; [x62]]) (s [x62]) = true /\
  value_compare true CContains (DVecString [[x61]; [x62]]) (DVecString [[x62]]) = true /\
  value_compare true CStartsWith (s [x61; x62; x63]) (DVecString [[x61]; [x62]]) = true /\
  value_compare true CEndsWith (DVecI64 [1; 2]) (DI64 2) = true /\
  (* type strict: Equal(1_i64).compare(1_u64) is false *)
  value_compare true CEqual (DU64 1) (DI64 1) = false.
Proof. cbv zeta. repeat split. Qed.

(* the defect of the pinned code (before fix_strict_order): the derived PartialOrd orders
   across variants, `age > 30_i64` selects an element whose age is 5_u64 *)
Lemma type_strict_pinned_refuted :
  value_compare (fix_strict_order rv_pinned) CGreaterThan (DU64 5) (DI64 30) = true /\
  same_kind (DU64 5) (DI64 30) = false /\
  value_compare (fix_strict_order rv_fixed) CGreaterThan (DU64 5) (DI64 30) = false.
Proof. repeat split. Qed.

(* ====================================================================== *)
(* Distance                                                               *)
(* ====================================================================== *)

Ltac zcmp :=
  repeat match goal with
         | |- context [Z.compare ?a ?b] => destruct (Z.compare_spec a b)
         | |- context [Z.ltb ?a ?b] => destruct (Z.ltb_spec a b)
         | |- context [Z.leb ?a ?b] => destruct (Z.leb_spec a b)
         | |- context [Z.eqb ?a ?b] => destruct (Z.eqb_spec a b)
         end.

Lemma compare_distance_doc c dist : compare_distance c dist = doc_distance c dist.
Proof.
  destruct c; cbn [compare_distance doc_distance count_compare]; zcmp;
    cbn [negb]; try reflexivity; try lia.
Qed.

(* the selection bit is the numerical comparison; Stop is returned only when no greater
   distance can satisfy the comparison (pruning never loses a matching element), Continue
   only when this or some greater distance satisfies it *)
Theorem distance_spec c dist :
  sc_true (compare_distance c dist) = count_compare c dist /\
  kind_of (compare_distance c dist) <> KFinish /\
  (kind_of (compare_distance c dist) = KStop ->
     forall dist', dist < dist' -> count_compare c dist' = false) /\
  (kind_of (compare_distance c dist) = KContinue ->
     exists dist', dist <= dist' /\ count_compare c dist' = true).
Proof.
  split; [|split; [apply compare_distance_kind|split]].
  - destruct c; cbn [compare_distance count_compare]; zcmp; cbn [sc_true negb]; try reflexivity; lia.
  - destruct c; cbn [compare_distance count_compare]; destruct (Z.compare_spec dist n);
      cbn [kind_of]; intros K dist' Hd; try discriminate K; lia.
  - destruct c; cbn [compare_distance count_compare]; destruct (Z.compare_spec dist n);
      cbn [kind_of]; intros K; try discriminate K;
      first [ exists dist; lia | exists n; lia | exists (dist + n + 1); lia | exists (n + 1); lia ].
Qed.

(* ====================================================================== *)
(* The evaluator meets the documented reference evaluator                 *)
(* ====================================================================== *)

Lemma mem_keys k (l : list kv) :
  mem dbv_eqb k (map fst l) = existsb (fun p : kv => dbv_eqb k (fst p)) l.
Proof.
  induction l as [|p l IH]; [reflexivity|].
  cbn [map mem existsb]. rewrite IH, (dbv_eqb_sym (fst p) k). reflexivity.
Qed.

Lemma forallb_ext_eq {A} (f g : A -> bool) l : (forall x, f x = g x) -> forallb f l = forallb g l.
Proof. intros H. induction l as [|x l IH]; [reflexivity|]. cbn [forallb]. now rewrite H, IH. Qed.

Lemma eval_data_doc rv d index distance :
  fix_strict_order rv = true ->
  forall c, eval_data rv d index distance c = doc_eval_data d index distance c.
Proof.
  intros Hrv.
  induction c as [v| |v|v|v|ids|k op v|ks| |conds IH] using cond_data_ind'.
  - cbn [eval_data doc_eval_data]. apply compare_distance_doc.
  - reflexivity.
  - cbn [eval_data doc_eval_data]. destruct (is_node (gr d) index); reflexivity.
  - cbn [eval_data doc_eval_data]. destruct (is_node (gr d) index); reflexivity.
  - cbn [eval_data doc_eval_data]. destruct (is_node (gr d) index); reflexivity.
  - reflexivity.
  - cbn [eval_data doc_eval_data]. rewrite Hrv.
    destruct (kvs_value (vals d) index k); [|reflexivity]. now rewrite value_compare_doc.
  - cbn [eval_data doc_eval_data]. f_equal. apply forallb_ext_eq. intros x. apply mem_keys.
  - reflexivity.
  - rewrite eval_where_fold. cbn [doc_eval_data]. generalize (Continue true) as result.
    induction IH as [|[lg md data] r Hx _ IHr]; intros result; [reflexivity|].
    cbn [fold_left]. cbn [cond_d] in Hx. rewrite step_result_doc, Hx. apply IHr.
Qed.

Theorem eval_matches_doc rv d index distance conds :
  fix_strict_order rv = true ->
  eval_conditions rv d index distance conds = doc_eval d index distance conds.
Proof. intros Hrv. exact (eval_data_doc rv d index distance Hrv (CWhere conds)). Qed.

(* a nested example exercising And/Or, Not, Beyond, NotBeyond and Distance *)
Lemma eval_matches_doc_example :
  let conds := [Cond LAnd MNone CNode;
                Cond LOr MNone (CWhere [Cond LAnd MNone CEdge; Cond LAnd MNot (CIds [QId (-2)])]);
                Cond LAnd MBeyond (CDistance (KLessThan 3));
                Cond LAnd MNotBeyond (CIds [QId 7])] in
  doc_eval db_new 7 2 conds = Stop true /\ doc_eval db_new (-2) 4 conds = Stop false /\
  doc_eval db_new (-3) 1 conds = Continue true.
Proof. cbv zeta. repeat split. Qed.

(* ====================================================================== *)
(* Selection and traversal: one iteration of the search loop              *)
(* ====================================================================== *)

Definition follows (c : sc) : bool := match c with Continue _ => true | _ => false end.

Lemma search_loop_visited rv d a reverse origin conds h f index dist rest vis counter acc :
  visited vis index = true ->
  search_loop rv d a reverse origin conds h (S f) ((index, dist) :: rest) vis counter acc =
  search_loop rv d a reverse origin conds h f
    (if fix_visited_chain rv && (index <? 0) then expand rv (gr d) a reverse origin rest (index, dist) false
     else rest) vis counter acc.
Proof. intros Hv. cbn [search_loop]. now rewrite Hv. Qed.

(* an unvisited element is added iff the (handled) control is true, its neighbourhood is
   expanded with follow = true iff the control is Continue, without following iff Stop,
   and the search ends iff Finish *)
Lemma search_loop_step rv d a reverse origin conds h f index dist rest vis counter acc control counter' :
  visited vis index = false ->
  handle h counter (eval_conditions rv d index dist conds) = (control, counter') ->
  search_loop rv d a reverse origin conds h (S f) ((index, dist) :: rest) vis counter acc =
  let acc' := if sc_true control then index :: acc else acc in
  match kind_of control with
  | KFinish => Some (rev acc')
  | _ => search_loop rv d a reverse origin conds h f
           (expand rv (gr d) a reverse origin rest (index, dist) (follows control))
           (Z.abs index :: vis) counter' acc'
  end.
Proof. intros Hv Hh. cbn [search_loop]. rewrite Hv, Hh. destruct control; reflexivity. Qed.

(* without limit/offset: selection and pruning are decided by the documented evaluator *)
Theorem search_step_doc rv d a reverse origin conds f index dist rest vis counter acc :
  fix_strict_order rv = true ->
  visited vis index = false ->
  search_loop rv d a reverse origin conds HDefault (S f) ((index, dist) :: rest) vis counter acc =
  let c := doc_eval d index dist conds in
  search_loop rv d a reverse origin conds HDefault f
    (expand rv (gr d) a reverse origin rest (index, dist) (follows c))
    (Z.abs index :: vis) counter (if sc_true c then index :: acc else acc).
Proof.
  intros Hrv Hv.
  rewrite (search_loop_step rv d a reverse origin conds HDefault f index dist rest vis counter acc
             (eval_conditions rv d index dist conds) counter Hv eq_refl).
  pose proof (no_finish rv d index dist conds) as NF.
  rewrite (eval_matches_doc rv d index dist conds Hrv) in *. cbv zeta.
  destruct (doc_eval d index dist conds) as [b|b|b]; [reflexivity|exfalso; exact (NF b eq_refl)|reflexivity].
Qed.

(* the elements search: an element is selected iff the documented evaluator says so *)
Lemma elements_loop_step_doc rv d conds index r distance counter acc :
  fix_strict_order rv = true ->
  elements_loop rv d conds HDefault (index :: r) distance counter acc =
  elements_loop rv d conds HDefault r (distance + 1) counter
    (if sc_true (doc_eval d index distance conds) then index :: acc else acc).
Proof.
  intros Hrv. cbn [elements_loop handle].
  pose proof (no_finish rv d index distance conds) as NF.
  rewrite (eval_matches_doc rv d index distance conds Hrv) in *.
  destruct (doc_eval d index distance conds) as [b|b|b]; [reflexivity|exfalso; exact (NF b eq_refl)|reflexivity].
Qed.

(* path search ("Paths"): an element that passes costs 1 and is selected, one that fails costs 2,
   one beyond which the search is not to continue (Stop) costs 0 = its paths are dropped *)
Theorem path_cost_doc rv d conds index distance :
  fix_strict_order rv = true ->
  path_cost rv d conds index distance =
  match doc_eval d index distance conds with
  | Continue add => (if add then 1 else 2, add)
  | Stop add => (0, add)
  | Finish add => (0, add)
  end /\ kind_of (doc_eval d index distance conds) <> KFinish.
Proof.
  intros Hrv. unfold path_cost. pose proof (no_finish rv d index distance conds) as NF.
  rewrite (eval_matches_doc rv d index distance conds Hrv) in *.
  split; [destruct (doc_eval d index distance conds); reflexivity|].
  destruct (doc_eval d index distance conds) as [b|b|b]; [discriminate|exact (fun _ => NF b eq_refl)|discriminate].
Qed.

(* the pinned evaluator did NOT meet the documented semantics: element 1 has age = 5_u64,
   the condition is age > 30_i64 *)
Definition strict_example_db : db :=
  {| gr := graph_new; aliases := imap_empty; vals := [[]; [(DString [x61; x67; x65], DU64 5)]];
     indexes := []; undo := [] |}.

Lemma eval_matches_doc_pinned_refuted :
  let conds := [Cond LAnd MNone (CKeyValue (DString [x61; x67; x65]) CGreaterThan (DI64 30))] in
  eval_conditions rv_pinned strict_example_db 1 0 conds = Continue true /\
  doc_eval strict_example_db 1 0 conds = Continue false /\
  eval_conditions rv_fixed strict_example_db 1 0 conds = Continue false.
Proof. cbv zeta. repeat split. Qed.
