(* StoredDbOpsDb3.v — proofs (stored database, part 18): DbImpl::insert_edge and insert_or_replace_key_value keep the
   database stored; the five core operations in one statement (so_op_stored), every history of them (so_ops_stored),
   and the transfer to the model of storage.rs (so_core_on_storage: C04's refinement, cwp_sound). *)
From Coq Require Import Permutation.
From Agdb Require Import Bytes BytesProofs Utf8 Codec DbValue ValueIndex Graph DbModel Records RecordsProofs Storage StorageSpec
  StorageLayout StorageWp StorageRefine StorageProofs Collections CollValues CollWp CollBytes CollVecBase CollVecOps CollVec CollVec2
  CollElems CollSep CollMap CollGraph CollValuesProofs StoredDb StoredDbRep StoredDbLoad StoredDbFrame StoredDbOps StoredDbOpsGraph
  StoredDbOpsGraph2 StoredDbOpsDb StoredDbOpsKv StoredDbOpsKv2 StoredDbOpsKv3 StoredDbOpsDb2.
From Coq Require Import ZifyBool ZifyNat ZifyN.
Ltac Zify.zify_post_hook ::= Z.div_mod_to_equations.
Open Scope N_scope.
Arguments N.add : simpl never.
Arguments N.mul : simpl never.
Arguments N.sub : simpl never.
Arguments N.of_nat : simpl never.
Arguments N.to_nat : simpl never.
Arguments N.eqb : simpl never.
Arguments N.ltb : simpl never.
Arguments N.leb : simpl never.
Arguments N.div : simpl never.

Lemma so_with_graph_eta h : so_with_graph h (so_graph h) = h.
Proof. destruct h. reflexivity. Qed.

(* neither the new key nor the key of the pair it replaces has an index *)
Definition so_not_indexed (d : db) (id : Z) (x : kv) : Prop :=
  idx_find (indexes d) (fst x) = None /\
  match fst (kvs_insert_or_replace (vals d) id x) with Some old => idx_find (indexes d) (fst old) = None | None => True end.

Definition so_kv_fits (d : db) (id : Z) : Prop := 8 + ce_size ce_dbkv * (lenN (kvs_get (vals d) id) + 1) < two64.

Section Ops3.
  Variable fl : bool.

  (* ---------------- DbImpl::insert_edge ---------------- *)
  Theorem so_insert_edge_stored root d w h f t sp (Q : cres (so_db * option Z) -> spec -> Prop) :
    stored_db_w (hp sp) root d w -> so_handles h w -> so_graph_ok (gr d) ->
    (insert_edge (gr d) f t <> None -> so_edge_ok (gr d) f t) ->
    match insert_edge_db d f t with
    | DbModel.ROk (e, d') =>
      forall h' dg' s' sp',
        stored_db_w (hp sp') root d' (sd_with_graph w dg' s') -> so_handles h' (sd_with_graph w dg' s') ->
        sdepth sp' = sdepth sp ->
        frame (hp sp) (hp sp') (sd_foot root w) (sd_foot root (sd_with_graph w dg' s')) ->
        Q (CrOk (h', Some e)) sp'
    | DbModel.RErr _ => Q (CrOk (h, None)) sp
    end ->
    cwp fl (so_insert_edge h f t) sp Q.
  Proof.
    intros H [Hh1 Hh2] OK HE HQ. unfold so_insert_edge. apply cwp_bind. rewrite Hh1.
    eapply so_graph_insert_edge_spec; [exact (sr_graph _ _ _ _ H)|exact OK| |exact HE].
    unfold insert_edge_db in HQ. destruct (insert_edge (gr d) f t) as [[e G']|].
    - intros _ dg' s' sp' HG Hi Hd Hf. cbn [kont cwp fst snd].
      rewrite <- (sd_arrays_of (sd_arrays _)) in HG.
      destruct (sd_graph_update _ _ root d w dg' s' _ H Hi HG Hf) as [H' F'].
      eapply HQ; [|split; [reflexivity|exact Hh2]|exact Hd|exact F'].
      eapply stored_db_w_same; [exact H'| | | |]; cbn [push_undo with_gr gr aliases vals indexes sd_graph_of sd_arrays
        ga_from ga_to ga_from_meta ga_to_meta]; try reflexivity.
      destruct G'; reflexivity.
    - cbn [kont cwp fst snd]. rewrite <- Hh1, so_with_graph_eta. exact HQ.
  Qed.

  (* ---------------- DbImpl::insert_or_replace_key_value (keys not indexed) ---------------- *)
  Theorem so_insert_or_replace_key_value_stored root d w h id x sp (Q : cres (so_db * option kv) -> spec -> Prop) :
    stored_db_w (hp sp) root d w -> so_handles h w ->
    so_not_indexed d id x -> so_index_ok (cg_as_u64 id) -> el_valid law_dbkv x -> so_kv_fits d id ->
    (forall h' vh' vs' vi' vw' sp',
        stored_db_w (hp sp') root (insert_or_replace_key_value d id x) (sd_with_values w vh' vs' vi' vw') ->
        so_handles h' (sd_with_values w vh' vs' vi' vw') -> sdepth sp' = sdepth sp ->
        frame (hp sp) (hp sp') (sd_foot root w) (sd_foot root (sd_with_values w vh' vs' vi' vw')) ->
        Q (CrOk (h', fst (kvs_insert_or_replace (vals d) id x))) sp') ->
    cwp fl (so_insert_or_replace_key_value h id x) sp Q.
  Proof.
    intros H [Hh1 Hh2] [Hnx Hno] Hix Hx Hfit HQ. unfold so_insert_or_replace_key_value. apply cwp_bind. rewrite Hh2.
    eapply so_kv_insert_or_replace_spec; [exact (stored_kvrep _ _ _ _ H)|exact Hix|exact Hx|rewrite zabs_as_u64; exact Hfit|].
    rewrite zabs_as_u64, <- kvs_ior_model.
    intros vh1 vs1 vi1 vw1 sp' HK I1 D1 F1. cbn [kont cwp fst snd].
    destruct (sd_values_update _ _ root d w vh1 vs1 vi1 vw1 _ H I1 HK F1) as [H' F'].
    eapply HQ; [|split; [exact Hh1|reflexivity]|exact D1|exact F'].
    unfold insert_or_replace_key_value.
    destruct (kvs_insert_or_replace (vals d) id x) as [[old|] s'] eqn:EK; cbn [fst snd] in *;
      (eapply stored_db_w_same; [exact H'| | | |]);
      unfold index_insert_if, index_remove_if, idx_insert_id, idx_remove_id;
      cbn [with_vals push_undo with_indexes gr aliases vals indexes]; try reflexivity.
    - rewrite (idx_update_not_indexed _ _ _ Hno). apply idx_update_not_indexed. exact Hno.
    - apply idx_update_not_indexed. exact Hnx.
  Qed.

  (* ---------------- the five core operations ---------------- *)
  Definition so_op_model (d : db) (o : so_op) : db * so_out :=
    match o with
    | SoInsertNode => (snd (insert_node_db d), SoId (fst (insert_node_db d)))
    | SoInsertEdge f t => match insert_edge_db d f t with DbModel.ROk (e, d') => (d', SoId e) | DbModel.RErr _ => (d, SoErr) end
    | SoReserve id len => (reserve_kv d id, SoUnit)
    | SoInsertKeyValue id x => (insert_key_value d id x, SoUnit)
    | SoInsertOrReplace id x => (insert_or_replace_key_value d id x, SoOld (fst (kvs_insert_or_replace (vals d) id x)))
    end.

  Definition so_op_ok (d : db) (o : so_op) : Prop :=
    match o with
    | SoInsertNode => so_graph_ok (gr d)
    | SoInsertEdge f t => so_graph_ok (gr d) /\ (insert_edge (gr d) f t <> None -> so_edge_ok (gr d) f t)
    | SoReserve id len => so_index_ok (cg_as_u64 id)
    | SoInsertKeyValue id x =>
      idx_find (indexes d) (fst x) = None /\ so_index_ok (cg_as_u64 id) /\ el_valid law_dbkv x /\ so_kv_fits d id
    | SoInsertOrReplace id x =>
      so_not_indexed d id x /\ so_index_ok (cg_as_u64 id) /\ el_valid law_dbkv x /\ so_kv_fits d id
    end.

  Definition so_post (root : N) (w : sd_wit) (sp : spec) {A} (d' : db) (out : A) (r : cres (so_db * A)) (sp' : spec) : Prop :=
    exists h' w', r = CrOk (h', out) /\ stored_db_w (hp sp') root d' w' /\ so_handles h' w' /\ sdepth sp' = sdepth sp /\
                  frame (hp sp) (hp sp') (sd_foot root w) (sd_foot root w').

  Theorem so_op_stored root d w h o sp :
    stored_db_w (hp sp) root d w -> so_handles h w -> so_op_ok d o ->
    cwp fl (so_op_run h o) sp (so_post root w sp (fst (so_op_model d o)) (snd (so_op_model d o))).
  Proof.
    intros H Hh OK. destruct o as [|f t|id len|id x|id x]; cbn [so_op_run so_op_model so_op_ok fst snd] in *.
    - apply cwp_bind. eapply so_insert_node_stored; [exact H|exact Hh|exact OK|].
      intros h' dg' s' sp' H' Hh' D' F'. cbn [kont cwp fst snd]. exists h', (sd_with_graph w dg' s'). repeat (split; [first [reflexivity|assumption]|]). exact F'.
    - destruct OK as [OK HE]. apply cwp_bind. eapply so_insert_edge_stored; [exact H|exact Hh|exact OK|exact HE|].
      destruct (insert_edge_db d f t) as [[e d']|k]; cbn [fst snd].
      + intros h' dg' s' sp' H' Hh' D' F'. cbn [kont cwp fst snd]. exists h', (sd_with_graph w dg' s'). repeat (split; [first [reflexivity|assumption]|]). exact F'.
      + cbn [kont cwp fst snd]. exists h, w. repeat (split; [first [reflexivity|assumption]|]). apply frame_refl. intros j; reflexivity.
    - apply cwp_bind. eapply so_reserve_key_value_capacity_stored; [exact H|exact Hh|exact OK|].
      intros h' vh' vs' vi' vw' sp' H' Hh' D' F'. cbn [kont cwp]. exists h', (sd_with_values w vh' vs' vi' vw'). repeat (split; [first [reflexivity|assumption]|]). exact F'.
    - destruct OK as (O1 & O2 & O3 & O4). apply cwp_bind. eapply so_insert_key_value_stored; [exact H|exact Hh|exact O1|exact O2|exact O3|exact O4|].
      intros h' vh' vs' vi' vw' sp' H' Hh' D' F'. cbn [kont cwp]. exists h', (sd_with_values w vh' vs' vi' vw'). repeat (split; [first [reflexivity|assumption]|]). exact F'.
    - destruct OK as (O1 & O2 & O3 & O4). apply cwp_bind. eapply so_insert_or_replace_key_value_stored; [exact H|exact Hh|exact O1|exact O2|exact O3|exact O4|].
      intros h' vh' vs' vi' vw' sp' H' Hh' D' F'. cbn [kont cwp fst snd]. exists h', (sd_with_values w vh' vs' vi' vw'). repeat (split; [first [reflexivity|assumption]|]). exact F'.
  Qed.

  (* ---------------- every history of core operations ---------------- *)
  Fixpoint so_ops_model (d : db) (l : list so_op) : db * list so_out :=
    match l with
    | [] => (d, [])
    | o :: t => let r := so_ops_model (fst (so_op_model d o)) t in (fst r, snd (so_op_model d o) :: snd r)
    end.
  Fixpoint so_ops_ok (d : db) (l : list so_op) : Prop :=
    match l with
    | [] => True
    | o :: t => so_op_ok d o /\ so_ops_ok (fst (so_op_model d o)) t
    end.

  Theorem so_ops_stored root : forall l d w h sp,
    stored_db_w (hp sp) root d w -> so_handles h w -> so_ops_ok d l ->
    cwp fl (so_ops_run h l) sp (so_post root w sp (fst (so_ops_model d l)) (snd (so_ops_model d l))).
  Proof.
    induction l as [|o t IH]; intros d w h sp H Hh OK; cbn [so_ops_run so_ops_model so_ops_ok fst snd] in *.
    - cbn [cwp]. exists h, w. repeat (split; [first [reflexivity|assumption]|]). apply frame_refl. intros j; reflexivity.
    - destruct OK as [O1 O2]. apply cwp_bind. eapply cwp_mono; [|eapply so_op_stored; eassumption].
      intros r sp1 (h1 & w1 & -> & H1 & Hh1 & D1 & F1). cbn [kont fst snd].
      apply cwp_bind. eapply cwp_mono; [|eapply IH; eassumption].
      intros r2 sp2 (h2 & w2 & -> & H2 & Hh2 & D2 & F2). cbn [kont cwp fst snd].
      exists h2, w2. split; [reflexivity|]. split; [exact H2|]. split; [exact Hh2|]. split; [congruence|].
      eapply frame_trans; eassumption.
  Qed.
End Ops3.

(* ---------------- on the model of storage.rs (C04) ---------------- *)
Theorem so_core_on_storage (ops : store_ops cdata) (fl : bool) : kind ops fl ->
  forall s sp root d l, Rel s sp -> stored_db (hp sp) root d -> so_ops_ok d l ->
    let r := cp_run (st_step cdata ops) (h <~ so_open root ;; so_ops_run h l) s in
    snd r = CrDead \/
    exists sp' h' w w', Rel (fst r) sp' /\ snd r = CrOk (h', snd (so_ops_model d l)) /\
                        stored_db_w (hp sp) root d w /\ stored_db_w (hp sp') root (fst (so_ops_model d l)) w' /\
                        so_handles h' w' /\ sdepth sp' = sdepth sp /\
                        frame (hp sp) (hp sp') (sd_foot root w) (sd_foot root w').
Proof.
  intros K s sp root d l RL (w0 & H0) OK r.
  assert (HW : cwp fl (h <~ so_open root ;; so_ops_run h l) sp
                   (fun r sp' => exists h' w w', r = CrOk (h', snd (so_ops_model d l)) /\
                        stored_db_w (hp sp) root d w /\ stored_db_w (hp sp') root (fst (so_ops_model d l)) w' /\
                        so_handles h' w' /\ sdepth sp' = sdepth sp /\
                        frame (hp sp) (hp sp') (sd_foot root w) (sd_foot root w'))).
  { apply cwp_bind. eapply so_open_spec; [exact H0|]. intros h w1 H1 Hh1 _. cbn [kont].
    eapply cwp_mono; [|eapply so_ops_stored; eassumption].
    intros r0 sp' (h' & w' & -> & H' & Hh' & D' & F'). exists h', w1, w'. repeat (split; [first [reflexivity|assumption]|]). exact F'. }
  destruct (cwp_sound ops fl K _ s sp _ RL HW) as [D|(sp' & RL' & h' & w & w' & E & X)]; [left; exact D|right].
  exists sp', h', w, w'. split; [exact RL'|]. split; [exact E|exact X].
Qed.
