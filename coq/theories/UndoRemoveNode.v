(* UndoRemoveNode.v — C13_step_inverse for remove_node_db: it is a sequence of primitives
   (alias removal; for every edge of the node: remove_edge_db + remove_all_values; removal of the
   then isolated node), so C13_rollback_restores applies to it. *)
From Agdb Require Import Bytes BytesProofs DbValue Graph DbModel Revisions UndoBase UndoObs UndoAlias UndoKv
  UndoGraphBase UndoGraph UndoGraphAlloc UndoGraphEdge UndoGraphOps UndoAbs UndoDb
  UndoStepsAlias UndoStepsKv UndoStepsKv2 UndoStepsIndex UndoStepsGraph UndoBridge UndoMain UndoFinal UndoLift.
From Coq Require Import Permutation ZifyBool ZifyNat ZifyN.
Ltac Zify.zify_post_hook ::= Z.div_mod_to_equations.
Open Scope Z_scope.

(* ---- the edges of a node, abstractly ---- *)

Definition ne_id (x : Z * Z * Z) : Z := fst (fst x).

Lemma NoDup_app_intro {A} (l l' : list A) :
  NoDup l -> NoDup l' -> (forall x, In x l -> In x l' -> False) -> NoDup (l ++ l').
Proof.
  induction l as [|x r IH]; intros H1 H2 H3; cbn [app]; [assumption|].
  inversion H1 as [|? ? Hn Hr]. subst. constructor.
  - intros Hin. apply in_app_or in Hin. destruct Hin as [Hin|Hin]; [contradiction|].
    apply (H3 x); [left; reflexivity | assumption].
  - apply IH; auto. intros y Hy. apply H3. right. assumption.
Qed.

Lemma node_edges_spec d a n :
  rep (gr d) a -> 0 < n -> ak a n = KNode ->
  Forall (fun x => exists e, ne_id x = - e /\ 0 < e /\ ak a e = KEdge (snd (fst x)) (snd x)) (node_edges d n) /\
  NoDup (map ne_id (node_edges d n)) /\
  (forall e, In e (aout a n) \/ In e (ain a n) -> In (- e) (map ne_id (node_edges d n))).
Proof.
  intros R Hn Kn. unfold rep in R. unfold node_edges.
  rewrite (rep_out_edges _ _ R n Hn Kn), (rep_in_edges _ _ R n Hn Kn).
  destruct (r_out _ _ _ _ R n Hn Kn) as (_ & Hndo & _). destruct (r_in _ _ _ _ R n Hn Kn) as (_ & Hndi & _).
  assert (Hfrom : forall e f t, 0 < e -> ak a e = KEdge f t -> edge_from (gr d) (- e) = f /\ edge_to (gr d) (- e) = t).
  { intros e f t He Hk. destruct (rep_edge_arrays _ _ _ _ R e f t He Hk) as (_ & _ & Efr & Eto & _).
    unfold edge_from, edge_to. rewrite from_opp, to_opp, Efr, Eto. lia. }
  set (g := gr d) in *.
  set (fo := fun e => (e, edge_from g e, edge_to g e)).
  set (fi := fun e => if edge_from g e =? n then [] else [(e, edge_from g e, edge_to g e)]).
  (* the in-part as a filter *)
  assert (Hin_spec : forall x, In x (flat_map fi (map Z.opp (ain a n))) <->
             exists e, In e (ain a n) /\ edge_from g (- e) <> n /\ x = (- e, edge_from g (- e), edge_to g (- e))).
  { intros x. rewrite in_flat_map. split.
    - intros (ei & Hei & Hx). apply in_map_iff in Hei. destruct Hei as (e & <- & He). unfold fi in Hx.
      destruct (Z.eqb_spec (edge_from g (- e)) n); [contradiction|]. destruct Hx as [<-|[]]. eauto.
    - intros (e & He & Hne & ->). exists (- e). split; [apply in_map, He|]. unfold fi.
      destruct (Z.eqb_spec (edge_from g (- e)) n); [contradiction | left; reflexivity]. }
  split; [|split].
  - apply Forall_forall. intros x Hx. apply in_app_or in Hx. destruct Hx as [Hx|Hx].
    + rewrite map_map in Hx. apply in_map_iff in Hx. destruct Hx as (e & <- & He).
      pose proof (rep_out_range _ _ _ _ R n e Hn Kn He) as Hr.
      destruct (rep_out_edge _ _ _ _ R n e Hn Kn He) as (t & Ht).
      destruct (Hfrom e n t (proj1 Hr) Ht) as (E1 & E2). exists e. unfold fo, ne_id. cbn [fst snd]. rewrite E1, E2. auto with zarith.
    + apply Hin_spec in Hx. destruct Hx as (e & He & _ & ->).
      pose proof (rep_in_range _ _ _ _ R n e Hn Kn He) as Hr.
      destruct (rep_in_edge _ _ _ _ R n e Hn Kn He) as (f & Hf).
      destruct (Hfrom e f n (proj1 Hr) Hf) as (E1 & E2). exists e. unfold ne_id. cbn [fst snd]. rewrite E1, E2. auto with zarith.
  - rewrite map_app. apply NoDup_app_intro.
    + rewrite !map_map. unfold fo, ne_id. cbn [fst]. apply FinFun.Injective_map_NoDup; [|assumption]. intros x y. lia.
    + (* in part *)
      assert (Hsub : forall l, NoDup l -> NoDup (map ne_id (flat_map fi (map Z.opp l)))).
      { induction l as [|e r IH]; intros Hnd; cbn [map flat_map]; [constructor|].
        inversion Hnd as [|? ? Hne Hnd']. subst. rewrite map_app. unfold fi at 1.
        destruct (edge_from g (- e) =? n); cbn [map app]; [auto|]. constructor; [|auto].
        unfold ne_id at 1. cbn [fst]. intros Hc. apply in_map_iff in Hc. destruct Hc as (x & Ex & Hx).
        apply in_flat_map in Hx. destruct Hx as (ei & Hei & Hx). apply in_map_iff in Hei. destruct Hei as (e' & <- & He').
        unfold fi in Hx. destruct (edge_from g (- e') =? n); [contradiction|]. destruct Hx as [<-|[]].
        unfold ne_id in Ex. cbn [fst] in Ex. assert (e' = e) by lia. subst. contradiction. }
      apply Hsub, Hndi.
    + intros x Hx1 Hx2. rewrite !map_map in Hx1. apply in_map_iff in Hx1. destruct Hx1 as (e & <- & He).
      apply in_map_iff in Hx2. destruct Hx2 as (y & Ey & Hy). apply Hin_spec in Hy. destruct Hy as (e' & He' & Hne & ->).
      unfold fo, ne_id in Ey. cbn [fst] in Ey. assert (e' = e) by lia. subst e'.
      pose proof (rep_out_range _ _ _ _ R n e Hn Kn He) as Hr.
      destruct (rep_out_edge _ _ _ _ R n e Hn Kn He) as (t & Ht).
      destruct (Hfrom e n t (proj1 Hr) Ht) as (E1 & _). contradiction.
  - intros e He. rewrite map_app. apply in_or_app. destruct (in_dec Z.eq_dec e (aout a n)) as [Ho|Hno].
    + left. rewrite !map_map. apply in_map_iff. exists e. split; [reflexivity | assumption].
    + destruct He as [He|He]; [contradiction|]. right. apply in_map_iff.
      exists (- e, edge_from g (- e), edge_to g (- e)). split; [reflexivity|]. apply Hin_spec. exists e.
      split; [assumption|]. split; [|reflexivity].
      pose proof (rep_in_range _ _ _ _ R n e Hn Kn He) as Hr.
      destruct (rep_in_edge _ _ _ _ R n e Hn Kn He) as (f & Hf).
      destruct (Hfrom e f n (proj1 Hr) Hf) as (E1 & _). rewrite E1. intros ->. apply Hno.
      apply (r_out_mem _ _ _ _ R n e Hn Kn). split; [lia|]. split; [eauto | intros []].
Qed.
