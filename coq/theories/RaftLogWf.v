(* RaftLogWf.v — node-level facts for the log-matching proof (C28 log matching, RaftLogMatch.v):
   well-formed logs (index = position, terms sorted, the table row of the node itself describes its last entry),
   what every handler of raft.rs does to the log, and the shape of the entries carried by Append requests.
   Every lemma is for every revision of the election code unless it says otherwise. *)
From Coq Require Import NArith List Bool Lia Arith.
From Agdb Require Import Raft RaftProofs RaftInv RaftElect RaftVote.
Import ListNotations.
Open Scope N_scope.

(* ================================================================== lists *)

Definition e0 : entry := mkEntry 0 0 0.
Definition last_term (l : list entry) : N := e_term (last l e0).

Lemma last_term_snoc : forall l x, last_term (l ++ [x]) = e_term x.
Proof. intros. unfold last_term. rewrite last_last. reflexivity. Qed.

(* index = position (1-based) and terms sorted *)
Definition wf_log (l : list entry) : Prop :=
  (forall k e, nth_error l k = Some e -> e_index e = N.of_nat (S k)) /\
  (forall k1 k2 e1 e2, (k1 <= k2)%nat -> nth_error l k1 = Some e1 -> nth_error l k2 = Some e2 -> e_term e1 <= e_term e2).

Lemma wf_log_nil : wf_log [].
Proof. split; intros; destruct k || destruct k1; discriminate. Qed.

Lemma nth_error_last : forall (l : list entry) x, l <> [] -> nth_error l (length l - 1) = Some (last l x).
Proof.
  induction l as [|a l IH]; intros x H; [congruence|].
  destruct l as [|b l]; [reflexivity|].
  change (last (a :: b :: l) x) with (last (b :: l) x).
  rewrite <- (IH x) by discriminate. cbn [length]. replace (S (S (length l)) - 1)%nat with (S (S (length l) - 1)) by lia.
  reflexivity.
Qed.

Lemma wf_log_le_last : forall l e, wf_log l -> In e l -> e_term e <= last_term l.
Proof.
  intros l e [_ S] H. apply In_nth_error in H as [k Hk].
  assert (Hlt : (k < length l)%nat) by (apply nth_error_Some; congruence).
  assert (Hne : l <> []) by (destruct l; cbn in Hlt; [lia|discriminate]).
  unfold last_term. eapply S; [|exact Hk|apply nth_error_last; exact Hne]. lia.
Qed.

Lemma wf_log_firstn : forall l n, wf_log l -> wf_log (firstn n l).
Proof.
  intros l n [P S]. split.
  - intros k e H. assert (k < n)%nat.
    { destruct (Nat.lt_ge_cases k n); auto. assert (nth_error (firstn n l) k = None); [|congruence].
      apply nth_error_None. rewrite firstn_length. lia. }
    rewrite nth_error_firstn_lt in H by auto. apply P; auto.
  - intros k1 k2 e1 e2 L H1 H2.
    assert (k2 < n)%nat.
    { destruct (Nat.lt_ge_cases k2 n); auto. assert (nth_error (firstn n l) k2 = None); [|congruence].
      apply nth_error_None. rewrite firstn_length. lia. }
    rewrite nth_error_firstn_lt in H1, H2 by lia. eapply S; [|exact H1|exact H2]. lia.
Qed.

Lemma wf_log_snoc : forall l x,
  wf_log l -> e_index x = N.of_nat (S (length l)) -> last_term l <= e_term x -> wf_log (l ++ [x]).
Proof.
  intros l x W I T. pose proof W as [P S]. split.
  - intros k e H. destruct (Nat.lt_ge_cases k (length l)).
    + rewrite nth_error_app1 in H by auto. apply P; auto.
    + rewrite nth_error_app2 in H by auto. destruct (k - length l)%nat eqn:E; cbn in H.
      * inversion H; subst e. rewrite I. f_equal. lia.
      * destruct n; discriminate.
  - intros k1 k2 e1 e2 L H1 H2. destruct (Nat.lt_ge_cases k2 (length l)).
    + rewrite nth_error_app1 in H1, H2 by lia. eapply S; [|exact H1|exact H2]. lia.
    + rewrite nth_error_app2 in H2 by auto. destruct (k2 - length l)%nat eqn:E; cbn in H2; [|destruct n; discriminate].
      inversion H2; subst e2. destruct (Nat.lt_ge_cases k1 (length l)).
      * rewrite nth_error_app1 in H1 by auto. apply nth_error_In in H1.
        pose proof (wf_log_le_last _ _ W H1). lia.
      * rewrite nth_error_app2 in H1 by auto. replace (k1 - length l)%nat with O in H1 by lia. cbn in H1.
        inversion H1; subst e1. lia.
Qed.

Lemma In_firstn : forall A (l : list A) n x, In x (firstn n l) -> In x l.
Proof. intros A l n x H. rewrite <- (firstn_skipn n l). apply in_or_app. auto. Qed.

Lemma last_term_firstn_le : forall l n, wf_log l -> last_term (firstn n l) <= last_term l.
Proof.
  intros l n W. destruct (firstn n l) as [|a r] eqn:E.
  - unfold last_term at 1. cbn. lia.
  - apply wf_log_le_last; auto. apply (In_firstn _ l n). rewrite E.
    unfold last_term. destruct (exists_last (l := a :: r)) as [l' [x Ex]]; [discriminate|].
    rewrite Ex, last_last. apply in_or_app. right. left. reflexivity.
Qed.

(* log_at in terms of positions *)
Lemma log_at_nth : forall l k, log_at l (N.of_nat (S k)) = nth_error l k.
Proof.
  intros. unfold log_at. destruct (N.eqb_spec (N.of_nat (S k)) 0); [lia|]. f_equal. lia.
Qed.

Lemma log_at_wf_index : forall l idx e, wf_log l -> log_at l idx = Some e -> e_index e = idx.
Proof.
  intros l idx e [P _] H. unfold log_at in H. destruct (N.eqb_spec idx 0); [discriminate|].
  apply P in H. lia.
Qed.

Lemma log_at_snoc_keep : forall l x idx e, log_at l idx = Some e -> log_at (l ++ [x]) idx = Some e.
Proof.
  intros l x idx e H. pose proof (log_at_some_lt _ _ _ H) as [_ L]. unfold log_at in *.
  destruct (idx =? 0); [discriminate|]. rewrite nth_error_app1; auto.
Qed.

(* ================================================================== the entries of an Append request *)

(* consecutive indices, sorted terms *)
Definition chain (logs : list entry) : Prop :=
  forall k e1 e2, nth_error logs k = Some e1 -> nth_error logs (S k) = Some e2 ->
                  e_index e2 = e_index e1 + 1 /\ e_term e1 <= e_term e2.

Definition req_wf (r : request) : Prop :=
  match q_kind r with
  | KAppend logs => chain logs /\ forall e, In e logs -> e_term e <= q_term r
  | _ => True
  end.

Lemma chain_tail : forall a l, chain (a :: l) -> chain l.
Proof. intros a l C k e1 e2 H1 H2. apply (C (S k)); auto. Qed.

Lemma chain_single : forall x, chain [x].
Proof. intros x k e1 e2 H1 H2. destruct k; cbn in H2; [discriminate|destruct k; discriminate]. Qed.

Lemma chain_nil : chain [].
Proof. intros k e1 e2 H1. destruct k; discriminate. Qed.

Lemma nth_error_skipn : forall A (l : list A) n k, nth_error (skipn n l) k = nth_error l (n + k).
Proof. induction l; intros n k; destruct n; cbn; auto. destruct k; reflexivity. Qed.

Lemma wf_log_skipn_chain : forall l n, wf_log l -> chain (skipn n l).
Proof.
  intros l n [P S] k e1 e2 H1 H2. rewrite nth_error_skipn in H1, H2. split.
  - rewrite (P _ _ H1), (P _ _ H2). lia.
  - eapply S; [|exact H1|exact H2]. lia.
Qed.

(* ================================================================== nodes *)

Record nwf (nd : node) : Prop := {
  w_inv : ninv nd;
  w_log : wf_log (n_logs nd);
  w_lt : p_lt (local nd) = last_term (n_logs nd);
  w_term : forall e, In e (n_logs nd) -> e_term e <= n_term nd }.

(* a handler step that leaves the log and the node's own (term of last entry) alone *)
Definition keep (nd nd' : node) : Prop := n_logs nd' = n_logs nd /\ p_lt (local nd') = p_lt (local nd).

Lemma keep_refl : forall nd, keep nd nd. Proof. split; reflexivity. Qed.
Lemma keep_trans : forall a b c, keep a b -> keep b c -> keep a c.
Proof. intros a b c [A1 A2] [B1 B2]. split; congruence. Qed.

Lemma nwf_keep : forall nd nd', nwf nd -> ninv nd' -> keep nd nd' -> n_term nd <= n_term nd' -> nwf nd'.
Proof.
  intros nd nd' [I W L T] I' [K1 K2] Ht. constructor; auto.
  - rewrite K1; auto.
  - rewrite K1, K2; auto.
  - rewrite K1. intros e H. specialize (T e H). lia.
Qed.

Lemma keep_set_state : forall nd s, keep nd (set_state nd s). Proof. split; reflexivity. Qed.
Lemma keep_set_term : forall nd t, keep nd (set_term nd t). Proof. split; reflexivity. Qed.
Lemma keep_set_et : forall nd t, keep nd (set_et nd t). Proof. split; reflexivity. Qed.

Lemma keep_upd_peer : forall nd j f,
  ninv nd -> (j <> n_index nd \/ forall p, p_lt (f p) = p_lt p) -> keep nd (upd_peer nd j f).
Proof.
  intros nd j f I H. split; [reflexivity|].
  rewrite local_upd_peer by apply (ni_range _ I).
  destruct (N.eqb_spec j (n_index nd)); auto. destruct H; [congruence|auto].
Qed.

Lemma keep_clear_votes : forall nd, keep nd (clear_votes nd).
Proof.
  intros nd. split; [reflexivity|]. unfold local, node_at; cbn.
  destruct (clear_from_nth (n_peers nd) 0 (n_index nd) (N.to_nat (n_index nd))) as [-> | ->]; auto.
Qed.

Lemma keep_commit_storage : forall nd idx, ninv nd -> keep nd (commit_storage nd idx).
Proof.
  intros nd idx I. split; [reflexivity|]. rewrite local_commit_storage by apply (ni_range _ I). reflexivity.
Qed.

(* ------------------------------------------------------------------ process *)

Lemma keep_process : forall nd el due, keep nd (fst (process nd el due)).
Proof.
  intros nd el due. unfold process.
  destruct (n_state nd); cbn [is_election andb fst];
    try (destruct (n_tt nd <? el); cbn [fst]; [split; reflexivity | apply keep_refl]).
  - destruct (n_et nd <=? el); cbn [fst].
    + unfold pre_election; cbn [fst]. eapply keep_trans; [apply keep_clear_votes | apply keep_set_et].
    + destruct (n_tt nd <? el); cbn [fst]; [split; reflexivity | apply keep_refl].
Qed.

Lemma leader_process : forall nd el due,
  is_leader (n_state (fst (process nd el due))) = is_leader (n_state nd).
Proof.
  intros nd el due. unfold process.
  destruct (n_state nd) eqn:S; cbn [is_election andb fst]; try rewrite S; auto;
    try (destruct (n_tt nd <? el); cbn [fst]; try rewrite S; reflexivity).
  destruct (n_et nd <=? el); cbn [fst].
  - unfold pre_election; cbn [fst]. change (n_state (set_et (clear_votes nd) (n_hb (clear_votes nd)))) with (n_state nd).
    rewrite S; reflexivity.
  - destruct (n_tt nd <? el); cbn [fst]; try rewrite S; reflexivity.
Qed.

(* requests sent by process(): heartbeats of the current term if Leader, pre-vote requests otherwise *)
Lemma reqs_process_kind : forall nd el due q,
  In q (snd (process nd el due)) ->
  (q_kind q = KHeartbeat /\ is_leader (n_state nd) = true /\ q_term q = n_term nd) \/ q_kind q = KPreVote.
Proof.
  intros nd el due q. unfold process.
  destruct (n_state nd) eqn:S; cbn [is_election andb snd];
    try (destruct (n_tt nd <? el); cbn [snd]; intros []).
  - destruct (n_et nd <=? el); cbn [snd].
    + unfold pre_election; cbn [snd]. intros H. apply in_map_iff in H as [j [<- _]]. right; reflexivity.
    + destruct (n_tt nd <? el); cbn [snd]; intros [].
  - intros H. apply in_map_iff in H as [j [<- _]]. left. cbn. auto.
Qed.

(* ------------------------------------------------------------------ append (client) *)

Lemma append_shape : forall nd d,
  nwf nd ->
  let nd' := fst (append nd d) in
  let x := mkEntry (lenN (n_logs nd) + 1) (n_term nd) d in
  nwf nd' /\ n_logs nd' = n_logs nd ++ [x] /\
  forall q, In q (snd (append nd d)) -> q_kind q = KAppend [x] /\ q_term q = n_term nd.
Proof.
  intros nd d W. pose proof (w_inv _ W) as I. pose proof I as [R C L S].
  pose proof (good_append nd d I) as [I' _].
  unfold append in *. cbn [fst snd] in *. apply N.eqb_neq in S.
  set (nd1 := upd_local nd (fun p => p_set_log (p_li p + 1) (n_term nd) p)) in *.
  assert (Hloc1 : local nd1 = p_set_log (p_li (local nd) + 1) (n_term nd) (local nd)).
  { unfold nd1, upd_local. rewrite local_upd_peer by exact R. rewrite N.eqb_refl. reflexivity. }
  assert (Hsz : n_size (st_append nd1 (mkEntry (p_li (local nd1)) (n_term nd1) d)) = n_size nd) by reflexivity.
  rewrite Hsz, S in *.
  assert (Hli : p_li (local nd1) = lenN (n_logs nd) + 1).
  { rewrite Hloc1. cbn [p_set_log p_li]. unfold lenN. rewrite L. lia. }
  assert (Hx : mkEntry (p_li (local nd1)) (n_term nd1) d = mkEntry (lenN (n_logs nd) + 1) (n_term nd) d).
  { rewrite Hli. reflexivity. }
  rewrite Hx in *. set (x := mkEntry (lenN (n_logs nd) + 1) (n_term nd) d) in *.
  assert (Hlogs : n_logs (st_append nd1 x) = n_logs nd ++ [x]).
  { unfold st_append, set_storage. cbn [n_logs]. change (n_logs nd1) with (n_logs nd).
    unfold x at 1. cbn [e_index]. replace (N.to_nat (lenN (n_logs nd) + 1 - 1)) with (length (n_logs nd)) by (unfold lenN; lia).
    rewrite firstn_all. reflexivity. }
  split; [|split; [exact Hlogs|]].
  - constructor; auto.
    + rewrite Hlogs. apply wf_log_snoc; [apply (w_log _ W)| |].
      * unfold x; cbn [e_index]. unfold lenN. lia.
      * unfold x; cbn [e_term]. unfold last_term.
        destruct (n_logs nd) as [|a l] eqn:E; [cbn; lia|].
        apply (w_term _ W). rewrite E.
        destruct (exists_last (l := a :: l)) as [l' [y Ey]]; [discriminate|]. rewrite Ey, last_last.
        apply in_or_app; right; left; reflexivity.
    + rewrite Hlogs, last_term_snoc. change (local (st_append nd1 x)) with (local nd1). rewrite Hloc1. reflexivity.
    + rewrite Hlogs. intros e H. apply in_app_or in H as [H|[<-|[]]].
      * apply (w_term _ W); auto.
      * cbn. change (n_term (st_append nd1 x)) with (n_term nd). lia.
  - intros q H. apply in_map_iff in H as [j [<- _]]. cbn. auto.
Qed.

(* ------------------------------------------------------------------ append_logs (follower) *)

Lemma validate_log_append_true' : forall nd r log,
  validate_log_append nd r log = inl true ->
  p_lc (local nd) < e_index log /\ e_index log <= p_li (local nd) + 1 /\
  ((p_lt (local nd) = e_term log /\ e_index log = p_li (local nd) + 1) \/ p_lt (local nd) < e_term log).
Proof.
  intros nd r log. unfold validate_log_append.
  destruct (N.eqb_spec (p_lt (local nd)) (e_term log)).
  - destruct (N.leb_spec (e_index log) (p_li (local nd))); [discriminate|].
    destruct (N.ltb_spec (p_lc (local nd)) (e_index log)); cbn [andb]; [|discriminate].
    destruct (N.eqb_spec (p_li (local nd) + 1) (e_index log)); [|discriminate]. intros _. repeat split; lia.
  - destruct (N.ltb_spec (p_lt (local nd)) (e_term log)); cbn [andb]; [|discriminate].
    destruct (N.ltb_spec (p_lc (local nd)) (e_index log)); cbn [andb]; [|discriminate].
    destruct (N.leb_spec (e_index log) (p_li (local nd) + 1)); [|discriminate]. intros _. repeat split; lia.
Qed.

Lemma nwf_append_storage : forall nd r log,
  nwf nd -> validate_log_append nd r log = inl true -> e_term log <= n_term nd -> nwf (append_storage nd log).
Proof.
  intros nd r log W V T. pose proof (w_inv _ W) as I. pose proof I as [R C L S].
  apply validate_log_append_true' in V as (V1 & V2 & V3).
  pose proof (good_append_storage nd log I V1 V2) as [I' _].
  assert (Hlogs : n_logs (append_storage nd log) = firstn (N.to_nat (e_index log - 1)) (n_logs nd) ++ [log]) by reflexivity.
  assert (Hle : last_term (firstn (N.to_nat (e_index log - 1)) (n_logs nd)) <= e_term log).
  { pose proof (last_term_firstn_le (n_logs nd) (N.to_nat (e_index log - 1)) (w_log _ W)).
    rewrite <- (w_lt _ W) in H. lia. }
  constructor; auto.
  - rewrite Hlogs. apply wf_log_snoc; auto.
    + apply wf_log_firstn. apply (w_log _ W).
    + rewrite firstn_length. lia.
  - rewrite Hlogs, last_term_snoc. rewrite local_append_storage by exact R. reflexivity.
  - rewrite Hlogs. change (n_term (append_storage nd log)) with (n_term nd).
    intros e H. apply in_app_or in H as [H|[<-|[]]]; auto. apply (w_term _ W). eapply In_firstn; eauto.
Qed.

Lemma nwf_commit_storage : forall nd idx, nwf nd -> p_lc (local nd) < idx -> nwf (commit_storage nd idx).
Proof.
  intros nd idx W H. eapply nwf_keep; [exact W| | |].
  - apply good_commit_storage; auto. apply (w_inv _ W).
  - apply keep_commit_storage. apply (w_inv _ W).
  - change (n_term (commit_storage nd idx)) with (n_term nd). lia.
Qed.

(* one iteration of the loop *)
Definition loop_step (nd : node) (r : request) (log : entry) (doit : bool) : node :=
  let nd1 := if doit then append_storage nd log else nd in
  if (e_index log <=? q_lc r) && (p_lc (local nd1) <? e_index log) then commit_storage nd1 (e_index log) else nd1.

Lemma append_logs_cons : forall nd r log rest,
  append_logs nd r (log :: rest) =
  match validate_log_append nd r log with
  | inr resp => (nd, resp)
  | inl doit => append_logs (loop_step nd r log doit) r rest
  end.
Proof. reflexivity. Qed.

Lemma nwf_loop_step : forall nd r log doit,
  nwf nd -> validate_log_append nd r log = inl doit -> e_term log <= n_term nd ->
  nwf (loop_step nd r log doit) /\ n_term (loop_step nd r log doit) = n_term nd /\
  (doit = false -> n_logs (loop_step nd r log doit) = n_logs nd /\ p_li (local (loop_step nd r log doit)) = p_li (local nd)
                   /\ p_lt (local (loop_step nd r log doit)) = p_lt (local nd)) /\
  (doit = true -> p_li (local (loop_step nd r log doit)) = e_index log /\ p_lt (local (loop_step nd r log doit)) = e_term log /\
                  p_lc (local (loop_step nd r log doit)) <= e_index log).
Proof.
  intros nd r log doit W V T. unfold loop_step.
  set (nd1 := if doit then append_storage nd log else nd).
  assert (W1 : nwf nd1) by (unfold nd1; destruct doit; [eapply nwf_append_storage; eauto | auto]).
  assert (T1 : n_term nd1 = n_term nd) by (unfold nd1; destruct doit; reflexivity).
  pose proof (ni_range _ (w_inv _ W)) as R. pose proof (ni_range _ (w_inv _ W1)) as R1.
  assert (L1 : doit = true -> p_li (local nd1) = e_index log /\ p_lt (local nd1) = e_term log /\ p_lc (local nd1) < e_index log).
  { intros ->. unfold nd1. rewrite local_append_storage by exact R. cbn.
    apply validate_log_append_true' in V. repeat split; tauto. }
  destruct ((e_index log <=? q_lc r) && (p_lc (local nd1) <? e_index log)) eqn:E.
  - apply andb_true_iff in E as [_ E]. apply N.ltb_lt in E.
    split; [apply nwf_commit_storage; auto|]. split; [exact T1|]. split.
    + intros ->. unfold nd1. rewrite local_commit_storage by exact R. cbn. auto.
    + intros D. destruct (L1 D) as (A & B & _). rewrite local_commit_storage by exact R1. cbn. repeat split; auto. lia.
  - split; [exact W1|]. split; [exact T1|]. split.
    + intros ->. unfold nd1. auto.
    + intros D. destruct (L1 D) as (A & B & Cc). repeat split; auto. lia.
Qed.

Lemma nwf_append_logs : forall logs nd r,
  nwf nd -> (forall e, In e logs -> e_term e <= n_term nd) -> nwf (fst (append_logs nd r logs)).
Proof.
  induction logs as [|log rest IH]; intros nd r W T; [exact W|].
  rewrite append_logs_cons. destruct (validate_log_append nd r log) as [doit|resp] eqn:V; [|exact W].
  destruct (nwf_loop_step nd r log doit W V (T _ (or_introl eq_refl))) as (W' & T' & _).
  apply IH; auto. intros e H. rewrite T'. apply T. right; exact H.
Qed.

(* once an entry of a chain has been appended, the rest of the chain is appended too and the answer is Ok *)
Lemma append_logs_rest_ok : forall rest nd r prev,
  nwf nd -> chain (prev :: rest) -> (forall e, In e rest -> e_term e <= n_term nd) ->
  p_li (local nd) = e_index prev -> p_lt (local nd) = e_term prev -> p_lc (local nd) <= e_index prev ->
  s_result (snd (append_logs nd r rest)) = ROk.
Proof.
  induction rest as [|log rest IH]; intros nd r prev W C T Hi Ht Hc; [reflexivity|].
  destruct (C O prev log eq_refl eq_refl) as [Ci Ct].
  assert (V : validate_log_append nd r log = inl true).
  { unfold validate_log_append. rewrite Hi, Ht.
    destruct (N.eqb_spec (e_term prev) (e_term log)) as [E|E].
    - destruct (N.leb_spec (e_index log) (e_index prev)); [lia|].
      destruct (N.ltb_spec (p_lc (local nd)) (e_index log)); [|lia]. cbn [andb].
      destruct (N.eqb_spec (e_index prev + 1) (e_index log)); [reflexivity|lia].
    - destruct (N.ltb_spec (e_term prev) (e_term log)); [|lia]. cbn [andb].
      destruct (N.ltb_spec (p_lc (local nd)) (e_index log)); [|lia]. cbn [andb].
      destruct (N.leb_spec (e_index log) (e_index prev + 1)); [reflexivity|lia]. }
  rewrite append_logs_cons, V.
  destruct (nwf_loop_step nd r log true W V (T _ (or_introl eq_refl))) as (W' & T' & _ & L).
  destruct (L eq_refl) as (A & B & Cc).
  eapply (IH _ r log); auto.
  - eapply chain_tail; eauto.
  - intros e H. rewrite T'. apply T. right; exact H.
Qed.

(* the answer is Ok, or the log is untouched *)
Lemma append_logs_ok_or_same : forall logs nd r,
  nwf nd -> chain logs -> (forall e, In e logs -> e_term e <= n_term nd) ->
  s_result (snd (append_logs nd r logs)) = ROk \/ n_logs (fst (append_logs nd r logs)) = n_logs nd.
Proof.
  induction logs as [|log rest IH]; intros nd r W C T; [left; reflexivity|].
  rewrite append_logs_cons. destruct (validate_log_append nd r log) as [[|]|resp] eqn:V; [| |right; reflexivity].
  - left. destruct (nwf_loop_step nd r log true W V (T _ (or_introl eq_refl))) as (W' & T' & _ & L).
    destruct (L eq_refl) as (A & B & Cc).
    eapply (append_logs_rest_ok rest _ r log); auto.
    intros e H. rewrite T'. apply T. right; exact H.
  - destruct (nwf_loop_step nd r log false W V (T _ (or_introl eq_refl))) as (W' & T' & L & _).
    destruct (L eq_refl) as (A & _).
    destruct (IH (loop_step nd r log false) r W' (chain_tail _ _ C)) as [H|H]; auto.
    + intros e H. rewrite T'. apply T. right; exact H.
    + right. congruence.
Qed.

(* ------------------------------------------------------------------ requests *)

Lemma keep_become_follower : forall nd r, keep nd (become_follower nd r).
Proof. intros. unfold become_follower. destruct (_ <=? _); split; reflexivity. Qed.

Lemma In_skipn : forall A (l : list A) n x, In x (skipn n l) -> In x l.
Proof. intros A l n x H. rewrite <- (firstn_skipn n l). apply in_or_app. auto. Qed.

(* what a request does to the log: nothing, unless it is an Append that is answered Ok *)
Lemma request_shape : forall rv nd r el,
  nwf nd -> req_wf r -> q_from r <> n_index nd ->
  nwf (fst (handle_request rv nd r el)) /\
  (n_logs (fst (handle_request rv nd r el)) = n_logs nd \/
   (is_append_or_hb (q_kind r) = true /\ is_ok (s_result (snd (handle_request rv nd r el))) = true)).
Proof.
  intros rv nd r el W RW Hne. pose proof (w_inv _ W) as I.
  pose proof (good_request rv nd r el I Hne) as [I' _].
  pose proof (request_term rv nd r el) as [Tm _].
  unfold handle_request, req_wf in *. destruct (q_kind r) as [logs| | |] eqn:K.
  - (* Append *)
    unfold append_request in *. destruct (validate_term nd r) eqn:V; cbn [fst snd] in *; [split; auto|].
    destruct (term_become_follower nd r V) as [L E].
    set (nd1 := update_node (become_follower nd r) r) in *.
    assert (W1 : nwf nd1).
    { eapply nwf_keep; [exact W| | |].
      - pose proof (good_become_follower nd r I) as G1.
        assert (G2 : good (become_follower nd r) nd1).
        { apply good_update_node; [apply G1|]. destruct G1 as [_ (Hi & _)]. congruence. }
        apply G2.
      - eapply keep_trans; [apply keep_become_follower|]. apply keep_upd_peer.
        + apply (good_become_follower nd r I).
        + left. destruct (good_become_follower nd r I) as [_ (Hi & _)]. congruence.
      - change (n_term nd1) with (n_term (become_follower nd r)). lia. }
    assert (T1 : n_term nd1 = q_term r) by exact E.
    destruct RW as [C T].
    split.
    + apply nwf_append_logs; auto. intros e H. rewrite T1. auto.
    + destruct (append_logs_ok_or_same logs nd1 r W1 C) as [H|H].
      * intros e H. rewrite T1. auto.
      * right. rewrite H. auto.
      * left. rewrite H. unfold nd1. unfold update_node, become_follower. destruct (_ <=? _); reflexivity.
  - (* Heartbeat *)
    split; [|left].
    + eapply nwf_keep; [exact W|exact I'| |exact Tm].
      unfold heartbeat_request. destruct (validate_term nd r); cbn [fst]; [apply keep_refl|].
      destruct (validate_log (become_follower nd r) r); cbn [fst]; [apply keep_become_follower|].
      assert (K2 : keep nd (update_node (become_follower nd r) r)).
      { eapply keep_trans; [apply keep_become_follower|]. apply keep_upd_peer.
        - apply (good_become_follower nd r I).
        - left. destruct (good_become_follower nd r I) as [_ (Hi & _)]. congruence. }
      destruct (_ <? _); [|exact K2]. eapply keep_trans; [exact K2|]. apply keep_commit_storage.
      pose proof (good_become_follower nd r I) as G1.
      apply (good_update_node (become_follower nd r) r); [apply G1|]. destruct G1 as [_ (Hi & _)]. congruence.
    + unfold heartbeat_request. destruct (validate_term nd r); cbn [fst]; [reflexivity|].
      destruct (validate_log (become_follower nd r) r); cbn [fst].
      * apply keep_become_follower.
      * destruct (_ <? _); cbn; apply keep_become_follower.
  - (* PreVote *)
    assert (E : fst (pre_vote_request nd r el) = nd).
    { unfold pre_vote_request. destruct (validate_log_for_vote nd r); destruct (n_state nd); cbn [fst]; auto;
        destruct (el <=? n_tt nd); auto. }
    rewrite E. auto.
  - (* Vote *)
    split; [|left].
    + eapply nwf_keep; [exact W|exact I'| |exact Tm].
      unfold vote_request.
      destruct (validate_vote_state nd r); cbn [fst]; [apply keep_refl|].
      destruct (validate_term_for_vote nd r); cbn [fst]; [apply keep_refl|].
      destruct (validate_log_for_vote nd r); cbn [fst]; [apply keep_refl|].
      destruct (fix_vote_term rv); split; reflexivity.
    + unfold vote_request.
      destruct (validate_vote_state nd r); cbn [fst]; auto.
      destruct (validate_term_for_vote nd r); cbn [fst]; auto.
      destruct (validate_log_for_vote nd r); cbn [fst]; auto.
      destruct (fix_vote_term rv); reflexivity.
Qed.

(* a Leader that handles a request stays as it is, or it is an Append/Heartbeat of a term >= its own that
   makes it a follower of that term *)
Lemma request_leader : forall rv nd r el,
  is_leader (n_state nd) = true ->
  fst (handle_request rv nd r el) = nd \/
  (is_append_or_hb (q_kind r) = true /\ n_term nd <= q_term r /\ n_term (fst (handle_request rv nd r el)) = q_term r /\
   is_leader (n_state (fst (handle_request rv nd r el))) = false).
Proof.
  intros rv nd r el L. unfold handle_request. destruct (q_kind r) as [logs| | |] eqn:K.
  - unfold append_request. destruct (validate_term nd r) eqn:V; cbn [fst]; auto.
    destruct (term_become_follower nd r V) as [Le E]. right. repeat split; auto.
    + rewrite term_append_logs. exact E.
    + rewrite state_append_logs. destruct (become_follower_state nd r V) as [l El].
      change (n_state (update_node (become_follower nd r) r)) with (n_state (become_follower nd r)). rewrite El. reflexivity.
  - unfold heartbeat_request. destruct (validate_term nd r) eqn:V; cbn [fst]; auto.
    destruct (term_become_follower nd r V) as [Le E]. destruct (become_follower_state nd r V) as [l El]. right.
    destruct (validate_log (become_follower nd r) r); cbn [fst].
    + rewrite El. repeat split; auto.
    + destruct (_ <? _); cbn; rewrite El; repeat split; auto.
  - left. unfold pre_vote_request.
    destruct (validate_log_for_vote nd r); destruct (n_state nd); cbn [fst]; auto; destruct (el <=? n_tt nd); auto.
  - left. unfold vote_request, validate_vote_state. destruct (n_state nd); try discriminate. reflexivity.
Qed.

(* ------------------------------------------------------------------ responses *)

Lemma keep_election : forall nd, keep nd (fst (election nd)).
Proof. intros. unfold election; cbn [fst]. eapply keep_trans; [|apply keep_clear_votes]. split; reflexivity. Qed.

Lemma keep_response : forall rv nd r s,
  ninv nd -> q_to r <> n_index nd -> keep nd (fst (handle_response rv nd r s)).
Proof.
  intros rv nd r s I Hne.
  assert (KV : keep nd (upd_peer nd (q_to r) (p_set_voted true))) by (apply keep_upd_peer; auto).
  assert (KC : keep nd (fst (commit nd r))).
  { unfold commit. set (nd1 := upd_peer nd (q_to r) (p_set_all (q_li r) (q_lt r) (q_lc r))).
    assert (K1 : keep nd nd1) by (apply keep_upd_peer; auto).
    destruct (_ && _); cbn [fst]; auto. eapply keep_trans; [exact K1|]. apply keep_commit_storage.
    apply (good_upd_peer nd (q_to r) (p_set_all (q_li r) (q_lt r) (q_lc r)) I). auto. }
  unfold handle_response.
  destruct (n_state nd); destruct (q_kind r); destruct (s_result s); cbn [fst];
    first [ apply keep_refl
          | destruct (ack_counts rv nd r); cbn [fst]; [exact KC | apply keep_refl]
          | unfold pre_vote_received; destruct (_ <? _); [eapply keep_trans; [exact KV|apply keep_election] | exact KV]
          | destruct (vote_counts rv nd r); cbn [fst]; [|apply keep_refl];
            rewrite vote_received_eq; destruct (_ <? _); cbn [fst]; [|exact KV];
            eapply keep_trans; [exact KV|];
            destruct (fix_ack_term rv); (split; [reflexivity | rewrite ?local_reset_rows; reflexivity])
          | match goal with |- context [if ?b then _ else _] => destruct b end; cbn [fst]; [split; reflexivity | apply keep_refl] ].
Qed.

(* what a Leader becomes by handling a response *)
Lemma response_from_leader : forall rv nd r s,
  is_leader (n_state nd) = true ->
  (is_leader (n_state (fst (handle_response rv nd r s))) = true /\ n_term (fst (handle_response rv nd r s)) = n_term nd) \/
  (is_leader (n_state (fst (handle_response rv nd r s))) = false /\ n_term nd < n_term (fst (handle_response rv nd r s))).
Proof.
  intros rv nd r s L. unfold handle_response.
  destruct (n_state nd) eqn:S; try discriminate.
  destruct (q_kind r); destruct (s_result s); cbn [fst];
    try (destruct (ack_counts rv nd r); cbn [fst]; left; rewrite ?state_commit, ?term_commit, S; split; reflexivity);
    try (left; rewrite ?state_commit, ?term_commit, S; split; reflexivity);
    try (left; unfold reconcile; cbn [fst]; rewrite S; split; reflexivity);
    try (match goal with |- context [if n_term nd <? ?l then _ else _] => destruct (N.ltb_spec (n_term nd) l) end; cbn [fst];
         [right; cbn; split; [reflexivity|lia] | left; rewrite S; split; reflexivity]).
Qed.

(* the requests a response handler sends *)
Lemma response_reqs : forall rv nd r s q,
  nwf nd -> In q (snd (handle_response rv nd r s)) ->
  req_wf q /\
  (is_append_or_hb (q_kind q) = true ->
   is_leader (n_state (fst (handle_response rv nd r s))) = true /\ q_term q = n_term (fst (handle_response rv nd r s))).
Proof.
  intros rv nd r s q W. unfold handle_response.
  assert (HB : forall n0, is_leader (n_state n0) = true -> In q (heartbeat_no_timer n0) ->
               req_wf q /\ (is_append_or_hb (q_kind q) = true -> is_leader (n_state n0) = true /\ q_term q = n_term n0)).
  { intros n0 L H. unfold heartbeat_no_timer in H. apply in_map_iff in H as [j [<- _]]. unfold req_wf. cbn. auto. }
  assert (CM : n_state nd = Leader -> In q (snd (commit nd r)) ->
               req_wf q /\ (is_append_or_hb (q_kind q) = true ->
                 is_leader (n_state (fst (commit nd r))) = true /\ q_term q = n_term (fst (commit nd r)))).
  { intros S. unfold commit. destruct (_ && _); cbn [fst snd]; [|intros []].
    apply HB. cbn. rewrite S. reflexivity. }
  assert (RC : forall cl, n_state nd = Leader -> In q (snd (reconcile nd r cl)) ->
               req_wf q /\ (is_append_or_hb (q_kind q) = true ->
                 is_leader (n_state (fst (reconcile nd r cl))) = true /\ q_term q = n_term (fst (reconcile nd r cl)))).
  { intros cl S [<-|[]]. unfold req_wf, reconcile. cbn. rewrite S. split; [split|auto].
    - apply wf_log_skipn_chain. apply (w_log _ W).
    - intros e H. apply (w_term _ W). eapply In_skipn; eauto. }
  destruct (n_state nd) eqn:S; destruct (q_kind r); destruct (s_result s); cbn [fst snd];
    try (destruct (ack_counts rv nd r); cbn [fst snd]; [apply CM; reflexivity | intros H; exact (False_ind _ H)]);
    try (apply RC; reflexivity);
    try (intros H; exact (False_ind _ H));
    try (match goal with |- context [if n_term nd <? ?l then _ else _] => destruct (n_term nd <? l) end; cbn [fst snd];
         intros H; exact (False_ind _ H)).
  - (* Candidate, Vote, Ok *)
    destruct (vote_counts rv nd r); cbn [fst snd]; [|intros []].
    rewrite vote_received_eq. destruct (_ <? _); cbn [fst snd]; [|intros []].
    intros H. match type of H with In _ (heartbeat_no_timer ?X) => destruct (HB X eq_refl H) as [A B] end. split; [exact A|]. intros Kq. destruct (B Kq) as [B1 B2].
    destruct (fix_ack_term rv); split; [exact B1 | exact B2 | exact B1 | exact B2].
  - (* Election, PreVote, Ok *)
    unfold pre_vote_received. destruct (_ <? _); cbn [fst snd]; [|intros []].
    unfold election; cbn [snd]. intros H. apply in_map_iff in H as [j [<- _]]. unfold req_wf. cbn. split; auto.
Qed.
