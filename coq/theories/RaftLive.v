(* RaftLive.v — C30: fault-free schedules of the consensus model. *)
From Coq Require Import NArith List Bool Lia Arith.
From Agdb Require Import Raft RaftProofs.
Import ListNotations.
Open Scope N_scope.

(* the configured schedule: node 0 (first election timeout 0 ms) starts the election, every message is
   delivered (oldest first), then the client appends the entries one after the other at the leader *)
Fixpoint healthy_run (c : cluster) (data : list N) : cluster :=
  match data with
  | [] => c
  | d :: rest => healthy_run (drain 200 (step c (ClientAppend 0 d))) rest
  end.

Definition healthy (size : N) (data : list N) : cluster :=
  healthy_run (drain 200 (step (init_default size) (Tick 0 0 []))) data.

Lemma C30_fifo_3 :
  let c := healthy 3 [101; 102] in
  c_net c = [] /\ all_synced_b c [101; 102] = true /\ election_safety_b (c_hist c) = true.
Proof. vm_compute. auto. Qed.

Lemma C30_fifo_5 :
  let c := healthy 5 [101; 102] in
  c_net c = [] /\ all_synced_b c [101; 102] = true /\ election_safety_b (c_hist c) = true.
Proof. vm_compute. auto. Qed.
