(* RaftLive.v — C30: fault-free schedules of the consensus model.
   1. FIFO schedule, 3 and 5 nodes (vm_compute).
   2. ALL fault-free interleavings for 3 nodes: a reflective exhaustive exploration (`check`) with the
      soundness lemma that it covers every run of the relation `ff_run`; the bound is in the statement. *)
From Coq Require Import NArith List Bool Lia Arith.
From Agdb Require Import Raft RaftProofs.
Import ListNotations.
Open Scope N_scope.

(* ================================================================== 1. FIFO *)

(* the configured schedule: node 0 (first election timeout 0 ms) starts the election, every message is
   delivered (oldest first), then the client appends the entries one after the other at the leader *)
Fixpoint healthy_run (rv : raftrev) (c : cluster) (data : list N) : cluster :=
  match data with
  | [] => c
  | d :: rest => healthy_run rv (drain rv 200 (step rv c (ClientAppend 0 d))) rest
  end.

Definition healthy (rv : raftrev) (size : N) (data : list N) : cluster :=
  healthy_run rv (drain rv 200 (step rv (init_default size) (Tick 0 0 []))) data.

(* every revision of the election code (Raft.v: raftrev; before / after each of the two repairs) *)
Lemma C30_fifo_3 : forall rv,
  let c := healthy rv 3 [101; 102] in
  c_net c = [] /\ all_synced_b c [101; 102] = true /\ election_safety_b (c_hist c) = true.
Proof. intros [[|] [|] [|]]; vm_compute; auto. Qed.

Lemma C30_fifo_5 : forall rv,
  let c := healthy rv 5 [101; 102] in
  c_net c = [] /\ all_synced_b c [101; 102] = true /\ election_safety_b (c_hist c) = true.
Proof. intros [[|] [|] [|]]; vm_compute; auto. Qed.

(* ================================================================== 2. all fault-free interleavings *)

(* A fault-free run: scripted actions (timer expirations, client appends) happen when no message is in flight
   (message latency << timeouts); while messages are in flight ANY of them may be delivered next (no loss, no
   duplication, arbitrary order); `elapsed = 0`: no timer has expired at a receiver. *)
Inductive dl_run (rv : raftrev) : cluster -> cluster -> Prop :=
| dl_done : forall c, c_net c = [] -> dl_run rv c c
| dl_step : forall c k c', (k < length (c_net c))%nat -> dl_run rv (step rv c (Deliver k 0)) c' -> dl_run rv c c'.

Inductive ff_run (rv : raftrev) : list event -> cluster -> cluster -> Prop :=
| ff_nil : forall c, ff_run rv [] c c
| ff_act : forall a rest c c1 c', dl_run rv (step rv c a) c1 -> ff_run rv rest c1 c' -> ff_run rv (a :: rest) c c'.

(* ------------------------------------------------------------------ decidable equality of (history-free) clusters *)

Definition strip (c : cluster) : cluster := mkCluster (c_nodes c) (c_net c) [].

Fixpoint list_eqb {A} (eqb : A -> A -> bool) (a b : list A) : bool :=
  match a, b with
  | [], [] => true
  | x :: a', y :: b' => eqb x y && list_eqb eqb a' b'
  | _, _ => false
  end.

Lemma list_eqb_sound : forall A (eqb : A -> A -> bool),
  (forall x y, eqb x y = true -> x = y) -> forall a b, list_eqb eqb a b = true -> a = b.
Proof.
  intros A eqb H. induction a as [|x a IH]; destruct b as [|y b]; cbn; intros E; try discriminate; auto.
  apply andb_true_iff in E as [E1 E2]. f_equal; auto.
Qed.

Definition cstate_eqb (a b : cstate) : bool :=
  match a, b with
  | Candidate, Candidate | Election, Election | Leader, Leader => true
  | Follower x, Follower y | Voted x, Voted y => x =? y
  | _, _ => false
  end.

Definition peer_eqb (a b : peer) : bool :=
  (p_li a =? p_li b) && (p_lt a =? p_lt b) && (p_lc a =? p_lc b) && Bool.eqb (p_voted a) (p_voted b).

Definition rkind_eqb (a b : rkind) : bool :=
  match a, b with
  | KAppend x, KAppend y => list_eqb entry_eqb x y
  | KHeartbeat, KHeartbeat | KPreVote, KPreVote | KVote, KVote => true
  | _, _ => false
  end.

Definition request_eqb (a b : request) : bool :=
  (q_from a =? q_from b) && (q_to a =? q_to b) && (q_term a =? q_term b) && (q_li a =? q_li b) &&
  (q_lt a =? q_lt b) && (q_lc a =? q_lc b) && rkind_eqb (q_kind a) (q_kind b).

Definition rresult_eqb (a b : rresult) : bool :=
  match a, b with
  | ROk, ROk => true
  | RLeaderMismatch x, RLeaderMismatch y => x =? y
  | RTermMismatch x1 x2, RTermMismatch y1 y2 => (x1 =? y1) && (x2 =? y2)
  | RLogMismatch a1 a2 a3 a4 a5 a6, RLogMismatch b1 b2 b3 b4 b5 b6 =>
      (a1 =? b1) && (a2 =? b2) && (a3 =? b3) && (a4 =? b4) && (a5 =? b5) && (a6 =? b6)
  | RAlreadyVoted x1 x2, RAlreadyVoted y1 y2 => (x1 =? y1) && (x2 =? y2)
  | _, _ => false
  end.

Definition msg_eqb (a b : msg) : bool :=
  match a, b with
  | MReq x, MReq y => request_eqb x y
  | MResp x s, MResp y t => request_eqb x y && (s_to s =? s_to t) && rresult_eqb (s_result s) (s_result t)
  | _, _ => false
  end.

Definition node_eqb (a b : node) : bool :=
  (n_index a =? n_index b) && (n_size a =? n_size b) && cstate_eqb (n_state a) (n_state b) &&
  (n_term a =? n_term b) && list_eqb peer_eqb (n_peers a) (n_peers b) &&
  list_eqb entry_eqb (n_logs a) (n_logs b) && (n_commit a =? n_commit b) &&
  (n_first a =? n_first b) && (n_et a =? n_et b) && (n_hb a =? n_hb b) && (n_tt a =? n_tt b).

Definition sc_eqb (a b : cluster) : bool :=
  list_eqb node_eqb (c_nodes a) (c_nodes b) && list_eqb msg_eqb (c_net a) (c_net b).

Ltac split_andb H :=
  repeat match type of H with
         | _ && _ = true => let H2 := fresh "E" in apply andb_true_iff in H as [H H2]
         end.
Ltac neqs := repeat match goal with H : (_ =? _) = true |- _ => apply N.eqb_eq in H end.

Lemma cstate_eqb_sound : forall a b, cstate_eqb a b = true -> a = b.
Proof. intros [] []; cbn; intros H; try discriminate; neqs; subst; auto. Qed.

Lemma peer_eqb_sound : forall a b, peer_eqb a b = true -> a = b.
Proof.
  intros [] []; unfold peer_eqb; cbn; intros H. split_andb H. neqs. apply Bool.eqb_prop in E. subst; auto.
Qed.

Lemma entry_eqb_sound : forall a b, entry_eqb a b = true -> a = b.
Proof. intros a b H. apply entry_eqb_eq; auto. Qed.

Lemma rkind_eqb_sound : forall a b, rkind_eqb a b = true -> a = b.
Proof.
  intros [] []; cbn; intros H; try discriminate; auto.
  f_equal. eapply list_eqb_sound; eauto using entry_eqb_sound.
Qed.

Lemma request_eqb_sound : forall a b, request_eqb a b = true -> a = b.
Proof.
  intros [] []; unfold request_eqb; cbn; intros H. split_andb H. neqs.
  match goal with H : rkind_eqb _ _ = true |- _ => apply rkind_eqb_sound in H end. subst; auto.
Qed.

Lemma rresult_eqb_sound : forall a b, rresult_eqb a b = true -> a = b.
Proof. intros [] []; cbn; intros H; try discriminate; split_andb H; neqs; subst; auto. Qed.

Lemma msg_eqb_sound : forall a b, msg_eqb a b = true -> a = b.
Proof.
  intros [x|x [s1 s2]] [y|y [t1 t2]]; cbn; intros H; try discriminate.
  - apply request_eqb_sound in H. subst; auto.
  - split_andb H. neqs. apply request_eqb_sound in H.
    match goal with H : rresult_eqb _ _ = true |- _ => apply rresult_eqb_sound in H end. subst; auto.
Qed.

Lemma node_eqb_sound : forall a b, node_eqb a b = true -> a = b.
Proof.
  intros [] []; unfold node_eqb; cbn; intros H. split_andb H. neqs.
  repeat match goal with
         | H : cstate_eqb _ _ = true |- _ => apply cstate_eqb_sound in H
         | H : list_eqb peer_eqb _ _ = true |- _ => apply (list_eqb_sound _ _ peer_eqb_sound) in H
         | H : list_eqb entry_eqb _ _ = true |- _ => apply (list_eqb_sound _ _ entry_eqb_sound) in H
         end.
  subst; auto.
Qed.

Lemma sc_eqb_sound : forall a b, sc_eqb a b = true -> strip a = strip b.
Proof.
  intros a b H. unfold sc_eqb in H. apply andb_true_iff in H as [H1 H2].
  apply (list_eqb_sound _ _ node_eqb_sound) in H1. apply (list_eqb_sound _ _ msg_eqb_sound) in H2.
  unfold strip. congruence.
Qed.

(* ------------------------------------------------------------------ the history never influences nodes or network *)

Lemma step_strip : forall rv c e, strip (step rv c e) = strip (step rv (strip c) e).
Proof.
  intros rv c e. destruct e as [i el due | k el | k | k | i d]; cbn [step].
  - change (get_node (strip c) i) with (get_node c i).
    destruct (get_node c i) as [n|]; [|reflexivity]. destruct (process n el due). reflexivity.
  - change (c_net (strip c)) with (c_net c).
    destruct (nth_error (c_net c) k) as [[r|r s]|]; [| |reflexivity].
    + change (get_node (strip c) (q_to r)) with (get_node c (q_to r)).
      destruct (get_node c (q_to r)) as [n|]; [|reflexivity]. destruct (handle_request rv n r el). reflexivity.
    + change (get_node (strip c) (s_to s)) with (get_node c (s_to s)).
      destruct (get_node c (s_to s)) as [n|]; [|reflexivity]. destruct (handle_response rv n r s). reflexivity.
  - reflexivity.
  - change (c_net (strip c)) with (c_net c). destruct (nth_error (c_net c) k); reflexivity.
  - change (get_node (strip c) i) with (get_node c i).
    destruct (get_node c i) as [n|]; [|reflexivity]. destruct (is_leader (n_state n)); [|reflexivity].
    destruct (append n d). reflexivity.
Qed.

Lemma strip_idem : forall c, strip (strip c) = strip c. Proof. reflexivity. Qed.

(* ------------------------------------------------------------------ the exploration *)

Definition insert (c : cluster) (l : list cluster) : list cluster :=
  if existsb (sc_eqb c) l then l else c :: l.

Definition union (l1 l2 : list cluster) : list cluster := fold_right insert l2 l1.

(* covers x l: l contains x up to the history *)
Definition covers (l : list cluster) (x : cluster) : Prop := exists y, In y l /\ strip y = strip x.

Lemma covers_insert : forall c l x, covers (c :: l) x -> covers (insert c l) x.
Proof.
  intros c l x [y [[<-|Hy] E]]; unfold insert.
  - destruct (existsb (sc_eqb c) l) eqn:X.
    + apply existsb_exists in X as [z [Hz Ez]]. apply sc_eqb_sound in Ez. exists z. split; auto. congruence.
    + exists c. cbn; auto.
  - destruct (existsb (sc_eqb c) l); exists y; cbn; auto.
Qed.

Lemma covers_union : forall l1 l2 x, covers l1 x \/ covers l2 x -> covers (union l1 l2) x.
Proof.
  induction l1 as [|c l1 IH]; intros l2 x H; cbn [union fold_right].
  - destruct H as [[y [[] _]]|H]; auto.
  - apply covers_insert. destruct H as [[y [[Hc|Hy] E]]|H].
    + exists y. cbn; auto.
    + destruct (IH l2 x) as [z [Hz Ez]]; [left; exists y; auto|]. exists z. cbn; auto.
    + destruct (IH l2 x) as [z [Hz Ez]]; [right; auto|]. exists z. cbn; auto.
Qed.

(* all quiescent states reachable by deliveries (None: out of fuel) *)
Fixpoint finals (rv : raftrev) (fuel : nat) (c : cluster) : option (list cluster) :=
  match fuel with
  | O => None
  | S f =>
      match c_net c with
      | [] => Some [strip c]
      | _ => fold_left (fun acc k =>
                          match acc, finals rv f (strip (step rv c (Deliver k 0))) with
                          | Some a, Some b => Some (union b a)
                          | _, _ => None
                          end)
                       (seq 0 (length (c_net c))) (Some [])
      end
  end.

Lemma fold_finals_some : forall (F : nat -> option (list cluster)) ks acc L,
  fold_left (fun acc k => match acc, F k with Some a, Some b => Some (union b a) | _, _ => None end) ks acc = Some L ->
  exists a, acc = Some a /\
    (forall x, covers a x -> covers L x) /\
    (forall k b, In k ks -> F k = Some b -> forall x, covers b x -> covers L x) /\
    (forall k, In k ks -> exists b, F k = Some b).
Proof.
  intros F. induction ks as [|k ks IH]; intros acc L H; cbn [fold_left] in H.
  - exists L. split; [exact H|]. split; [auto|]. split; [intros k b []|intros k []].
  - destruct (IH _ _ H) as [a' [Ea [C1 [C2 C3]]]].
    destruct acc as [a|]; [|discriminate]. destruct (F k) as [b|] eqn:Fk; [|discriminate].
    inversion Ea; subst a'. exists a. repeat split; auto.
    + intros x Hx. apply C1. apply covers_union; auto.
    + intros k0 b0 [<-|Hk] Hb x Hx.
      * rewrite Fk in Hb. inversion Hb; subst b0. apply C1. apply covers_union; auto.
      * eapply C2; eauto.
    + intros k0 [<-|Hk]; eauto.
Qed.

Lemma finals_sound : forall rv fuel c L,
  finals rv fuel (strip c) = Some L -> forall c', dl_run rv c c' -> covers L c'.
Proof.
  intros rv. induction fuel as [|f IH]; intros c L H c' R; cbn [finals] in H; [discriminate|].
  change (c_net (strip c)) with (c_net c) in H.
  destruct R as [c Hn | c k c' Hk R].
  - rewrite Hn in H. inversion H. exists (strip (strip c)). split; cbn; auto.
  - destruct (c_net c) as [|m net] eqn:Hnet; [cbn in Hk; lia|].
    apply fold_finals_some in H as [a [_ [_ [C2 C3]]]].
    assert (Hin : In k (seq 0 (length (m :: net)))) by (apply in_seq; lia).
    destruct (C3 _ Hin) as [b Hb]. eapply C2; eauto.
    eapply IH; [|exact R]. rewrite step_strip. exact Hb.
Qed.

(* one scripted action after the other, each followed by all interleavings of the deliveries *)
Fixpoint phases (rv : raftrev) (fuel : nat) (script : list event) (L : list cluster) : option (list cluster) :=
  match script with
  | [] => Some L
  | a :: rest =>
      match fold_left (fun acc c =>
                         match acc, finals rv fuel (strip (step rv c a)) with
                         | Some x, Some b => Some (union b x)
                         | _, _ => None
                         end) L (Some []) with
      | Some L' => phases rv fuel rest L'
      | None => None
      end
  end.

Lemma fold_phase_some : forall (F : cluster -> option (list cluster)) cs acc L,
  fold_left (fun acc c => match acc, F c with Some a, Some b => Some (union b a) | _, _ => None end) cs acc = Some L ->
  exists a, acc = Some a /\
    (forall x, covers a x -> covers L x) /\
    (forall c, In c cs -> exists b, F c = Some b /\ forall x, covers b x -> covers L x).
Proof.
  intros F. induction cs as [|c cs IH]; intros acc L H; cbn [fold_left] in H.
  - exists L. split; [exact H|]. split; [auto|intros c []].
  - destruct (IH _ _ H) as [a' [Ea [C1 C2]]].
    destruct acc as [a|]; [|discriminate]. destruct (F c) as [b|] eqn:Fc; [|discriminate].
    inversion Ea; subst a'. exists a. repeat split; auto.
    + intros x Hx. apply C1. apply covers_union; auto.
    + intros c0 [<-|Hc]; auto. exists b. split; auto. intros x Hx. apply C1. apply covers_union; auto.
Qed.

Lemma phases_sound : forall rv fuel script L L',
  phases rv fuel script L = Some L' ->
  forall c c', covers L c -> ff_run rv script c c' -> covers L' c'.
Proof.
  intros rv fuel. induction script as [|a rest IH]; intros L L' H c c' Hc R; cbn [phases] in H.
  - inversion H; subst. inversion R; subst. exact Hc.
  - inversion R as [|a0 rest0 c0 c1 c2 D R2]; subst.
    destruct (fold_left _ L (Some [])) as [L1|] eqn:F; [|discriminate].
    apply fold_phase_some in F as [_ [_ [_ C2]]].
    destruct Hc as [y [Hy Ey]]. destruct (C2 _ Hy) as [b [Fb Cb]].
    eapply IH; [exact H| |exact R2]. apply Cb.
    (* the deliveries after action a, started from y, cover those started from c *)
    assert (E : strip (step rv y a) = strip (step rv c a)) by (rewrite (step_strip rv y), (step_strip rv c), Ey; reflexivity).
    assert (Fb' : finals rv fuel (strip (step rv c a)) = Some b) by (rewrite <- E; exact Fb).
    eapply finals_sound; eauto.
Qed.

Definition check (rv : raftrev) (fuel : nat) (script : list event) (goal : cluster -> bool) (c : cluster) : bool :=
  match phases rv fuel script [c] with
  | Some L => forallb goal L
  | None => false
  end.

Lemma check_sound : forall rv fuel script goal c,
  (forall x, goal (strip x) = goal x) ->
  check rv fuel script goal c = true ->
  forall c', ff_run rv script c c' -> goal c' = true.
Proof.
  intros rv fuel script goal c G H c' R. unfold check in H.
  destruct (phases rv fuel script [c]) as [L|] eqn:P; [|discriminate].
  assert (Hc : covers [c] c) by (exists c; cbn; auto).
  destruct (phases_sound _ _ _ _ _ P c c' Hc R) as [y [Hy Ey]].
  rewrite forallb_forall in H. rewrite <- G, <- Ey, G. apply H; auto.
Qed.

Lemma all_synced_strip : forall data x, all_synced_b (strip x) data = all_synced_b x data.
Proof. reflexivity. Qed.

(* C30 for 3 nodes, EVERY fault-free interleaving: node 0's election timer fires (configured first timeout 0 ms),
   two client appends at the leader, then a heartbeat round (both peers due); after each scripted action the
   messages in flight are delivered in any order.  Every such run ends with exactly one leader, the other two
   nodes its followers, all logs equal to [101; 102] and committed on every node. *)
Definition script3 : list event :=
  [Tick 0 0 []; ClientAppend 0 101; ClientAppend 0 102; Tick 0 1001 [1; 2]].

Lemma C30_check3 : forall rv, check rv 100 script3 (fun c => all_synced_b c [101; 102]) (init_default 3) = true.
Proof. intros [[|] [|] [|]]; vm_compute; reflexivity. Qed.

Theorem C30_all_interleavings_3 : forall rv c',
  ff_run rv script3 (init_default 3) c' -> all_synced_b c' [101; 102] = true.
Proof.
  intros rv c' R.
  apply (check_sound rv 100 script3 (fun c => all_synced_b c [101; 102]) (init_default 3));
    [intros x; apply all_synced_strip | apply C30_check3 | exact R].
Qed.

(* the relation is inhabited: the FIFO run is one of the runs covered *)
Lemma dl_run_drain : forall rv fuel c, c_net (drain rv fuel c) = [] -> dl_run rv c (drain rv fuel c).
Proof.
  intros rv. induction fuel as [|f IH]; intros c H; cbn [drain] in *.
  - apply dl_done; auto.
  - destruct (c_net c) as [|m net] eqn:E.
    + apply dl_done; auto.
    + eapply (dl_step rv c 0%nat); [rewrite E; cbn; lia|]. apply IH; auto.
Qed.

Lemma C30_nonvacuous : forall rv, exists c', ff_run rv script3 (init_default 3) c' /\ all_synced_b c' [101; 102] = true.
Proof.
  intros rv.
  set (c1 := drain rv 200 (step rv (init_default 3) (Tick 0 0 []))).
  set (c2 := drain rv 200 (step rv c1 (ClientAppend 0 101))).
  set (c3 := drain rv 200 (step rv c2 (ClientAppend 0 102))).
  set (c4 := drain rv 200 (step rv c3 (Tick 0 1001 [1; 2]))).
  assert (R : ff_run rv script3 (init_default 3) c4).
  { unfold script3.
    apply (ff_act rv _ _ _ c1); [apply (dl_run_drain rv 200); destruct rv as [[|] [|] [|]]; vm_compute; reflexivity|].
    apply (ff_act rv _ _ _ c2); [apply (dl_run_drain rv 200); destruct rv as [[|] [|] [|]]; vm_compute; reflexivity|].
    apply (ff_act rv _ _ _ c3); [apply (dl_run_drain rv 200); destruct rv as [[|] [|] [|]]; vm_compute; reflexivity|].
    apply (ff_act rv _ _ _ c4); [apply (dl_run_drain rv 200); destruct rv as [[|] [|] [|]]; vm_compute; reflexivity|].
    apply ff_nil. }
  exists c4. split; [exact R | apply (C30_all_interleavings_3 rv); exact R].
Qed.
