(* UndoGraphUnlinkOut2.v — C13: remove_from_edge as the abstract "remove e from the out-list
   of its source" (the edge slot becomes detached on the out side). *)
From Agdb Require Import Bytes BytesProofs DbValue Graph DbModel UndoBase UndoObs UndoKv UndoGraphBase UndoGraph UndoGraphAlloc UndoGraphEdge UndoGraphUnlinkOut.
From Coq Require Import Permutation ZifyBool ZifyNat ZifyN.
Ltac Zify.zify_post_hook ::= Z.div_mod_to_equations.
Open Scope Z_scope.

(* slot_kind depends on fmeta only through its sign *)
Lemma slot_kind_ext_sign g g' i : 0 < i ->
  ((i <? capacity g') = (i <? capacity g)) ->
  ((fmeta g' i <? 0) = (fmeta g i <? 0)) -> from g' i = from g i -> to g' i = to g i ->
  slot_kind g' i = slot_kind g i.
Proof.
  intros Hi Hc Hf Hfr Hto. unfold slot_kind, valid_index, edge_from, edge_to.
  rewrite Z.abs_eq by lia. rewrite Hc, Hf, Hfr, Hto. reflexivity.
Qed.

Lemma rep_unlink_out g a Xo Xi e f t :
  rep_x g a Xo Xi -> 0 < e -> ak a e = KEdge f t -> ~ Xo e ->
  exists g', remove_from_edge g (- e) = Some g' /\
             rep_x g' (a_set_out a f (lrem e (aout a f))) (fun x => Xo x \/ x = e) Xi /\
             capacity g' = capacity g.
Proof.
  intros R He Hk Hnx.
  pose proof (r_lens _ _ _ _ R) as Hl. pose proof (r_cap _ _ _ _ R) as Hcap.
  destruct (rep_edge_arrays _ _ _ _ R e f t He Hk) as (Her & Hefm & Hefr & Heto & Hf & Ht).
  destruct (r_edge _ _ _ _ R e f t He Hk) as (_ & _ & Kf & Kt).
  destruct (r_out _ _ _ _ R f Hf Kf) as (Hc & Hnd & Hdeg).
  assert (Hin : In e (aout a f)).
  { apply (r_out_mem _ _ _ _ R); [assumption|assumption|]. split; [assumption|]. split; [eauto | assumption]. }
  destruct (in_split _ _ Hin) as (l1 & l2 & El).
  destruct (remove_from_edge_arrays g a Xo Xi e f t l1 l2 R He Hk El)
    as (g' & Hrm & Hl' & Hcp & Hto & Htm & Hch & Hdeg' & Hfr0 & Hfr & Hfm & Hfmp).
  exists g'. split; [exact Hrm|]. split; [|exact Hcp].
  assert (Elr : lrem e (aout a f) = l1 ++ l2) by (rewrite El; apply lrem_split; rewrite <- El; exact Hnd).
  assert (Hl1 : forall x, In x l1 -> In x (aout a f)).
  { intros x Hx. rewrite El. apply in_or_app. left. exact Hx. }
  (* members of l1 are edges of f: not nodes, not free, not in other out-lists *)
  assert (Hl1k : forall x, In x l1 -> 0 < x /\ exists t', ak a x = KEdge f t').
  { intros x Hx. apply Hl1 in Hx. pose proof (rep_out_range _ _ _ _ R f x Hf Kf Hx).
    split; [lia|]. apply (rep_out_edge _ _ _ _ R f x Hf Kf Hx). }
  assert (Hfm' : forall j, 0 <= j -> (forall t', ak a j <> KEdge f t') -> j <> f -> fmeta g' j = fmeta g j).
  { intros j Hj Hnk Hjf. apply Hfm; try assumption. intros Hjin. destruct (Hl1k j Hjin) as (_ & t' & Ht'). exact (Hnk t' Ht'). }
  constructor; cbn [a_set_out ak aout ain acount afree acap].
  - assumption.
  - rewrite Hcp. assumption.
  - rewrite Hcp. apply (r_acap _ _ _ _ R).
  - rewrite (r_count _ _ _ _ R). unfold node_count. symmetry. apply Htm.
  - rewrite Hfm by (try lia; intros Hc0; destruct (Hl1k 0 Hc0); lia).
    eapply fchain_ext; [apply (r_free _ _ _ _ R)|]. intros x Hx.
    pose proof (rep_free_range _ _ _ _ R x Hx). pose proof (rep_free_kind _ _ _ _ R x Hx) as Hkx.
    apply Hfm'; [lia | intros t' Ht'; congruence | intros ->; congruence].
  - apply (r_free_nd _ _ _ _ R).
  - intros x Hx. rewrite Hcp. destruct (r_free_in _ _ _ _ R x Hx) as (Hr & Hneg & H1 & H2 & H3).
    pose proof (rep_free_kind _ _ _ _ R x Hx) as Hkx.
    assert (x <> f) by (intros ->; congruence).
    rewrite Hfm', Hfr, Hto, Htm by (try lia; try assumption; intros t' Ht'; congruence). auto.
  - intros i Hi. rewrite (r_kind _ _ _ _ R) by assumption. symmetry.
    destruct (Z.eq_dec i f) as [->|Hif].
    + rewrite <- (r_kind _ _ _ _ R), Kf by assumption. apply slot_kind_node; [assumption|].
      rewrite Hcp, Hdeg', Hdeg, El, app_length. cbn [length].
      pose proof (rep_node_range _ _ _ _ R f Hf Kf). lia.
    + apply slot_kind_ext_sign; auto.
      * rewrite Hcp. reflexivity.
      * destruct (in_dec Z.eq_dec i l1) as [Hil|Hnil].
        -- pose proof (Hfmp i Hil). destruct (Hl1k i Hil) as (_ & t' & Ht').
           destruct (rep_edge_arrays _ _ _ _ R i f t' Hi Ht') as (_ & Hifm & _).
           destruct (Z.ltb_spec (fmeta g' i) 0), (Z.ltb_spec (fmeta g i) 0); try lia; reflexivity.
        -- rewrite Hfm by (try lia; assumption). reflexivity.
      * apply Hfr; [lia | assumption].
  - intros n Hn Hkn. destruct (Z.eq_dec n f) as [->|Hnf].
    + rewrite upd_same, Elr. split; [exact Hch|]. split.
      * rewrite El in Hnd. apply NoDup_remove_1 in Hnd. exact Hnd.
      * rewrite Hdeg', Hdeg, El, !app_length. cbn [length]. lia.
    + rewrite upd_other by assumption. destruct (r_out _ _ _ _ R n Hn Hkn) as (Hcn & Hndn & Hdegn).
      rewrite Hfr by (try lia; assumption).
      rewrite Hfm' by (try lia; try assumption; intros t' Ht'; congruence).
      repeat split; try assumption.
      eapply chain_ext; [exact Hcn|]. intros x Hx.
      pose proof (rep_out_range _ _ _ _ R n x Hn Hkn Hx).
      destruct (rep_out_edge _ _ _ _ R n x Hn Hkn Hx) as (t' & Ht').
      apply Hfm'; [lia | intros t'' Ht''; congruence | intros ->; congruence].
  - intros n Hn Hkn. destruct (r_in _ _ _ _ R n Hn Hkn) as (Hcn & Hndn & Hdegn).
    rewrite Hto, Htm. repeat split; try assumption.
    eapply chain_ext; [exact Hcn|]. intros x Hx. apply Htm.
  - intros n x Hn Hkn. destruct (Z.eq_dec n f) as [->|Hnf].
    + rewrite upd_same, lrem_in, (r_out_mem _ _ _ _ R) by assumption. tauto.
    + rewrite upd_other by assumption. rewrite (r_out_mem _ _ _ _ R) by assumption. split.
      * intros (Hx0 & Hex & Hnxx). split; [assumption|]. split; [assumption|].
        intros [Hc0| ->]; [tauto|]. destruct Hex as (t' & Ht'). congruence.
      * intros (Hx0 & Hex & Hnxx). tauto.
  - intros n x Hn Hkn. apply (r_in_mem _ _ _ _ R); assumption.
  - apply (r_edge _ _ _ _ R).
Qed.
