(* StoredDbOpsLinkExample.v — proofs (stored database, part 28): non-vacuity of the covered-query theorems on the example
   database sx_db of StoredDbExampleBase.v (nodes 1 (alias, indexed key) and 2, edge -3 from 1 to 2 with one property whose
   key is not indexed): its graph is well-formed (it is what graph.rs builds by insert_node, insert_node, insert_edge 1 2:
   C08_history_refines), and the removal of the edge -3, the insertion of an edge 2 -> 1, and the two in sequence are covered. *)
From Agdb Require Import Bytes DbValue Graph DbModel Search Queries Revisions GraphSim GraphSpec GraphC08 StoredDbExampleBase
  StoredDbOpsQuery StoredDbOpsLink StoredDbOpsLinkHist.
From Coq Require Import ZifyBool ZifyNat ZifyN.
Open Scope Z_scope.

Lemma sx_wf : wf (gr sx_db).
Proof.
  destruct (history_refines [GInsertNode; GInsertNode; GInsertEdge 1 2]) as (g & a & E & W & _).
  { repeat constructor; cbn; lia. }
  vm_compute in E. injection E as <- _. exact W.
Qed.

Lemma sx_covered_remove : so_covered sx_db (CqRemove (-3)).
Proof.
  split; [unfold so_cap_ok; vm_compute; reflexivity|]. cbn [so_covered].
  split; [vm_compute; discriminate|]. split.
  - intros x Hx. vm_compute in Hx. destruct Hx as [<-|[]]. vm_compute. reflexivity.
  - left. split; [lia|vm_compute; reflexivity].
Qed.

Lemma sx_covered_insert_edge : so_covered sx_db (CqInsertEdge 2 1).
Proof.
  split; [unfold so_cap_ok; vm_compute; reflexivity|]. cbn [so_covered].
  split; [lia|]. split; [lia|]. split; vm_compute; reflexivity.
Qed.

Lemma sx_covered_all : so_covered_all rv_fixed sx_db [CqInsertEdge 2 1; CqRemove (-3)].
Proof.
  cbn [so_covered_all]. split; [exact sx_covered_insert_edge|]. split; [cbn; constructor|].
  split; [unfold so_cap_ok; vm_compute; reflexivity|].
  split; [|split; [exact I|split; [unfold so_cap_ok; vm_compute; reflexivity|exact I]]].
  split; [unfold so_cap_ok; vm_compute; reflexivity|]. cbn [so_covered].
  split; [vm_compute; discriminate|]. split.
  - intros x Hx. vm_compute in Hx. destruct Hx as [<-|[]]. vm_compute. reflexivity.
  - left. split; [lia|vm_compute; reflexivity].
Qed.

Theorem sx_link_sample :
  wf (gr sx_db) /\ so_covered sx_db (CqRemove (-3)) /\ so_covered sx_db (CqInsertEdge 2 1) /\
  so_covered_all rv_fixed sx_db [CqInsertEdge 2 1; CqRemove (-3)] /\
  snd (cq_model rv_fixed sx_db [CqInsertEdge 2 1; CqRemove (-3)]) = [Some (-4); None].
Proof.
  split; [exact sx_wf|]. split; [exact sx_covered_remove|]. split; [exact sx_covered_insert_edge|].
  split; [exact sx_covered_all|]. vm_compute. reflexivity.
Qed.
