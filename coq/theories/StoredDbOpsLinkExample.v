(* StoredDbOpsLinkExample.v — proofs (stored database, part 28): non-vacuity of the covered-query theorems on the example
   database sx_db of StoredDbExampleBase.v (nodes 1 (alias, indexed key) and 2, edge -3 from 1 to 2 with one property whose
   key is not indexed): its graph is well-formed (it is what graph.rs builds by insert_node, insert_node, insert_edge 1 2:
   C08_history_refines), and the removal of the edge -3, the insertion of an edge 2 -> 1, and the two in sequence are covered. *)
From Agdb Require Import Bytes DbValue Graph DbModel Search Queries Revisions GraphSim GraphSpec GraphC08 StoredDbExampleBase
  StoredDbOpsQuery StoredDbOpsLink StoredDbOpsLinkHist.
From Agdb Require Import StoredDbRep.
From Agdb Require HistoryAtomicProofs HistoryAtomicExamples.
From Coq Require Import ZifyBool ZifyNat ZifyN.
Open Scope Z_scope.

Lemma sx_wf : wf (gr sx_db).
Proof.
  destruct (history_refines [GInsertNode; GInsertNode; GInsertEdge 1 2]) as (g & a & E & W & _).
  { repeat constructor; cbn; lia. }
  vm_compute in E. injection E as <- _. exact W.
Qed.

Lemma sx_covered_remove : so_covered sx_db (CqRemove (-3)).
Proof.
  split; [unfold so_cap_ok; vm_compute; reflexivity|]. cbn [so_covered].
  split; [vm_compute; discriminate|]. split.
  - intros x Hx. vm_compute in Hx. destruct Hx as [<-|[]]. vm_compute. reflexivity.
  - left. split; [lia|vm_compute; reflexivity].
Qed.

Lemma sx_covered_insert_edge : so_covered sx_db (CqInsertEdge 2 1).
Proof.
  split; [unfold so_cap_ok; vm_compute; reflexivity|]. cbn [so_covered].
  split; [lia|]. split; [lia|]. left. split; vm_compute; reflexivity.
Qed.

Lemma sx_covered_all : so_covered_all rv_fixed sx_db [CqInsertEdge 2 1; CqRemove (-3)].
Proof.
  cbn [so_covered_all]. split; [exact sx_covered_insert_edge|]. split; [cbn; constructor|].
  split; [unfold so_cap_ok; vm_compute; reflexivity|].
  split; [|split; [exact I|split; [unfold so_cap_ok; vm_compute; reflexivity|exact I]]].
  split; [unfold so_cap_ok; vm_compute; reflexivity|]. cbn [so_covered].
  split; [vm_compute; discriminate|]. split.
  - intros x Hx. vm_compute in Hx. destruct Hx as [<-|[]]. vm_compute. reflexivity.
  - left. split; [lia|vm_compute; reflexivity].
Qed.

(* the example database is what four public queries build from the empty database — hence it satisfies HInv *)
Definition sx_history : list HistoryAtomicProofs.hitem :=
  [ HistoryAtomicProofs.HQuery (InsertNodes 1 (Single [(sx_key, DI64 7); (sx_name, sx_long)]) [sx_alias] (Ids []));
    HistoryAtomicProofs.HQuery (InsertNodes 1 (Single []) [] (Ids []));
    HistoryAtomicProofs.HQuery (InsertEdges (Ids [QId 1]) (Ids [QId 2]) (Single [(DU64 1, DVecI64 [1; 2])]) false (Ids []));
    HistoryAtomicProofs.HQuery (InsertIndex sx_key) ].

Lemma sx_reached : HistoryAtomicProofs.run_items rv_fixed db_new sx_history = sx_db.
Proof. vm_compute. reflexivity. Qed.

Lemma sx_HInv : HistoryAtomicProofs.HInv sx_db.
Proof.
  rewrite <- sx_reached. apply HistoryAtomicProofs.history_HInv_fixed.
  - unfold sx_history. repeat (apply Forall_cons; [HistoryAtomicExamples.ik|]). apply Forall_nil.
  - cbn [HistoryAtomicProofs.bounded sx_history]. repeat split; vm_compute; discriminate.
Qed.

Theorem sx_link_sample_hinv :
  HistoryAtomicProofs.HInv sx_db /\ stored_db_w sx_g 1 sx_db sx_wit /\
  so_covered_all rv_fixed sx_db [CqInsertEdge 2 1; CqRemove (-3)].
Proof. split; [exact sx_HInv|]. split; [exact sx_stored|exact sx_covered_all]. Qed.

(* a rejected edge insertion: 3 is the slot of the edge -3, not a node *)
Lemma sx_covered_rejected :
  so_covered sx_db (CqInsertEdge 1 3) /\
  Queries.exec rv_fixed sx_db (cq_query (CqInsertEdge 1 3)) = (sx_db, QErr ENotFound).
Proof.
  split; [|vm_compute; reflexivity].
  split; [unfold so_cap_ok; vm_compute; reflexivity|]. cbn [so_covered].
  split; [lia|]. split; [lia|]. right. split; vm_compute; reflexivity.
Qed.

Theorem sx_link_sample :
  wf (gr sx_db) /\ so_covered sx_db (CqRemove (-3)) /\ so_covered sx_db (CqInsertEdge 2 1) /\
  so_covered_all rv_fixed sx_db [CqInsertEdge 2 1; CqRemove (-3)] /\
  snd (cq_model rv_fixed sx_db [CqInsertEdge 2 1; CqRemove (-3)]) = [Some (-4); None].
Proof.
  split; [exact sx_wf|]. split; [exact sx_covered_remove|]. split; [exact sx_covered_insert_edge|].
  split; [exact sx_covered_all|]. vm_compute. reflexivity.
Qed.
