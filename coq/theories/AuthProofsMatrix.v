(* AuthProofsMatrix.v — the documented permission matrix as a finite table (C24). *)
From Agdb Require Import Bytes Auth AuthProofs AuthProofsTokens AuthProofsPerm.
Open Scope N_scope.

(* scenario: server admin 0; user 1 owns database (1, 10); 2 is db admin, 3 writer, 4 and 6 readers,
   5 has no role; everybody holds a live token whose id is the user's number *)
Definition mx_state : state :=
  mkState 0 3600
    [(0, 1); (1, 101); (2, 102); (3, 103); (4, 104); (5, 105); (6, 106)]
    [mkTok 0 0 1000; mkTok 1 1 1000; mkTok 2 2 1000; mkTok 3 3 1000; mkTok 4 4 1000; mkTok 5 5 1000; mkTok 6 6 1000] 7
    [mkDb 1 10 KMapped [(1, RoAdmin); (2, RoAdmin); (3, RoWrite); (4, RoRead); (6, RoRead)]
          (mkContent [Some 7] false) [] (Some (empty_content, []))]
    [].

Definition caller_of (h : holds) : N :=
  match h with HOwner => 1 | HAdmin => 2 | HWrite => 3 | HRead => 4 | HNone => 5 end.

(* a representative request per endpoint: generic arguments (fresh target names, a third user) *)
Definition rep (t : optag) : N * dbop :=
  match t with
  | TAdd => (11, OAdd KMapped)           (* a database that does not exist yet, in user 1's name space *)
  | TAudit => (10, OAudit)
  | TBackup => (10, OBackup)
  | TClear => (10, OClear ResAll)
  | TConvert => (10, OConvert KFile)
  | TCopy => (10, OCopy 0 12)
  | TDelete => (10, ODelete)
  | TExec => (10, OExec [QCount; QSelect [QId 1]])
  | TExecMut => (10, OExecMut [QInsertNode 5])
  | TOptimize => (10, OOptimize)
  | TRemove => (10, ORemove)
  | TRename => (10, ORename 0 12)
  | TRestore => (10, ORestore)
  | TRollback => (10, ORollback)
  | TUserAdd => (10, OUserAdd 5 RoWrite)
  | TUserList => (10, OUserList)
  | TUserRemove => (10, OUserRemove 6)   (* a third user, not the caller *)
  end.

Definition matrix_cell (t : optag) (h : holds) : bool :=
  is_allow (authorize mx_state 0 (Some (caller_of h)) (ReqDb 1 (fst (rep t)) (snd (rep t)))).

Lemma scenario_holds : forall h, holds_of mx_state (caller_of h) 1 10 = h.
Proof. destruct h; vm_compute; reflexivity. Qed.

Lemma scenario_tags : forall t, tag_of (snd (rep t)) = t.
Proof. destruct t; reflexivity. Qed.

(* endpoint x what the caller holds: the server allows exactly what the documentation's table says *)
Theorem matrix_table : forall t h, matrix_cell t h = doc_allows (doc_perm t) h.
Proof. destruct t; destruct h; vm_compute; reflexivity. Qed.

(* ... and performing it succeeds exactly then (the action does not fail for another reason) *)
Theorem matrix_performed : forall t h,
  resp_ok (fst (step mx_state 0 (Some (caller_of h)) (ReqDb 1 (fst (rep t)) (snd (rep t))))) = doc_allows (doc_perm t) h.
Proof. destruct t; destruct h; vm_compute; reflexivity. Qed.

(* the one cell where code and documentation differ: removing YOURSELF needs no admin role *)
Theorem matrix_self_remove_refuted :
  exists s now tok o d u,
    user_of_token s now tok = Some u /\ holds_of s u o d = HRead /\
    doc_allows (doc_perm (tag_of (OUserRemove u))) (holds_of s u o d) = false /\
    authorize s now tok (ReqDb o d (OUserRemove u)) = Allow /\
    role_of s u o d = Some RoRead /\
    role_of (snd (step s now tok (ReqDb o d (OUserRemove u)))) u o d = None.
Proof. exists mx_state, 0, (Some 4), 1, 10, 4. vm_compute. repeat split; reflexivity. Qed.

(* admin endpoints on the scenario: every one is refused to every non-admin caller and to a missing
   token, and allowed to the server admin *)
Definition admin_reqs : list request :=
  [ ReqAdminDbList; ReqAdminUserList; ReqAdminStatus; ReqAdminUserLogoutAll;
    ReqAdminUserAdd 8 108; ReqAdminUserChangePassword 3 203; ReqAdminUserDelete 5;
    ReqAdminUserLogout 3 LoAll; ReqAdminUserLogout 3 (LoSession 3);
    ReqAdminDb 1 11 (OAdd KMapped); ReqAdminDb 1 10 OAudit; ReqAdminDb 1 10 OBackup; ReqAdminDb 1 10 (OClear ResDb);
    ReqAdminDb 1 10 (OConvert KFile); ReqAdminDb 1 10 (OCopy 2 12); ReqAdminDb 1 10 ODelete;
    ReqAdminDb 1 10 (OExec [QCount]); ReqAdminDb 1 10 (OExecMut [QInsertNode 5]); ReqAdminDb 1 10 OOptimize;
    ReqAdminDb 1 10 ORemove; ReqAdminDb 1 10 (ORename 2 12); ReqAdminDb 1 10 ORestore; ReqAdminDb 1 10 ORollback;
    ReqAdminDb 1 10 (OUserAdd 5 RoRead); ReqAdminDb 1 10 OUserList; ReqAdminDb 1 10 (OUserRemove 4) ].

Theorem admin_matrix :
  forallb (fun req =>
             is_allow (authorize mx_state 0 (Some 0) req)
             && forallb (fun h => negb (is_allow (authorize mx_state 0 (Some (caller_of h)) req)))
                        [HOwner; HAdmin; HWrite; HRead; HNone]
             && negb (is_allow (authorize mx_state 0 None req))
             && negb (is_allow (authorize mx_state 2000 (Some 0) req)))     (* expired admin token *)
          admin_reqs = true.
Proof. vm_compute. reflexivity. Qed.

(* non-vacuity of the sequence theorems: a reader, a user without role and a missing token issue
   requests (some succeed: reads, a copy, a self-removal); the database does not change *)
Definition weak_trace : list event :=
  [ (0, Some 4, ReqDb 1 10 (OExec [QCount]));
    (0, Some 4, ReqDb 1 10 (OExecMut [QInsertNode 9]));
    (0, Some 4, ReqDb 1 10 (OCopy 0 12));
    (0, Some 5, ReqDb 1 10 ODelete);
    (0, None, ReqDb 1 10 (OClear ResAll));
    (0, Some 4, ReqDb 1 10 (OUserRemove 4));
    (0, Some 4, ReqDb 1 10 (OExec [QCount]));
    (0, Some 5, ReqAdminDb 1 10 ODelete) ].

Lemma weak_trace_ok :
  all_weak mx_state weak_trace 1 10 /\
  db_view (run mx_state weak_trace) 1 10 = Some (mkContent [Some 7] false, []) /\
  role_of (run mx_state weak_trace) 4 4 12 = Some RoAdmin.
Proof.
  split; [|split; vm_compute; reflexivity].
  cbn [all_weak weak_trace]. repeat split; try (vm_compute; intuition congruence).
Qed.
