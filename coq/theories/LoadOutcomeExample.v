(* LoadOutcomeExample.v — every outcome of `load_outcome` occurs (non-vacuity of C07_db_load_total_partial):
   the stored example database of StoredDbExampleBase.v loads; one damaged byte in it (the type nibble of the first
   index key) gives the listed panic at OPEN — an error once the type check is in; a missing root record, a short root
   record, a legacy-sized root record. *)
From Agdb Require Import Bytes Utf8 Codec DbValue ValueIndex Graph DbModel Records Storage StorageSpec Collections CollValues
  StoredDb StoredDbExampleBase LoadOutcome.
Open Scope N_scope.

Definition lo_set_byte (bs : bytes) (off : nat) (b : byte) : bytes := firstn off bs ++ [b] ++ skipn (S off) bs.
(* the record of the DbVec<DbIndexStorageIndex>: the fifth word of the root record *)
Definition lo_ex_ixrec : N := sx_word (sx_rec 1) 4.
(* entry 0 starts at offset 8; its value index ends with the type/size byte at 8 + 15 *)
Definition lo_ex_damaged : vmap := m_put sx_store lo_ex_ixrec (lo_set_byte (sx_rec lo_ex_ixrec) 23 x00).

Lemma lo_ex_loads : load_outcome sx_store 1 = Loaded sx_db /\ lo_open_class sx_store 1 = 0 /\ lo_phase vg_current (lo_limit sx_store) sx_store 1 = 2.
Proof. vm_compute. repeat split; reflexivity. Qed.

Lemma lo_ex_panic :
  load_outcome lo_ex_damaged 1 = LPanic /\ lo_open_class lo_ex_damaged 1 = 2 /\
  load_outcome_g vg_fixed (lo_limit lo_ex_damaged) lo_ex_damaged 1 = LErr.
Proof. vm_compute. repeat split; reflexivity. Qed.

Definition lo_ex_legacy : vmap :=
  [(1, repeat x00 32 ++ le64 2);                               (* 40 bytes: graph, aliases x 2, indexes = 0, values = 2 *)
   (2, le64 0 ++ le64 3 ++ le64 3 ++ le64 3);                  (* a table record: len 0, three empty vectors *)
   (3, le64 0)].

Lemma lo_ex_others :
  load_outcome [] 1 = LFresh /\
  load_outcome [(1, repeat x00 39)] 1 = LErr /\
  load_outcome [(1, repeat x00 40)] 1 = LErr /\
  load_outcome lo_ex_legacy 1 = LLegacy /\
  load_outcome [(1, repeat x00 48)] 1 = LErr.
Proof. vm_compute. repeat split; reflexivity. Qed.
