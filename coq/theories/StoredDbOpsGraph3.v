(* StoredDbOpsGraph3.v — proofs (stored database, part 19): GraphImpl::free_index and GraphImpl::remove_node for a node
   WITHOUT edges (the two unlink loops run zero times) as programs over the storage compute Graph.free_index /
   Graph.remove_node; lifted to the stored database (graph component only: the alias and the properties of the node are
   DbImpl's business and not removed here). *)
From Agdb Require Import Bytes BytesProofs Utf8 Codec DbValue ValueIndex Graph DbModel Records RecordsProofs Storage StorageSpec
  StorageLayout Collections CollValues CollWp CollBytes CollVecBase CollVecOps CollVec CollVec2 CollElems CollSep CollMap
  CollGraph CollValuesProofs StoredDb StoredDbRep StoredDbFrame StoredDbOps StoredDbOpsGraph StoredDbOpsGraph2 StoredDbOpsDb.
From Coq Require Import ZifyBool ZifyNat ZifyN.
Ltac Zify.zify_post_hook ::= Z.div_mod_to_equations.
Open Scope N_scope.
Arguments N.add : simpl never.
Arguments N.mul : simpl never.
Arguments N.sub : simpl never.
Arguments N.of_nat : simpl never.
Arguments N.to_nat : simpl never.
Arguments N.eqb : simpl never.
Arguments N.ltb : simpl never.
Arguments N.leb : simpl never.
Arguments N.div : simpl never.

Lemma glen_free_index G n index : glen G n -> glen (Graph.free_index G index) n.
Proof.
  intros HL. unfold Graph.free_index. rewrite <- gset_tmeta, <- gset_to, <- gset_from, <- !gset_fmeta.
  repeat apply glen_gset. exact HL.
Qed.

Lemma free_index_tmeta0 G n index : glen G n -> (0 < zabs_nat index < n)%nat -> tmeta (Graph.free_index G index) 0 = tmeta G 0.
Proof.
  intros HL Hi. unfold Graph.free_index, tmeta, get. cbn [set_tmeta set_to set_from set_fmeta g_tmeta]. unfold Graph.set.
  pose proof (HL GfToMeta) as L. cbn [garr ga_get sd_arrays ga_to_meta] in L.
  rewrite nth_set_nth by lia. change (zabs_nat 0) with 0%nat. destruct (Nat.eqb_spec 0 (zabs_nat index)); [lia|reflexivity].
Qed.

Section RemoveOps.
  Variable fl : bool.

  Lemma so_free_index_spec d s0 g0 s G n index sp (Q : cres unit -> spec -> Prop) :
    grep (hp sp) d s (sd_arrays G) -> glen G n -> (zabs_nat index < n)%nat -> (1 <= n)%nat ->
    (Z.of_nat n <= 1152921504606846976)%Z ->
    frame g0 (hp sp) (gfoot d s0) (gfoot d s) ->
    (forall s' sp', grep (hp sp') d s' (sd_arrays (Graph.free_index G index)) -> sdepth sp' = sdepth sp ->
        frame g0 (hp sp') (gfoot d s0) (gfoot d s') -> Q (CrOk tt) sp') ->
    cwp fl (so_free_index d index) sp Q.
  Proof.
    intros H HL Hi Hn Hcap F0 HQ. unfold so_free_index.
    assert (Z0 : i64_range 0%Z) by (unfold i64_range; lia).
    apply cwp_bind. eapply (gget_spec fl d s G GfFromMeta); [exact H|rewrite HL; cbn; lia|]. cbn [kont].
    change (get (garr G GfFromMeta) 0) with (fmeta G 0).
    apply cwp_bind. eapply (gset_spec fl d s G GfFromMeta); [exact H|apply (grep_range _ _ _ G GfFromMeta 0%Z H)|rewrite HL; exact Hi|].
    intros s1 sp1 H1 D1 F1. cbn [kont]. rewrite gset_fmeta in H1.
    pose proof (glen_gset G n GfFromMeta index (fmeta G 0) HL) as HL1. rewrite gset_fmeta in HL1.
    apply cwp_bind. eapply (gset_spec fl d s1 _ GfFromMeta); [exact H1|unfold i64_range, zabs_nat in *; lia|rewrite HL1; cbn; lia|].
    intros s2 sp2 H2 D2 F2. cbn [kont]. rewrite gset_fmeta in H2.
    pose proof (glen_gset _ n GfFromMeta 0%Z (- index)%Z HL1) as HL2. rewrite gset_fmeta in HL2.
    apply cwp_bind. eapply (gset_spec fl d s2 _ GfFrom); [exact H2|exact Z0|rewrite HL2; exact Hi|].
    intros s3 sp3 H3 D3 F3. cbn [kont]. rewrite gset_from in H3.
    pose proof (glen_gset _ n GfFrom index 0%Z HL2) as HL3. rewrite gset_from in HL3.
    apply cwp_bind. eapply (gset_spec fl d s3 _ GfTo); [exact H3|exact Z0|rewrite HL3; exact Hi|].
    intros s4 sp4 H4 D4 F4. cbn [kont]. rewrite gset_to in H4.
    pose proof (glen_gset _ n GfTo index 0%Z HL3) as HL4. rewrite gset_to in HL4.
    eapply (gset_spec fl d s4 _ GfToMeta); [exact H4|exact Z0|rewrite HL4; exact Hi|].
    intros s5 sp5 H5 D5 F5. rewrite gset_tmeta in H5.
    eapply HQ; [exact H5|congruence|].
    eapply frame_trans; [exact F0|]. eapply frame_trans; [exact F1|]. eapply frame_trans; [exact F2|].
    eapply frame_trans; [exact F3|]. eapply frame_trans; [exact F4|exact F5].
  Qed.

  (* GraphImpl::remove_node on a node without edges (or an invalid index: no-op) *)
  Theorem so_graph_remove_isolated_node_spec d s G index sp (Q : cres unit -> spec -> Prop) :
    grep (hp sp) d s (sd_arrays G) -> so_graph_ok G ->
    (is_node G index = true -> from G index = 0%Z /\ to G index = 0%Z /\ (1 <= tmeta G 0)%Z) ->
    (forall G', remove_node G index = Some G' ->
       forall s' sp', grep (hp sp') d s' (sd_arrays G') -> sdepth sp' = sdepth sp ->
         frame (hp sp) (hp sp') (gfoot d s) (gfoot d s') -> Q (CrOk tt) sp') ->
    cwp fl (so_graph_remove_node d index) sp Q.
  Proof.
    intros H OK Hiso HQ. pose proof (glen_of_ok G OK) as HL. pose proof OK as [_ _ _ Lpos Lcap _ Lcnt].
    unfold so_graph_remove_node, remove_node in *.
    apply cwp_bind. eapply so_validate_node_spec; [exact H|exact OK|]. cbn [kont].
    destruct (is_node G index) eqn:Nn; cbn [negb].
    2:{ cbn [cwp]. eapply (HQ G eq_refl s sp); [exact H|reflexivity|apply frame_refl; intros j; reflexivity]. }
    destruct (Hiso eq_refl) as (Ef & Et & Hc). pose proof (is_node_range _ _ Nn) as Hr.
    assert (Hnz : (0 < zabs_nat index)%nat).
    { unfold is_node, valid_index in Nn. destruct (Z.eqb_spec index 0) as [->|X]; [discriminate Nn|]. unfold zabs_nat. lia. }
    rewrite Ef in HQ. change (- 0)%Z with 0%Z in HQ.
    assert (E1 : remove_from_edges (length (g_from G)) G 0 = Some G) by (destruct (length (g_from G)); reflexivity).
    rewrite E1, Et in HQ. change (- 0)%Z with 0%Z in HQ.
    assert (E2 : remove_to_edges (length (g_from G)) G 0 = Some G) by (destruct (length (g_from G)); reflexivity).
    rewrite E2 in HQ.
    apply cwp_bind. apply hwp_transaction. intros sp0 Hm0 Hd0. cbn [kont].
    assert (H0 : grep (hp sp0) d s (sd_arrays G)) by (eapply grep_heq; [exact H|exact Hm0]).
    apply cwp_bind. eapply (gget_spec fl d s G GfFrom); [exact H0|rewrite HL; exact Hr|]. cbn [kont].
    change (get (garr G GfFrom) index) with (from G index). rewrite Ef. change (- 0)%Z with 0%Z.
    apply cwp_bind. replace (so_remove_from_edges (N.to_nat (cg_capacity d)) d 0) with (@CRet unit tt) by (destruct (N.to_nat (cg_capacity d)); reflexivity).
    cbn [cwp kont].
    apply cwp_bind. eapply (gget_spec fl d s G GfTo); [exact H0|rewrite HL; exact Hr|]. cbn [kont].
    change (get (garr G GfTo) index) with (to G index). rewrite Et. change (- 0)%Z with 0%Z.
    apply cwp_bind. replace (so_remove_to_edges (N.to_nat (cg_capacity d)) d 0) with (@CRet unit tt) by (destruct (N.to_nat (cg_capacity d)); reflexivity).
    cbn [cwp kont].
    apply cwp_bind.
    eapply (so_free_index_spec d s (hp sp0) s G (length (g_from G)) index); [exact H0|exact HL|exact Hr|exact Lpos|lia|apply frame_refl; intros j; reflexivity|].
    intros s1 sp1 H1 D1 F1. cbn [kont].
    pose proof (glen_free_index G _ index HL) as HL1.
    pose proof (free_index_tmeta0 G _ index HL (conj Hnz Hr)) as Et0.
    unfold cg_node_count.
    apply cwp_bind. apply cwp_bind. eapply cv_value_spec; [exact (gr_vec _ _ _ _ H1 GfToMeta)|].
    pose proof (HL1 GfToMeta) as L1. unfold garr in L1. change (N.to_nat 0) with 0%nat.
    rewrite (nth_error_nth_Z _ 0) by lia. cbn [kont cwp].
    change (nth 0 (ga_get (sd_arrays (Graph.free_index G index)) GfToMeta) 0%Z) with (tmeta (Graph.free_index G index) 0). rewrite Et0.
    assert (Ecnt : u2z (z2u (tmeta G 0) - 1) = (tmeta G 0 - 1)%Z).
    { unfold u2z, z2u, two63. destruct (N.ltb_spec (Z.to_N (tmeta G 0 mod 18446744073709551616) - 1) 9223372036854775808); lia. }
    apply cwp_bind. change (cg_set_node_count d (z2u (tmeta G 0) - 1)) with (cg_set d GfToMeta 0%Z (u2z (z2u (tmeta G 0) - 1))). rewrite Ecnt.
    eapply (gset_spec fl d s1 _ GfToMeta 0%Z); [exact H1|unfold i64_range; lia|rewrite HL1; cbn; lia|].
    intros s2 sp2 H2 D2 F2. cbn [kont]. rewrite gset_tmeta in H2.
    apply hwp_commit; [lia|lia|]. intros sp3 Hm3 Hd3.
    unfold node_count in HQ. rewrite Et0 in HQ.
    eapply (HQ _ eq_refl s2 sp3); [eapply grep_heq; [exact H2|exact Hm3]|lia|].
    eapply frame_trans; [apply frame_refl; exact Hm0|]. eapply frame_trans; [exact F1|].
    eapply frame_trans; [exact F2|apply frame_refl; exact Hm3].
  Qed.

  (* lifted to the stored database: the graph component only *)
  Theorem so_remove_isolated_node_stored root d w h index sp (Q : cres unit -> spec -> Prop) :
    stored_db_w (hp sp) root d w -> so_handles h w -> so_graph_ok (gr d) ->
    (is_node (gr d) index = true -> from (gr d) index = 0%Z /\ to (gr d) index = 0%Z /\ (1 <= tmeta (gr d) 0)%Z) ->
    (forall G', remove_node (gr d) index = Some G' ->
       forall s' sp', stored_db_w (hp sp') root (with_gr d G') (sd_with_graph w (sw_g w) s') -> sdepth sp' = sdepth sp ->
         frame (hp sp) (hp sp') (sd_foot root w) (sd_foot root (sd_with_graph w (sw_g w) s')) -> Q (CrOk tt) sp') ->
    cwp fl (so_graph_remove_node (so_graph h) index) sp Q.
  Proof.
    intros H [Hh1 _] OK Hiso HQ. rewrite Hh1.
    eapply so_graph_remove_isolated_node_spec; [exact (sr_graph _ _ _ _ H)|exact OK|exact Hiso|].
    intros G' EG s' sp' HG Hd Hf.
    rewrite <- (sd_arrays_of (sd_arrays _)) in HG.
    destruct (sd_graph_update _ _ root d w (sw_g w) s' _ H eq_refl HG Hf) as [H' F'].
    eapply (HQ G' EG s' sp'); [|exact Hd|exact F'].
    eapply stored_db_w_same; [exact H'| | | |]; cbn [with_gr gr aliases vals indexes sd_graph_of sd_arrays ga_from ga_to ga_from_meta ga_to_meta]; try reflexivity.
    destruct G'; reflexivity.
  Qed.
End RemoveOps.
