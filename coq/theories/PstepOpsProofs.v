(* PstepOpsProofs.v — C13 for all query kinds, first layer: every DbImpl-level operation used by the
   query layer, executed in a state satisfying the joint invariant `Inv` (C09 / C10 / C11 + graph wf),
   IS a sequence of the mutation primitives `pstep` of C13 with their side conditions met:
     - a replaced / removed indexed pair is listed in its index        (idx_has: from idx_exact, C11)
     - a slot handed out by the allocator has no values and no alias   (vals_live C09, alias_nodes C10)
     - the keys appended to a fresh element are distinct               (query_ok, C09's quantifier)
     - remove_node_db removes every incident edge before the node      (graph wf, C08).
   `reach d d1` packages "d1 is reached from d by primitives" so that it composes along folds without
   knowing the final capacity in advance: capacities only grow, and the decomposition itself holds
   whenever the C13 well-formedness `db_ok d` holds and the final capacity fits i64. *)
From Agdb Require Import Bytes BytesProofs DbValue Graph DbModel Search Queries Revisions
  GraphSim GraphWf GraphLive DbCascadeProofs AssocProofs ImapProofs DbFrameProofs AliasProofs
  DbValueEqProofs KvProofs KvDbProofs KvSelectProofs
  IndexProofs IndexDbProofs IndexDb2Proofs IndexDb3Proofs IndexDb4Proofs IndexInvProofs
  DbInvProofs DbInvRemoveProofs QStepProofs QueryInvProofs.
From Agdb Require Import UndoBase UndoObs UndoAlias UndoKv UndoGraphBase UndoGraph UndoGraphAlloc UndoGraphEdge
  UndoGraphOps UndoAbs UndoDb UndoStepsAlias UndoStepsKv UndoStepsKv2 UndoStepsIndex UndoStepsGraph UndoBridge
  UndoMain UndoFinal UndoLift UndoRemoveNode UndoRemoveNode2 InvSimProofs.
From Coq Require Import Permutation ZifyBool ZifyNat ZifyN.
Ltac Zify.zify_post_hook ::= Z.div_mod_to_equations.
Open Scope Z_scope.

(* ---------- raw facts about the cascade of remove_node_db (no invariant needed) ---------- *)
Lemma rn_step_err_fold l a k : fold_left rn_step l (a, Some k) = (a, Some k).
Proof. induction l as [|x r IH]; cbn [fold_left rn_step]; [reflexivity|exact IH]. Qed.

Lemma rn_fold_cap l : forall acc acc' e,
  fold_left rn_step l (acc, None) = (acc', e) -> capacity (gr acc') = capacity (gr acc).
Proof.
  induction l as [|[[ei f] t] r IH]; intros acc acc' e H; cbn [fold_left] in H.
  - injection H as <- _. reflexivity.
  - cbn [rn_step] in H. destruct (Graph.remove_edge (gr acc) ei) as [g|] eqn:E.
    + apply IH in H. rewrite H, gr_remove_all_values. cbn [gr push_undo with_gr]. exact (cap_remove_edge _ _ _ E).
    + rewrite rn_step_err_fold in H. injection H as <- _. reflexivity.
Qed.

Lemma cap_remove_node_db d n alias d1 e :
  remove_node_db d n alias = (d1, e) -> capacity (gr d1) = capacity (gr d).
Proof.
  rewrite remove_node_db_unfold. cbv zeta.
  set (d0 := match alias with
             | Some a => with_aliases (push_undo d (CInsertAlias n a)) (imap_remove_key (imap_remove_key (aliases d) a) a)
             | None => d end).
  assert (Eg : gr d0 = gr d) by (unfold d0; destruct alias; reflexivity).
  destruct (negb (is_node (gr d0) n)); [intros [= <- _]; now rewrite Eg|].
  destruct (fold_left rn_step (node_edges d0 n) (d0, None)) as [d2 [k|]] eqn:F.
  - intros [= <- _]. rewrite (rn_fold_cap _ _ _ _ F). now rewrite Eg.
  - pose proof (rn_fold_cap _ _ _ _ F) as C.
    destruct (Graph.remove_node (gr d2) n) as [g|] eqn:R; intros [= <- _].
    + cbn [gr push_undo with_gr]. rewrite (cap_remove_node _ _ _ R), C. now rewrite Eg.
    + rewrite C. now rewrite Eg.
Qed.

(* the indexed pairs of the node itself survive the cascade over its edges *)
Lemma rn_fold_idx_has_all n l : forall acc acc',
  (forall x, In x l -> same_slot (ne_id x) n = false) ->
  fold_left rn_step l (acc, None) = (acc', None) -> idx_has_all acc n -> idx_has_all acc' n.
Proof.
  induction l as [|[[ei f] t] r IH]; intros acc acc' Hs H Ha; cbn [fold_left] in H.
  - injection H as <-. exact Ha.
  - cbn [rn_step] in H. destruct (Graph.remove_edge (gr acc) ei) as [g|] eqn:E.
    + apply (IH _ _ (fun x Hx => Hs x (or_intror Hx)) H).
      apply idx_has_all_after_remove_all; [exact (Hs (ei, f, t) (or_introl eq_refl))|].
      apply (idx_has_all_frame acc); [reflexivity|reflexivity|exact Ha].
    + rewrite rn_step_err_fold in H. discriminate.
Qed.

Lemma remove_node_db_idx_has_all d n alias d1 :
  remove_node_db d n alias = (d1, None) ->
  (forall x, In x (node_edges d n) -> same_slot (ne_id x) n = false) ->
  idx_has_all d n -> idx_has_all d1 n.
Proof.
  rewrite remove_node_db_unfold. cbv zeta.
  set (d0 := match alias with
             | Some a => with_aliases (push_undo d (CInsertAlias n a)) (imap_remove_key (imap_remove_key (aliases d) a) a)
             | None => d end).
  assert (E0 : gr d0 = gr d /\ vals d0 = vals d /\ indexes d0 = indexes d) by (unfold d0; destruct alias; repeat split).
  destruct E0 as (Eg & Ev & Ei).
  assert (Ene : node_edges d0 n = node_edges d n) by (unfold node_edges; now rewrite Eg).
  destruct (negb (is_node (gr d0) n)); [discriminate|]. rewrite Ene.
  destruct (fold_left rn_step (node_edges d n) (d0, None)) as [d2 [k|]] eqn:F; [discriminate|].
  intros H Hs Ha.
  assert (H2 : idx_has_all d2 n).
  { apply (rn_fold_idx_has_all n _ d0 d2 Hs F). now apply (idx_has_all_frame d). }
  destruct (Graph.remove_node (gr d2) n) as [g|]; [|discriminate]. injection H as <-.
  now apply (idx_has_all_frame d2).
Qed.

Section Ops.
  Variable rv : revision.
  Hypothesis Hrv : fix_rollback_replace rv = true.
  Hypothesis Hsteal : fix_alias_steal_undo rv = true.

  Notation psteps := (UndoMain.psteps rv).
  Notation pstep := (UndoMain.pstep rv).

  (* ---------- reach ---------- *)
  Definition reach (d d1 : db) : Prop :=
    capacity (gr d) <= capacity (gr d1) /\
    (db_ok d -> capacity (gr d1) <= two63z -> psteps d d1).

  Lemma reach_refl d : reach d d.
  Proof. split; [lia|]. intros _ _. apply pss_nil. Qed.

  Lemma reach_psteps d d1 : psteps d d1 -> reach d d1.
  Proof. intros H. split; [exact (psteps_cap rv Hsteal d d1 H)|]. intros _ _. exact H. Qed.

  Lemma reach_pstep d d1 : pstep d d1 -> reach d d1.
  Proof. intros H. apply reach_psteps. now apply (psteps_one rv). Qed.

  Lemma reach_trans d a b : reach d a -> reach a b -> reach d b.
  Proof.
    intros [C1 H1] [C2 H2]. split; [lia|]. intros Hok Hb.
    assert (Ha : psteps d a) by (apply H1; [exact Hok|lia]).
    destruct (psteps_ok rv Hrv Hsteal d a Hok Ha) as [Hoka _]; [lia|].
    exact (psteps_trans rv d a b Ha (H2 Hoka Hb)).
  Qed.

  Lemma reach_snoc d a b : reach d a -> psteps a b -> reach d b.
  Proof. intros H1 H2. exact (reach_trans d a b H1 (reach_psteps a b H2)). Qed.

  (* ---------- values on an existing element ---------- *)
  Lemma insert_kvs_replace_psteps a id kvs :
    idx_inv a -> live a id = true -> psteps a (insert_kvs_replace a id kvs).
  Proof.
    intros Ha Hl. unfold insert_kvs_replace.
    assert (G : forall kvs b, idx_inv b -> live b id = true -> psteps a b ->
                psteps a (fold_left (fun a x => insert_or_replace_key_value a id x) kvs b)).
    { clear kvs. induction kvs as [|x r IH]; intros b Hb Hlb Hp; cbn [fold_left]; [exact Hp|].
      apply IH.
      - now apply insert_or_replace_key_value_inv.
      - unfold live. rewrite (proj1 (insert_or_replace_key_value_ga b id x)). exact Hlb.
      - eapply pss_snoc; [exact Hp|]. apply ps_insert_or_replace. intros old l' Hr.
        destruct (KvProofs.replace_first_some _ _ _ _ Hr) as (l1 & l2 & El & _).
        apply idx_has_of_exact; [apply Hb|exact Hlb|]. rewrite El. apply in_or_app. right. now left. }
    apply G.
    - now apply reserve_kv_inv.
    - exact Hl.
    - apply (psteps_one rv). apply ps_reserve.
  Qed.

  (* ---------- values on a new element ---------- *)
  Lemma insert_kvs_new_psteps a id kvs :
    keys_ok (kvs_get (vals a) id ++ kvs) -> psteps a (insert_kvs_new a id kvs).
  Proof.
    intros Hk. unfold insert_kvs_new.
    assert (G : forall kvs b, keys_ok (kvs_get (vals b) id ++ kvs) -> psteps a b ->
                psteps a (fold_left (fun a x => insert_key_value a id x) kvs b)).
    { clear kvs Hk. induction kvs as [|x r IH]; intros b Hb Hp; cbn [fold_left]; [exact Hp|].
      apply IH.
      - rewrite insert_key_value_vals, UndoKv.kvs_get_insert_value, same_slot_refl, <- app_assoc. exact Hb.
      - eapply pss_snoc; [exact Hp|]. apply ps_insert_key_value.
        unfold keys_ok in Hb. rewrite map_app in Hb. cbn [map] in Hb. apply NoDup_remove_2 in Hb.
        unfold UndoKv.has_key. intros Hin. apply Hb. apply in_or_app. now left. }
    apply G.
    - rewrite reserve_kv_vals, kvs_get_reserve. exact Hk.
    - apply (psteps_one rv). apply ps_reserve.
  Qed.

  Lemma remove_keys_pstep a id keys : Inv a -> live a id = true -> pstep a (snd (remove_keys a id keys)).
  Proof. intros Ha Hl. apply ps_remove_keys. now apply idx_has_all_of_Inv. Qed.

  (* ---------- a slot handed out by the allocator carries no alias ---------- *)
  Lemma fresh_no_alias a id : Inv a -> live a id = false -> imap_key (aliases a) id = None.
  Proof.
    intros (_ & Hb & Hn & _) Hl. destruct (imap_key (aliases a) id) as [al|] eqn:E; [|reflexivity].
    exfalso. unfold imap_key in E. apply (proj1 Hb al id) in E.
    destruct (alias_nodes_live a al id Hn E) as [_ Hl']. congruence.
  Qed.

  Lemma insert_node_db_fresh a : Inv a -> live a (fst (insert_node_db a)) = false.
  Proof.
    intros Ha. destruct (insert_node_db_fields a) as (_ & _ & _ & _ & Ff). rewrite Ff.
    pose proof (insert_node_live (gr a) (proj1 Ha)) as L. destruct (insert_node (gr a)) as [x g'].
    cbn [fst]. unfold live. tauto.
  Qed.

  (* DbImpl's "new node (+ alias) + values" step of insert nodes / insert values *)
  Lemma insert_values_new_psteps a acc alias kvs :
    Inv a -> keys_distinct kvs ->
    match alias with Some al => imap_value (aliases a) al = None | None => True end ->
    psteps a (fst (insert_values_new a acc alias kvs)).
  Proof.
    intros Ha Hk Hal. unfold insert_values_new.
    pose proof (insert_node_db_Inv a Ha) as H. pose proof (insert_node_db_fresh a Ha) as Hf.
    destruct (insert_node_db_fields a) as (Fa & Fv & _).
    destruct (insert_node_db a) as [id a1] eqn:E. cbn [fst snd] in *.
    destruct H as (Ha1 & Hp & Hl & He & Hm).
    set (a2 := match alias with Some al => insert_new_alias a1 id al | None => a1 end).
    assert (H2 : psteps a a2 /\ vals a2 = vals a1).
    { unfold a2. destruct alias as [al|].
      - split; [|reflexivity]. eapply pss_snoc; [apply (psteps_one rv), (ps_insert_node rv a id a1 E)|].
        apply ps_insert_new_alias; rewrite Fa; [exact Hal|now apply fresh_no_alias].
      - split; [|reflexivity]. apply (psteps_one rv), (ps_insert_node rv a id a1 E). }
    destruct H2 as [Hp2 Hv2]. cbn [fst].
    eapply (psteps_trans rv); [exact Hp2|]. apply insert_kvs_new_psteps.
    rewrite Hv2, He. cbn [app]. now apply keys_distinct_iff.
  Qed.

  (* a new edge with its values *)
  Lemma insert_edge_db_psteps a f t id a1 kvs :
    Inv a -> live a f = true -> live a t = true -> insert_edge_db a f t = ROk (id, a1) -> keys_distinct kvs ->
    psteps a (insert_kvs_new a1 id kvs).
  Proof.
    intros Ha Hf Ht Hi Hk.
    destruct (insert_edge_db_Inv a f t id a1 Ha Hf Ht Hi) as (_ & _ & _ & He & _).
    destruct (insert_edge_db_fields a f t id a1 Hi) as (g' & Eg & _).
    destruct (insert_edge_live (gr a) f t id g' (proj1 Ha) Hf Ht Eg) as (_ & _ & Hfp & Htp & _).
    eapply (psteps_trans rv); [apply (psteps_one rv), (ps_insert_edge rv a f t id a1 Hfp Htp Hi)|].
    apply insert_kvs_new_psteps. rewrite He. cbn [app]. now apply keys_distinct_iff.
  Qed.

  (* ---------- removals ---------- *)
  Lemma node_edges_other_slot a n x :
    wf (gr a) -> 0 < n -> is_node (gr a) n = true -> In x (node_edges a n) -> same_slot (ne_id x) n = false.
  Proof.
    intros Hwf Hn Hnode Hx. apply node_edges_ids in Hx. unfold ne_id.
    destruct (wf_out_edges _ n Hwf Hn Hnode) as [_ [Hout _]]. destruct (wf_in_edges _ n Hwf Hn Hnode) as [_ [Hin _]].
    assert (He : fst (fst x) < 0 /\ is_edge (gr a) (fst (fst x)) = true).
    { destruct Hx as [Hx|Hx]; [apply Hout in Hx|apply Hin in Hx]; tauto. }
    destruct He as [Hneg He]. destruct (same_slot_spec (fst (fst x)) n) as [Hs|]; [|reflexivity].
    exfalso. pose proof (wf_node_edge_disjoint (gr a) n Hwf Hnode) as Hd.
    assert (En : fst (fst x) = - n) by lia. rewrite En, is_edge_opp in He. congruence.
  Qed.

  Lemma node_edges_live a n x :
    wf (gr a) -> 0 < n -> is_node (gr a) n = true -> In x (node_edges a n) -> live a (ne_id x) = true.
  Proof.
    intros Hwf Hn Hnode Hx. apply node_edges_ids in Hx. unfold ne_id.
    destruct (wf_out_edges _ n Hwf Hn Hnode) as [_ [Hout _]]. destruct (wf_in_edges _ n Hwf Hn Hnode) as [_ [Hin _]].
    assert (He : fst (fst x) < 0 /\ is_edge (gr a) (fst (fst x)) = true).
    { destruct Hx as [Hx|Hx]; [apply Hout in Hx|apply Hin in Hx]; tauto. }
    destruct He as [Hneg He]. unfold live, graph_index. destruct (Z.ltb_spec (fst (fst x)) 0); [exact He|lia].
  Qed.

  (* a node with its alias, incident edges and all values *)
  Lemma remove_node_full_reach a n alias d0 :
    Inv a -> 0 < n -> live a n = true ->
    match alias with Some al => imap_value (aliases a) al = Some n | None => True end ->
    remove_node_db a n alias = (d0, None) ->
    reach a (remove_all_values d0 n).
  Proof.
    intros Ha Hn Hl Hal E.
    assert (Hnode : is_node (gr a) n = true) by (rewrite <- live_pos_node by exact Hn; exact Hl).
    split.
    - rewrite gr_remove_all_values, (cap_remove_node_db a n alias d0 None E). lia.
    - intros Hok _.
      destruct (remove_node_db_psteps rv Hrv Hsteal a n alias Hok Hn Hnode Hal) as (d1 & E1 & Hp & _).
      { intros x Hx. apply idx_has_all_of_Inv; [exact Ha|]. now apply (node_edges_live a n x (proj1 Ha)). }
      rewrite E in E1. injection E1 as <-.
      eapply pss_snoc; [exact Hp|]. apply ps_remove_all_values.
      apply (remove_node_db_idx_has_all a n alias d0 E).
      + intros x Hx. now apply (node_edges_other_slot a n x (proj1 Ha)).
      + now apply idx_has_all_of_Inv.
  Qed.

  Lemma remove_id_reach a id : Inv a -> reach a (fst (remove_id a id)).
  Proof.
    intros Ha. unfold remove_id. destruct (graph_index (gr a) id) eqn:Hg; [|apply reach_refl].
    destruct (Z.ltb_spec 0 id) as [Hp|Hp].
    - destruct (remove_node_db_Inv a id (imap_key (aliases a) id) Ha Hp Hg) as (d0 & E & _).
      { intros x. apply drop_alias_of_id_gone. apply Ha. }
      rewrite E. cbn [fst]. apply (remove_node_full_reach a id (imap_key (aliases a) id) d0 Ha Hp Hg); [|exact E].
      destruct (imap_key (aliases a) id) as [al|] eqn:Ek; [|exact I].
      unfold imap_key in Ek. apply (proj1 (proj1 (proj2 Ha)) al id). exact Ek.
    - assert (Hneg : id < 0).
      { destruct (Z.eq_dec id 0) as [->|]; [cbn in Hg; discriminate|lia]. }
      unfold remove_edge_db.
      destruct (remove_edge_live (gr a) id (proj1 Ha) Hneg) as (g2 & E2 & _ & _). rewrite E2. cbn [fst].
      set (d1 := push_undo (with_gr a g2) (CInsertEdge (edge_from (gr a) id) (edge_to (gr a) id))).
      apply reach_psteps. eapply pss_snoc; [apply (psteps_one rv)|].
      + apply (ps_remove_edge rv a (- id) d1); [lia| |].
        * rewrite is_edge_opp. unfold graph_index in Hg. destruct (Z.ltb_spec id 0); [exact Hg|lia].
        * rewrite Z.opp_involutive. unfold remove_edge_db. rewrite E2. reflexivity.
      + apply ps_remove_all_values. apply (idx_has_all_frame a); [reflexivity|reflexivity|].
        now apply idx_has_all_of_Inv.
  Qed.

  Lemma remove_q_reach a q : Inv a -> reach a (fst (remove_q a q)).
  Proof.
    intros Ha. destruct q as [id|al]; [now apply remove_id_reach|]. cbn [remove_q].
    destruct (imap_value (aliases a) al) as [id|] eqn:Ea; [|apply reach_refl].
    destruct (alias_nodes_live a al id (proj1 (proj2 (proj2 Ha))) Ea) as [Hp Hl].
    destruct (remove_node_db_Inv a id (Some al) Ha Hp Hl) as (d0 & E & _).
    { intros x. rewrite drop_alias_value.
      destruct (keqb_spec bytes_eqb bytes_eqb_eq al x) as [->|Hax]; [discriminate|].
      intros Hx. apply Hax. now apply (bij_injective (aliases a) al x id (proj1 (proj2 Ha))). }
    rewrite E. cbn [fst]. now apply (remove_node_full_reach a id (Some al) d0 Ha Hp Hl Ea E).
  Qed.
End Ops.
