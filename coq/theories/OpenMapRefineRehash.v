(* OpenMapRefineRehash.v — rehash_values (grow, shrink, and the in-place rehash of fix fc221a8) ESTABLISHES the
   probe-chain invariant at the new capacity and leaves no Deleted slot below it: afterwards every stored pair
   is found again by probing.  (That the multiset of pairs is unchanged and that the loop terminates is
   OpenMapProofs.v.) *)
From Coq Require Import List NArith ZArith Arith Bool Lia ZifyBool ZifyNat ZifyN Permutation.
Import ListNotations.
From Agdb Require Import OpenMap OpenMapProofs OpenMapRefineBase.
Ltac Zify.zify_post_hook ::= Z.div_mod_to_equations.

Section Rehash.
  Variables K V : Type.
  Variable keqb : K -> K -> bool.
  Variable veqb : V -> V -> bool.
  Variable h : K -> N.
  Variable mincap : nat.

  Notation slotT := (slot K V).
  Notation isv := (is_valid K V).
  Notation E := (@Empty K V).
  Notation D := (@Deleted K V).
  Notation ents := (entries K V).
  Notation hp := (hpos K h).
  Notation chainh := (chain K V h).
  Notation cap := (capacity K V).
  Notation omapT := (omap K V).

  (* no tombstone below the capacity *)
  Definition clean (c : nat) (sl : list slotT) : Prop := forall p, p < c -> nth p sl E <> D.

  Lemma step_is_next : forall newcap pos, pos < newcap ->
    (if S pos =? newcap then 0 else S pos) = next_pos newcap pos.
  Proof.
    intros newcap pos Hp. unfold next_pos.
    destruct (Nat.eqb_spec (S pos) newcap); destruct (Nat.eqb_spec pos (newcap - 1)); lia.
  Qed.

  (* the inner probe returns the FIRST clear occupancy bit from its start *)
  Lemma rehash_probe_first : forall occ newcap s, s < newcap ->
    forall fuel pos p, pos < newcap -> fuel <= rem newcap s pos ->
      (forall j, j < newcap -> dist newcap s j < dist newcap s pos -> nth j occ false = true) ->
      rehash_probe fuel occ newcap pos = Some p ->
      p < newcap /\ nth p occ false = false /\
      (forall j, j < newcap -> dist newcap s j < dist newcap s p -> nth j occ false = true).
  Proof.
    intros occ newcap s Hs. induction fuel as [|f IH]; intros pos p Hpos Hfuel Hvis Hr;
      cbn [rehash_probe] in Hr; [discriminate|].
    destruct (nth pos occ false) eqn:Hocc.
    - rewrite step_is_next in Hr by exact Hpos.
      destruct (Nat.eq_dec (next_pos newcap pos) s) as [Heq|Hne].
      { pose proof (rem_wrap newcap s pos Hs Hpos Heq). destruct f; [cbn [rehash_probe] in Hr; discriminate|lia]. }
      pose proof (rem_next newcap s pos Hpos Hs Hne) as Hrem.
      apply (IH (next_pos newcap pos) p); auto; [apply next_pos_lt; exact Hpos|lia|].
      intros j Hj Hd. destruct (visited_step newcap s pos j Hs Hpos Hj Hne Hd) as [Hlt| ->]; auto.
    - inversion Hr; subst p. auto.
  Qed.

  Record RC (cur newcap : nat) (sl : list slotT) (occ : list bool) (i : nat) : Prop := {
    rc_len1 : cur <= length sl;
    rc_len2 : newcap <= length sl;
    rc_occ : length occ = newcap;
    rc_i : i <= cur;
    (* a set bit = a Valid slot in its final place, reachable from its hash over set bits only *)
    rc_placed : forall p, nth p occ false = true ->
      exists k v, nth p sl E = Valid k v /\
        forall j, j < newcap -> dist newcap (hp k newcap) j < dist newcap (hp k newcap) p -> nth j occ false = true;
    (* a clear bit among the processed slots (and the fresh tail of a grown array) = an Empty slot *)
    rc_done : forall p, p < newcap -> p < i \/ cur <= p -> nth p occ false = false -> nth p sl E = E
  }.

  Lemma rehash_loop_chain : forall cur newcap, 0 < newcap ->
    forall fuel sl occ i sl',
      RC cur newcap sl occ i ->
      rehash_loop K V h fuel cur newcap sl occ i = Done sl' ->
      chainh newcap sl' /\ clean newcap sl'.
  Proof.
    intros cur newcap Hnc. induction fuel as [|f IH]; intros sl occ i sl' HI Hr; cbn [rehash_loop] in Hr; [discriminate|].
    destruct HI as [Hl1 Hl2 Hocc Hi Hpl Hdone].
    destruct (Nat.eqb_spec i cur) as [->|Hne].
    { inversion Hr; subst sl'. split.
      - intros p k v Hp Hv j Hj Hd Hje.
        destruct (nth p occ false) eqn:Hop.
        + destruct (Hpl p Hop) as [k' [v' [Hv' Hch]]]. rewrite Hv in Hv'. inversion Hv'; subst k' v'.
          pose proof (Hch j Hj Hd) as Hoj. destruct (Hpl j Hoj) as [k2 [v2 [Hv2 _]]]. congruence.
        + rewrite (Hdone p Hp ltac:(lia) Hop) in Hv. discriminate.
      - intros p Hp Hd. destruct (nth p occ false) eqn:Hop.
        + destruct (Hpl p Hop) as [k' [v' [Hv' _]]]. congruence.
        + rewrite (Hdone p Hp ltac:(lia) Hop) in Hd. discriminate. }
    assert (Hil : i < length sl) by lia.
    destruct (nth i sl E) as [| |k v] eqn:Hsl.
    - (* Empty *)
      apply (IH sl occ (i + 1) sl'); [|exact Hr]. constructor; auto; try lia.
      intros p Hp Hor Hop. destruct (Nat.eq_dec p i) as [->|Hpi]; [exact Hsl|]. apply Hdone; auto; lia.
    - (* Deleted *)
      assert (Hocci : nth i occ false = false).
      { destruct (nth i occ false) eqn:Ho; [|reflexivity]. destruct (Hpl i Ho) as [k' [v' [Hv' _]]]. congruence. }
      destruct (Nat.ltb_spec i newcap) as [Hlt|Hge].
      + apply (IH (upd i E sl) occ (i + 1) sl'); [|exact Hr]. constructor; rewrite ?upd_length; auto; try lia.
        * intros p Hop. destruct (Hpl p Hop) as [k' [v' [Hv' Hch]]]. exists k', v'. split; [|exact Hch].
          rewrite nth_upd_other; [exact Hv'|]. intros ->. congruence.
        * intros p Hp Hor Hop. destruct (Nat.eq_dec p i) as [->|Hpi]; [apply nth_upd_same; exact Hil|].
          rewrite nth_upd_other by lia. apply Hdone; auto; lia.
      + apply (IH sl occ (i + 1) sl'); [|exact Hr]. constructor; auto; try lia.
        intros p Hp Hor Hop. apply Hdone; auto; lia.
    - (* Valid *)
      destruct ((i <? newcap) && nth i occ false) eqn:Hplaced.
      + apply (IH sl occ (i + 1) sl'); [|exact Hr]. constructor; auto; try lia.
        intros p Hp Hor Hop. apply andb_true_iff in Hplaced. destruct Hplaced as [_ Hoi].
        destruct (Nat.eq_dec p i) as [->|Hpi]; [congruence|]. apply Hdone; auto; lia.
      + assert (Hocci : nth i occ false = false).
        { destruct (nth i occ false) eqn:Ho; [|reflexivity].
          pose proof (occ_true_lt occ i Ho) as Hlt. rewrite Hocc in Hlt.
          apply Nat.ltb_lt in Hlt. rewrite Hlt in Hplaced. discriminate. }
        destruct (rehash_probe newcap occ newcap (hp k newcap)) as [pos|] eqn:Hp; [|discriminate].
        pose proof (hpos_lt K keqb h k newcap Hnc) as Hs.
        destruct (rehash_probe_first occ newcap (hp k newcap) Hs newcap (hp k newcap) pos Hs) as [Hposlt [Hposf Hposv]]; auto.
        { rewrite rem_start. lia. }
        { intros j Hj Hd. rewrite dist_self in Hd. lia. }
        assert (Hpl2 : pos < length sl) by lia.
        apply (IH (swap_nth E i pos sl) (upd pos true occ) (if i =? pos then i + 1 else i) sl'); [|exact Hr].
        constructor; rewrite ?swap_length, ?upd_length; auto; try lia.
        * destruct (Nat.eqb_spec i pos); lia.
        * intros p Hop. rewrite nth_upd in Hop. rewrite nth_swap by lia.
          destruct (Nat.eqb_spec p pos) as [->|Hpp].
          -- exists k, v. split; [exact Hsl|]. intros j Hj Hd. rewrite nth_upd.
             destruct ((pos =? j) && (pos <? length occ)); [reflexivity|]. apply Hposv; assumption.
          -- destruct (Nat.eqb_spec pos p); [lia|]. cbn [andb] in Hop.
             destruct (Nat.eqb_spec p i) as [->|Hpi]; [congruence|].
             destruct (Hpl p Hop) as [k' [v' [Hv' Hch]]]. exists k', v'. split; [exact Hv'|].
             intros j Hj Hd. rewrite nth_upd. destruct ((pos =? j) && (pos <? length occ)); [reflexivity|].
             apply Hch; assumption.
        * intros p Hplt Hor Hop. rewrite nth_upd in Hop. rewrite nth_swap by lia.
          destruct (Nat.eqb_spec pos p) as [->|Hpp].
          { rewrite Hocc in Hop. destruct (Nat.ltb_spec p newcap); [cbn [andb] in Hop; discriminate|lia]. }
          cbn [andb] in Hop.
          destruct (Nat.eqb_spec p pos); [lia|].
          destruct (Nat.eqb_spec p i) as [->|Hpi].
          { destruct (Nat.eqb_spec i pos); lia. }
          apply Hdone; auto. destruct (Nat.eqb_spec i pos); lia.
  Qed.

  (* the array handed to rehash_values: beyond the old capacity (a grown array) everything is Empty *)
  Lemma rehash_values_chain : forall cur newcap sl sl',
    0 < newcap -> cur <= length sl -> newcap <= length sl ->
    (forall p, cur <= p -> p < newcap -> nth p sl E = E) ->
    rehash_values K V h cur newcap sl = Done sl' ->
    chainh newcap sl' /\ clean newcap sl'.
  Proof.
    intros cur newcap sl sl' Hnc Hc Hn Htail Hr. unfold rehash_values in Hr.
    apply (rehash_loop_chain cur newcap Hnc _ _ _ _ _) in Hr; [exact Hr|].
    constructor; auto; try lia.
    - apply repeat_length.
    - intros p Hp. rewrite nth_repeat_false in Hp. discriminate.
    - intros p Hp [Hlt|Hge] _; [lia|]. apply Htail; assumption.
  Qed.

  Lemma nth_firstn_lt : forall A (d : A) n (l : list A) p, p < n -> nth p (firstn n l) d = nth p l d.
  Proof.
    intros A d. induction n as [|n IH]; intros l p Hp; [lia|].
    destruct l as [|y t]; [reflexivity|]. destruct p as [|p]; [reflexivity|]. cbn [firstn nth]. apply IH. lia.
  Qed.

  Lemma chain_firstn : forall c sl, chainh c sl -> chainh c (firstn c sl).
  Proof.
    intros c sl Hc i k v Hi Hv j Hj Hd. rewrite nth_firstn_lt in * by assumption.
    exact (Hc i k v Hi Hv j Hj Hd).
  Qed.

  Lemma clean_firstn : forall c sl, clean c sl -> clean c (firstn c sl).
  Proof. intros c sl Hc p Hp. rewrite nth_firstn_lt by assumption. apply Hc; exact Hp. Qed.

  (* ---------------- rehash / rehash_in_place: completes, chain, same multiset ---------------- *)

  Hypothesis keqb_eq : forall a b, keqb a b = true <-> a = b.
  Hypothesis veqb_eq : forall a b, veqb a b = true <-> a = b.

  Lemma rehash_full : forall (m : omapT) c,
    cv K V (slots m) = len m -> len m < Nat.max c mincap -> chainh (cap m) (slots m) ->
    exists m', rehash K V h mincap m c = Done m' /\
               cap m' = Nat.max c mincap /\ len m' = len m /\ cv K V (slots m') = len m' /\
               chainh (cap m') (slots m') /\
               Permutation (ents (slots m')) (ents (slots m)) /\
               (cap m <> cap m' -> clean (cap m') (slots m')).
  Proof.
    intros m c Hcv Hlt Hch.
    destruct (rehash_ok K V keqb veqb h mincap m c Hcv Hlt) as [m' [Hr [Hc [Hl Hcv']]]].
    exists m'. split; [exact Hr|]. split; [exact Hc|]. split; [exact Hl|]. split; [exact Hcv'|].
    assert (HP : Permutation (ents (slots m')) (ents (slots m))).
    { apply (counts_perm K V keqb veqb keqb_eq veqb_eq). intros Q.
      exact (rehash_entries K V keqb veqb h mincap Q m m' c Hcv Hlt Hr). }
    assert (Hgoal : chainh (cap m') (slots m') /\ (cap m <> cap m' -> clean (cap m') (slots m'))); [|tauto].
    rewrite Hc. clear HP Hl Hcv'. unfold rehash, capacity in *.
    destruct (Nat.compare_spec (length (slots m)) (Nat.max c mincap)) as [Heq|Hlt2|Hgt].
    - inversion Hr; subst m'. split; [rewrite <- Heq; exact Hch|]. intros Hne. lia.
    - destruct (rehash_values K V h (length (slots m)) (Nat.max c mincap)
                  (slots m ++ repeat E (Nat.max c mincap - length (slots m)))) as [sl'|] eqn:Hv; [|discriminate].
      inversion Hr; subst m'; cbn [slots] in *.
      apply rehash_values_chain in Hv; try rewrite app_length, repeat_length; try lia.
      + tauto.
      + intros p Hp1 Hp2. rewrite app_nth2 by lia. apply nth_repeat.
    - destruct (rehash_values K V h (length (slots m)) (Nat.max c mincap) (slots m)) as [sl'|] eqn:Hv; [|discriminate].
      inversion Hr; subst m'; cbn [slots] in *.
      apply rehash_values_chain in Hv; try lia.
      destruct Hv as [Hc1 Hc2]. split; [apply chain_firstn; exact Hc1|intros _; apply clean_firstn; exact Hc2].
  Qed.

  Lemma rehash_in_place_full : forall (m : omapT),
    cv K V (slots m) = len m -> len m < cap m ->
    exists m', rehash_in_place K V h m = Done m' /\
               cap m' = cap m /\ len m' = len m /\ cv K V (slots m') = len m' /\
               chainh (cap m') (slots m') /\ clean (cap m') (slots m') /\
               Permutation (ents (slots m')) (ents (slots m)).
  Proof.
    intros m Hcv Hlt.
    destruct (rehash_in_place_ok K V keqb veqb h m Hcv Hlt) as [m' [Hr [Hc [Hl Hcv']]]].
    exists m'. split; [exact Hr|]. split; [exact Hc|]. split; [exact Hl|]. split; [exact Hcv'|].
    assert (HP : Permutation (ents (slots m')) (ents (slots m))).
    { apply (counts_perm K V keqb veqb keqb_eq veqb_eq). intros Q.
      apply (rehash_in_place_entries K V keqb veqb h Q m m'); [lia|exact Hr]. }
    assert (Hgoal : chainh (cap m') (slots m') /\ clean (cap m') (slots m')); [|tauto].
    rewrite Hc. clear HP Hl Hcv'. unfold rehash_in_place, capacity in *.
    destruct (rehash_values K V h (length (slots m)) (length (slots m)) (slots m)) as [sl'|] eqn:Hv; [|discriminate].
    inversion Hr; subst m'; cbn [slots] in *.
    apply rehash_values_chain in Hv; try lia. exact Hv.
  Qed.

End Rehash.
