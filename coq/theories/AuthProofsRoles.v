(* AuthProofsRoles.v — a removed role stays removed until somebody entitled grants it again (C24). *)
From Agdb Require Import Bytes Auth AuthProofs AuthProofsTokens AuthProofsPerm.
From Coq Require Import Lia ZifyBool ZifyN.
Open Scope N_scope.

Arguments N.add : simpl never.
Arguments N.ltb : simpl never.
Arguments N.leb : simpl never.
Arguments N.eqb : simpl never.

(* user v holds no role on (o, d) (or the database does not exist) *)
Definition norole (dbs : list dbrec) (v o d : N) : Prop :=
  match find_db dbs o d with Some r => lookup_role (d_roles r) v = None | None => True end.

Lemma norole_role_of : forall s v o d, norole (s_dbs s) v o d <-> role_of s v o d = None.
Proof. intros. unfold norole, role_of. destruct (find_db (s_dbs s) o d); intuition. Qed.

Lemma norole_app_other : forall l x v o d, db_is o d x = false -> norole l v o d -> norole (l ++ [x]) v o d.
Proof.
  intros l x v o d H. unfold norole, find_db. induction l as [|a l IH]; cbn.
  - rewrite H. auto.
  - destruct (db_is o d a); auto.
Qed.

Lemma norole_app_some : forall l x v o d r, find_db l o d = Some r -> norole l v o d -> norole (l ++ [x]) v o d.
Proof.
  intros l x v o d r. unfold norole, find_db. induction l as [|a l IH]; cbn; [discriminate|].
  destruct (db_is o d a); auto.
Qed.

Lemma norole_update_other : forall l o' d' f v o d,
  (o' =? o) && (d' =? d) = false -> (forall r, db_is o' d' r = true -> db_is o d (f r) = false) ->
  norole l v o d -> norole (update_db l o' d' f) v o d.
Proof.
  intros l o' d' f v o d K F. unfold norole, find_db, update_db. induction l as [|a l IH]; cbn; [auto|].
  destruct (db_is o' d' a) eqn:E.
  - rewrite (F a E). rewrite (db_is_diff _ _ _ _ _ K E). exact IH.
  - destruct (db_is o d a); auto.
Qed.

Lemma norole_update_keep : forall l o' d' f v o d,
  (forall r, d_owner (f r) = d_owner r /\ d_name (f r) = d_name r /\
             (lookup_role (d_roles r) v = None -> lookup_role (d_roles (f r)) v = None)) ->
  norole l v o d -> norole (update_db l o' d' f) v o d.
Proof.
  intros l o' d' f v o d F. unfold norole, find_db, update_db. induction l as [|a l IH]; cbn; [auto|].
  destruct (db_is o' d' a) eqn:E.
  - destruct (F a) as (F1 & F2 & F3).
    assert (Q : db_is o d (f a) = db_is o d a) by (unfold db_is; rewrite F1, F2; reflexivity).
    rewrite Q. destruct (db_is o d a); auto.
  - destruct (db_is o d a); auto.
Qed.

Lemma norole_remove : forall l o' d' v o d, norole l v o d -> norole (remove_db l o' d') v o d.
Proof.
  intros l o' d' v o d. unfold norole, find_db, remove_db.
  destruct ((o' =? o) && (d' =? d)) eqn:K.
  - (* same key: nothing with that key is left *)
    intros _. apply Bool.andb_true_iff in K. destruct K as [K1 K2]. apply N.eqb_eq in K1, K2. subst.
    induction l as [|a l IH]; cbn; [exact I|]. destruct (db_is o d a) eqn:E; cbn; [exact IH|]. rewrite E. exact IH.
  - induction l as [|a l IH]; cbn; [auto|]. destruct (db_is o' d' a) eqn:E; cbn.
    + rewrite (db_is_diff _ _ _ _ _ K E). exact IH.
    + destruct (db_is o d a); auto.
Qed.

Lemma lookup_drop_none : forall rs c v, lookup_role rs v = None -> lookup_role (drop_role rs c) v = None.
Proof.
  intros rs c v. unfold lookup_role, drop_role. induction rs as [|[a r] rs IH]; cbn; [auto|].
  destruct (a =? v) eqn:E; [discriminate|]. intros H. destruct (a =? c); cbn; [apply IH; exact H|].
  rewrite E. apply IH. exact H.
Qed.

Ltac norole_other K U H :=
  first
    [ exact H
    | apply norole_app_other; [unfold db_is; cbn [d_owner d_name]; first [exact K | (apply Bool.andb_false_iff; left; apply N.eqb_neq; exact U)] | exact H]
    | apply norole_remove; exact H
    | apply norole_update_other; [exact K| |exact H];
      let r0 := fresh "r0" in let H0 := fresh "H0" in
      intros r0 H0; unfold db_is; cbn;
      first [ exact (db_is_diff _ _ _ _ _ K H0)
            | (apply Bool.andb_false_iff; left; apply N.eqb_neq; exact U) ] ].

Lemma apply_db_other_norole : forall s u o' d' op v o d,
  (o' =? o) && (d' =? d) = false -> u <> o ->
  norole (s_dbs s) v o d -> norole (s_dbs (snd (apply_db s u o' d' op u))) v o d.
Proof.
  intros s u o' d' op v o d K U H. unfold apply_db.
  destruct (find_db (s_dbs s) o' d') as [r'|] eqn:F; destruct op; cbn [snd fst];
    dm; cbn [snd with_dbs with_dbs_disk s_dbs]; norole_other K U H.
Qed.

(* the caller may not grant roles on (o, d): unauthenticated, or neither the server admin, nor the
   owner name o, nor a db admin of (o, d) *)
Definition nongrant (s : state) (now : N) (tok : option N) (o d : N) : Prop :=
  match user_of_token s now tok with
  | None => True
  | Some u => u <> s_admin s /\ u <> o /\ role_of s u o d <> Some RoAdmin
  end.

Lemma apply_db_same_norole : forall s u o d op v,
  authorize_db s u o d op = Allow -> u <> o -> role_of s u o d <> Some RoAdmin ->
  norole (s_dbs s) v o d -> norole (s_dbs (snd (apply_db s u o d op u))) v o d.
Proof.
  intros s u o d op v A U R H.
  assert (E1 : (u =? o) = false) by (apply N.eqb_neq; exact U).
  assert (E2 : (o =? u) = false) by (apply N.eqb_neq; intros C; apply U; symmetry; exact C).
  unfold apply_db.
  destruct op; unfold authorize_db, is_db_admin in A; rewrite ?E1, ?E2 in A; cbn [negb] in A;
    destruct (role_of s u o d) as [[| |]|] eqn:Ro; try (exfalso; apply R; reflexivity); cbn in A; try discriminate A;
    split_ifs A; try discriminate A;
    destruct (find_db (s_dbs s) o d) as [r|] eqn:F; cbn [snd fst]; try exact H;
    dm; cbn [snd with_dbs s_dbs]; try exact H.
  all: try (apply norole_app_some with (r := r); [exact F|exact H]).
  all: try (apply norole_update_keep; [|exact H]; intros x; cbn; repeat split; auto; apply lookup_drop_none).
Qed.

Lemma nongrant_step_norole : forall s now tok req v o d,
  nongrant s now tok o d -> norole (s_dbs s) v o d -> norole (s_dbs (snd (step s now tok req))) v o d.
Proof.
  intros s now tok req v o d W H. unfold step. destruct (authorize s now tok req) eqn:A; [|exact H].
  unfold nongrant in W.
  destruct req; cbn [apply snd]; try exact H.
  - cbn [authorize] in A. destruct (user_of_token s now tok) as [cu|] eqn:Ut; [|discriminate A].
    destruct W as (W1 & W2 & W3).
    destruct ((o0 =? o) && (d0 =? d)) eqn:K.
    + apply Bool.andb_true_iff in K. destruct K as [K1 K2]. apply N.eqb_eq in K1, K2. subst o0 d0.
      apply apply_db_same_norole; assumption.
    + apply apply_db_other_norole; assumption.
  - cbn [authorize] in A. destruct (user_of_token s now tok) as [cu|] eqn:Ut; [|discriminate A].
    destruct W as (W1 & _). apply N.eqb_neq in W1. rewrite W1 in A. discriminate A.
  - cbn [authorize] in A. destruct (user_of_token s now tok) as [cu|] eqn:Ut; [|discriminate A].
    destruct W as (W1 & _). apply N.eqb_neq in W1. rewrite W1 in A. cbn in A. discriminate A.
Qed.

Fixpoint all_nongrant (s : state) (tr : list event) (o d : N) : Prop :=
  match tr with
  | [] => True
  | (now, tok, req) :: t => nongrant s now tok o d /\ all_nongrant (snd (step s now tok req)) t o d
  end.

(* once user v has no role on (o, d), no sequence of requests by callers who may not grant roles on
   (o, d) gives it back: v stays without role, hence (if v is not the owner name) is refused every
   operation on (o, d) afterwards *)
Theorem removed_role_stays : forall tr s v o d,
  role_of s v o d = None -> all_nongrant s tr o d -> role_of (run s tr) v o d = None.
Proof.
  induction tr as [|[[now tok] req] tr IH]; intros s v o d H W; cbn [run]; [exact H|].
  destruct W as [W1 W2]. apply IH; [|exact W2].
  apply norole_role_of. apply nongrant_step_norole; [exact W1|]. apply norole_role_of. exact H.
Qed.

Theorem removed_role_denied : forall tr s v o d op,
  role_of s v o d = None -> v <> o -> all_nongrant s tr o d ->
  authorize_db (run s tr) v o d op <> Allow.
Proof.
  intros. apply no_role_denied; [apply removed_role_stays; assumption|assumption].
Qed.
