(* CollGraph.v — proofs (collections, part 12): GraphDataStorage of graph.rs — the record with
   the four vector indexes (from, to, from_meta, to_meta) and the four DbVec<i64>; and the
   root record DbStorageIndex of db.rs.

   grep g d slots a    the index record and the four vectors are represented (vrep for i64) by
                       the four slot arrays `a` (the g_from, g_to, g_fmeta, g_tmeta of Graph.v) and
                       pairwise disjoint
   cg_run_spec         every history of the GraphData interface (set / get of a field, grow,
                       shrink_to_fit, capacity) with reloads (GraphDataStorage::from_storage) and
                       maintenance of the storage at will yields the observations of the plain arrays *)
From Agdb Require Import Bytes BytesProofs Records RecordsProofs Storage StorageSpec StorageLayout StorageWp
  StorageRefine StorageProofs Collections CollWp CollBytes CollVecBase CollVecOps CollVec CollVec2 CollElems
  CollSep CollMap.
From Coq Require Import ZifyBool ZifyNat ZifyN.
Ltac Zify.zify_post_hook ::= Z.div_mod_to_equations.
Open Scope N_scope.
Arguments N.add : simpl never.
Arguments N.mul : simpl never.
Arguments N.sub : simpl never.
Arguments N.of_nat : simpl never.
Arguments N.to_nat : simpl never.
Arguments N.eqb : simpl never.
Arguments N.ltb : simpl never.
Arguments N.leb : simpl never.
Arguments N.div : simpl never.

Notation vrepZ := (vrep Z ce_i64 law_i64).
Notation footZ := (foot Z ce_i64 law_i64).

Record cg_slots := { gs_from : list bytes; gs_to : list bytes; gs_from_meta : list bytes; gs_to_meta : list bytes }.
Definition gs_get (s : cg_slots) (f : cg_field) : list bytes :=
  match f with GfFrom => gs_from s | GfTo => gs_to s | GfFromMeta => gs_from_meta s | GfToMeta => gs_to_meta s end.
Definition gs_put (s : cg_slots) (f : cg_field) (l : list bytes) : cg_slots :=
  match f with
  | GfFrom => {| gs_from := l; gs_to := gs_to s; gs_from_meta := gs_from_meta s; gs_to_meta := gs_to_meta s |}
  | GfTo => {| gs_from := gs_from s; gs_to := l; gs_from_meta := gs_from_meta s; gs_to_meta := gs_to_meta s |}
  | GfFromMeta => {| gs_from := gs_from s; gs_to := gs_to s; gs_from_meta := l; gs_to_meta := gs_to_meta s |}
  | GfToMeta => {| gs_from := gs_from s; gs_to := gs_to s; gs_from_meta := gs_from_meta s; gs_to_meta := l |}
  end.
Definition cg_put (g : cg_data) (f : cg_field) (h : cv_vec) : cg_data :=
  match f with
  | GfFrom => cg_with g h (cg_to g) (cg_from_meta g) (cg_to_meta g)
  | GfTo => cg_with g (cg_from g) h (cg_from_meta g) (cg_to_meta g)
  | GfFromMeta => cg_with g (cg_from g) (cg_to g) h (cg_to_meta g)
  | GfToMeta => cg_with g (cg_from g) (cg_to g) (cg_from_meta g) h
  end.

Definition gfoot (d : cg_data) (s : cg_slots) : list N :=
  cg_index d :: footZ (cg_from d) (gs_from s) ++ footZ (cg_to d) (gs_to s) ++
                footZ (cg_from_meta d) (gs_from_meta s) ++ footZ (cg_to_meta d) (gs_to_meta s).

Record grep (g : heap) (d : cg_data) (s : cg_slots) (a : cg_arrays) : Prop := {
  gr_rec : g (cg_index d) = Some (cg_index_ser (cv_index (cg_from d)) (cv_index (cg_to d)) (cv_index (cg_from_meta d)) (cv_index (cg_to_meta d)));
  gr_vec : forall f, vrepZ g (cg_vec d f) (gs_get s f) (ga_get a f);
  gr_bounds : forall f, cv_index (cg_vec d f) < two64;
  gr_nodup : NoDup (gfoot d s)
}.

Lemma grep_live g d s a : grep g d s a -> live_all g (gfoot d s).
Proof.
  intros H. unfold gfoot. intros j [<-|Hj].
  - rewrite (gr_rec _ _ _ _ H). discriminate.
  - apply in_app_or in Hj. destruct Hj as [Hj|Hj]; [exact (vrep_live _ _ _ _ _ _ _ (gr_vec _ _ _ _ H GfFrom) j Hj)|].
    apply in_app_or in Hj. destruct Hj as [Hj|Hj]; [exact (vrep_live _ _ _ _ _ _ _ (gr_vec _ _ _ _ H GfTo) j Hj)|].
    apply in_app_or in Hj. destruct Hj as [Hj|Hj]; [exact (vrep_live _ _ _ _ _ _ _ (gr_vec _ _ _ _ H GfFromMeta) j Hj)|
                                                   exact (vrep_live _ _ _ _ _ _ _ (gr_vec _ _ _ _ H GfToMeta) j Hj)].
Qed.

Lemma grep_heq g g' d s a : grep g d s a -> heq g' g -> grep g' d s a.
Proof.
  intros [H1 H2 H3 H4] Hm. constructor; auto; [rewrite Hm; exact H1|]. intros f. eapply vrep_heq; [apply H2|exact Hm].
Qed.

(* the footprint as  A ++ (field f) ++ B *)
Definition g_before (d : cg_data) (s : cg_slots) (f : cg_field) : list N :=
  match f with
  | GfFrom => [cg_index d]
  | GfTo => cg_index d :: footZ (cg_from d) (gs_from s)
  | GfFromMeta => cg_index d :: footZ (cg_from d) (gs_from s) ++ footZ (cg_to d) (gs_to s)
  | GfToMeta => cg_index d :: footZ (cg_from d) (gs_from s) ++ footZ (cg_to d) (gs_to s) ++ footZ (cg_from_meta d) (gs_from_meta s)
  end.
Definition g_after (d : cg_data) (s : cg_slots) (f : cg_field) : list N :=
  match f with
  | GfFrom => footZ (cg_to d) (gs_to s) ++ footZ (cg_from_meta d) (gs_from_meta s) ++ footZ (cg_to_meta d) (gs_to_meta s)
  | GfTo => footZ (cg_from_meta d) (gs_from_meta s) ++ footZ (cg_to_meta d) (gs_to_meta s)
  | GfFromMeta => footZ (cg_to_meta d) (gs_to_meta s)
  | GfToMeta => []
  end.

Lemma gfoot_split d s f : gfoot d s = g_before d s f ++ footZ (cg_vec d f) (gs_get s f) ++ g_after d s f.
Proof.
  destruct f; unfold gfoot, g_before, g_after; cbn [cg_vec gs_get app].
  - reflexivity.
  - reflexivity.
  - rewrite <- !app_assoc. reflexivity.
  - rewrite app_nil_r, <- !app_assoc. reflexivity.
Qed.

Lemma g_sides_put d s f h l : g_before (cg_put d f h) (gs_put s f l) f = g_before d s f /\ g_after (cg_put d f h) (gs_put s f l) f = g_after d s f /\
                              cg_vec (cg_put d f h) f = h /\ gs_get (gs_put s f l) f = l /\ cg_index (cg_put d f h) = cg_index d.
Proof. destruct f; repeat split. Qed.

Lemma other_in_sides d s f f' j : f' <> f -> In j (footZ (cg_vec d f') (gs_get s f')) -> In j (g_before d s f ++ g_after d s f).
Proof.
  intros Hne Hj. destruct f, f'; try congruence; unfold g_before, g_after; cbn [cg_vec gs_get] in *;
    rewrite ?app_nil_r; cbn [app In]; rewrite ?in_app_iff; tauto.
Qed.

Lemma other_put d s f f' h l : f' <> f -> cg_vec (cg_put d f h) f' = cg_vec d f' /\ gs_get (gs_put s f l) f' = gs_get s f'.
Proof. intros Hne. destruct f, f'; try congruence; split; reflexivity. Qed.

Definition field_eq_dec (a b : cg_field) : {a = b} + {a <> b}.
Proof. decide equality. Defined.

(* ---- an operation on one of the four vectors ---- *)
Lemma grep_update g g' d s a f h' sl' l' :
  grep g d s a -> cv_index h' = cv_index (cg_vec d f) ->
  vrepZ g' h' sl' l' -> frame g g' (footZ (cg_vec d f) (gs_get s f)) (footZ h' sl') ->
  grep g' (cg_put d f h') (gs_put s f sl') (ga_put a f l') /\ frame g g' (gfoot d s) (gfoot (cg_put d f h') (gs_put s f sl')).
Proof.
  intros H Hi HR' Hf. pose proof (grep_live _ _ _ _ H) as Hl. pose proof (gr_nodup _ _ _ _ H) as Hnd.
  rewrite (gfoot_split d s f) in Hl, Hnd.
  destruct (g_sides_put d s f h' sl') as (Eb & Ea & Ev & Es & Ei).
  destruct (sep_update g g' (g_before d s f) _ _ (g_after d s f) Hf Hnd) as (N' & F' & Same).
  { intros j Hj. apply Hl. apply in_app_or in Hj. apply in_or_app. destruct Hj as [Hj|Hj]; [left; exact Hj|right; apply in_or_app; right; exact Hj]. }
  { eapply vrep_nodup; exact HR'. }
  assert (Hidx : In (cg_index d) (g_before d s f ++ g_after d s f)) by (destruct f; cbn [g_before app In]; auto).
  split.
  - constructor.
    + rewrite Ei. rewrite Same by exact Hidx.
      replace (cg_index_ser _ _ _ _) with (cg_index_ser (cv_index (cg_from d)) (cv_index (cg_to d)) (cv_index (cg_from_meta d)) (cv_index (cg_to_meta d)));
        [exact (gr_rec _ _ _ _ H)|].
      destruct f; cbn [cg_put cg_with cg_from cg_to cg_from_meta cg_to_meta cg_vec] in *; rewrite Hi; reflexivity.
    + intros f'. destruct (field_eq_dec f' f) as [->|Hne].
      * rewrite Ev, Es. destruct f; cbn [ga_put ga_get]; exact HR'.
      * destruct (other_put d s f f' h' sl' Hne) as [E1 E2]. rewrite E1, E2.
        replace (ga_get (ga_put a f l') f') with (ga_get a f') by (destruct f, f'; try congruence; reflexivity).
        eapply vrep_transport; [apply (gr_vec _ _ _ _ H)|]. intros j Hj. apply Same. eapply other_in_sides; eauto.
    + intros f'. destruct (field_eq_dec f' f) as [->|Hne].
      * rewrite Ev, Hi. apply (gr_bounds _ _ _ _ H).
      * destruct (other_put d s f f' h' sl' Hne) as [E1 _]. rewrite E1. apply (gr_bounds _ _ _ _ H).
    + rewrite (gfoot_split _ _ f), Eb, Ea, Ev, Es. exact N'.
  - rewrite (gfoot_split d s f), (gfoot_split (cg_put d f h') (gs_put s f sl') f), Eb, Ea, Ev, Es. exact F'.
Qed.

Section GraphHist.
  Variable fl : bool.

  Definition ga_fits (a : cg_arrays) : Prop := forall f, 8 + 8 * lenN (ga_get a f) < two64.
  Definition gop_ok (o : cg_op) : Prop := match o with GoSet _ _ v => i64_range v | _ => True end.
  Fixpoint gops_ok (a : cg_arrays) (l : list cg_op) : Prop :=
    match l with
    | [] => True
    | o :: t => gop_ok o /\ ga_fits (fst (ga_step a o)) /\ gops_ok (fst (ga_step a o)) t
    end.

  Lemma gfin_ok {A} (p : cprog A) (d : cg_data) (f : A -> cg_data * cg_obs) sp (Q : cres (cg_data * cg_obs) -> spec -> Prop) :
    cwp fl p sp (fun r sp' => match r with
                              | CrOk a => Q (CrOk (f a)) sp'
                              | CrErr e => Q (CrOk (d, GbErr e)) sp'
                              | CrDead => False
                              end) ->
    cwp fl (r <~ cp_catch p ;; CRet (match r with Datatypes.inl a => f a | Datatypes.inr e => (d, GbErr e) end)) sp Q.
  Proof. intros H. apply cwp_bind. apply cwp_catch. eapply cwp_mono; [|exact H]. intros [a|e|] sp'; cbn [kont cwp]; auto. Qed.

  Lemma cg_put_same d f : cg_put d f (cg_vec d f) = cg_with d (cg_from d) (cg_to d) (cg_from_meta d) (cg_to_meta d).
  Proof. destruct f; reflexivity. Qed.
  Lemma gs_put_get s f f' l : gs_get (gs_put s f l) f' = if field_eq_dec f' f then l else gs_get s f'.
  Proof. destruct f, f'; reflexivity. Qed.

  (* one vector operation that keeps the handle *)
  Lemma cg_set_spec d s a f i v sp (Q : cres unit -> spec -> Prop) :
    grep (hp sp) d s a -> i64_range v ->
    (if lenN (ga_get a f) <=? cg_as_u64 i then Q (CrErr CvIndex) sp
     else forall s' sp', grep (hp sp') (cg_with d (cg_from d) (cg_to d) (cg_from_meta d) (cg_to_meta d)) s' (ga_put a f (cl_upd (ga_get a f) (N.to_nat (cg_as_u64 i)) v)) ->
            sdepth sp' = sdepth sp -> frame (hp sp) (hp sp') (gfoot d s) (gfoot d s') -> Q (CrOk tt) sp') ->
    cwp fl (cg_set d f i v) sp Q.
  Proof.
    intros H Hv HQ. unfold cg_set. apply cwp_bind.
    eapply cv_replace_spec; [exact (gr_vec _ _ _ _ H f)|exact Hv|].
    destruct (nth_error (ga_get a f) (N.to_nat (cg_as_u64 i))) eqn:En.
    - destruct (N.leb_spec (lenN (ga_get a f)) (cg_as_u64 i)) as [X|_]; [apply nth_error_Some_lt in En; unfold lenN in X; lia|].
      intros sl' sp' HR' Hd' Hf. cbn [kont cwp].
      destruct (grep_update _ _ _ _ _ f _ _ _ H eq_refl HR' Hf) as [H' Hf']. rewrite cg_put_same in H', Hf'.
      eapply HQ; [exact H'|exact Hd'|]. unfold gfoot in *. cbn [cg_with cg_index cg_from cg_to cg_from_meta cg_to_meta] in *. exact Hf'.
    - cbn [kont]. apply nth_error_None in En. destruct (N.leb_spec (lenN (ga_get a f)) (cg_as_u64 i)) as [_|X]; [exact HQ|unfold lenN in X; lia].
  Qed.

  Lemma cg_step_spec d s a o sp (Q : cres (cg_data * cg_obs) -> spec -> Prop) :
    grep (hp sp) d s a -> sdepth sp = 0 -> gop_ok o -> ga_fits (fst (ga_step a o)) ->
    (forall d' s' sp', grep (hp sp') d' s' (fst (ga_step a o)) -> cg_index d' = cg_index d -> sdepth sp' = 0 ->
        frame (hp sp) (hp sp') (gfoot d s) (gfoot d' s') -> Q (CrOk (d', snd (ga_step a o))) sp') ->
    cwp fl (cg_step d o) sp Q.
  Proof.
    intros H Hd Hok Hfit HQ. destruct d as [di hf ht hfm htm].
    set (d := {| cg_index := di; cg_from := hf; cg_to := ht; cg_from_meta := hfm; cg_to_meta := htm |}) in *.
    assert (HQ0 : forall v, v = snd (ga_step a o) -> fst (ga_step a o) = a -> Q (CrOk (d, v)) sp).
    { intros v -> El. eapply HQ; [rewrite El; exact H|reflexivity|exact Hd|apply frame_refl; intros j; reflexivity]. }
    destruct o; cbn [cg_step ga_step fst snd gop_ok] in *.
    - (* set *)
      apply gfin_ok. eapply cg_set_spec; [exact H|exact Hok|].
      destruct (N.leb_spec (lenN (ga_get a f)) (cg_as_u64 i)).
      + apply HQ0; reflexivity.
      + intros s' sp' H' Hd' Hf. cbn [fst snd] in *. eapply HQ; [exact H'|reflexivity|lia|exact Hf].
    - (* get *)
      apply gfin_ok. unfold cg_get. eapply cv_value_spec; [exact (gr_vec _ _ _ _ H f)|].
      destruct (nth_error (ga_get a f) (N.to_nat (cg_as_u64 i))); cbn [fst snd]; apply HQ0; reflexivity.
    - (* grow: four pushes *)
      apply gfin_ok. unfold cg_grow. cbn [fst] in Hfit.
      assert (Hf4 : forall f, 8 + ce_size ce_i64 * (lenN (ga_get a f) + 1) < two64).
      { intros f. specialize (Hfit f). destruct f; cbn [ga_get ga_from ga_to ga_from_meta ga_to_meta] in *; rewrite lenN_app in Hfit;
          unfold lenN in *; cbn [length ce_size ce_i64] in *; lia. }
      assert (Z0ok : i64_range 0%Z) by (unfold i64_range; lia).
      apply cwp_bind. eapply cv_push_spec; [exact (gr_vec _ _ _ _ H GfFrom)|exact Z0ok|apply (Hf4 GfFrom)|].
      intros h1 s1 sp1 R1 I1 D1 F1. cbn [kont].
      destruct (grep_update _ _ _ _ _ GfFrom _ _ _ H I1 R1 F1) as [H1 Ff1].
      apply cwp_bind. eapply cv_push_spec; [exact (gr_vec _ _ _ _ H1 GfTo)|exact Z0ok|apply (Hf4 GfTo)|].
      intros h2 s2 sp2 R2 I2 D2 F2. cbn [kont].
      destruct (grep_update _ _ _ _ _ GfTo _ _ _ H1 I2 R2 F2) as [H2 Ff2].
      apply cwp_bind. eapply cv_push_spec; [exact (gr_vec _ _ _ _ H2 GfFromMeta)|exact Z0ok|apply (Hf4 GfFromMeta)|].
      intros h3 s3 sp3 R3 I3 D3 F3. cbn [kont].
      destruct (grep_update _ _ _ _ _ GfFromMeta _ _ _ H2 I3 R3 F3) as [H3 Ff3].
      apply cwp_bind. eapply cv_push_spec; [exact (gr_vec _ _ _ _ H3 GfToMeta)|exact Z0ok|apply (Hf4 GfToMeta)|].
      intros h4 s4 sp4 R4 I4 D4 F4. cbn [kont cwp].
      destruct (grep_update _ _ _ _ _ GfToMeta _ _ _ H3 I4 R4 F4) as [H4 Ff4].
      eapply HQ; [exact H4|reflexivity|lia|].
      eapply frame_trans; [exact Ff1|]. eapply frame_trans; [exact Ff2|]. eapply frame_trans; [exact Ff3|exact Ff4].
    - (* shrink_to_fit *)
      apply gfin_ok. unfold cg_shrink_to_fit.
      apply cwp_bind. eapply cv_shrink_spec; [exact (gr_vec _ _ _ _ H GfFrom)|].
      intros h1 sp1 R1 I1 D1 F1. cbn [kont].
      destruct (grep_update _ _ _ _ _ GfFrom _ _ _ H I1 R1 F1) as [H1 Ff1].
      apply cwp_bind. eapply cv_shrink_spec; [exact (gr_vec _ _ _ _ H1 GfTo)|].
      intros h2 sp2 R2 I2 D2 F2. cbn [kont].
      destruct (grep_update _ _ _ _ _ GfTo _ _ _ H1 I2 R2 F2) as [H2 Ff2].
      apply cwp_bind. eapply cv_shrink_spec; [exact (gr_vec _ _ _ _ H2 GfFromMeta)|].
      intros h3 sp3 R3 I3 D3 F3. cbn [kont].
      destruct (grep_update _ _ _ _ _ GfFromMeta _ _ _ H2 I3 R3 F3) as [H3 Ff3].
      apply cwp_bind. eapply cv_shrink_spec; [exact (gr_vec _ _ _ _ H3 GfToMeta)|].
      intros h4 sp4 R4 I4 D4 F4. cbn [kont cwp].
      destruct (grep_update _ _ _ _ _ GfToMeta _ _ _ H3 I4 R4 F4) as [H4 Ff4].
      eapply HQ; [|reflexivity|lia|eapply frame_trans; [exact Ff1|]; eapply frame_trans; [exact Ff2|]; eapply frame_trans; [exact Ff3|exact Ff4]].
      destruct a; exact H4.
    - (* capacity *)
      cbn [cwp]. unfold cg_capacity. pose proof (vr_len _ _ _ _ _ _ _ (gr_vec _ _ _ _ H GfFrom)) as E. cbn [cg_vec ga_get] in E. rewrite E. apply HQ0; reflexivity.
    - (* reload *)
      apply gfin_ok. unfold cg_from_storage.
      destruct (index_ser_parts _ _ _ _ (gr_bounds _ _ _ _ H GfFrom) (gr_bounds _ _ _ _ H GfTo) (gr_bounds _ _ _ _ H GfFromMeta) (gr_bounds _ _ _ _ H GfToMeta))
        as (P0 & P1 & P2 & P3 & P4).
      change cm_index_ser with cg_index_ser in *. cbn [cg_vec] in P0, P1, P2, P3, P4.
      set (rec := cg_index_ser _ _ _ _) in *.
      apply cwp_bind. eapply cwp_value; [exact (gr_rec _ _ _ _ H)|]. cbn [kont]. fold rec.
      assert (L8 : forall n, (n <= 24)%nat -> 8 <= lenN (skipn n rec)).
      { intros n Hn. unfold lenN in *. rewrite skipn_length. lia. }
      apply cwp_bind. apply cwp_de64; [rewrite P0; lia|]. cbn [kont]. rewrite P1.
      apply cwp_bind. apply cwp_de64; [apply L8; lia|]. cbn [kont]. rewrite P2.
      apply cwp_bind. apply cwp_de64; [apply L8; lia|]. cbn [kont]. rewrite P3.
      apply cwp_bind. apply cwp_de64; [apply L8; lia|]. cbn [kont]. rewrite P4.
      apply cwp_bind. eapply cv_from_storage_spec; [exact (gr_vec _ _ _ _ H GfFrom)|]. intros h1 R1 I1 L1. cbn [kont].
      apply cwp_bind. eapply cv_from_storage_spec; [exact (gr_vec _ _ _ _ H GfTo)|]. intros h2 R2 I2 L2. cbn [kont].
      apply cwp_bind. eapply cv_from_storage_spec; [exact (gr_vec _ _ _ _ H GfFromMeta)|]. intros h3 R3 I3 L3. cbn [kont].
      apply cwp_bind. eapply cv_from_storage_spec; [exact (gr_vec _ _ _ _ H GfToMeta)|]. intros h4 R4 I4 L4. cbn [kont cwp].
      cbn [d cg_vec cg_from cg_to cg_from_meta cg_to_meta cg_index] in *.
      set (d' := {| cg_index := di; cg_from := h1; cg_to := h2; cg_from_meta := h3; cg_to_meta := h4 |}).
      assert (Ef : gfoot d' s = gfoot d s).
      { unfold gfoot, foot. cbn [d d' cg_index cg_from cg_to cg_from_meta cg_to_meta]. rewrite I1, I2, I3, I4. reflexivity. }
      eapply (HQ d' s sp); [|reflexivity|exact Hd|rewrite Ef; apply frame_refl; intros j; reflexivity].
      constructor.
      + cbn [d' cg_index cg_from cg_to cg_from_meta cg_to_meta]. rewrite I1, I2, I3, I4. exact (gr_rec _ _ _ _ H).
      + intros f; destruct f; cbn [d' cg_vec cg_from cg_to cg_from_meta cg_to_meta]; assumption.
      + intros f; destruct f; cbn [d' cg_vec cg_from cg_to cg_from_meta cg_to_meta]; [rewrite I1|rewrite I2|rewrite I3|rewrite I4];
          [apply (gr_bounds _ _ _ _ H GfFrom)|apply (gr_bounds _ _ _ _ H GfTo)|apply (gr_bounds _ _ _ _ H GfFromMeta)|apply (gr_bounds _ _ _ _ H GfToMeta)].
      + rewrite Ef. exact (gr_nodup _ _ _ _ H).
    - (* maintenance of the storage *)
      destruct (cv_is_maint o) eqn:Em.
      + apply gfin_ok. apply hwp_maint; [exact Em|exact Hd|]. intros sp' Hm Hd'.
        eapply HQ; [eapply grep_heq; [exact H|exact Hm]|reflexivity|exact Hd'|apply frame_refl; exact Hm].
      + cbn [cwp]. apply HQ0; reflexivity.
  Qed.

  Lemma ga_run_cons a o l :
    ga_run a (o :: l) = (fst (ga_run (fst (ga_step a o)) l), snd (ga_step a o) :: snd (ga_run (fst (ga_step a o)) l)).
  Proof. cbn [ga_run]. destruct (ga_step a o) as [a1 v]. cbn [fst snd]. destruct (ga_run a1 l). reflexivity. Qed.

  Theorem cg_run_spec : forall ops d s a sp (Q : cres (cg_data * list cg_obs) -> spec -> Prop),
    grep (hp sp) d s a -> sdepth sp = 0 -> gops_ok a ops ->
    (forall d' s' sp', grep (hp sp') d' s' (fst (ga_run a ops)) -> cg_index d' = cg_index d -> sdepth sp' = 0 ->
        frame (hp sp) (hp sp') (gfoot d s) (gfoot d' s') -> Q (CrOk (d', snd (ga_run a ops))) sp') ->
    cwp fl (cg_run d ops) sp Q.
  Proof.
    induction ops as [|o l IH]; intros d s a sp Q H Hd Hok HQ.
    - cbn [cg_run cwp]. eapply HQ; [exact H|reflexivity|exact Hd|]. apply frame_refl. intros j; reflexivity.
    - destruct Hok as (Ho & Hf & Hl). rewrite ga_run_cons in HQ. cbn [fst snd] in HQ. cbn [cg_run]. apply cwp_bind.
      eapply cg_step_spec; [exact H|exact Hd|exact Ho|exact Hf|].
      intros d1 s1 sp1 H1 Hi1 Hd1 Hf1. cbn [kont fst snd].
      apply cwp_bind. eapply IH; [exact H1|exact Hd1|exact Hl|].
      intros d2 s2 sp2 H2 Hi2 Hd2 Hf2. cbn [kont cwp fst snd].
      eapply HQ; [exact H2|congruence|exact Hd2|]. eapply frame_trans; eassumption.
  Qed.
End GraphHist.

(* ---------------- the root record (DbStorageIndex, storage index 1) ---------------- *)
Definition cr_u64 (r : cr_root) : Prop :=
  cr_version r < two64 /\ cr_graph r < two64 /\ cr_aliases1 r < two64 /\ cr_aliases2 r < two64 /\ cr_indexes r < two64 /\ cr_values r < two64.

Lemma cr_de_ser fl r sp (Q : cres cr_root -> spec -> Prop) :
  cr_u64 r -> Q (CrOk r) sp -> cwp fl (cr_de (cr_ser r)) sp Q.
Proof.
  intros (B1 & B2 & B3 & B4 & B5 & B6) HQ. unfold cr_de, cr_ser.
  set (a := le64 (cr_version r)). set (b := le64 (cr_graph r)). set (c := le64 (cr_aliases1 r)).
  set (d := le64 (cr_aliases2 r)). set (e := le64 (cr_indexes r)). set (f := le64 (cr_values r)).
  assert (La : length a = 8%nat) by apply le64_length. assert (Lb : length b = 8%nat) by apply le64_length.
  assert (Lc : length c = 8%nat) by apply le64_length. assert (Ld : length d = 8%nat) by apply le64_length.
  assert (Le : length e = 8%nat) by apply le64_length. assert (Lf : length f = 8%nat) by apply le64_length.
  assert (S1 : skipn 8 (a ++ b ++ c ++ d ++ e ++ f) = b ++ c ++ d ++ e ++ f) by (apply skipn_app_l; auto).
  assert (S2 : skipn 16 (a ++ b ++ c ++ d ++ e ++ f) = c ++ d ++ e ++ f).
  { rewrite (app_assoc a). apply skipn_app_l. rewrite app_length. lia. }
  assert (S3 : skipn 24 (a ++ b ++ c ++ d ++ e ++ f) = d ++ e ++ f).
  { rewrite (app_assoc a), (app_assoc (a ++ b)). apply skipn_app_l. rewrite !app_length. lia. }
  assert (S4 : skipn 32 (a ++ b ++ c ++ d ++ e ++ f) = e ++ f).
  { rewrite (app_assoc a), (app_assoc (a ++ b)), (app_assoc ((a ++ b) ++ c)). apply skipn_app_l. rewrite !app_length. lia. }
  assert (S5 : skipn 40 (a ++ b ++ c ++ d ++ e ++ f) = f).
  { rewrite (app_assoc a), (app_assoc (a ++ b)), (app_assoc ((a ++ b) ++ c)), (app_assoc (((a ++ b) ++ c) ++ d)).
    apply skipn_app_l. rewrite !app_length. lia. }
  rewrite S1, S2, S3, S4, S5.
  apply cwp_bind. apply cwp_de64; [unfold lenN; rewrite !app_length; lia|]. cbn [kont]. rewrite firstn_app_l by auto.
  apply cwp_bind. apply cwp_de64; [unfold lenN; rewrite !app_length; lia|]. cbn [kont]. rewrite firstn_app_l by auto.
  apply cwp_bind. apply cwp_de64; [unfold lenN; rewrite !app_length; lia|]. cbn [kont]. rewrite firstn_app_l by auto.
  apply cwp_bind. apply cwp_de64; [unfold lenN; rewrite !app_length; lia|]. cbn [kont]. rewrite firstn_app_l by auto.
  apply cwp_bind. apply cwp_de64; [unfold lenN; rewrite !app_length; lia|]. cbn [kont]. rewrite firstn_app_l by auto.
  apply cwp_bind. apply cwp_de64; [unfold lenN; lia|]. cbn [kont cwp]. rewrite firstn_all2 by lia.
  unfold a, b, c, d, e, f. rewrite !de_le64 by assumption. destruct r; exact HQ.
Qed.

(* what DbImpl::new reads back is what try_new_with_storage stored, also after any maintenance of the storage
   (C05_storage_maintenance: the record map is preserved) *)
Lemma cr_load_spec fl r sp (Q : cres cr_root -> spec -> Prop) :
  hp sp 1 = Some (cr_ser r) -> cr_u64 r -> Q (CrOk r) sp -> cwp fl cr_load sp Q.
Proof.
  intros Hg Hb HQ. unfold cr_load. apply cwp_bind. eapply cwp_value; [exact Hg|]. cbn [kont]. apply cr_de_ser; assumption.
Qed.

Lemma cr_store_spec fl r x sp (Q : cres unit -> spec -> Prop) :
  hp sp 1 = Some x -> lenN x = 48 ->
  (forall sp', heq (hp sp') (hupd (hp sp) 1 (cr_ser r)) -> sdepth sp' = sdepth sp -> Q (CrOk tt) sp') ->
  cwp fl (cr_store r) sp Q.
Proof.
  intros Hg Hl HQ. unfold cr_store. eapply hwp_insert_at; [exact Hg|]. intros sp' Hm Hd. apply HQ; [|exact Hd].
  change (N.to_nat 0) with 0%nat in Hm.
  assert (E : bs_write x 0 (cr_ser r) = cr_ser r).
  { rewrite <- (app_nil_r x) at 1. rewrite header_write; [apply app_nil_r|].
    unfold cr_ser. rewrite !app_length, !le64_length. unfold lenN in Hl. lia. }
  rewrite E in Hm. exact Hm.
Qed.
