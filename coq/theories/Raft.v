(* Raft.v — executable model of /repo/agdb_server/src/raft.rs (M9; properties C27–C30).

   Definitions only.  One Gallina function per Rust function of `impl Cluster`, same
   order of checks, same arithmetic.  What is abstracted, and how:

   * `Instant`/timers: every read of a timer (`elapsed()`) returns a value chosen by the
     adversary and carried by the event (`Tick i elapsed due`, `Deliver k elapsed`).  This is a
     superset of every real clock, so safety statements proved for all event lists hold for
     every timing.  The Duration fields of the struct (`first_election_timeout`,
     `election_timeout`, `heartbeat_timeout`, `term_timeout`) are kept as numbers (ms).
   * `hash`: all nodes of one cluster share one hash, `validate_hash` always passes; omitted.
   * `Storage`: in-memory log + commit index; `append` = `logs.truncate(index-1); push`
     (the test storage of raft.rs; ClusterStorage removes the *uncommitted* suffix from
     `log.index`, which is the same thing whenever `commit < log.index`, which the callers
     guarantee — theorem C28b); `commit` = `commit := index`; `logs(from)` = `skipn from`
     (ClusterLog::logs_since: the newest `count - from` entries).  Storage never fails, so
     `CommitError` does not occur.
   * `db_id`, the notifier, serde: omitted (not used by the protocol).
   * `nodes[i]` with `i` out of range panics in Rust; all indices the handlers use come from
     the node table or from messages built from it, so the totalising default of `nth` is
     never reached from `init` (`RaftProofs.wf_*`).
   * The network is the list of in-flight messages; a response travels together with the
     request it answers (as in cluster.rs, where the sender awaits the HTTP response and
     calls `response(&request, &response)`).
   * `ClientAppend i d` calls `append` only when node `i` is `Leader` (forward.rs forwards
     client requests to `leader()`); otherwise it is a no-op. *)
From Coq Require Import NArith List Bool.
Import ListNotations.
Open Scope N_scope.

(* ------------------------------------------------------------------ revisions
   The model follows the source tree it is compared with; the checks read the tree and select the flags
   (checks/raft_common.py: detect_rev).
   * fix_vote_term  — `vote_request` adopts the request's term when it grants the vote (`self.term = request.term`);
   * fix_vote_match — `response()` counts a Vote/Ok answer only if it answers a request of the candidate's current
     term (`(Candidate, Vote, OK) if request.term == self.term`).
   * fix_ack_term   — a leader counts only acknowledgements of its current term (fixes/C28-count-only-current-term-acks.diff):
     `vote_received` clears `log_index/log_term/log_commit` of every other row of the peer table when the node becomes
     Leader, and `response()` passes an Append/Heartbeat Ok answer to `commit()` only if it answers a request of the
     leader's current term (`(Leader, Heartbeat | Append(_), OK) if request.term == self.term`).
   `rr_pinned` = raft.rs before all repairs (the `_refuted` witnesses of C27 are about it),
   `rr_before_ack_fix` = both election repairs, not the acknowledgement repair (the `commit-without-quorum` witnesses of
   C28c / C29 are about it), `rr_fixed` = all three repairs. *)
Record raftrev := mkRev { fix_vote_term : bool; fix_vote_match : bool; fix_ack_term : bool }.
Definition rr_fixed : raftrev := mkRev true true true.
Definition rr_before_ack_fix : raftrev := mkRev true true false.
Definition rr_pinned : raftrev := mkRev false false false.

(* ------------------------------------------------------------------ data *)

Inductive cstate := Candidate | Election | Follower (l : N) | Leader | Voted (t : N).

Record entry := mkEntry { e_index : N; e_term : N; e_data : N }.

Record peer := mkPeer { p_li : N; p_lt : N; p_lc : N; p_voted : bool }.

Inductive rkind := KAppend (logs : list entry) | KHeartbeat | KPreVote | KVote.

Record request := mkReq {
  q_from : N; q_to : N; q_term : N; q_li : N; q_lt : N; q_lc : N; q_kind : rkind }.

Inductive rresult :=
| ROk
| RLeaderMismatch (l : N)
| RTermMismatch (l r : N)
| RLogMismatch (il ir tl tr cl cr : N)
| RAlreadyVoted (l r : N).

Record response := mkResp { s_to : N; s_result : rresult }.

Record node := mkNode {
  n_index : N; n_size : N;
  n_state : cstate; n_term : N;
  n_peers : list peer;                 (* `nodes`, own row included *)
  n_logs : list entry; n_commit : N;   (* storage *)
  n_first : N; n_et : N; n_hb : N; n_tt : N   (* first_election / election / heartbeat / term timeouts, ms *) }.

Definition peer0 := mkPeer 0 0 0 false.

(* ------------------------------------------------------------------ small helpers *)

Definition entry_eqb (a b : entry) : bool :=
  (e_index a =? e_index b) && (e_term a =? e_term b) && (e_data a =? e_data b).

Fixpoint entries_eqb (a b : list entry) : bool :=
  match a, b with
  | [], [] => true
  | x :: a', y :: b' => entry_eqb x y && entries_eqb a' b'
  | _, _ => false
  end.

Definition oentry_eqb (a b : option entry) : bool :=
  match a, b with
  | Some x, Some y => entry_eqb x y
  | None, None => true
  | _, _ => false
  end.

Fixpoint upd_nth {A} (k : nat) (f : A -> A) (l : list A) : list A :=
  match l, k with
  | [], _ => []
  | x :: r, O => f x :: r
  | x :: r, S k' => x :: upd_nth k' f r
  end.

Fixpoint remove_nth {A} (k : nat) (l : list A) : list A :=
  match l, k with
  | [], _ => []
  | _ :: r, O => r
  | x :: r, S k' => x :: remove_nth k' r
  end.

Definition memN (x : N) (l : list N) : bool := existsb (N.eqb x) l.

Definition lenN {A} (l : list A) : N := N.of_nat (length l).

(* entry stored at (1-based) log index i *)
Definition log_at (l : list entry) (i : N) : option entry :=
  if i =? 0 then None else nth_error l (N.to_nat (i - 1)).

Definition node_at (nd : node) (i : N) : peer := nth (N.to_nat i) (n_peers nd) peer0.
Definition local (nd : node) : peer := node_at nd (n_index nd).

Definition set_peers (nd : node) (ps : list peer) : node :=
  mkNode (n_index nd) (n_size nd) (n_state nd) (n_term nd) ps (n_logs nd) (n_commit nd)
         (n_first nd) (n_et nd) (n_hb nd) (n_tt nd).
Definition set_state (nd : node) (s : cstate) : node :=
  mkNode (n_index nd) (n_size nd) s (n_term nd) (n_peers nd) (n_logs nd) (n_commit nd)
         (n_first nd) (n_et nd) (n_hb nd) (n_tt nd).
Definition set_term (nd : node) (t : N) : node :=
  mkNode (n_index nd) (n_size nd) (n_state nd) t (n_peers nd) (n_logs nd) (n_commit nd)
         (n_first nd) (n_et nd) (n_hb nd) (n_tt nd).
Definition set_et (nd : node) (e : N) : node :=
  mkNode (n_index nd) (n_size nd) (n_state nd) (n_term nd) (n_peers nd) (n_logs nd) (n_commit nd)
         (n_first nd) e (n_hb nd) (n_tt nd).
Definition set_storage (nd : node) (l : list entry) (c : N) : node :=
  mkNode (n_index nd) (n_size nd) (n_state nd) (n_term nd) (n_peers nd) l c
         (n_first nd) (n_et nd) (n_hb nd) (n_tt nd).

Definition upd_peer (nd : node) (i : N) (f : peer -> peer) : node :=
  set_peers nd (upd_nth (N.to_nat i) f (n_peers nd)).
Definition upd_local (nd : node) (f : peer -> peer) : node := upd_peer nd (n_index nd) f.

Definition p_set_log (li lt : N) (p : peer) : peer := mkPeer li lt (p_lc p) (p_voted p).
Definition p_set_commit (lc : N) (p : peer) : peer := mkPeer (p_li p) (p_lt p) lc (p_voted p).
Definition p_set_all (li lt lc : N) (p : peer) : peer := mkPeer li lt lc (p_voted p).
Definition p_set_voted (v : bool) (p : peer) : peer := mkPeer (p_li p) (p_lt p) (p_lc p) v.

(* indices of the other nodes, in table order: `.filter(|node| self.index != node.index)` *)
Definition indices (nd : node) : list N := map N.of_nat (seq 0 (length (n_peers nd))).
Definition others (nd : node) : list N := filter (fun j => negb (j =? n_index nd)) (indices nd).

Definition mk_req (nd : node) (target term : N) (k : rkind) : request :=
  mkReq (n_index nd) target term (p_li (local nd)) (p_lt (local nd)) (p_lc (local nd)) k.

Definition count_peers (f : peer -> bool) (nd : node) : N := lenN (filter f (n_peers nd)).

(* ------------------------------------------------------------------ storage *)

Definition st_append (nd : node) (log : entry) : node :=
  set_storage nd (firstn (N.to_nat (e_index log - 1)) (n_logs nd) ++ [log]) (n_commit nd).
Definition st_commit (nd : node) (index : N) : node := set_storage nd (n_logs nd) index.
Definition st_logs (nd : node) (from : N) : list entry := skipn (N.to_nat from) (n_logs nd).

(* Cluster::append_storage / commit_storage *)
Definition append_storage (nd : node) (log : entry) : node :=
  upd_local (st_append nd log) (p_set_log (e_index log) (e_term log)).
Definition commit_storage (nd : node) (index : N) : node :=
  upd_local (st_commit nd index) (p_set_commit index).

(* ------------------------------------------------------------------ Cluster::new *)

Definition new_node (size index factor hb tt : N) : node :=
  mkNode index size
         (if size =? 1 then Leader else Election)
         (if size =? 1 then 1 else 0)
         (map (fun i => mkPeer 0 0 0 (N.of_nat i =? index)) (seq 0 (N.to_nat size)))
         [] 0
         (factor * index) (factor * index) hb tt.

(* ------------------------------------------------------------------ Cluster::append *)

Definition append (nd : node) (data : N) : node * list request :=
  let nd1 := upd_local nd (fun p => p_set_log (p_li p + 1) (n_term nd) p) in
  let log := mkEntry (p_li (local nd1)) (n_term nd1) data in
  let reqs := map (fun j => mk_req nd1 j (n_term nd1) (KAppend [log])) (others nd1) in
  let nd2 := st_append nd1 log in
  let nd3 := if n_size nd2 =? 1 then commit_storage nd2 (p_li (local nd2)) else nd2 in
  (nd3, reqs).

(* ------------------------------------------------------------------ elections *)

(* `.filter(|node| self.index != node.index).for_each(|node| node.voted = false)` *)
Fixpoint clear_from (k self : N) (ps : list peer) : list peer :=
  match ps with
  | [] => []
  | p :: r => (if k =? self then p else p_set_voted false p) :: clear_from (k + 1) self r
  end.
Definition clear_votes (nd : node) : node := set_peers nd (clear_from 0 (n_index nd) (n_peers nd)).

Definition pre_election (nd : node) : node * list request :=
  let nd1 := clear_votes nd in
  (nd1, map (fun j => mk_req nd1 j (n_term nd1 + 1) KPreVote) (others nd1)).

Definition election (nd : node) : node * list request :=
  let nd1 := clear_votes (set_state (set_term nd (n_term nd + 1)) Candidate) in
  (nd1, map (fun j => mk_req nd1 j (n_term nd1) KVote) (others nd1)).

Definition heartbeat_no_timer (nd : node) : list request :=
  map (fun j => mk_req nd j (n_term nd) KHeartbeat) (others nd).

(* ------------------------------------------------------------------ Cluster::process
   `elapsed` = value returned by `self.local().timer.elapsed()` (ms);
   `due` = the peers j for which `self.node(j).timer.elapsed() > heartbeat_timeout`. *)

Definition is_election (s : cstate) : bool := match s with Election => true | _ => false end.
Definition is_leader (s : cstate) : bool := match s with Leader => true | _ => false end.
Definition is_candidate (s : cstate) : bool := match s with Candidate => true | _ => false end.

Definition process (nd : node) (elapsed : N) (due : list N) : node * list request :=
  match n_state nd with
  | Leader =>
      (nd, map (fun j => mk_req nd j (n_term nd) KHeartbeat)
               (filter (fun j => memN j due) (others nd)))
  | _ =>
      if is_election (n_state nd) && (n_et nd <=? elapsed) then
        let '(nd1, reqs) := pre_election nd in
        (set_et nd1 (n_hb nd1), reqs)
      else if n_tt nd <? elapsed then
        (set_et (set_state nd Election) (n_first nd), [])
      else (nd, [])
  end.

(* ------------------------------------------------------------------ validate_* *)

Definition ok (r : request) : response := mkResp (q_from r) ROk.

Definition log_mismatch (nd : node) (r : request) : response :=
  mkResp (q_from r)
         (RLogMismatch (p_li (local nd)) (q_li r) (p_lt (local nd)) (q_lt r)
                       (p_lc (local nd)) (q_lc r)).

Definition validate_vote_state (nd : node) (r : request) : option response :=
  match n_state nd with
  | Leader | Candidate => Some (mkResp (q_from r) (RLeaderMismatch (n_index nd)))
  | Follower l => Some (mkResp (q_from r) (RLeaderMismatch l))
  | Voted t => if q_term r <=? t then Some (mkResp (q_from r) (RAlreadyVoted t (q_term r))) else None
  | Election => None
  end.

Definition validate_log (nd : node) (r : request) : option response :=
  if negb (p_li (local nd) =? q_li r) || negb (p_lt (local nd) =? q_lt r)
  then Some (log_mismatch nd r) else None.

(* Ok(true) = inl true, Ok(false) = inl false, Err(resp) = inr resp *)
Definition validate_log_append (nd : node) (r : request) (log : entry) : bool + response :=
  let l := local nd in
  let err := inr (mkResp (q_from r)
                   (RLogMismatch (p_li l) (e_index log) (p_lt l) (e_term log) (p_lc l) (e_index log))) in
  if p_lt l =? e_term log then
    if e_index log <=? p_li l then inl false
    else if (p_lc l <? e_index log) && (p_li l + 1 =? e_index log) then inl true
    else err
  else if (p_lt l <? e_term log) && (p_lc l <? e_index log) && (e_index log <=? p_li l + 1)
  then inl true
  else err.

Definition validate_log_for_vote (nd : node) (r : request) : option response :=
  if (q_li r <? p_li (local nd)) || (q_lt r <? p_lt (local nd)) || (q_lc r <? p_lc (local nd))
  then Some (log_mismatch nd r) else None.

Definition validate_term_for_vote (nd : node) (r : request) : option response :=
  if q_term r <=? n_term nd then Some (mkResp (q_from r) (RTermMismatch (n_term nd) (q_term r)))
  else None.

Definition validate_term (nd : node) (r : request) : option response :=
  if q_term r <? n_term nd then Some (mkResp (q_from r) (RTermMismatch (n_term nd) (q_term r)))
  else None.

Definition become_follower (nd : node) (r : request) : node :=
  if n_term nd <=? q_term r then set_state (set_term nd (q_term r)) (Follower (q_from r)) else nd.

Definition update_node (nd : node) (r : request) : node :=
  upd_peer nd (q_from r) (p_set_all (q_li r) (q_lt r) (q_lc r)).

(* ------------------------------------------------------------------ request handlers *)

(* the `for log in logs` loop of append_request *)
Fixpoint append_logs (nd : node) (r : request) (logs : list entry) : node * response :=
  match logs with
  | [] => (nd, ok r)
  | log :: rest =>
      match validate_log_append nd r log with
      | inr resp => (nd, resp)
      | inl doit =>
          let nd1 := if doit then append_storage nd log else nd in
          let nd2 := if (e_index log <=? q_lc r) && (p_lc (local nd1) <? e_index log)
                     then commit_storage nd1 (e_index log) else nd1 in
          append_logs nd2 r rest
      end
  end.

Definition append_request (nd : node) (r : request) (logs : list entry) : node * response :=
  match validate_term nd r with
  | Some resp => (nd, resp)
  | None => append_logs (update_node (become_follower nd r) r) r logs
  end.

Definition heartbeat_request (nd : node) (r : request) : node * response :=
  match validate_term nd r with
  | Some resp => (nd, resp)
  | None =>
      let nd1 := become_follower nd r in
      match validate_log nd1 r with
      | Some resp => (nd1, resp)
      | None =>
          let nd2 := update_node nd1 r in
          let nd3 := if p_lc (local nd2) <? q_lc r then commit_storage nd2 (q_lc r) else nd2 in
          (nd3, ok r)
      end
  end.

(* `elapsed` = `self.local().timer.elapsed()` read by the Follower guard *)
Definition pre_vote_request (nd : node) (r : request) (elapsed : N) : node * response :=
  let other := match validate_log_for_vote nd r with Some resp => (nd, resp) | None => (nd, ok r) end in
  match n_state nd with
  | Leader => (nd, mkResp (q_from r) (RLeaderMismatch (n_index nd)))
  | Follower l => if elapsed <=? n_tt nd then (nd, mkResp (q_from r) (RLeaderMismatch l)) else other
  | _ => other
  end.

Definition vote_request (rv : raftrev) (nd : node) (r : request) : node * response :=
  match validate_vote_state nd r with
  | Some resp => (nd, resp)
  | None =>
  match validate_term_for_vote nd r with
  | Some resp => (nd, resp)
  | None =>
  match validate_log_for_vote nd r with
  | Some resp => (nd, resp)
  | None => (set_state (if fix_vote_term rv then set_term nd (q_term r) else nd) (Voted (q_term r)), ok r)
  end end end.

Definition handle_request (rv : raftrev) (nd : node) (r : request) (elapsed : N) : node * response :=
  match q_kind r with
  | KAppend logs => append_request nd r logs
  | KHeartbeat => heartbeat_request nd r
  | KPreVote => pre_vote_request nd r elapsed
  | KVote => vote_request rv nd r
  end.

(* ------------------------------------------------------------------ response handlers *)

Definition votes (nd : node) : N := count_peers p_voted nd.

Definition pre_vote_received (nd : node) (r : request) : node * list request :=
  let nd1 := upd_peer nd (q_to r) (p_set_voted true) in
  if n_size nd1 / 2 <? votes nd1 then election nd1 else (nd1, []).

(* `.filter(|node| self.index != node.index).for_each(|node| { node.log_index = 0; node.log_term = 0; node.log_commit = 0 })` *)
Fixpoint reset_from (k self : N) (ps : list peer) : list peer :=
  match ps with
  | [] => []
  | p :: r => (if k =? self then p else p_set_all 0 0 0 p) :: reset_from (k + 1) self r
  end.
Definition reset_rows (nd : node) : node := set_peers nd (reset_from 0 (n_index nd) (n_peers nd)).

Definition vote_received (rv : raftrev) (nd : node) (r : request) : node * list request :=
  let nd1 := upd_peer nd (q_to r) (p_set_voted true) in
  if n_size nd1 / 2 <? votes nd1 then
    let nd2 := set_term (set_state nd1 Leader) (q_term r) in
    let nd3 := if fix_ack_term rv then reset_rows nd2 else nd2 in
    (nd3, heartbeat_no_timer nd3)
  else (nd1, []).

Definition commit (nd : node) (r : request) : node * list request :=
  let nd1 := upd_peer nd (q_to r) (p_set_all (q_li r) (q_lt r) (q_lc r)) in
  let quorum := n_size nd1 / 2 + 1 in
  if (p_lc (local nd1) <? q_li r) && (quorum <=? count_peers (fun p => q_li r <=? p_li p) nd1)
  then let nd2 := commit_storage nd1 (q_li r) in (nd2, heartbeat_no_timer nd2)
  else (nd1, []).

Definition reconcile (nd : node) (r : request) (commit_local : N) : node * list request :=
  (nd, [mk_req nd (q_to r) (n_term nd) (KAppend (st_logs nd commit_local))]).

Definition is_append_or_hb (k : rkind) : bool :=
  match k with KAppend _ | KHeartbeat => true | _ => false end.

(* does the candidate count this Vote/Ok answer?  (the guard of the `(Candidate, Vote, OK)` arm of `response()`) *)
Definition vote_counts (rv : raftrev) (nd : node) (r : request) : bool :=
  negb (fix_vote_match rv) || (q_term r =? n_term nd).

(* does the leader count this Append/Heartbeat Ok answer?  (the guard of the `(Leader, Heartbeat | Append(_), OK)` arm) *)
Definition ack_counts (rv : raftrev) (nd : node) (r : request) : bool :=
  (q_term r =? n_term nd) || negb (fix_ack_term rv).

Definition handle_response (rv : raftrev) (nd : node) (r : request) (s : response) : node * list request :=
  match n_state nd, q_kind r, s_result s with
  | Election, KPreVote, ROk => pre_vote_received nd r
  | Candidate, KVote, ROk => if vote_counts rv nd r then vote_received rv nd r else (nd, [])
  | Leader, (KHeartbeat | KAppend _), ROk => if ack_counts rv nd r then commit nd r else (nd, [])
  | Leader, (KHeartbeat | KAppend _), RLogMismatch _ _ _ _ cl _ => reconcile nd r cl
  | _, _, RTermMismatch l _ =>
      if n_term nd <? l then (set_et (set_state (set_term nd l) Election) (n_first nd), [])
      else (nd, [])
  | _, _, _ => (nd, [])
  end.

(* ------------------------------------------------------------------ the cluster, events, run *)

Inductive msg := MReq (r : request) | MResp (r : request) (s : response).

(* ghost history, oldest first.  Never read by the handlers. *)
Inductive ghost :=
| GCand (i t : N)                                   (* i started an election for t (votes for itself) *)
| GVote (voter t cand : N)                          (* voter answered Ok to cand's Vote request of term t *)
| GLeader (i t : N) (log : list entry)              (* i became Leader with term t, holding log *)
| GCommit (i : N) (by_leader : bool) (t : N) (idx : N) (e : option entry)
                                                    (* i (at term t) committed index idx holding e *)
| GStaleVote (i req_term cur_term : N)              (* candidate i counted a Vote/Ok of another term *)
| GAckDiverged (f l : N)                            (* f answered Ok to l's Append/Heartbeat while its log up to
                                                       its log index differs from l's log *)
| GAckBelowVote (f req_term voted : N).             (* f answered Ok to an Append/Heartbeat of term req_term although it
                                                       had answered Ok to a Vote request of the higher term voted *)

Record cluster := mkCluster { c_nodes : list node; c_net : list msg; c_hist : list ghost }.

Inductive event :=
| Tick (i : N) (elapsed : N) (due : list N)   (* one `process()` call on node i *)
| Deliver (k : nat) (elapsed : N)             (* deliver the k-th in-flight message *)
| Drop (k : nat)
| Duplicate (k : nat)
| ClientAppend (i : N) (d : N).

Definition init (size factor hb tt : N) : cluster :=
  let nodes := map (fun i => new_node size (N.of_nat i) factor hb tt) (seq 0 (N.to_nat size)) in
  mkCluster nodes [] (if size =? 1 then [GLeader 0 1 []] else []).

(* the defaults of agdb_server/src/config.rs *)
Definition init_default (size : N) : cluster := init size 1000 1000 3000.

Definition get_node (c : cluster) (i : N) : option node := nth_error (c_nodes c) (N.to_nat i).
Definition put_node (c : cluster) (i : N) (nd : node) : list node :=
  upd_nth (N.to_nat i) (fun _ => nd) (c_nodes c).

Fixpoint range_from (a : N) (k : nat) : list N :=
  match k with O => [] | S k' => a :: range_from (a + 1) k' end.

(* ghost events read off one handler call on one node *)
Definition node_ghosts (old new : node) : list ghost :=
  (if is_candidate (n_state new) && negb (is_candidate (n_state old) && (n_term old =? n_term new))
   then [GCand (n_index new) (n_term new)] else []) ++
  (if is_leader (n_state new) && negb (is_leader (n_state old))
   then [GLeader (n_index new) (n_term new) (n_logs new)] else []) ++
  map (fun idx => GCommit (n_index new) (is_leader (n_state old) && is_leader (n_state new))
                          (n_term new) idx (log_at (n_logs new) idx))
      (range_from (n_commit old + 1) (N.to_nat (n_commit new - n_commit old))).

Definition is_vote (k : rkind) : bool := match k with KVote => true | _ => false end.
Definition is_ok (s : rresult) : bool := match s with ROk => true | _ => false end.

(* highest term in which `v` answered Ok to a Vote request *)
Definition voted_term (h : list ghost) (v : N) : N :=
  fold_left (fun m g => match g with GVote v' t _ => if v' =? v then N.max m t else m | _ => m end) h 0.

Definition request_ghosts (c : cluster) (new : node) (r : request) (s : response) : list ghost :=
  (if is_vote (q_kind r) && is_ok (s_result s) then [GVote (n_index new) (q_term r) (q_from r)] else []) ++
  (if is_append_or_hb (q_kind r) && is_ok (s_result s) && (q_term r <? voted_term (c_hist c) (n_index new))
   then [GAckBelowVote (n_index new) (q_term r) (voted_term (c_hist c) (n_index new))] else []) ++
  (if is_append_or_hb (q_kind r) && is_ok (s_result s) then
     match get_node c (q_from r) with
     | Some sender =>
         let k := N.to_nat (p_li (local new)) in
         if entries_eqb (firstn k (n_logs new)) (firstn k (n_logs sender)) then [] else [GAckDiverged (n_index new) (q_from r)]
     | None => []
     end
   else []).

Definition response_ghosts (rv : raftrev) (old : node) (r : request) (s : response) : list ghost :=
  if is_candidate (n_state old) && is_vote (q_kind r) && is_ok (s_result s) && vote_counts rv old r
     && negb (q_term r =? n_term old)
  then [GStaleVote (n_index old) (q_term r) (n_term old)] else [].

Definition step (rv : raftrev) (c : cluster) (ev : event) : cluster :=
  match ev with
  | Tick i elapsed due =>
      match get_node c i with
      | Some nd =>
          let '(nd', reqs) := process nd elapsed due in
          mkCluster (put_node c i nd') (c_net c ++ map MReq reqs) (c_hist c ++ node_ghosts nd nd')
      | None => c
      end
  | ClientAppend i d =>
      match get_node c i with
      | Some nd =>
          if is_leader (n_state nd) then
            let '(nd', reqs) := append nd d in
            mkCluster (put_node c i nd') (c_net c ++ map MReq reqs) (c_hist c ++ node_ghosts nd nd')
          else c
      | None => c
      end
  | Drop k => mkCluster (c_nodes c) (remove_nth k (c_net c)) (c_hist c)
  | Duplicate k =>
      match nth_error (c_net c) k with
      | Some m => mkCluster (c_nodes c) (c_net c ++ [m]) (c_hist c)
      | None => c
      end
  | Deliver k elapsed =>
      match nth_error (c_net c) k with
      | Some (MReq r) =>
          let net := remove_nth k (c_net c) in
          match get_node c (q_to r) with
          | Some nd =>
              let '(nd', s) := handle_request rv nd r elapsed in
              mkCluster (put_node c (q_to r) nd') (net ++ [MResp r s])
                        (c_hist c ++ request_ghosts c nd' r s ++ node_ghosts nd nd')
          | None => mkCluster (c_nodes c) net (c_hist c)
          end
      | Some (MResp r s) =>
          let net := remove_nth k (c_net c) in
          match get_node c (s_to s) with
          | Some nd =>
              let '(nd', reqs) := handle_response rv nd r s in
              mkCluster (put_node c (s_to s) nd') (net ++ map MReq reqs)
                        (c_hist c ++ response_ghosts rv nd r s ++ node_ghosts nd nd')
          | None => mkCluster (c_nodes c) net (c_hist c)
          end
      | None => c
      end
  end.

Definition run_from (rv : raftrev) (c : cluster) (evs : list event) : cluster := fold_left (step rv) evs c.
Definition run (rv : raftrev) (size : N) (evs : list event) : cluster := run_from rv (init_default size) evs.

(* ------------------------------------------------------------------ observations used by the properties *)

Definition leaders (h : list ghost) : list (N * N) :=
  flat_map (fun g => match g with GLeader i t _ => [(i, t)] | _ => [] end) h.

(* C27, as a boolean on the history: no two distinct nodes ever were Leader for one term *)
Definition election_safety_b (h : list ghost) : bool :=
  forallb (fun a => forallb (fun b => negb (snd a =? snd b) || (fst a =? fst b)) (leaders h)) (leaders h).

(* C28c on a state: any two nodes agree on every index both have committed *)
Definition committed_agree_b (c : cluster) : bool :=
  forallb (fun a => forallb (fun b =>
    let m := N.min (n_commit a) (n_commit b) in
    forallb (fun idx => oentry_eqb (log_at (n_logs a) idx) (log_at (n_logs b) idx))
            (range_from 1 (N.to_nat m))) (c_nodes c)) (c_nodes c).

(* C29 on the history: every entry committed by a leader is in the log of every later leader *)
Fixpoint leader_completeness_b (h : list ghost) : bool :=
  match h with
  | [] => true
  | GCommit _ true _ idx e :: rest =>
      forallb (fun g => match g with
                        | GLeader _ _ log => oentry_eqb (log_at log idx) e
                        | _ => true end) rest
      && leader_completeness_b rest
  | _ :: rest => leader_completeness_b rest
  end.

(* ------------------------------------------------------------------ KnownClass predicates (decidable, on the history) *)

Definition supports (h : list ghost) : list (N * N * N) :=   (* (voter, term, candidate) *)
  flat_map (fun g => match g with
                     | GVote v t c => [(v, t, c)]
                     | GCand i t => [(i, t, i)]
                     | _ => [] end) h.

(* some node supported two different candidates (itself included) in one term *)
Definition double_vote_b (h : list ghost) : bool :=
  existsb (fun a => existsb (fun b =>
    match a, b with (v1, t1, c1), (v2, t2, c2) => (v1 =? v2) && (t1 =? t2) && negb (c1 =? c2) end)
    (supports h)) (supports h).

(* a candidate counted a Vote/Ok response that answers a request of another term *)
Definition stale_vote_b (h : list ghost) : bool :=
  existsb (fun g => match g with GStaleVote _ _ _ => true | _ => false end) h.

(* a follower acknowledged (Ok) an Append/Heartbeat while its log is not the sender's log prefix *)
Definition ack_diverged_b (h : list ghost) : bool :=
  existsb (fun g => match g with GAckDiverged _ _ => true | _ => false end) h.

(* a leader committed (by counting acknowledgements) an entry of a term other than its own *)
Definition old_term_commit_b (h : list ghost) : bool :=
  existsb (fun g => match g with
                    | GCommit _ true t _ (Some e) => negb (e_term e =? t)
                    | GCommit _ true _ _ None => true
                    | _ => false end) h.

(* a node acknowledged an Append/Heartbeat of a term lower than a term it had already voted in
   (voting does not raise the voter's term) *)
Definition ack_below_vote_b (h : list ghost) : bool :=
  existsb (fun g => match g with GAckBelowVote _ _ _ => true | _ => false end) h.

Definition known_class_b (h : list ghost) : bool :=
  double_vote_b h || stale_vote_b h || ack_diverged_b h || old_term_commit_b h || ack_below_vote_b h.

(* ------------------------------------------------------------------ C30: fault-free schedules *)

(* quiescent goal state: exactly one Leader, every other node its Follower, all logs equal to
   the leader's, everything committed, and the log holds exactly `data` *)
Definition all_synced_b (c : cluster) (data : list N) : bool :=
  match filter (fun nd => is_leader (n_state nd)) (c_nodes c) with
  | [ld] =>
      forallb (fun nd =>
        (is_leader (n_state nd) || match n_state nd with Follower l => l =? n_index ld | _ => false end)
        && entries_eqb (n_logs nd) (n_logs ld)
        && (n_commit nd =? lenN (n_logs ld))) (c_nodes c)
      && (fix eq (a : list N) (b : list N) := match a, b with
            | [], [] => true | x :: a', y :: b' => (x =? y) && eq a' b' | _, _ => false end)
           (map e_data (n_logs ld)) data
  | _ => false
  end.

(* deliver everything in flight, oldest first, until the network is empty (fuel-bounded);
   `elapsed = 0`: no timer has expired at any receiver *)
Fixpoint drain (rv : raftrev) (fuel : nat) (c : cluster) : cluster :=
  match fuel with
  | O => c
  | S f => match c_net c with [] => c | _ => drain rv f (step rv c (Deliver 0 0)) end
  end.
