(* AliasRollbackProofs.v — C10: a rejected InsertAliases query has no effect.  The undo commands
   recorded by DbImpl::insert_alias (with the alias-steal fix) restore, on every lookup, the alias
   map the query started from; graph, values and indexes are not touched at all. *)
From Agdb Require Import Bytes BytesProofs DbValue Graph DbModel Search Queries Revisions
  AssocProofs ImapProofs DbFrameProofs AliasProofs QStepProofs AliasQueryProofs.
Open Scope Z_scope.

Local Notation beq_spec := (keqb_spec bytes_eqb bytes_eqb_eq).
Local Notation beq_refl := (keqb_refl bytes_eqb bytes_eqb_eq).

(* ---------- the map operations respect lookup-equivalence ---------- *)
Lemma insert_old_k_equiv m m' a id : imap_equiv m m' -> insert_old_k m a id = insert_old_k m' a id.
Proof. intros [Hv Hk]. unfold insert_old_k. now rewrite Hv, Hk. Qed.

Lemma imap_insert_equiv m m' a id : imap_equiv m m' -> imap_equiv (imap_insert m a id) (imap_insert m' a id).
Proof.
  intros He. pose proof He as [Hv Hk]. split.
  - intros x. rewrite !imap_insert_value_raw, (insert_old_k_equiv m m' a id He), Hv. reflexivity.
  - intros y. rewrite !imap_insert_key, Hv, Hk. reflexivity.
Qed.

Lemma imap_remove_key_equiv m m' a : imap_equiv m m' -> imap_equiv (imap_remove_key m a) (imap_remove_key m' a).
Proof.
  intros [Hv Hk]. split.
  - intros x. now rewrite !imap_remove_key_value, Hv.
  - intros y. now rewrite !imap_remove_key_key, Hv, Hk.
Qed.

Lemma bij_equiv m m' : imap_equiv m m' -> (forall a id, imap_value m a = Some id <-> imap_key m id = Some a) ->
  forall a id, imap_value m' a = Some id <-> imap_key m' id = Some a.
Proof. intros [Hv Hk] H a id. rewrite <- Hv, <- Hk. apply H. Qed.

(* ---------- inverse laws (on lookups) ---------- *)
(* removing an unmapped alias changes nothing *)
Lemma remove_unmapped m a : imap_value m a = None -> imap_equiv (imap_remove_key m a) m.
Proof.
  intros Hn. split.
  - intros x. rewrite imap_remove_key_value. destruct (beq_spec a x) as [->|]; [now rewrite Hn|reflexivity].
  - intros y. now rewrite imap_remove_key_key, Hn.
Qed.

(* insert a fresh pair, then remove it *)
Lemma remove_after_insert n a id :
  bij n -> imap_value n a = None -> imap_key n id = None ->
  imap_equiv (imap_remove_key (imap_insert n a id) a) n.
Proof.
  intros Hb Ha Hi. pose proof (bij_imap_insert n a id Hb) as Hb'. split.
  - intros x. rewrite imap_remove_key_value, (imap_insert_value n a id x Hb), Hi.
    destruct (beq_spec a x) as [->|]; [now rewrite Ha|reflexivity].
  - intros y. rewrite imap_remove_key_key, (imap_insert_value n a id a Hb), beq_refl, !imap_insert_key, Ha.
    destruct (Z.eqb_spec id y) as [->|]; [now rewrite Hi|reflexivity].
Qed.

(* remove a pair, then insert it again *)
Lemma insert_after_remove n a h :
  bij n -> imap_value n a = Some h -> imap_equiv (imap_insert (imap_remove_key n a) a h) n.
Proof.
  intros Hb Ha. pose proof (bij_imap_remove_key n a Hb) as Hb1.
  pose proof (proj1 (bij_value_key n a h Hb) Ha) as Hk. split.
  - intros x. rewrite (imap_insert_value _ a h x Hb1), imap_remove_key_key, Ha, Z.eqb_refl, imap_remove_key_value.
    destruct (beq_spec a x) as [->|]; [now rewrite Ha|reflexivity].
  - intros y. rewrite imap_insert_key, imap_remove_key_value, beq_refl, imap_remove_key_key, Ha.
    destruct (Z.eqb_spec h y) as [->|]; [now rewrite Hk|reflexivity].
Qed.

(* IndexedMap::insert first unmaps the alias anyway *)
Lemma insert_unmaps_first m a id :
  bij m -> imap_equiv (imap_insert m a id) (imap_insert (imap_remove_key m a) a id).
Proof.
  intros Hb. pose proof (bij_imap_remove_key m a Hb) as Hb1. split.
  - intros x. rewrite (imap_insert_value m a id x Hb), (imap_insert_value _ a id x Hb1).
    destruct (beq_spec a x) as [->|Hax]; [reflexivity|].
    rewrite imap_remove_key_key, imap_remove_key_value.
    rewrite (keqb_neq bytes_eqb bytes_eqb_eq a x Hax).
    destruct (imap_value m a) as [v|] eqn:Ev; [|reflexivity].
    destruct (Z.eqb_spec v id) as [->|]; [|reflexivity].
    apply (bij_value_key m a id Hb) in Ev. rewrite Ev.
    now rewrite (keqb_neq bytes_eqb bytes_eqb_eq a x Hax).
  - intros y. rewrite !imap_insert_key, imap_remove_key_value, beq_refl, imap_remove_key_key.
    destruct (id =? y); [reflexivity|]. destruct (imap_value m a) as [v|]; [|reflexivity].
    now destruct (v =? y).
Qed.

(* ---------- one insert_alias and its undo commands ---------- *)
Definition alias_undo_map (m' : imap) (a : bytes) (holder : option Z) (id : Z) (old : option bytes) : imap :=
  let u0 := imap_remove_key m' a in
  let u1 := match holder with Some h => imap_insert u0 a h | None => u0 end in
  match old with Some o => imap_insert u1 o id | None => u1 end.

Lemma insert_alias_undo_equiv m id a :
  bij m ->
  let old := imap_key m id in
  let m1 := drop_alias m old in
  imap_equiv (alias_undo_map (imap_insert m1 a id) a (imap_value m1 a) id old) m.
Proof.
  intros Hb. cbv zeta. set (old := imap_key m id). set (m1 := drop_alias m old).
  assert (Hb1 : bij m1) by (apply drop_alias_bij; exact Hb).
  assert (Hm1 : imap_equiv m1 (match old with Some o => imap_remove_key m o | None => m end)).
  { unfold m1. destruct old as [o|]; [apply remove_twice_equiv|apply imap_equiv_refl]. }
  assert (Hk1 : imap_key m1 id = None).
  { rewrite (proj2 Hm1). unfold old. destruct (imap_key m id) as [o|] eqn:Eo; [|exact Eo].
    rewrite imap_remove_key_key. rewrite (proj2 (bij_value_key m o id Hb) Eo), Z.eqb_refl. reflexivity. }
  (* n = m1 without the alias a *)
  set (n := imap_remove_key m1 a).
  assert (Hbn : bij n) by (apply bij_imap_remove_key; exact Hb1).
  assert (Hna : imap_value n a = None) by (unfold n; now rewrite imap_remove_key_value, beq_refl).
  assert (Hni : imap_key n id = None).
  { unfold n. rewrite imap_remove_key_key, Hk1. destruct (imap_value m1 a) as [v|]; [|reflexivity]. now destruct (v =? id). }
  (* u0 ~ n *)
  assert (Hu0 : imap_equiv (imap_remove_key (imap_insert m1 a id) a) n).
  { eapply imap_equiv_trans; [apply imap_remove_key_equiv, (insert_unmaps_first m1 a id Hb1)|].
    now apply remove_after_insert. }
  (* u1 ~ m1 *)
  assert (Hu1 : imap_equiv (match imap_value m1 a with
                            | Some h => imap_insert (imap_remove_key (imap_insert m1 a id) a) a h
                            | None => imap_remove_key (imap_insert m1 a id) a end) m1).
  { destruct (imap_value m1 a) as [h|] eqn:Eh.
    - eapply imap_equiv_trans; [apply imap_insert_equiv, Hu0|]. now apply insert_after_remove.
    - eapply imap_equiv_trans; [exact Hu0|]. now apply remove_unmapped. }
  unfold alias_undo_map. destruct old as [o|] eqn:Eo.
  - eapply imap_equiv_trans; [apply imap_insert_equiv, Hu1|].
    eapply imap_equiv_trans; [apply imap_insert_equiv, Hm1|].
    apply insert_after_remove; [exact Hb|]. apply (bij_value_key m o id Hb). exact Eo.
  - eapply imap_equiv_trans; [exact Hu1|exact Hm1].
Qed.

(* ---------- databases that differ only in the representation of the alias map ---------- *)
Definition db_equiv (d d' : db) : Prop :=
  gr d = gr d' /\ vals d = vals d' /\ indexes d = indexes d' /\ undo d = undo d' /\
  imap_equiv (aliases d) (aliases d').

Lemma db_equiv_refl d : db_equiv d d.
Proof. repeat split; reflexivity. Qed.

Lemma db_equiv_trans d1 d2 d3 : db_equiv d1 d2 -> db_equiv d2 d3 -> db_equiv d1 d3.
Proof.
  intros (A & B & C & D & E) (A' & B' & C' & D' & E'). repeat split; try congruence.
  - intros x. rewrite (proj1 E). apply E'.
  - intros y. rewrite (proj2 E). apply E'.
Qed.

Definition alias_cmd (c : command) : Prop :=
  match c with CInsertAlias _ _ | CRemoveAlias _ => True | _ => False end.

Section Rollback.
  Variable rv : revision.

  Lemma rollback_cmds_alias_equiv cs : forall d d',
    Forall alias_cmd cs -> db_equiv d d' ->
    exists r r', rollback_cmds rv d cs = ROk r /\ rollback_cmds rv d' cs = ROk r' /\ db_equiv r r'.
  Proof.
    induction cs as [|c cs IH]; intros d d' Hc He; [exists d, d'; auto|].
    inversion Hc as [|? ? Hc1 Hc2]; subst. destruct He as (A & B & C & D & E).
    destruct c; try contradiction; cbn [rollback_cmds undo_one].
    - apply IH; [exact Hc2|]. repeat split; try assumption; apply (imap_insert_equiv _ _ alias id E).
    - apply IH; [exact Hc2|]. repeat split; try assumption; apply (imap_remove_key_equiv _ _ alias E).
  Qed.

  Lemma rollback_cmds_alias_app l1 : forall d l2,
    Forall alias_cmd l1 ->
    rollback_cmds rv d (l1 ++ l2) =
    match rollback_cmds rv d l1 with ROk d1 => rollback_cmds rv d1 l2 | RErr e => RErr e end.
  Proof.
    induction l1 as [|c l1 IH]; intros d l2 Hc; [reflexivity|].
    inversion Hc as [|? ? Hc1 Hc2]; subst. destruct c; try contradiction; cbn [app rollback_cmds undo_one]; now apply IH.
  Qed.

  Hypothesis Hsteal : fix_alias_steal_undo rv = true.

  (* the undo commands pushed by one insert_alias, newest first *)
  Definition alias_new_cmds (m : imap) (id : Z) (a : bytes) : list command :=
    let old := imap_key m id in
    let m1 := drop_alias m old in
    CRemoveAlias a ::
    (match imap_value m1 a with Some h => [CInsertAlias h a] | None => [] end) ++
    (match old with Some o => [CInsertAlias id o] | None => [] end).

  Lemma insert_alias_undo d id a :
    undo (insert_alias rv d id a) = alias_new_cmds (aliases d) id a ++ undo d.
  Proof.
    unfold insert_alias, alias_new_cmds. rewrite Hsteal.
    destruct (imap_key (aliases d) id) as [old|]; cbn [drop_alias aliases with_aliases push_undo];
      match goal with |- context [imap_value ?m a] => destruct (imap_value m a) end; reflexivity.
  Qed.

  Lemma alias_new_cmds_alias m id a : Forall alias_cmd (alias_new_cmds m id a).
  Proof.
    unfold alias_new_cmds. cbv zeta. constructor; [exact I|]. apply Forall_app. split.
    - destruct (imap_value _ a); repeat constructor.
    - destruct (imap_key m id); repeat constructor.
  Qed.

  (* rolling the new commands back from the state after the insert gives the state before (up to the
     representation of the alias map), with the undo stack of the starting point of the rollback *)
  Lemma insert_alias_rollback_new d0 d id a :
    alias_bij d -> gr d0 = gr d -> vals d0 = vals d -> indexes d0 = indexes d ->
    aliases d0 = aliases (insert_alias rv d id a) ->
    exists r, rollback_cmds rv d0 (alias_new_cmds (aliases d) id a) = ROk r /\
              gr r = gr d /\ vals r = vals d /\ indexes r = indexes d /\ undo r = undo d0 /\
              imap_equiv (aliases r) (aliases d).
  Proof.
    intros Hb Hg Hv Hi Ha. rewrite insert_alias_aliases in Ha. unfold insert_alias_map in Ha.
    pose proof (insert_alias_undo_equiv (aliases d) id a Hb) as He. cbv zeta in He.
    unfold alias_new_cmds. cbv zeta.
    set (old := imap_key (aliases d) id) in *. set (m1 := drop_alias (aliases d) old) in *.
    unfold alias_undo_map in He. cbv zeta in He.
    change (match old with Some o => imap_remove_key (imap_remove_key (aliases d) o) o | None => aliases d end)
      with m1 in Ha.
    cbn [rollback_cmds undo_one app].
    destruct (imap_value m1 a) as [h|]; destruct old as [o|]; cbn [rollback_cmds undo_one app];
      eexists; (split; [reflexivity|]);
      cbn [gr vals indexes undo aliases with_aliases]; rewrite Ha;
      repeat split; try assumption; apply He.
  Qed.
End Rollback.

(* ---------- the whole query ---------- *)
Section Query.
  Variable rv : revision.
  Hypothesis Hsteal : fix_alias_steal_undo rv = true.

  (* what is known of a state reached from d by alias insertions *)
  Definition alias_log_ok (d d1 : db) : Prop :=
    same_gvi d d1 /\ alias_bij d1 /\ Forall alias_cmd (undo d1) /\
    exists r, rollback_cmds rv (clear_undo d1) (undo d1) = ROk r /\ db_equiv r d.

  Lemma alias_log_ok_start d : alias_bij d -> undo d = [] -> alias_log_ok d d.
  Proof.
    intros Hb Hu. split; [repeat split|]. split; [exact Hb|]. split; [rewrite Hu; constructor|].
    rewrite Hu. cbn [rollback_cmds]. eexists. split; [reflexivity|].
    rewrite (clear_undo_id d Hu). apply db_equiv_refl.
  Qed.

  Lemma alias_log_ok_step d d1 id a : alias_log_ok d d1 -> alias_log_ok d (insert_alias rv d1 id a).
  Proof.
    intros ((Hg & Hv & Hi) & Hb & Hc & r & Hr & He).
    destruct (insert_alias_gvi rv d1 id a) as (Hg' & Hv' & Hi').
    split; [repeat split; congruence|]. split; [now apply insert_alias_bij|].
    rewrite (insert_alias_undo rv Hsteal). split; [apply Forall_app; split; [apply alias_new_cmds_alias|exact Hc]|].
    rewrite (rollback_cmds_alias_app rv _ _ _ (alias_new_cmds_alias (aliases d1) id a)).
    destruct (insert_alias_rollback_new rv (clear_undo (insert_alias rv d1 id a)) d1 id a Hb)
      as (r1 & Hr1 & G1 & V1 & I1 & U1 & E1); try assumption; try reflexivity.
    rewrite Hr1.
    assert (Heq : db_equiv r1 (clear_undo d1)).
    { repeat split; try assumption; apply E1. }
    destruct (rollback_cmds_alias_equiv rv (undo d1) r1 (clear_undo d1) Hc Heq) as (x & x' & Hx & Hx' & Hxx).
    rewrite Hr in Hx'. inversion Hx'; subst x'. exists x. split; [exact Hx|].
    now apply (db_equiv_trans x r d).
  Qed.

  (* a rejected InsertAliases query: error, and the database is as before (same graph, values,
     indexes, empty undo stack, an alias map that answers every lookup alike) *)
  Theorem insert_aliases_rejected_no_effect d ids (als : list bytes) :
    alias_bij d -> undo d = [] -> step_is_ok (insert_aliases rv d ids als) = false ->
    exists d2 e, exec rv d (InsertAliases ids als) = (d2, QErr e) /\ db_equiv d2 d.
  Proof.
    intros Hb Hu Hno. unfold exec, exec_in_txn. cbn [is_mutating exec_mut_step].
    assert (Hlog : alias_log_ok d (step_db (insert_aliases rv d ids als))).
    { destruct ids as [l|s]; [|now apply alias_log_ok_start]. rewrite insert_aliases_unfold.
      destruct (negb (Nat.eqb _ _)); cbn [step_db]; [now apply alias_log_ok_start|].
      assert (H : alias_log_ok d (step_db (st_fold (ia_step rv) d 0 (combine l als)))).
      { apply st_fold_inv; [now apply alias_log_ok_start|]. intros a n [q al] _ Ha. cbn [ia_step].
        destruct al as [|b al]; cbn [step_db]; [exact Ha|].
        destruct (db_id a q) as [id|e]; cbn [step_db]; [|exact Ha].
        destruct (fix_alias_nodes_only rv && (id <? 0)); cbn [step_db]; [exact Ha|].
        now apply alias_log_ok_step. }
      destruct (st_fold (ia_step rv) d 0 (combine l als)); cbn [step_db] in *; exact H. }
    pose proof (insert_aliases_no_panic rv d ids als) as Hp.
    destruct (insert_aliases rv d ids als) as [d1 [n els]|d1 e|d1]; [discriminate| |contradiction].
    cbn [step_db] in Hlog. destruct Hlog as (_ & _ & _ & r & Hr & He).
    unfold rollback. rewrite Hr. exists r, e. split; [reflexivity|exact He].
  Qed.
End Query.

(* ---------- the defect of the pinned code (no undo record for the previous holder) ---------- *)
Definition c10_steal_history : list query := [InsertNodes 2 (Single []) [[x78]] (Ids [])].
Definition c10_steal_query : query := InsertAliases (Ids [QId 2; QId 1]) [[x78]; []].

(* node 1 is "x"; a query that would move "x" to node 2 and then hits an empty alias is rejected —
   on the pinned code the rollback leaves "x" unresolvable, on the repaired code nothing changed *)
Lemma c10_steal_witness :
  let dp := exec_all rv_pinned db_new c10_steal_history in
  let df := exec_all rv_fixed db_new c10_steal_history in
  imap_value (aliases dp) [x78] = Some 1 /\
  snd (exec rv_pinned dp c10_steal_query) = QErr ENotAllowed /\
  imap_value (aliases (fst (exec rv_pinned dp c10_steal_query))) [x78] = None /\
  exec rv_fixed df c10_steal_query = (df, QErr ENotAllowed).
Proof. cbv zeta. split; [|split; [|split]]; vm_compute; reflexivity. Qed.
