(* UndoAlias.v — C13, the alias map (IndexedMapImpl<String, DbId> as two association lists):
   function-level specification of imap_insert / imap_remove_key under the bijection invariant,
   congruence for extensional equality, and the inverse lemmas used by rollback. *)
From Agdb Require Import Bytes BytesProofs DbValue Graph DbModel UndoBase UndoObs.
From Coq Require Import Permutation ZifyBool ZifyNat ZifyN.
Ltac Zify.zify_post_hook ::= Z.div_mod_to_equations.
Open Scope Z_scope.

(* the two directions of the map are inverse to each other *)
Definition alias_ok (m : imap) : Prop :=
  forall a i, imap_value m a = Some i <-> imap_key m i = Some a.

Definition alias_eq (m m' : imap) : Prop :=
  (forall a, imap_value m a = imap_value m' a) /\ (forall i, imap_key m i = imap_key m' i).

Lemma alias_eq_refl m : alias_eq m m.
Proof. split; reflexivity. Qed.
Lemma alias_eq_sym m m' : alias_eq m m' -> alias_eq m' m.
Proof. intros [H1 H2]. split; intros; symmetry; auto. Qed.
Lemma alias_eq_trans m1 m2 m3 : alias_eq m1 m2 -> alias_eq m2 m3 -> alias_eq m1 m3.
Proof. intros [H1 H2] [H3 H4]. split; intros; [rewrite H1; apply H3 | rewrite H2; apply H4]. Qed.

Lemma alias_ok_eq m m' : alias_eq m m' -> alias_ok m -> alias_ok m'.
Proof. intros [H1 H2] Hok a i. rewrite <- H1, <- H2. apply Hok. Qed.

Lemma alias_ok_empty : alias_ok imap_empty.
Proof. intros a i. cbn. split; discriminate. Qed.

(* ---- function-level specification ---- *)

Lemma imap_remove_value m a a' :
  imap_value (imap_remove_key m a) a' = if bytes_eqb a a' then None else imap_value m a'.
Proof. unfold imap_value, imap_remove_key. cbn [k2v]. apply (alookup_aremove _ bytes_eqb_spec). Qed.

Lemma imap_remove_key_key m a i :
  alias_ok m ->
  imap_key (imap_remove_key m a) i =
  match imap_key m i with Some b => if bytes_eqb b a then None else Some b | None => None end.
Proof.
  intros Hok. unfold imap_key, imap_remove_key. cbn [v2k].
  destruct (alookup bytes_eqb (k2v m) a) as [v|] eqn:Ev.
  - rewrite (alookup_aremove _ Zeqb_spec). destruct (Zeqb_spec v i) as [->|Nvi].
    + apply Hok in Ev. unfold imap_key in Ev. rewrite Ev, bytes_eqb_refl. reflexivity.
    + destruct (alookup Z.eqb (v2k m) i) as [b|] eqn:Eb; [|reflexivity].
      destruct (bytes_eqb_spec b a) as [->|]; [|reflexivity].
      apply Hok in Eb. unfold imap_value in Eb. congruence.
  - destruct (alookup Z.eqb (v2k m) i) as [b|] eqn:Eb; [|reflexivity].
    destruct (bytes_eqb_spec b a) as [->|]; [|reflexivity].
    apply Hok in Eb. unfold imap_value in Eb. congruence.
Qed.

Lemma imap_insert_value m a i a' :
  alias_ok m ->
  imap_value (imap_insert m a i) a' =
  if bytes_eqb a a' then Some i
  else match imap_value m a' with Some j => if j =? i then None else Some j | None => None end.
Proof.
  intros Hok. unfold imap_value, imap_insert, ainsert. cbn [k2v].
  set (v2k1 := match alookup bytes_eqb (k2v m) a with Some v => aremove Z.eqb (v2k m) v | None => v2k m end).
  assert (Hv2k1 : forall y, alookup Z.eqb v2k1 y =
            match alookup bytes_eqb (k2v m) a with
            | Some v => if v =? y then None else alookup Z.eqb (v2k m) y
            | None => alookup Z.eqb (v2k m) y end).
  { intros y. unfold v2k1. destruct (alookup bytes_eqb (k2v m) a); [|reflexivity].
    apply (alookup_aremove _ Zeqb_spec). }
  assert (Hk1 : forall x, alookup bytes_eqb (aremove bytes_eqb (k2v m) a ++ [(a, i)]) x =
                          if bytes_eqb a x then Some i else alookup bytes_eqb (k2v m) x).
  { intros x. rewrite alookup_app, (alookup_aremove _ bytes_eqb_spec). cbn [alookup].
    destruct (bytes_eqb a x); [reflexivity|]. destruct (alookup bytes_eqb (k2v m) x); reflexivity. }
  destruct (alookup Z.eqb v2k1 i) as [k|] eqn:Eold.
  - rewrite (alookup_aremove _ bytes_eqb_spec), Hk1.
    rewrite Hv2k1 in Eold.
    assert (Hki : alookup Z.eqb (v2k m) i = Some k /\ alookup bytes_eqb (k2v m) a <> Some i).
    { destruct (alookup bytes_eqb (k2v m) a) as [v|].
      - destruct (Zeqb_spec v i); [discriminate|]. split; [assumption | congruence].
      - split; [assumption | discriminate]. }
    destruct Hki as [Hki Hna]. pose proof (proj2 (Hok k i) Hki) as Hkk. unfold imap_value in Hkk.
    destruct (bytes_eqb_spec k a') as [->|Nk].
    + destruct (bytes_eqb_spec a a') as [->|]; [congruence|]. rewrite Hkk, Z.eqb_refl. reflexivity.
    + destruct (bytes_eqb_spec a a'); [reflexivity|].
      destruct (alookup bytes_eqb (k2v m) a') as [j|] eqn:Ej; [|reflexivity].
      destruct (Zeqb_spec j i) as [->|]; [|reflexivity].
      apply Hok in Ej. unfold imap_key in Ej. congruence.
  - rewrite Hk1. destruct (bytes_eqb_spec a a'); [reflexivity|].
    destruct (alookup bytes_eqb (k2v m) a') as [j|] eqn:Ej; [|reflexivity].
    destruct (Zeqb_spec j i) as [->|]; [|reflexivity].
    pose proof (proj1 (Hok a' i) Ej) as Hk. unfold imap_key in Hk.
    rewrite Hv2k1 in Eold. destruct (alookup bytes_eqb (k2v m) a) as [v|] eqn:Ea.
    + destruct (Zeqb_spec v i) as [->|]; [|congruence].
      apply Hok in Ea. unfold imap_key in Ea. congruence.
    + congruence.
Qed.

Lemma imap_insert_key m a i i' :
  alias_ok m ->
  imap_key (imap_insert m a i) i' =
  if i =? i' then Some a
  else match imap_key m i' with Some b => if bytes_eqb b a then None else Some b | None => None end.
Proof.
  intros Hok. unfold imap_key, imap_insert, ainsert.
  set (v2k1 := match alookup bytes_eqb (k2v m) a with Some v => aremove Z.eqb (v2k m) v | None => v2k m end).
  assert (Hv2k1 : forall y, alookup Z.eqb v2k1 y =
            match alookup bytes_eqb (k2v m) a with
            | Some v => if v =? y then None else alookup Z.eqb (v2k m) y
            | None => alookup Z.eqb (v2k m) y end).
  { intros y. unfold v2k1. destruct (alookup bytes_eqb (k2v m) a); [|reflexivity].
    apply (alookup_aremove _ Zeqb_spec). }
  cbn [v2k].
  assert (E : alookup Z.eqb (aremove Z.eqb v2k1 i ++ [(i, a)]) i' =
              if i =? i' then Some a else alookup Z.eqb v2k1 i').
  { rewrite alookup_app, (alookup_aremove _ Zeqb_spec). cbn [alookup].
    destruct (i =? i'); [reflexivity|]. destruct (alookup Z.eqb v2k1 i'); reflexivity. }
  rewrite E. destruct (Zeqb_spec i i'); [reflexivity|].
  rewrite Hv2k1. destruct (alookup bytes_eqb (k2v m) a) as [v|] eqn:Ea.
  - destruct (Zeqb_spec v i') as [->|Nv].
    + apply Hok in Ea. unfold imap_key in Ea. rewrite Ea, bytes_eqb_refl. reflexivity.
    + destruct (alookup Z.eqb (v2k m) i') as [b|] eqn:Eb; [|reflexivity].
      destruct (bytes_eqb_spec b a) as [->|]; [|reflexivity].
      apply Hok in Eb. unfold imap_value in Eb. congruence.
  - destruct (alookup Z.eqb (v2k m) i') as [b|] eqn:Eb; [|reflexivity].
    destruct (bytes_eqb_spec b a) as [->|]; [|reflexivity].
    apply Hok in Eb. unfold imap_value in Eb. congruence.
Qed.

(* ---- the invariant is preserved ---- *)

Lemma alias_ok_remove m a : alias_ok m -> alias_ok (imap_remove_key m a).
Proof.
  intros Hok a' i. rewrite imap_remove_value, imap_remove_key_key by assumption.
  destruct (bytes_eqb_spec a a') as [->|N].
  - split; [discriminate|]. destruct (imap_key m i) as [b|] eqn:Eb; [|discriminate].
    destruct (bytes_eqb_spec b a'); [discriminate|]. congruence.
  - rewrite (Hok a' i). destruct (imap_key m i) as [b|]; [|tauto].
    destruct (bytes_eqb_spec b a) as [->|]; [|tauto]. split; [congruence | discriminate].
Qed.

Lemma alias_ok_insert m a i : alias_ok m -> alias_ok (imap_insert m a i).
Proof.
  intros Hok a' i'. rewrite imap_insert_value, imap_insert_key by assumption.
  destruct (bytes_eqb_spec a a') as [->|Na], (Zeqb_spec i i') as [->|Ni].
  - tauto.
  - split; [congruence|]. destruct (imap_key m i') as [b|]; [|discriminate].
    destruct (bytes_eqb_spec b a'); [discriminate | congruence].
  - split; [|congruence]. destruct (imap_value m a') as [j|]; [|discriminate].
    destruct (Zeqb_spec j i'); [discriminate | congruence].
  - assert (HL : match imap_value m a' with Some j => if j =? i then None else Some j | None => None end = Some i'
                 <-> imap_value m a' = Some i').
    { destruct (imap_value m a') as [j|]; [|tauto].
      destruct (Zeqb_spec j i) as [->|]; [|tauto]. split; [discriminate | congruence]. }
    assert (HR : match imap_key m i' with Some b => if bytes_eqb b a then None else Some b | None => None end = Some a'
                 <-> imap_key m i' = Some a').
    { destruct (imap_key m i') as [b|]; [|tauto].
      destruct (bytes_eqb_spec b a) as [->|]; [|tauto]. split; [discriminate | congruence]. }
    rewrite HL, HR. apply Hok.
Qed.

(* ---- congruence ---- *)

Lemma alias_eq_remove m m' a :
  alias_ok m -> alias_ok m' -> alias_eq m m' -> alias_eq (imap_remove_key m a) (imap_remove_key m' a).
Proof.
  intros Hok Hok' [H1 H2]. split; intros.
  - rewrite !imap_remove_value, H1. reflexivity.
  - rewrite !imap_remove_key_key, H2 by assumption. reflexivity.
Qed.

Lemma alias_eq_insert m m' a i :
  alias_ok m -> alias_ok m' -> alias_eq m m' -> alias_eq (imap_insert m a i) (imap_insert m' a i).
Proof.
  intros Hok Hok' [H1 H2]. split; intros.
  - rewrite !imap_insert_value, H1 by assumption. reflexivity.
  - rewrite !imap_insert_key, H2 by assumption. reflexivity.
Qed.

(* ---- inverses ---- *)

(* removing an alias twice is removing it once *)
Lemma alias_remove_twice m a : alias_ok m -> alias_eq (imap_remove_key (imap_remove_key m a) a) (imap_remove_key m a).
Proof.
  intros Hok. pose proof (alias_ok_remove m a Hok) as Hok1. split; intros.
  - rewrite !imap_remove_value. destruct (bytes_eqb a a0); reflexivity.
  - rewrite !imap_remove_key_key by assumption.
    destruct (imap_key m i) as [b|]; [|reflexivity].
    destruct (bytes_eqb b a) eqn:E; [reflexivity | rewrite E; reflexivity].
Qed.

(* a fresh alias on an element without alias: remove undoes insert *)
Lemma alias_insert_then_remove m a i :
  alias_ok m -> imap_value m a = None -> imap_key m i = None ->
  alias_eq (imap_remove_key (imap_insert m a i) a) m.
Proof.
  intros Hok Ha Hi. pose proof (alias_ok_insert m a i Hok) as Hok1. split; intros.
  - rewrite imap_remove_value, imap_insert_value by assumption.
    destruct (bytes_eqb_spec a a0) as [->|]; [auto|].
    destruct (imap_value m a0) as [j|] eqn:Ej; [|reflexivity].
    destruct (Zeqb_spec j i) as [->|]; [|reflexivity]. apply Hok in Ej. congruence.
  - rewrite imap_remove_key_key, imap_insert_key by assumption.
    destruct (Zeqb_spec i i0) as [->|].
    + rewrite bytes_eqb_refl. auto.
    + destruct (imap_key m i0) as [b|] eqn:Eb; [|reflexivity].
      destruct (bytes_eqb_spec b a) as [->|E]; [apply Hok in Eb; congruence|].
      destruct (bytes_eqb_spec b a); [contradiction | reflexivity].
Qed.

(* an existing pair: insert undoes remove *)
Lemma alias_remove_then_insert m a i :
  alias_ok m -> imap_value m a = Some i ->
  alias_eq (imap_insert (imap_remove_key m a) a i) m.
Proof.
  intros Hok Ha. pose proof (alias_ok_remove m a Hok) as Hok1.
  pose proof (proj1 (Hok a i) Ha) as Hi. split; intros.
  - rewrite imap_insert_value, imap_remove_value by assumption.
    destruct (bytes_eqb_spec a a0) as [->|N]; [auto|].
    destruct (imap_value m a0) as [j|] eqn:Ej; [|reflexivity].
    destruct (Zeqb_spec j i) as [->|]; [|reflexivity]. apply Hok in Ej. congruence.
  - rewrite imap_insert_key, imap_remove_key_key by assumption.
    destruct (Zeqb_spec i i0) as [->|N]; [auto|].
    destruct (imap_key m i0) as [b|] eqn:Eb; [|reflexivity].
    destruct (bytes_eqb_spec b a) as [->|]; [apply Hok in Eb; congruence|].
    destruct (bytes_eqb_spec b a); [contradiction | reflexivity].
Qed.
