(* OpenMapRefineMap.v — MapImpl (map.rs: the table used with insert := insert_or_replace k (|_| true) v only)
   refines the ordinary finite map `fm_*` of OpenMapSpec.v: at most one pair per key, value k = the value
   inserted last, insert returns the previous value — and here the observations are DETERMINED (equal, not
   just allowed). *)
From Coq Require Import List NArith ZArith Arith Bool Lia Permutation.
Import ListNotations.
From Agdb Require Import OpenMap OpenMapProofs OpenMapSpec OpenMapRefineBase OpenMapRefineStep OpenMapRefine.

Section FiniteMap.
  Variables K V : Type.
  Variable keqb : K -> K -> bool.
  Variable veqb : V -> V -> bool.
  Hypothesis keqb_eq : forall a b, keqb a b = true <-> a = b.
  Hypothesis veqb_eq : forall a b, veqb a b = true <-> a = b.

  Notation vals := (mm_values K V keqb).
  Notation rem1 := (mm_remove_one K V keqb veqb).
  Notation rmk := (mm_remove_key K V keqb).
  Notation fget := (fm_get K V keqb).

  (* unique keys *)
  Definition UK (s : mm K V) : Prop := NoDup (map fst s).

  Lemma keqb_false : forall a b, a <> b -> keqb a b = false.
  Proof. intros a b Hne. destruct (keqb a b) eqn:Hk; [apply keqb_eq in Hk; contradiction|reflexivity]. Qed.

  Lemma in_key : forall k v (s : mm K V), In (k, v) s -> In k (map fst s).
  Proof. intros k v s Hin. apply in_map_iff. exists (k, v). auto. Qed.

  Lemma key_in : forall k (s : mm K V), In k (map fst s) -> exists v, In (k, v) s.
  Proof. intros k s Hin. apply in_map_iff in Hin. destruct Hin as [[k' v] [Hk Hin]]. cbn in Hk. subst. eauto. Qed.

  Lemma remove_key_nokey : forall k s, ~ In k (map fst s) -> rmk k s = s.
  Proof.
    intros k. induction s as [|[k' v'] t IH]; intros Hn; [reflexivity|]. cbn [mm_remove_key filter fst].
    cbn [map fst In] in Hn. rewrite keqb_false by (intros ->; apply Hn; left; reflexivity). cbn [negb].
    f_equal. apply IH. intros Hin. apply Hn. right. exact Hin.
  Qed.

  Lemma remove_key_in : forall k k' v s, In (k', v) (rmk k s) <-> In (k', v) s /\ k' <> k.
  Proof.
    intros k k' v s. unfold mm_remove_key. rewrite filter_In. cbn [fst]. split.
    - intros [Hin Hk]. split; [exact Hin|]. intros ->. rewrite (proj2 (keqb_eq k k) eq_refl) in Hk. discriminate.
    - intros [Hin Hne]. split; [exact Hin|]. rewrite keqb_false by exact Hne. reflexivity.
  Qed.

  Lemma UK_remove_key : forall k s, UK s -> UK (rmk k s).
  Proof.
    intros k. unfold UK. induction s as [|[k' v'] t IH]; intros Hnd; [constructor|].
    cbn [map fst] in Hnd. inversion Hnd as [|x l Hnin Hnd']; subst. cbn [mm_remove_key filter fst].
    destruct (negb (keqb k' k)); [|apply IH; exact Hnd'].
    cbn [map fst]. constructor; [|apply IH; exact Hnd'].
    intros Hin. apply key_in in Hin. destruct Hin as [v Hin]. apply remove_key_in in Hin.
    apply Hnin. exact (in_key _ _ _ (proj1 Hin)).
  Qed.

  Lemma remove_key_nokey_after : forall k s, ~ In k (map fst (rmk k s)).
  Proof. intros k s Hin. apply key_in in Hin. destruct Hin as [v Hin]. apply remove_key_in in Hin. tauto. Qed.

  (* with unique keys, removing THE pair of k = removing all pairs of k *)
  Lemma rem1_remove_key : forall k w s, UK s -> In (k, w) s -> rem1 k w s = rmk k s.
  Proof.
    intros k w. unfold UK. induction s as [|[k' v'] t IH]; intros Hnd Hin; [contradiction|].
    cbn [map fst] in Hnd. inversion Hnd as [|x l Hnin Hnd']; subst.
    cbn [mm_remove_one mm_remove_key filter fst].
    destruct (keqb k' k) eqn:Hk.
    - apply keqb_eq in Hk. subst k'. cbn [negb].
      destruct Hin as [Heq|Hin]; [|exfalso; apply Hnin; exact (in_key _ _ _ Hin)].
      inversion Heq; subst v'. rewrite (proj2 (veqb_eq w w) eq_refl). cbn [andb].
      symmetry. apply remove_key_nokey. exact Hnin.
    - cbn [andb negb]. f_equal. apply IH; [exact Hnd'|].
      destruct Hin as [Heq|Hin]; [|exact Hin]. inversion Heq; subst.
      rewrite (proj2 (keqb_eq k k) eq_refl) in Hk. discriminate.
  Qed.

  Lemma fm_get_in : forall k w t, UK t -> In (k, w) t -> fget k t = Some w.
  Proof.
    intros k w. unfold UK. induction t as [|[k' v'] t IH]; intros Hnd Hin; [contradiction|].
    cbn [map fst] in Hnd. inversion Hnd as [|x l Hnin Hnd']; subst. cbn [fm_get].
    destruct (keqb k' k) eqn:Hk.
    - apply keqb_eq in Hk. subst k'.
      destruct Hin as [Heq|Hin]; [inversion Heq; reflexivity|exfalso; apply Hnin; exact (in_key _ _ _ Hin)].
    - apply IH; [exact Hnd'|]. destruct Hin as [Heq|Hin]; [|exact Hin]. inversion Heq; subst.
      rewrite (proj2 (keqb_eq k k) eq_refl) in Hk. discriminate.
  Qed.

  Lemma fm_get_none : forall k t, ~ In k (map fst t) -> fget k t = None.
  Proof.
    intros k. induction t as [|[k' v'] t IH]; intros Hn; [reflexivity|]. cbn [fm_get].
    cbn [map fst In] in Hn. rewrite keqb_false by (intros ->; apply Hn; left; reflexivity).
    apply IH. intros Hin. apply Hn. right. exact Hin.
  Qed.

  Lemma UK_perm : forall s t, Permutation s t -> UK s -> UK t.
  Proof. intros s t HP. unfold UK. apply Permutation_NoDup. apply Permutation_map. exact HP. Qed.

  Lemma nokey_perm : forall k (s t : mm K V), Permutation s t -> ~ In k (map fst s) -> ~ In k (map fst t).
  Proof.
    intros k s t HP Hn Hin. apply Hn.
    exact (Permutation_in _ (Permutation_map fst (Permutation_sym HP)) Hin).
  Qed.

  Lemma vals_nil_nokey : forall k s, vals k s = [] -> ~ In k (map fst s).
  Proof.
    intros k s Hnil Hin. apply key_in in Hin. destruct Hin as [v Hin].
    apply (in_vals K V keqb keqb_eq) in Hin. rewrite Hnil in Hin. contradiction.
  Qed.

  (* the laws of the finite map *)
  Lemma fm_get_set_same : forall k v s, fget k (fm_set K V keqb k v s) = Some v.
  Proof. intros. cbn. rewrite (proj2 (keqb_eq k k) eq_refl). reflexivity. Qed.

  Lemma fm_get_remove_other : forall k k' s, k' <> k -> fget k' (fm_remove K V keqb k s) = fget k' s.
  Proof.
    intros k k' s Hne. unfold fm_remove, mm_remove_key. induction s as [|[k2 v2] t IH]; [reflexivity|].
    cbn [filter fst fm_get]. destruct (keqb k2 k) eqn:Hk; cbn [negb].
    - apply keqb_eq in Hk. subst k2. rewrite keqb_false by (intros Heq; apply Hne; symmetry; exact Heq). exact IH.
    - cbn [fm_get]. destruct (keqb k2 k'); [reflexivity|exact IH].
  Qed.

  Lemma fm_get_set_other : forall k k' v s, k' <> k -> fget k' (fm_set K V keqb k v s) = fget k' s.
  Proof.
    intros k k' v s Hne. unfold fm_set. cbn [fm_get].
    rewrite keqb_false by (intros Heq; apply Hne; symmetry; exact Heq). apply fm_get_remove_other. exact Hne.
  Qed.

  Lemma fm_get_remove_same : forall k s, fget k (fm_remove K V keqb k s) = None.
  Proof. intros. apply fm_get_none. apply remove_key_nokey_after. Qed.

  Lemma fm_laws :
    (forall k v s, fget k (fm_set K V keqb k v s) = Some v) /\
    (forall k k' v s, k' <> k -> fget k' (fm_set K V keqb k v s) = fget k' s) /\
    (forall k s, fget k (fm_remove K V keqb k s) = None) /\
    (forall k k' s, k' <> k -> fget k' (fm_remove K V keqb k s) = fget k' s).
  Proof.
    split; [exact fm_get_set_same|]. split; [exact fm_get_set_other|].
    split; [exact fm_get_remove_same|exact fm_get_remove_other].
  Qed.

  (* on unique keys the multimap step of a MapImpl operation is the finite-map step *)
  Lemma mm_step_fm : forall (o : mop K V) s t ob s',
    UK s -> Permutation s t -> mm_step K V keqb veqb s (mop_op K V o) ob s' ->
    ob = fst (fm_step K V keqb t o) /\ Permutation s' (snd (fm_step K V keqb t o)) /\ UK s'.
  Proof.
    intros o s t ob s' Hu HP Hstep. pose proof (UK_perm s t HP Hu) as Hut.
    destruct o as [k v|k|k|c]; cbn [mop_op] in Hstep; inversion Hstep; subst; cbn [fm_step fst snd].
    - (* insert over an existing binding *)
      match goal with Hin : In _ (vals k s) |- _ => apply (in_vals K V keqb keqb_eq) in Hin; rename Hin into Hks end.
      rewrite (fm_get_in k w t Hut (Permutation_in _ HP Hks)).
      rewrite (rem1_remove_key k w s Hu Hks). split; [reflexivity|]. split.
      + unfold mm_insert, fm_set, fm_remove. apply perm_skip. apply Permutation_filter. exact HP.
      + unfold UK, mm_insert. cbn [map fst]. constructor; [apply remove_key_nokey_after|apply UK_remove_key; exact Hu].
    - (* insert of a new key *)
      assert (Hn : ~ In k (map fst s)).
      { intros Hin. apply key_in in Hin. destruct Hin as [w Hin]. apply (in_vals K V keqb keqb_eq) in Hin.
        match goal with Hnone : forall w, In w (vals k s) -> _ |- _ => specialize (Hnone w Hin); discriminate end. }
      pose proof (nokey_perm k s t HP Hn) as Hnt.
      rewrite (fm_get_none k t Hnt). split; [reflexivity|]. split.
      + unfold mm_insert, fm_set, fm_remove. rewrite (remove_key_nokey k t Hnt). apply perm_skip. exact HP.
      + unfold UK, mm_insert. cbn [map fst]. constructor; assumption.
    - split; [reflexivity|]. split; [apply Permutation_filter; exact HP|apply UK_remove_key; exact Hu].
    - match goal with Hnil : vals k s' = [] |- _ => pose proof (vals_nil_nokey k s' Hnil) as Hn end.
      rewrite (fm_get_none k t (nokey_perm k s' t HP Hn)). auto.
    - match goal with Hin : In _ (vals k s') |- _ => apply (in_vals K V keqb keqb_eq) in Hin; rename Hin into Hks end.
      rewrite (fm_get_in k w t Hut (Permutation_in _ HP Hks)). auto.
    - auto.
  Qed.

  Lemma mm_run_fm : forall (mops : list (mop K V)) s t obl s',
    UK s -> Permutation s t -> mm_run K V keqb veqb s (map (mop_op K V) mops) obl s' ->
    obl = fst (fm_run K V keqb t mops) /\ Permutation s' (snd (fm_run K V keqb t mops)) /\ UK s'.
  Proof.
    induction mops as [|o r IH]; intros s t obl s' Hu HP Hrun; cbn [map] in Hrun; inversion Hrun; subst; cbn [fm_run].
    - cbn [fst snd]. auto.
    - match goal with Hs : mm_step _ _ _ _ s _ _ _ |- _ => destruct (mm_step_fm o s t _ _ Hu HP Hs) as [Hob [HP1 Hu1]] end.
      destruct (fm_step K V keqb t o) as [ob1 t1] eqn:Hfs. cbn [fst snd] in *.
      match goal with Hr : mm_run _ _ _ _ _ _ _ _ |- _ => destruct (IH _ t1 _ _ Hu1 HP1 Hr) as [Hobl [HP2 Hu2]] end.
      destruct (fm_run K V keqb t1 r) as [obl2 t2]. cbn [fst snd] in *. subst. auto.
  Qed.

  (* ---------------- MapImpl histories ---------------- *)

  Variable h : K -> N.
  Variable mincap : nat.
  Variable rv : om_revision.
  Hypothesis Hmin : 4 <= mincap.
  Hypothesis Hguard : fix_insert_wrap_guard rv = true.
  Hypothesis Hfin : fix_iter_finished rv = true.

  Theorem map_refines_finite_map : forall mops : list (mop K V),
    exists m, run_obs K V keqb veqb h mincap rv empty_map (map (mop_op K V) mops)
                = Done (m, fst (fm_run K V keqb [] mops)) /\
              Permutation (iter_all K V m) (snd (fm_run K V keqb [] mops)) /\
              NoDup (map fst (iter_all K V m)) /\
              PInv K V h mincap m.
  Proof.
    intros mops.
    destruct (table_refines_multimap K V keqb veqb h mincap rv keqb_eq veqb_eq Hmin Hguard Hfin
                (map (mop_op K V) mops)) as [m [obl [s [Hr [Hm [HP [_ HI]]]]]]].
    destruct (mm_run_fm mops [] [] obl s) as [Hobl [HPs Hus]]; [constructor|constructor|exact Hm|].
    exists m. subst obl. split; [exact Hr|]. split; [exact (Permutation_trans HP HPs)|]. split; [|exact HI].
    exact (UK_perm _ _ (Permutation_sym HP) Hus).
  Qed.

End FiniteMap.
