(* StorageReopen.v — proofs (part 6 of the C04 development): loading a tiled file
   (Storage::with_data / read_records) rebuilds a table and free maps that describe the
   same regions; hence closing and opening a storage preserves every live value. *)
From Agdb Require Import Bytes BytesProofs Records RecordsProofs RecordsTableProofs RecordsLoadProofs Storage StorageSpec
  StorageLayout StorageWp StorageOps StorageOps2.
From Coq Require Import ZifyBool ZifyNat ZifyN.
Ltac Zify.zify_post_hook ::= Z.div_mod_to_equations.
Open Scope N_scope.
Arguments N.add : simpl never.
Arguments N.mul : simpl never.
Arguments N.sub : simpl never.
Arguments N.of_nat : simpl never.
Arguments N.to_nat : simpl never.
Arguments N.eqb : simpl never.
Arguments N.ltb : simpl never.
Arguments N.leb : simpl never.
Arguments N.div : simpl never.

Ltac st := cbn [sdata cur dur rtab tx version set_cur set_data set_rtab set_tx set_version].
Ltac inl := rewrite ?layout_app, ?in_app_iff; cbn [layout In]; rewrite ?in_app_iff.

(* the table after the regions rg, the first one at pos, have been entered into rs *)
Fixpoint load (rg : list region) (pos : N) (rs : records) : records :=
  match rg with
  | [] => rs
  | (i, v) :: t => load t (pos + 16 + lenN v) (set_record rs {| r_index := i; r_pos := pos; r_size := lenN v |})
  end.

Lemma slen_ge rg : 16 * lenN rg <= slen rg.
Proof.
  induction rg as [|r t IH]; [unfold lenN, slen; cbn; lia|].
  rewrite slen_cons. unfold lenN in *. cbn [length]. lia.
Qed.

(* ---------- the table built by `load` ---------- *)
Section LoadInv.
  Variable rg : list region.
  Variable M : N.
  Hypothesis HM1 : 1 <= M.
  Hypothesis Hbound : forall q i n, In (q, i, n) (layout 24 rg) -> i + 1 <= M.
  Hypothesis Huniq : forall q i n q' n', i <> 0 -> In (q, i, n) (layout 24 rg) -> In (q', i, n') (layout 24 rg) -> q = q' /\ n = n'.

  Definition linv (rs : records) (A : list region) : Prop :=
    (exists r0, nth_error (recs rs) 0 = Some r0 /\ r_index r0 = 0) /\
    (forall q i n, i <> 0 -> In (q, i, n) (layout 24 A) ->
                   nth_error (recs rs) (N.to_nat i) = Some {| r_index := i; r_pos := q; r_size := n |}) /\
    (forall k r, nth_error (recs rs) k = Some r ->
                 r_index r = 0 \/ (r_index r = N.of_nat k /\ In (r_pos r, r_index r, r_size r) (layout 24 A))) /\
    fwf rs /\ (forall q n, In (q, 0, n) (layout 24 A) <-> m_get (fps rs) q = Some n) /\
    lenN (recs rs) <= M.

  Lemma linv_new : linv records_new [].
  Proof.
    unfold linv. cbn [recs records_new layout].
    split; [exists rec0; split; reflexivity|]. split; [intros q i n _ []|].
    split. { intros [|[|k]] r; cbn [nth_error]; try discriminate. intros [= <-]. left; reflexivity. }
    split; [apply fwf_new|]. split; [intros q n; cbn; split; [tauto|discriminate]|].
    unfold lenN. cbn [length]. lia.
  Qed.

  Lemma linv_load B : forall A rs, rg = A ++ B -> linv rs A -> linv (load B (24 + slen A) rs) rg.
  Proof.
    induction B as [|[i v] B IH]; intros A rs Erg LI; cbn [load].
    - rewrite app_nil_r in Erg. subst A. exact LI.
    - assert (Erg' : rg = (A ++ [(i, v)]) ++ B) by (rewrite <- app_assoc; exact Erg).
      replace (24 + slen A + 16 + lenN v) with (24 + slen (A ++ [(i, v)]))
        by (rewrite slen_app, slen_cons, slen_nil; cbn [snd]; lia).
      apply IH; [exact Erg'|].
      destruct LI as ((r0 & H0 & Hr0) & Hb & Hc & FW & Hd & He).
      set (pos := 24 + slen A). set (r := {| r_index := i; r_pos := pos; r_size := lenN v |}).
      assert (Hin_rg : In (pos, i, lenN v) (layout 24 rg)).
      { rewrite Erg. inl. right; left; reflexivity. }
      assert (HA_rg : forall q k n, In (q, k, n) (layout 24 A) -> In (q, k, n) (layout 24 rg)).
      { intros q k n H. rewrite Erg. inl. left; exact H. }
      destruct (N.eqb_spec i 0) as [->|Hi].
      + (* a free region *)
        rewrite (set_record_free rs r eq_refl). cbn [r r_pos r_size].
        assert (Hnone : m_get (fps rs) pos = None).
        { destruct (m_get (fps rs) pos) as [n|] eqn:E; [|reflexivity]. apply Hd in E.
          apply layout_range in E. unfold pos in *. lia. }
        unfold linv. cbn [recs mark_free].
        split; [exists r0; auto|].
        split. { intros q k n Hk H. apply Hb; [exact Hk|]. revert H. inl. intros [H|[H|[]]]; [exact H|congruence]. }
        split. { intros k r' Hr'. destruct (Hc k r' Hr') as [Z|[Z1 Z2]]; [left; exact Z|right; split; [exact Z1|]]. inl. left; exact Z2. }
        split; [apply fwf_mark_free; assumption|].
        split; [|exact He].
        intros q n. rewrite fps_mark_free. inl. fold pos. destruct (N.eqb_spec pos q) as [<-|Hq].
        * split; [|intros [= <-]; right; left; reflexivity].
          intros [H|[H|[]]]; [apply layout_range in H; unfold pos in *; lia|congruence].
        * rewrite <- (Hd q n). split; [intros [H|[H|[]]]; [exact H|congruence]|intros H; left; exact H].
      + (* a live record *)
        destruct (set_record_live rs r Hi) as (Ef & Es & El & NE). cbn [r r_index] in El, NE.
        assert (Hlt0 : (0 < length (recs rs))%nat) by (apply nth_error_some_lt in H0; exact H0).
        unfold linv.
        split.
        { exists r0. split; [|exact Hr0]. rewrite NE. destruct (Nat.eqb_spec 0 (N.to_nat i)); [lia|].
          destruct (Nat.ltb_spec 0 (length (recs rs))); [exact H0|lia]. }
        split.
        { intros q k n Hk H. revert H. inl. fold pos. intros [H|[H|[]]].
          - assert (k <> i).
            { intros ->. destruct (Huniq _ _ _ _ _ Hi (HA_rg _ _ _ H) Hin_rg) as [Eq _].
              apply layout_range in H. unfold pos in *. lia. }
            pose proof (Hb q k n Hk H) as Hs. rewrite NE. destruct (Nat.eqb_spec (N.to_nat k) (N.to_nat i)); [lia|].
            apply nth_error_some_lt in Hs as Hl. destruct (Nat.ltb_spec (N.to_nat k) (length (recs rs))); [exact Hs|lia].
          - injection H as <- <- <-. rewrite NE, Nat.eqb_refl. reflexivity. }
        split.
        { intros k r' Hr'. rewrite NE in Hr'. destruct (Nat.eqb_spec k (N.to_nat i)) as [->|Hk].
          - injection Hr' as <-. right. cbn [r r_index r_pos r_size]. split; [lia|]. inl. right; left; reflexivity.
          - destruct (Nat.ltb_spec k (length (recs rs))).
            + destruct (Hc k r' Hr') as [Z|[Z1 Z2]]; [left; exact Z|right; split; [exact Z1|]]. inl. left; exact Z2.
            + destruct (Nat.ltb_spec k (S (N.to_nat i))); [|discriminate]. injection Hr' as <-. left; reflexivity. }
        split; [unfold fwf; rewrite Ef, Es; exact FW|].
        split.
        { intros q n. rewrite Ef, <- (Hd q n). inl. split; [intros [H|[H|[]]]; [exact H|congruence]|intros H; left; exact H]. }
        unfold lenN in *. rewrite El. pose proof (Hbound _ _ _ Hin_rg). lia.
  Qed.

  (* the loaded and rebuilt table describes the layout *)
  Lemma load_table : M < two64 ->
    let T := rebuild_free_index (load rg 24 records_new) in
    trel T (layout 24 rg) /\ rwf T.
  Proof.
    intros HM T.
    pose proof (linv_load rg [] records_new eq_refl linv_new) as LI. rewrite slen_nil, N.add_0_r in LI.
    set (L := load rg 24 records_new) in *.
    destruct LI as ((r0 & H0 & Hr0) & Hb & Hc & FW & Hd & He).
    assert (Hlen : (1 <= length (recs L))%nat) by (apply nth_error_some_lt in H0; lia).
    assert (PW : pwf (recs L) 1).
    { exists r0, []. split; [exact H0|]. split; [rewrite Hr0; constructor|]. split; [constructor|]. split; [intros x []|].
      intros i r Hi Hr. split; [intros; lia|]. intros _.
      destruct (Hc i r Hr) as [Z|[Z _]]; [left; exact Z|right; exact Z]. }
    destruct (rebuild_from_spec (length (recs L) - 1) 1 L PW ltac:(lia) ltac:(lia)) as (P & LL & F1 & F2 & LV).
    fold (rebuild_free_index L) in P, LL, F1, F2, LV. fold T in P, LL, F1, F2, LV.
    split.
    - split.
      + intros q i n Hi. rewrite LV. split.
        * intros H. apply live_at_some. split; [exact Hi|]. apply Hb; assumption.
        * intros H. apply live_at_some in H. destruct H as [_ H].
          destruct (Hc _ _ H) as [Z|[_ Z]]; [cbn in Z; congruence|exact Z].
      + intros q n. rewrite F1. apply Hd.
    - split.
      + apply pwf_twf; [unfold lenN in *; rewrite LL; lia|rewrite LL; exact P].
      + unfold fwf. rewrite F1, F2. exact FW.
  Qed.
End LoadInv.

Section Reopen.
  Variable ops : store_ops cdata.
  Hypothesis CN : canon ops.

  (* the strict calculus: the computation returns normally *)
  Definition wps {A} (m : MM A) (s : ST) (Q : ST -> A -> Prop) : Prop :=
    match m s with (s', ROk a) => Q s' a | _ => False end.
  Lemma wps_bind {A B} (m : MM A) (f : A -> MM B) s Q : wps m s (fun s' a => wps (f a) s' Q) -> wps (bind cdata m f) s Q.
  Proof. unfold wps, bind. destruct (m s) as [s' [a|e| |]]; auto. Qed.
  Lemma wps_ret {A} (a : A) s (Q : ST -> A -> Prop) : Q s a -> wps (ret cdata a) s Q.
  Proof. exact (fun H => H). Qed.
  Lemma wps_get_len s (Q : ST -> N -> Prop) : Q s (lenN (cur (sdata s))) -> wps (get_len cdata ops) s Q.
  Proof. unfold wps, get_len. rewrite (cn_len _ CN). exact (fun H => H). Qed.
  Lemma wps_get_rtab s (Q : ST -> records -> Prop) : Q s (rtab s) -> wps (get_rtab cdata) s Q.
  Proof. exact (fun H => H). Qed.
  Lemma wps_put_rtab r s (Q : ST -> unit -> Prop) : Q (set_rtab cdata s r) tt -> wps (put_rtab cdata r) s Q.
  Proof. exact (fun H => H). Qed.
  Lemma wps_dread pos n s (Q : ST -> bytes -> Prop) :
    pos + n <= lenN (cur (sdata s)) -> Q s (bs_read (cur (sdata s)) (N.to_nat pos) (N.to_nat n)) -> wps (dread cdata ops pos n) s Q.
  Proof.
    intros Hp HQ. unfold wps, dread. rewrite (cn_read _ CN). unfold c_read.
    destruct (N.leb_spec (pos + n) (lenN (cur (sdata s)))); [exact HQ|lia].
  Qed.

  (* the loop of read_records over the regions B that follow the regions A *)
  Lemma load_records_spec B : forall A s fuel (Q : ST -> unit -> Prop),
    cur (sdata s) = vrec ++ ser (A ++ B) -> (length B < fuel)%nat ->
    (forall i v, In (i, v) B -> i < two64 /\ lenN v < two64) ->
    Q (set_rtab cdata s (load B (24 + slen A) (rtab s))) tt ->
    wps (load_records cdata ops fuel (lenN (cur (sdata s))) (24 + slen A)) s Q.
  Proof.
    induction B as [|[i v] B IH]; intros A s fuel Q Hcur Hfuel Hb HQ.
    - destruct fuel as [|f]; [lia|]. cbn [load_records].
      assert (HL : lenN (cur (sdata s)) = 24 + slen A).
      { rewrite Hcur, app_nil_r, lenN_app, lenN_vrec. reflexivity. }
      rewrite HL. destruct (N.ltb_spec (24 + slen A) (24 + slen A)); [lia|].
      apply wps_ret. cbn [load] in HQ. destruct s; exact HQ.
    - destruct fuel as [|f]; [cbn [length] in Hfuel; lia|]. cbn [load_records].
      destruct (Hb i v (or_introl eq_refl)) as [Hi64 Hv64].
      assert (Hcur2 : cur (sdata s) = (vrec ++ ser A) ++ (le64 i ++ le64 (lenN v)) ++ (v ++ ser B)).
      { rewrite Hcur, ser_app. cbn [ser]. unfold enc. cbn [fst snd]. rewrite <- !app_assoc. reflexivity. }
      assert (HL : lenN (cur (sdata s)) = 24 + slen A + 16 + lenN v + slen B).
      { rewrite Hcur2, !lenN_app, !lenN_le64, lenN_vrec. unfold slen. lia. }
      destruct (N.ltb_spec (24 + slen A) (lenN (cur (sdata s)))) as [_|]; [|lia].
      apply wps_bind. unfold read_record. apply wps_bind. apply wps_dread; [lia|].
      assert (Eh : bs_read (cur (sdata s)) (N.to_nat (24 + slen A)) (N.to_nat 16) = le64 i ++ le64 (lenN v)).
      { rewrite Hcur2. apply bs_read_mid;
          [rewrite app_length; change (length vrec) with 24%nat; unfold slen, lenN; lia|rewrite app_length, !le64_length; reflexivity]. }
      rewrite Eh. apply wps_ret.
      rewrite (firstn_app_l (le64 i)) by (rewrite le64_length; reflexivity).
      rewrite (skipn_app_l (le64 i)) by (rewrite le64_length; reflexivity).
      rewrite firstn_all2 by (rewrite le64_length; lia).
      rewrite !de_le64 by assumption. cbn [r_size].
      destruct (N.ltb_spec (lenN (cur (sdata s)) - (24 + slen A) + 16) (lenN v)); [lia|].
      apply wps_bind. apply wps_bind, wps_get_rtab, wps_put_rtab.
      unfold r_end. cbn [r_pos r_size].
      replace (24 + slen A + 16 + lenN v) with (24 + slen (A ++ [(i, v)]))
        by (rewrite slen_app, slen_cons, slen_nil; cbn [snd]; lia).
      change (lenN (cur (sdata s))) with (lenN (cur (sdata (set_rtab cdata s (set_record (rtab s) {| r_index := i; r_pos := 24 + slen A; r_size := lenN v |}))))).
      apply IH.
      + st. rewrite <- app_assoc. exact Hcur.
      + cbn [length] in Hfuel. lia.
      + intros k w Hkw. apply Hb. right; exact Hkw.
      + st. cbn [load] in HQ.
        replace (24 + slen (A ++ [(i, v)])) with (24 + slen A + 16 + lenN v)
          by (rewrite slen_app, slen_cons, slen_nil; cbn [snd]; lia).
        exact HQ.
  Qed.

  (* opening a file whose content is a tiling *)
  Lemma with_data_spec s0 rg d :
    tiles s0 rg -> cur d = cur (sdata s0) ->
    exists s', with_data cdata ops d = (s', ROk tt) /\ tiles s' rg /\ tx s' = 0 /\ sdata s' = d.
  Proof.
    intros T0 Hd. pose proof (tiles_elim _ _ T0) as (Hcur0 & Hlen0 & [TL0 TF0] & [TW0 FW0] & Hv0).
    set (M := lenN (recs (rtab s0))).
    assert (HM : M < two64) by (destruct TW0 as [H _]; exact H).
    assert (HM1 : 1 <= M).
    { destruct TW0 as (_ & r0 & fl & H0 & _). apply nth_error_some_lt in H0. unfold M, lenN. lia. }
    assert (Hbound : forall q i n, In (q, i, n) (layout 24 rg) -> i + 1 <= M).
    { intros q i n H. destruct (N.eqb_spec i 0) as [->|Hi]; [lia|]. apply TL0 in H; [|exact Hi].
      apply live_at_lt in H. unfold M. lia. }
    assert (Huniq : forall q i n q' n', i <> 0 -> In (q, i, n) (layout 24 rg) -> In (q', i, n') (layout 24 rg) -> q = q' /\ n = n').
    { intros q i n q' n' Hi H1 H2. apply TL0 in H1, H2; try assumption. rewrite H1 in H2. injection H2 as <- <-. auto. }
    assert (Hsz : forall i v, In (i, v) rg -> i < two64 /\ lenN v < two64).
    { intros i v H. destruct (In_layout 24 _ _ _ H) as (q & Hq). pose proof (Hbound _ _ _ Hq).
      apply layout_range in Hq. rewrite Hcur0, lenN_app, lenN_vrec in Hlen0. unfold slen in *. lia. }
    destruct (load_table rg M HM1 Hbound Huniq HM) as [TR RW].
    set (T := rebuild_free_index (load rg 24 records_new)) in *.
    set (sF := {| sdata := d; rtab := T; tx := 0; version := 1 |}).
    assert (W : wps (read_records cdata ops) {| sdata := d; rtab := records_new; tx := 0; version := 0 |}
                   (fun s' _ => s' = sF)).
    { assert (Hc : cur d = vrec ++ ser rg) by congruence.
      assert (HL24 : 24 <= lenN (cur d)) by (rewrite Hc, lenN_app, lenN_vrec; lia).
      unfold read_records. apply wps_bind, wps_get_len. st.
      apply wps_bind. destruct (N.leb_spec 16 (lenN (cur d))) as [_|]; [|lia].
      apply wps_bind. unfold read_record. apply wps_bind. apply wps_dread; [st; lia|]. st.
      assert (Eh : bs_read (cur d) (N.to_nat 0) (N.to_nat 16) = le64 0 ++ le64 8).
      { rewrite Hc. unfold vrec. change (N.to_nat 0) with 0%nat.
        change ((le64 0 ++ le64 8 ++ le64 1) ++ ser rg) with ([] ++ (le64 0 ++ le64 8) ++ (le64 1 ++ ser rg)).
        apply bs_read_mid; reflexivity. }
      rewrite Eh. apply wps_ret.
      rewrite (firstn_app_l (le64 0)) by reflexivity. rewrite (skipn_app_l (le64 0)) by reflexivity.
      rewrite firstn_all2 by (rewrite le64_length; lia).
      rewrite !de_le64 by (unfold two64; lia). cbn [r_index]. rewrite N.eqb_refl.
      apply wps_bind. unfold extract_version. cbn [r_size]. destruct (N.ltb_spec 8 8); [lia|].
      apply wps_bind. unfold read_value, value_start. cbn [r_pos r_size]. apply wps_dread; [st; lia|]. st.
      assert (Ev : bs_read (cur d) (N.to_nat (0 + 16)) (N.to_nat 8) = le64 1).
      { rewrite Hc. unfold vrec.
        change ((le64 0 ++ le64 8 ++ le64 1) ++ ser rg) with ((le64 0 ++ le64 8) ++ le64 1 ++ ser rg).
        apply bs_read_mid; reflexivity. }
      rewrite Ev. apply wps_ret. rewrite firstn_all2 by (rewrite le64_length; lia).
      rewrite de_le64 by (unfold two64; lia).
      unfold wps. st.
      (* the version is current *)
      apply wps_bind. unfold wps at 1, validate_or_update_version. st. unfold CURRENT_VERSION.
      destruct (N.ltb_spec 1 1); [lia|]. rewrite N.eqb_refl.
      apply wps_bind, wps_get_len. st.
      apply wps_bind.
      change (r_end version_record) with (24 + slen []).
      set (s1 := set_version cdata {| sdata := d; rtab := records_new; tx := 0; version := 0 |} 1).
      change (lenN (cur d)) with (lenN (cur (sdata s1))).
      apply (load_records_spec rg [] s1).
      - exact Hc.
      - pose proof (slen_ge rg) as G. change (cur (sdata s1)) with (cur d). rewrite Hc, lenN_app, lenN_vrec. fold (slen rg). unfold lenN in *.
        assert (N.of_nat (length rg) <= (24 + slen rg) / 16) by (apply N.div_le_lower_bound; lia). lia.
      - exact Hsz.
      - st. rewrite slen_nil, N.add_0_r. apply wps_bind, wps_get_rtab. st. apply wps_put_rtab. reflexivity. }
    unfold with_data. unfold wps in W.
    destruct (read_records cdata ops {| sdata := d; rtab := records_new; tx := 0; version := 0 |}) as [s' [[]|e| |]];
      [|destruct W|destruct W|destruct W]. rewrite W.
    exists sF. split; [reflexivity|]. split; [|split; reflexivity].
    apply tiles_intro; unfold sF; st.
    - congruence.
    - congruence.
    - exact TR.
    - exact RW.
    - reflexivity.
  Qed.
End Reopen.
