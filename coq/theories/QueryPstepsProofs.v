(* QueryPstepsProofs.v — C13 for all query kinds, second layer: every mutating query of Queries.v
   (InsertNodes, InsertEdges, InsertValues, Remove, RemoveValues in addition to the four `liftable`
   kinds of UndoLift.v), executed in a state satisfying the joint invariant `Inv`, decomposes into the
   mutation primitives of C13 (`reach`, see PstepOpsProofs.v) — whatever its outcome: the partial state
   left by a failing query is reached by primitives too.  Same for every prefix of a transaction. *)
From Agdb Require Import Bytes BytesProofs DbValue Graph DbModel Search Queries Revisions
  GraphSim GraphWf GraphLive DbCascadeProofs AssocProofs ImapProofs DbFrameProofs AliasProofs
  DbValueEqProofs KvProofs KvDbProofs KvSelectProofs
  IndexProofs IndexDbProofs IndexDb2Proofs IndexDb3Proofs IndexDb4Proofs IndexInvProofs
  DbInvProofs DbInvRemoveProofs QStepProofs QueryInvProofs.
From Agdb Require Import UndoBase UndoObs UndoAlias UndoKv UndoGraphBase UndoGraph UndoGraphAlloc UndoGraphEdge
  UndoGraphOps UndoAbs UndoDb UndoStepsAlias UndoStepsKv UndoStepsKv2 UndoStepsIndex UndoStepsGraph UndoBridge
  UndoMain UndoFinal UndoLift UndoRemoveNode UndoRemoveNode2 InvSimProofs PstepOpsProofs.
From Coq Require Import Permutation ZifyBool ZifyNat ZifyN.
Ltac Zify.zify_post_hook ::= Z.div_mod_to_equations.
Open Scope Z_scope.

Notation sdb := QStepProofs.step_db.

Section QueryReach.
  Variable rv : revision.
  Hypothesis Hrv : fix_rollback_replace rv = true.
  Hypothesis Hsteal : fix_alias_steal_undo rv = true.
  Hypothesis Hfix : fix_alias_nodes_only rv = true.
  Hypothesis Hnia : fix_nodes_ids_alias rv = true.
  Hypothesis Hsearch : search_live rv.

  Notation reach := (PstepOpsProofs.reach rv).
  Notation psteps := (UndoMain.psteps rv).

  Let rrefl := reach_refl rv.
  Let rsnoc := reach_snoc rv Hrv Hsteal.
  Let rtrans := reach_trans rv Hrv Hsteal.

  (* ---------- per-element steps ---------- *)
  Lemma replace_step d0 a id kvs :
    Inv a -> live a id = true -> reach d0 a ->
    Inv (insert_kvs_replace a id kvs) /\ reach d0 (insert_kvs_replace a id kvs).
  Proof.
    intros Ha Hl Hr. split; [now apply insert_kvs_replace_Inv|].
    apply (rsnoc d0 a); [exact Hr|]. apply insert_kvs_replace_psteps; [apply Ha|exact Hl].
  Qed.

  Lemma replace_step_g d0 d a id kvs :
    Inv a -> same_gr d a -> live d id = true -> reach d0 a ->
    Inv (insert_kvs_replace a id kvs) /\ same_gr d (insert_kvs_replace a id kvs) /\
    reach d0 (insert_kvs_replace a id kvs).
  Proof.
    intros Ha Hg Hl Hr. destruct (insert_kvs_replace_step d a id kvs Ha Hg Hl) as [H1 H2].
    split; [exact H1|]. split; [exact H2|].
    apply (replace_step d0 a id kvs Ha); [|exact Hr]. now rewrite (same_gr_live d a).
  Qed.

  Lemma new_step d0 a acc alias kvs :
    Inv a -> keys_distinct kvs ->
    match alias with Some al => imap_value (aliases a) al = None | None => True end ->
    reach d0 a ->
    Inv (fst (insert_values_new a acc alias kvs)) /\ reach d0 (fst (insert_values_new a acc alias kvs)).
  Proof.
    intros Ha Hk Hal Hr. split; [apply (insert_values_new_Inv a acc alias kvs Ha Hk)|].
    apply (rsnoc d0 a); [exact Hr|]. now apply insert_values_new_psteps.
  Qed.

  Lemma db_id_alias_none a al e : db_id a (QAlias al) = RErr e -> imap_value (aliases a) al = None.
  Proof. cbn [db_id]. destruct (imap_value (aliases a) al); [discriminate|reflexivity]. Qed.

  (* ---------- insert nodes ---------- *)
  Lemma insert_nodes_reach d count values als ids :
    qvalues_ok values -> Inv d -> reach d (sdb (insert_nodes rv d count values als ids)).
  Proof.
    intros Hv Hd. unfold insert_nodes.
    destruct (fix_empty_alias rv && existsb _ als); cbn [sdb]; [apply rrefl|].
    destruct (resolve_ids rv d ids) as [query_ids|e|] eqn:Er; cbn [sdb]; try apply rrefl.
    set (vals_list := match values with
                      | Single v => repeat v (Nat.max (length query_ids) (Z.to_nat (Z.max count (lenZ als))))
                      | Multi v => v end).
    assert (Hvl : Forall keys_distinct vals_list).
    { unfold vals_list. destruct values as [v|v]; [now apply Forall_repeat|exact Hv]. }
    destruct (Nat.ltb (length vals_list) (length als)); cbn [sdb]; [apply rrefl|].
    destruct (negb (Nat.eqb (length query_ids) 0)).
    - destruct (existsb (fun id => id <? 0) query_ids) eqn:Eneg; cbn [sdb]; [apply rrefl|].
      destruct (negb (Nat.eqb (length vals_list) (length query_ids))); cbn [sdb]; [apply rrefl|].
      unfold ok_elements. cbn [sdb].
      match goal with |- reach d (fold_left ?f ?l d) =>
        assert (H : (fun a => Inv a /\ same_gr d a /\ reach d a) (fold_left f l d)) end; [|apply H].
      apply fold_left_inv; [split; [exact Hd|split; [reflexivity|apply rrefl]]|].
      intros a [i [id kvs]] Hin (Ha & Hg & Hr).
      apply in_combine_both in Hin. destruct Hin as [_ Hin]. apply in_combine_both in Hin. destruct Hin as [Hid _].
      pose proof (resolve_ids_live rv Hsearch d ids query_ids Hd Er id Hid) as Hl.
      assert (Hp : 0 < id).
      { pose proof (live_nonzero d id Hl). destruct (Z.ltb_spec id 0) as [Hn|Hn]; [|lia].
        exfalso. assert (Hex : existsb (fun id => id <? 0) query_ids = true); [|congruence].
        apply existsb_exists. exists id. split; [exact Hid|lia]. }
      destruct (replace_step_g d d a id kvs Ha Hg Hl Hr) as (Ha1 & Hg1 & Hr1).
      destruct (nth_error als i) as [al|]; [|split; [exact Ha1|split; assumption]].
      assert (Hl1 : live (insert_kvs_replace a id kvs) id = true) by (rewrite (same_gr_live d _ id Hg1); exact Hl).
      rewrite Hnia. split; [now apply insert_alias_Inv|]. split.
      + unfold same_gr. rewrite (proj1 (insert_alias_gvi rv _ id al)). exact Hg1.
      + apply (rsnoc d _ _ Hr1). apply (psteps_one rv). apply ps_insert_alias.
    - match goal with |- context [fold_left ?f ?l ?a0] =>
        assert (H : (fun acc : db * list Z => Inv (fst acc) /\ reach d (fst acc)) (fold_left f l a0)) end.
      { apply fold_left_inv; [split; [exact Hd|apply rrefl]|].
        intros [a out] [i kvs] Hin [Ha Hr]. cbn [fst] in *.
        apply in_combine_both in Hin. destruct Hin as [_ Hin].
        assert (Hk : keys_distinct kvs) by (rewrite Forall_forall in Hvl; now apply Hvl).
        destruct (nth_error als i) as [al|].
        - destruct (db_id a (QAlias al)) as [id|e] eqn:Ei.
          + cbn [fst]. apply replace_step; [exact Ha| |exact Hr]. apply (db_id_live a (QAlias al)); [apply Ha|exact Ei].
          + pose proof (new_step d a (0, []) (Some al) kvs Ha Hk (db_id_alias_none a al e Ei) Hr) as H.
            unfold insert_values_new in H. destruct (insert_node_db a) as [id a1]. cbn [fst] in *. exact H.
        - pose proof (new_step d a (0, []) None kvs Ha Hk I Hr) as H. unfold insert_values_new in H.
          destruct (insert_node_db a) as [id a1]. cbn [fst] in *. exact H. }
      match goal with |- context [fold_left ?f ?l ?a0] => destruct (fold_left f l a0) as [d1 ids_rev] end.
      cbn [fst] in H. unfold ok_elements. cbn [sdb]. apply H.
  Qed.

  (* ---------- insert edges ---------- *)
  Lemma insert_edge_list_reach d pairs :
    Inv d ->
    (forall f t kvs, In ((f, t), kvs) pairs -> live d f = true /\ live d t = true /\ keys_distinct kvs) ->
    reach d (sdb (insert_edge_list d pairs)).
  Proof.
    intros Hd Hp. unfold insert_edge_list.
    match goal with |- context [st_fold ?f d [] pairs] =>
      assert (H : (fun a => Inv a /\ mono d a /\ reach d a) (sdb (st_fold f d [] pairs))) end.
    { apply st_fold_inv; [split; [exact Hd|split; [intros j Hj; exact Hj|apply rrefl]]|].
      intros a out [[f t] kvs] Hin (Ha & Hm & Hr). destruct (Hp f t kvs Hin) as (Hf & Ht & Hk).
      destruct (insert_edge_db a f t) as [[id a1]|e] eqn:Ei; cbn [sdb]; [|split; [exact Ha|split; assumption]].
      destruct (insert_edge_db_Inv a f t id a1 Ha (Hm f Hf) (Hm t Ht) Ei) as (Ha1 & Hn & Hl & He & Hm1).
      split; [now apply insert_kvs_new_Inv|]. split.
      - intros j Hj. unfold live. rewrite (proj1 (insert_kvs_new_ga a1 id kvs)). apply Hm1. now apply Hm.
      - apply (rsnoc d a _ Hr). now apply (insert_edge_db_psteps rv a f t id a1 kvs Ha (Hm f Hf) (Hm t Ht) Ei). }
    destruct (st_fold _ d [] pairs) as [d1 out|d1 e|d1]; cbn [sdb] in *; apply H.
  Qed.

  Lemma insert_edges_reach d from to values each ids :
    qvalues_ok values -> Inv d -> reach d (sdb (insert_edges rv d from to values each ids)).
  Proof.
    intros Hv Hd. unfold insert_edges.
    destruct (resolve_ids rv d ids) as [query_ids|e|] eqn:Er; cbn [sdb]; try apply rrefl.
    destruct (negb (Nat.eqb (length query_ids) 0)).
    - destruct (existsb (fun id => 0 <? id) query_ids); cbn [sdb]; [apply rrefl|].
      destruct (edge_values values (length query_ids)) as [vl|e]; cbn [sdb]; [|apply rrefl].
      unfold ok_elements. cbn [sdb].
      match goal with |- reach d (fold_left ?f ?l d) =>
        assert (H : (fun a => Inv a /\ same_gr d a /\ reach d a) (fold_left f l d)) end; [|apply H].
      apply fold_left_inv; [split; [exact Hd|split; [reflexivity|apply rrefl]]|].
      intros a [id kvs] Hin (Ha & Hg & Hr). apply in_combine_both in Hin. destruct Hin as [Hid _]. cbn [fst snd].
      apply (replace_step_g d d a id kvs Ha Hg); [|exact Hr]. now apply (resolve_ids_live rv Hsearch d ids query_ids Hd Er).
    - destruct (edge_db_ids rv d from) as [fl|e|] eqn:Ef; cbn [sdb]; try apply rrefl.
      destruct (edge_db_ids rv d to) as [tl|e|] eqn:Et; cbn [sdb]; try apply rrefl.
      set (pairs := if each || negb (Nat.eqb (length fl) (length tl))
                    then flat_map (fun f => map (fun t => (f, t)) tl) fl else combine fl tl).
      assert (Hpairs : forall f t, In (f, t) pairs -> In f fl /\ In t tl).
      { intros f t. unfold pairs. destruct (each || negb (Nat.eqb (length fl) (length tl))).
        - rewrite in_flat_map. intros [f0 [Hf0 Hin]]. apply in_map_iff in Hin.
          destruct Hin as [t0 [Heq Ht0]]. inversion Heq; subst. tauto.
        - apply in_combine_both. }
      destruct (edge_values values (length pairs)) as [vl|e] eqn:Ev; cbn [sdb]; [|apply rrefl].
      pose proof (edge_values_ok values _ vl Hv Ev) as Hvl.
      assert (H : reach d (sdb (insert_edge_list d (combine pairs vl)))).
      { apply insert_edge_list_reach; [exact Hd|]. intros f t kvs Hin. apply in_combine_both in Hin.
        destruct Hin as [Hft Hk]. destruct (Hpairs f t Hft) as [Hf Ht].
        split; [now apply (edge_db_ids_live rv Hsearch d from fl Hd Ef)|].
        split; [now apply (edge_db_ids_live rv Hsearch d to tl Hd Et)|].
        rewrite Forall_forall in Hvl. now apply Hvl. }
      destruct (insert_edge_list d (combine pairs vl)) as [d1 out|d1 e|d1]; cbn [sdb ok_elements] in *; exact H.
  Qed.

  (* ---------- insert values ---------- *)
  Lemma insert_values_q_reach d0 a acc q kvs :
    Inv a -> keys_distinct kvs -> reach d0 a ->
    Inv (sdb (insert_values_q rv a acc q kvs)) /\ reach d0 (sdb (insert_values_q rv a acc q kvs)).
  Proof.
    intros Ha Hk Hr. unfold insert_values_q. destruct (db_id a q) as [id|e] eqn:Ei.
    - unfold insert_values_id. cbn [sdb]. apply replace_step; [exact Ha| |exact Hr].
      apply (db_id_live a q id); [apply Ha|exact Ei].
    - destruct q as [id|al].
      + destruct (id =? 0); cbn [sdb]; [|split; assumption].
        pose proof (new_step d0 a acc None kvs Ha Hk I Hr) as H.
        destruct (insert_values_new a acc None kvs) as [d1 r]. cbn [sdb fst] in *. exact H.
      + destruct (fix_empty_alias rv && _); cbn [sdb]; [split; assumption|].
        pose proof (new_step d0 a acc (Some al) kvs Ha Hk (db_id_alias_none a al e Ei) Hr) as H.
        destruct (insert_values_new a acc (Some al) kvs) as [d1 r]. cbn [sdb fst] in *. exact H.
  Qed.

  Lemma insert_values_reach d ids values :
    qvalues_ok values -> Inv d -> reach d (sdb (insert_values rv d ids values)).
  Proof.
    intros Hv Hd. unfold insert_values. destruct ids as [l|s].
    - destruct values as [kvs|vl].
      + match goal with |- reach d (sdb (st_fold ?f d ?b l)) =>
          assert (H : (fun a => Inv a /\ reach d a) (sdb (st_fold f d b l))) end; [|apply H].
        apply st_fold_inv; [split; [exact Hd|apply rrefl]|]. intros a acc q _ [Ha Hr]. now apply insert_values_q_reach.
      + destruct (negb (Nat.eqb (length l) (length vl))); cbn [sdb]; [apply rrefl|].
        match goal with |- reach d (sdb (st_fold ?f d ?b ?l0)) =>
          assert (H : (fun a => Inv a /\ reach d a) (sdb (st_fold f d b l0))) end; [|apply H].
        apply st_fold_inv; [split; [exact Hd|apply rrefl]|]. intros a acc [q kvs] Hin [Ha Hr]. cbn [fst snd].
        apply insert_values_q_reach; [exact Ha| |exact Hr]. apply in_combine_both in Hin.
        cbn [qvalues_ok] in Hv. rewrite Forall_forall in Hv. now apply Hv.
    - destruct (search rv d s) as [db_ids|e|] eqn:Es; cbn [sdb]; try apply rrefl.
      destruct values as [kvs|vl].
      + match goal with |- reach d (sdb (st_fold ?f d ?b db_ids)) =>
          assert (H : (fun a => Inv a /\ same_gr d a /\ reach d a) (sdb (st_fold f d b db_ids))) end; [|apply H].
        apply st_fold_inv; [split; [exact Hd|split; [reflexivity|apply rrefl]]|]. intros a acc id Hin (Ha & Hg & Hr).
        unfold insert_values_id. cbn [sdb].
        apply (replace_step_g d d a id kvs Ha Hg); [|exact Hr]. now apply (Hsearch d s db_ids Hd Es).
      + destruct (negb (Nat.eqb (length db_ids) (length vl))); cbn [sdb]; [apply rrefl|].
        match goal with |- reach d (sdb (st_fold ?f d ?b ?l0)) =>
          assert (H : (fun a => Inv a /\ same_gr d a /\ reach d a) (sdb (st_fold f d b l0))) end; [|apply H].
        apply st_fold_inv; [split; [exact Hd|split; [reflexivity|apply rrefl]]|]. intros a acc [id kvs] Hin (Ha & Hg & Hr).
        unfold insert_values_id. cbn [sdb fst snd]. apply in_combine_both in Hin.
        apply (replace_step_g d d a id kvs Ha Hg); [|exact Hr]. now apply (Hsearch d s db_ids Hd Es).
  Qed.

  (* ---------- removals ---------- *)
  Lemma remove_query_reach d ids : Inv d -> reach d (sdb (remove_query rv d ids)).
  Proof.
    intros Hd. unfold remove_query.
    assert (Hfin : forall r : step Z,
              sdb (match r with StOk d1 n => StOk d1 (n, []) | StErr d1 e => StErr d1 e | StPanic d1 => StPanic d1 end
                       : step (Z * list element)) = sdb r) by (intros [? ?|? ?|?]; reflexivity).
    destruct ids as [l|s].
    - rewrite Hfin.
      match goal with |- reach d (sdb (st_fold ?f d ?b l)) =>
        assert (H : (fun a => Inv a /\ reach d a) (sdb (st_fold f d b l))) end; [|apply H].
      apply st_fold_inv; [split; [exact Hd|apply rrefl]|]. intros a n q _ [Ha Hr].
      pose proof (remove_q_Inv a q Ha) as (Hi & _ & _). pose proof (remove_q_reach rv Hrv Hsteal a q Ha) as Hq.
      destruct (remove_q a q) as [a1 [[|]|e]]; cbn [sdb fst] in *; (split; [exact Hi|exact (rtrans d a a1 Hr Hq)]).
    - destruct (search rv d s) as [db_ids|e|]; cbn [sdb]; try apply rrefl.
      rewrite Hfin.
      match goal with |- reach d (sdb (st_fold ?f d ?b db_ids)) =>
        assert (H : (fun a => Inv a /\ reach d a) (sdb (st_fold f d b db_ids))) end; [|apply H].
      apply st_fold_inv; [split; [exact Hd|apply rrefl]|]. intros a n id _ [Ha Hr].
      pose proof (remove_id_Inv a id Ha) as (Hi & _ & _). pose proof (remove_id_reach rv Hrv Hsteal a id Ha) as Hq.
      destruct (remove_id a id) as [a1 [[|]|e]]; cbn [sdb fst] in *; (split; [exact Hi|exact (rtrans d a a1 Hr Hq)]).
  Qed.

  Lemma remove_values_reach d ids keys : Inv d -> reach d (sdb (remove_values rv d ids keys)).
  Proof.
    intros Hd. unfold remove_values.
    assert (Hfin : forall r : step Z,
              sdb (match r with StOk d1 n => StOk d1 (n, []) | StErr d1 e => StErr d1 e | StPanic d1 => StPanic d1 end
                       : step (Z * list element)) = sdb r) by (intros [? ?|? ?|?]; reflexivity).
    destruct ids as [l|s].
    - rewrite Hfin.
      match goal with |- reach d (sdb (st_fold ?f d ?b l)) =>
        assert (H : (fun a => Inv a /\ reach d a) (sdb (st_fold f d b l))) end; [|apply H].
      apply st_fold_inv; [split; [exact Hd|apply rrefl]|]. intros a n q _ [Ha Hr].
      destruct (db_id a q) as [id|e] eqn:Ei; cbn [sdb]; [|split; assumption].
      pose proof (db_id_live a q id (proj1 (proj2 (proj2 Ha))) Ei) as Hl.
      pose proof (remove_keys_Inv a id keys Ha Hl) as H. pose proof (remove_keys_pstep rv a id keys Ha Hl) as Hp.
      destruct (remove_keys a id keys) as [k a1]. cbn [sdb snd] in *. split; [exact H|].
      apply (rsnoc d a a1 Hr). now apply (psteps_one rv).
    - destruct (search rv d s) as [db_ids|e|] eqn:Es; cbn [sdb]; try apply rrefl.
      rewrite Hfin.
      match goal with |- reach d (sdb (st_fold ?f d ?b db_ids)) =>
        assert (H : (fun a => Inv a /\ same_gr d a /\ reach d a) (sdb (st_fold f d b db_ids))) end; [|apply H].
      apply st_fold_inv; [split; [exact Hd|split; [reflexivity|apply rrefl]]|]. intros a n id Hin (Ha & Hg & Hr).
      assert (Hl : live a id = true) by (rewrite (same_gr_live d a id Hg); now apply (Hsearch d s db_ids Hd Es)).
      pose proof (remove_keys_Inv a id keys Ha Hl) as H. pose proof (remove_keys_ga a id keys) as G.
      pose proof (remove_keys_pstep rv a id keys Ha Hl) as Hp.
      destruct (remove_keys a id keys) as [k a1]. cbn [sdb snd] in *. split; [exact H|]. split.
      + unfold same_gr. rewrite (proj1 G). exact Hg.
      + apply (rsnoc d a a1 Hr). now apply (psteps_one rv).
  Qed.

  (* ---------- every query, inside a transaction ---------- *)
  Theorem exec_in_txn_reach d q : query_ok q -> Inv d -> reach d (fst (exec_in_txn rv d q)).
  Proof.
    intros Hq Hd. destruct (liftable q) eqn:El.
    - destruct (exec_in_txn_light rv Hsteal d q El) as [Hp _]. now apply reach_psteps.
    - rewrite exec_in_txn_db. destruct q; cbn in El; try discriminate; cbn [is_mutating exec_mut_step query_ok] in *.
      + now apply insert_nodes_reach.
      + now apply insert_edges_reach.
      + now apply insert_values_reach.
      + now apply remove_query_reach.
      + now apply remove_values_reach.
  Qed.

  Theorem txn_run_reach qs : forall d acc,
    Forall query_ok qs -> Inv d -> reach d (fst (fst (txn_run rv d qs acc))).
  Proof.
    induction qs as [|q r IH]; intros d acc Hq Hd; cbn [txn_run]; [apply rrefl|].
    inversion Hq as [|? ? Hq1 Hq2]; subst.
    pose proof (exec_in_txn_reach d q Hq1 Hd) as Hr. pose proof (exec_in_txn_Inv rv Hsearch Hfix d q Hq1 Hd) as Hi.
    destruct (exec_in_txn rv d q) as [d1 res]. cbn [fst] in *.
    destruct (is_failure res); [exact Hr|]. exact (rtrans d d1 _ Hr (IH d1 (res :: acc) Hq2 Hi)).
  Qed.
End QueryReach.
