(* ExecSched.v — model M10: execution of committed cluster log entries on one node
   (agdb_server/src/cluster.rs: ClusterStorage::commit / execute_log / ClusterStorage::new,
    cluster_log.rs: log_committed / log_executed / logs_uncommitted / logs_unexecuted).
   Definitions only (executable, extracted).

   The appended log `lg` is a list of (index, action) in append order (Raft: increasing indices).
   All scheduling is done on indices; the action of an index is looked up in `lg`.

   Per-node state
     committed : indices whose COMMITTED mark was removed (log_committed), in the order marked
     tasks     : entries whose execution was STARTED but whose exec step has not run yet, in start order
     pending   : entries whose exec step ran (`log.data.exec(..)` + `notifier.send(index)`) but whose
                 `log_executed` has not happened yet
     trace     : the executed trace — indices in the order their exec steps ran (the effects on the
                 server db / user dbs; persists across restarts)
     executed  : indices whose EXECUTED mark was removed (log_executed)

   Events
     Commit idx      ClusterStorage::commit(idx): every uncommitted entry <= idx, in index order, is marked
                     committed and its execution is started
     RunTask i       the scheduler runs the exec step of the started entry i (if it is runnable)
     MarkExecuted i  `cluster_log.log_executed(log_id)` of an entry whose exec step ran
     Restart         process restart: started/pending tasks are lost; ClusterStorage::new starts every
                     committed entry not marked executed again, in index order

   Two execution disciplines
     SpawnPerEntry   the pinned code: execute_log does one `tokio::spawn` per entry — every started
                     entry is runnable at once
     FifoWorker      the repaired code: started entries are sent to ONE queue consumed by a single
                     worker that runs `exec; notify; log_executed` for one entry before it takes the
                     next: only the head of the queue is runnable, and only when no entry is pending *)
From Coq Require Import List NArith Bool.
Import ListNotations.
Open Scope N_scope.

(* the model lives in an inner module so that its (generic) names — run, step, trace, state, Commit ... —
   stay qualified in the monolithic OCaml extraction (Model.ExecM.run) and cannot clash with other models *)
Module ExecM.

Inductive discipline := SpawnPerEntry | FifoWorker.

Inductive event :=
| Commit (idx : N)
| RunTask (i : N)
| MarkExecuted (i : N)
| Restart.

Definition log := list (N * N).
Definition indices (lg : log) : list N := map fst lg.

Record state := {
  committed : list N;
  tasks : list N;
  pending : list N;
  trace : list N;
  executed : list N }.

Definition init : state :=
  {| committed := []; tasks := []; pending := []; trace := []; executed := [] |}.

Definition memN (i : N) (l : list N) : bool := existsb (N.eqb i) l.

(* remove the first occurrence *)
Fixpoint remove1 (i : N) (l : list N) : list N :=
  match l with
  | [] => []
  | j :: r => if N.eqb i j then r else j :: remove1 i r
  end.

(* cluster_log.logs_uncommitted(idx): COMMITTED mark still present, index <= idx, in index order *)
Definition uncommitted (lg : log) (s : state) (idx : N) : list N :=
  filter (fun i => (i <=? idx) && negb (memN i (committed s))) (indices lg).

(* cluster_log.logs_unexecuted(commit): committed, EXECUTED mark still present, in index order *)
Definition unexecuted (lg : log) (s : state) : list N :=
  filter (fun i => memN i (committed s) && negb (memN i (executed s))) (indices lg).

Definition runnable (d : discipline) (s : state) (i : N) : bool :=
  match d with
  | SpawnPerEntry => memN i (tasks s)
  | FifoWorker =>
    match tasks s, pending s with
    | j :: _, [] => N.eqb i j
    | _, _ => false
    end
  end.

Definition step (d : discipline) (lg : log) (s : state) (e : event) : state :=
  match e with
  | Commit idx =>
    let new := uncommitted lg s idx in
    {| committed := committed s ++ new; tasks := tasks s ++ new; pending := pending s;
       trace := trace s; executed := executed s |}
  | RunTask i =>
    if runnable d s i then
      {| committed := committed s; tasks := remove1 i (tasks s); pending := pending s ++ [i];
         trace := trace s ++ [i]; executed := executed s |}
    else s
  | MarkExecuted i =>
    if memN i (pending s) then
      {| committed := committed s; tasks := tasks s; pending := remove1 i (pending s);
         trace := trace s; executed := executed s ++ [i] |}
    else s
  | Restart =>
    {| committed := committed s; tasks := unexecuted lg s; pending := [];
       trace := trace s; executed := executed s |}
  end.

Definition run_from (d : discipline) (lg : log) (s : state) (evs : list event) : state :=
  fold_left (step d lg) evs s.

Definition run (d : discipline) (lg : log) (evs : list event) : state := run_from d lg init evs.

Definition is_restart (e : event) : bool := match e with Restart => true | _ => false end.
Definition no_restart (evs : list event) : bool := forallb (fun e => negb (is_restart e)) evs.
Definition restarts (evs : list event) : nat := length (filter is_restart evs).

(* how often index i was pending (exec step ran, not marked executed) at a Restart of the run *)
Fixpoint reexec_budget (d : discipline) (lg : log) (s : state) (evs : list event) (i : N) : nat :=
  match evs with
  | [] => 0
  | e :: evs' =>
    ((if is_restart e then count_occ N.eq_dec (pending s) i else 0)
     + reexec_budget d lg (step d lg s e) evs' i)%nat
  end.

(* the discipline of the KnownClass complement (SpawnPerEntry): every Commit finds no started entry
   waiting and starts at most one *)
Fixpoint paced (lg : log) (s : state) (evs : list event) : Prop :=
  match evs with
  | [] => True
  | e :: evs' =>
    match e with
    | Commit idx => tasks s = [] /\ (length (uncommitted lg s idx) <= 1)%nat
    | _ => True
    end /\ paced lg (step SpawnPerEntry lg s e) evs'
  end.

(* the action of an index, and the server/database state reached by a trace *)
Definition action_of (lg : log) (i : N) : N :=
  match find (fun p => N.eqb (fst p) i) lg with
  | Some p => snd p
  | None => 0
  end.

Definition db_state {S : Type} (apply : S -> N -> S) (s0 : S) (lg : log) (tr : list N) : S :=
  fold_left (fun st i => apply st (action_of lg i)) tr s0.

End ExecM.
