(* DbInvRemoveProofs.v — the combined invariant across the removal of elements (edge; node with the
   cascade over its incident edges, its alias and all values), built on C08's cascade lemmas. *)
From Agdb Require Import Bytes BytesProofs DbValue Graph DbModel Search Queries
  GraphArr GraphSim GraphProofs GraphRemove GraphSpec GraphWf GraphC08 GraphLive DbCascadeProofs
  AssocProofs ImapProofs DbFrameProofs AliasProofs DbValueEqProofs KvProofs KvDbProofs KvSelectProofs
  IndexProofs IndexDbProofs IndexDb2Proofs IndexDb3Proofs IndexDb4Proofs IndexInvProofs DbInvProofs.
From Coq Require Import ZifyBool.
Open Scope Z_scope.

Definition dead_or_live (d : db) (e : Z) : Prop :=
  live d e = true \/ (live d e = false /\ live d (- e) = false).

(* one edge leaves the graph, then its values are removed *)
Lemma remove_edge_step_Inv d e f t g' :
  Inv d -> e < 0 -> dead_or_live d e -> remove_edge (gr d) e = Some g' ->
  let d' := remove_all_values (push_undo (with_gr d g') (CInsertEdge f t)) e in
  Inv d' /\ (forall j, live d' j = live d j && negb (j =? e)) /\ aliases d' = aliases d.
Proof.
  intros (H1 & H2 & H3 & H4 & (A & B & C)) He Hcase Hr. cbv zeta.
  destruct (remove_edge_live (gr d) e H1 He) as (g2 & E2 & W & Hj). rewrite Hr in E2. inversion E2; subst g2.
  set (d0 := push_undo (with_gr d g') (CInsertEdge f t)).
  destruct (rav_proj d0 e) as (P1 & P2 & P3).
  change (gr d0) with g' in P1. change (aliases d0) with (aliases d) in P2. change (vals d0) with (vals d) in P3.
  assert (Hlive : forall j, live (remove_all_values d0 e) j = E_del (live d) e j).
  { intros j. unfold live, E_del. rewrite P1. apply Hj. }
  destruct (remove_all_values_exact e (live d) d0 (live_ok d)) as [X1 X2].
  { now apply (idx_exact_on_frame (live d) d d0). }
  { now apply (vals_live_on_frame (live d) d d0). }
  { exact Hcase. }
  split; [|split; [exact Hlive|exact P2]].
  unfold Inv. rewrite P1, P3. split; [exact W|]. split; [unfold alias_bij; now rewrite P2|].
  split.
  { intros a id Ha. rewrite P2 in Ha. destruct (alias_nodes_live d a id H3 Ha) as [Hp Hl].
    split; [exact Hp|].
    rewrite <- (live_pos_node (remove_all_values d0 e) id Hp), Hlive. unfold E_del. rewrite Hl.
    destruct (Z.eqb_spec id e); [lia|reflexivity]. }
  split; [now apply kvs_remove_distinct|].
  apply (idx_inv_transport _ (E_del (live d) e)); [intros i; now rewrite Hlive|exact X1|exact X2|].
  apply (idx_distinct_keys d0); [apply remove_all_values_index_keys|exact C].
Qed.

(* the cascade over the incident edges *)
Lemma cascade_fold_Inv (L : list (Z * Z * Z)) : forall a,
  Inv a -> (forall t, In t L -> fst (fst t) < 0 /\ dead_or_live a (fst (fst t))) ->
  exists a', fold_left cascade_step L (a, None) = (a', None) /\ Inv a' /\
             (forall j, live a' j = live a j && negb (existsb (fun t => j =? fst (fst t)) L)) /\
             aliases a' = aliases a.
Proof.
  induction L as [|[[ei f] t] r IH]; intros a Ha HL.
  - exists a. split; [reflexivity|]. split; [exact Ha|]. split; [|reflexivity].
    intros j. cbn [existsb negb]. now rewrite andb_true_r.
  - cbn [fold_left cascade_step].
    destruct (HL (ei, f, t) (or_introl eq_refl)) as [Hneg Hcase]. cbn [fst] in Hneg, Hcase.
    destruct (remove_edge_live (gr a) ei (proj1 Ha) Hneg) as (g2 & E2 & _ & _). rewrite E2.
    pose proof (remove_edge_step_Inv a ei f t g2 Ha Hneg Hcase E2) as S. cbv zeta in S.
    set (a1 := remove_all_values (push_undo (with_gr a g2) (CInsertEdge f t)) ei) in *.
    destruct S as (Ha1 & Hl1 & Hal1).
    destruct (IH a1 Ha1) as (a' & F & Ha' & Hl' & Hal').
    { intros t0 Ht0. destruct (HL t0 (or_intror Ht0)) as [Hn0 Hc0]. split; [exact Hn0|].
      unfold dead_or_live in *. rewrite !Hl1.
      destruct (Z.eqb_spec (fst (fst t0)) ei) as [Eq|Ne].
      - right. rewrite andb_false_r. split; [reflexivity|]. rewrite Eq.
        destruct Hcase as [Hc|[_ Hc]]; [rewrite (live_ok a ei Hc)|rewrite Hc]; reflexivity.
      - rewrite andb_true_r. destruct Hc0 as [Hc|[Hc1 Hc2]]; [left; exact Hc|right].
        split; [exact Hc1|]. rewrite Hc2. reflexivity. }
    exists a'. split; [exact F|]. split; [exact Ha'|]. split; [|congruence].
    intros j. rewrite Hl', Hl1. cbn [existsb fst]. rewrite negb_orb. now rewrite andb_assoc.
Qed.

Section RemoveInv.
  Variable rv : revision.

  Lemma in_a_out aa n x : In x (a_edges aa) -> esrc x = n -> In (- eslot x) (a_out aa n).
  Proof.
    intros Hx Hs. unfold a_out. apply in_map. apply in_adj. exists x. tauto.
  Qed.

  Lemma in_a_in aa n x : In x (a_edges aa) -> etgt x = n -> In (- eslot x) (a_in aa n).
  Proof.
    intros Hx Hs. unfold a_in. apply in_map. apply in_adj. exists x. tauto.
  Qed.

  (* removal of a node: alias, incident edges with their values, the node, its values *)
  Lemma remove_node_db_Inv d n alias :
    Inv d -> 0 < n -> live d n = true ->
    (forall x, imap_value (drop_alias (aliases d) alias) x <> Some n) ->
    exists d0, remove_node_db d n alias = (d0, None) /\ Inv (remove_all_values d0 n) /\
               (forall j, live (remove_all_values d0 n) j = true -> live d j = true) /\
               live (remove_all_values d0 n) n = false.
  Proof.
    intros Hd Hn Hl Hal. rewrite remove_node_db_step_eq.
    set (d1 := match alias with
               | Some a => with_aliases (push_undo d (CInsertAlias n a))
                                        (imap_remove_key (imap_remove_key (aliases d) a) a)
               | None => d end).
    assert (G1 : same_gvi d d1) by (unfold d1; destruct alias; repeat split).
    assert (A1 : aliases d1 = drop_alias (aliases d) alias) by (unfold d1; destruct alias; reflexivity).
    assert (Hd1 : Inv d1).
    { apply (Inv_same_gvi d); [exact Hd|exact G1| |].
      - unfold alias_bij. rewrite A1. apply drop_alias_bij. apply Hd.
      - intros a id Ha. rewrite A1, drop_alias_value in Ha. destruct G1 as (Gg & _). rewrite Gg.
        destruct Hd as (_ & _ & Hn3 & _). destruct alias as [al|]; [|now apply (Hn3 a)].
        destruct (bytes_eqb al a); [discriminate|now apply (Hn3 a)]. }
    assert (Hl1 : live d1 n = true) by (unfold live; rewrite (proj1 G1); exact Hl).
    assert (Hnode : is_node (gr d1) n = true) by (rewrite <- live_pos_node by exact Hn; exact Hl1).
    cbv zeta. rewrite Hnode. cbn [negb].
    pose proof (proj1 Hd1) as Hwf.
    destruct (wf_out_edges _ n Hwf Hn Hnode) as [_ [Hout _]]. destruct (wf_in_edges _ n Hwf Hn Hnode) as [_ [Hin _]].
    assert (HL : forall t, In t (node_edges d1 n) -> fst (fst t) < 0 /\ dead_or_live d1 (fst (fst t))).
    { intros t Ht. apply node_edges_ids in Ht.
      assert (He : fst (fst t) < 0 /\ is_edge (gr d1) (fst (fst t)) = true).
      { destruct Ht as [Ht|Ht]; [apply Hout in Ht|apply Hin in Ht]; tauto. }
      destruct He as [He1 He2]. split; [exact He1|]. left. unfold live, graph_index.
      destruct (Z.ltb_spec (fst (fst t)) 0); [exact He2|lia]. }
    destruct (cascade_fold_Inv (node_edges d1 n) d1 Hd1 HL) as (d2 & F & Hd2 & Hl2 & Hal2).
    (* the same fold, seen through the simulation *)
    destruct Hwf as [aa [fl HS]].
    assert (HLneg : forall t, In t (node_edges d1 n) -> fst (fst t) <= 0).
    { intros t Ht. destruct (HL t Ht) as [H _]. lia. }
    destruct (cascade_fold (node_edges d1 n) d1 aa fl HLneg HS)
      as (d2' & aa2 & fl2 & F' & S2 & N2 & I2 & X2 & _).
    rewrite F in F'. inversion F'; subst d2'. clear F'. rewrite F.
    assert (Hn1 : In n (a_nodes aa)).
    { apply (sim_graph_index _ _ _ HS) in Hl1. destruct Hl1 as [[_ H]|[H _]]; [exact H|lia]. }
    assert (Hkeep : forall x, In x (a_edges aa2) -> keep_edge n x = true).
    { intros x Hx. unfold keep_edge. apply andb_true_iff. split; apply negb_true_iff, Z.eqb_neq; intros Hs.
      - pose proof (in_a_out aa n x (I2 x Hx) Hs) as Ho.
        rewrite <- (proj1 (sim_out_edges _ _ _ HS n Hn1)) in Ho.
        destruct (node_edges_cover (gr d1) d1 n (- eslot x) eq_refl (ex_intro _ aa (ex_intro _ fl HS)) Hn Hnode (or_introl Ho))
          as [t [Ht Hte]].
        apply (X2 t Ht). rewrite Hte, Z.opp_involutive. now apply in_map.
      - pose proof (in_a_in aa n x (I2 x Hx) Hs) as Ho.
        rewrite <- (proj1 (sim_in_edges _ _ _ HS n Hn1)) in Ho.
        destruct (node_edges_cover (gr d1) d1 n (- eslot x) eq_refl (ex_intro _ aa (ex_intro _ fl HS)) Hn Hnode (or_intror Ho))
          as [t [Ht Hte]].
        apply (X2 t Ht). rewrite Hte, Z.opp_involutive. now apply in_map. }
    assert (Hn2 : In n (a_nodes aa2)) by (rewrite N2; exact Hn1).
    destruct (remove_node_live_sim (gr d2) aa2 fl2 n S2 Hn2 Hkeep) as (g3 & E3 & W3 & Hj3). rewrite E3.
    set (d3 := push_undo (with_gr d2 g3) CInsertNode).
    exists d3. split; [reflexivity|].
    destruct (rav_proj d3 n) as (P1 & P2 & P3).
    change (gr d3) with g3 in P1. change (aliases d3) with (aliases d2) in P2. change (vals d3) with (vals d2) in P3.
    assert (Hlive : forall j, live (remove_all_values d3 n) j = E_del (live d2) n j).
    { intros j. unfold live, E_del. rewrite P1. apply Hj3. }
    assert (Hl2n : live d2 n = true).
    { rewrite Hl2, Hl1. cbn [andb]. apply negb_true_iff. destruct (existsb _ _) eqn:Ex; [|reflexivity].
      apply existsb_exists in Ex. destruct Ex as [t [Ht Hte]]. apply Z.eqb_eq in Hte.
      destruct (HL t Ht) as [Hneg _]. lia. }
    destruct Hd2 as (W2 & B2 & Nd2 & K2 & (IA & IB & IC)).
    destruct (remove_all_values_exact n (live d2) d3 (live_ok d2)) as [X1 X2'].
    { now apply (idx_exact_on_frame (live d2) d2 d3). }
    { now apply (vals_live_on_frame (live d2) d2 d3). }
    { left. exact Hl2n. }
    split; [|split].
    - unfold Inv. rewrite P1, P3. split; [exact W3|]. split; [unfold alias_bij; now rewrite P2|].
      split.
      { intros a id Ha. rewrite P2 in Ha. change (aliases d3) with (aliases d2) in Ha.
        destruct (alias_nodes_live d2 a id Nd2 Ha) as [Hp Hli].
        split; [exact Hp|].
        rewrite <- (live_pos_node (remove_all_values d3 n) id Hp), Hlive. unfold E_del. rewrite Hli.
        destruct (Z.eqb_spec id n) as [->|]; [|reflexivity].
        exfalso. apply (Hal a). rewrite <- A1, <- Hal2. exact Ha. }
      split; [now apply kvs_remove_distinct|].
      apply (idx_inv_transport _ (E_del (live d2) n)); [intros i; now rewrite Hlive|exact X1|exact X2'|].
      apply (idx_distinct_keys d3); [apply remove_all_values_index_keys|exact IC].
    - intros j Hj. rewrite Hlive in Hj. unfold E_del in Hj. apply andb_true_iff in Hj. destruct Hj as [Hj _].
      rewrite Hl2 in Hj. apply andb_true_iff in Hj. destruct Hj as [Hj _].
      unfold live in *. now rewrite <- (proj1 G1).
    - rewrite Hlive. unfold E_del. rewrite Z.eqb_refl. apply andb_false_r.
  Qed.

  (* DbImpl::remove_id on any id keeps the invariant and never fails *)
  Lemma remove_id_Inv d id :
    Inv d -> Inv (fst (remove_id d id)) /\ (exists b, snd (remove_id d id) = ROk b) /\
             (forall j, live (fst (remove_id d id)) j = true -> live d j = true).
  Proof.
    intros Hd. unfold remove_id. destruct (graph_index (gr d) id) eqn:Hg.
    2:{ cbn [fst snd]. split; [exact Hd|]. split; [eauto|trivial]. }
    destruct (Z.ltb_spec 0 id) as [Hp|Hp].
    - destruct (remove_node_db_Inv d id (imap_key (aliases d) id) Hd Hp Hg) as (d0 & E & Hi & Hm & _).
      { intros x. apply drop_alias_of_id_gone. apply Hd. }
      rewrite E. cbn [fst snd]. split; [exact Hi|]. split; [eauto|exact Hm].
    - assert (Hneg : id < 0).
      { destruct (Z.eq_dec id 0) as [->|]; [cbn in Hg; discriminate|lia]. }
      unfold remove_edge_db.
      destruct (remove_edge_live (gr d) id (proj1 Hd) Hneg) as (g2 & E2 & _ & _). rewrite E2.
      pose proof (remove_edge_step_Inv d id (edge_from (gr d) id) (edge_to (gr d) id) g2 Hd Hneg (or_introl Hg) E2) as S.
      cbv zeta in S. destruct S as (Hi & Hl & _). cbn [fst snd]. split; [exact Hi|]. split; [eauto|].
      intros j Hj. rewrite Hl in Hj. apply andb_true_iff in Hj. tauto.
  Qed.

  Lemma remove_q_Inv d q :
    Inv d -> Inv (fst (remove_q d q)) /\ (exists b, snd (remove_q d q) = ROk b) /\
             (forall j, live (fst (remove_q d q)) j = true -> live d j = true).
  Proof.
    intros Hd. destruct q as [id|a]; [now apply remove_id_Inv|]. cbn [remove_q].
    destruct (imap_value (aliases d) a) as [id|] eqn:Ea.
    2:{ cbn [fst snd]. split; [exact Hd|]. split; [eauto|trivial]. }
    destruct Hd as (H1 & H2 & H3 & H45). destruct (alias_nodes_live d a id H3 Ea) as [Hp Hl].
    destruct (remove_node_db_Inv d id (Some a) (conj H1 (conj H2 (conj H3 H45))) Hp Hl) as (d0 & E & Hi & Hm & _).
    { intros x. rewrite drop_alias_value.
      destruct (keqb_spec bytes_eqb bytes_eqb_eq a x) as [->|Hax]; [discriminate|].
      intros Hx. apply Hax. now apply (bij_injective (aliases d) a x id H2). }
    rewrite E. cbn [fst snd]. split; [exact Hi|]. split; [eauto|exact Hm].
  Qed.
End RemoveInv.
