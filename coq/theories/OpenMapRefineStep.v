(* OpenMapRefineStep.v — every operation of the open-addressing table preserves the invariant
   PInv = (len = #Valid < capacity, capacity 0 or >= mincap) + probe chain, completes within its fuel, and acts
   on the multiset of stored pairs `abs` exactly as OpenMapSpec.v says (including across grow, shrink and the
   in-place rehash). *)
From Coq Require Import List NArith ZArith Arith Bool Lia ZifyBool ZifyNat ZifyN Permutation.
Import ListNotations.
From Agdb Require Import OpenMap OpenMapProofs OpenMapSpec OpenMapRefineBase OpenMapRefineRehash
  OpenMapRefineLookup OpenMapRefineOps.
Ltac Zify.zify_post_hook ::= Z.div_mod_to_equations.

Section SlotFacts.
  Variables K V : Type.

  Lemma entries_nth_in : forall (sl : list (slot K V)) p k v, p < length sl -> nth p sl Empty = Valid k v ->
    In (k, v) (entries K V sl).
  Proof.
    induction sl as [|s t IH]; intros [|p] k v Hp Hn; cbn [length] in Hp; try lia; cbn [nth] in Hn;
      rewrite entries_cons; apply in_or_app.
    - left. subst s. left. reflexivity.
    - right. apply (IH p); [lia|exact Hn].
  Qed.

  Lemma entries_in_nth : forall (sl : list (slot K V)) k v, In (k, v) (entries K V sl) ->
    exists p, p < length sl /\ nth p sl Empty = Valid k v.
  Proof.
    induction sl as [|s t IH]; intros k v Hin; [contradiction|].
    rewrite entries_cons in Hin. apply in_app_or in Hin. destruct Hin as [Hin|Hin].
    - exists 0. split; [cbn [length]; lia|]. destruct s as [| |k' v']; cbn in Hin; try contradiction.
      destruct Hin as [Heq|[]]. inversion Heq; subst. reflexivity.
    - destruct (IH k v Hin) as [p [Hp Hn]]. exists (S p). split; [cbn [length]; lia|exact Hn].
  Qed.

  Lemma cv_ents : forall sl : list (slot K V), cv K V sl = length (entries K V sl).
  Proof. intros. unfold cv. symmetry. apply entries_length. Qed.
End SlotFacts.

Section AbsFacts.
  Variables K V : Type.
  Variable keqb : K -> K -> bool.
  Variable veqb : V -> V -> bool.
  Hypothesis keqb_eq : forall a b, keqb a b = true <-> a = b.
  Hypothesis veqb_eq : forall a b, veqb a b = true <-> a = b.

  Notation vals := (mm_values K V keqb).
  Notation rem1 := (mm_remove_one K V keqb veqb).

  Lemma keqb_refl : forall k, keqb k k = true.
  Proof. intros. apply keqb_eq. reflexivity. Qed.
  Lemma veqb_refl : forall v, veqb v v = true.
  Proof. intros. apply veqb_eq. reflexivity. Qed.

  Lemma in_vals : forall k w s, In w (vals k s) <-> In (k, w) s.
  Proof.
    intros k w s. unfold mm_values. rewrite in_map_iff. split.
    - intros [[k' w'] [Hw Hin]]. cbn in Hw. subst w'. apply filter_In in Hin. destruct Hin as [Hin Hk].
      cbn in Hk. apply keqb_eq in Hk. subst k'. exact Hin.
    - intros Hin. exists (k, w). split; [reflexivity|]. apply filter_In. split; [exact Hin|]. cbn. apply keqb_refl.
  Qed.

  Lemma remove_one_in : forall k v s, In (k, v) s -> Permutation s ((k, v) :: rem1 k v s).
  Proof.
    intros k v. induction s as [|[k' v'] t IH]; intros Hin; [contradiction|]. cbn [mm_remove_one].
    destruct (keqb k' k && veqb v' v) eqn:Hm.
    - apply andb_true_iff in Hm. destruct Hm as [Hk Hv]. apply keqb_eq in Hk. apply veqb_eq in Hv. subst.
      apply Permutation_refl.
    - destruct Hin as [Heq|Hin].
      + inversion Heq; subst. rewrite keqb_refl, veqb_refl in Hm. discriminate.
      + eapply Permutation_trans; [apply perm_skip; apply IH; exact Hin|]. apply perm_swap.
  Qed.

  Lemma remove_one_notin : forall k v s, ~ In (k, v) s -> rem1 k v s = s.
  Proof.
    intros k v. induction s as [|[k' v'] t IH]; intros Hnin; [reflexivity|]. cbn [mm_remove_one].
    destruct (keqb k' k && veqb v' v) eqn:Hm.
    - apply andb_true_iff in Hm. destruct Hm as [Hk Hv]. apply keqb_eq in Hk. apply veqb_eq in Hv. subst.
      exfalso. apply Hnin. left. reflexivity.
    - f_equal. apply IH. intros Hin. apply Hnin. right. exact Hin.
  Qed.

  Lemma pair_in_dec : forall (x : K * V) s, In x s \/ ~ In x s.
  Proof.
    intros x s. destruct (in_dec (pair_eq_dec K V keqb veqb keqb_eq veqb_eq) x s); auto.
  Qed.

  Lemma remove_one_perm : forall k v s1 s2, Permutation s1 s2 -> Permutation (rem1 k v s1) (rem1 k v s2).
  Proof.
    intros k v s1 s2 HP. destruct (pair_in_dec (k, v) s1) as [Hin|Hnin].
    - pose proof (Permutation_in _ HP Hin) as Hin2.
      apply (Permutation_cons_inv (a := (k, v))).
      eapply Permutation_trans; [apply Permutation_sym; apply remove_one_in; exact Hin|].
      eapply Permutation_trans; [exact HP|]. apply remove_one_in; exact Hin2.
    - assert (Hnin2 : ~ In (k, v) s2) by (intros Hin2; apply Hnin; exact (Permutation_in _ (Permutation_sym HP) Hin2)).
      rewrite !remove_one_notin by assumption. exact HP.
  Qed.

End AbsFacts.

Section Step.
  Variables K V : Type.
  Variable keqb : K -> K -> bool.
  Variable veqb : V -> V -> bool.
  Variable h : K -> N.
  Variable mincap : nat.
  Variable rv : om_revision.

  Hypothesis keqb_eq : forall a b, keqb a b = true <-> a = b.
  Hypothesis veqb_eq : forall a b, veqb a b = true <-> a = b.
  Hypothesis Hmin : 4 <= mincap.
  Hypothesis Hguard : fix_insert_wrap_guard rv = true.
  Hypothesis Hfin : fix_iter_finished rv = true.

  Notation slotT := (slot K V).
  Notation isv := (is_valid K V).
  Notation E := (@Empty K V).
  Notation D := (@Deleted K V).
  Notation ents := (entries K V).
  Notation hp := (hpos K h).
  Notation chainh := (chain K V h).
  Notation cap := (capacity K V).
  Notation omapT := (omap K V).
  Notation vals := (mm_values K V keqb).
  Notation rem1 := (mm_remove_one K V keqb veqb).
  Notation cvs := (cv K V).

  (* the multiset of stored pairs *)
  Definition abs (m : omapT) : mm K V := ents (slots m).

  (* the invariant of every reachable table *)
  Definition PInv (m : omapT) : Prop := Inv K V mincap m /\ chainh (cap m) (slots m).

  (* the shape PInv takes for a non-empty table *)
  Definition Good (m : omapT) : Prop :=
    cvs (slots m) = len m /\ mincap <= cap m /\ len m < cap m /\ chainh (cap m) (slots m).

  Lemma Good_PInv : forall m, Good m -> PInv m.
  Proof. intros m [H1 [H2 [H3 H4]]]. split; [split; [exact H1|right; lia]|exact H4]. Qed.

  Lemma PInv_empty : PInv empty_map.
  Proof. split; [apply Inv_empty|apply chain_nil]. Qed.

  Lemma cap0_abs : forall m : omapT, cap m = 0 -> abs m = [].
  Proof. intros m Hc. unfold abs, capacity in *. destruct (slots m); [reflexivity|discriminate]. Qed.

  Lemma PInv_len : forall m, PInv m -> len m = length (abs m).
  Proof. intros m [[Hcv _] _]. rewrite <- Hcv. apply cv_ents. Qed.

  (* ---------------- the rehashing helpers ---------------- *)

  Lemma rehash_good : forall (m : omapT) c,
    cvs (slots m) = len m -> len m < Nat.max c mincap -> chainh (cap m) (slots m) ->
    exists m', rehash K V h mincap m c = Done m' /\ cap m' = Nat.max c mincap /\ len m' = len m /\
               Good m' /\ Permutation (abs m') (abs m).
  Proof.
    intros m c Hcv Hlt Hch.
    destruct (rehash_full K V keqb veqb h mincap keqb_eq veqb_eq m c Hcv Hlt Hch)
      as [m' [Hr [Hc [Hl [Hcv' [Hch' [HP _]]]]]]].
    exists m'. repeat split; auto; lia.
  Qed.

  Lemma grow_good : forall m, PInv m ->
    exists m1, grow_if_full K V h mincap m = Done m1 /\ Good m1 /\ len m1 = len m /\ len m1 + 1 < cap m1 /\
               Permutation (abs m1) (abs m).
  Proof.
    intros m [[Hcv Hc] Hch]. unfold grow_if_full, max_len.
    pose proof (cv_le_length K V (slots m)) as Hle. fold (cap m) in Hle.
    destruct (Nat.leb_spec (cap m * 15 / 16) (len m)) as [Hfull|Hroom].
    - destruct (rehash_good m (cap m * 2) Hcv ltac:(lia) Hch) as [m' [Hr [Hc' [Hl [HG HP]]]]].
      exists m'. split; [exact Hr|]. split; [exact HG|]. split; [exact Hl|]. split; [lia|exact HP].
    - exists m. split; [reflexivity|].
      split; [unfold Good; split; [exact Hcv|split; [lia|split; [lia|exact Hch]]]|].
      split; [reflexivity|]. split; [lia|apply Permutation_refl].
  Qed.

  Lemma shrink_good : forall m, Good m ->
    exists m', shrink_if_sparse K V h mincap m = Done m' /\ Good m' /\ Permutation (abs m') (abs m).
  Proof.
    intros m [Hcv [Hmc [Hlt Hch]]]. unfold shrink_if_sparse, min_len.
    destruct (Nat.leb_spec (len m) (cap m * 7 / 16)) as [Hs|Hs].
    - destruct (rehash_good m (cap m / 2) Hcv ltac:(lia) Hch) as [m' [Hr [Hc' [Hl [HG HP]]]]].
      exists m'. auto.
    - exists m. split; [reflexivity|]. split; [repeat split; auto|apply Permutation_refl].
  Qed.

  Lemma reclaim_good : forall m, Good m ->
    exists m', reclaim K V h mincap rv m = Done m' /\ Good m' /\ Permutation (abs m') (abs m).
  Proof.
    intros m [Hcv [Hmc [Hlt Hch]]]. unfold reclaim. destruct (fix_rehash_in_place rv).
    - destruct (rehash_in_place_full K V keqb veqb h keqb_eq veqb_eq m Hcv Hlt)
        as [m' [Hr [Hc [Hl [Hcv' [Hch' [_ HP]]]]]]].
      exists m'. split; [exact Hr|]. split; [repeat split; auto; lia|exact HP].
    - destruct (rehash_good m (cap m) Hcv ltac:(lia) Hch) as [m' [Hr [Hc' [Hl [HG HP]]]]].
      exists m'. auto.
  Qed.

  Lemma reserve_good : forall m c, PInv m ->
    exists m', reserve K V h mincap m c = Done m' /\ PInv m' /\ Permutation (abs m') (abs m).
  Proof.
    intros m c HI. unfold reserve.
    destruct (Nat.ltb_spec (cap m) c) as [Hlt|Hge]; [|exists m; split; [reflexivity|split; [exact HI|apply Permutation_refl]]].
    destruct HI as [[Hcv Hc] Hch].
    pose proof (cv_le_length K V (slots m)) as Hle. fold (cap m) in Hle.
    destruct (rehash_good m c Hcv ltac:(lia) Hch) as [m' [Hr [Hc' [Hl [HG HP]]]]].
    exists m'. split; [exact Hr|]. split; [apply Good_PInv; exact HG|exact HP].
  Qed.

  (* ---------------- insert ---------------- *)

  Lemma do_insert_good : forall sl n p k v,
    cvs sl = n -> mincap <= length sl -> n + 1 < length sl -> chainh (length sl) sl ->
    p < length sl -> isv (nth p sl E) = false ->
    (forall j, j < length sl -> dist (length sl) (hp k (length sl)) j < dist (length sl) (hp k (length sl)) p ->
               nth j sl E <> E) ->
    Good (do_insert K V sl n p k v) /\ Permutation (abs (do_insert K V sl n p k v)) ((k, v) :: ents sl).
  Proof.
    intros sl n p k v Hcv Hmc Hroom Hch Hp Hnv Hbefore.
    pose proof (entries_upd_valid K V sl p k v Hp Hnv) as HP.
    unfold do_insert, Good, abs, capacity. cbn [slots len]. rewrite upd_length.
    split; [|exact HP]. split.
    - rewrite cv_ents, (Permutation_length HP). cbn [length]. rewrite <- cv_ents. lia.
    - split; [exact Hmc|]. split; [lia|]. apply chain_upd_valid; assumption.
  Qed.

  Theorem insert_spec : forall m k v, PInv m ->
    exists m', insert K V h mincap m k v = Done m' /\ PInv m' /\ Permutation (abs m') ((k, v) :: abs m).
  Proof.
    intros m k v HI. unfold insert, insert_fuel, probe_fuel.
    destruct (grow_good m HI) as [m1 [Hg [[Hcv [Hmc [Hlt Hch]]] [Hl [Hroom HP]]]]]. rewrite Hg.
    assert (Hex : cnt isv (slots m1) < length (slots m1)) by (fold (cvs (slots m1)); fold (cap m1); lia).
    destruct (cnt_lt_exists _ isv E (slots m1) Hex) as [q [Hq Hqf]].
    assert (Hc0 : 0 < cap m1) by lia.
    pose proof (hpos_lt K keqb h k (cap m1) Hc0) as Hs.
    destruct (free_index_loop_ok K V keqb veqb h (slots m1) (cap m1) q Hq Hqf (cap m1) (hp k (cap m1)) Hs)
      as [p [Hf [Hp Hpf]]].
    { apply dist_lt; [exact Hs|exact Hq]. }
    rewrite Hf.
    destruct (free_index_first K V keqb veqb h (slots m1) (cap m1) (hp k (cap m1)) Hs (cap m1) (hp k (cap m1)) p Hs) as [_ [_ Hbefore]]; auto.
    { rewrite rem_start. lia. }
    { intros j Hj Hd. rewrite dist_self in Hd. lia. }
    destruct (do_insert_good (slots m1) (len m1) p k v) as [HG HP2]; auto; try (unfold capacity in *; lia).
    { intros j Hj Hd. apply (isv_not_empty K V). apply Hbefore; assumption. }
    eexists. split; [reflexivity|]. split; [apply Good_PInv; exact HG|].
    eapply Permutation_trans; [exact HP2|]. apply perm_skip. exact HP.
  Qed.

  (* ---------------- insert_or_replace ---------------- *)

  Theorem insert_or_replace_spec : forall m k pred nv, PInv m ->
    exists m' r, insert_or_replace K V keqb h mincap rv m k pred nv = Done (m', r) /\ PInv m' /\
      match r with
      | Some w => In w (vals k (abs m)) /\ pred w = true /\
                  Permutation (abs m') ((k, nv) :: rem1 k w (abs m))
      | None => (forall w, In w (vals k (abs m)) -> pred w = false) /\
                Permutation (abs m') ((k, nv) :: abs m)
      end.
  Proof.
    intros m k pred nv HI. unfold insert_or_replace, insert_or_replace_fuel, probe_fuel.
    destruct (grow_good m HI) as [m1 [Hg [[Hcv [Hmc [Hlt Hch]]] [Hl [Hroom HP]]]]]. rewrite Hg.
    assert (Hc0 : 0 < cap m1) by lia.
    pose proof (hpos_lt K keqb h k (cap m1) Hc0) as Hs.
    destruct (ior_loop_spec K V keqb veqb h rv keqb_eq veqb_eq Hguard (cap m1) (slots m1) k pred nv Hc0 Hch
                (cap m1) (hp k (cap m1)) None Hs) as [r [Hr Hpost]].
    { rewrite rem_start. lia. }
    { intros j Hj Hd. rewrite dist_self in Hd. lia. }
    { intros j Hj Hd. rewrite dist_self in Hd. lia. }
    rewrite Hr. unfold ior_post in Hpost. unfold capacity in *.
    destruct (ior_ret K V r) as [w|] eqn:Hret.
    - (* replaced in place *)
      destruct Hpost as [p [Hp [Hv [Hpw [Hsl [Hfree Hfull]]]]]]. rewrite Hfree, Hfull, Hsl. cbn [andb].
      pose proof (entries_upd_replace K V (slots m1) p k w k nv Hp Hv) as HPr.
      pose proof (entries_nth_in K V (slots m1) p k w Hp Hv) as Hin.
      eexists. exists (Some w). split; [reflexivity|]. split; [|split; [|split; [exact Hpw|]]].
      + apply Good_PInv. unfold Good, capacity. cbn [slots len]. rewrite upd_length.
        split; [|split; [exact Hmc|split; [exact Hlt|]]].
        * apply Permutation_length in HPr. cbn [length] in HPr. rewrite <- !cv_ents in HPr. lia.
        * apply chain_upd_valid; [exact Hch|]. intros j Hj Hd. exact (Hch p k w Hp Hv j Hj Hd).
      + apply (in_vals K V keqb keqb_eq). exact (Permutation_in _ HP Hin).
      + unfold abs. cbn [slots].
        apply (Permutation_cons_inv (a := (k, w))).
        eapply Permutation_trans; [exact HPr|].
        eapply Permutation_trans; [|apply perm_swap]. apply perm_skip.
        eapply Permutation_trans; [apply (remove_one_in K V keqb veqb keqb_eq veqb_eq k w _ Hin)|].
        apply perm_skip. apply (remove_one_perm K V keqb veqb keqb_eq veqb_eq). exact HP.
    - (* inserted *)
      destruct Hpost as [Hsl [Hnorep Hfree]]. rewrite Hsl.
      assert (Hnone : forall w, In w (vals k (abs m)) -> pred w = false).
      { intros w Hw. apply (in_vals K V keqb keqb_eq) in Hw.
        pose proof (Permutation_in _ (Permutation_sym HP) Hw) as Hw1.
        destruct (entries_in_nth K V (slots m1) k w Hw1) as [p [Hp Hv]].
        pose proof (Hnorep p Hp) as Hrep. rewrite Hv in Hrep. cbn [rep] in Hrep.
        rewrite (keqb_refl K keqb keqb_eq) in Hrep. exact Hrep. }
      destruct (ior_free K V r) as [p|] eqn:Hfr.
      + destruct Hfree as [Hp [Hpv Hbefore]].
        destruct (do_insert_good (slots m1) (len m1) p k nv) as [HG HP2]; auto; try lia.
        assert (HP3 : Permutation (abs (do_insert K V (slots m1) (len m1) p k nv)) ((k, nv) :: abs m)).
        { eapply Permutation_trans; [exact HP2|]. apply perm_skip. exact HP. }
        destruct (ior_full_cycle K V r && fix_rehash_in_place rv).
        * destruct HG as [Hcv2 [Hmc2 [Hlt2 Hch2]]].
          destruct (rehash_in_place_full K V keqb veqb h keqb_eq veqb_eq _ Hcv2 Hlt2)
            as [m3 [Hr3 [Hc3 [Hl3 [Hcv3 [Hch3 [_ HP4]]]]]]].
          rewrite Hr3. exists m3, None. split; [reflexivity|]. split.
          -- apply Good_PInv. repeat split; auto; lia.
          -- split; [exact Hnone|]. eapply Permutation_trans; [exact HP4|exact HP3].
        * eexists. exists None. split; [reflexivity|]. split; [apply Good_PInv; exact HG|]. split; [exact Hnone|exact HP3].
      + exfalso. pose proof (cnt_all_prefix _ isv E (length (slots m1)) (slots m1) (le_n _) Hfree) as Hall.
        unfold cv in Hcv. lia.
  Qed.

  (* ---------------- remove_key ---------------- *)

  Theorem remove_key_spec : forall m k, PInv m ->
    exists m', remove_key K V keqb h mincap rv m k = Done m' /\ PInv m' /\
               Permutation (abs m') (mm_remove_key K V keqb k (abs m)).
  Proof.
    intros m k HI. unfold remove_key, remove_key_fuel, probe_fuel.
    destruct (Nat.eqb_spec (cap m) 0) as [Hz|Hnz].
    { exists m. split; [reflexivity|]. split; [exact HI|]. rewrite (cap0_abs m Hz). apply Permutation_refl. }
    destruct HI as [[Hcv [Hc|[Hmc Hlt]]] Hch]; [lia|].
    assert (Hc0 : 0 < cap m) by lia.
    pose proof (hpos_lt K keqb h k (cap m) Hc0) as Hs.
    destruct (remove_key_loop_ok K V keqb veqb h (cap m) (hp k (cap m)) k Hs (cap m) (slots m)
                (hp k (cap m)) (len m)) as [sl [n [full [Hr [Hlen [Hcvn Hn]]]]]]; auto.
    { rewrite rem_start. lia. }
    destruct (remove_key_loop_spec K V keqb veqb h keqb_eq veqb_eq (cap m) k Hc0 (cap m) (slots m) (hp k (cap m)) (len m))
      as [n2 [full2 Hr2]]; auto.
    { rewrite rem_start. lia. }
    { intros j Hj Hd. rewrite dist_self in Hd. lia. }
    rewrite Hr in Hr2. inversion Hr2; subst sl n2 full2. clear Hr2. rewrite Hr.
    assert (Habs : ents (del_key K V keqb k (slots m)) = mm_remove_key K V keqb k (abs m))
      by apply entries_del_key.
    assert (Hch1 : chainh (cap m) (del_key K V keqb k (slots m))) by (apply chain_del_key; exact Hch).
    destruct (Nat.eqb_spec n (len m)) as [Heq|Hne].
    - assert (HG1 : Good {| slots := del_key K V keqb k (slots m); len := len m |}).
      { unfold Good, capacity in *. cbn [slots len]. rewrite Hlen. repeat split; auto; lia. }
      destruct full; cbn [andb].
      + destruct (reclaim_good _ HG1) as [m2 [Hr2 [HG2 HP2]]]. rewrite Hr2.
        exists m2. split; [reflexivity|]. split; [apply Good_PInv; exact HG2|].
        unfold abs at 2 in HP2. cbn [slots] in HP2. rewrite Habs in HP2. exact HP2.
      + eexists. split; [reflexivity|]. split; [apply Good_PInv; exact HG1|].
        unfold abs at 1. cbn [slots]. rewrite Habs. apply Permutation_refl.
    - rewrite andb_false_r. cbn [slots].
      destruct (shrink_good {| slots := del_key K V keqb k (slots m); len := n |}) as [m' [Hr' [HG' HP']]].
      { unfold Good, capacity in *. cbn [slots len]. rewrite Hlen. repeat split; auto; lia. }
      exists m'. split; [exact Hr'|]. split; [apply Good_PInv; exact HG'|].
      unfold abs at 2 in HP'. cbn [slots] in HP'. rewrite Habs in HP'. exact HP'.
  Qed.

  (* ---------------- remove_value ---------------- *)

  Theorem remove_value_spec : forall m k v, PInv m ->
    exists m', remove_value K V keqb veqb h mincap rv m k v = Done m' /\ PInv m' /\
               Permutation (abs m') (rem1 k v (abs m)).
  Proof.
    intros m k v HI. unfold remove_value, remove_value_fuel, probe_fuel.
    destruct (Nat.eqb_spec (cap m) 0) as [Hz|Hnz].
    { exists m. split; [reflexivity|]. split; [exact HI|]. rewrite (cap0_abs m Hz). apply Permutation_refl. }
    pose proof HI as [[Hcv [Hc|[Hmc Hlt]]] Hch]; [lia|].
    assert (Hc0 : 0 < cap m) by lia.
    pose proof (hpos_lt K keqb h k (cap m) Hc0) as Hs.
    destruct (remove_value_loop_spec K V keqb veqb h keqb_eq veqb_eq (cap m) (slots m) k v Hc0 Hch
                (cap m) (hp k (cap m)) Hs) as [[o b] [Hr Hpost]].
    { rewrite rem_start. lia. }
    { intros j Hj Hd. rewrite dist_self in Hd. lia. }
    rewrite Hr. cbn [fst] in Hpost. destruct o as [p|].
    - destruct Hpost as [Hp Hv]. unfold remove_index. unfold capacity in Hp.
      pose proof (entries_upd_deleted K V (slots m) p k v Hp Hv) as HPd.
      pose proof (entries_nth_in K V (slots m) p k v Hp Hv) as Hin.
      destruct (shrink_good {| slots := upd p D (slots m); len := len m - 1 |}) as [m' [Hr' [HG' HP']]].
      { unfold Good, capacity in *. cbn [slots len]. rewrite upd_length.
        apply Permutation_length in HPd. cbn [length] in HPd. rewrite <- !cv_ents in HPd.
        repeat split; auto; try lia. apply chain_upd_deleted; exact Hch. }
      exists m'. split; [exact Hr'|]. split; [apply Good_PInv; exact HG'|].
      eapply Permutation_trans; [exact HP'|]. unfold abs. cbn [slots].
      apply (Permutation_cons_inv (a := (k, v))).
      eapply Permutation_trans; [exact HPd|]. apply (remove_one_in K V keqb veqb keqb_eq veqb_eq). exact Hin.
    - assert (Hnin : ~ In (k, v) (abs m)).
      { intros Hin. destruct (entries_in_nth K V (slots m) k v Hin) as [p [Hp Hv]].
        pose proof (Hpost p Hp) as Hm. rewrite Hv in Hm. cbn [mkv] in Hm.
        rewrite (keqb_refl K keqb keqb_eq), (veqb_refl V veqb veqb_eq) in Hm. discriminate. }
      rewrite (remove_one_notin K V keqb veqb keqb_eq veqb_eq k v _ Hnin).
      destruct b.
      + destruct (reclaim_good m) as [m' [Hr' [HG' HP']]]; [repeat split; auto|].
        exists m'. split; [exact Hr'|]. split; [apply Good_PInv; exact HG'|exact HP'].
      + exists m. split; [reflexivity|]. split; [exact HI|apply Permutation_refl].
  Qed.

  (* ---------------- lookups ---------------- *)

  Theorem lookup_spec : forall m k, PInv m ->
    exists l, values K V keqb h rv m k = Done l /\ value K V keqb h m k = Done (hd_error l) /\
              Permutation l (vals k (abs m)).
  Proof.
    intros m k [_ Hch].
    destruct (values_spec K V keqb veqb h rv keqb_eq Hfin m k Hch) as [H1 [H2 H3]].
    eexists. split; [exact H1|]. split; [exact H2|exact H3].
  Qed.

End Step.
