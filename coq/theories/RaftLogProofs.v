(* RaftLogProofs.v — the third log-replication defect class `commit-without-quorum` (RaftLog.v):
   witnesses (vm_compute) that C28c and C29 fail in histories in which NONE of the five classes of
   RaftProofs.classes occurs, hence that "no ack-from-diverged-log, no old-term-commit" does not imply them. *)
From Coq Require Import NArith List Bool Lia.
From Agdb Require Import Raft RaftWitness RaftProofs RaftLog.
Import ListNotations.
Open Scope N_scope.

(* corpus/C29/commit_noquorum.txt and corpus/C28/commit_noquorum.txt, 5 nodes: one leader per term, none of the five
   classes, the new marker set; same facts for every revision of the election code *)
Lemma w_noquorum_facts : forall rv,
  (let h := c_hist (run rv w29_commit_noquorum_n w29_commit_noquorum) in
   leader_completeness_b h = false /\ election_safety_b h = true /\
   classes h = (false, false, false, false, false) /\
   commit_noquorum_b rv w29_commit_noquorum_n w29_commit_noquorum = true) /\
  (let c := run rv w28_commit_noquorum_n w28_commit_noquorum in
   committed_agree_b c = false /\ election_safety_b (c_hist c) = true /\
   classes (c_hist c) = (false, false, false, false, false) /\
   commit_noquorum_b rv w28_commit_noquorum_n w28_commit_noquorum = true).
Proof. intros [[|] [|]]; vm_compute; repeat split; reflexivity. Qed.

Lemma C29_refuted_commit_noquorum : forall rv,
  exists size evs, let h := c_hist (run rv size evs) in
    size <> 1 /\ election_safety h /\ classes h = (false, false, false, false, false) /\
    commit_noquorum_b rv size evs = true /\ ~ leader_completeness h.
Proof.
  intros rv. exists w29_commit_noquorum_n, w29_commit_noquorum.
  destruct (w_noquorum_facts rv) as [[F [E [C Q]]] _]. cbv zeta in *.
  repeat split; auto.
  - discriminate.
  - apply election_safety_b_complete; exact E.
  - intros H. apply leader_completeness_b_sound in H. congruence.
Qed.

Lemma C28c_refuted_commit_noquorum : forall rv,
  exists size evs, let c := run rv size evs in
    size <> 1 /\ election_safety (c_hist c) /\ classes (c_hist c) = (false, false, false, false, false) /\
    commit_noquorum_b rv size evs = true /\ ~ committed_agree c.
Proof.
  intros rv. exists w28_commit_noquorum_n, w28_commit_noquorum.
  destruct (w_noquorum_facts rv) as [_ [F [E [C Q]]]]. cbv zeta in *.
  repeat split; auto.
  - discriminate.
  - apply election_safety_b_complete; exact E.
  - intros H. apply committed_agree_b_sound in H. congruence.
Qed.

(* the conjecture "the two known log-replication classes are the only ways to break C28c / C29" is false *)
Lemma two_classes_not_enough_C29 : forall rv,
  ~ (forall size evs, size <> 1 ->
       ack_diverged_b (c_hist (run rv size evs)) = false -> old_term_commit_b (c_hist (run rv size evs)) = false ->
       leader_completeness (c_hist (run rv size evs))).
Proof.
  intros rv H. destruct (C29_refuted_commit_noquorum rv) as (size & evs & Hs & _ & C & _ & N). cbv zeta in *.
  apply N. apply H; auto; unfold classes in C; congruence.
Qed.

Lemma two_classes_not_enough_C28c : forall rv,
  ~ (forall size evs, size <> 1 ->
       ack_diverged_b (c_hist (run rv size evs)) = false -> old_term_commit_b (c_hist (run rv size evs)) = false ->
       committed_agree (run rv size evs)).
Proof.
  intros rv H. destruct (C28c_refuted_commit_noquorum rv) as (size & evs & Hs & _ & C & _ & N). cbv zeta in *.
  apply N. apply H; auto; unfold classes in C; congruence.
Qed.
