(* RaftLogProofs.v — the third log-replication defect class `commit-without-quorum` (RaftLog.v):
   witnesses (vm_compute) that C28c and C29 fail in histories in which NONE of the five classes of
   RaftProofs.classes occurs, hence that "no ack-from-diverged-log, no old-term-commit" does not imply them.

   The class is the one removed by the acknowledgement repair (Raft.v: fix_ack_term; fixes/C28-count-only-current-term-acks.diff).
   The witnesses are therefore stated for the revisions WITHOUT that repair — `rr_before_ack_fix` (both election repairs,
   = /repo before the patch) and, more generally, every revision with `fix_ack_term rv = false` —, and the SAME event
   lists are shown harmless under `rr_fixed` (`commit_noquorum_witnesses_harmless_fixed`). *)
From Coq Require Import NArith List Bool Lia.
From Agdb Require Import Raft RaftWitness RaftProofs RaftLog.
Import ListNotations.
Open Scope N_scope.

(* corpus/C29/commit_noquorum.txt and corpus/C28/commit_noquorum.txt, 5 nodes: one leader per term, none of the five
   classes, the new marker set; same facts for every revision of the election code, as long as the leader still
   counts rows that are not acknowledgements of its current term *)
Lemma w_noquorum_facts : forall rv, fix_ack_term rv = false ->
  (let h := c_hist (run rv w29_commit_noquorum_n w29_commit_noquorum) in
   leader_completeness_b h = false /\ election_safety_b h = true /\
   classes h = (false, false, false, false, false) /\
   commit_noquorum_b rv w29_commit_noquorum_n w29_commit_noquorum = true) /\
  (let c := run rv w28_commit_noquorum_n w28_commit_noquorum in
   committed_agree_b c = false /\ election_safety_b (c_hist c) = true /\
   classes (c_hist c) = (false, false, false, false, false) /\
   commit_noquorum_b rv w28_commit_noquorum_n w28_commit_noquorum = true).
Proof. intros [[|] [|] [|]] F; try discriminate F; vm_compute; repeat split; reflexivity. Qed.

(* the same two event lists under the repaired revision: the stale row is cleared at the election, nothing is
   committed without a quorum, all nodes agree on what they committed, every leader holds every entry committed by
   an earlier leader (also in the literal reading), one leader per term, no marker of any class *)
Lemma w_noquorum_facts_fixed :
  (let c := run rr_fixed w29_commit_noquorum_n w29_commit_noquorum in
   leader_completeness_b (c_hist c) = true /\ leader_completeness_up_b (c_hist c) = true /\
   committed_agree_b c = true /\ election_safety_b (c_hist c) = true /\
   classes (c_hist c) = (false, false, false, false, false) /\
   commit_noquorum_b rr_fixed w29_commit_noquorum_n w29_commit_noquorum = false) /\
  (let c := run rr_fixed w28_commit_noquorum_n w28_commit_noquorum in
   leader_completeness_b (c_hist c) = true /\ leader_completeness_up_b (c_hist c) = true /\
   committed_agree_b c = true /\ election_safety_b (c_hist c) = true /\
   classes (c_hist c) = (false, false, false, false, false) /\
   commit_noquorum_b rr_fixed w28_commit_noquorum_n w28_commit_noquorum = false).
Proof. vm_compute. repeat split; reflexivity. Qed.

Lemma C29_refuted_commit_noquorum : forall rv, fix_ack_term rv = false ->
  exists size evs, let h := c_hist (run rv size evs) in
    size <> 1 /\ election_safety h /\ classes h = (false, false, false, false, false) /\
    commit_noquorum_b rv size evs = true /\ ~ leader_completeness h.
Proof.
  intros rv Fa. exists w29_commit_noquorum_n, w29_commit_noquorum.
  destruct (w_noquorum_facts rv Fa) as [[F [E [C Q]]] _]. cbv zeta in *.
  repeat split; auto.
  - discriminate.
  - apply election_safety_b_complete; exact E.
  - intros H. apply leader_completeness_b_sound in H. congruence.
Qed.

Lemma C28c_refuted_commit_noquorum : forall rv, fix_ack_term rv = false ->
  exists size evs, let c := run rv size evs in
    size <> 1 /\ election_safety (c_hist c) /\ classes (c_hist c) = (false, false, false, false, false) /\
    commit_noquorum_b rv size evs = true /\ ~ committed_agree c.
Proof.
  intros rv Fa. exists w28_commit_noquorum_n, w28_commit_noquorum.
  destruct (w_noquorum_facts rv Fa) as [_ [F [E [C Q]]]]. cbv zeta in *.
  repeat split; auto.
  - discriminate.
  - apply election_safety_b_complete; exact E.
  - intros H. apply committed_agree_b_sound in H. congruence.
Qed.

(* the conjecture "the two known log-replication classes are the only ways to break C28c / C29" is false
   before the acknowledgement repair *)
Lemma two_classes_not_enough_C29 : forall rv, fix_ack_term rv = false ->
  ~ (forall size evs, size <> 1 ->
       ack_diverged_b (c_hist (run rv size evs)) = false -> old_term_commit_b (c_hist (run rv size evs)) = false ->
       leader_completeness (c_hist (run rv size evs))).
Proof.
  intros rv Fa H. destruct (C29_refuted_commit_noquorum rv Fa) as (size & evs & Hs & _ & C & _ & N). cbv zeta in *.
  apply N. apply H; auto; unfold classes in C; congruence.
Qed.

Lemma two_classes_not_enough_C28c : forall rv, fix_ack_term rv = false ->
  ~ (forall size evs, size <> 1 ->
       ack_diverged_b (c_hist (run rv size evs)) = false -> old_term_commit_b (c_hist (run rv size evs)) = false ->
       committed_agree (run rv size evs)).
Proof.
  intros rv Fa H. destruct (C28c_refuted_commit_noquorum rv Fa) as (size & evs & Hs & _ & C & _ & N). cbv zeta in *.
  apply N. apply H; auto; unfold classes in C; congruence.
Qed.

(* ------------------------------------------------------------------ the statements for today's /repo and for the repair *)

Lemma C29_refuted_commit_noquorum_before_ack_fix :
  exists size evs, let h := c_hist (run rr_before_ack_fix size evs) in
    size <> 1 /\ election_safety h /\ classes h = (false, false, false, false, false) /\
    commit_noquorum_b rr_before_ack_fix size evs = true /\ ~ leader_completeness h.
Proof. apply C29_refuted_commit_noquorum. reflexivity. Qed.

Lemma C28c_refuted_commit_noquorum_before_ack_fix :
  exists size evs, let c := run rr_before_ack_fix size evs in
    size <> 1 /\ election_safety (c_hist c) /\ classes (c_hist c) = (false, false, false, false, false) /\
    commit_noquorum_b rr_before_ack_fix size evs = true /\ ~ committed_agree c.
Proof. apply C28c_refuted_commit_noquorum. reflexivity. Qed.

(* the SAME event lists are harmless under rr_fixed *)
Lemma commit_noquorum_witnesses_harmless_fixed :
  (let c := run rr_fixed w28_commit_noquorum_n w28_commit_noquorum in
   committed_agree c /\ leader_completeness (c_hist c) /\ election_safety (c_hist c) /\
   commit_noquorum_b rr_fixed w28_commit_noquorum_n w28_commit_noquorum = false) /\
  (let c := run rr_fixed w29_commit_noquorum_n w29_commit_noquorum in
   committed_agree c /\ leader_completeness (c_hist c) /\ election_safety (c_hist c) /\
   commit_noquorum_b rr_fixed w29_commit_noquorum_n w29_commit_noquorum = false).
Proof.
  destruct w_noquorum_facts_fixed as [(L9 & _ & A9 & E9 & _ & Q9) (L8 & _ & A8 & E8 & _ & Q8)]. cbv zeta in *.
  split; (split; [|split; [|split]]); auto.
  - apply committed_agree_b_complete; exact A8.
  - apply leader_completeness_b_complete; exact L8.
  - apply election_safety_b_complete; exact E8.
  - apply committed_agree_b_complete; exact A9.
  - apply leader_completeness_b_complete; exact L9.
  - apply election_safety_b_complete; exact E9.
Qed.
