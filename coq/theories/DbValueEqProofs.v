(* DbValueEqProofs.v — `dbv_eqb` (DbValue's derived Eq, through the derived Ord) is an equivalence
   relation, and it is Leibniz equality on values whose f64 payloads are 64-bit patterns. *)
From Agdb Require Import Bytes BytesProofs DbValue.
From Coq Require Import ZifyBool ZifyNat ZifyN.
Open Scope N_scope.

(* ---------- comparisons whose `Eq` outcome is an equivalence ---------- *)
Section LexCmp.
  Context {A : Type} (cmp : A -> A -> comparison).

  Lemma cmp_then_eq c d : cmp_then c d = Eq <-> c = Eq /\ d = Eq.
  Proof. destruct c; cbn; intuition congruence. Qed.

  Lemma lex_cmp_refl : (forall x, cmp x x = Eq) -> forall l, lex_cmp cmp l l = Eq.
  Proof.
    intros Hr l. induction l as [|x l IH]; cbn [lex_cmp]; [reflexivity|].
    apply cmp_then_eq. split; [apply Hr|exact IH].
  Qed.

  Lemma lex_cmp_sym :
    (forall x y, cmp x y = Eq -> cmp y x = Eq) ->
    forall a b, lex_cmp cmp a b = Eq -> lex_cmp cmp b a = Eq.
  Proof.
    intros Hs a. induction a as [|x a IH]; intros [|y b]; cbn [lex_cmp]; try discriminate; [reflexivity|].
    rewrite !cmp_then_eq. intros [H1 H2]. split; [now apply Hs|now apply IH].
  Qed.

  Lemma lex_cmp_trans :
    (forall x y z, cmp x y = Eq -> cmp y z = Eq -> cmp x z = Eq) ->
    forall a b c, lex_cmp cmp a b = Eq -> lex_cmp cmp b c = Eq -> lex_cmp cmp a c = Eq.
  Proof.
    intros Ht a. induction a as [|x a IH]; intros [|y b] [|z c]; cbn [lex_cmp]; try discriminate; [reflexivity|].
    rewrite !cmp_then_eq. intros [H1 H2] [H3 H4]. split; [now apply (Ht x y z)|now apply (IH b c)].
  Qed.

  Lemma lex_cmp_eq (P : A -> Prop) :
    (forall x y, P x -> P y -> cmp x y = Eq -> x = y) ->
    forall a b, Forall P a -> Forall P b -> lex_cmp cmp a b = Eq -> a = b.
  Proof.
    intros He a. induction a as [|x a IH]; intros [|y b] Ha Hb; cbn [lex_cmp]; try discriminate; [reflexivity|].
    rewrite cmp_then_eq. intros [H1 H2].
    inversion Ha; inversion Hb; subst. f_equal; [now apply He|now apply IH].
  Qed.
End LexCmp.

Lemma Forall_True {A} (l : list A) : Forall (fun _ => True) l.
Proof. induction l; constructor; trivial. Qed.

(* ---------- the base comparisons ---------- *)
Lemma zcmp_eq x y : Z.compare x y = Eq <-> x = y.
Proof. apply Z.compare_eq_iff. Qed.

Lemma ncmp_eq x y : N.compare x y = Eq <-> x = y.
Proof. apply N.compare_eq_iff. Qed.

Lemma b2n_inj a b : b2n a = b2n b -> a = b.
Proof. intros H. rewrite <- (n2b_b2n a), <- (n2b_b2n b). now rewrite H. Qed.

Lemma byte_cmp_eq a b : byte_cmp a b = Eq <-> a = b.
Proof.
  unfold byte_cmp. rewrite ncmp_eq. split; [apply b2n_inj|now intros ->].
Qed.

Lemma bytes_cmp_eq a b : bytes_cmp a b = Eq <-> a = b.
Proof.
  split.
  - apply (lex_cmp_eq byte_cmp (fun _ => True)); try apply Forall_True.
    intros x y _ _. apply byte_cmp_eq.
  - intros ->. apply lex_cmp_refl. intros x. now apply byte_cmp_eq.
Qed.

Lemma f64_cmp_eq_key a b : f64_cmp a b = Eq <-> f64_key a = f64_key b.
Proof. unfold f64_cmp. apply zcmp_eq. Qed.

Lemma f64_key_inj a b : a < two64 -> b < two64 -> f64_key a = f64_key b -> a = b.
Proof. unfold f64_key, two64, two63. intros Ha Hb. destruct (N.ltb_spec a 9223372036854775808), (N.ltb_spec b 9223372036854775808); lia. Qed.

(* ---------- dbv_eqb is an equivalence ---------- *)
Lemma f64_cmp_refl a : f64_cmp a a = Eq.
Proof. now apply f64_cmp_eq_key. Qed.
Lemma f64_cmp_sym a b : f64_cmp a b = Eq -> f64_cmp b a = Eq.
Proof. rewrite !f64_cmp_eq_key. congruence. Qed.
Lemma f64_cmp_trans a b c : f64_cmp a b = Eq -> f64_cmp b c = Eq -> f64_cmp a c = Eq.
Proof. rewrite !f64_cmp_eq_key. congruence. Qed.

Lemma zcmp_refl a : Z.compare a a = Eq. Proof. now apply zcmp_eq. Qed.
Lemma zcmp_sym a b : Z.compare a b = Eq -> Z.compare b a = Eq. Proof. rewrite !zcmp_eq. congruence. Qed.
Lemma zcmp_trans a b c : Z.compare a b = Eq -> Z.compare b c = Eq -> Z.compare a c = Eq.
Proof. rewrite !zcmp_eq. congruence. Qed.
Lemma ncmp_refl a : N.compare a a = Eq. Proof. now apply ncmp_eq. Qed.
Lemma ncmp_sym a b : N.compare a b = Eq -> N.compare b a = Eq. Proof. rewrite !ncmp_eq. congruence. Qed.
Lemma ncmp_trans a b c : N.compare a b = Eq -> N.compare b c = Eq -> N.compare a c = Eq.
Proof. rewrite !ncmp_eq. congruence. Qed.
Lemma bscmp_refl a : bytes_cmp a a = Eq. Proof. now apply bytes_cmp_eq. Qed.
Lemma bscmp_sym a b : bytes_cmp a b = Eq -> bytes_cmp b a = Eq. Proof. rewrite !bytes_cmp_eq. congruence. Qed.
Lemma bscmp_trans a b c : bytes_cmp a b = Eq -> bytes_cmp b c = Eq -> bytes_cmp a c = Eq.
Proof. rewrite !bytes_cmp_eq. congruence. Qed.

Lemma is_eq_true c : is_eq c = true <-> c = Eq.
Proof. destruct c; cbn; split; congruence. Qed.

Lemma dbv_cmp_refl a : dbv_cmp a a = Eq.
Proof.
  destruct a; cbn [dbv_cmp].
  - apply bscmp_refl.
  - apply zcmp_refl.
  - apply ncmp_refl.
  - apply f64_cmp_refl.
  - apply bscmp_refl.
  - apply lex_cmp_refl, zcmp_refl.
  - apply lex_cmp_refl, ncmp_refl.
  - apply lex_cmp_refl, f64_cmp_refl.
  - apply lex_cmp_refl, bscmp_refl.
Qed.

Lemma dbv_cmp_sym a b : dbv_cmp a b = Eq -> dbv_cmp b a = Eq.
Proof.
  destruct a, b; cbn [dbv_cmp kind]; try (cbn; discriminate).
  - apply bscmp_sym.
  - apply zcmp_sym.
  - apply ncmp_sym.
  - apply f64_cmp_sym.
  - apply bscmp_sym.
  - apply lex_cmp_sym, zcmp_sym.
  - apply lex_cmp_sym, ncmp_sym.
  - apply lex_cmp_sym, f64_cmp_sym.
  - apply lex_cmp_sym, bscmp_sym.
Qed.

Lemma dbv_cmp_eq_kind a b : dbv_cmp a b = Eq -> kind a = kind b.
Proof. destruct a, b; cbn [dbv_cmp kind]; try reflexivity; cbn; discriminate. Qed.

Lemma dbv_cmp_trans a b c : dbv_cmp a b = Eq -> dbv_cmp b c = Eq -> dbv_cmp a c = Eq.
Proof.
  intros H1 H2. pose proof (dbv_cmp_eq_kind a b H1) as K1. pose proof (dbv_cmp_eq_kind b c H2) as K2.
  destruct a, b; cbn [kind] in K1; try discriminate K1; destruct c; cbn [kind] in K2; try discriminate K2;
    cbn [dbv_cmp] in *.
  - now apply (bscmp_trans bs bs0).
  - now apply (zcmp_trans z z0).
  - now apply (ncmp_trans n n0).
  - now apply (f64_cmp_trans bits bits0).
  - now apply (bscmp_trans bs bs0).
  - now apply (lex_cmp_trans Z.compare zcmp_trans l l0).
  - now apply (lex_cmp_trans N.compare ncmp_trans l l0).
  - now apply (lex_cmp_trans f64_cmp f64_cmp_trans l l0).
  - now apply (lex_cmp_trans bytes_cmp bscmp_trans l l0).
Qed.

Lemma dbv_eqb_refl a : dbv_eqb a a = true.
Proof. unfold dbv_eqb. now rewrite dbv_cmp_refl. Qed.

Lemma dbv_eqb_sym a b : dbv_eqb a b = dbv_eqb b a.
Proof.
  unfold dbv_eqb. destruct (dbv_cmp a b) eqn:E1; destruct (dbv_cmp b a) eqn:E2; try reflexivity.
  - apply dbv_cmp_sym in E1. congruence.
  - apply dbv_cmp_sym in E1. congruence.
  - apply dbv_cmp_sym in E2. congruence.
  - apply dbv_cmp_sym in E2. congruence.
Qed.

Lemma dbv_eqb_trans a b c : dbv_eqb a b = true -> dbv_eqb b c = true -> dbv_eqb a c = true.
Proof. unfold dbv_eqb. rewrite !is_eq_true. apply dbv_cmp_trans. Qed.

(* eqb-equal values are interchangeable on either side *)
Lemma dbv_eqb_congr_l a b c : dbv_eqb a b = true -> dbv_eqb a c = dbv_eqb b c.
Proof.
  intros H. destruct (dbv_eqb b c) eqn:E.
  - now apply (dbv_eqb_trans a b c).
  - destruct (dbv_eqb a c) eqn:E2; [|reflexivity].
    rewrite dbv_eqb_sym in H. rewrite <- E. symmetry. now apply (dbv_eqb_trans b a c).
Qed.

Lemma dbv_eqb_congr_r a b c : dbv_eqb a b = true -> dbv_eqb c a = dbv_eqb c b.
Proof. intros H. rewrite (dbv_eqb_sym c a), (dbv_eqb_sym c b). now apply dbv_eqb_congr_l. Qed.

(* ---------- Leibniz equality on canonical values ---------- *)
Definition f64_canon (b : N) : Prop := b < two64.
Definition dbv_canon (v : dbvalue) : Prop :=
  match v with
  | DF64 b => f64_canon b
  | DVecF64 l => Forall f64_canon l
  | _ => True
  end.

Lemma dbv_eqb_eq a b : dbv_canon a -> dbv_canon b -> (dbv_eqb a b = true <-> a = b).
Proof.
  intros Ca Cb. split; [|intros ->; apply dbv_eqb_refl].
  unfold dbv_eqb. rewrite is_eq_true. intros H. pose proof (dbv_cmp_eq_kind a b H) as K.
  destruct a, b; cbn [kind] in K; try discriminate K; cbn [dbv_cmp dbv_canon] in *; f_equal.
  - now apply bytes_cmp_eq.
  - now apply zcmp_eq.
  - now apply ncmp_eq.
  - apply f64_key_inj; try assumption. now apply f64_cmp_eq_key.
  - now apply bytes_cmp_eq.
  - apply (lex_cmp_eq Z.compare (fun _ => True)); try apply Forall_True; [|exact H].
    intros x y _ _. apply zcmp_eq.
  - apply (lex_cmp_eq N.compare (fun _ => True)); try apply Forall_True; [|exact H].
    intros x y _ _. apply ncmp_eq.
  - apply (lex_cmp_eq f64_cmp f64_canon); try assumption.
    intros x y Hx Hy Hc. apply f64_key_inj; try assumption. now apply f64_cmp_eq_key.
  - apply (lex_cmp_eq bytes_cmp (fun _ => True)); try apply Forall_True; [|exact H].
    intros x y _ _. apply bytes_cmp_eq.
Qed.
