(* GraphArr.v — basic lemmas for the slot arrays of Graph.v: get/set characterisation,
   linked chains threaded through an array, find_prev / edge_list on chains, list helpers.
   Lemmas only (no model definitions are changed). *)
From Agdb Require Import Bytes Graph.
From Coq Require Import ZifyBool ZifyNat ZifyN.
Ltac Zify.zify_post_hook ::= Z.div_mod_to_equations.
Open Scope Z_scope.

(* ---------- get / set ---------- *)

Lemma zabs_nat_neg i : zabs_nat (- i) = zabs_nat i.
Proof. unfold zabs_nat. rewrite Z.abs_opp. reflexivity. Qed.

Lemma zabs_nat_abs i : zabs_nat (Z.abs i) = zabs_nat i.
Proof. unfold zabs_nat. rewrite Z.abs_involutive. reflexivity. Qed.

Lemma get_neg l i : get l (- i) = get l i.
Proof. unfold get. rewrite zabs_nat_neg. reflexivity. Qed.

Lemma get_abs l i : get l (Z.abs i) = get l i.
Proof. unfold get. rewrite zabs_nat_abs. reflexivity. Qed.

Lemma length_set_nth l n v : length (set_nth l n v) = length l.
Proof. revert n; induction l as [|x r IH]; intros [|n]; cbn [set_nth length]; auto. Qed.

Lemma length_set l i v : length (set l i v) = length l.
Proof. apply length_set_nth. Qed.

Lemma nth_set_nth l n v m :
  nth m (set_nth l n v) 0 = if Nat.eqb n m && Nat.ltb n (length l) then v else nth m l 0.
Proof.
  revert n m; induction l as [|x r IH]; intros n m.
  - cbn [set_nth length]. destruct n; cbn; rewrite ?Bool.andb_false_r; reflexivity.
  - destruct n as [|n], m as [|m]; cbn [set_nth nth length Nat.eqb]; try reflexivity.
    + rewrite IH. change (S n <? S (length r))%nat with (n <? length r)%nat. reflexivity.
Qed.

Lemma get_set l i v j :
  get (set l i v) j =
  if (Z.abs i =? Z.abs j) && (Z.abs i <? Z.of_nat (length l)) then v else get l j.
Proof.
  unfold get, set. rewrite nth_set_nth. unfold zabs_nat.
  destruct (Nat.eqb_spec (Z.to_nat (Z.abs i)) (Z.to_nat (Z.abs j)));
  destruct (Nat.ltb_spec (Z.to_nat (Z.abs i)) (length l));
  destruct (Z.eqb_spec (Z.abs i) (Z.abs j));
  destruct (Z.ltb_spec (Z.abs i) (Z.of_nat (length l))); cbn [andb]; try reflexivity; lia.
Qed.

Lemma get_set_same l i v j :
  Z.abs i = Z.abs j -> Z.abs i < Z.of_nat (length l) -> get (set l i v) j = v.
Proof.
  intros H1 H2. rewrite get_set.
  destruct (Z.eqb_spec (Z.abs i) (Z.abs j)); destruct (Z.ltb_spec (Z.abs i) (Z.of_nat (length l)));
  cbn [andb]; try reflexivity; lia.
Qed.

Lemma get_set_other l i v j : Z.abs i <> Z.abs j -> get (set l i v) j = get l j.
Proof.
  intros H1. rewrite get_set. destruct (Z.eqb_spec (Z.abs i) (Z.abs j)); cbn [andb]; try reflexivity; lia.
Qed.

(* appending a 0 does not change any read (the default of `get` is 0) *)
Lemma get_app0 l j : get (l ++ [0]) j = get l j.
Proof.
  unfold get. destruct (Nat.ltb_spec (zabs_nat j) (length l)).
  - apply app_nth1; assumption.
  - rewrite (nth_overflow l) by lia.
    destruct (Nat.eqb_spec (zabs_nat j) (length l)) as [E|E].
    + rewrite app_nth2 by lia. rewrite E, Nat.sub_diag. reflexivity.
    + apply nth_overflow. rewrite app_length. cbn [length]. lia.
Qed.

Lemma get_overflow l j : Z.of_nat (length l) <= Z.abs j -> get l j = 0.
Proof. intros H. unfold get. apply nth_overflow. unfold zabs_nat. lia. Qed.

(* ---------- list helpers ---------- *)

Definition zrem (s : Z) (l : list Z) : list Z := filter (fun y => negb (y =? s)) l.

Lemma zrem_notin s l : ~ In s l -> zrem s l = l.
Proof.
  induction l as [|x r IH]; intros H; cbn [zrem filter]; [reflexivity|].
  destruct (Z.eqb_spec x s) as [->|]; cbn [negb].
  - exfalso; apply H; left; reflexivity.
  - f_equal. apply IH. intros Hi; apply H; right; assumption.
Qed.

Lemma in_zrem s l y : In y (zrem s l) <-> In y l /\ y <> s.
Proof.
  unfold zrem. rewrite filter_In. destruct (Z.eqb_spec y s); cbn [negb]; intuition congruence.
Qed.

Lemma zrem_length s l : NoDup l -> In s l -> Z.of_nat (length (zrem s l)) = Z.of_nat (length l) - 1.
Proof.
  induction l as [|x r IH]; intros Hnd Hin; [destruct Hin|].
  inversion Hnd as [|? ? Hx Hr]; subst. cbn [zrem filter].
  destruct (Z.eqb_spec x s) as [->|Hne]; cbn [negb length].
  - fold (zrem s r). rewrite zrem_notin by assumption. lia.
  - destruct Hin as [->|Hin]; [congruence|]. fold (zrem s r). specialize (IH Hr Hin). lia.
Qed.

Lemma NoDup_zrem s l : NoDup l -> NoDup (zrem s l).
Proof. apply NoDup_filter. Qed.

(* a duplicate-free list of slots in (0, n) has fewer than n entries *)
Lemma NoDup_range_length (l : list Z) (n : nat) :
  NoDup l -> (forall y, In y l -> 0 < y < Z.of_nat n) -> (length l < n)%nat \/ (l = [] /\ n = O).
Proof.
  intros Hnd Hr.
  destruct n as [|n].
  - right. destruct l as [|y r]; [auto|]. specialize (Hr y (or_introl eq_refl)). lia.
  - left.
    assert (Hincl : incl (map Z.to_nat l) (seq 1 n)).
    { intros k Hk. apply in_map_iff in Hk. destruct Hk as [y [<- Hy]]. apply in_seq.
      specialize (Hr y Hy). lia. }
    assert (Hnd' : NoDup (map Z.to_nat l)).
    { clear Hincl. induction l as [|y r IH]; cbn [map]; constructor.
      - inversion Hnd; subst. intros Hk. apply in_map_iff in Hk. destruct Hk as [z [Hz Hin]].
        assert (z = y).
        { pose proof (Hr y (or_introl eq_refl)). pose proof (Hr z (or_intror Hin)). lia. }
        subst. contradiction.
      - inversion Hnd; subst. apply IH; [assumption|]. intros z Hz; apply Hr; right; assumption. }
    pose proof (NoDup_incl_length Hnd' Hincl) as HL. rewrite map_length, seq_length in HL. lia.
Qed.

(* ---------- chains threaded through an array ---------- *)

Fixpoint chain (next : Z -> Z) (h : Z) (l : list Z) : Prop :=
  match l with
  | [] => h = 0
  | x :: r => h = x /\ chain next (next x) r
  end.

Lemma chain_ext next next' h l :
  (forall y, In y l -> next' y = next y) -> chain next h l -> chain next' h l.
Proof.
  revert h; induction l as [|x r IH]; intros h Hext Hc; cbn [chain] in *; [assumption|].
  destruct Hc as [-> Hc]. split; [reflexivity|].
  rewrite (Hext x (or_introl eq_refl)). apply IH; [|assumption].
  intros y Hy; apply Hext; right; assumption.
Qed.

Lemma chain_head next h l : chain next h l -> h = hd 0 l.
Proof. destruct l; cbn [chain hd]; intuition. Qed.

Lemma chain_head_nonneg next h l : (forall y, In y l -> 0 < y) -> chain next h l -> 0 <= h.
Proof.
  intros Hp Hc. destruct l as [|x r]; cbn [chain] in Hc.
  - lia.
  - destruct Hc as [-> _]. specialize (Hp x (or_introl eq_refl)). lia.
Qed.

(* next of a chain member is 0 or a chain member: in particular non-negative *)
Lemma chain_next_nonneg next h l x :
  (forall y, In y l -> 0 < y) -> chain next h l -> In x l -> 0 <= next x.
Proof.
  revert h; induction l as [|y r IH]; intros h Hp Hc Hin; [destruct Hin|].
  cbn [chain] in Hc. destruct Hc as [-> Hc].
  destruct Hin as [->|Hin].
  - eapply chain_head_nonneg; [|exact Hc]. intros z Hz; apply Hp; right; assumption.
  - eapply IH; [|exact Hc|assumption]. intros z Hz; apply Hp; right; assumption.
Qed.

(* unlinking the head *)
Lemma chain_unlink_head next next' s r :
  ~ In s r -> (forall y, In y r -> next' y = next y) ->
  chain next s (s :: r) -> chain next' (next s) (zrem s (s :: r)).
Proof.
  intros Hs Hext [_ Hc]. cbn [zrem filter]. rewrite Z.eqb_refl. cbn [negb].
  fold (zrem s r). rewrite zrem_notin by assumption. eapply chain_ext; eassumption.
Qed.

(* unlinking an inner member: find_prev finds the predecessor (up to the sign of the
   first index, which the code passes as a negative edge id), and redirecting it unlinks *)
Lemma chain_unlink_inner (next : Z -> Z) (s : Z) :
  (forall z, next (- z) = next z) ->
  forall (l : list Z) (fuel : nat) (h h' : Z),
    NoDup l -> (forall y, In y l -> 0 < y) -> chain next h l -> Z.abs h' = h ->
    In s l -> h <> s -> (length l <= fuel)%nat ->
    exists p', find_prev next fuel h' s = Some p' /\
      In (Z.abs p') l /\ Z.abs p' <> s /\ next (Z.abs p') = s /\
      forall next' : Z -> Z,
        next' (Z.abs p') = next s ->
        (forall y, In y l -> y <> Z.abs p' -> y <> s -> next' y = next y) ->
        chain next' h (zrem s l).
Proof.
  intros Heven.
  assert (Habs : forall z, next z = next (Z.abs z)).
  { intros z. destruct (Z.abs_spec z) as [[_ ->]|[_ ->]]; [reflexivity|]. symmetry; apply Heven. }
  induction l as [|x r IH]; intros fuel h h' Hnd Hpos Hc Hh' Hin Hne Hfuel; [destruct Hin|].
  cbn [chain] in Hc. destruct Hc as [-> Hc].
  destruct Hin as [->|Hin]; [congruence|].
  apply NoDup_cons_iff in Hnd. destruct Hnd as [Hx Hr].
  destruct fuel as [|fuel]; [cbn [length] in Hfuel; lia|].
  cbn [find_prev]. rewrite (Habs h'), Hh'.
  destruct (Z.eqb_spec (next x) s) as [E|E].
  - (* x is the predecessor *)
    exists h'. rewrite Hh'. split; [reflexivity|]. split; [left; reflexivity|]. split; [assumption|].
    split; [assumption|]. intros next' Hp Hext.
    destruct r as [|y r']; [destruct Hin|]. cbn [chain] in Hc. destruct Hc as [Hy Hc].
    rewrite E in Hy. subst y.
    cbn [zrem filter]. destruct (Z.eqb_spec x s); [congruence|]. rewrite Z.eqb_refl. cbn [negb chain].
    split; [reflexivity|]. rewrite Hp. fold (zrem s r').
    apply NoDup_cons_iff in Hr. destruct Hr as [Hs Hr'].
    rewrite zrem_notin by assumption.
    eapply chain_ext; [|exact Hc]. intros y Hy. apply Hext.
    + right; right; assumption.
    + intros ->. apply Hx. right; assumption.
    + intros ->. contradiction.
  - (* recurse *)
    assert (Hnx : 0 < next x).
    { destruct r as [|y r']; [destruct Hin|]. cbn [chain] in Hc. destruct Hc as [-> _].
      apply Hpos. right; left; reflexivity. }
    destruct (IH fuel (next x) (next x) Hr) as [p' [Hf [Hpin [Hps [Hnp Hrest]]]]].
    + intros y Hy; apply Hpos; right; assumption.
    + assumption.
    + lia.
    + assumption.
    + assumption.
    + cbn [length] in Hfuel; lia.
    + exists p'. split; [assumption|]. split; [right; assumption|]. split; [assumption|].
      split; [assumption|]. intros next' Hp Hext.
      cbn [zrem filter]. destruct (Z.eqb_spec x s); [congruence|]. cbn [negb chain].
      split; [reflexivity|]. fold (zrem s r).
      rewrite (Hext x); [| left; reflexivity | intros ->; contradiction | assumption ].
      apply Hrest; [assumption|]. intros y Hy; apply Hext. right; assumption.
Qed.

(* the edge iterator walks the whole chain (ids are the negated slots) *)
Lemma edge_list_chain (next : Z -> Z) :
  (forall z, next (- z) = next z) ->
  forall (l : list Z) (fuel : nat) (h : Z),
    (forall y, In y l -> 0 < y) -> chain next h l -> (length l <= fuel)%nat ->
    edge_list (fun e => - next e) fuel (- h) = map Z.opp l.
Proof.
  intros Heven. induction l as [|x r IH]; intros fuel h Hpos Hc Hfuel; cbn [chain] in Hc.
  - subst h. destruct fuel; cbn [edge_list map]; reflexivity.
  - destruct Hc as [-> Hc]. destruct fuel as [|fuel]; [cbn [length] in Hfuel; lia|].
    cbn [edge_list map]. pose proof (Hpos x (or_introl eq_refl)).
    destruct (Z.eqb_spec (- x) 0); [lia|]. f_equal. rewrite Heven.
    apply IH; [|assumption|cbn [length] in Hfuel; lia].
    intros y Hy; apply Hpos; right; assumption.
Qed.
