(* FileWal.v — model of the single-file storage with its undo log
   (agdb/src/storage/file_storage.rs, write_ahead_log.rs): the mutating file-system
   calls issued by write / resize / flush, crash cuts (including torn calls), and
   recovery (repair + records + apply_wal newest first + clear).  Definitions only.

   `walrev` selects the revision of the code: the three defects repaired by the
   fix: commit (replay order, growth not undone, empty write logged as truncation)
   can each be switched back on for the refuted witnesses.  `recover` is recovery as in /repo;
   `recover_g` is recovery with the position guard of fixes/C07-wal-position.diff (a record positioned
   beyond the current end of the data file is an error); the checks pick the one the source tree has. *)
From Agdb Require Import Bytes.
Open Scope nat_scope.

Record walrev := {
  w_newest_first : bool;     (* apply_wal iterates the records in reverse *)
  w_log_growth : bool;       (* growth of the file (resize up, straddling write) logs the OLD length *)
  w_skip_empty : bool        (* an empty write is a no-op *)
}.
Definition walrev_fixed := {| w_newest_first := true; w_log_growth := true; w_skip_empty := true |}.
Definition walrev_pinned := {| w_newest_first := false; w_log_growth := false; w_skip_empty := false |}.

Record fstate := { data : bytes; wal : bytes }.

(* the mutating file system calls *)
Inductive sys :=
| WalAppend (bs : bytes)          (* seek(End); write_all *)
| WalSetLen (n : nat)
| DataWrite (pos : nat) (bs : bytes)   (* seek(Start(pos)); write_all *)
| DataSetLen (n : nat).

Definition write_at (d : bytes) (pos : nat) (bs : bytes) : bytes :=
  firstn pos d ++ bs ++ skipn (pos + length bs) d.

Definition set_len (d : bytes) (n : nat) : bytes :=
  firstn n d ++ repeat x00 (n - length d).

Definition apply_sys (st : fstate) (s : sys) : fstate :=
  match s with
  | WalAppend bs => {| data := data st; wal := wal st ++ bs |}
  | WalSetLen n => {| data := data st; wal := set_len (wal st) n |}
  | DataWrite pos bs => {| data := write_at (data st) pos bs; wal := wal st |}
  | DataSetLen n => {| data := set_len (data st) n; wal := wal st |}
  end.

(* the call dies after its first j bytes reached the file; length changes are atomic *)
Definition apply_torn (st : fstate) (s : sys) (j : nat) : fstate :=
  match s with
  | WalAppend bs => {| data := data st; wal := wal st ++ firstn j bs |}
  | DataWrite pos bs => {| data := write_at (data st) pos (firstn j bs); wal := wal st |}
  | _ => st
  end.

(* WriteAheadLog::insert: three write_all calls *)
Definition enc_rec (pos : nat) (value : bytes) : bytes :=
  le64 (N.of_nat pos) ++ le64 (lenN value) ++ value.
Definition log_calls (pos : nat) (value : bytes) : list sys :=
  [WalAppend (le64 (N.of_nat pos)); WalAppend (le64 (lenN value)); WalAppend value].

Definition slice_of (d : bytes) (from to : nat) : bytes := firstn (to - from) (skipn from d).

Inductive op := OWrite (pos : nat) (bs : bytes) | OResize (n : nat) | OFlush.

Section Rev.
  Variable rv : walrev.

  (* the calls issued by FileStorage::write / resize / flush on a file with content d *)
  Definition calls_of (d : bytes) (o : op) : list sys :=
    let len := length d in
    match o with
    | OWrite pos bs =>
        match bs with
        | [] => if w_skip_empty rv then [] else log_calls pos [] ++ [DataWrite pos []]
        | _ =>
          let e := pos + length bs in
          (if w_log_growth rv && Nat.ltb pos len && Nat.ltb len e then log_calls len [] else []) ++
          log_calls pos (slice_of d pos (Nat.min len e)) ++ [DataWrite pos bs]
        end
    | OResize n =>
        (if Nat.ltb n len then log_calls n (skipn n d)
         else log_calls (if w_log_growth rv then len else n) []) ++ [DataSetLen n]
    | OFlush => [WalSetLen 0]
    end.

  Definition run_calls (st : fstate) (cs : list sys) : fstate := fold_left apply_sys cs st.

  (* all calls of an operation list, the state threaded through *)
  Fixpoint trace (st : fstate) (ops : list op) : list sys :=
    match ops with
    | [] => []
    | o :: r => let cs := calls_of (data st) o in cs ++ trace (run_calls st cs) r
    end.

  (* crash cut (k, j): the first k calls completed, the next one torn after j bytes *)
  Definition crash (st : fstate) (cs : list sys) (k j : nat) : fstate :=
    let st1 := run_calls st (firstn k cs) in
    match nth_error cs k with
    | Some s => apply_torn st1 s j
    | None => st1
    end.

  (* ---- recovery ---- *)

  (* repair + records: complete records from the start; the first incomplete one ends the log *)
  Fixpoint parse (fuel : nat) (w : bytes) : list (nat * bytes) :=
    match fuel with
    | O => []
    | S f =>
      if Nat.ltb (length w) 16 then []
      else
        let pos := de (firstn 8 w) in
        let size := de (firstn 8 (skipn 8 w)) in
        if (N.of_nat (length w - 16) <? size)%N then []
        else
          let n := N.to_nat size in
          (N.to_nat pos, firstn n (skipn 16 w)) :: parse f (skipn (16 + n) w)
    end.
  Definition records (w : bytes) : list (nat * bytes) := parse (S (length w)) w.

  (* apply_wal_record *)
  Definition apply_rec (d : bytes) (r : nat * bytes) : bytes :=
    match snd r with
    | [] => set_len d (fst r)
    | v => write_at d (fst r) v
    end.

  Definition replay (rs : list (nat * bytes)) (d : bytes) : bytes :=
    fold_left apply_rec (if w_newest_first rv then rev rs else rs) d.

  (* FileStorage::new on the files left by a crash (also Drop with an open transaction) *)
  Definition recover (st : fstate) : fstate :=
    {| data := replay (records (wal st)) (data st); wal := [] |}.

  (* ---- recovery with the position guard (fixes/C07-wal-position.diff) ----
     apply_wal_record first compares the record's position with the CURRENT end of the data file
     (file.seek(End(0)), i.e. the file as already modified by the records replayed before this one):
     a position beyond it is an error, apply_wal stops with `?` and FileStorage::new returns it
     (None; the log is not cleared). *)
  Definition apply_rec_g (d : bytes) (r : nat * bytes) : option bytes :=
    if Nat.ltb (length d) (fst r) then None else Some (apply_rec d r).

  (* the records in the order they are applied *)
  Fixpoint apply_all_g (rs : list (nat * bytes)) (d : bytes) : option bytes :=
    match rs with
    | [] => Some d
    | r :: rest =>
      match apply_rec_g d r with
      | Some d' => apply_all_g rest d'
      | None => None
      end
    end.

  Definition replay_g (rs : list (nat * bytes)) (d : bytes) : option bytes :=
    apply_all_g (if w_newest_first rv then rev rs else rs) d.

  Definition recover_g (st : fstate) : option fstate :=
    match replay_g (records (wal st)) (data st) with
    | Some d => Some {| data := d; wal := [] |}
    | None => None
    end.
End Rev.

(* ---- recovery as a sequence of file-system calls (it can itself be interrupted) ----
   FileStorage::new / Drop: WriteAheadLog::repair cuts a torn tail (one set_len, only when there is one);
   apply_wal undoes the records newest first; wal.clear().
     g = false: the code without the position guard: every record is applied, the log is cleared at the end.
     g = true : fixes/C07-wal-position.diff: the guard is evaluated before each record (false = it fired:
                apply_wal returns the error, nothing further is issued), and each record is REMOVED from the
                log as soon as it has been undone (WriteAheadLog::remove_last: set_len to its start), so an
                interrupted recovery never replays a record on top of the older ones that followed it. *)
Definition rec_size (r : nat * bytes) : nat := 16 + length (snd r).
Definition log_size (rs : list (nat * bytes)) : nat := list_sum (map rec_size rs).

Definition undo_call (r : nat * bytes) : sys :=
  match snd r with
  | [] => DataSetLen (fst r)
  | v => DataWrite (fst r) v
  end.

(* rr: the records newest first; d: the data they are applied to *)
Fixpoint undo_calls (g : bool) (rr : list (nat * bytes)) (d : bytes) : list sys * bool :=
  match rr with
  | [] => ([], true)
  | r :: rest =>
    if g && Nat.ltb (length d) (fst r) then ([], false)
    else
      let '(cs, ok) := undo_calls g rest (apply_rec d r) in
      (undo_call r :: (if g then [WalSetLen (log_size rest)] else []) ++ cs, ok)
  end.

Definition recovery_calls (g : bool) (st : fstate) : list sys * bool :=
  let rs := records (wal st) in
  let '(cs, ok) := undo_calls g (rev rs) (data st) in
  ((if Nat.ltb (log_size rs) (length (wal st)) then [WalSetLen (log_size rs)] else []) ++
   cs ++ (if ok then [WalSetLen 0] else []), ok).

(* writes issued by the storage layer never start beyond the end of the file *)
Fixpoint well_positioned (d : bytes) (ops : list op) : bool :=
  match ops with
  | [] => true
  | o :: r =>
    match o with
    | OWrite pos bs => Nat.leb pos (length d) && well_positioned (write_at d pos bs) r
    | OResize n => well_positioned (set_len d n) r
    | OFlush => well_positioned d r
    end
  end.
