(* UndoStepsKv.v — C13_step_inverse for the key-value primitives of DbModel.v:
   insert_key_value, insert_or_replace_key_value, the single removal step used by
   remove_keys / remove_all_values, reserve_kv. *)
From Agdb Require Import Bytes BytesProofs DbValue Graph DbModel Revisions UndoBase UndoObs UndoAlias UndoKv
  UndoGraphBase UndoGraph UndoAbs UndoDb.
From Coq Require Import Permutation ZifyBool ZifyNat ZifyN.
Open Scope Z_scope.

(* the index on the pair's key (if any) lists the pair for this element *)
Definition idx_has (d : db) (id : Z) (x : kv) : Prop :=
  forall ids, idx_find (indexes d) (fst x) = Some ids -> In (snd x, id) ids.

Definition omap {A B} (f : A -> B) (o : option A) : option B :=
  match o with Some a => Some (f a) | None => None end.

Lemma idx_find_update' ix key f key' :
  idx_find (idx_update ix key f) key' = if dbv_eqb key key' then omap f (idx_find ix key') else idx_find ix key'.
Proof. apply idx_find_update. Qed.

Lemma idx_rel_omap_l a b (f g : list (dbvalue * Z) -> list (dbvalue * Z)) :
  idx_rel a (omap g b) -> (forall la lb, Permutation la (g lb) -> Permutation (f la) lb) ->
  idx_rel (omap f a) b.
Proof. destruct a, b; cbn; auto. Qed.

Lemma idx_rel_omap2 a b (f g : list (dbvalue * Z) -> list (dbvalue * Z)) :
  idx_rel a b -> (forall la lb, Permutation la lb -> Permutation (f la) (g lb)) -> idx_rel (omap f a) (omap g b).
Proof. destruct a, b; cbn; auto. Qed.

(* generic step on (indexes, vals) with one pushed command *)
Section Steps.
  Variable rv : revision.
  Hypothesis Hrv : fix_rollback_replace rv = true.

  Lemma kv_step d ix1 s1 c (uix : db -> list index) (us : db -> kvstore) :
    db_ok d -> isim ix1 ix1 -> vsim s1 s1 ->
    (forall e, undo_one e c = ROk (with_vals (with_indexes e (uix e)) (us e))) ->
    (forall e, isim (indexes e) ix1 -> vsim (vals e) s1 -> isim (uix e) (indexes d) /\ vsim (us e) (vals d)) ->
    let d1 := {| gr := gr d; aliases := aliases d; vals := s1; indexes := ix1; undo := c :: undo d |} in
    db_ok d1 /\ undoable rv d d1.
  Proof.
    intros Hok Hi1 Hv1 Hun Hop d1. destruct Hok as [G A V I]. split.
    - constructor; cbn; auto.
    - exists [c]. split; [reflexivity|]. intros e [Ge Ae Ve Ie]. cbn in Ge, Ae, Ve, Ie.
      rewrite rollback_cmds_one by assumption. rewrite Hun. eexists. split; [reflexivity|].
      destruct (Hop e Ie Ve) as (Hi' & Hv'). constructor; cbn; auto.
  Qed.

  (* ---- insert_key_value ---- *)
  Lemma insert_key_value_fields d id x :
    insert_key_value d id x =
    {| gr := gr d; aliases := aliases d; vals := kvs_insert_value (vals d) id x;
       indexes := idx_insert_id (indexes d) (fst x) (snd x) id; undo := CRemoveKeyValue id x :: undo d |}.
  Proof. reflexivity. Qed.

  Lemma step_insert_key_value d id x :
    db_ok d -> ~ has_key (kvs_get (vals d) id) (fst x) ->
    db_ok (insert_key_value d id x) /\ undoable rv d (insert_key_value d id x).
  Proof.
    intros Hok Hfresh. rewrite insert_key_value_fields. pose proof Hok as [G A V I].
    destruct V as (Vok & _ & _). destruct I as (Iok & _ & _).
    apply (kv_step d _ _ (CRemoveKeyValue id x)
             (fun e => idx_remove_id (indexes e) (fst x) (snd x) id)
             (fun e => kvs_remove_value (vals e) id (fst x))); auto.
    - split; [|split]; try (apply idx_ok_update; assumption). intros k. apply idx_rel_refl.
    - assert (Hk : forall i, keys_ok (kvs_get (kvs_insert_value (vals d) id x) i)).
      { intros i. rewrite kvs_get_insert_value. destruct (same_slot id i) eqn:E; [|apply Vok].
        apply keys_ok_app_last; [apply Vok | assumption]. }
      split; [|split]; auto.
    - intros e (Ie1 & _ & Ie3) (Ve1 & _ & Ve3). split.
      + split; [apply idx_ok_update; assumption|]. split; [assumption|]. intros key.
        unfold idx_remove_id. rewrite idx_find_update'. specialize (Ie3 key).
        unfold idx_insert_id in Ie3. rewrite idx_find_update' in Ie3.
        destruct (dbv_eqb (fst x) key); [|exact Ie3].
        eapply idx_rel_omap_l; [exact Ie3|]. intros la lb P.
        rewrite (remove_first_pair_perm _ _ _ _ P). apply remove_first_pair_app_last.
      + split; [|split]; auto.
        * intros i. rewrite kvs_get_remove_value. destruct (same_slot id i); [|apply Ve1].
          apply remove_first_key_ok, Ve1.
        * intros i. rewrite kvs_get_remove_value. specialize (Ve3 i) as Ve3i.
          rewrite kvs_get_insert_value in Ve3i. destruct (same_slot id i) eqn:E; [|exact Ve3i].
          specialize (Ve3 id). rewrite kvs_get_insert_value, same_slot_refl in Ve3.
          rewrite (remove_first_key_perm _ _ (fst x) (Ve1 id) Ve3).
          rewrite remove_first_key_app_last by assumption. rewrite (kvs_get_same _ _ _ E). reflexivity.
  Qed.

  (* ---- removing one pair (the step of remove_keys / remove_all_values) ---- *)
  Definition remove_kv (d : db) (id : Z) (x : kv) : db :=
    {| gr := gr d; aliases := aliases d; vals := kvs_remove_value (vals d) id (fst x);
       indexes := idx_remove_id (indexes d) (fst x) (snd x) id; undo := CInsertKeyValue id x :: undo d |}.

  Lemma step_remove_kv d id x :
    db_ok d -> In x (kvs_get (vals d) id) -> idx_has d id x ->
    db_ok (remove_kv d id x) /\ undoable rv d (remove_kv d id x).
  Proof.
    intros Hok Hin Hhas. pose proof Hok as [G A V I].
    destruct V as (Vok & _ & _). destruct I as (Iok & _ & _).
    apply (kv_step d _ _ (CInsertKeyValue id x)
             (fun e => idx_insert_id (indexes e) (fst x) (snd x) id)
             (fun e => kvs_insert_value (vals e) id x)); auto.
    - split; [|split]; try (apply idx_ok_update; assumption). intros k. apply idx_rel_refl.
    - assert (Hk : forall i, keys_ok (kvs_get (kvs_remove_value (vals d) id (fst x)) i)).
      { intros i. rewrite kvs_get_remove_value. destruct (same_slot id i); [|apply Vok].
        apply remove_first_key_ok, Vok. }
      split; [|split]; auto.
    - intros e (Ie1 & _ & Ie3) (Ve1 & _ & Ve3).
      assert (Hperm : Permutation (kvs_get (vals e) id ++ [x]) (kvs_get (vals d) id)).
      { specialize (Ve3 id). rewrite kvs_get_remove_value, same_slot_refl in Ve3. rewrite Ve3.
        apply remove_first_key_then_append; [apply Vok | assumption]. }
      split.
      + split; [apply idx_ok_update; assumption|]. split; [assumption|]. intros key.
        unfold idx_insert_id. rewrite idx_find_update'. specialize (Ie3 key).
        unfold idx_remove_id in Ie3. rewrite idx_find_update' in Ie3.
        destruct (dbv_eqb_spec (fst x) key) as [E|]; [|exact Ie3]. subst key.
        destruct (idx_find (indexes e) (fst x)) as [la|], (idx_find (indexes d) (fst x)) as [lb|] eqn:Eb;
          cbn [omap idx_rel] in Ie3 |- *; try tauto.
        rewrite Ie3. apply remove_first_pair_then_append. apply Hhas. exact Eb.
      + split; [|split]; auto.
        * intros i. rewrite kvs_get_insert_value. destruct (same_slot id i) eqn:E; [|apply Ve1].
          eapply keys_ok_perm; [symmetry; exact Hperm | apply Vok].
        * intros i. rewrite kvs_get_insert_value. specialize (Ve3 i) as Ve3i.
          rewrite kvs_get_remove_value in Ve3i. destruct (same_slot id i) eqn:E; [|exact Ve3i].
          rewrite Hperm. rewrite (kvs_get_same _ _ _ E). reflexivity.
  Qed.
End Steps.
