(* NoPanicProofs.v — with the slice clamp in (fix_slice_clamp, the code of /repo) no query panics:
   the only panic of the model is SearchQuery::slice (SliceProofs.search_no_panic), and every query
   reaches it only through `search`.  Needed by the history theorems: `exec` / `transaction` then
   always either commit or roll back. *)
From Agdb Require Import Bytes BytesProofs DbValue Graph DbModel Search Queries Revisions
  QStepProofs AliasQueryProofs SliceProofs.
Open Scope Z_scope.

Notation no_panic s := (match s with StPanic _ => False | _ => True end).

Section NoPanic.
  Variable rv : revision.
  Hypothesis Hclamp : fix_slice_clamp rv = true.

  Lemma resolve_ids_no_panic d ids : resolve_ids rv d ids <> SPanic.
  Proof.
    destruct ids as [l|s]; cbn [resolve_ids]; [|now apply search_no_panic].
    destruct (resolve_all d l); discriminate.
  Qed.

  Lemma edge_db_ids_no_panic d ids : edge_db_ids rv d ids <> SPanic.
  Proof.
    destruct ids as [l|s]; cbn [edge_db_ids].
    - destruct (resolve_all d l); discriminate.
    - pose proof (search_no_panic rv d s Hclamp) as H. destruct (search rv d s); [discriminate|discriminate|congruence].
  Qed.

  Lemma finish_no_panic (r : step Z) :
    no_panic r ->
    no_panic (match r with StOk d1 n => StOk d1 (n, @nil element) | StErr d1 e => StErr d1 e | StPanic d1 => StPanic d1 end).
  Proof. destruct r; trivial. Qed.

  Lemma insert_nodes_no_panic d count values als ids : no_panic (insert_nodes rv d count values als ids).
  Proof.
    unfold insert_nodes. destruct (fix_empty_alias rv && existsb _ als); [exact I|].
    pose proof (resolve_ids_no_panic d ids) as Hr.
    destruct (resolve_ids rv d ids) as [query_ids|e|]; [|exact I|congruence].
    match goal with |- context [Nat.ltb ?x ?y] => destruct (Nat.ltb x y) end; [exact I|].
    destruct (negb (Nat.eqb (length query_ids) 0)).
    - destruct (existsb _ query_ids); [exact I|]. match goal with |- context [negb ?b] => destruct (negb b) end; exact I.
    - match goal with |- context [fold_left ?f ?l ?a0] => destruct (fold_left f l a0) as [d1 ids_rev] end. exact I.
  Qed.

  Lemma insert_edge_list_no_panic d pairs : no_panic (insert_edge_list d pairs).
  Proof.
    unfold insert_edge_list.
    match goal with |- context [st_fold ?f d [] pairs] =>
      pose proof (st_fold_no_panic f pairs d []) as H end.
    match type of H with ?P -> _ => assert (Hp : P) end.
    { intros a b [[f t] kvs]. destruct (insert_edge_db a f t) as [[id a1]|e]; exact I. }
    specialize (H Hp). destruct (st_fold _ d [] pairs); [exact I|exact I|contradiction].
  Qed.

  Lemma insert_edges_no_panic d from to values each ids : no_panic (insert_edges rv d from to values each ids).
  Proof.
    unfold insert_edges. pose proof (resolve_ids_no_panic d ids) as Hr.
    destruct (resolve_ids rv d ids) as [query_ids|e|]; [|exact I|congruence].
    destruct (negb (Nat.eqb (length query_ids) 0)).
    - destruct (existsb _ query_ids); [exact I|]. destruct (edge_values values (length query_ids)); exact I.
    - pose proof (edge_db_ids_no_panic d from) as Hf. destruct (edge_db_ids rv d from) as [fl|e|]; [|exact I|congruence].
      pose proof (edge_db_ids_no_panic d to) as Ht. destruct (edge_db_ids rv d to) as [tl|e|]; [|exact I|congruence].
      match goal with |- context [edge_values values ?n] => destruct (edge_values values n) as [vl|e] end; [|exact I].
      match goal with |- context [insert_edge_list d ?p] =>
        pose proof (insert_edge_list_no_panic d p) as H; destruct (insert_edge_list d p) end; [exact I|exact I|contradiction].
  Qed.

  Lemma insert_values_q_no_panic a acc q kvs : no_panic (insert_values_q rv a acc q kvs).
  Proof.
    unfold insert_values_q. destruct (db_id a q) as [id|e].
    - destruct (insert_values_id a acc id kvs). exact I.
    - destruct q as [id|al].
      + destruct (id =? 0); [|exact I]. destruct (insert_values_new a acc None kvs). exact I.
      + destruct (fix_empty_alias rv && _); [exact I|].
        destruct (insert_values_new a acc (Some al) kvs). exact I.
  Qed.

  Lemma insert_values_no_panic d ids values : no_panic (insert_values rv d ids values).
  Proof.
    unfold insert_values. destruct ids as [l|s].
    - destruct values as [kvs|vl].
      + apply st_fold_no_panic. intros a b x. apply insert_values_q_no_panic.
      + destruct (negb (Nat.eqb (length l) (length vl))); [exact I|].
        apply st_fold_no_panic. intros a b x. apply insert_values_q_no_panic.
    - pose proof (search_no_panic rv d s Hclamp) as Hs. destruct (search rv d s) as [db_ids|e|]; [|exact I|congruence].
      destruct values as [kvs|vl].
      + apply st_fold_no_panic. intros a b x. destruct (insert_values_id a b x kvs). exact I.
      + destruct (negb (Nat.eqb (length db_ids) (length vl))); [exact I|].
        apply st_fold_no_panic. intros a b x. destruct (insert_values_id a b (fst x) (snd x)). exact I.
  Qed.

  Lemma remove_query_no_panic d ids : no_panic (remove_query rv d ids).
  Proof.
    unfold remove_query. destruct ids as [l|s].
    - apply finish_no_panic. apply st_fold_no_panic. intros a b x. destruct (remove_q a x) as [a1 [[|]|e]]; exact I.
    - pose proof (search_no_panic rv d s Hclamp) as Hs. destruct (search rv d s) as [db_ids|e|]; [|exact I|congruence].
      apply finish_no_panic. apply st_fold_no_panic. intros a b x. destruct (remove_id a x) as [a1 [[|]|e]]; exact I.
  Qed.

  Lemma remove_values_no_panic d ids keys : no_panic (remove_values rv d ids keys).
  Proof.
    unfold remove_values. destruct ids as [l|s].
    - apply finish_no_panic. apply st_fold_no_panic. intros a b x. destruct (db_id a x) as [id|e]; [|exact I].
      destruct (remove_keys a id keys). exact I.
    - pose proof (search_no_panic rv d s Hclamp) as Hs. destruct (search rv d s) as [db_ids|e|]; [|exact I|congruence].
      apply finish_no_panic. apply st_fold_no_panic. intros a b x. destruct (remove_keys a x keys). exact I.
  Qed.

  Lemma exec_mut_step_no_panic d q : no_panic (exec_mut_step rv d q).
  Proof.
    destruct q; cbn [exec_mut_step]; try exact I.
    - apply insert_nodes_no_panic.
    - apply insert_edges_no_panic.
    - apply insert_aliases_no_panic.
    - apply insert_values_no_panic.
    - destruct (insert_index d key) as [[n d1]|e]; exact I.
    - destruct (remove_index d key). exact I.
    - apply remove_query_no_panic.
    - unfold remove_aliases. match goal with |- context [fold_left ?f ?l ?a0] => destruct (fold_left f l a0) end. exact I.
    - apply remove_values_no_panic.
  Qed.

  Lemma select_simple_no_panic d ids f total : select_simple rv d ids f total <> QPanic.
  Proof.
    unfold select_simple. pose proof (resolve_ids_no_panic d ids) as Hr.
    destruct (resolve_ids rv d ids); [discriminate|discriminate|congruence].
  Qed.

  Lemma exec_select_no_panic d q : exec_select rv d q <> QPanic.
  Proof.
    destruct q; cbn [exec_select]; try discriminate; try apply select_simple_no_panic.
    - unfold select_values. pose proof (resolve_ids_no_panic d ids) as Hr.
      destruct (resolve_ids rv d ids) as [db_ids|e|]; [|discriminate|congruence].
      match goal with |- context [match ?g db_ids with _ => _ end] => destruct (g db_ids) end; discriminate.
    - unfold select_aliases. destruct ids as [l|s].
      + match goal with |- context [match ?g l with _ => _ end] => destruct (g l) end; discriminate.
      + pose proof (search_no_panic rv d s Hclamp) as Hs. destruct (search rv d s); [discriminate|discriminate|congruence].
    - pose proof (search_no_panic rv d s Hclamp) as Hs. destruct (search rv d s); [discriminate|discriminate|congruence].
  Qed.

  Theorem exec_in_txn_no_panic d q : snd (exec_in_txn rv d q) <> QPanic.
  Proof.
    unfold exec_in_txn. destruct (is_mutating q); [|apply exec_select_no_panic].
    pose proof (exec_mut_step_no_panic d q) as H.
    destruct (exec_mut_step rv d q) as [d1 [n els]|d1 e|d1]; cbn [snd]; [discriminate|discriminate|contradiction].
  Qed.

  Definition is_panic (r : qres) : bool := match r with QPanic => true | _ => false end.

  Theorem txn_run_no_panic qs : forall d acc,
    existsb is_panic acc = false -> existsb is_panic (snd (fst (txn_run rv d qs acc))) = false.
  Proof.
    assert (Hrev : forall l, existsb is_panic l = false -> existsb is_panic (rev l) = false).
    { intros l H. destruct (existsb is_panic (rev l)) eqn:E; [|reflexivity].
      apply existsb_exists in E. destruct E as [x [Hx Hp]]. apply in_rev in Hx.
      assert (existsb is_panic l = true) by (apply existsb_exists; eauto). congruence. }
    induction qs as [|q r IH]; intros d acc Ha; cbn [txn_run].
    - cbn [fst snd]. now apply Hrev.
    - pose proof (exec_in_txn_no_panic d q) as Hq. destruct (exec_in_txn rv d q) as [d1 res]. cbn [snd] in Hq.
      assert (Ha' : existsb is_panic (res :: acc) = false).
      { cbn [existsb]. rewrite Ha. destruct res; [reflexivity|reflexivity|congruence]. }
      destruct (is_failure res); [cbn [fst snd]; now apply Hrev|now apply IH].
  Qed.
End NoPanic.
