(* CodecProofs.v — C20 (round trip, exact size) and C21 (totality) about Codec.v *)
From Agdb Require Import Bytes BytesProofs Utf8 Codec.
From Coq Require Import ZifyBool ZifyNat ZifyN.
Ltac Zify.zify_post_hook ::= Z.div_mod_to_equations.
Open Scope N_scope.
Arguments N.add : simpl never.
Arguments N.mul : simpl never.
Arguments N.sub : simpl never.
Arguments N.div : simpl never.
Arguments N.modulo : simpl never.
Arguments N.ltb : simpl never.
Arguments N.leb : simpl never.
Arguments N.eqb : simpl never.
Arguments N.min : simpl never.
Arguments N.of_nat : simpl never.
Arguments N.to_nat : simpl never.

(* ---------- induction principles for the nested types ---------- *)

Section ValInd.
  Variable P : val -> Prop.
  Hypothesis HU64 : forall n, P (VU64 n).
  Hypothesis HI64 : forall z, P (VI64 z).
  Hypothesis HF64 : forall b, P (VF64 b).
  Hypothesis HUsize : forall n, P (VUsize n).
  Hypothesis HBool : forall b, P (VBool b).
  Hypothesis HStr : forall bs, P (VStr bs).
  Hypothesis HBytes : forall bs, P (VBytes bs).
  Hypothesis HTime : forall s n a, P (VTime s n a).
  Hypothesis HVec : forall l, Forall P l -> P (VVec l).
  Hypothesis HStruct : forall l, Forall P l -> P (VStruct l).
  Hypothesis HEnum : forall tag l, Forall P l -> P (VEnum tag l).

  Fixpoint val_ind' (v : val) : P v :=
    let fix all (l : list val) : Forall P l :=
      match l with
      | [] => Forall_nil P
      | x :: r => Forall_cons x (val_ind' x) (all r)
      end in
    match v with
    | VU64 n => HU64 n | VI64 z => HI64 z | VF64 b => HF64 b | VUsize n => HUsize n
    | VBool b => HBool b | VStr bs => HStr bs | VBytes bs => HBytes bs
    | VTime s n a => HTime s n a
    | VVec l => HVec l (all l)
    | VStruct l => HStruct l (all l)
    | VEnum tag l => HEnum tag l (all l)
    end.
End ValInd.

Section TyInd.
  Variable P : ty -> Prop.
  Hypothesis H1 : P TU64.
  Hypothesis H2 : P TI64.
  Hypothesis H3 : P TF64.
  Hypothesis H4 : P TUsize.
  Hypothesis H5 : P TBool.
  Hypothesis H6 : P TStr.
  Hypothesis H7 : P TBytes.
  Hypothesis H8 : P TTime.
  Hypothesis HVec : forall t, P t -> P (TVec t).
  Hypothesis HStruct : forall fs, Forall P fs -> P (TStruct fs).
  Hypothesis HEnum : forall vs, Forall (Forall P) vs -> P (TEnum vs).

  Fixpoint ty_ind' (t : ty) : P t :=
    let fix all (l : list ty) : Forall P l :=
      match l with
      | [] => Forall_nil P
      | x :: r => Forall_cons x (ty_ind' x) (all r)
      end in
    let fix all2 (l : list (list ty)) : Forall (Forall P) l :=
      match l with
      | [] => Forall_nil (Forall P)
      | x :: r => Forall_cons x (all x) (all2 r)
      end in
    match t with
    | TU64 => H1 | TI64 => H2 | TF64 => H3 | TUsize => H4 | TBool => H5
    | TStr => H6 | TBytes => H7 | TTime => H8
    | TVec t' => HVec t' (ty_ind' t')
    | TStruct fs => HStruct fs (all fs)
    | TEnum vs => HEnum vs (all2 vs)
    end.
End TyInd.

(* ---------- size = number of bytes produced ---------- *)

Lemma lenN_app {A} (a b : list A) : lenN (a ++ b) = lenN a + lenN b.
Proof. unfold lenN. rewrite app_length. lia. Qed.

Lemma lenN_cons {A} (x : A) l : lenN (x :: l) = 1 + lenN l.
Proof. unfold lenN. cbn [length]. lia. Qed.

Lemma lenN_nil {A} : lenN (@nil A) = 0.
Proof. reflexivity. Qed.

Lemma lenN_le64 n : lenN (le64 n) = 8.
Proof. unfold lenN. now rewrite le64_length. Qed.
Lemma lenN_le32 n : lenN (le32 n) = 4.
Proof. unfold lenN. now rewrite le32_length. Qed.

Lemma lenN_concat_enc (l : list val) :
  Forall (fun v => size v = lenN (enc v)) l ->
  sumN (map size l) = lenN (concat (map enc l)).
Proof.
  induction 1 as [|x r Hx _ IH]; cbn [map concat sumN fold_right]; [reflexivity|].
  rewrite lenN_app. fold (sumN (map size r)). now rewrite Hx, IH.
Qed.

Theorem size_enc : forall v, size v = lenN (enc v).
Proof.
  induction v as [n|z|b|n|b|bs|bs|s n a|l IH|l IH|tag l IH] using val_ind';
    cbn [size enc]; rewrite ?lenN_app, ?lenN_cons, ?lenN_nil, ?lenN_le64, ?lenN_le32;
    try reflexivity; try lia.
  - now rewrite (lenN_concat_enc l IH).
  - now rewrite (lenN_concat_enc l IH).
  - now rewrite (lenN_concat_enc l IH).
Qed.

(* ---------- round trip ---------- *)

Lemma skipn_lenN_app {A} (pre x : list A) : skipn (N.to_nat (lenN pre)) (pre ++ x) = x.
Proof.
  unfold lenN. rewrite Nat2N.id. rewrite skipn_app, skipn_all, Nat.sub_diag. reflexivity.
Qed.

Lemma rd64_le64 n rest : n < two64 -> rd64 (le64 n ++ rest) = Ok n.
Proof.
  intros H. unfold rd64. rewrite slice_app_exact by apply le64_length.
  now rewrite de_le64.
Qed.

Lemma sumN_cons x a : sumN (x :: a) = x + sumN a.
Proof. reflexivity. Qed.
Lemma sumN_nil : sumN [] = 0.
Proof. reflexivity. Qed.

Lemma sumN_app a b : sumN (a ++ b) = sumN a + sumN b.
Proof. induction a as [|x a IH]; cbn [app]; rewrite ?sumN_cons, ?sumN_nil, ?IH; lia. Qed.

Definition rt_at (p : profile) (g : guards) (t : ty) : Prop :=
  forall v rest, ty_ok t = true -> has_type t v = true ->
    dec p g t (enc v ++ rest) = Ok (v, size v).

Lemma dec_fields_rt p g mk fs :
  Forall (rt_at p g) fs -> forallb ty_ok fs = true ->
  forall l2 pre rest acc,
    has_types has_type fs l2 = true ->
    dec_fields (dec p g) (pre ++ concat (map enc l2) ++ rest) mk fs (lenN pre) acc
    = Ok (mk (rev acc ++ l2), lenN pre + sumN (map size l2)).
Proof.
  induction 1 as [|f fs Hf _ IH]; intros Hok l2 pre rest acc Ht.
  - destruct l2; [|discriminate]. cbn [dec_fields map concat sumN fold_right].
    rewrite app_nil_r. f_equal. f_equal. lia.
  - destruct l2 as [|x l2]; [discriminate|].
    cbn [has_types] in Ht. apply andb_true_iff in Ht as [Hx Ht].
    cbn [forallb] in Hok. apply andb_true_iff in Hok as [Hokf Hok].
    cbn [dec_fields map concat].
    destruct (N.ltb_spec (lenN (pre ++ (enc x ++ concat (map enc l2)) ++ rest)) (lenN pre)) as [Hlt|_].
    { rewrite lenN_app in Hlt. lia. }
    rewrite skipn_lenN_app. rewrite <- app_assoc.
    rewrite (Hf x _ Hokf Hx).
    replace (pre ++ enc x ++ concat (map enc l2) ++ rest)
      with ((pre ++ enc x) ++ concat (map enc l2) ++ rest) by now rewrite <- app_assoc.
    replace (lenN pre + size x) with (lenN (pre ++ enc x)) by (rewrite lenN_app, size_enc; reflexivity).
    rewrite (IH Hok l2 (pre ++ enc x) rest (x :: acc) Ht).
    cbn [rev]. rewrite <- app_assoc. cbn [app]. f_equal. f_equal.
    rewrite lenN_app, sumN_cons, size_enc. lia.
Qed.

Lemma dec_loop_rt p g t' :
  rt_at p g t' -> ty_ok t' = true ->
  forall l2 pre rest acc fuel,
    forallb (has_type t') l2 = true ->
    (length l2 < fuel)%nat ->
    dec_loop (dec p g) (pre ++ concat (map enc l2) ++ rest) t' fuel (lenN l2) (lenN pre) acc
    = Ok (VVec (rev acc ++ l2), lenN pre + sumN (map size l2)).
Proof.
  intros Hrt Hok. induction l2 as [|x l2 IH]; intros pre rest acc fuel Ht Hfuel.
  - assert (E : dec_loop (dec p g) (pre ++ concat (map enc []) ++ rest) t' fuel (lenN (@nil val)) (lenN pre) acc
                 = Ok (VVec (rev acc), lenN pre)) by (destruct fuel; reflexivity).
    rewrite E, app_nil_r. cbn [map]. rewrite sumN_nil. f_equal. f_equal. lia.
  - cbn [forallb] in Ht. apply andb_true_iff in Ht as [Hx Ht].
    destruct fuel as [|fuel]; [cbn [length] in Hfuel; lia|].
    cbn [dec_loop].
    destruct (N.eqb_spec (lenN (x :: l2)) 0) as [E|_]; [rewrite lenN_cons in E; lia|].
    cbn [map concat].
    destruct (N.ltb_spec (lenN (pre ++ (enc x ++ concat (map enc l2)) ++ rest)) (lenN pre)) as [Hlt|_].
    { rewrite lenN_app in Hlt. lia. }
    rewrite skipn_lenN_app. rewrite <- app_assoc.
    rewrite (Hrt x _ Hok Hx).
    replace (pre ++ enc x ++ concat (map enc l2) ++ rest)
      with ((pre ++ enc x) ++ concat (map enc l2) ++ rest) by now rewrite <- app_assoc.
    replace (lenN pre + size x) with (lenN (pre ++ enc x)) by (rewrite lenN_app, size_enc; reflexivity).
    replace (lenN (x :: l2) - 1) with (lenN l2) by (rewrite lenN_cons; lia).
    rewrite (IH (pre ++ enc x) rest (x :: acc) fuel Ht) by (cbn [length] in Hfuel; lia).
    cbn [rev]. rewrite <- app_assoc. cbn [app]. f_equal. f_equal.
    rewrite lenN_app, sumN_cons, size_enc. lia.
Qed.

Lemma min_size_le t : forall v, has_type t v = true -> min_size t <= size v.
Proof.
  induction t as [| | | | | | | |t IH|fs IH|vs IH] using ty_ind'; intros v Hv;
    destruct v; try discriminate; cbn [min_size size]; try lia.
  cbn [has_type] in Hv. revert l Hv. induction IH as [|f fs Hf _ IHfs]; intros l Hv.
  - destruct l; [|discriminate]. cbn. lia.
  - destruct l as [|x l]; [discriminate|]. cbn [has_types] in Hv.
    apply andb_true_iff in Hv as [Hx Hv]. cbn [map]. rewrite !sumN_cons.
    specialize (Hf x Hx). specialize (IHfs l Hv). lia.
Qed.

Lemma len_le_concat t' (l : list val) :
  1 <= min_size t' -> forallb (has_type t') l = true -> lenN l <= lenN (concat (map enc l)).
Proof.
  intros Hmin Ht. induction l as [|x l IH]; [cbn [map concat]; rewrite lenN_nil; lia|].
  cbn [forallb] in Ht. apply andb_true_iff in Ht as [Hx Ht].
  cbn [map concat]. rewrite lenN_app, lenN_cons. specialize (IH Ht).
  pose proof (min_size_le t' x Hx) as M. rewrite size_enc in M. lia.
Qed.

Lemma slice_mid (pre x rest : bytes) :
  slice (pre ++ x ++ rest) (length pre) (length x) = Some x.
Proof.
  unfold slice. rewrite !app_length.
  destruct (Nat.leb_spec (length pre + length x) (length pre + (length x + length rest))); [|lia].
  rewrite skipn_app, skipn_all, Nat.sub_diag. cbn [skipn app].
  now rewrite firstn_app, Nat.sub_diag, firstn_all, firstn_O, app_nil_r.
Qed.

Lemma vec_alloc_ok g t' (l : list val) rest :
  ty_ok (TVec t') = true -> forallb (has_type t') l = true -> lenN l < two60 ->
  vec_alloc g t' (le64 (lenN l) ++ concat (map enc l) ++ rest) (lenN l) = Ok tt.
Proof.
  intros Hok Ht Hlen. cbn [ty_ok] in Hok. apply andb_true_iff in Hok as [Hmin _].
  assert (Hsz : lenN l <= lenN (concat (map enc l))) by (apply (len_le_concat t'); [lia|exact Ht]).
  assert (Hm : elem_mem t' <= 8) by (destruct t' as [| | | | | | | | |[|]|]; cbn; lia).
  unfold vec_alloc.
  set (bs := le64 (lenN l) ++ concat (map enc l) ++ rest).
  assert (Hbs : lenN l + 8 <= lenN bs).
  { unfold bs. rewrite !lenN_app, lenN_le64. lia. }
  set (cap := if g_cap_clamped g then N.min (lenN l) (lenN bs) else lenN l).
  assert (Hcap : cap <= lenN l) by (unfold cap; destruct (g_cap_clamped g); lia).
  unfold isize_max, two63, two60 in *.
  destruct (N.ltb_spec (9223372036854775808 - 1) (cap * elem_mem t')); [nia|].
  destruct (N.ltb_spec ((lenN bs + 1) * 64) (cap * elem_mem t')); [nia|].
  reflexivity.
Qed.

Lemma dec_blob_rt p g bs rest :
  lenN bs < two60 ->
  dec_blob p g (le64 (lenN bs) ++ bs ++ rest) = Ok (bs, 8 + lenN bs).
Proof.
  intros H. unfold dec_blob, two60 in *.
  rewrite rd64_le64 by (unfold two64; lia). cbn [obind].
  assert (E : (8 + lenN bs) mod two64 = 8 + lenN bs) by (apply N.mod_small; unfold two64; lia).
  rewrite E.
  destruct (N.leb_spec two64 (8 + lenN bs)) as [Hc|_]; [unfold two64 in Hc; lia|].
  rewrite andb_false_r. cbn [andb].
  assert (L : lenN (le64 (lenN bs) ++ bs ++ rest) = 8 + lenN bs + lenN rest)
    by (rewrite !lenN_app, lenN_le64; lia).
  rewrite L.
  replace (if g_add_checked g then 8 + lenN bs else 8 + lenN bs) with (8 + lenN bs) by (destruct (g_add_checked g); reflexivity).
  destruct (N.leb_spec 8 (8 + lenN bs)); [|lia].
  destruct (N.leb_spec (8 + lenN bs) (8 + lenN bs + lenN rest)); [|lia].
  cbn [andb]. f_equal. f_equal.
  replace 8%nat with (length (le64 (lenN bs))) by apply le64_length.
  rewrite skipn_app, skipn_all, Nat.sub_diag. cbn [skipn app].
  unfold lenN. rewrite Nat2N.id, firstn_app, Nat.sub_diag, firstn_all. cbn [firstn]. now rewrite app_nil_r.
Qed.

Lemma pick_rt p g vs :
  Forall (Forall (rt_at p g)) vs -> forallb (forallb ty_ok) vs = true ->
  forall k tag l pre rest,
    pick_types has_type vs k l = true ->
    lenN pre = 1 ->
    dec_pick (dec p g) (pre ++ concat (map enc l) ++ rest) tag vs k
    = Ok (VEnum tag l, 1 + sumN (map size l)).
Proof.
  induction 1 as [|fs vs Hfs _ IH]; intros Hok k tag l pre rest Ht Hpre.
  - destruct k; discriminate.
  - cbn [forallb] in Hok. apply andb_true_iff in Hok as [Hokf Hok].
    destruct k as [|k]; cbn [pick_types] in Ht; cbn [dec_pick].
    + rewrite <- Hpre. rewrite (dec_fields_rt p g (VEnum tag) fs Hfs Hokf l pre rest [] Ht).
      reflexivity.
    + apply IH; assumption.
Qed.

Theorem roundtrip p g : forall t, rt_at p g t.
Proof.
  induction t as [| | | | | | | |t IH|fs IH|vs IH] using ty_ind'; intros v rest Hok Hv;
    destruct v; try discriminate; cbn [has_type] in Hv; cbn [dec enc size].
  - rewrite rd64_le64 by (apply N.ltb_lt; exact Hv). reflexivity.
  - rewrite rd64_le64 by apply z2u_lt. cbn [obind]. rewrite u2z_z2u by lia. reflexivity.
  - rewrite rd64_le64 by (apply N.ltb_lt; exact Hv). reflexivity.
  - rewrite rd64_le64 by (apply N.ltb_lt; exact Hv). reflexivity.
  - cbn [app]. destruct b; reflexivity.
  - apply andb_true_iff in Hv as [Hu Hl]. apply N.ltb_lt in Hl.
    rewrite <- app_assoc, dec_blob_rt by exact Hl. cbn [obind]. now rewrite Hu.
  - apply N.ltb_lt in Hv. rewrite <- app_assoc, dec_blob_rt by exact Hv. reflexivity.
  - apply andb_true_iff in Hv as [Hv Hcanon]. apply andb_true_iff in Hv as [Hn Hs].
    apply N.ltb_lt in Hn. apply N.ltb_lt in Hs.
    unfold dec_time.
    pose proof (slice_mid [] (le64 secs) ((le32 nanos ++ [if after_epoch then x01 else x00]) ++ rest)) as S1.
    rewrite le64_length in S1. cbn [app length] in S1.
    pose proof (slice_mid (le64 secs) (le32 nanos) ([if after_epoch then x01 else x00] ++ rest)) as S2.
    rewrite le64_length, le32_length in S2.
    pose proof (slice_mid (le64 secs ++ le32 nanos) [if after_epoch then x01 else x00] rest) as S3.
    rewrite app_length, le64_length, le32_length in S3. cbn [length Nat.add] in S3.
    rewrite <- !app_assoc in *. rewrite S1, S2, S3.
    rewrite de_le64 by (unfold two63, two64 in *; lia).
    rewrite de_le32 by (unfold nanos_per_sec, two32 in *; lia).
    rewrite N.div_small by exact Hn. rewrite N.mod_small by exact Hn.
    replace (secs + 0) with secs by lia.
    destruct (N.leb_spec two64 secs) as [C|_]; [unfold two63, two64 in *; lia|].
    destruct after_epoch.
    + change (negb (b2n x01 =? 0)) with true. cbn iota.
      destruct (N.ltb_spec secs two63); [reflexivity|lia].
    + change (negb (b2n x00 =? 0)) with false. cbn iota.
      destruct (N.ltb_spec secs two63); [|lia]. cbn [orb].
      cbn [orb negb] in Hcanon. apply negb_true_iff in Hcanon. rewrite Hcanon. reflexivity.
  - apply andb_true_iff in Hv as [Hl Hlen]. apply N.ltb_lt in Hlen.
    rewrite <- app_assoc.
    rewrite rd64_le64 by (unfold two60, two64 in *; lia). cbn [obind].
    rewrite vec_alloc_ok by assumption. cbn [obind].
    cbn [ty_ok] in Hok. apply andb_true_iff in Hok as [Hmin Hok].
    pose proof (dec_loop_rt p g t IH Hok l (le64 (lenN l)) rest [] (S (length (le64 (lenN l) ++ concat (map enc l) ++ rest)))) as R.
    rewrite lenN_le64 in R. rewrite R; [reflexivity|exact Hl|].
    pose proof (len_le_concat t l ltac:(lia) Hl) as L. unfold lenN in L.
    rewrite !app_length. lia.
  - cbn [ty_ok] in Hok.
    pose proof (dec_fields_rt p g VStruct fs IH Hok l [] rest [] Hv) as R.
    cbn [app] in R. rewrite lenN_nil in R. rewrite R. reflexivity.
  - apply andb_true_iff in Hv as [Htag Hv]. apply Nat.ltb_lt in Htag.
    cbn [ty_ok] in Hok.
    assert (E : b2n (n2b (N.of_nat tag)) = N.of_nat tag) by (rewrite b2n_n2b; apply N.mod_small; lia).
    cbn [app]. rewrite E, Nat2N.id.
    pose proof (pick_rt p g vs IH Hok tag tag l [n2b (N.of_nat tag)] rest Hv eq_refl) as R.
    cbn [app] in R. exact R.
Qed.

(* ---------- totality of the guarded decoder (C21) ---------- *)

Definition good (t : ty) (bs : bytes) (o : outcome (val * N)) : Prop :=
  match o with
  | Ok (_, n) => min_size t <= n /\ n <= lenN bs
  | Err => True
  | _ => False
  end.

Definition total_at (p : profile) (t : ty) : Prop :=
  forall bs, lenN bs < two60 -> ty_ok t = true -> good t bs (dec p guards_fixed t bs).

Lemma lenN_skipn (bs : bytes) off : off <= lenN bs -> lenN (skipn (N.to_nat off) bs) = lenN bs - off.
Proof. intros H. unfold lenN in *. rewrite skipn_length. lia. Qed.

Lemma rd64_cases bs : (exists n, rd64 bs = Ok n /\ 8 <= lenN bs /\ n < two64) \/ rd64 bs = Err.
Proof.
  unfold rd64. destruct (slice bs 0 8) as [s|] eqn:E; [left|right; reflexivity].
  exists (de s). split; [reflexivity|]. split.
  - unfold slice in E. destruct (Nat.leb_spec (0 + 8) (length bs)); [|discriminate]. unfold lenN. lia.
  - apply de_lt64. eapply slice_length; exact E.
Qed.

Lemma dec_blob_total p bs :
  match dec_blob p guards_fixed bs with
  | Ok (_, n) => 8 <= n /\ n <= lenN bs
  | Err => True
  | _ => False
  end.
Proof.
  unfold dec_blob. destruct (rd64_cases bs) as [(n & -> & Hl & Hn)| ->]; cbn [obind guards_fixed g_add_checked negb andb]; [|exact I].
  destruct (N.leb_spec 8 (8 + n)); [|lia].
  destruct (N.leb_spec (8 + n) (lenN bs)); cbn [andb]; [lia|exact I].
Qed.

Lemma dec_fields_total p mk fs bs :
  Forall (total_at p) fs -> forallb ty_ok fs = true -> lenN bs < two60 ->
  forall off acc, off <= lenN bs ->
  match dec_fields (dec p guards_fixed) bs mk fs off acc with
  | Ok (_, n) => off + sumN (map min_size fs) <= n /\ n <= lenN bs
  | Err => True
  | _ => False
  end.
Proof.
  intros HF Hok Hbs. induction HF as [|f fs Hf _ IH]; intros off acc Hoff; cbn [dec_fields].
  - cbn [map]. rewrite sumN_nil. lia.
  - cbn [forallb] in Hok. apply andb_true_iff in Hok as [Hokf Hok].
    destruct (N.ltb_spec (lenN bs) off); [lia|].
    specialize (Hf (skipn (N.to_nat off) bs)).
    rewrite lenN_skipn in Hf by exact Hoff.
    specialize (Hf ltac:(lia) Hokf). unfold good in Hf.
    destruct (dec p guards_fixed f (skipn (N.to_nat off) bs)) as [[v sz]| | | |]; try exact Hf.
    cbv beta iota in Hf. rewrite lenN_skipn in Hf by exact Hoff.
    specialize (IH Hok (off + sz) (v :: acc) ltac:(lia)).
    destruct (dec_fields (dec p guards_fixed) bs mk fs (off + sz) (v :: acc)) as [[v' n]| | | |]; try exact IH.
    cbn [map]. rewrite sumN_cons. lia.
Qed.

Lemma dec_loop_total p t' bs :
  total_at p t' -> ty_ok t' = true -> 1 <= min_size t' -> lenN bs < two60 ->
  forall fuel k off acc, off <= lenN bs -> lenN bs < off + N.of_nat fuel ->
  match dec_loop (dec p guards_fixed) bs t' fuel k off acc with
  | Ok (_, n) => off <= n /\ n <= lenN bs
  | Err => True
  | _ => False
  end.
Proof.
  intros Ht Hok Hmin Hbs. induction fuel as [|fuel IH]; intros k off acc Hoff Hfuel.
  - lia.
  - cbn [dec_loop]. destruct (N.eqb_spec k 0); [lia|].
    destruct (N.ltb_spec (lenN bs) off); [lia|].
    specialize (Ht (skipn (N.to_nat off) bs)).
    rewrite lenN_skipn in Ht by exact Hoff.
    specialize (Ht ltac:(lia) Hok). unfold good in Ht.
    destruct (dec p guards_fixed t' (skipn (N.to_nat off) bs)) as [[v sz]| | | |]; try exact Ht.
    cbv beta iota in Ht. rewrite lenN_skipn in Ht by exact Hoff.
    specialize (IH (k - 1) (off + sz) (v :: acc) ltac:(lia) ltac:(lia)).
    destruct (dec_loop (dec p guards_fixed) bs t' fuel (k - 1) (off + sz) (v :: acc)) as [[v' n']| | | |]; try exact IH.
    lia.
Qed.

Lemma dec_pick_total p tag vs bs :
  Forall (Forall (total_at p)) vs -> forallb (forallb ty_ok) vs = true ->
  lenN bs < two60 -> 1 <= lenN bs ->
  forall k,
  match dec_pick (dec p guards_fixed) bs tag vs k with
  | Ok (_, n) => 1 <= n /\ n <= lenN bs
  | Err => True
  | _ => False
  end.
Proof.
  intros HF Hok Hbs H1. induction HF as [|fs vs Hfs _ IH]; intros k; cbn [dec_pick].
  - destruct k; exact I.
  - cbn [forallb] in Hok. apply andb_true_iff in Hok as [Hokf Hok].
    destruct k as [|k].
    + pose proof (dec_fields_total p (VEnum tag) fs bs Hfs Hokf Hbs 1 [] H1) as T.
      destruct (dec_fields (dec p guards_fixed) bs (VEnum tag) fs 1 []) as [[v n]| | | |]; try exact T. lia.
    + apply IH. exact Hok.
Qed.

Theorem dec_total p : forall t, total_at p t.
Proof.
  induction t as [| | | | | | | |t IH|fs IH|vs IH] using ty_ind'; intros bs Hbs Hok; cbn [dec]; unfold good.
  1-4: destruct (rd64_cases bs) as [(n & -> & Hl & Hn)| ->]; cbn [obind min_size]; [lia|exact I].
  - destruct bs as [|b bs]; [exact I|]. cbn [min_size]. rewrite lenN_cons. lia.
  - pose proof (dec_blob_total p bs) as T.
    destruct (dec_blob p guards_fixed bs) as [[s n]| | | |]; cbn [obind]; try exact T.
    destruct (utf8_valid s); [cbn [min_size]; lia|exact I].
  - pose proof (dec_blob_total p bs) as T.
    destruct (dec_blob p guards_fixed bs) as [[s n]| | | |]; cbn [obind]; try exact T.
  - unfold dec_time.
    destruct (slice bs 0 8) as [s8|] eqn:E8; [|exact I].
    destruct (slice bs 8 4) as [n4|] eqn:E4; [|exact I].
    destruct (slice bs 12 1) as [[|fl [|? ?]]|] eqn:E1; try exact I.
    assert (L : 13 <= lenN bs).
    { unfold slice in E1. destruct (Nat.leb_spec (12 + 1) (length bs)); [|discriminate]. unfold lenN. lia. }
    cbn [guards_fixed g_time_checked].
    repeat match goal with |- context [if ?c then _ else _] => destruct c end; cbn [min_size]; try exact I; lia.
  - cbn [ty_ok] in Hok. apply andb_true_iff in Hok as [Hmin Hok]. apply N.leb_le in Hmin.
    destruct (rd64_cases bs) as [(n & -> & Hl & Hn)| ->]; cbn [obind min_size]; [|exact I].
    unfold vec_alloc. cbn [guards_fixed g_cap_clamped].
    assert (Hm : elem_mem t <= 8) by (destruct t as [| | | | | | | | |[|]|]; cbn; lia).
    unfold isize_max, two63, two60 in *.
    destruct (N.ltb_spec (9223372036854775808 - 1) (N.min n (lenN bs) * elem_mem t)); [exfalso; nia|].
    destruct (N.ltb_spec ((lenN bs + 1) * 64) (N.min n (lenN bs) * elem_mem t)); [exfalso; nia|].
    cbn [obind].
    pose proof (dec_loop_total p t bs IH Hok Hmin Hbs (S (length bs)) n 8 [] Hl) as T.
    destruct (dec_loop (dec p guards_fixed) bs t (S (length bs)) n 8 []) as [[v m]| | | |]; try (apply T; unfold lenN; lia).
  - cbn [ty_ok] in Hok.
    pose proof (dec_fields_total p VStruct fs bs IH Hok Hbs 0 [] ltac:(lia)) as T.
    destruct (dec_fields (dec p guards_fixed) bs VStruct fs 0 []) as [[v n]| | | |]; try exact T.
  - cbn [ty_ok] in Hok. destruct bs as [|b bs]; [exact I|].
    pose proof (dec_pick_total p (N.to_nat (b2n b)) vs (b :: bs) IH Hok Hbs ltac:(rewrite lenN_cons; lia) (N.to_nat (b2n b))) as T.
    destruct (dec_pick (dec p guards_fixed) (b :: bs) (N.to_nat (b2n b)) vs (N.to_nat (b2n b))) as [[v n]| | | |]; try exact T.
Qed.

(* ---------- the unguarded decoder (the code before the fix: commits) is not total ---------- *)

Lemma pinned_vec_capacity_overflow :
  dec Release guards_pinned (TVec TI64) (le64 2305843009213693952) = Panic.
Proof. vm_compute. reflexivity. Qed.

Lemma pinned_vec_huge_alloc :
  dec Release guards_pinned (TVec TI64) (le64 1099511627776) = Alloc.
Proof. vm_compute. reflexivity. Qed.

Lemma pinned_time_duration_overflow :
  dec Release guards_pinned TTime (le64 18446744073709551615 ++ le32 4294967295 ++ [x01]) = Panic.
Proof. vm_compute. reflexivity. Qed.

Lemma pinned_string_add_overflow :
  dec Debug guards_pinned TStr (le64 18446744073709551615) = Panic.
Proof. vm_compute. reflexivity. Qed.

(* non-vacuity: a nested value meeting the hypotheses of the round trip *)
Example rt_example :
  let t := TStruct [TU64; TVec (TEnum [[]; [TStr; TI64]]); TTime] in
  let v := VStruct [VU64 7; VVec [VEnum 1 [VStr [x61; x62]; VI64 (-5)]; VEnum 0 []]; VTime 1 500000000 false] in
  ty_ok t = true /\ has_type t v = true /\
  dec Debug guards_fixed t (enc v ++ [xff]) = Ok (v, size v).
Proof. vm_compute. repeat split. Qed.
