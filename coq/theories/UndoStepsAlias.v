(* UndoStepsAlias.v — C13_step_inverse for the alias primitives of DbModel.v:
   insert_new_alias, insert_alias (with the recorded inverse for the previous holder),
   remove_alias.  Each is `undoable` and preserves well-formedness. *)
From Agdb Require Import Bytes BytesProofs DbValue Graph DbModel Revisions UndoBase UndoObs UndoAlias UndoKv
  UndoGraphBase UndoGraph UndoAbs UndoDb.
From Coq Require Import Permutation ZifyBool ZifyNat ZifyN.
Open Scope Z_scope.

Lemma asim_remove m m' a : asim m m' -> asim (imap_remove_key m a) (imap_remove_key m' a).
Proof. intros (H1 & H2 & H3). split; [|split]; auto using alias_ok_remove, alias_eq_remove. Qed.
Lemma asim_insert m m' a i : asim m m' -> asim (imap_insert m a i) (imap_insert m' a i).
Proof. intros (H1 & H2 & H3). split; [|split]; auto using alias_ok_insert, alias_eq_insert. Qed.
Lemma asim_eq_r m m' m'' : asim m m' -> alias_eq m' m'' -> asim m m''.
Proof. intros (H1 & H2 & H3) E. split; [|split]; eauto using alias_ok_eq, alias_eq_trans. Qed.
Lemma asim_self m : alias_ok m -> asim m m.
Proof. intros H. split; [|split]; auto using alias_eq_refl. Qed.

(* insert after removing the element's alias never collides with another holder of the id *)
Lemma alias_insert_remove_gen m a i :
  alias_ok m -> imap_key m i = None -> alias_eq (imap_remove_key (imap_insert m a i) a) (imap_remove_key m a).
Proof.
  intros Hok Hi. pose proof (alias_ok_insert m a i Hok) as Hok1. split; intros.
  - rewrite !imap_remove_value, imap_insert_value by assumption.
    destruct (bytes_eqb_spec a a0) as [->|]; [reflexivity|].
    destruct (imap_value m a0) as [j|] eqn:Ej; [|reflexivity].
    destruct (Zeqb_spec j i) as [->|]; [|reflexivity]. apply Hok in Ej. congruence.
  - rewrite !imap_remove_key_key, imap_insert_key by assumption.
    destruct (Zeqb_spec i i0) as [->|].
    + rewrite bytes_eqb_refl, Hi. reflexivity.
    + destruct (imap_key m i0) as [b|] eqn:Eb; [|reflexivity].
      destruct (bytes_eqb_spec b a) as [->|E]; [reflexivity|].
      destruct (bytes_eqb_spec b a); [contradiction | reflexivity].
Qed.

Lemma alias_remove_absent m a : alias_ok m -> imap_value m a = None -> alias_eq (imap_remove_key m a) m.
Proof.
  intros Hok Ha. split; intros.
  - rewrite imap_remove_value. destruct (bytes_eqb_spec a a0) as [->|]; auto.
  - rewrite imap_remove_key_key by assumption. destruct (imap_key m i) as [b|] eqn:Eb; [|reflexivity].
    destruct (bytes_eqb_spec b a) as [->|]; [|reflexivity]. apply Hok in Eb. congruence.
Qed.

Section Steps.
  Variable rv : revision.
  Hypothesis Hrv : fix_rollback_replace rv = true.
  Hypothesis Hsteal : fix_alias_steal_undo rv = true.

  (* generic alias step: the new map m1, one pushed command whose undo is an operation `op` on the map *)
  Lemma alias_step d m1 c (op : imap -> imap) :
    db_ok d -> alias_ok m1 ->
    (forall e, undo_one e c = ROk (with_aliases e (op (aliases e)))) ->
    (forall me, asim me m1 -> asim (op me) (aliases d)) ->
    let d1 := with_aliases (push_undo d c) m1 in
    db_ok d1 /\ undoable rv d d1.
  Proof.
    intros Hok Hm1 Hun Hop d1. destruct Hok as [G A V I]. split.
    - constructor; cbn; auto using asim_self.
    - exists [c]. split; [reflexivity|]. intros e [Ge Ae Ve Ie]. cbn in Ge, Ae, Ve, Ie.
      rewrite rollback_cmds_one by assumption. rewrite Hun. eexists. split; [reflexivity|].
      constructor; cbn; auto.
  Qed.

  Lemma step_insert_new_alias d id a :
    db_ok d -> imap_value (aliases d) a = None -> imap_key (aliases d) id = None ->
    db_ok (insert_new_alias d id a) /\ undoable rv d (insert_new_alias d id a).
  Proof.
    intros Hok Ha Hi. pose proof Hok as [G A V I]. destruct A as (Aok & _ & _).
    apply (alias_step d (imap_insert (aliases d) a id) (CRemoveAlias a) (fun m => imap_remove_key m a)); auto using alias_ok_insert.
    intros me Hme. eapply asim_eq_r; [apply asim_remove, Hme|]. apply alias_insert_then_remove; assumption.
  Qed.

  (* removing an existing alias (the model removes twice, like the code) *)
  Lemma step_remove_existing_alias d id a :
    db_ok d -> imap_value (aliases d) a = Some id ->
    let d1 := with_aliases (push_undo d (CInsertAlias id a)) (imap_remove_key (imap_remove_key (aliases d) a) a) in
    db_ok d1 /\ undoable rv d d1.
  Proof.
    intros Hok Ha. pose proof Hok as [G A V I]. destruct A as (Aok & _ & _).
    apply (alias_step d _ (CInsertAlias id a) (fun m => imap_insert m a id)); auto using alias_ok_remove.
    intros me Hme. eapply asim_eq_r; [apply asim_insert, Hme|].
    eapply alias_eq_trans; [|apply alias_remove_then_insert; eassumption].
    apply alias_eq_insert; auto using alias_ok_remove, alias_remove_twice.
  Qed.

  Lemma step_remove_alias d a :
    db_ok d -> db_ok (snd (remove_alias d a)) /\ undoable rv d (snd (remove_alias d a)).
  Proof.
    intros Hok. unfold remove_alias. destruct (imap_value (aliases d) a) as [id|] eqn:E; cbn [snd].
    - apply step_remove_existing_alias; assumption.
    - split; [assumption | apply undoable_refl; assumption].
  Qed.

  Lemma step_insert_alias d id a :
    db_ok d -> db_ok (insert_alias rv d id a) /\ undoable rv d (insert_alias rv d id a).
  Proof.
    intros Hok. unfold insert_alias. rewrite Hsteal.
    (* step 1: drop the element's previous alias *)
    set (d1 := match imap_key (aliases d) id with
               | Some old => with_aliases (push_undo d (CInsertAlias id old))
                               (imap_remove_key (imap_remove_key (aliases d) old) old)
               | None => d end).
    assert (H1 : (db_ok d1 /\ undoable rv d d1) /\ imap_key (aliases d1) id = None).
    { unfold d1. pose proof Hok as [G A V I]. destruct A as (Aok & _ & _).
      destruct (imap_key (aliases d) id) as [old|] eqn:E.
      - split; [apply step_remove_existing_alias; [assumption | apply Aok, E]|].
        cbn [aliases with_aliases]. pose proof (alias_ok_remove _ old Aok) as Aok1.
        rewrite !imap_remove_key_key, E, bytes_eqb_refl by assumption. reflexivity.
      - split; [split; [assumption | apply undoable_refl; assumption] | assumption]. }
    destruct H1 as ((Hok1 & U1) & Hid). clearbody d1.
    pose proof Hok1 as [G1 A1 V1 I1]. destruct A1 as (Aok1 & _ & _).
    (* step 2: record the holder, insert *)
    destruct (imap_value (aliases d1) a) as [holder|] eqn:Eh.
    - assert (H2 : db_ok (with_aliases (push_undo (push_undo d1 (CInsertAlias holder a)) (CRemoveAlias a))
                                        (imap_insert (aliases d1) a id)) /\
                   undoable rv d1 (with_aliases (push_undo (push_undo d1 (CInsertAlias holder a)) (CRemoveAlias a))
                                        (imap_insert (aliases d1) a id))).
      { split.
        - constructor; cbn [gr aliases vals indexes with_aliases push_undo]; auto.
          apply asim_self, alias_ok_insert, Aok1.
        - exists [CRemoveAlias a; CInsertAlias holder a]. split; [reflexivity|].
          intros e [Ge Ae Ve Ie]. cbn [gr aliases vals indexes with_aliases push_undo] in Ge, Ae, Ve, Ie.
          cbn [rollback_cmds undo_one].
          eexists. split; [reflexivity|].
          constructor; cbn [gr aliases vals indexes with_aliases push_undo]; auto.
          eapply asim_eq_r; [apply asim_insert, asim_remove, Ae|].
          eapply alias_eq_trans; [|apply alias_remove_then_insert; eassumption].
          apply alias_eq_insert; auto using alias_ok_remove, alias_ok_insert, alias_insert_remove_gen. }
      destruct H2 as (Hok2 & U2). split; [exact Hok2 | eapply undoable_trans; eassumption].
    - destruct (step_insert_new_alias d1 id a Hok1 Eh Hid) as (Hok2 & U2).
      split; [exact Hok2 | eapply undoable_trans; eassumption].
  Qed.
End Steps.
