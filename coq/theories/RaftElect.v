(* RaftElect.v — C27: quorum intersection (any cluster size) and election safety for histories without
   the two decidable defect classes `double_vote_b` and `stale_vote_b`. *)
From Coq Require Import NArith List Bool Lia Arith FinFun.
From Agdb Require Import Raft RaftWitness RaftProofs RaftInv.
Import ListNotations.
Open Scope N_scope.

(* ================================================================== quorum intersection *)

Lemma NoDup_app_disjoint : forall (A B : list N),
  NoDup A -> NoDup B -> (forall x, In x A -> ~ In x B) -> NoDup (A ++ B).
Proof.
  induction A as [|a A IH]; intros B HA HB HD; cbn; auto.
  inversion HA; subst. constructor.
  - intros H. apply in_app_or in H as [H|H]; auto. apply (HD a); cbn; auto.
  - apply IH; auto. intros x Hx. apply HD. cbn; auto.
Qed.

Lemma find_common : forall (A B : list N), (exists x, In x A /\ In x B) \/ (forall x, In x A -> ~ In x B).
Proof.
  induction A as [|a A IH]; intros B.
  - right. intros x [].
  - destruct (in_dec N.eq_dec a B) as [Hin|Hnin].
    + left. exists a. cbn; auto.
    + destruct (IH B) as [[x [H1 H2]]|H].
      * left. exists x. cbn; auto.
      * right. intros x [<-|Hx]; auto.
Qed.

(* two majorities of any universe share a member *)
Theorem quorum_intersection : forall (U A B : list N),
  NoDup A -> NoDup B -> incl A U -> incl B U ->
  (length U < 2 * length A)%nat -> (length U < 2 * length B)%nat ->
  exists x, In x A /\ In x B.
Proof.
  intros U A B HA HB IA IB QA QB.
  destruct (find_common A B) as [H|H]; auto. exfalso.
  assert (HN : NoDup (A ++ B)) by (apply NoDup_app_disjoint; auto).
  assert (HI : incl (A ++ B) U) by (apply incl_app; auto).
  pose proof (NoDup_incl_length HN HI) as HL. rewrite app_length in HL. lia.
Qed.

(* in the form used for clusters: node ids below n *)
Corollary quorum_intersection_n : forall (n : N) (A B : list N),
  NoDup A -> NoDup B -> (forall x, In x A -> x < n) -> (forall x, In x B -> x < n) ->
  n < 2 * lenN A -> n < 2 * lenN B -> exists x, In x A /\ In x B.
Proof.
  intros n A B HA HB IA IB QA QB. unfold lenN in *.
  apply (quorum_intersection (map N.of_nat (seq 0 (N.to_nat n)))); auto.
  - intros x Hx. apply in_map_iff. exists (N.to_nat x). split; [lia|]. apply in_seq. specialize (IA _ Hx). lia.
  - intros x Hx. apply in_map_iff. exists (N.to_nat x). split; [lia|]. apply in_seq. specialize (IB _ Hx). lia.
  - rewrite map_length, seq_length. lia.
  - rewrite map_length, seq_length. lia.
Qed.

(* ================================================================== what a handler can do to the election state *)

Lemma state_append_storage : forall nd log, n_state (append_storage nd log) = n_state nd. Proof. reflexivity. Qed.
Lemma state_commit_storage : forall nd i, n_state (commit_storage nd i) = n_state nd. Proof. reflexivity. Qed.

Lemma state_append_logs : forall logs nd r, n_state (fst (append_logs nd r logs)) = n_state nd.
Proof.
  induction logs as [|log rest IH]; intros nd r; cbn [append_logs]; auto.
  destruct (validate_log_append nd r log) as [doit|]; cbn [fst]; auto.
  rewrite IH. destruct (_ && _); destruct doit; reflexivity.
Qed.

Definition cl (s : cstate) : bool := is_candidate s || is_leader s.

Lemma become_follower_state : forall nd r,
  validate_term nd r = None -> exists l, n_state (become_follower nd r) = Follower l.
Proof.
  intros nd r V. unfold validate_term in V. unfold become_follower.
  destruct (N.ltb_spec (q_term r) (n_term nd)); [discriminate|].
  destruct (N.leb_spec (n_term nd) (q_term r)); [|lia]. eexists; reflexivity.
Qed.

Lemma request_keeps : forall rv nd r el,
  cl (n_state (fst (handle_request rv nd r el))) = true -> fst (handle_request rv nd r el) = nd.
Proof.
  intros rv nd r el. unfold handle_request. destruct (q_kind r) as [logs| | |].
  - unfold append_request. destruct (validate_term nd r) eqn:V; cbn [fst]; auto.
    rewrite state_append_logs. destruct (become_follower_state nd r V) as [l E].
    change (n_state (update_node (become_follower nd r) r)) with (n_state (become_follower nd r)).
    rewrite E. discriminate.
  - unfold heartbeat_request. destruct (validate_term nd r) eqn:V; cbn [fst]; auto.
    destruct (become_follower_state nd r V) as [l E].
    destruct (validate_log (become_follower nd r) r); cbn [fst].
    + rewrite E. discriminate.
    + destruct (_ <? _); cbn; rewrite E; discriminate.
  - intros _. unfold pre_vote_request.
    destruct (validate_log_for_vote nd r); destruct (n_state nd); cbn [fst]; auto; destruct (el <=? n_tt nd); auto.
  - unfold vote_request.
    destruct (validate_vote_state nd r); cbn [fst]; auto.
    destruct (validate_term_for_vote nd r); cbn [fst]; auto.
    destruct (validate_log_for_vote nd r); cbn [fst]; auto. discriminate.
Qed.

Lemma process_keeps : forall nd el due,
  cl (n_state (fst (process nd el due))) = true -> fst (process nd el due) = nd.
Proof.
  intros nd el due. unfold process.
  destruct (n_state nd) eqn:S; cbn [is_election andb fst]; auto;
    try (destruct (n_tt nd <? el); cbn [fst]; auto; discriminate).
  destruct (n_et nd <=? el); cbn [fst].
  - unfold pre_election. cbn [fst]. change (n_state (set_et (clear_votes nd) (n_hb (clear_votes nd)))) with (n_state nd).
    rewrite S. discriminate.
  - destruct (n_tt nd <? el); cbn [fst]; auto; discriminate.
Qed.

Lemma append_state : forall nd d, n_state (fst (append nd d)) = n_state nd.
Proof. intros. unfold append. cbn [fst]. destruct (_ =? 1); reflexivity. Qed.

Lemma state_commit : forall nd r, n_state (fst (commit nd r)) = n_state nd.
Proof. intros. unfold commit. destruct (_ && _); reflexivity. Qed.

Lemma state_ack_commit : forall rv nd r,
  n_state (fst (if ack_counts rv nd r then commit nd r else (nd, []))) = n_state nd.
Proof. intros. destruct (ack_counts rv nd r); [apply state_commit | reflexivity]. Qed.

(* the three ways a response can leave a node in Candidate state *)
Lemma response_candidate : forall rv nd r s,
  is_candidate (n_state (fst (handle_response rv nd r s))) = true ->
  fst (handle_response rv nd r s) = nd \/
  (n_state nd = Candidate /\ q_kind r = KVote /\ s_result s = ROk /\ vote_counts rv nd r = true /\
   fst (handle_response rv nd r s) = upd_peer nd (q_to r) (p_set_voted true)) \/
  (n_state nd = Election /\ fst (handle_response rv nd r s) = fst (election (upd_peer nd (q_to r) (p_set_voted true)))).
Proof.
  intros rv nd r s. unfold handle_response.
  destruct (n_state nd) eqn:S; destruct (q_kind r) eqn:K; destruct (s_result s) eqn:R; cbn [fst]; auto;
    try (rewrite state_ack_commit, S; discriminate);
    try (match goal with |- context [if n_term nd <? ?l then _ else _] => destruct (n_term nd <? l) end; cbn [fst]; auto; discriminate).
  - (* Candidate, Vote, Ok *)
    destruct (vote_counts rv nd r) eqn:VC; cbn [fst]; auto.
    unfold vote_received. destruct (_ <? _); cbn [fst]; [destruct (fix_ack_term rv); discriminate|]. intros _. right; left. auto.
  - (* Election, PreVote, Ok *)
    unfold pre_vote_received. destruct (_ <? _); cbn [fst].
    + intros _. right; right. auto.
    + change (n_state (upd_peer nd (q_to r) (p_set_voted true))) with (n_state nd). rewrite S. discriminate.
Qed.

(* the only way a response makes a node Leader *)
Lemma response_leader : forall rv nd r s,
  is_leader (n_state (fst (handle_response rv nd r s))) = true -> is_leader (n_state nd) = false ->
  n_state nd = Candidate /\ q_kind r = KVote /\ s_result s = ROk /\ vote_counts rv nd r = true /\
  n_size nd / 2 < votes (upd_peer nd (q_to r) (p_set_voted true)) /\
  n_term (fst (handle_response rv nd r s)) = q_term r.
Proof.
  intros rv nd r s. unfold handle_response.
  destruct (n_state nd) eqn:S; destruct (q_kind r) eqn:K; destruct (s_result s) eqn:R; cbn [fst];
    try (intros H; rewrite S in H; discriminate H);
    try (intros _ H; discriminate H);
    try (match goal with |- context [if n_term nd <? ?l then _ else _] => destruct (n_term nd <? l) end; cbn [fst];
         intros H; try rewrite S in H; discriminate H).
  - destruct (vote_counts rv nd r) eqn:VC; cbn [fst]; [|intros H; rewrite S in H; discriminate H].
    unfold vote_received.
    change (n_size (upd_peer nd (q_to r) (p_set_voted true))) with (n_size nd).
    destruct (N.ltb_spec (n_size nd / 2) (votes (upd_peer nd (q_to r) (p_set_voted true)))); cbn [fst].
    + intros _ _. repeat split; auto. destruct (fix_ack_term rv); reflexivity.
    + change (n_state (upd_peer nd (q_to r) (p_set_voted true))) with (n_state nd). rewrite S. discriminate.
  - unfold pre_vote_received. destruct (_ <? _); cbn [fst].
    + unfold election; cbn. discriminate.
    + change (n_state (upd_peer nd (q_to r) (p_set_voted true))) with (n_state nd). rewrite S. discriminate.
Qed.

(* ================================================================== histories *)

Lemma supports_app : forall a b, supports (a ++ b) = supports a ++ supports b.
Proof. intros. unfold supports. apply flat_map_app. Qed.

Lemma leaders_app : forall a b, leaders (a ++ b) = leaders a ++ leaders b.
Proof. intros. unfold leaders. apply flat_map_app. Qed.

Lemma supports_mono : forall a b x, In x (supports a) -> In x (supports (a ++ b)).
Proof. intros. rewrite supports_app. apply in_or_app; auto. Qed.

Lemma stale_app : forall a b, stale_vote_b (a ++ b) = stale_vote_b a || stale_vote_b b.
Proof. intros. unfold stale_vote_b. apply existsb_app. Qed.

(* node_ghosts: supports and leaders it contributes *)
Lemma range_commits_no_support : forall i b t l (f : N -> option entry),
  supports (map (fun idx => GCommit i b t idx (f idx)) l) = [] /\
  leaders (map (fun idx => GCommit i b t idx (f idx)) l) = [].
Proof. induction l; intros; cbn; auto. Qed.

Lemma supports_node_ghosts : forall old new,
  supports (node_ghosts old new) =
  if is_candidate (n_state new) && negb (is_candidate (n_state old) && (n_term old =? n_term new))
  then [(n_index new, n_term new, n_index new)] else [].
Proof.
  intros. unfold node_ghosts. rewrite !supports_app.
  destruct (range_commits_no_support (n_index new) (is_leader (n_state old) && is_leader (n_state new)) (n_term new)
              (range_from (n_commit old + 1) (N.to_nat (n_commit new - n_commit old))) (log_at (n_logs new))) as [E _].
  rewrite E, app_nil_r.
  destruct (is_candidate (n_state new) && negb (is_candidate (n_state old) && (n_term old =? n_term new)));
    destruct (is_leader (n_state new) && negb (is_leader (n_state old))); reflexivity.
Qed.

Lemma leaders_node_ghosts : forall old new,
  leaders (node_ghosts old new) =
  if is_leader (n_state new) && negb (is_leader (n_state old)) then [(n_index new, n_term new)] else [].
Proof.
  intros. unfold node_ghosts. rewrite !leaders_app.
  destruct (range_commits_no_support (n_index new) (is_leader (n_state old) && is_leader (n_state new)) (n_term new)
              (range_from (n_commit old + 1) (N.to_nat (n_commit new - n_commit old))) (log_at (n_logs new))) as [_ E].
  rewrite E, app_nil_r.
  destruct (is_candidate (n_state new) && negb (is_candidate (n_state old) && (n_term old =? n_term new)));
    destruct (is_leader (n_state new) && negb (is_leader (n_state old))); reflexivity.
Qed.

Lemma leaders_request_ghosts : forall c new r s, leaders (request_ghosts c new r s) = [].
Proof.
  intros. unfold request_ghosts. rewrite !leaders_app.
  destruct (is_vote (q_kind r) && is_ok (s_result s)); cbn [leaders flat_map app];
  destruct (is_append_or_hb (q_kind r) && is_ok (s_result s) && (q_term r <? voted_term (c_hist c) (n_index new))); cbn [leaders flat_map app];
  destruct (is_append_or_hb (q_kind r) && is_ok (s_result s)); cbn [leaders flat_map app]; auto;
  destruct (get_node c (q_from r)); auto; destruct (entries_eqb _ _); auto.
Qed.

Lemma leaders_response_ghosts : forall rv old r s, leaders (response_ghosts rv old r s) = [].
Proof. intros. unfold response_ghosts. destruct (_ && _); reflexivity. Qed.

Lemma supports_request_vote : forall c new r s,
  q_kind r = KVote -> s_result s = ROk ->
  In (n_index new, q_term r, q_from r) (supports (request_ghosts c new r s)).
Proof.
  intros c new r s K R. unfold request_ghosts. rewrite K, R. cbn. auto.
Qed.

(* ================================================================== voters of a peer table *)

Fixpoint voters (k : N) (ps : list peer) : list N :=
  match ps with
  | [] => []
  | p :: r => (if p_voted p then [k] else []) ++ voters (k + 1) r
  end.

Lemma voters_length : forall ps k, length (voters k ps) = length (filter p_voted ps).
Proof. induction ps as [|p r IH]; intros k; cbn; auto. destruct (p_voted p); cbn; rewrite IH; auto. Qed.

Lemma voters_In : forall ps k v, In v (voters k ps) ->
  exists j, v = k + N.of_nat j /\ (j < length ps)%nat /\ p_voted (nth j ps peer0) = true.
Proof.
  induction ps as [|p r IH]; intros k v H; cbn in H; [contradiction|].
  apply in_app_or in H as [H|H].
  - destruct (p_voted p) eqn:E; [|contradiction]. destruct H as [<-|[]]. exists 0%nat. cbn. split; [lia|split; [lia|auto]].
  - apply IH in H as [j [-> [Hj Hv]]]. exists (S j). cbn. split; [lia|split; [lia|auto]].
Qed.

Lemma voters_NoDup : forall ps k, NoDup (voters k ps).
Proof.
  induction ps as [|p r IH]; intros k; cbn; [constructor|].
  destruct (p_voted p); cbn; auto. constructor; auto.
  intros H. apply voters_In in H as [j [E _]]. lia.
Qed.

(* ================================================================== the invariant *)

Definition cand_ok (h : list ghost) (nd : node) : Prop :=
  n_state nd = Candidate ->
  In (n_index nd, n_term nd, n_index nd) (supports h) /\
  forall k, p_voted (nth k (n_peers nd) peer0) = true -> N.of_nat k <> n_index nd ->
            In (N.of_nat k, n_term nd, n_index nd) (supports h).

Definition resp_ok (h : list ghost) (m : msg) : Prop :=
  match m with
  | MResp r s => q_kind r = KVote -> s_result s = ROk -> In (q_to r, q_term r, q_from r) (supports h)
  | MReq _ => True
  end.

Definition leader_ok (sz : N) (h : list ghost) : Prop :=
  forall i t, In (i, t) (leaders h) ->
  exists V, NoDup V /\ (forall v, In v V -> v < sz /\ In (v, t, i) (supports h)) /\ sz < 2 * lenN V.

Record J (sz : N) (c : cluster) : Prop := {
  j_cinv : cinv c;
  j_size : forall nd, In nd (c_nodes c) -> n_size nd = sz /\ length (n_peers nd) = N.to_nat sz;
  j_cand : forall nd, In nd (c_nodes c) -> cand_ok (c_hist c) nd;
  j_resp : forall m, In m (c_net c) -> resp_ok (c_hist c) m;
  j_lead : leader_ok sz (c_hist c) }.

Lemma cand_ok_mono : forall h g nd, cand_ok h nd -> cand_ok (h ++ g) nd.
Proof.
  intros h g nd H S. destruct (H S) as [H1 H2]. split.
  - apply supports_mono; auto.
  - intros k Hk Hne. apply supports_mono; auto.
Qed.

Lemma resp_ok_mono : forall h g m, resp_ok h m -> resp_ok (h ++ g) m.
Proof. intros h g [r|r s] H; cbn in *; auto. intros K R. apply supports_mono; auto. Qed.

Lemma leader_ok_mono : forall sz h g, leaders g = [] -> leader_ok sz h -> leader_ok sz (h ++ g).
Proof.
  intros sz h g E H i t Hin. rewrite leaders_app, E, app_nil_r in Hin.
  destruct (H _ _ Hin) as [V [N1 [N2 N3]]]. exists V. repeat split; auto.
  - apply N2; auto.
  - apply supports_mono. apply N2; auto.
Qed.

Lemma In_upd_nth : forall A (f : A -> A) l k x,
  In x (upd_nth k f l) -> In x l \/ exists y, nth_error l k = Some y /\ x = f y.
Proof.
  induction l as [|a l IH]; intros k x H; destruct k; cbn in *; auto.
  - destruct H as [<-|H]; [right; eauto | left; auto].
  - destruct H as [<-|H]; [left; auto|]. apply IH in H as [H|H]; auto.
Qed.

(* a step that changes node i from nd to nd' and appends ghosts g, for nodes: generic reconstruction of J *)
Lemma J_nodes_put : forall sz c i nd nd' g,
  J sz c -> get_node c i = Some nd -> stable nd nd' ->
  cand_ok (c_hist c ++ g) nd' ->
  (forall x, In x (put_node c i nd') -> n_size x = sz /\ length (n_peers x) = N.to_nat sz) /\
  (forall x, In x (put_node c i nd') -> cand_ok (c_hist c ++ g) x).
Proof.
  intros sz c i nd nd' g Jc G S C. unfold put_node, get_node in *. split.
  - intros x Hx. apply In_upd_nth in Hx as [Hx|[y [Hy ->]]].
    + apply (j_size _ _ Jc); auto.
    + destruct S as (_ & L & Z & _). rewrite G in Hy. inversion Hy; subst y.
      destruct (j_size _ _ Jc nd (nth_error_In _ _ G)) as [Z1 L1]. split; congruence.
  - intros x Hx. apply In_upd_nth in Hx as [Hx|[y [Hy ->]]]; auto.
    apply cand_ok_mono. apply (j_cand _ _ Jc); auto.
Qed.

Lemma clear_from_voted_false : forall ps a self k,
  a + N.of_nat k <> self -> p_voted (nth k (clear_from a self ps) peer0) = false.
Proof.
  induction ps as [|p r IH]; intros a self k H; cbn [clear_from].
  - destruct k; reflexivity.
  - destruct k; cbn [nth].
    + destruct (N.eqb_spec a self); [lia|reflexivity].
    + apply IH. lia.
Qed.

Lemma half_lt : forall sz v : N, sz / 2 < v -> sz < 2 * v.
Proof.
  intros sz v H. pose proof (N.div_mod sz 2 ltac:(lia)) as E.
  pose proof (N.mod_lt sz 2 ltac:(lia)). lia.
Qed.

(* support for every voted row of the candidate's table after it has marked the answering node *)
Lemma nd1_support : forall h nd r,
  cand_ok h nd -> n_state nd = Candidate ->
  In (q_to r, n_term nd, n_index nd) (supports h) ->
  forall k, p_voted (nth k (n_peers (upd_peer nd (q_to r) (p_set_voted true))) peer0) = true ->
  In (N.of_nat k, n_term nd, n_index nd) (supports h).
Proof.
  intros h nd r C S Hr k Hk. destruct (C S) as [C1 C2].
  destruct (N.eq_dec (N.of_nat k) (n_index nd)) as [E|Hne]; [rewrite E; auto|].
  destruct (Nat.eq_dec (N.to_nat (q_to r)) k) as [E|Hne2].
  - replace (N.of_nat k) with (q_to r) by lia. auto.
  - apply C2; auto. unfold upd_peer in Hk. cbn [n_peers set_peers] in Hk.
    rewrite nth_upd_nth_neq in Hk by auto. exact Hk.
Qed.

(* a counted Vote/Ok answers a request of the candidate's own term: by the guard of `response()` in the repaired
   revision, by the absence of the `stale_vote_b` class otherwise *)
Lemma no_stale_response : forall rv h nd r s g,
  fix_vote_match rv = true \/ stale_vote_b (h ++ response_ghosts rv nd r s ++ g) = false ->
  n_state nd = Candidate -> q_kind r = KVote -> s_result s = ROk -> vote_counts rv nd r = true ->
  q_term r = n_term nd.
Proof.
  intros rv h nd r s g [F|H] S K R VC.
  - unfold vote_counts in VC. rewrite F in VC. cbn in VC. apply N.eqb_eq. exact VC.
  - rewrite !stale_app in H.
    apply orb_false_iff in H as [_ H]. apply orb_false_iff in H as [H _].
    unfold response_ghosts in H. rewrite S, K, R, VC in H. cbn in H.
    destruct (N.eqb_spec (q_term r) (n_term nd)); auto. cbn in H. discriminate.
Qed.

Lemma step_hist : forall rv c e, exists g, c_hist (step rv c e) = c_hist c ++ g.
Proof.
  intros rv c e. destruct e as [i el due | k el | k | k | i d]; cbn [step].
  - destruct (get_node c i); [|exists []; rewrite app_nil_r; auto].
    destruct (process _ _ _). eexists; reflexivity.
  - destruct (nth_error (c_net c) k) as [[r|r s]|]; [| |exists []; rewrite app_nil_r; auto].
    + destruct (get_node c (q_to r)); [|exists []; rewrite app_nil_r; auto].
      destruct (handle_request _ _ _). eexists; reflexivity.
    + destruct (get_node c (s_to s)); [|exists []; rewrite app_nil_r; auto].
      destruct (handle_response _ _ _). eexists; reflexivity.
  - exists []; rewrite app_nil_r; auto.
  - destruct (nth_error (c_net c) k); exists []; rewrite app_nil_r; auto.
  - destruct (get_node c i); [|exists []; rewrite app_nil_r; auto].
    destruct (is_leader _); [|exists []; rewrite app_nil_r; auto].
    destruct (append _ _). eexists; reflexivity.
Qed.

Lemma J_same_hist : forall sz c c',
  J sz c -> cinv c' -> c_nodes c' = c_nodes c -> c_hist c' = c_hist c ->
  (forall m, In m (c_net c') -> In m (c_net c)) -> J sz c'.
Proof.
  intros sz c c' Jc I N H M. constructor; auto.
  - rewrite N. apply (j_size _ _ Jc).
  - rewrite N, H. apply (j_cand _ _ Jc).
  - rewrite H. intros m Hm. apply (j_resp _ _ Jc). auto.
  - rewrite H. apply (j_lead _ _ Jc).
Qed.

Lemma resp_ok_reqs : forall h (net : list msg) reqs,
  (forall m, In m net -> resp_ok h m) -> forall m, In m (net ++ map MReq reqs) -> resp_ok h m.
Proof.
  intros h net reqs H m Hm. apply in_app_or in Hm as [Hm|Hm]; auto.
  apply in_map_iff in Hm as [q [<- _]]. exact I.
Qed.

Theorem J_step : forall rv sz c e,
  J sz c -> fix_vote_match rv = true \/ stale_vote_b (c_hist (step rv c e)) = false -> J sz (step rv c e).
Proof.
  intros rv sz c e Jc NS.
  pose proof (proj1 (step_inv rv c e (j_cinv _ _ Jc))) as CI.
  destruct (j_cinv _ _ Jc) as [HN HM].
  destruct e as [i el due | k el | k | k | i d]; cbn [step] in *.
  - (* Tick *)
    destruct (get_node c i) as [nd|] eqn:G; [|exact Jc].
    pose proof (good_process nd el due (proj1 (HN _ _ G))) as [_ St].
    pose proof (process_keeps nd el due) as Kp.
    destruct (process nd el due) as [nd' reqs]. cbn [fst snd] in *.
    assert (Cd : cand_ok (c_hist c ++ node_ghosts nd nd') nd').
    { intros S. assert (E : nd' = nd) by (apply Kp; rewrite S; reflexivity). subst nd'.
      apply cand_ok_mono; auto. apply (j_cand _ _ Jc). eapply nth_error_In; eauto. }
    destruct (J_nodes_put sz c i nd nd' (node_ghosts nd nd') Jc G St Cd) as [Z1 Z2].
    constructor; auto; cbn [c_nodes c_net c_hist].
    + apply resp_ok_reqs. intros m Hm. apply resp_ok_mono. apply (j_resp _ _ Jc); auto.
    + apply leader_ok_mono; [|apply (j_lead _ _ Jc)]. rewrite leaders_node_ghosts.
      destruct (is_leader (n_state nd')) eqn:L; cbn [andb]; auto.
      assert (E : nd' = nd) by (apply Kp; unfold cl; rewrite L; apply orb_true_r). subst nd'. rewrite L. reflexivity.
  - (* Deliver *)
    destruct (nth_error (c_net c) k) as [[r | r s]|] eqn:Hk; [| |exact Jc].
    + (* request *)
      pose proof (HM _ (nth_error_In _ _ Hk)) as Hok. cbn in Hok.
      destruct (get_node c (q_to r)) as [nd|] eqn:G.
      2:{ eapply J_same_hist; eauto. cbn. intros m Hm. eapply In_remove_nth; eauto. }
      pose proof (get_node_index _ _ _ HN G) as Ei.
      assert (Hne : q_from r <> n_index nd) by congruence.
      pose proof (good_request rv nd r el (proj1 (HN _ _ G)) Hne) as [_ St].
      pose proof (request_keeps rv nd r el) as Kp.
      destruct (handle_request rv nd r el) as [nd' s]. cbn [fst snd] in *.
      set (g := request_ghosts c nd' r s ++ node_ghosts nd nd') in *.
      assert (Cd : cand_ok (c_hist c ++ g) nd').
      { intros S. assert (E : nd' = nd) by (apply Kp; rewrite S; reflexivity). subst nd'.
        apply cand_ok_mono; auto. apply (j_cand _ _ Jc). eapply nth_error_In; eauto. }
      destruct (J_nodes_put sz c (q_to r) nd nd' g Jc G St Cd) as [Z1 Z2].
      constructor; auto; cbn [c_nodes c_net c_hist].
      * intros m Hm. apply in_app_or in Hm as [Hm|[<-|[]]].
        -- apply resp_ok_mono. apply (j_resp _ _ Jc). eapply In_remove_nth; eauto.
        -- cbn. intros K R. unfold g. rewrite supports_app. apply in_or_app. right.
           rewrite supports_app. apply in_or_app. left.
           destruct St as (Hi & _). rewrite <- Ei, <- Hi. apply supports_request_vote; auto.
      * apply leader_ok_mono; [|apply (j_lead _ _ Jc)]. unfold g.
        rewrite leaders_app, leaders_request_ghosts, leaders_node_ghosts. cbn [app].
        destruct (is_leader (n_state nd')) eqn:L; cbn [andb]; auto.
        assert (E : nd' = nd) by (apply Kp; unfold cl; rewrite L; apply orb_true_r). subst nd'. rewrite L. reflexivity.
    + (* response *)
      pose proof (HM _ (nth_error_In _ _ Hk)) as Hok. cbn in Hok. destruct Hok as [Hft Hto].
      destruct (get_node c (s_to s)) as [nd|] eqn:G.
      2:{ eapply J_same_hist; eauto. cbn. intros m Hm. eapply In_remove_nth; eauto. }
      pose proof (get_node_index _ _ _ HN G) as Ei.
      assert (Hne : q_to r <> n_index nd) by congruence.
      pose proof (good_response rv nd r s (proj1 (HN _ _ G)) Hne) as [_ St].
      pose proof (response_candidate rv nd r s) as RC.
      pose proof (response_leader rv nd r s) as RL.
      destruct (handle_response rv nd r s) as [nd' reqs]. cbn [fst snd] in *.
      set (g := response_ghosts rv nd r s ++ node_ghosts nd nd') in *.
      pose proof (j_cand _ _ Jc nd (nth_error_In _ _ G)) as Cold.
      pose proof (j_resp _ _ Jc _ (nth_error_In _ _ Hk)) as Rold. cbn in Rold.
      assert (Sup : n_state nd = Candidate -> q_kind r = KVote -> s_result s = ROk -> vote_counts rv nd r = true ->
                    q_term r = n_term nd /\ In (q_to r, n_term nd, n_index nd) (supports (c_hist c))).
      { intros S K R VC. assert (T : q_term r = n_term nd) by (eapply no_stale_response; eauto).
        split; auto. rewrite <- T. replace (n_index nd) with (q_from r) by congruence. auto. }
      assert (Cd : cand_ok (c_hist c ++ g) nd').
      { intros S. destruct (RC ltac:(rewrite S; reflexivity)) as [E|[(S0 & K & R & VC & E)|(S0 & E)]].
        - subst nd'. apply cand_ok_mono; auto.
        - destruct (Sup S0 K R VC) as [T Hs]. subst nd'. cbn [n_index n_term upd_peer set_peers].
          destruct (Cold S0) as [C1 _]. split; [apply supports_mono; auto|].
          intros j Hj _. apply supports_mono. eapply nd1_support; eauto.
        - split.
          + unfold g. rewrite !supports_app. apply in_or_app. right. apply in_or_app. right.
            rewrite supports_node_ghosts. rewrite S, S0. cbn. auto.
          + intros j Hj Hnj. exfalso. subst nd'. unfold election in Hj, Hnj. cbn in Hj, Hnj.
            rewrite clear_from_voted_false in Hj by (cbn; lia). discriminate. }
      destruct (J_nodes_put sz c (s_to s) nd nd' g Jc G St Cd) as [Z1 Z2].
      constructor; auto; cbn [c_nodes c_net c_hist].
      * apply resp_ok_reqs. intros m Hm. apply resp_ok_mono. apply (j_resp _ _ Jc). eapply In_remove_nth; eauto.
      * (* leaders *)
        destruct (is_leader (n_state nd') && negb (is_leader (n_state nd))) eqn:NL.
        2:{ apply leader_ok_mono; [|apply (j_lead _ _ Jc)]. unfold g.
            rewrite leaders_app, leaders_response_ghosts, leaders_node_ghosts, NL. reflexivity. }
        apply andb_true_iff in NL as [L1 L2]. apply negb_true_iff in L2.
        destruct (RL L1 L2) as (S0 & K & R & VC & Q & T').
        destruct (Sup S0 K R VC) as [T Hs].
        intros i0 t0 Hin. unfold g in Hin.
        rewrite !leaders_app, leaders_response_ghosts, leaders_node_ghosts, L1, L2 in Hin. cbn in Hin.
        apply in_app_or in Hin as [Hin|[Hin|[]]].
        -- destruct (j_lead _ _ Jc _ _ Hin) as [V [N1 [N2 N3]]]. exists V. repeat split; auto.
           ++ apply N2; auto.
           ++ apply supports_mono. apply N2; auto.
        -- inversion Hin; subst i0 t0; clear Hin.
           destruct St as (Hi & Hl & Hz & _).
           destruct (j_size _ _ Jc nd (nth_error_In _ _ G)) as [Zs Zl].
           exists (voters 0 (n_peers (upd_peer nd (q_to r) (p_set_voted true)))). repeat split.
           ++ apply voters_NoDup.
           ++ apply voters_In in H as [j [-> [Hj _]]]. unfold upd_peer in Hj. cbn in Hj.
              rewrite upd_nth_length in Hj. lia.
           ++ apply voters_In in H as [j [-> [_ Hv]]]. apply supports_mono.
              rewrite T', T, Hi. replace (0 + N.of_nat j) with (N.of_nat j) by lia.
              eapply nd1_support; eauto.
           ++ unfold lenN. rewrite voters_length. rewrite <- Zs. apply half_lt. exact Q.
  - (* Drop *)
    eapply J_same_hist; eauto. cbn. intros m Hm. eapply In_remove_nth; eauto.
  - (* Duplicate *)
    destruct (nth_error (c_net c) k) as [m0|] eqn:Hk; [|exact Jc].
    eapply J_same_hist; eauto. cbn. intros m Hm. apply in_app_or in Hm as [Hm|[<-|[]]]; auto.
    eapply nth_error_In; eauto.
  - (* ClientAppend *)
    destruct (get_node c i) as [nd|] eqn:G; [|exact Jc].
    destruct (is_leader (n_state nd)) eqn:L; [|exact Jc].
    pose proof (good_append nd d (proj1 (HN _ _ G))) as [_ St].
    pose proof (append_state nd d) as As.
    destruct (append nd d) as [nd' reqs]. cbn [fst snd] in *.
    assert (Cd : cand_ok (c_hist c ++ node_ghosts nd nd') nd').
    { intros S. rewrite As in S. rewrite S in L. discriminate. }
    destruct (J_nodes_put sz c i nd nd' (node_ghosts nd nd') Jc G St Cd) as [Z1 Z2].
    constructor; auto; cbn [c_nodes c_net c_hist].
    + apply resp_ok_reqs. intros m Hm. apply resp_ok_mono. apply (j_resp _ _ Jc); auto.
    + apply leader_ok_mono; [|apply (j_lead _ _ Jc)]. rewrite leaders_node_ghosts, As, L.
      cbn. reflexivity.
Qed.

Lemma run_hist : forall rv evs c, exists g, c_hist (run_from rv c evs) = c_hist c ++ g.
Proof.
  intros rv. induction evs as [|e evs IH]; intros c; cbn [run_from fold_left].
  - exists []. rewrite app_nil_r. reflexivity.
  - destruct (IH (step rv c e)) as [g2 E2]. destruct (step_hist rv c e) as [g1 E1].
    exists (g1 ++ g2). unfold run_from in E2. rewrite E2, E1, app_assoc. reflexivity.
Qed.

Lemma run_J : forall rv evs sz c,
  J sz c -> fix_vote_match rv = true \/ stale_vote_b (c_hist (run_from rv c evs)) = false -> J sz (run_from rv c evs).
Proof.
  intros rv. induction evs as [|e evs IH]; intros sz c Jc NS; cbn [run_from fold_left] in *; auto.
  apply IH; auto. apply J_step; auto.
  destruct NS as [F|NS]; [left; exact F|right].
  destruct (run_hist rv evs (step rv c e)) as [g E]. unfold run_from in E. rewrite E, stale_app in NS.
  apply orb_false_iff in NS as [NS _]. exact NS.
Qed.

Lemma init_J : forall size, size <> 1 -> J size (init_default size).
Proof.
  intros size Hs. apply N.eqb_neq in Hs as Hs'.
  constructor.
  - apply init_inv; auto.
  - intros nd Hnd. unfold init_default, init in Hnd. cbn [c_nodes] in Hnd.
    apply in_map_iff in Hnd as [k [<- _]]. cbn. rewrite map_length, seq_length. auto.
  - intros nd Hnd. unfold init_default, init in Hnd. cbn [c_nodes] in Hnd.
    apply in_map_iff in Hnd as [k [<- _]]. intros S. unfold new_node in S. cbn in S. rewrite Hs' in S. discriminate.
  - intros m [].
  - intros i t Hin. unfold init_default, init in Hin. cbn [c_hist] in Hin. rewrite Hs' in Hin. destruct Hin.
Qed.

(* C27, conditional form: a history in which no node supports two candidates in one term and no candidate
   counts a vote of another term has at most one leader per term — for every cluster size (other than the
   degenerate 1) and every adversarial event list *)
Theorem election_safety_cond : forall rv size evs,
  size <> 1 ->
  double_vote_b (c_hist (run rv size evs)) = false ->
  fix_vote_match rv = true \/ stale_vote_b (c_hist (run rv size evs)) = false ->
  election_safety (c_hist (run rv size evs)).
Proof.
  intros rv size evs Hs DV SV. unfold run in *.
  pose proof (run_J rv evs size _ (init_J size Hs) SV) as Jr.
  set (h := c_hist (run_from rv (init_default size) evs)) in *.
  intros i j t Hi Hj.
  destruct (j_lead _ _ Jr _ _ Hi) as [Vi [Ni [Si Qi]]].
  destruct (j_lead _ _ Jr _ _ Hj) as [Vj [Nj [Sj Qj]]].
  destruct (quorum_intersection_n size Vi Vj Ni Nj) as [x [Xi Xj]]; auto.
  { intros x Hx. apply Si; auto. }
  { intros x Hx. apply Sj; auto. }
  destruct (N.eq_dec i j) as [|Hne]; auto. exfalso.
  assert (D : double_vote_b h = true).
  { unfold double_vote_b. apply existsb_exists. exists (x, t, i). split; [apply Si; auto|].
    apply existsb_exists. exists (x, t, j). split; [apply Sj; auto|].
    rewrite !N.eqb_refl. cbn. apply negb_true_iff. apply N.eqb_neq. exact Hne. }
  congruence.
Qed.

Theorem election_safety_partial : forall rv size evs,
  size <> 1 ->
  double_vote_b (c_hist (run rv size evs)) = false ->
  stale_vote_b (c_hist (run rv size evs)) = false ->
  election_safety (c_hist (run rv size evs)).
Proof. intros rv size evs Hs DV SV. apply election_safety_cond; auto. Qed.

(* the hypotheses are satisfiable by a run that elects leaders in four different terms (every revision) *)
Lemma election_partial_example : forall rv,
  let h := c_hist (run rv w29_old_term_commit_n w29_old_term_commit) in
  double_vote_b h = false /\ stale_vote_b h = false /\ leaders h = [(0, 1); (2, 2); (0, 3); (2, 4)].
Proof. intros [[|] [|] [|]]; vm_compute; auto. Qed.
