(* HistoryInvProofs.v — the combined invariant along histories: sequences of queries each executed
   as its own transaction (`exec`) that do not fail, and query sequences inside one transaction
   (`txn_run` / `transaction`), failing ones included up to the point of failure. *)
From Agdb Require Import Bytes BytesProofs DbValue Graph DbModel Search Queries Revisions
  GraphSim GraphWf AliasProofs KvProofs KvDbProofs KvSelectProofs
  IndexProofs IndexDbProofs IndexDb3Proofs IndexDb4Proofs IndexInvProofs
  DbInvProofs QueryInvProofs SearchLiveProofs QStepProofs.
Open Scope Z_scope.

(* every query of the history is committed (returns a result, not an error) *)
Fixpoint all_succeed (rv : revision) (d : db) (qs : list query) : Prop :=
  match qs with
  | [] => True
  | q :: r => is_failure (snd (exec rv d q)) = false /\ all_succeed rv (fst (exec rv d q)) r
  end.

Section History.
  Variable rv : revision.
  Hypothesis Htrav : traversal_live rv.
  Hypothesis Hfix : fix_alias_nodes_only rv = true.

  Let Hsearch : search_live rv := search_live_of_traversal rv Htrav.

  Theorem history_Inv qs : forall d,
    Forall query_ok qs -> Inv d -> all_succeed rv d qs -> Inv (exec_all rv d qs).
  Proof.
    induction qs as [|q r IH]; intros d Hq Hd Hs; [exact Hd|].
    inversion Hq as [|? ? Hq1 Hq2]; subst. destruct Hs as [Hs1 Hs2].
    unfold exec_all. cbn [fold_left]. fold (exec_all rv (fst (exec rv d q)) r).
    apply IH; [exact Hq2| |exact Hs2]. now apply (exec_ok_Inv rv Hsearch Hfix).
  Qed.

  (* inside one transaction: the state after the queries run so far (the failing one included) *)
  Theorem txn_run_Inv qs : forall d acc,
    Forall query_ok qs -> Inv d -> Inv (fst (fst (txn_run rv d qs acc))).
  Proof.
    induction qs as [|q r IH]; intros d acc Hq Hd; [exact Hd|].
    inversion Hq as [|? ? Hq1 Hq2]; subst. cbn [txn_run].
    pose proof (exec_in_txn_Inv rv Hsearch Hfix d q Hq1 Hd) as H.
    destruct (exec_in_txn rv d q) as [d1 res]. cbn [fst] in H.
    destruct (is_failure res); [exact H|now apply IH].
  Qed.

  (* a committed transaction *)
  Theorem transaction_commit_Inv d qs :
    Forall query_ok qs -> Inv d ->
    (let '(d1, results, all_ok) := txn_run rv d qs [] in
     existsb (fun r => match r with QPanic => true | _ => false end) results = false /\ all_ok = true) ->
    Inv (fst (transaction rv d qs false)).
  Proof.
    intros Hq Hd. unfold transaction. pose proof (txn_run_Inv qs d [] Hq Hd) as H.
    destruct (txn_run rv d qs []) as [[d1 results] all_ok]. cbn [fst] in H.
    intros [Hp Hok]. rewrite Hp, Hok. cbn [andb negb fst]. exact H.
  Qed.
End History.

(* ---------- what the invariant gives at any reachable state ---------- *)
Lemma Inv_aliases d : Inv d -> alias_bij d /\ alias_nodes d.
Proof. intros (_ & H2 & H3 & _). now split. Qed.

Lemma Inv_distinct d : Inv d -> kvs_distinct (vals d).
Proof. intros (_ & _ & _ & H4 & _). exact H4. Qed.

Lemma Inv_index d : Inv d -> idx_exact d /\ vals_live d /\ idx_distinct d.
Proof. intros (_ & _ & _ & _ & H5). exact H5. Qed.

(* ---------- the statements pinned in Props/C09.v, C10.v, C11.v ---------- *)
Section Pinned.
  Variable rv : revision.
  Hypothesis Htrav : traversal_live rv.
  Hypothesis Hfix : fix_alias_nodes_only rv = true.

  Lemma history_from_new qs :
    Forall query_ok qs -> all_succeed rv db_new qs -> Inv (exec_all rv db_new qs).
  Proof. intros Hq Hs. apply (history_Inv rv Htrav Hfix qs db_new Hq Inv_new Hs). Qed.

  Lemma history_aliases qs :
    Forall query_ok qs -> all_succeed rv db_new qs ->
    alias_bij (exec_all rv db_new qs) /\ alias_nodes (exec_all rv db_new qs).
  Proof. intros Hq Hs. apply Inv_aliases. now apply history_from_new. Qed.

  Lemma history_values qs :
    Forall query_ok qs -> all_succeed rv db_new qs ->
    kvs_distinct (vals (exec_all rv db_new qs)) /\ vals_live (exec_all rv db_new qs).
  Proof.
    intros Hq Hs. pose proof (history_from_new qs Hq Hs) as H. split; [now apply Inv_distinct|apply (Inv_index _ H)].
  Qed.

  Lemma history_indexes qs :
    Forall query_ok qs -> all_succeed rv db_new qs ->
    let d := exec_all rv db_new qs in
    idx_inv d /\
    (forall key ids value id, idx_find (indexes d) key = Some ids ->
       count_occ Z.eq_dec (map snd (filter (fun p : dbvalue * Z => dbv_eqb (fst p) value) ids)) id =
       if live d id then match kvs_value (vals d) id key with
                         | Some v' => b2nat (dbv_eqb v' value)
                         | None => 0%nat
                         end
       else 0%nat) /\
    exec_select rv d SelectIndexes =
      QOk (lenZ (indexes d))
          [ {| e_id := 0; e_from := 0; e_to := 0;
               e_values := map (fun ix : index => (fst ix, DU64 (N.of_nat (count_having d (fst ix))))) (indexes d) |} ].
  Proof.
    intros Hq Hs. cbv zeta. pose proof (history_from_new qs Hq Hs) as H.
    pose proof (Inv_index _ H) as (A & B & C). pose proof (Inv_distinct _ H) as K.
    split; [exact (conj A (conj B C))|]. split.
    - intros key ids value id Hf. now apply index_search_exact.
    - now apply select_indexes_exact.
  Qed.

  (* the state inside a running transaction, after any prefix (a failing query included) *)
  Lemma transaction_state_Inv d qs acc :
    Forall query_ok qs -> Inv d -> Inv (fst (fst (txn_run rv d qs acc))).
  Proof. intros Hq Hd. now apply (txn_run_Inv rv Htrav Hfix). Qed.
End Pinned.
