(* RaftProofs.v — statements and proofs about the consensus model Raft.v (C27–C30). *)
From Coq Require Import NArith List Bool Lia Arith.
From Agdb Require Import Raft RaftWitness.
Import ListNotations.
Open Scope N_scope.

(* ================================================================== the properties as propositions *)

(* C27: no two distinct nodes ever were Leader with the same term *)
Definition election_safety (h : list ghost) : Prop :=
  forall i j t, In (i, t) (leaders h) -> In (j, t) (leaders h) -> i = j.

(* C28c: two nodes hold the same entry at every index both have committed *)
Definition committed_agree (c : cluster) : Prop :=
  forall a b, In a (c_nodes c) -> In b (c_nodes c) ->
  forall idx, 1 <= idx -> idx <= n_commit a -> idx <= n_commit b ->
  log_at (n_logs a) idx = log_at (n_logs b) idx.

(* C29: an entry committed by a leader is in the log of every node that becomes leader later *)
Definition leader_completeness (h : list ghost) : Prop :=
  forall h1 h2 i t idx e j t' log,
    h = h1 ++ GCommit i true t idx e :: h2 -> In (GLeader j t' log) h2 -> log_at log idx = e.

(* node i of a cluster *)
Definition commit_of (c : cluster) (i : nat) : N :=
  match nth_error (c_nodes c) i with Some nd => n_commit nd | None => 0 end.
Definition logs_of (c : cluster) (i : nat) : list entry :=
  match nth_error (c_nodes c) i with Some nd => n_logs nd | None => [] end.

(* ================================================================== boolean observations are sound *)

Lemma entry_eqb_eq : forall a b, entry_eqb a b = true <-> a = b.
Proof.
  intros [ai at_ ad] [bi bt bd]; unfold entry_eqb; cbn.
  rewrite !andb_true_iff, !N.eqb_eq. split.
  - intros [[-> ->] ->]; reflexivity.
  - intros H; inversion H; auto.
Qed.

Lemma oentry_eqb_eq : forall a b, oentry_eqb a b = true <-> a = b.
Proof.
  intros [a|] [b|]; cbn; try (split; congruence).
  rewrite entry_eqb_eq. split; congruence.
Qed.

Lemma election_safety_b_sound : forall h, election_safety h -> election_safety_b h = true.
Proof.
  intros h H. unfold election_safety_b.
  apply forallb_forall; intros [i t] Hi. apply forallb_forall; intros [j t'] Hj. cbn.
  destruct (N.eqb_spec t t') as [->|]; cbn; auto.
  apply N.eqb_eq. eapply H; eauto.
Qed.

Lemma election_safety_b_complete : forall h, election_safety_b h = true -> election_safety h.
Proof.
  intros h H i j t Hi Hj. unfold election_safety_b in H.
  rewrite forallb_forall in H. specialize (H _ Hi). rewrite forallb_forall in H. specialize (H _ Hj).
  cbn in H. rewrite N.eqb_refl in H. cbn in H. apply N.eqb_eq; exact H.
Qed.

Lemma range_from_In : forall k a x, In x (range_from a k) <-> a <= x /\ x < a + N.of_nat k.
Proof.
  induction k; intros a x; cbn [range_from].
  - cbn. lia.
  - cbn [In]. rewrite IHk. lia.
Qed.

Lemma committed_agree_b_sound : forall c, committed_agree c -> committed_agree_b c = true.
Proof.
  intros c H. unfold committed_agree_b.
  apply forallb_forall; intros a Ha. apply forallb_forall; intros b Hb.
  apply forallb_forall; intros idx Hidx. apply range_from_In in Hidx.
  apply oentry_eqb_eq. apply H; auto; lia.
Qed.

Lemma committed_agree_b_complete : forall c, committed_agree_b c = true -> committed_agree c.
Proof.
  intros c H a b Ha Hb idx H1 H2 H3. unfold committed_agree_b in H.
  rewrite forallb_forall in H. specialize (H _ Ha). rewrite forallb_forall in H. specialize (H _ Hb).
  rewrite forallb_forall in H. apply oentry_eqb_eq. apply H. apply range_from_In. lia.
Qed.

Lemma leader_completeness_b_sound : forall h, leader_completeness h -> leader_completeness_b h = true.
Proof.
  induction h as [|g h IH]; intros H; cbn [leader_completeness_b]; auto.
  assert (Hrest : leader_completeness h).
  { intros h1 h2 i t idx e j t' log -> Hin. eapply (H (g :: h1)); [reflexivity | exact Hin]. }
  specialize (IH Hrest).
  destruct g as [| | | i [|] t idx e | | |]; auto.
  rewrite IH, andb_true_r. apply forallb_forall; intros g Hg.
  destruct g as [| | j t' log | | | |]; auto.
  apply oentry_eqb_eq. eapply (H []); [reflexivity | exact Hg].
Qed.

Lemma leader_completeness_b_complete : forall h, leader_completeness_b h = true -> leader_completeness h.
Proof.
  induction h as [|g h IH]; intros H h1 h2 i t idx e j t' log Heq Hin.
  - destruct h1; discriminate.
  - destruct h1 as [|g1 h1]; cbn in Heq; inversion Heq; subst.
    + cbn [leader_completeness_b] in H. apply andb_true_iff in H as [H _].
      rewrite forallb_forall in H. specialize (H _ Hin). cbn in H. apply oentry_eqb_eq; exact H.
    + eapply IH; [|reflexivity|exact Hin].
      cbn [leader_completeness_b] in H.
      destruct g1 as [| | | ? [|] ? ? ? | | |]; auto. apply andb_true_iff in H as [_ H]; exact H.
Qed.

(* ================================================================== refutations (witness event lists, vm_compute)
   `rr_pinned` = raft.rs before the repairs, `rr_before_ack_fix` = after the two election repairs, `rr_fixed` = after
   these and the acknowledgement repair (Raft.v: raftrev).
   The witnesses of the election defects are about `rr_pinned` (and about the revisions with only one of the two
   election repairs, whatever the third flag); the witnesses of the log-replication defects `ack-from-diverged-log`
   and `old-term-commit` hold for EVERY revision; those of `commit-without-quorum` (RaftLogProofs.v) for every revision
   without the acknowledgement repair. *)

Definition rr_only_term (a : bool) : raftrev := mkRev true false a.    (* only `vote_request` adopts the term *)
Definition rr_only_match (a : bool) : raftrev := mkRev false true a.   (* only `response()` checks the term *)

(* C27 is false of the faithful model.  Witness 1 (3 nodes): node 2 answers Ok to the Vote requests of two
   candidates of term 1, because voting does not raise its term and `Voted(1)` is forgotten on term timeout. *)
Lemma w27_double_vote_facts :
  let h := c_hist (run rr_pinned w27_double_vote_n w27_double_vote) in
  election_safety_b h = false /\ double_vote_b h = true /\ stale_vote_b h = false.
Proof. vm_compute. auto. Qed.

(* Witness 2 (5 nodes): nobody supports two candidates in one term, but candidate 0 counts a stale Ok. *)
Lemma w27_stale_vote_facts :
  let h := c_hist (run rr_pinned w27_stale_vote_n w27_stale_vote) in
  election_safety_b h = false /\ double_vote_b h = false /\ stale_vote_b h = true.
Proof. vm_compute. auto. Qed.

Lemma C27_refuted_double_vote :
  ~ (forall size evs, election_safety (c_hist (run rr_pinned size evs))).
Proof.
  intros H. specialize (H w27_double_vote_n w27_double_vote).
  apply election_safety_b_sound in H. destruct w27_double_vote_facts as [F _]. cbv zeta in F. congruence.
Qed.

Lemma C27_refuted_stale_vote :
  exists size evs, double_vote_b (c_hist (run rr_pinned size evs)) = false /\
                   ~ election_safety (c_hist (run rr_pinned size evs)).
Proof.
  exists w27_stale_vote_n, w27_stale_vote. destruct w27_stale_vote_facts as [F [D _]]. cbv zeta in F, D.
  split; [exact D|]. intros H. apply election_safety_b_sound in H. congruence.
Qed.

(* each repair alone is not enough: with only the term check in `response()` the double-vote witness still has two
   leaders of term 1; with only the term adoption in `vote_request` the stale-vote witness still has *)
Lemma w27_single_repair_facts : forall a,
  election_safety_b (c_hist (run (rr_only_match a) w27_double_vote_n w27_double_vote)) = false /\
  election_safety_b (c_hist (run (rr_only_term a) w27_stale_vote_n w27_stale_vote)) = false /\
  election_safety_b (c_hist (run (mkRev false false a) w27_double_vote_n w27_double_vote)) = false.
Proof. intros [|]; vm_compute; auto. Qed.

(* every revision that lacks one of the two ELECTION repairs violates the property (the third flag, the acknowledgement
   repair, is irrelevant for elections: with both election repairs the property holds whatever its value,
   RaftVote.election_safety_elect_fixed) *)
Lemma C27_refuted_unless_both_repairs :
  forall rv, fix_vote_term rv && fix_vote_match rv = false ->
             ~ (forall size evs, election_safety (c_hist (run rv size evs))).
Proof.
  intros [[|] [|] a] Hne H; cbn in Hne; try discriminate.
  - specialize (H w27_stale_vote_n w27_stale_vote). apply election_safety_b_sound in H.
    destruct (w27_single_repair_facts a) as [_ [F _]]. unfold rr_only_term in F. congruence.
  - specialize (H w27_double_vote_n w27_double_vote). apply election_safety_b_sound in H.
    destruct (w27_single_repair_facts a) as [F _]. unfold rr_only_match in F. congruence.
  - specialize (H w27_double_vote_n w27_double_vote). apply election_safety_b_sound in H.
    destruct (w27_single_repair_facts a) as [_ [_ F]]. congruence.
Qed.

(* which of the five decidable defect classes occur in a history:
   (double vote, stale vote counted, ack from diverged log, old-term commit, ack below voted term) *)
Definition classes (h : list ghost) : bool * bool * bool * bool * bool :=
  (double_vote_b h, stale_vote_b h, ack_diverged_b h, old_term_commit_b h, ack_below_vote_b h).

(* C28c.  The first two witnesses do not depend on the election repairs: the same facts for every revision. *)
Lemma w28_facts_any : forall rv,
  (let c := run rv w28_ack_diverged_n w28_ack_diverged in
   committed_agree_b c = false /\ election_safety_b (c_hist c) = true /\
   classes (c_hist c) = (false, false, true, false, false)) /\
  (let c := run rv w28_old_term_commit_n w28_old_term_commit in
   committed_agree_b c = false /\ election_safety_b (c_hist c) = true /\
   classes (c_hist c) = (false, false, false, true, false)).
Proof. intros [[|] [|] [|]]; vm_compute; repeat split; reflexivity. Qed.

(* the witnesses through "voting does not raise the term" and through the election defects: before the repairs *)
Lemma w28_facts_pinned :
  (let c := run rr_pinned w28_ack_below_vote_n w28_ack_below_vote in
   committed_agree_b c = false /\ election_safety_b (c_hist c) = true /\
   classes (c_hist c) = (false, false, false, false, true)) /\
  (let c := run rr_pinned w28_double_vote_n w28_double_vote in committed_agree_b c = false /\ double_vote_b (c_hist c) = true) /\
  (let c := run rr_pinned w28_stale_vote_n w28_stale_vote in committed_agree_b c = false /\ stale_vote_b (c_hist c) = true).
Proof. vm_compute. repeat split; reflexivity. Qed.

Lemma C28c_refuted : forall rv, ~ (forall size evs, committed_agree (run rv size evs)).
Proof.
  intros rv H. specialize (H w28_ack_diverged_n w28_ack_diverged).
  apply committed_agree_b_sound in H. destruct (w28_facts_any rv) as [[F _] _]. cbv zeta in F. congruence.
Qed.

(* agreement fails in histories with one leader per term in which exactly one defect class occurs:
   independent causes *)
Definition refuted_agree_with (rv : raftrev) (cl : bool * bool * bool * bool * bool) : Prop :=
  exists size evs, let c := run rv size evs in
    election_safety (c_hist c) /\ classes (c_hist c) = cl /\ ~ committed_agree c.

Lemma C28c_refuted_ack_diverged : forall rv, refuted_agree_with rv (false, false, true, false, false).
Proof.
  intros rv. exists w28_ack_diverged_n, w28_ack_diverged. destruct (w28_facts_any rv) as [[F [E C]] _]. cbv zeta in *.
  repeat split; auto.
  - apply election_safety_b_complete; exact E.
  - intros H. apply committed_agree_b_sound in H. congruence.
Qed.

Lemma C28c_refuted_old_term_commit : forall rv, refuted_agree_with rv (false, false, false, true, false).
Proof.
  intros rv. exists w28_old_term_commit_n, w28_old_term_commit. destruct (w28_facts_any rv) as [_ [F [E C]]]. cbv zeta in *.
  repeat split; auto.
  - apply election_safety_b_complete; exact E.
  - intros H. apply committed_agree_b_sound in H. congruence.
Qed.

Lemma C28c_refuted_ack_below_vote : refuted_agree_with rr_pinned (false, false, false, false, true).
Proof.
  exists w28_ack_below_vote_n, w28_ack_below_vote. destruct w28_facts_pinned as [[F [E C]] _]. cbv zeta in *.
  repeat split; auto.
  - apply election_safety_b_complete; exact E.
  - intros H. apply committed_agree_b_sound in H. congruence.
Qed.

(* C29 *)
Lemma w29_facts_any : forall rv,
  (let h := c_hist (run rv w29_old_term_commit_n w29_old_term_commit) in
   leader_completeness_b h = false /\ election_safety_b h = true /\ classes h = (false, false, false, true, false)) /\
  (let h := c_hist (run rv w29_ack_diverged_n w29_ack_diverged) in
   leader_completeness_b h = false /\ election_safety_b h = true /\ classes h = (false, false, true, false, false)).
Proof. intros [[|] [|] [|]]; vm_compute; repeat split; reflexivity. Qed.

Lemma w29_facts_pinned :
  (let h := c_hist (run rr_pinned w29_ack_below_vote_n w29_ack_below_vote) in
   leader_completeness_b h = false /\ election_safety_b h = true /\ classes h = (false, false, false, false, true)) /\
  (let h := c_hist (run rr_pinned w29_double_vote_n w29_double_vote) in leader_completeness_b h = false /\ double_vote_b h = true) /\
  (let h := c_hist (run rr_pinned w29_stale_vote_n w29_stale_vote) in leader_completeness_b h = false /\ stale_vote_b h = true).
Proof. vm_compute. repeat split; reflexivity. Qed.

Lemma C29_refuted : forall rv, ~ (forall size evs, leader_completeness (c_hist (run rv size evs))).
Proof.
  intros rv H. specialize (H w29_old_term_commit_n w29_old_term_commit).
  apply leader_completeness_b_sound in H. destruct (w29_facts_any rv) as [[F _] _]. cbv zeta in F. congruence.
Qed.

Definition refuted_completeness_with (rv : raftrev) (cl : bool * bool * bool * bool * bool) : Prop :=
  exists size evs, let h := c_hist (run rv size evs) in
    election_safety h /\ classes h = cl /\ ~ leader_completeness h.

Lemma C29_refuted_old_term_commit : forall rv, refuted_completeness_with rv (false, false, false, true, false).
Proof.
  intros rv. exists w29_old_term_commit_n, w29_old_term_commit. destruct (w29_facts_any rv) as [[F [E C]] _]. cbv zeta in *.
  repeat split; auto.
  - apply election_safety_b_complete; exact E.
  - intros H. apply leader_completeness_b_sound in H. congruence.
Qed.

Lemma C29_refuted_ack_diverged : forall rv, refuted_completeness_with rv (false, false, true, false, false).
Proof.
  intros rv. exists w29_ack_diverged_n, w29_ack_diverged. destruct (w29_facts_any rv) as [_ [F [E C]]]. cbv zeta in *.
  repeat split; auto.
  - apply election_safety_b_complete; exact E.
  - intros H. apply leader_completeness_b_sound in H. congruence.
Qed.

Lemma C29_refuted_ack_below_vote : refuted_completeness_with rr_pinned (false, false, false, false, true).
Proof.
  exists w29_ack_below_vote_n, w29_ack_below_vote. destruct w29_facts_pinned as [[F [E C]] _]. cbv zeta in *.
  repeat split; auto.
  - apply election_safety_b_complete; exact E.
  - intros H. apply leader_completeness_b_sound in H. congruence.
Qed.
