(* StoredDbOpsLinkDec.v — proofs (stored database, part 29): so_covered is DECIDABLE: the boolean so_coveredb d c computes it
   (capacity, existence of the ids, keys not indexed, validity of the values, sizes, the element's property list). *)
From Agdb Require Import Bytes DbValue ValueIndex Graph DbModel Search Queries Revisions Collections CollValues CollVecBase CollElems CollValuesProofs
  StoredDbOps StoredDbOpsDb3 StoredDbOpsQuery StoredDbOpsLink StoredDbOpsLinkHist.
From Coq Require Import Bool ZifyBool ZifyNat ZifyN.
Open Scope Z_scope.

Definition not_indexedb (d : db) (k : dbvalue) : bool :=
  match idx_find (indexes d) k with None => true | Some _ => false end.
Definition kv_validb (x : kv) : bool := wf_value (fst x) && wf_value (snd x).
Definition kv_fitsb (d : db) (id : Z) : bool :=
  (8 + ce_size ce_dbkv * (lenN (kvs_get (vals d) id) + 1) <? two64)%N.
Definition not_indexed2b (d : db) (id : Z) (x : kv) : bool :=
  not_indexedb d (fst x) &&
  match fst (kvs_insert_or_replace (vals d) id x) with Some old => not_indexedb d (fst old) | None => true end.

Fixpoint kvs_okb (d : db) (id : Z) (l : list kv) : bool :=
  match l with
  | [] => true
  | x :: t => not_indexedb d (fst x) && kv_validb x && kv_fitsb d id && kvs_okb (insert_key_value d id x) id t
  end.
Fixpoint iors_okb (d : db) (id : Z) (l : list kv) : bool :=
  match l with
  | [] => true
  | x :: t => not_indexed2b d id x && kv_validb x && kv_fitsb d id && iors_okb (insert_or_replace_key_value d id x) id t
  end.

Definition is_nil {A} (l : list A) : bool := match l with [] => true | _ => false end.
Definition is_none {A} (o : option A) : bool := match o with None => true | _ => false end.

Definition so_coveredb (d : db) (c : so_cq) : bool :=
  (capacity (gr d) <? 1152921504606846976) &&
  match c with
  | CqInsertNode l => let id := fst (insert_node_db d) in kvs_okb (reserve_kv (snd (insert_node_db d)) id) id l
  | CqInsertValues id l => graph_index (gr d) id && iors_okb (reserve_kv d id) id l
  | CqInsertEdge f t => (0 <? f) && (0 <? t) && (is_node (gr d) f && is_node (gr d) t || is_nil (undo d))
  | CqRemove id =>
    negb (is_nil (kvs_get (vals d) id)) &&
    forallb (fun x : kv => not_indexedb d (fst x)) (kvs_get (vals d) id) &&
    ((id <? 0) && is_edge (gr d) id ||
     (0 <? id) && is_node (gr d) id && is_none (imap_key (aliases d) id) && (from (gr d) id =? 0) && (to (gr d) id =? 0))
  end.

Lemma not_indexedb_iff d k : not_indexedb d k = true <-> idx_find (indexes d) k = None.
Proof. unfold not_indexedb. destruct (idx_find (indexes d) k); split; congruence. Qed.

Lemma kv_validb_iff x : kv_validb x = true <-> el_valid law_dbkv x.
Proof. unfold kv_validb. change (el_valid law_dbkv x) with (wf_value (fst x) = true /\ wf_value (snd x) = true). apply andb_true_iff. Qed.

Lemma kv_fitsb_iff d id : kv_fitsb d id = true <-> so_kv_fits d id.
Proof. unfold kv_fitsb, so_kv_fits. apply N.ltb_lt. Qed.

Lemma not_indexed2b_iff d id x : not_indexed2b d id x = true <-> so_not_indexed d id x.
Proof.
  unfold not_indexed2b, so_not_indexed. rewrite andb_true_iff, not_indexedb_iff.
  destruct (fst (kvs_insert_or_replace (vals d) id x)) as [old|]; [rewrite not_indexedb_iff; tauto|intuition].
Qed.

Lemma kvs_okb_iff id l : forall d, kvs_okb d id l = true <-> so_kvs_ok d id l.
Proof.
  induction l as [|x t IH]; intros d; cbn [kvs_okb so_kvs_ok]; [intuition|].
  rewrite !andb_true_iff, IH, not_indexedb_iff, kv_validb_iff, kv_fitsb_iff. tauto.
Qed.

Lemma iors_okb_iff id l : forall d, iors_okb d id l = true <-> so_iors_ok d id l.
Proof.
  induction l as [|x t IH]; intros d; cbn [iors_okb so_iors_ok]; [intuition|].
  rewrite !andb_true_iff, IH, not_indexed2b_iff, kv_validb_iff, kv_fitsb_iff. tauto.
Qed.

Theorem so_coveredb_iff d c : so_coveredb d c = true <-> so_covered d c.
Proof.
  unfold so_coveredb, so_covered, so_cap_ok. rewrite andb_true_iff, Z.ltb_lt.
  destruct c as [l|id l|f t|id]; cbv zeta.
  - rewrite kvs_okb_iff. tauto.
  - rewrite andb_true_iff, iors_okb_iff. tauto.
  - rewrite !andb_true_iff, orb_true_iff, andb_true_iff, !Z.ltb_lt.
    assert (A : is_nil (undo d) = true <-> undo d = []) by (destruct (undo d); cbn [is_nil]; split; congruence).
    rewrite A. destruct (is_node (gr d) f), (is_node (gr d) t); cbn [andb]; intuition congruence.
  - rewrite !andb_true_iff, orb_true_iff, !andb_true_iff, !Z.ltb_lt, !Z.eqb_eq, negb_true_iff, forallb_forall.
    assert (A : is_nil (kvs_get (vals d) id) = false <-> kvs_get (vals d) id <> []).
    { destruct (kvs_get (vals d) id); cbn [is_nil]; split; congruence. }
    assert (B : is_none (imap_key (aliases d) id) = true <-> imap_key (aliases d) id = None).
    { destruct (imap_key (aliases d) id); cbn [is_none]; split; congruence. }
    assert (C : (forall x : kv, In x (kvs_get (vals d) id) -> not_indexedb d (fst x) = true) <->
                (forall x : kv, In x (kvs_get (vals d) id) -> idx_find (indexes d) (fst x) = None)).
    { split; intros H x Hx; apply not_indexedb_iff; apply H; exact Hx. }
    rewrite A, B, C. tauto.
Qed.
