(* LoadOutcome.v — the OUTCOME of loading a whole database from an ARBITRARY record store (C07 above the
   storage layer).  Definitions only (extracted; depends on no proof file).  Beside StoredDb.v: nothing there changes.

   db.rs, DbImpl::try_new_with_storage on a storage that opened (the storage layer is OpenFile.v's subject):

       if storage.value_size(StorageIndex(1)).is_err()        no root record: a NEW database is created in this
                                                               storage (write path)                       -> LFresh
       else index = storage.value::<DbStorageIndex>(1)         fails iff the record has fewer than 48 bytes; then
            or    legacy::convert_to_current_version           DbStorageIndexLegacy (40 bytes: no version word) is read,
                                                               MultiMapStorage::<DbId, DbKeyValue>::from_storage of ITS
                                                               values field; if that loads the conversion starts
                                                               writing                                     -> LLegacy
            graph   = DbGraph::from_storage(index.graph)
            aliases = DbIndexedMap::from_storage(index.aliases)
            indexes = DbIndexes::from_storage(index.indexes)   every entry: load_db_value(key), MultiMapStorage::from_storage
            values  = DbKeyValues::from_storage(index.values)  the vector of storage indexes only
       = `lo_open` (the handles; this is all DbImpl::new does).  The contents are read lazily by the queries; the
   COMPLETE read (`lo_read`) uses the calls of StoredDb.v: every vector through VecIterator (value(i).ok() until the
   first failure), the three vectors of every table, every element's DbVec<DbKeyValue>::from_storage + iter.

   The programs are the `cprog`s of Collections.v / StoredDb.v — DbVec::from_storage with its checked length
   (fix 2101e5c), the guarded slicing of the index records, VecValue::load on exactly storage_len() bytes — with ONE
   element class replaced: `lo_ce_dbvalue`, whose `load` follows DbValue::load_db_value access by access also on a
   damaged index (CollValues.ce_dbvalue decides by is_value whether the storage is read, which is right only for the
   indexes `store` produces):
       numeric type (2..4) with inline size <> 8      error, the storage is not read             (fix 51d65f2)
       type nibble 0 or 10..15                         `_ => panic!()`  — KNOWN class panic-db_value-explicit-panic;
                                                       an error when the revision flag vg_type_checked is set
                                                       (fixes/C07-value-type.diff, not applicable: the suite pins the panic)
       bytes / string (1, 5)                           inline when is_value, else the record `index()`
       vectors (6..9)                                  ALWAYS the record `index()` (the size nibble is not looked at)
   A program is run on the record map by `lo_run`: like `cp_run sd_step`, plus every buffer the storage allocates
   for a read (value_as_bytes: the record's size; value_as_bytes_at_size: the requested size, after the bounds
   check) is compared with a limit -> LoAlloc.  CDead is reached only from the value loader: LoPanic. *)
From Agdb Require Import Bytes Utf8 Codec DbValue ValueIndex Graph DbModel Records Storage StorageSpec Collections CollValues StoredDb.
Open Scope N_scope.

Inductive lo_res (A : Type) : Type :=
| LoOk (a : A)
| LoErr
| LoPanic
| LoAlloc (n : N).
Arguments LoOk {A} a.
Arguments LoErr {A}.
Arguments LoPanic {A}.
Arguments LoAlloc {A} n.

(* the buffer a read call allocates (None: the call fails before it allocates, or is not a read) *)
Definition lo_request (m : vmap) (o : sop) : option N :=
  match o with
  | SValue i => match m_get m i with Some x => Some (lenN x) | None => None end
  | SValueAtSize i off n =>
    match m_get m i with
    | Some x => if (lenN x <? off) || (lenN x <? off + n) then None else Some n
    | None => None
    end
  | _ => None
  end.

Fixpoint lo_run {A} (limit : N) (p : cprog A) (m : vmap) : lo_res A :=
  match p with
  | CRet a => LoOk a
  | CErr _ => LoErr
  | CDead => LoPanic
  | CDo o k =>
    match lo_request m o with
    | Some n => if limit <? n then LoAlloc n
                else match snd (sd_step m o) with ObPanic | ObFault => LoPanic | v => lo_run limit (k v) m end
    | None => match snd (sd_step m o) with ObPanic | ObFault => LoPanic | v => lo_run limit (k v) m end
    end
  end.

(* ---- DbValue as a vector element, exact on damaged indexes ---- *)
Definition lo_needs_record (ix : vindex) : bool :=
  match vi_type ix with
  | 1 | 5 => negb (is_value ix)
  | 6 | 7 | 8 | 9 => true
  | _ => false
  end.

Definition lo_value_load (g : vguards) (ix : vindex) : cprog dbvalue :=
  if is_numeric_type (vi_type ix) && negb (vi_size ix =? 8) then
    (if vg_num_checked g then CErr CvData else CDead)
  else if negb (is_known_type (vi_type ix)) then
    (if vg_type_checked g then CErr CvData else CDead)
  else if lo_needs_record ix then
    b <~ cp_value (vi_index ix) ;; cp_of_outcome (load_db_value ix [(vi_index ix, b)])
  else cp_of_outcome (load_db_value ix []).

Definition lo_ce_dbvalue (g : vguards) : cv_elem dbvalue :=
  {| ce_size := 16;
     ce_store := ce_store ce_dbvalue;
     ce_load := fun bs => ix <~ cp_of_outcome (vi_deserialize bs) ;; lo_value_load g ix;
     ce_remove := ce_remove ce_dbvalue |}.
Definition lo_ce_dbkv (g : vguards) : cv_elem (dbvalue * dbvalue) := ce_pair (lo_ce_dbvalue g) (lo_ce_dbvalue g).

(* ---- open: the handles ---- *)
Record lo_index_h := { lih_key : dbvalue; lih_ids : cm_data }.
Record lo_handles := {
  lh_graph : cg_data;
  lh_aliases1 : cm_data;
  lh_aliases2 : cm_data;
  lh_indexes : list lo_index_h;
  lh_values : cv_vec
}.

Section Rev.
  Variable g : vguards.

  (* DbIndex::from_storage on one DbIndexStorageIndex (24 bytes) *)
  Definition lo_index_open (e : bytes) : cprog lo_index_h :=
    key <~ ce_load (lo_ce_dbvalue g) (firstn 16 e) ;;
    mi <~ cp_de64 (skipn 16 e) ;;
    d <~ cm_from_storage dbvalue Z (lo_ce_dbvalue g) ce_i64 mi ;;
    CRet {| lih_key := key; lih_ids := d |}.
  Fixpoint lo_index_list_open (es : list bytes) : cprog (list lo_index_h) :=
    match es with
    | [] => CRet []
    | e :: r => x <~ lo_index_open e ;; t <~ lo_index_list_open r ;; CRet (x :: t)
    end.
  Definition lo_indexes_open (i : N) : cprog (list lo_index_h) :=
    es <~ sd_vec_load bytes (ce_raw 24) i ;; lo_index_list_open es.

  Definition lo_open_root (r : cr_root) : cprog lo_handles :=
    gd <~ cg_from_storage (cr_graph r) ;;
    a1 <~ cm_from_storage bytes Z ce_string ce_i64 (cr_aliases1 r) ;;
    a2 <~ cm_from_storage Z bytes ce_i64 ce_string (cr_aliases2 r) ;;
    ix <~ lo_indexes_open (cr_indexes r) ;;
    vs <~ cv_from_storage N ce_u64 (cr_values r) ;;
    CRet {| lh_graph := gd; lh_aliases1 := a1; lh_aliases2 := a2; lh_indexes := ix; lh_values := vs |}.

  (* ---- the complete read of an opened database ---- *)
  Definition lo_map_read (K V : Type) (EK : cv_elem K) (EV : cv_elem V) (d : cm_data) : cprog (list (K * V)) :=
    ss <~ cv_values cm_st ce_state (cm_states d) ;;
    ks <~ cv_values K EK (cm_keys d) ;;
    vs <~ cv_values V EV (cm_values d) ;;
    CRet (sd_entries ss ks vs).
  Definition lo_graph_read (d : cg_data) : cprog graph :=
    f <~ cv_values Z ce_i64 (cg_from d) ;;
    t <~ cv_values Z ce_i64 (cg_to d) ;;
    fm <~ cv_values Z ce_i64 (cg_from_meta d) ;;
    tm <~ cv_values Z ce_i64 (cg_to_meta d) ;;
    CRet {| g_from := f; g_to := t; g_fmeta := fm; g_tmeta := tm |}.
  Fixpoint lo_index_list_read (hs : list lo_index_h) : cprog (list index) :=
    match hs with
    | [] => CRet []
    | h :: r =>
      ids <~ lo_map_read dbvalue Z (lo_ce_dbvalue g) ce_i64 (lih_ids h) ;;
      t <~ lo_index_list_read r ;;
      CRet ((lih_key h, ids) :: t)
    end.
  Fixpoint lo_kvs_read (idxs : list N) : cprog (list (list kv)) :=
    match idxs with
    | [] => CRet []
    | i :: r =>
      l <~ (if i =? 0 then CRet [] else sd_vec_load kv (lo_ce_dbkv g) i) ;;
      t <~ lo_kvs_read r ;;
      CRet (l :: t)
    end.
  Definition lo_read (h : lo_handles) : cprog db :=
    gr0 <~ lo_graph_read (lh_graph h) ;;
    a1 <~ lo_map_read bytes Z ce_string ce_i64 (lh_aliases1 h) ;;
    a2 <~ lo_map_read Z bytes ce_i64 ce_string (lh_aliases2 h) ;;
    ix <~ lo_index_list_read (lh_indexes h) ;;
    idxs <~ cv_values N ce_u64 (lh_values h) ;;
    vs <~ lo_kvs_read idxs ;;
    CRet {| gr := gr0; aliases := {| k2v := a1; v2k := a2 |}; vals := vs; indexes := ix; undo := [] |}.
End Rev.

(* ---- the outcome ---- *)
Inductive lo_outcome :=
| Loaded (d : db)            (* DbImpl::new returns a database and every component reads to the end *)
| LErr                       (* an error (Result::Err): at open, or — see lo_phase — when a component is read *)
| LPanic                     (* panic!() in DbValue::load_db_value: unknown type nibble *)
| LHugeAlloc (n : N)         (* a read buffer above the limit *)
| LFresh                     (* no root record: a new database is created (write path, not a load) *)
| LLegacy.                   (* a 40..47 byte root record whose values table loads: the legacy conversion starts writing *)

Definition lo_of_res {A} (f : A -> lo_outcome) (r : lo_res A) : lo_outcome :=
  match r with LoOk a => f a | LoErr => LErr | LoPanic => LPanic | LoAlloc n => LHugeAlloc n end.

(* the outcome of DbImpl::new alone: Some handles = it returns Ok *)
Definition lo_open (g : vguards) (limit : N) (m : vmap) (root : N) : lo_res lo_handles + lo_outcome :=
  match m_get m root with
  | None => Datatypes.inr LFresh
  | Some b =>
    if limit <? lenN b then Datatypes.inr (LHugeAlloc (lenN b))
    else if lenN b <? 40 then Datatypes.inr LErr
    else if lenN b <? 48 then
      (* legacy::convert_to_current_version: values = the fifth word *)
      Datatypes.inr (lo_of_res (fun _ => LLegacy)
                      (lo_run limit (cm_from_storage Z kv ce_i64 (lo_ce_dbkv g) (de (firstn 8 (skipn 32 b)))) m))
    else Datatypes.inl (lo_run limit (r <~ cr_de b ;; lo_open_root g r) m)
  end.

Definition load_outcome_g (g : vguards) (limit : N) (m : vmap) (root : N) : lo_outcome :=
  match lo_open g limit m root with
  | Datatypes.inr o => o
  | Datatypes.inl r => lo_of_res (fun h => lo_of_res Loaded (lo_run limit (lo_read g h) m)) r
  end.

(* 0 = at open (DbImpl::new itself ends this way), 1 = while the opened database is read completely, 2 = loaded *)
Definition lo_phase (g : vguards) (limit : N) (m : vmap) (root : N) : N :=
  match lo_open g limit m root with
  | Datatypes.inr _ => 0
  | Datatypes.inl (LoOk h) => match lo_run limit (lo_read g h) m with LoOk _ => 2 | _ => 1 end
  | Datatypes.inl _ => 0
  end.

Fixpoint lo_total (m : vmap) : N := match m with [] => 0 | (_, b) :: r => lenN b + lo_total r end.
(* the harness's limit, in terms of the record bytes alone *)
Definition lo_limit (m : vmap) : N := 65536 + 1024 * lo_total m.

(* the tree as it is: numeric check in, `_ => panic!()` pinned by the suite *)
Definition load_outcome (m : vmap) (root : N) : lo_outcome := load_outcome_g vg_current (lo_limit m) m root.
Definition lo_open_class (m : vmap) (root : N) : N :=
  (* 0 opens, 1 error, 2 panic, 3 allocation, 4 fresh, 5 legacy *)
  match lo_open vg_current (lo_limit m) m root with
  | Datatypes.inl (LoOk _) => 0
  | Datatypes.inl LoErr | Datatypes.inr LErr => 1
  | Datatypes.inl LoPanic | Datatypes.inr LPanic => 2
  | Datatypes.inl (LoAlloc _) | Datatypes.inr (LHugeAlloc _) => 3
  | Datatypes.inr LFresh => 4
  | Datatypes.inr LLegacy => 5
  | Datatypes.inr (Loaded _) => 0
  end.
