(* ElementsSearchProofs.v — C18 (search part): the elements search of Search.v is a
   positional filter of `elements (gr d)`.

   * condition evaluation never yields `Finish` (only the limit handlers do), so the
     elements loop with the default handler runs over the whole element list;
   * `elements_search rv d conds HDefault = ifilter p (elements (gr d)) 0` where
     `p i k` = "the conditions accept element i at distance k" and the distance of
     an element is its position in the element list (ElementSearch::search uses
     `graph.iter().enumerate()`);
   * `ifilter` keeps a sub-sequence (same order, nothing new, nothing duplicated)
     and is a plain `filter` when the predicate ignores the distance;
   * with limit/offset (no order_by) the streamed result is the slice of the filtered list. *)
From Agdb Require Import Bytes DbValue Graph DbModel Search.
From Coq Require Import ZifyBool ZifyNat Sorted.
Open Scope Z_scope.

(* ------------------------------------------------------------------ *)
(* 1. SearchControl values without Finish                              *)
(* ------------------------------------------------------------------ *)

Definition sc_nofinish (c : sc) : Prop := match c with Finish _ => False | _ => True end.

Lemma sc_and_nofinish : forall a b, sc_nofinish a -> sc_nofinish b -> sc_nofinish (sc_and a b).
Proof. intros [x|x|x] [y|y|y]; cbn; auto. Qed.

Lemma sc_or_nofinish : forall a b, sc_nofinish a -> sc_nofinish b -> sc_nofinish (sc_or a b).
Proof. intros [x|x|x] [y|y|y]; cbn; auto. Qed.

Lemma sc_flip_nofinish : forall a, sc_nofinish a -> sc_nofinish (sc_flip a).
Proof. intros [x|x|x]; cbn; auto. Qed.

Lemma compare_distance_nofinish : forall c right, sc_nofinish (compare_distance c right).
Proof. intros [n|n|n|n|n|n] right; cbn; destruct (right ?= n); cbn; auto. Qed.

Lemma sc_nofinish_neq : forall c, sc_nofinish c -> forall b, c <> Finish b.
Proof. intros [x|x|x] H b; cbn in H; [discriminate|contradiction|discriminate]. Qed.

(* ------------------------------------------------------------------ *)
(* 2. condition evaluation                                             *)
(* ------------------------------------------------------------------ *)

Definition cond_payload (c : cond) : cond_data := match c with Cond _ _ d => d end.

Section CondInd.
  Variable P : cond_data -> Prop.
  Hypothesis HDistance : forall c, P (CDistance c).
  Hypothesis HEdge : P CEdge.
  Hypothesis HEdgeCount : forall c, P (CEdgeCount c).
  Hypothesis HEdgeCountFrom : forall c, P (CEdgeCountFrom c).
  Hypothesis HEdgeCountTo : forall c, P (CEdgeCountTo c).
  Hypothesis HIds : forall ids, P (CIds ids).
  Hypothesis HKeyValue : forall key op value, P (CKeyValue key op value).
  Hypothesis HKeys : forall keys, P (CKeys keys).
  Hypothesis HNode : P CNode.
  Hypothesis HWhere : forall conds, Forall (fun c => P (cond_payload c)) conds -> P (CWhere conds).

  Fixpoint cond_data_ind' (c : cond_data) : P c :=
    match c with
    | CDistance v => HDistance v
    | CEdge => HEdge
    | CEdgeCount v => HEdgeCount v
    | CEdgeCountFrom v => HEdgeCountFrom v
    | CEdgeCountTo v => HEdgeCountTo v
    | CIds ids => HIds ids
    | CKeyValue key op value => HKeyValue key op value
    | CKeys keys => HKeys keys
    | CNode => HNode
    | CWhere conds =>
        HWhere conds
          ((fix all (l : list cond) : Forall (fun c => P (cond_payload c)) l :=
              match l with
              | [] => Forall_nil _
              | Cond lg md data :: r =>
                  Forall_cons (Cond lg md data) (cond_data_ind' data) (all r)
              end) conds)
    end.
End CondInd.

(* the modifier step and the fold of evaluate_conditions, named *)
Definition apply_modifier (md : modifier) (distance : Z) (result control0 : sc) : sc :=
  match md with
  | MBeyond => if sc_true control0 || (distance =? 0) then Continue (sc_true result)
               else Stop (sc_true result)
  | MNot => sc_flip control0
  | MNotBeyond => if sc_true control0 then Stop (sc_true result)
                  else Continue (sc_true result)
  | MNone => control0
  end.

Definition apply_logic (lg : logic) (result control : sc) : sc :=
  match lg with LAnd => sc_and result control | LOr => sc_or result control end.

Fixpoint eval_list (rv : revision) (d : db) (index distance : Z) (cs : list cond) (result : sc) : sc :=
  match cs with
  | [] => result
  | Cond lg md data :: r =>
      eval_list rv d index distance r
        (apply_logic lg result (apply_modifier md distance result (eval_data rv d index distance data)))
  end.

Lemma eval_data_where : forall rv d index distance conds,
  eval_data rv d index distance (CWhere conds) = eval_list rv d index distance conds (Continue true).
Proof.
  intros rv d index distance conds. cbn [eval_data].
  generalize (Continue true) as result.
  induction conds as [|[lg md data] r IH]; intro result.
  - reflexivity.
  - cbn [eval_list]. rewrite <- IH. reflexivity.
Qed.

Lemma eval_conditions_eval_list : forall rv d index distance conds,
  eval_conditions rv d index distance conds = eval_list rv d index distance conds (Continue true).
Proof. intros. unfold eval_conditions. apply eval_data_where. Qed.

Lemma apply_modifier_nofinish : forall md distance result control0,
  sc_nofinish control0 -> sc_nofinish (apply_modifier md distance result control0).
Proof.
  intros md distance result control0 H. destruct md; cbn [apply_modifier].
  - exact H.
  - destruct (sc_true control0 || (distance =? 0)); exact I.
  - apply sc_flip_nofinish, H.
  - destruct (sc_true control0); exact I.
Qed.

Lemma apply_logic_nofinish : forall lg result control,
  sc_nofinish result -> sc_nofinish control -> sc_nofinish (apply_logic lg result control).
Proof. intros [|] result control Hr Hc; cbn [apply_logic]; [apply sc_and_nofinish|apply sc_or_nofinish]; assumption. Qed.

Lemma eval_list_nofinish : forall rv d index distance cs,
  Forall (fun c => sc_nofinish (eval_data rv d index distance (cond_payload c))) cs ->
  forall result, sc_nofinish result -> sc_nofinish (eval_list rv d index distance cs result).
Proof.
  intros rv d index distance cs Hall.
  induction Hall as [|[lg md data] r Hx Hr IH]; intros result Hres.
  - exact Hres.
  - cbn [eval_list]. apply IH. apply apply_logic_nofinish; [exact Hres|].
    apply apply_modifier_nofinish. exact Hx.
Qed.

Lemma eval_data_nofinish : forall rv d index distance c,
  sc_nofinish (eval_data rv d index distance c).
Proof.
  intros rv d index distance c.
  induction c as [v| |v|v|v|ids|key op value|keys| |conds IH] using cond_data_ind'.
  - apply compare_distance_nofinish.
  - exact I.
  - exact I.
  - exact I.
  - exact I.
  - exact I.
  - exact I.
  - exact I.
  - exact I.
  - rewrite eval_data_where. apply eval_list_nofinish; [exact IH|exact I].
Qed.

Corollary eval_conditions_nofinish : forall rv d index distance conds,
  sc_nofinish (eval_conditions rv d index distance conds).
Proof. intros. unfold eval_conditions. apply eval_data_nofinish. Qed.

Corollary eval_conditions_not_finish : forall rv d index distance conds b,
  eval_conditions rv d index distance conds <> Finish b.
Proof. intros. apply sc_nofinish_neq, eval_conditions_nofinish. Qed.

(* ------------------------------------------------------------------ *)
(* 3. the positional filter                                            *)
(* ------------------------------------------------------------------ *)

Fixpoint ifilter (p : Z -> Z -> bool) (els : list Z) (k : Z) : list Z :=
  match els with
  | [] => []
  | i :: r => if p i k then i :: ifilter p r (k + 1) else ifilter p r (k + 1)
  end.

(* the predicate "the conditions accept element i at distance k" *)
Definition cond_pred (rv : revision) (d : db) (conds : list cond) : Z -> Z -> bool :=
  fun i k => sc_true (eval_conditions rv d i k conds).

Lemma elements_loop_default : forall rv d conds els k c acc,
  elements_loop rv d conds HDefault els k c acc =
  rev acc ++ ifilter (fun i k => sc_true (eval_conditions rv d i k conds)) els k.
Proof.
  intros rv d conds els.
  induction els as [|i r IH]; intros k c acc.
  - cbn [elements_loop ifilter]. rewrite app_nil_r. reflexivity.
  - cbn [elements_loop ifilter handle].
    pose proof (eval_conditions_nofinish rv d i k conds) as Hnf.
    destruct (eval_conditions rv d i k conds) as [b|b|b] eqn:E; cbn [sc_nofinish] in Hnf;
      [|contradiction|]; cbn [sc_true]; rewrite IH; destruct b; cbn [rev];
      rewrite <- ?app_assoc; reflexivity.
Qed.

Theorem elements_search_default : forall rv d conds,
  elements_search rv d conds HDefault =
  ifilter (fun i k => sc_true (eval_conditions rv d i k conds)) (elements (gr d)) 0.
Proof. intros. unfold elements_search. rewrite elements_loop_default. reflexivity. Qed.

Lemma ifilter_ext : forall p q els k,
  (forall i j, In i els -> p i j = q i j) -> ifilter p els k = ifilter q els k.
Proof.
  intros p q els. induction els as [|i r IH]; intros k H; cbn [ifilter].
  - reflexivity.
  - rewrite (H i k (or_introl eq_refl)), (IH (k + 1)); [reflexivity|].
    intros i' j Hin. apply H. right. exact Hin.
Qed.

(* when the predicate ignores the distance the result is a plain filter *)
Lemma ifilter_const : forall p els k,
  (forall i k k', In i els -> p i k = p i k') ->
  ifilter p els k = filter (fun i => p i 0) els.
Proof.
  intros p els. induction els as [|i r IH]; intros k H; cbn [ifilter filter].
  - reflexivity.
  - rewrite (H i k 0 (or_introl eq_refl)), (IH (k + 1)); [reflexivity|].
    intros i' j j' Hin. apply H. right. exact Hin.
Qed.

Lemma ifilter_incl : forall p els k i, In i (ifilter p els k) -> In i els.
Proof.
  intros p els. induction els as [|x r IH]; intros k i Hin; cbn [ifilter] in Hin.
  - exact Hin.
  - destruct (p x k).
    + destruct Hin as [->|Hin]; [left; reflexivity|right; eapply IH; exact Hin].
    + right. eapply IH. exact Hin.
Qed.

(* exact membership: position n of the list is kept iff p accepts it at distance k + n *)
Lemma ifilter_In : forall p els k i,
  In i (ifilter p els k) <->
  exists n : nat, nth_error els n = Some i /\ p i (k + Z.of_nat n) = true.
Proof.
  intros p els. induction els as [|x r IH]; intros k i; cbn [ifilter].
  - split; [intros []|]. intros [[|n] [Hn _]]; discriminate.
  - split.
    + intro Hin. destruct (p x k) eqn:Epx.
      * destruct Hin as [<-|Hin].
        -- exists 0%nat. split; [reflexivity|]. rewrite Z.add_0_r. exact Epx.
        -- apply IH in Hin. destruct Hin as [n [Hn Hp]]. exists (S n). split; [exact Hn|].
           replace (k + Z.of_nat (S n)) with (k + 1 + Z.of_nat n) by lia. exact Hp.
      * apply IH in Hin. destruct Hin as [n [Hn Hp]]. exists (S n). split; [exact Hn|].
        replace (k + Z.of_nat (S n)) with (k + 1 + Z.of_nat n) by lia. exact Hp.
    + intros [[|n] [Hn Hp]].
      * cbn in Hn. injection Hn as ->. rewrite Z.add_0_r in Hp. rewrite Hp. left. reflexivity.
      * cbn [nth_error] in Hn.
        assert (Hin : In i (ifilter p r (k + 1))).
        { apply IH. exists n. split; [exact Hn|].
          replace (k + 1 + Z.of_nat n) with (k + Z.of_nat (S n)) by lia. exact Hp. }
        destruct (p x k); [right|]; exact Hin.
Qed.

(* order-preserving sub-sequence *)
Inductive sublist {A : Type} : list A -> list A -> Prop :=
| sublist_nil : sublist [] []
| sublist_skip : forall x l1 l2, sublist l1 l2 -> sublist l1 (x :: l2)
| sublist_keep : forall x l1 l2, sublist l1 l2 -> sublist (x :: l1) (x :: l2).

Lemma sublist_refl : forall (A : Type) (l : list A), sublist l l.
Proof. induction l; constructor; assumption. Qed.

Lemma sublist_In : forall (A : Type) (l1 l2 : list A), sublist l1 l2 -> forall x, In x l1 -> In x l2.
Proof.
  intros A l1 l2 H. induction H as [|y l1 l2 H IH|y l1 l2 H IH]; intros x Hin.
  - exact Hin.
  - right. apply IH, Hin.
  - destruct Hin as [->|Hin]; [left; reflexivity|right; apply IH, Hin].
Qed.

Lemma sublist_NoDup : forall (A : Type) (l1 l2 : list A), sublist l1 l2 -> NoDup l2 -> NoDup l1.
Proof.
  intros A l1 l2 H. induction H as [|y l1 l2 H IH|y l1 l2 H IH]; intro Hnd.
  - exact Hnd.
  - inversion Hnd; subst. apply IH. assumption.
  - inversion Hnd as [|? ? Hnotin Hnd']; subst. constructor.
    + intro Hin. apply Hnotin. eapply sublist_In; eassumption.
    + apply IH, Hnd'.
Qed.

Lemma sublist_length : forall (A : Type) (l1 l2 : list A), sublist l1 l2 -> (length l1 <= length l2)%nat.
Proof. intros A l1 l2 H. induction H; cbn [length]; lia. Qed.

(* a sub-sequence of a list sorted by a transitive relation is sorted *)
Lemma sublist_StronglySorted : forall (A : Type) (R : A -> A -> Prop) (l1 l2 : list A),
  sublist l1 l2 -> StronglySorted R l2 -> StronglySorted R l1.
Proof.
  intros A R l1 l2 H. induction H as [|y l1 l2 H IH|y l1 l2 H IH]; intro Hs.
  - exact Hs.
  - inversion Hs; subst. apply IH. assumption.
  - inversion Hs as [|? ? Hs' Hall]; subst. constructor.
    + apply IH, Hs'.
    + rewrite Forall_forall in *. intros x Hin. apply Hall. eapply sublist_In; eassumption.
Qed.

Lemma ifilter_sublist : forall p els k, sublist (ifilter p els k) els.
Proof.
  intros p els. induction els as [|i r IH]; intro k; cbn [ifilter].
  - constructor.
  - destruct (p i k); constructor; apply IH.
Qed.

Lemma ifilter_NoDup : forall p els k, NoDup els -> NoDup (ifilter p els k).
Proof. intros p els k. apply sublist_NoDup, ifilter_sublist. Qed.

(* the same as an explicit mask *)
Lemma ifilter_mask : forall p els k,
  exists bs : list bool,
    length bs = length els /\ ifilter p els k = map fst (filter snd (combine els bs)).
Proof.
  intros p els. induction els as [|i r IH]; intro k; cbn [ifilter].
  - exists []. split; reflexivity.
  - destruct (IH (k + 1)) as [bs [Hlen Heq]]. exists (p i k :: bs). split.
    + cbn [length]. rewrite Hlen. reflexivity.
    + cbn [combine filter snd]. destruct (p i k); cbn [map fst]; rewrite Heq; reflexivity.
Qed.

(* ------------------------------------------------------------------ *)
(* 4. the query level                                                  *)
(* ------------------------------------------------------------------ *)

Theorem search_elements_plain : forall rv d s,
  s_algorithm s = AElements -> s_limit s = 0 -> s_offset s = 0 -> s_order_by s = [] ->
  search rv d s =
  SOk (ifilter (fun i k => sc_true (eval_conditions rv d i k (s_conditions s))) (elements (gr d)) 0).
Proof.
  intros rv d s Halg Hlim Hoff Hord. unfold search.
  rewrite Halg, Hlim, Hoff, Hord. cbn [handler_of Z.eqb andb].
  rewrite elements_search_default. reflexivity.
Qed.

(* with an order_by the elements search runs with the default handler; sort and slice follow *)
Theorem search_elements_ordered : forall rv d s,
  s_algorithm s = AElements -> s_order_by s <> [] ->
  search rv d s =
  slice_ids rv (s_limit s) (s_offset s)
    (stable_sort (order_cmp d (s_order_by s))
       (ifilter (fun i k => sc_true (eval_conditions rv d i k (s_conditions s))) (elements (gr d)) 0)).
Proof.
  intros rv d s Halg Hord. unfold search. rewrite Halg.
  destruct (s_order_by s) as [|o os] eqn:E; [contradiction|].
  rewrite elements_search_default. reflexivity.
Qed.

(* ------------------------------------------------------------------ *)
(* 5. limit / offset without order_by: the streamed result is the      *)
(*    slice of the filtered list                                       *)
(* ------------------------------------------------------------------ *)

(* SearchQuery limit/offset semantics on a list: skip `offset`, then take `limit` (0 = no limit) *)
Definition zslice (limit offset : Z) (l : list Z) : list Z :=
  let l' := skipn (Z.to_nat offset) l in
  if limit =? 0 then l' else firstn (Z.to_nat limit) l'.

Lemma sc_set_nofinish : forall c v, sc_nofinish c -> sc_nofinish (sc_set c v).
Proof. intros [x|x|x] v H; exact H. Qed.

Lemma sc_true_set : forall c v, sc_true (sc_set c v) = v.
Proof. intros [x|x|x] v; reflexivity. Qed.

Lemma elements_loop_limit : forall rv d conds limit els k c acc,
  0 <= c < limit ->
  elements_loop rv d conds (HLimit limit) els k c acc =
  rev acc ++ firstn (Z.to_nat (limit - c))
                    (ifilter (fun i k => sc_true (eval_conditions rv d i k conds)) els k).
Proof.
  intros rv d conds limit els.
  induction els as [|i r IH]; intros k c acc Hc.
  - cbn [elements_loop ifilter]. rewrite firstn_nil, app_nil_r. reflexivity.
  - cbn [elements_loop ifilter handle].
    pose proof (eval_conditions_nofinish rv d i k conds) as Hnf.
    destruct (eval_conditions rv d i k conds) as [b|b|b] eqn:E; cbn [sc_nofinish] in Hnf;
      [|contradiction|]; cbn [sc_true]; destruct b.
    + destruct (c + 1 =? limit) eqn:El.
      * cbn [sc_true rev]. replace (Z.to_nat (limit - c)) with 1%nat by lia. reflexivity.
      * cbn [sc_true]. rewrite IH by lia. cbn [rev].
        replace (Z.to_nat (limit - c)) with (S (Z.to_nat (limit - (c + 1)))) by lia.
        cbn [firstn]. rewrite <- app_assoc. reflexivity.
    + destruct (c =? limit) eqn:El; [lia|]. cbn [sc_true]. rewrite IH by lia. reflexivity.
    + destruct (c + 1 =? limit) eqn:El.
      * cbn [sc_true rev]. replace (Z.to_nat (limit - c)) with 1%nat by lia. reflexivity.
      * cbn [sc_true]. rewrite IH by lia. cbn [rev].
        replace (Z.to_nat (limit - c)) with (S (Z.to_nat (limit - (c + 1)))) by lia.
        cbn [firstn]. rewrite <- app_assoc. reflexivity.
    + destruct (c =? limit) eqn:El; [lia|]. cbn [sc_true]. rewrite IH by lia. reflexivity.
Qed.

Lemma elements_loop_offset : forall rv d conds offset els k c acc,
  0 <= c ->
  elements_loop rv d conds (HOffset offset) els k c acc =
  rev acc ++ skipn (Z.to_nat (offset - c))
                   (ifilter (fun i k => sc_true (eval_conditions rv d i k conds)) els k).
Proof.
  intros rv d conds offset els.
  induction els as [|i r IH]; intros k c acc Hc.
  - cbn [elements_loop ifilter]. rewrite skipn_nil, app_nil_r. reflexivity.
  - cbn [elements_loop ifilter handle].
    pose proof (eval_conditions_nofinish rv d i k conds) as Hnf.
    destruct (eval_conditions rv d i k conds) as [b|b|b] eqn:E; cbn [sc_nofinish] in Hnf;
      [|contradiction|]; cbn [sc_true]; destruct b; cbn [sc_set sc_true];
      rewrite IH by lia; try reflexivity.
    + destruct (offset <? c + 1) eqn:Eo.
      * replace (Z.to_nat (offset - c)) with 0%nat by lia.
        replace (Z.to_nat (offset - (c + 1))) with 0%nat by lia.
        cbn [skipn rev]. rewrite <- app_assoc. reflexivity.
      * replace (Z.to_nat (offset - c)) with (S (Z.to_nat (offset - (c + 1)))) by lia.
        reflexivity.
    + destruct (offset <? c + 1) eqn:Eo.
      * replace (Z.to_nat (offset - c)) with 0%nat by lia.
        replace (Z.to_nat (offset - (c + 1))) with 0%nat by lia.
        cbn [skipn rev]. rewrite <- app_assoc. reflexivity.
      * replace (Z.to_nat (offset - c)) with (S (Z.to_nat (offset - (c + 1)))) by lia.
        reflexivity.
Qed.

Lemma elements_loop_limit_offset : forall rv d conds total offset els k c acc,
  0 <= c < total ->
  elements_loop rv d conds (HLimitOffset total offset) els k c acc =
  rev acc ++ skipn (Z.to_nat (offset - c))
                   (firstn (Z.to_nat (total - c))
                      (ifilter (fun i k => sc_true (eval_conditions rv d i k conds)) els k)).
Proof.
  intros rv d conds total offset els.
  induction els as [|i r IH]; intros k c acc Hc.
  - cbn [elements_loop ifilter]. rewrite firstn_nil, skipn_nil, app_nil_r. reflexivity.
  - cbn [elements_loop ifilter handle].
    pose proof (eval_conditions_nofinish rv d i k conds) as Hnf.
    destruct (eval_conditions rv d i k conds) as [b|b|b] eqn:E; cbn [sc_nofinish] in Hnf;
      [|contradiction|]; cbn [sc_true]; destruct b; cbn [sc_set sc_true].
    + destruct (c + 1 =? total) eqn:El.
      * cbn [sc_true]. replace (Z.to_nat (total - c)) with 1%nat by lia. cbn [firstn].
        destruct (offset <? c + 1) eqn:Eo.
        -- replace (Z.to_nat (offset - c)) with 0%nat by lia. reflexivity.
        -- replace (Z.to_nat (offset - c)) with (S (Z.to_nat (offset - (c + 1)))) by lia.
           cbn [skipn]. rewrite skipn_nil, app_nil_r. reflexivity.
      * cbn [sc_true]. rewrite IH by lia.
        replace (Z.to_nat (total - c)) with (S (Z.to_nat (total - (c + 1)))) by lia. cbn [firstn].
        destruct (offset <? c + 1) eqn:Eo.
        -- replace (Z.to_nat (offset - c)) with 0%nat by lia.
           replace (Z.to_nat (offset - (c + 1))) with 0%nat by lia.
           cbn [skipn rev]. rewrite <- app_assoc. reflexivity.
        -- replace (Z.to_nat (offset - c)) with (S (Z.to_nat (offset - (c + 1)))) by lia.
           reflexivity.
    + destruct (c =? total) eqn:El; [lia|]. cbn [sc_true]. rewrite IH by lia. reflexivity.
    + destruct (c + 1 =? total) eqn:El.
      * cbn [sc_true]. replace (Z.to_nat (total - c)) with 1%nat by lia. cbn [firstn].
        destruct (offset <? c + 1) eqn:Eo.
        -- replace (Z.to_nat (offset - c)) with 0%nat by lia. reflexivity.
        -- replace (Z.to_nat (offset - c)) with (S (Z.to_nat (offset - (c + 1)))) by lia.
           cbn [skipn]. rewrite skipn_nil, app_nil_r. reflexivity.
      * cbn [sc_true]. rewrite IH by lia.
        replace (Z.to_nat (total - c)) with (S (Z.to_nat (total - (c + 1)))) by lia. cbn [firstn].
        destruct (offset <? c + 1) eqn:Eo.
        -- replace (Z.to_nat (offset - c)) with 0%nat by lia.
           replace (Z.to_nat (offset - (c + 1))) with 0%nat by lia.
           cbn [skipn rev]. rewrite <- app_assoc. reflexivity.
        -- replace (Z.to_nat (offset - c)) with (S (Z.to_nat (offset - (c + 1)))) by lia.
           reflexivity.
    + destruct (c =? total) eqn:El; [lia|]. cbn [sc_true]. rewrite IH by lia. reflexivity.
Qed.

(* limit and offset come from u64 values, hence the sign hypotheses *)
Theorem elements_search_stream : forall rv d conds limit offset,
  0 <= limit -> 0 <= offset ->
  elements_search rv d conds (handler_of limit offset) =
  zslice limit offset
    (ifilter (fun i k => sc_true (eval_conditions rv d i k conds)) (elements (gr d)) 0).
Proof.
  intros rv d conds limit offset Hl Ho. unfold elements_search, handler_of, zslice.
  destruct (limit =? 0) eqn:El; destruct (offset =? 0) eqn:Eo; cbn [andb].
  - rewrite elements_loop_default. replace (Z.to_nat offset) with 0%nat by lia. reflexivity.
  - rewrite elements_loop_offset by lia. rewrite Z.sub_0_r. reflexivity.
  - rewrite elements_loop_limit by lia. rewrite Z.sub_0_r.
    replace (Z.to_nat offset) with 0%nat by lia. reflexivity.
  - rewrite elements_loop_limit_offset by lia. rewrite !Z.sub_0_r. cbn [rev app].
    rewrite firstn_skipn_comm. f_equal. f_equal. lia.
Qed.

(* the eager slice of SearchQuery::slice (with the clamp fix) is the same function *)
Lemma firstn_min_clamp {A} (l : list A) (x : Z) :
  firstn (Z.to_nat (Z.min x (Z.of_nat (length l)))) l = firstn (Z.to_nat x) l.
Proof.
  destruct (Z.le_gt_cases x (Z.of_nat (length l))).
  - now replace (Z.min x (Z.of_nat (length l))) with x by lia.
  - replace (Z.min x (Z.of_nat (length l))) with (Z.of_nat (length l)) by lia.
    rewrite Nat2Z.id, firstn_all, firstn_all2 by lia. reflexivity.
Qed.

Lemma skipn_min_clamp {A} (l : list A) (x : Z) :
  skipn (Z.to_nat (Z.min x (Z.of_nat (length l)))) l = skipn (Z.to_nat x) l.
Proof.
  destruct (Z.le_gt_cases x (Z.of_nat (length l))).
  - now replace (Z.min x (Z.of_nat (length l))) with x by lia.
  - replace (Z.min x (Z.of_nat (length l))) with (Z.of_nat (length l)) by lia.
    rewrite Nat2Z.id, skipn_all, skipn_all2 by lia. reflexivity.
Qed.

Lemma firstn_min_clamp_skip {A} (l : list A) (x : Z) n :
  firstn (Z.to_nat (Z.min x (Z.of_nat (length l)))) (skipn n l) = firstn (Z.to_nat x) (skipn n l).
Proof.
  destruct (Z.le_gt_cases x (Z.of_nat (length l))).
  - now replace (Z.min x (Z.of_nat (length l))) with x by lia.
  - replace (Z.min x (Z.of_nat (length l))) with (Z.of_nat (length l)) by lia.
    rewrite Nat2Z.id, !firstn_all2 by (rewrite skipn_length; lia). reflexivity.
Qed.

Lemma slice_ids_clamp : forall rv limit offset ids,
  fix_slice_clamp rv = true -> 0 <= limit -> 0 <= offset ->
  slice_ids rv limit offset ids = SOk (zslice limit offset ids).
Proof.
  intros rv limit offset ids Hfix Hl Ho. unfold slice_ids, zslice. rewrite Hfix.
  rewrite ?skipn_min_clamp, ?firstn_min_clamp_skip, ?firstn_min_clamp.
  destruct (limit =? 0) eqn:El; destruct (offset =? 0) eqn:Eo; cbn [andb].
  - replace (Z.to_nat offset) with 0%nat by lia. reflexivity.
  - destruct (offset <=? Z.of_nat (length ids)) eqn:Eb; [reflexivity|].
    rewrite skipn_all2 by lia. reflexivity.
  - replace (Z.to_nat offset) with 0%nat by lia. reflexivity.
  - destruct (offset + limit <=? Z.of_nat (length ids)); reflexivity.
Qed.

Theorem search_elements_unordered : forall rv d s,
  s_algorithm s = AElements -> s_order_by s = [] -> 0 <= s_limit s -> 0 <= s_offset s ->
  search rv d s =
  SOk (zslice (s_limit s) (s_offset s)
         (ifilter (fun i k => sc_true (eval_conditions rv d i k (s_conditions s))) (elements (gr d)) 0)).
Proof.
  intros rv d s Halg Hord Hl Ho. unfold search. rewrite Halg, Hord.
  rewrite elements_search_stream by assumption. reflexivity.
Qed.

(* defining equations, for the pinned statements *)
Lemma ifilter_eqns : forall p,
  (forall k, ifilter p [] k = []) /\
  (forall i r k, ifilter p (i :: r) k = if p i k then i :: ifilter p r (k + 1) else ifilter p r (k + 1)).
Proof. intro p. split; reflexivity. Qed.

Lemma zslice_eqn : forall limit offset l,
  zslice limit offset l =
  if limit =? 0 then skipn (Z.to_nat offset) l else firstn (Z.to_nat limit) (skipn (Z.to_nat offset) l).
Proof. reflexivity. Qed.

(* ------------------------------------------------------------------ *)
(* 6. a concrete instance (non-vacuity)                                *)
(* ------------------------------------------------------------------ *)

(* helpers to build a database with the model's own operations *)
Definition ex_node (d : db) : db := snd (insert_node_db d).
Definition ex_edge (d : db) (f t : Z) : db :=
  match insert_edge_db d f t with ROk (_, d') => d' | RErr _ => d end.
Definition ex_remove (d : db) (id : Z) : db := fst (remove_id d id).

Definition ex_query (limit offset : Z) (conds : list cond) : search_query :=
  {| s_algorithm := AElements; s_origin := QId 0; s_destination := QId 0;
     s_limit := limit; s_offset := offset; s_order_by := []; s_conditions := conds |}.

(* nodes 1 2 3, edges 1->2 (-4), 2->3 (-5), 3->3 (-6); node 2 is removed (with -4 and -5) and a new
   node reuses slot 2.  Conditions: (distance < 2) or edge — the distance is the position in
   the element list, so 1 and 2 pass by position, 3 is dropped, -6 passes as an edge. *)
Lemma elements_search_example :
  let d0 := ex_remove (ex_edge (ex_edge (ex_edge (ex_node (ex_node (ex_node db_new))) 1 2) 2 3) 3 3) 2 in
  let d := ex_node d0 in
  let conds := [Cond LAnd MNone (CDistance (KLessThan 2)); Cond LOr MNone CEdge] in
  elements (gr d0) = [1; 3; -6] /\
  elements (gr d) = [1; 2; 3; -6] /\
  forall rv,
    search rv d (ex_query 0 0 conds) = SOk [1; 2; -6] /\
    search rv d (ex_query 0 0 []) = SOk [1; 2; 3; -6] /\
    search rv d (ex_query 1 1 conds) = SOk [2] /\
    search rv d (ex_query 0 0 [Cond LAnd MNone (CEdgeCount (KGreaterThan 1))]) = SOk [3].
Proof. vm_compute. repeat split; reflexivity. Qed.
