(* StoredDbOpsDb2.v — proofs (stored database, part 14): the values component of a stored database replaced under a
   frame (sd_values_update, the analogue of sd_graph_update), and DbImpl::insert_key_value /
   reserve_key_value_capacity for a key that is not indexed. *)
From Coq Require Import Permutation.
From Agdb Require Import Bytes BytesProofs Utf8 Codec DbValue ValueIndex Graph DbModel Records RecordsProofs Storage StorageSpec
  StorageLayout Collections CollValues CollWp CollBytes CollVecBase CollVecOps CollVec CollVec2 CollElems CollSep CollMap
  CollGraph CollValuesProofs StoredDb StoredDbRep StoredDbLoad StoredDbFrame StoredDbOps StoredDbOpsGraph StoredDbOpsDb
  StoredDbOpsKv StoredDbOpsKv2.
From Coq Require Import ZifyBool ZifyNat ZifyN.
Ltac Zify.zify_post_hook ::= Z.div_mod_to_equations.
Open Scope N_scope.
Arguments N.add : simpl never.
Arguments N.mul : simpl never.
Arguments N.sub : simpl never.
Arguments N.of_nat : simpl never.
Arguments N.to_nat : simpl never.
Arguments N.eqb : simpl never.
Arguments N.ltb : simpl never.
Arguments N.leb : simpl never.
Arguments N.div : simpl never.

Definition sd_head (root : N) (w : sd_wit) : list N :=
  root :: gfoot (sw_g w) (sw_gs w) ++ sd_foot_a1 (sw_a1 w) ++ sd_foot_a2 (sw_a2 w) ++
          foot bytes (ce_raw 24) sd_law24 (sw_ih w) (sw_is w) ++ sd_ix_foot (sw_ie w) (sw_iw w).

Lemma sd_foot_split_kv root w : sd_foot root w = sd_head root w ++ kvfoot (sw_vh w) (sw_vs w) (sw_vw w) ++ [].
Proof. unfold sd_foot, sd_head, kvfoot. rewrite app_nil_r. cbn [app]. rewrite <- !app_assoc. reflexivity. Qed.

Definition sd_with_values (w : sd_wit) (vh : cv_vec) (vs : list bytes) (vi : list N) (vw : list kvslot) : sd_wit :=
  {| sw_root := sw_root w; sw_g := sw_g w; sw_gs := sw_gs w; sw_a1 := sw_a1 w; sw_a2 := sw_a2 w;
     sw_ih := sw_ih w; sw_is := sw_is w; sw_ie := sw_ie w; sw_iw := sw_iw w;
     sw_vh := vh; sw_vs := vs; sw_vi := vi; sw_vw := vw |}.

Lemma grep_transport g g' d s a : grep g d s a -> (forall j, In j (gfoot d s) -> g' j = g j) -> grep g' d s a.
Proof.
  intros [H1 H2 H3 H4] Same. constructor; [rewrite Same; [exact H1|left; reflexivity]| |exact H3|exact H4].
  intros f. eapply vrep_transport; [apply H2|]. intros j Hj. apply Same. rewrite (gfoot_split d s f).
  apply in_or_app. right. apply in_or_app. left. exact Hj.
Qed.

Lemma stored_kvrep g root d w : stored_db_w g root d w -> kvrep g (sw_vh w) (sw_vs w) (sw_vi w) (sw_vw w) (vals d).
Proof.
  intros H. constructor; [exact (sr_v_vec _ _ _ _ H)|exact (sr_v _ _ _ _ H)|].
  pose proof (sr_nodup _ _ _ _ H) as Hnd. rewrite sd_foot_split_kv, app_nil_r in Hnd.
  apply NoDup_app_iff in Hnd. exact (proj1 (proj2 Hnd)).
Qed.

Theorem sd_values_update g g' root d w vh' vs' vi' vw' kvs' :
  stored_db_w g root d w -> cv_index vh' = cv_index (sw_vh w) ->
  kvrep g' vh' vs' vi' vw' kvs' -> frame g g' (kvfoot (sw_vh w) (sw_vs w) (sw_vw w)) (kvfoot vh' vs' vw') ->
  stored_db_w g' root (with_vals d kvs') (sd_with_values w vh' vs' vi' vw') /\
  frame g g' (sd_foot root w) (sd_foot root (sd_with_values w vh' vs' vi' vw')).
Proof.
  intros H Hi HK Hf.
  pose proof (sr_nodup _ _ _ _ H) as Hnd. rewrite sd_foot_split_kv in Hnd.
  assert (Hl : live_all g (sd_head root w ++ [])).
  { rewrite app_nil_r. intros j Hj. apply (stored_db_live _ _ _ _ H). rewrite sd_foot_split_kv. apply in_or_app. left. exact Hj. }
  destruct (sep_update g g' (sd_head root w) _ _ [] Hf Hnd Hl (kr_nodup _ _ _ _ _ _ HK)) as (N' & F' & Same).
  assert (SameH : forall j, In j (sd_head root w) -> g' j = g j) by (intros j Hj; apply Same; rewrite app_nil_r; exact Hj).
  assert (Eh : sd_head root (sd_with_values w vh' vs' vi' vw') = sd_head root w) by reflexivity.
  split; [|rewrite !sd_foot_split_kv, Eh; exact F'].
  destruct H as [Hroot Hu64 Hver Hg Hgi Ha1 Hk1 Ha2 Hk2 Hiv Hii Hix Hvv Hvi Hv _].
  unfold sd_head in SameH.
  constructor; cbn [sd_with_values sw_root sw_g sw_gs sw_a1 sw_a2 sw_ih sw_is sw_ie sw_iw sw_vh sw_vs sw_vi sw_vw with_vals gr aliases vals indexes].
  - rewrite SameH; [exact Hroot|left; reflexivity].
  - exact Hu64.
  - exact Hver.
  - eapply grep_transport; [exact Hg|]. intros j Hj. apply SameH. right. apply in_or_app. left. exact Hj.
  - exact Hgi.
  - eapply sd_transport_map; [exact Ha1|]. intros j Hj. apply SameH. right. apply in_or_app. right. apply in_or_app. left. exact Hj.
  - exact Hk1.
  - eapply sd_transport_map; [exact Ha2|]. intros j Hj. apply SameH. right. do 2 (apply in_or_app; right). apply in_or_app. left. exact Hj.
  - exact Hk2.
  - eapply vrep_transport; [exact Hiv|]. intros j Hj. apply SameH. right. do 3 (apply in_or_app; right). apply in_or_app. left. exact Hj.
  - exact Hii.
  - eapply sd_transport_ix; [exact Hix|]. intros j Hj. apply SameH. right. do 4 (apply in_or_app; right). exact Hj.
  - exact (kr_vec _ _ _ _ _ _ HK).
  - congruence.
  - exact (kr_kv _ _ _ _ _ _ HK).
  - rewrite sd_foot_split_kv. exact N'.
Qed.

(* a key without an index: the index list is not touched *)
Lemma idx_update_not_indexed ix key f : idx_find ix key = None -> idx_update ix key f = ix.
Proof.
  unfold idx_find. induction ix as [|[k ids] r IH]; [reflexivity|]. cbn [find idx_update fst].
  destruct (dbv_eqb k key); [discriminate|]. intros E. rewrite (IH E). reflexivity.
Qed.

Section Ops2.
  Variable fl : bool.

  (* ---------------- DbImpl::insert_key_value (key not indexed) ---------------- *)
  Theorem so_insert_key_value_stored root d w h id x sp (Q : cres so_db -> spec -> Prop) :
    stored_db_w (hp sp) root d w -> so_handles h w ->
    idx_find (indexes d) (fst x) = None ->
    so_index_ok (cg_as_u64 id) -> el_valid law_dbkv x ->
    8 + ce_size ce_dbkv * (lenN (kvs_get (vals d) id) + 1) < two64 ->
    (forall h' vh' vs' vi' vw' sp',
        stored_db_w (hp sp') root (insert_key_value d id x) (sd_with_values w vh' vs' vi' vw') ->
        so_handles h' (sd_with_values w vh' vs' vi' vw') -> sdepth sp' = sdepth sp ->
        frame (hp sp) (hp sp') (sd_foot root w) (sd_foot root (sd_with_values w vh' vs' vi' vw')) ->
        Q (CrOk h') sp') ->
    cwp fl (so_insert_key_value h id x) sp Q.
  Proof.
    intros H [Hh1 Hh2] Hnix Hix Hx Hfit HQ. unfold so_insert_key_value. apply cwp_bind. rewrite Hh2.
    eapply so_kv_insert_value_spec; [exact (stored_kvrep _ _ _ _ H)|exact Hix|exact Hx|rewrite zabs_as_u64; exact Hfit|].
    intros vh1 vs1 vi1 vw1 sp' HK I1 D1 F1. cbn [kont cwp].
    destruct (sd_values_update _ _ root d w vh1 vs1 vi1 vw1 _ H I1 HK F1) as [H' F'].
    eapply HQ; [|split; [exact Hh1|reflexivity]|exact D1|exact F'].
    eapply stored_db_w_same; [exact H'| | | |];
      unfold insert_key_value, index_insert_if, idx_insert_id;
      cbn [with_vals push_undo with_indexes gr aliases vals indexes]; try reflexivity.
    - unfold kvs_insert_value, kvs_set, kvs_get. rewrite zabs_as_u64. reflexivity.
    - apply idx_update_not_indexed. exact Hnix.
  Qed.

  (* ---------------- DbImpl::reserve_key_value_capacity ---------------- *)
  Theorem so_reserve_key_value_capacity_stored root d w h id len sp (Q : cres so_db -> spec -> Prop) :
    stored_db_w (hp sp) root d w -> so_handles h w -> so_index_ok (cg_as_u64 id) ->
    (forall h' vh' vs' vi' vw' sp',
        stored_db_w (hp sp') root (reserve_kv d id) (sd_with_values w vh' vs' vi' vw') ->
        so_handles h' (sd_with_values w vh' vs' vi' vw') -> sdepth sp' = sdepth sp ->
        frame (hp sp) (hp sp') (sd_foot root w) (sd_foot root (sd_with_values w vh' vs' vi' vw')) ->
        Q (CrOk h') sp') ->
    cwp fl (so_reserve_key_value_capacity h id len) sp Q.
  Proof.
    intros H [Hh1 Hh2] Hix HQ. unfold so_reserve_key_value_capacity. apply cwp_bind. rewrite Hh2.
    eapply so_kv_reserve_capacity_spec; [exact (stored_kvrep _ _ _ _ H)|exact Hix|].
    intros vh1 vs1 vi1 vw1 sp' HK I1 D1 F1. cbn [kont cwp].
    destruct (sd_values_update _ _ root d w vh1 vs1 vi1 vw1 _ H I1 HK F1) as [H' F'].
    eapply HQ; [|split; [exact Hh1|reflexivity]|exact D1|exact F'].
    eapply stored_db_w_same; [exact H'| | | |]; unfold reserve_kv; cbn [with_vals gr aliases vals indexes]; try reflexivity.
    unfold kvs_reserve, kvs_set. rewrite zabs_as_u64. symmetry. apply kvs_pad_reserve.
  Qed.
End Ops2.
