(* CollValuesProofs.v — proofs (collections, part 15): the element classes DbValue and DbKeyValue
   (CollValues.v) meet `elem_law`, from the theorems of C12 (ValueIndexProofs.v: the index `store`
   produces is well formed, is inline or names exactly the record inserted, loads back the value;
   ValueLoadProofs.v: also through the bounds checks of the current load_db_value); and the pair of two
   lawful classes is lawful. *)
From Agdb Require Import Bytes BytesProofs Utf8 Codec DbValue ValueIndex ValueIndexProofs ValueLoadProofs
  Records RecordsProofs Storage StorageSpec StorageLayout Collections CollWp CollBytes CollVecBase CollVecOps CollValues.
From Coq Require Import ZifyBool ZifyNat ZifyN.
Ltac Zify.zify_post_hook ::= Z.div_mod_to_equations.
Open Scope N_scope.
Arguments N.add : simpl never.
Arguments N.mul : simpl never.
Arguments N.sub : simpl never.
Arguments N.of_nat : simpl never.
Arguments N.to_nat : simpl never.
Arguments N.eqb : simpl never.
Arguments N.ltb : simpl never.
Arguments N.leb : simpl never.
Arguments N.div : simpl never.

(* ---------------- DbValue ---------------- *)
(* store_db_value on the empty store does not depend on the allocator except through the index it embeds *)
Lemma dbv_store_shape v i :
  snd (store_db_value (fun _ => i) v []) = match cv_dbv_payload v with None => [] | Some b => [(i, b)] end /\
  (cv_dbv_payload v = None -> fst (store_db_value (fun _ => i) v []) = fst (store_db_value (fun _ => 0) v [])).
Proof.
  unfold cv_dbv_payload.
  destruct v as [bs|z|n|b|bs|l|l|l|l]; cbn [store_db_value]; unfold store_inline_or, store_out, st_insert;
    try (destruct (set_value _ _) as [[|] ix]); cbn [fst snd]; split; try reflexivity; try discriminate.
Qed.

Definition dbv_rep (g : heap) (bs : bytes) (v : dbvalue) : Prop :=
  wf_value v = true /\
  exists i, i <> 0 /\ i < two64 /\ bs = fst (store_db_value (fun _ => i) v []) /\
            (forall b, cv_dbv_payload v = Some b -> g i = Some b).
Definition dbv_own (bs : bytes) : list N := if is_value bs then [] else [vi_index bs].

Lemma alloc_const_ok i : i <> 0 -> i < two64 -> alloc_ok (fun _ => i) [].
Proof. intros H1 H2. repeat split; auto. Qed.

(* what the stored index looks like *)
Lemma dbv_index_facts v i : i <> 0 -> i < two64 ->
  let ix := fst (store_db_value (fun _ => i) v []) in
  wf_ix ix /\
  ((is_value ix = true /\ cv_dbv_payload v = None) \/
   (is_value ix = false /\ vi_index ix = i /\ exists b, cv_dbv_payload v = Some b)).
Proof.
  intros H1 H2 ix. destruct (store_shape (fun _ => i) v [] (alloc_const_ok i H1 H2)) as [Hw Hs]. fold ix in Hw, Hs.
  split; [exact Hw|]. destruct (dbv_store_shape v i) as [Es _].
  destruct Hs as [[Hv E]|(Hv & Hi & b & E)]; rewrite Es in E.
  - left. split; [exact Hv|]. destruct (cv_dbv_payload v); [discriminate|reflexivity].
  - right. split; [exact Hv|]. split; [exact Hi|]. destruct (cv_dbv_payload v) as [b'|]; [eauto|discriminate].
Qed.

Definition law_dbvalue : elem_law ce_dbvalue.
Proof.
  refine {| el_valid := fun v => wf_value v = true; el_rep := dbv_rep; el_own := dbv_own |}.
  - cbn. lia.
  - intros g bs v (_ & i & H1 & H2 & -> & _). destruct (dbv_index_facts v i H1 H2) as [Hw _].
    unfold wf_ix in Hw. unfold lenN. rewrite Hw. reflexivity.
  - intros g bs v j (_ & i & H1 & H2 & -> & Hg) Hj. unfold dbv_own in Hj.
    destruct (dbv_index_facts v i H1 H2) as [_ [[Hv _]|(Hv & Hi & b & Hb)]]; rewrite Hv in Hj; [destruct Hj|].
    destruct Hj as [<-|[]]. rewrite Hi, (Hg b Hb). discriminate.
  - intros g bs v _. unfold dbv_own. destruct (is_value bs); constructor; [intros []|constructor].
  - intros g g' bs v (Hwf & i & H1 & H2 & -> & Hg) Hsame. split; [exact Hwf|]. exists i. repeat split; auto.
    intros b Hb. rewrite <- (Hg b Hb). apply Hsame. unfold dbv_own.
    destruct (dbv_index_facts v i H1 H2) as [_ [[_ Hn]|(Hv & Hi & _)]]; [congruence|]. rewrite Hv, Hi. left; reflexivity.
  - (* store *)
    intros fl v sp Q Hwf HQ. cbn [ce_store ce_dbvalue]. destruct (cv_dbv_payload v) as [rec|] eqn:Ep.
    + apply cwp_bind. apply hwp_insert. intros i sp' Hi Hlt Hn Hm Hd. cbn [kont cwp].
      destruct (dbv_index_facts v i Hi Hlt) as [_ [[_ Hnone]|(Hv & Hix & _)]]; [congruence|].
      apply HQ; [|exact Hd| |]; unfold dbv_own; rewrite ?Hv, ?Hix.
      * split; [exact Hwf|]. exists i. repeat split; auto. intros b Hb. rewrite Hm, hupd_same. congruence.
      * intros j [<-|[]]. exact Hn.
      * intros j Hj. rewrite Hm. apply hupd_other. intros ->. apply Hj. left; reflexivity.
    + cbn [cwp]. destruct (dbv_store_shape v 1) as [_ E1]. rewrite <- (E1 Ep).
      destruct (dbv_index_facts v 1 ltac:(discriminate) ltac:(reflexivity)) as [_ [[Hv _]|(_ & _ & b & Hb)]]; [|congruence].
      apply HQ; [|reflexivity| |]; unfold dbv_own; rewrite ?Hv.
      * split; [exact Hwf|]. exists 1. repeat split; auto; [discriminate|]. intros b Hb. congruence.
      * intros j [].
      * intros j _. reflexivity.
  - (* load *)
    intros fl bs v sp Q (Hwf & i & H1 & H2 & -> & Hg) HQ. cbn [ce_load ce_dbvalue].
    pose proof (load_g_roundtrip vg_current (fun _ => i) v [] Hwf (alloc_const_ok i H1 H2)) as R.
    destruct (dbv_store_shape v i) as [Es _]. rewrite Es in R.
    destruct (dbv_index_facts v i H1 H2) as [Hw Hc]. remember (fst (store_db_value (fun _ => i) v [])) as ix eqn:Eix.
    rewrite (vi_deserialize_wf ix Hw). cbn [cp_of_outcome cbind].
    destruct Hc as [[Hv Hn]|(Hv & Hi & b & Hb)]; rewrite Hv.
    + rewrite Hn in R. rewrite R. exact HQ.
    + rewrite Hb in R. apply cwp_bind. eapply cwp_value; [rewrite Hi; exact (Hg b Hb)|]. cbn [kont].
      rewrite Hi, R. exact HQ.
  - (* remove *)
    intros fl bs v sp Q (Hwf & i & H1 & H2 & -> & Hg) HQ. cbn [ce_remove ce_dbvalue].
    destruct (dbv_index_facts v i H1 H2) as [Hw Hc]. remember (fst (store_db_value (fun _ => i) v [])) as ix eqn:Eix.
    rewrite (vi_deserialize_wf ix Hw). cbn [cp_of_outcome cbind]. unfold dbv_own in HQ.
    destruct Hc as [[Hv Hn]|(Hv & Hi & b & Hb)]; rewrite Hv in *.
    + cbn [cwp]. apply HQ; [reflexivity|intros j []|reflexivity].
    + rewrite Hi in *. eapply hwp_remove; [exact (Hg b Hb)|]. intros sp' Hm Hd. apply HQ; [exact Hd| |].
      * intros j [<-|[]]. rewrite Hm. unfold hdel. rewrite N.eqb_refl. reflexivity.
      * intros j Hj. rewrite Hm. unfold hdel. destruct (N.eqb_spec i j); [subst; exfalso; apply Hj; left; reflexivity|reflexivity].
Defined.

(* ---------------- two lawful classes side by side ---------------- *)
Section Pair.
  Variables A B : Type.
  Variable EA : cv_elem A.
  Variable EB : cv_elem B.
  Variable LA : elem_law EA.
  Variable LB : elem_law EB.

  Let ka := N.to_nat (ce_size EA).

  Definition pair_rep (g : heap) (bs : bytes) (p : A * B) : Prop :=
    exists ba bb, bs = ba ++ bb /\ el_rep LA g ba (fst p) /\ el_rep LB g bb (snd p) /\
                  (forall j, In j (el_own LA ba) -> ~ In j (el_own LB bb)).
  Definition pair_own (bs : bytes) : list N := el_own LA (firstn ka bs) ++ el_own LB (skipn ka bs).

  Lemma pair_split g ba bb a : el_rep LA g ba a -> firstn ka (ba ++ bb) = ba /\ skipn ka (ba ++ bb) = bb.
  Proof.
    intros H. pose proof (el_len EA LA _ _ _ H) as HL. unfold lenN in HL.
    split; [apply firstn_app_l|apply skipn_app_l]; unfold ka; lia.
  Qed.

  Definition law_pair : elem_law (ce_pair EA EB).
  Proof.
    refine {| el_valid := fun p => el_valid LA (fst p) /\ el_valid LB (snd p); el_rep := pair_rep; el_own := pair_own |}.
    - cbn [ce_size ce_pair]. pose proof (el_size_pos EA LA). lia.
    - intros g bs [a b] (ba & bb & -> & Ha & Hb & _). cbn [fst snd] in *. rewrite lenN_app.
      rewrite (el_len EA LA _ _ _ Ha), (el_len EB LB _ _ _ Hb). reflexivity.
    - intros g bs [a b] j (ba & bb & -> & Ha & Hb & _) Hj. cbn [fst snd] in *. unfold pair_own in Hj.
      destruct (pair_split g ba bb a Ha) as [E1 E2]. rewrite E1, E2 in Hj. apply in_app_or in Hj.
      destruct Hj as [Hj|Hj]; [eapply (el_live EA LA); eauto|eapply (el_live EB LB); eauto].
    - intros g bs [a b] (ba & bb & -> & Ha & Hb & Hd). cbn [fst snd] in *. unfold pair_own.
      destruct (pair_split g ba bb a Ha) as [E1 E2]. rewrite E1, E2. apply NoDup_app_iff.
      split; [eapply (el_nodup EA LA); eauto|]. split; [eapply (el_nodup EB LB); eauto|exact Hd].
    - intros g g' bs [a b] (ba & bb & -> & Ha & Hb & Hd) Hs. cbn [fst snd] in *.
      destruct (pair_split g ba bb a Ha) as [E1 E2]. unfold pair_own in Hs. rewrite E1, E2 in Hs.
      exists ba, bb. split; [reflexivity|]. cbn [fst snd]. split; [|split; [|exact Hd]].
      + eapply (el_local EA LA); [exact Ha|]. intros j Hj. apply Hs. apply in_or_app. auto.
      + eapply (el_local EB LB); [exact Hb|]. intros j Hj. apply Hs. apply in_or_app. auto.
    - (* store *)
      intros fl [a b] sp Q [Va Vb] HQ. cbn [fst snd] in *. cbn [ce_store ce_pair fst snd].
      apply cwp_bind. apply (el_store EA LA); [exact Va|]. intros ba sp1 Ra D1 Fa Sa. cbn [kont].
      apply cwp_bind. apply (el_store EB LB); [exact Vb|]. intros bb sp2 Rb D2 Fb Sb. cbn [kont cwp].
      assert (Hdis : forall j, In j (el_own LA ba) -> ~ In j (el_own LB bb)).
      { intros j Ja Jb. apply (el_live EA LA _ _ _ j Ra Ja). apply Fb. exact Jb. }
      assert (Ra2 : el_rep LA (hp sp2) ba a).
      { eapply (el_local EA LA); [exact Ra|]. intros j Hj. apply Sb. intros Jb. exact (Hdis j Hj Jb). }
      destruct (pair_split (hp sp2) ba bb a Ra2) as [E1 E2].
      apply HQ; [|congruence| |]; unfold pair_own; rewrite ?E1, ?E2.
      + exists ba, bb. cbn [fst snd]. auto.
      + intros j Hj. apply in_app_or in Hj. destruct Hj as [Hj|Hj]; [apply Fa; exact Hj|].
        rewrite <- (Sa j); [apply Fb; exact Hj|]. intros Ja. exact (Hdis j Ja Hj).
      + intros j Hj. rewrite Sb by (intros X; apply Hj; apply in_or_app; auto).
        apply Sa. intros X; apply Hj; apply in_or_app; auto.
    - (* load *)
      intros fl bs [a b] sp Q (ba & bb & -> & Ha & Hb & _) HQ. cbn [fst snd] in *. cbn [ce_load ce_pair].
      destruct (pair_split (hp sp) ba bb a Ha) as [E1 E2]. fold ka. rewrite E1, E2.
      apply cwp_bind. eapply (el_load EA LA); [exact Ha|]. cbn [kont].
      apply cwp_bind. eapply (el_load EB LB); [exact Hb|]. cbn [kont cwp]. exact HQ.
    - (* remove *)
      intros fl bs [a b] sp Q (ba & bb & -> & Ha & Hb & Hd) HQ. cbn [fst snd] in *. cbn [ce_remove ce_pair].
      destruct (pair_split (hp sp) ba bb a Ha) as [E1 E2]. fold ka. rewrite E1, E2.
      unfold pair_own in HQ. rewrite E1, E2 in HQ.
      apply cwp_bind. eapply (el_remove EA LA); [exact Ha|]. intros sp1 D1 Fa Sa. cbn [kont].
      assert (Hb1 : el_rep LB (hp sp1) bb b).
      { eapply (el_local EB LB); [exact Hb|]. intros j Hj. apply Sa. intros Ja. exact (Hd j Ja Hj). }
      eapply (el_remove EB LB); [exact Hb1|]. intros sp2 D2 Fb Sb.
      apply HQ; [congruence| |].
      + intros j Hj. apply in_app_or in Hj. destruct Hj as [Hj|Hj]; [|apply Fb; exact Hj].
        rewrite Sb by (intros Jb; exact (Hd j Hj Jb)). apply Fa. exact Hj.
      + intros j Hj. rewrite Sb by (intros X; apply Hj; apply in_or_app; auto).
        apply Sa. intros X; apply Hj; apply in_or_app; auto.
  Defined.
End Pair.

Definition law_dbkv : elem_law ce_dbkv := law_pair dbvalue dbvalue ce_dbvalue ce_dbvalue law_dbvalue law_dbvalue.
