(* StorageWp.v — proofs (part 2 of the C04 development): a weakest-precondition
   calculus for the state transformers of Storage.v over the canonical byte store,
   the tiling invariant (with a gap while an operation is under way) and
   free_a_region / mark_free_compact. *)
From Agdb Require Import Bytes BytesProofs Records RecordsProofs RecordsTableProofs Storage StorageLayout.
From Coq Require Import ZifyBool ZifyNat ZifyN.
Ltac Zify.zify_post_hook ::= Z.div_mod_to_equations.
Open Scope N_scope.
Arguments N.add : simpl never.
Arguments N.mul : simpl never.
Arguments N.sub : simpl never.
Arguments N.of_nat : simpl never.
Arguments N.to_nat : simpl never.
Arguments N.eqb : simpl never.
Arguments N.ltb : simpl never.
Arguments N.leb : simpl never.

Notation ST := (storage cdata).
Notation MM := (M cdata).

(* a byte store that behaves like the canonical one on len / read / write / resize / flush *)
Record canon (ops : store_ops cdata) : Prop := {
  cn_len : so_len ops = c_len;
  cn_read : so_read ops = c_read;
  cn_write : so_write ops = c_write;
  cn_resize : so_resize ops = c_resize;
  cn_flush : so_flush ops = c_flush;
  cn_copy : so_copy ops = c_flush;
  cn_reopen : so_reopen ops = c_rollback \/ so_reopen ops = c_flush
}.

Lemma canon_file : canon ops_file.
Proof. constructor; try reflexivity. left; reflexivity. Qed.
Lemma canon_mem : canon ops_mem.
Proof. constructor; try reflexivity. right; reflexivity. Qed.

(* ---------- weakest preconditions ---------- *)
(* Q: postcondition of a normal return, E: of an error return; a panic (arithmetic
   overflow) ends the history and is always allowed, a fault never *)
Definition wp {A} (m : MM A) (s : ST) (Q : ST -> A -> Prop) (E : ST -> serr -> Prop) : Prop :=
  match m s with
  | (s', ROk a) => Q s' a
  | (s', RErr e) => E s' e
  | (_, RPanic) => True
  | (_, RFault) => False
  end.

Lemma wp_bind {A B} (m : MM A) (f : A -> MM B) s Q E :
  wp m s (fun s' a => wp (f a) s' Q E) E -> wp (bind cdata m f) s Q E.
Proof. unfold wp, bind. destruct (m s) as [s' [a|e| |]]; auto. Qed.

Lemma wp_ret {A} (a : A) s (Q : ST -> A -> Prop) E : Q s a -> wp (ret cdata a) s Q E.
Proof. exact (fun H => H). Qed.

Lemma wp_mono {A} (m : MM A) s (Q Q' : ST -> A -> Prop) (E E' : ST -> serr -> Prop) :
  wp m s Q E -> (forall s' a, Q s' a -> Q' s' a) -> (forall s' e, E s' e -> E' s' e) -> wp m s Q' E'.
Proof. unfold wp. destruct (m s) as [s' [a|e| |]]; auto. Qed.

Lemma wp_fail_err {A} e s (Q : ST -> A -> Prop) (E : ST -> serr -> Prop) : E s e -> wp (fail cdata (RErr e)) s Q E.
Proof. exact (fun H => H). Qed.
Lemma wp_fail_panic {A} s (Q : ST -> A -> Prop) E : wp (fail cdata (@RPanic A)) s Q E.
Proof. exact I. Qed.

Section Canon.
  Variable ops : store_ops cdata.
  Hypothesis CN : canon ops.

  Definition set_cur (s : ST) (c : bytes) : ST :=
    set_data cdata s {| cur := c; dur := dur (sdata s) |}.

  Lemma wp_get_len s (Q : ST -> N -> Prop) E : Q s (lenN (cur (sdata s))) -> wp (get_len cdata ops) s Q E.
  Proof. unfold wp, get_len. rewrite (cn_len _ CN). exact (fun H => H). Qed.

  Lemma wp_get_rtab s (Q : ST -> records -> Prop) E : Q s (rtab s) -> wp (get_rtab cdata) s Q E.
  Proof. exact (fun H => H). Qed.

  Lemma wp_put_rtab r s (Q : ST -> unit -> Prop) E : Q (set_rtab cdata s r) tt -> wp (put_rtab cdata r) s Q E.
  Proof. exact (fun H => H). Qed.

  Lemma wp_dwrite pos bs s (Q : ST -> unit -> Prop) E :
    pos <= lenN (cur (sdata s)) ->
    (pos + lenN bs < two64 -> Q (set_cur s (bs_write (cur (sdata s)) (N.to_nat pos) bs)) tt) ->
    wp (dwrite cdata ops pos bs) s Q E.
  Proof.
    intros Hp HQ. unfold wp, dwrite. destruct (N.leb_spec two64 (pos + lenN bs)); [exact I|].
    rewrite (cn_write _ CN). unfold c_write. destruct (N.leb_spec pos (lenN (cur (sdata s)))); [|lia].
    apply HQ. assumption.
  Qed.

  Lemma wp_dread pos n s (Q : ST -> bytes -> Prop) E :
    pos + n <= lenN (cur (sdata s)) ->
    Q s (bs_read (cur (sdata s)) (N.to_nat pos) (N.to_nat n)) ->
    wp (dread cdata ops pos n) s Q E.
  Proof.
    intros Hp HQ. unfold wp, dread. rewrite (cn_read _ CN). unfold c_read.
    destruct (N.leb_spec (pos + n) (lenN (cur (sdata s)))); [exact HQ|lia].
  Qed.

  Lemma wp_dresize n s (Q : ST -> unit -> Prop) E :
    Q (set_cur s (bs_resize (cur (sdata s)) (N.to_nat n))) tt -> wp (dresize cdata ops n) s Q E.
  Proof. unfold wp, dresize. rewrite (cn_resize _ CN). exact (fun H => H). Qed.

  Lemma wp_tx_begin s (Q : ST -> N -> Prop) E :
    (tx s + 1 < two64 -> Q (set_tx cdata s (tx s + 1)) (tx s + 1)) -> wp (tx_begin cdata) s Q E.
  Proof. intros H. unfold wp, tx_begin. destruct (N.leb_spec two64 (tx s + 1)); [exact I|auto]. Qed.

  (* the state after the commit that closes the transaction opened at depth `tx s - 1` *)
  Definition committed (s : ST) : ST :=
    let s' := set_tx cdata s (tx s - 1) in
    if tx s' =? 0 then set_data cdata s' (c_flush (sdata s')) else s'.

  Lemma wp_tx_commit id s (Q : ST -> unit -> Prop) E :
    tx s = id -> id <> 0 -> Q (committed s) tt -> wp (tx_commit cdata ops id) s Q E.
  Proof.
    intros <- Hid HQ. unfold wp, tx_commit. rewrite N.eqb_refl. cbn [negb].
    destruct (N.eqb_spec (tx s) 0); [congruence|].
    unfold committed in HQ. cbn zeta in HQ.
    destruct (tx (set_tx cdata s (tx s - 1)) =? 0); [|exact HQ].
    unfold dflush. rewrite (cn_flush _ CN). exact HQ.
  Qed.

  Lemma wp_opt_panic {A} (o : option A) s (Q : ST -> A -> Prop) E :
    (forall a, o = Some a -> Q s a) -> wp (opt_panic cdata o) s Q E.
  Proof. destruct o; cbn; [intros H; apply H; reflexivity|intros _; exact I]. Qed.

  (* ---------- the tiling invariant ---------- *)
  (* the file is the version record, the regions A, a gap g (bytes that belong to no
     region while an operation is under way), the regions B; the table and the free
     maps describe exactly the regions *)
  Definition gtiles (s : ST) (A : list region) (g : bytes) (B : list region) : Prop :=
    cur (sdata s) = vrec ++ ser A ++ g ++ ser B /\
    lenN (cur (sdata s)) < two64 /\
    trel (rtab s) (layout 24 A ++ layout (24 + slen A + lenN g) B) /\
    rwf (rtab s) /\ version s = 1.

  Definition tiles (s : ST) (rg : list region) : Prop := gtiles s rg [] [].

  Lemma gtiles_len s A g B : gtiles s A g B -> lenN (cur (sdata s)) = 24 + slen A + lenN g + slen B.
  Proof. intros (-> & _). rewrite !lenN_app, lenN_vrec. unfold slen. lia. Qed.

  Lemma tiles_intro s rg :
    cur (sdata s) = vrec ++ ser rg -> lenN (cur (sdata s)) < two64 ->
    trel (rtab s) (layout 24 rg) -> rwf (rtab s) -> version s = 1 -> tiles s rg.
  Proof.
    intros H1 H2 H3 H4 H5. unfold tiles, gtiles. cbn [ser layout]. rewrite !app_nil_r. auto.
  Qed.

  Lemma tiles_elim s rg : tiles s rg ->
    cur (sdata s) = vrec ++ ser rg /\ lenN (cur (sdata s)) < two64 /\
    trel (rtab s) (layout 24 rg) /\ rwf (rtab s) /\ version s = 1.
  Proof. unfold tiles, gtiles. cbn [ser layout]. rewrite !app_nil_r. auto. Qed.


  (* ---------- mark_free_compact ---------- *)
  Definition all_free (F : list region) : Prop := forall i v, In (i, v) F -> i = 0.

  Lemma all_free_get F j : all_free F -> j <> 0 -> m_get F j = None.
  Proof. intros HF Hj. apply m_get_notin. intros v Hin. apply HF in Hin. congruence. Qed.

  Lemma all_free_nil : all_free [].
  Proof. intros i v []. Qed.

  (* the free map describes the free regions of a layout, except at the positions XF
     (free regions that have been taken out of the maps and are being reused) *)
  Definition frelx (rs : records) (L : list (N * N * N)) (XF : N -> Prop) : Prop :=
    (forall q n, ~ XF q -> (In (q, 0, n) L <-> m_get (fps rs) q = Some n)) /\
    (forall q, XF q -> m_get (fps rs) q = None).

  Lemma trel_frelx rs L : trel rs L -> frelx rs L (fun _ => False).
  Proof. intros [_ TF]. split; [intros q n _; apply TF|intros q []]. Qed.

  Lemma merge_fwd_spec fuel XF : forall rs LA e B rs' e',
    fwf rs -> (forall q i n, In (q, i, n) LA -> q + 16 + n <= e) ->
    frelx rs (LA ++ layout e B) XF ->
    merge_fwd fuel rs e = (rs', e') ->
    exists F B', B = F ++ B' /\ all_free F /\ e' = e + slen F /\
      frelx rs' (LA ++ layout e' B') XF /\ fwf rs' /\ recs rs' = recs rs /\
      (forall q i n, In (q, i, n) (layout e F) -> ~ XF q).
  Proof.
    induction fuel as [|f IH]; intros rs LA e B rs' e' FW HLA TR; cbn [merge_fwd].
    - intros [= <- <-]. exists [], B. rewrite slen_nil, N.add_0_r. split; [reflexivity|]. split; [apply all_free_nil|]. split; [reflexivity|]. split; [assumption|]. split; [assumption|]. split; [reflexivity|intros q0 i0 n0 []].
    - destruct (m_get (fps rs) e) as [n'|] eqn:Eg.
      2:{ intros [= <- <-]. exists [], B. rewrite slen_nil, N.add_0_r. split; [reflexivity|]. split; [apply all_free_nil|]. split; [reflexivity|]. split; [assumption|]. split; [assumption|]. split; [reflexivity|intros q0 i0 n0 []]. }
      intros HM. pose proof TR as [TRf TRx].
      assert (HXe : ~ XF e) by (intros HX; apply TRx in HX; congruence).
      assert (Hin : In (e, 0, n') (LA ++ layout e B)) by (apply TRf; assumption).
      apply in_app_or in Hin. destruct Hin as [Hin|Hin]; [apply HLA in Hin; lia|].
      destruct (layout_at_start _ _ _ _ Hin) as (p & B1 & -> & Hp).
      assert (TR1 : frelx (remove_free rs e) (LA ++ layout (e + 16 + n') B1) XF).
      { split.
        - intros q n HXq. rewrite fps_remove_free.
          destruct (N.eqb_spec e q) as [<-|Hq].
          + split; [|discriminate]. rewrite in_app_iff. intros [H|H]; [apply HLA in H; lia|apply layout_range in H; lia].
          + rewrite <- (TRf q n HXq). cbn [layout]. rewrite Hp, !in_app_iff. cbn [In].
            split; [tauto|]. intros [H|[H|H]]; auto. injection H as H _. congruence.
        - intros q HXq. rewrite fps_remove_free. destruct (e =? q); [reflexivity|auto]. }
      destruct (IH (remove_free rs e) LA (e + 16 + n') B1 rs' e' (fwf_remove_free _ _ _ FW Eg)
                   ltac:(intros q i n H; apply HLA in H; lia) TR1 HM) as (F & B' & -> & HF & He' & TR' & FW' & HR & HNX).
      exists ((0, p) :: F), B'. split; [reflexivity|]. split.
      { intros i v [[= <- _]|H]; [reflexivity|eapply HF; eassumption]. }
      split; [rewrite slen_cons; cbn [snd]; lia|]. split; [assumption|]. split; [assumption|]. split; [exact HR|].
      cbn [layout]. intros q0 i0 n0 [[= <- _ _]|H]; [assumption|]. rewrite Hp in H. eapply HNX; eassumption.
  Qed.

  Lemma merge_bwd_spec fuel XF : forall rs A LB rs' p',
    fwf rs -> (forall q i n, In (q, i, n) LB -> 24 + slen A <= q) ->
    frelx rs (layout 24 A ++ LB) XF ->
    merge_bwd fuel rs (24 + slen A) = (rs', p') ->
    exists A' F, A = A' ++ F /\ all_free F /\ p' = 24 + slen A' /\
      frelx rs' (layout 24 A' ++ LB) XF /\ fwf rs' /\ recs rs' = recs rs /\
      (A' = A \/ ~ XF p') /\
      (forall q i n, In (q, i, n) (layout (24 + slen A') F) -> ~ XF q).
  Proof.
    induction fuel as [|f IH]; intros rs A LB rs' p' FW HLB TR; cbn [merge_bwd].
    - intros [= <- <-]. exists A, []. rewrite app_nil_r. split; [reflexivity|]. split; [apply all_free_nil|]. split; [reflexivity|]. split; [assumption|]. split; [assumption|]. split; [reflexivity|]. split; [left; reflexivity|intros q0 i0 n0 []].
    - destruct (m_prev (fps rs) (24 + slen A)) as [[pp n']|] eqn:Eg.
      2:{ intros [= <- <-]. exists A, []. rewrite app_nil_r. split; [reflexivity|]. split; [apply all_free_nil|]. split; [reflexivity|]. split; [assumption|]. split; [assumption|]. split; [reflexivity|]. split; [left; reflexivity|intros q0 i0 n0 []]. }
      destruct (N.eqb_spec (pp + 16 + n') (24 + slen A)) as [Eend|].
      2:{ intros [= <- <-]. exists A, []. rewrite app_nil_r. split; [reflexivity|]. split; [apply all_free_nil|]. split; [reflexivity|]. split; [assumption|]. split; [assumption|]. split; [reflexivity|]. split; [left; reflexivity|intros q0 i0 n0 []]. }
      intros HM. pose proof TR as [TRf TRx]. pose proof FW as (KS & _).
      apply m_prev_In in Eg. destruct Eg as [Hin Hlt].
      assert (Eg : m_get (fps rs) pp = Some n') by (apply In_get; assumption).
      assert (HXp : ~ XF pp) by (intros HX; apply TRx in HX; congruence).
      assert (Hin2 : In (pp, 0, n') (layout 24 A ++ LB)) by (apply TRf; assumption).
      apply in_app_or in Hin2. destruct Hin2 as [Hin2|Hin2]; [|apply HLB in Hin2; lia].
      destruct (layout_at_end _ _ _ _ _ Hin2 Eend) as (A1 & p & -> & Hp & Hpp).
      assert (TR1 : frelx (remove_free rs (24 + slen A1)) (layout 24 A1 ++ LB) XF).
      { rewrite <- Hpp. rewrite layout_app in TRf. cbn [layout] in TRf. rewrite Hp, <- Hpp in TRf. split.
        - intros q n HXq. rewrite fps_remove_free.
          destruct (N.eqb_spec pp q) as [<-|Hq].
          + split; [|discriminate]. rewrite in_app_iff. intros [H|H]; [apply layout_range in H; lia|apply HLB in H].
            rewrite slen_app, slen_cons in H. lia.
          + rewrite <- (TRf q n HXq), !in_app_iff. cbn [In].
            split; [tauto|]. intros [[H|[H|[]]]|H]; auto. injection H as H _. congruence.
        - intros q HXq. rewrite fps_remove_free. destruct (pp =? q); [reflexivity|auto]. }
      rewrite Hpp in HM. rewrite Hpp in Eg.
      destruct (IH (remove_free rs (24 + slen A1)) A1 LB rs' p' (fwf_remove_free _ _ _ FW Eg)
                   ltac:(intros q i n H; apply HLB in H; rewrite slen_app in H; lia) TR1 HM) as (A' & F & -> & HF & He' & TR' & FW' & HR & HX' & HNX).
      exists A', (F ++ [(0, p)]). split; [now rewrite app_assoc|]. split.
      { intros i v H. apply in_app_or in H. destruct H as [H|[[= <- _]|[]]]; [eapply HF; eassumption|reflexivity]. }
      split; [assumption|]. split; [assumption|]. split; [assumption|]. split; [exact HR|]. split.
      { right. destruct HX' as [EA|HX']; [|assumption]. rewrite <- EA in Hpp. rewrite He', <- Hpp. assumption. }
      intros q0 i0 n0 H. rewrite layout_app, in_app_iff in H. destruct H as [H|H]; [eapply HNX; eassumption|].
      cbn [layout In] in H. destruct H as [[= <- _ _]|[]]. replace (24 + slen A' + slen F) with pp by (rewrite Hpp, slen_app; lia). assumption.
  Qed.

  (* free_a_region on a gap of at least 16 bytes: the gap and the free regions around it
     become one free region; nothing else changes (the live part of the table is not looked at) *)
  Lemma free_region_low s A g B XF (Q : ST -> unit -> Prop) E :
    cur (sdata s) = vrec ++ ser A ++ g ++ ser B -> lenN (cur (sdata s)) < two64 -> 16 <= lenN g ->
    fwf (rtab s) -> frelx (rtab s) (layout 24 A ++ layout (24 + slen A + lenN g) B) XF ->
    ~ XF (24 + slen A) ->
    (forall s' A' F1 F2 B' X,
        A = A' ++ F1 -> B = F2 ++ B' -> all_free F1 -> all_free F2 ->
        (forall q i n, In (q, i, n) (layout (24 + slen A') F1 ++ layout (24 + slen A + lenN g) F2) -> ~ XF q) ->
        cur (sdata s') = vrec ++ ser (A' ++ (0, X) :: B') ->
        lenN X + 16 = slen F1 + lenN g + slen F2 ->
        lenN (cur (sdata s')) = lenN (cur (sdata s)) ->
        fwf (rtab s') -> frelx (rtab s') (layout 24 (A' ++ (0, X) :: B')) XF ->
        recs (rtab s') = recs (rtab s) ->
        tx s' = tx s -> dur (sdata s') = dur (sdata s) -> version s' = version s -> Q s' tt) ->
    wp (free_a_region cdata ops (24 + slen A) (lenN g - 16)) s Q E.
  Proof.
    intros Hcur Hlen Hg FW TR HXP HQ.
    assert (HLEN : lenN (cur (sdata s)) = 24 + slen A + lenN g + slen B).
    { rewrite Hcur, !lenN_app, lenN_vrec. unfold slen. lia. }
    unfold free_a_region. apply wp_bind, wp_get_rtab.
    unfold mark_free_compact.
    replace (24 + slen A + 16 + (lenN g - 16)) with (24 + slen A + lenN g) by lia.
    destruct (merge_fwd (S (length (fps (rtab s)))) (rtab s) (24 + slen A + lenN g)) as [rs1 e] eqn:E1.
    assert (BA : forall q i n, In (q, i, n) (layout 24 A) -> q + 16 + n <= 24 + slen A + lenN g)
      by (intros q i n H; apply layout_range in H; lia).
    destruct (merge_fwd_spec _ _ _ _ _ _ _ _ FW BA TR E1)
      as (F2 & B' & -> & HF2 & He & TR1 & FW1 & HR1 & HNX2).
    destruct (merge_bwd (S (length (fps (rtab s)))) rs1 (24 + slen A)) as [rs2 p'] eqn:E2.
    assert (BB : forall q i n, In (q, i, n) (layout e B') -> 24 + slen A <= q)
      by (intros q i n H; apply layout_range in H; lia).
    destruct (merge_bwd_spec _ _ _ _ _ _ _ FW1 BB TR1 E2)
      as (A' & F1 & -> & HF1 & Hp' & TR2 & FW2 & HR2 & HX2 & HNX1).
    assert (HXp' : ~ XF p').
    { destruct HX2 as [EA|HX2]; [|assumption]. rewrite Hp', EA. assumption. }
    set (G := ser F1 ++ g ++ ser F2).
    assert (HG : lenN G = e - p').
    { unfold G. rewrite !lenN_app. rewrite slen_app in He. unfold slen in *. lia. }
    assert (HG16 : 16 <= lenN G) by (unfold G; rewrite !lenN_app; lia).
    set (size' := e - p' - 16).
    apply wp_bind, wp_put_rtab. unfold write_record. cbn [r_pos r_index r_size].
    assert (Hcur2 : cur (sdata s) = (vrec ++ ser A') ++ firstn 16 G ++ (skipn 16 G ++ ser B')).
    { rewrite Hcur, !ser_app. rewrite (app_assoc (firstn 16 G) (skipn 16 G) (ser B')), firstn_skipn.
      unfold G. rewrite <- !app_assoc. reflexivity. }
    assert (HF16 : length (firstn 16 G) = 16%nat) by (rewrite firstn_length; unfold lenN in HG16; lia).
    assert (HS : lenN (skipn 16 G) = size').
    { unfold lenN, size'. rewrite skipn_length. unfold lenN in HG. lia. }
    assert (HP16 : (N.to_nat p' + 16 <= length (cur (sdata s)))%nat).
    { rewrite Hcur2, !app_length, HF16. change (length vrec) with 24%nat. rewrite Hp'. unfold slen, lenN. lia. }
    apply wp_dwrite.
    { cbn [sdata set_rtab]. rewrite HLEN, slen_app. lia. }
    intros _. apply (HQ _ A' F1 F2 B' (skipn 16 G)); try reflexivity; try assumption.
    - intros q i n H. apply in_app_or in H. destruct H as [H|H]; [eapply HNX1|eapply HNX2]; eassumption.
    - cbn [sdata set_cur set_data set_rtab cur]. rewrite Hcur2.
      rewrite bs_write_mid.
      + rewrite ser_app. cbn [ser]. unfold enc. cbn [fst snd]. rewrite HS, <- !app_assoc. reflexivity.
      + rewrite app_length. change (length vrec) with 24%nat. rewrite Hp'. unfold slen, lenN. lia.
      + rewrite app_length, !le64_length, HF16. reflexivity.
    - rewrite HS. unfold size'. rewrite slen_app in He. unfold G in HG. rewrite !lenN_app in HG. unfold slen in *. lia.
    - cbn [sdata set_cur set_data set_rtab cur]. unfold lenN. rewrite bs_write_length, app_length, !le64_length. lia.
    - cbn [rtab set_cur set_data set_rtab]. apply fwf_mark_free; [exact FW2|].
      destruct (m_get (fps rs2) p') as [n0|] eqn:En; [|reflexivity]. exfalso.
      apply (proj1 TR2 _ _ HXp') in En. apply in_app_or in En. destruct En as [H|H]; apply layout_range in H; lia.
    - cbn [rtab set_cur set_data set_rtab]. rewrite layout_app. cbn [layout].
      rewrite HS, <- Hp'. replace (p' + 16 + size') with e by (unfold size'; lia).
      destruct TR2 as [TRf TRx]. split.
      + intros q n HXq. rewrite fps_mark_free.
        destruct (N.eqb_spec p' q) as [<-|Hq].
        * rewrite !in_app_iff. cbn [In]. split.
          -- intros [H|[H|H]].
             ++ apply layout_range in H. lia.
             ++ injection H as H. subst n. reflexivity.
             ++ apply layout_range in H. lia.
          -- intros [= <-]. right; left; reflexivity.
        * rewrite <- (TRf q n HXq), !in_app_iff. cbn [In].
          split; [|tauto]. intros [H|[H|H]]; auto. injection H as H _. congruence.
      + intros q HXq. rewrite fps_mark_free. destruct (N.eqb_spec p' q) as [<-|]; [contradiction|auto].
    - cbn [rtab set_cur set_data set_rtab recs mark_free]. rewrite HR2, HR1. reflexivity.
  Qed.

  (* the layout after merging: the entries of the live regions are where they were *)
  Lemma merge_layout_same A A' F1 B F2 B' X G :
    A = A' ++ F1 -> B = F2 ++ B' -> all_free F1 -> all_free F2 -> lenN X + 16 = slen F1 + G + slen F2 ->
    forall q i n, i <> 0 ->
      (In (q, i, n) (layout 24 (A' ++ (0, X) :: B')) <-> In (q, i, n) (layout 24 A ++ layout (24 + slen A + G) B)).
  Proof.
    intros -> -> HF1 HF2 HX q i n Hi.
    rewrite !layout_app. cbn [layout]. rewrite !in_app_iff. cbn [In]. rewrite ?in_app_iff, ?slen_app.
    assert (Z1 : forall P, ~ In (q, i, n) (layout P F1)).
    { intros P H. apply layout_In in H. destruct H as (v & H & _). apply HF1 in H. congruence. }
    assert (Z2 : forall P, ~ In (q, i, n) (layout P F2)).
    { intros P H. apply layout_In in H. destruct H as (v & H & _). apply HF2 in H. congruence. }
    replace (24 + slen A' + 16 + lenN X) with (24 + (slen A' + slen F1) + G + slen F2) by lia.
    split.
    - intros [H|[H|H]]; auto. injection H as _ <- _. congruence.
    - intros [[H|H]|[H|H]]; auto; [destruct (Z1 _ H)|destruct (Z2 _ H)].
  Qed.

  (* the usual case: nothing else is under way *)
  Lemma free_a_region_spec s A g B (Q : ST -> unit -> Prop) E :
    gtiles s A g B -> 16 <= lenN g ->
    (forall s' A' F1 F2 B' X,
        A = A' ++ F1 -> B = F2 ++ B' -> all_free F1 -> all_free F2 ->
        tiles s' (A' ++ (0, X) :: B') ->
        lenN (cur (sdata s')) = lenN (cur (sdata s)) ->
        tx s' = tx s -> dur (sdata s') = dur (sdata s) -> Q s' tt) ->
    wp (free_a_region cdata ops (24 + slen A) (lenN g - 16)) s Q E.
  Proof.
    intros (Hcur & Hlen & TR & [TW FW] & Hv) Hg HQ.
    apply (free_region_low s A g B (fun _ => False)); auto using trel_frelx.
    intros s' A' F1 F2 B' X EA EB HF1 HF2 _ Hcur' HX Hlen' FW' [TRf' _] HR Htx Hdur Hver.
    apply (HQ s' A' F1 F2 B' X); auto.
    apply tiles_intro; auto; try congruence.
    - split; [|intros q n; apply TRf'; tauto].
      intros q i n Hi. rewrite HR. rewrite <- (proj1 TR q i n Hi).
      apply (merge_layout_same A A' F1 B F2 B' X (lenN g)); assumption.
    - split; [rewrite HR; exact TW|exact FW'].
  Qed.
End Canon.
