(* NoEmptyAliasProofs.v — no alias in the map is ever empty (C10, after fix b8b5b10 = flag fix_empty_alias):
   InsertAliases, InsertNodes and InsertValues are the only queries that add aliases and all three reject
   the empty one; removals only remove; a rollback restores the alias map of the state before (C13).
   `nea d` = the empty alias does not resolve.  Forward preservation needs no invariant at all
   (exec_in_txn_nea); across rollbacks it follows from the restoration theorems of HistoryAtomicProofs.v. *)
From Agdb Require Import Bytes BytesProofs DbValue Graph DbModel Search Queries Revisions
  DbFrameProofs ImapProofs AliasProofs AliasQueryProofs IndexDb3Proofs QStepProofs
  DbInvProofs QueryInvProofs TraversalLiveProofs UndoObs UndoGraph HistoryAtomicProofs.
From Coq Require Import ZifyBool ZifyNat ZifyN.
Open Scope Z_scope.

Definition nea (d : db) : Prop := imap_value (aliases d) [] = None.

Lemma nea_new : nea db_new.
Proof. reflexivity. Qed.

Lemma nea_same d d' : aliases d' = aliases d -> nea d -> nea d'.
Proof. unfold nea. now intros ->. Qed.

(* ---------- the alias map operations ---------- *)
Lemma imap_insert_keeps_none m (a : bytes) id x :
  a <> x -> imap_value m x = None -> imap_value (imap_insert m a id) x = None.
Proof.
  intros Hne Hx. rewrite imap_insert_value_raw. cbv zeta.
  assert (E : bytes_eqb a x = false).
  { destruct (bytes_eqb a x) eqn:E; [|reflexivity]. apply bytes_eqb_eq in E. contradiction. }
  rewrite E, Hx. destruct (insert_old_k m a id) as [k|]; [destruct (bytes_eqb k x)|]; reflexivity.
Qed.

Lemma imap_remove_keeps_none m a x : imap_value m x = None -> imap_value (imap_remove_key m a) x = None.
Proof. intros Hx. rewrite imap_remove_key_value, Hx. now destruct (bytes_eqb a x). Qed.

Lemma drop_alias_keeps_none m al x : imap_value m x = None -> imap_value (drop_alias m al) x = None.
Proof. intros Hx. rewrite drop_alias_value, Hx. destruct al as [a|]; [now destruct (bytes_eqb a x)|reflexivity]. Qed.

Section Nea.
  Variable rv : revision.
  Hypothesis Hempty : fix_empty_alias rv = true.

  Lemma insert_alias_nea d id (al : bytes) : al <> [] -> nea d -> nea (insert_alias rv d id al).
  Proof.
    intros Hne Hd. unfold nea. rewrite insert_alias_aliases. unfold insert_alias_map.
    apply imap_insert_keeps_none; [exact Hne|].
    destruct (imap_key (aliases d) id) as [old|]; [|exact Hd]. now do 2 apply imap_remove_keeps_none.
  Qed.

  Lemma insert_new_alias_nea d id (al : bytes) : al <> [] -> nea d -> nea (insert_new_alias d id al).
  Proof. intros Hne Hd. unfold nea, insert_new_alias. cbn [aliases with_aliases]. now apply imap_insert_keeps_none. Qed.

  Lemma insert_kvs_replace_aliases d id kvs : aliases (insert_kvs_replace d id kvs) = aliases d.
  Proof.
    unfold insert_kvs_replace. apply (fold_left_inv (fun a => aliases a = aliases d)); [reflexivity|].
    intros a x _ Ha. now rewrite (proj2 (insert_or_replace_key_value_ga a id x)).
  Qed.

  Lemma insert_kvs_new_aliases d id kvs : aliases (insert_kvs_new d id kvs) = aliases d.
  Proof. apply (proj2 (insert_kvs_new_ga d id kvs)). Qed.

  Lemma insert_values_new_nea a acc alias kvs :
    match alias with Some al => al <> [] | None => True end -> nea a -> nea (fst (insert_values_new a acc alias kvs)).
  Proof.
    intros Hal Ha. unfold insert_values_new. destruct (insert_node_db_fields a) as (Fa & _).
    destruct (insert_node_db a) as [id a1]. cbn [fst snd] in *.
    apply (nea_same _ _ (insert_kvs_new_aliases _ id kvs)).
    destruct alias as [al|]; [apply insert_new_alias_nea; [exact Hal|]|]; now apply (nea_same a).
  Qed.

  Lemma remove_id_nea a id : nea a -> nea (fst (remove_id a id)).
  Proof.
    intros Ha. unfold nea. rewrite remove_id_aliases. destruct (graph_index (gr a) id && (0 <? id)); [|exact Ha].
    now apply drop_alias_keeps_none.
  Qed.

  Lemma remove_q_nea a q : nea a -> nea (fst (remove_q a q)).
  Proof.
    intros Ha. destruct q as [id|al]; [now apply remove_id_nea|]. unfold nea. rewrite remove_q_aliases.
    destruct (imap_value (aliases a) al); [|exact Ha]. now apply drop_alias_keeps_none.
  Qed.

  Lemma nth_error_nonempty (als : list bytes) i al :
    existsb (fun al : bytes => match al with [] => true | _ => false end) als = false ->
    nth_error als i = Some al -> al <> [].
  Proof.
    intros He Hn -> . apply nth_error_In in Hn.
    assert (H : existsb (fun al : bytes => match al with [] => true | _ => false end) als = true); [|congruence].
    apply existsb_exists. exists []. now split.
  Qed.

  (* ---------- the queries ---------- *)
  Lemma insert_nodes_nea d count values als ids : nea d -> nea (step_db (insert_nodes rv d count values als ids)).
  Proof.
    intros Hd. unfold insert_nodes. rewrite Hempty. cbn [andb].
    destruct (existsb _ als) eqn:Eals; cbn [step_db]; [exact Hd|].
    destruct (resolve_ids rv d ids) as [query_ids|e|]; cbn [step_db]; try exact Hd.
    match goal with |- context [Nat.ltb ?x ?y] => destruct (Nat.ltb x y) end; cbn [step_db]; [exact Hd|].
    destruct (negb (Nat.eqb (length query_ids) 0)).
    - destruct (existsb _ query_ids); cbn [step_db]; [exact Hd|].
      match goal with |- context [negb ?b] => destruct (negb b) end; cbn [step_db]; [exact Hd|].
      unfold ok_elements. cbn [step_db]. apply fold_left_inv; [exact Hd|].
      intros a [i [id kvs]] _ Ha.
      assert (Ha1 : nea (insert_kvs_replace a id kvs)) by (now apply (nea_same a); [apply insert_kvs_replace_aliases|]).
      destruct (nth_error als i) as [al|] eqn:En; [|exact Ha1].
      pose proof (nth_error_nonempty als i al Eals En) as Hne.
      destruct (fix_nodes_ids_alias rv); [now apply insert_alias_nea|now apply insert_new_alias_nea].
    - match goal with |- context [fold_left ?f ?l ?a0] =>
        assert (H : (fun acc : db * list Z => nea (fst acc)) (fold_left f l a0)) end.
      { apply fold_left_inv; [exact Hd|]. intros [a out] [i kvs] _ Ha. cbn [fst] in *.
        destruct (nth_error als i) as [al|] eqn:En.
        - destruct (db_id a (QAlias al)) as [id|e].
          + cbn [fst]. now apply (nea_same a); [apply insert_kvs_replace_aliases|].
          + pose proof (insert_values_new_nea a (0, []) (Some al) kvs (nth_error_nonempty als i al Eals En) Ha) as H.
            unfold insert_values_new in H. destruct (insert_node_db a) as [id a1]. cbn [fst] in *. exact H.
        - pose proof (insert_values_new_nea a (0, []) None kvs I Ha) as H. unfold insert_values_new in H.
          destruct (insert_node_db a) as [id a1]. cbn [fst] in *. exact H. }
      match goal with |- context [fold_left ?f ?l ?a0] => destruct (fold_left f l a0) as [d1 ids_rev] end.
      cbn [fst] in H. unfold ok_elements. cbn [step_db]. exact H.
  Qed.

  Lemma insert_edges_nea d from to values each ids : nea d -> nea (step_db (insert_edges rv d from to values each ids)).
  Proof.
    intros Hd. unfold insert_edges.
    destruct (resolve_ids rv d ids) as [query_ids|e|]; cbn [step_db]; try exact Hd.
    destruct (negb (Nat.eqb (length query_ids) 0)).
    - destruct (existsb _ query_ids); cbn [step_db]; [exact Hd|].
      destruct (edge_values values (length query_ids)) as [vl|e]; cbn [step_db]; [|exact Hd].
      unfold ok_elements. cbn [step_db]. apply fold_left_inv; [exact Hd|].
      intros a [id kvs] _ Ha. cbn [fst snd]. now apply (nea_same a); [apply insert_kvs_replace_aliases|].
    - destruct (edge_db_ids rv d from) as [fl|e|]; cbn [step_db]; try exact Hd.
      destruct (edge_db_ids rv d to) as [tl|e|]; cbn [step_db]; try exact Hd.
      match goal with |- context [edge_values values ?n] => destruct (edge_values values n) as [vl|e] end; cbn [step_db]; [|exact Hd].
      match goal with |- context [insert_edge_list d ?p] => assert (H : nea (step_db (insert_edge_list d p))) end.
      { unfold insert_edge_list.
        match goal with |- context [st_fold ?f d [] ?p] => assert (H : nea (step_db (st_fold f d [] p))) end.
        { apply st_fold_inv; [exact Hd|]. intros a out [[f t] kvs] _ Ha.
          destruct (insert_edge_db a f t) as [[id a1]|e] eqn:Ei; cbn [step_db]; [|exact Ha].
          destruct (insert_edge_db_fields a f t id a1 Ei) as (g' & _ & _ & Fa & _).
          apply (nea_same _ _ (insert_kvs_new_aliases a1 id kvs)). now apply (nea_same a). }
        destruct (st_fold _ d [] _); cbn [step_db] in *; exact H. }
      match goal with |- context [insert_edge_list d ?p] => destruct (insert_edge_list d p) end; cbn [step_db ok_elements] in *; exact H.
  Qed.

  Lemma insert_aliases_nea d ids (als : list bytes) : nea d -> nea (step_db (insert_aliases rv d ids als)).
  Proof.
    intros Hd. destruct ids as [l|s]; [|exact Hd]. rewrite insert_aliases_unfold.
    destruct (negb (Nat.eqb _ _)); cbn [step_db]; [exact Hd|].
    assert (H : nea (step_db (st_fold (ia_step rv) d 0 (combine l als)))).
    { apply st_fold_inv; [exact Hd|]. intros a n [q al] _ Ha. cbn [ia_step].
      destruct al as [|b al]; cbn [step_db]; [exact Ha|].
      destruct (db_id a q) as [id|e]; cbn [step_db]; [|exact Ha].
      destruct (fix_alias_nodes_only rv && (id <? 0)); cbn [step_db]; [exact Ha|].
      apply insert_alias_nea; [discriminate|exact Ha]. }
    destruct (st_fold (ia_step rv) d 0 (combine l als)); cbn [step_db] in *; exact H.
  Qed.

  Lemma insert_values_q_nea a acc q kvs : nea a -> nea (step_db (insert_values_q rv a acc q kvs)).
  Proof.
    intros Ha. unfold insert_values_q.
    assert (Efst : forall p : db * (Z * list element),
              step_db (let '(d1, a0) := p in StOk d1 a0) = fst p) by (intros [? ?]; reflexivity).
    destruct (db_id a q) as [id|e].
    - unfold insert_values_id. cbn [step_db]. now apply (nea_same a); [apply insert_kvs_replace_aliases|].
    - destruct q as [id|al].
      + destruct (id =? 0); cbn [step_db]; [|exact Ha].
        rewrite Efst. exact (insert_values_new_nea a acc None kvs I Ha).
      + rewrite Hempty. cbn [andb]. destruct al as [|b al]; cbn [step_db]; [exact Ha|].
        rewrite Efst. exact (insert_values_new_nea a acc (Some (b :: al)) kvs ltac:(discriminate) Ha).
  Qed.

  Lemma insert_values_nea d ids values : nea d -> nea (step_db (insert_values rv d ids values)).
  Proof.
    intros Hd. unfold insert_values. destruct ids as [l|s].
    - destruct values as [kvs|vl].
      + apply st_fold_inv; [exact Hd|]. intros a acc q _ Ha. now apply insert_values_q_nea.
      + destruct (negb (Nat.eqb (length l) (length vl))); cbn [step_db]; [exact Hd|].
        apply st_fold_inv; [exact Hd|]. intros a acc x _ Ha. now apply insert_values_q_nea.
    - destruct (search rv d s) as [db_ids|e|]; cbn [step_db]; try exact Hd.
      destruct values as [kvs|vl].
      + apply st_fold_inv; [exact Hd|]. intros a acc id _ Ha. unfold insert_values_id. cbn [step_db].
        now apply (nea_same a); [apply insert_kvs_replace_aliases|].
      + destruct (negb (Nat.eqb (length db_ids) (length vl))); cbn [step_db]; [exact Hd|].
        apply st_fold_inv; [exact Hd|]. intros a acc x _ Ha. unfold insert_values_id. cbn [step_db].
        now apply (nea_same a); [apply insert_kvs_replace_aliases|].
  Qed.

  Lemma remove_query_nea d ids : nea d -> nea (step_db (remove_query rv d ids)).
  Proof.
    intros Hd. unfold remove_query.
    assert (Hfin : forall r : step Z,
              step_db (match r with StOk d1 n => StOk d1 (n, []) | StErr d1 e => StErr d1 e | StPanic d1 => StPanic d1 end
                       : step (Z * list element)) = step_db r) by (intros [? ?|? ?|?]; reflexivity).
    destruct ids as [l|s].
    - rewrite Hfin. apply st_fold_inv; [exact Hd|]. intros a n q _ Ha.
      pose proof (remove_q_nea a q Ha) as H. destruct (remove_q a q) as [a1 [[|]|e]]; cbn [step_db fst] in *; exact H.
    - destruct (search rv d s) as [db_ids|e|]; cbn [step_db]; try exact Hd.
      rewrite Hfin. apply st_fold_inv; [exact Hd|]. intros a n id _ Ha.
      pose proof (remove_id_nea a id Ha) as H. destruct (remove_id a id) as [a1 [[|]|e]]; cbn [step_db fst] in *; exact H.
  Qed.

  Lemma remove_aliases_nea d als : nea d -> nea (step_db (remove_aliases d als)).
  Proof.
    intros Hd. unfold remove_aliases.
    match goal with |- context [fold_left ?f als ?a0] => assert (H : nea (snd (fold_left f als a0))) end.
    { apply (fold_left_inv (fun acc : Z * db => nea (snd acc))); [exact Hd|].
      intros [n a] al _ Ha. cbn [fst snd] in *.
      assert (H : nea (snd (remove_alias a al))).
      { unfold nea. rewrite remove_alias_value. unfold nea in Ha. rewrite Ha. now destruct (bytes_eqb al []). }
      destruct (remove_alias a al) as [b a1]. exact H. }
    match goal with |- context [fold_left ?f als ?a0] => destruct (fold_left f als a0) as [n d1] end.
    cbn [step_db snd] in *. exact H.
  Qed.

  Lemma remove_values_nea d ids keys : nea d -> nea (step_db (remove_values rv d ids keys)).
  Proof.
    intros Hd. unfold remove_values.
    assert (Hfin : forall r : step Z,
              step_db (match r with StOk d1 n => StOk d1 (n, []) | StErr d1 e => StErr d1 e | StPanic d1 => StPanic d1 end
                       : step (Z * list element)) = step_db r) by (intros [? ?|? ?|?]; reflexivity).
    destruct ids as [l|s].
    - rewrite Hfin. apply st_fold_inv; [exact Hd|]. intros a n q _ Ha.
      destruct (db_id a q) as [id|e]; cbn [step_db]; [|exact Ha].
      pose proof (proj2 (remove_keys_ga a id keys)) as G. destruct (remove_keys a id keys) as [k a1]. cbn [step_db snd] in *.
      now apply (nea_same a).
    - destruct (search rv d s) as [db_ids|e|]; cbn [step_db]; try exact Hd.
      rewrite Hfin. apply st_fold_inv; [exact Hd|]. intros a n id _ Ha.
      pose proof (proj2 (remove_keys_ga a id keys)) as G. destruct (remove_keys a id keys) as [k a1]. cbn [step_db snd] in *.
      now apply (nea_same a).
  Qed.

  Lemma remove_index_aliases d key : aliases (snd (remove_index d key)) = aliases d.
  Proof.
    unfold remove_index. destruct (idx_find (indexes d) key) as [ids|]; cbn [snd]; [|reflexivity].
    cbn [aliases with_indexes push_undo]. apply (fold_left_inv (fun a => aliases a = aliases d)); [reflexivity|].
    intros a p _ Ha. exact Ha.
  Qed.

  Theorem exec_in_txn_nea d q : nea d -> nea (fst (exec_in_txn rv d q)).
  Proof.
    intros Hd. rewrite exec_in_txn_db. destruct q; cbn [is_mutating exec_mut_step]; try exact Hd.
    - now apply insert_nodes_nea.
    - now apply insert_edges_nea.
    - now apply insert_aliases_nea.
    - now apply insert_values_nea.
    - pose proof (insert_index_spec d key) as S. destruct (insert_index d key) as [[n d1]|e]; cbn [step_db]; [|exact Hd].
      destruct S as (_ & _ & _ & Ea & _). now apply (nea_same d).
    - pose proof (remove_index_aliases d key) as E. destruct (remove_index d key) as [n d1]. cbn [step_db snd] in *.
      now apply (nea_same d).
    - now apply remove_query_nea.
    - now apply remove_aliases_nea.
    - now apply remove_values_nea.
  Qed.

  Theorem txn_run_nea qs : forall d acc, nea d -> nea (fst (fst (txn_run rv d qs acc))).
  Proof.
    induction qs as [|q r IH]; intros d acc Hd; cbn [txn_run]; [exact Hd|].
    pose proof (exec_in_txn_nea d q Hd) as H. destruct (exec_in_txn rv d q) as [d1 res]. cbn [fst] in *.
    destruct (is_failure res); [exact H|now apply IH].
  Qed.

  (* an item of a history that did not fail ends with a commit *)
  Lemma run_item_commit d it :
    item_failed rv d it = false -> aliases (run_item rv d it) = aliases (item_peak rv d it).
  Proof.
    destruct it as [q|qs f]; cbn [item_failed run_item item_peak].
    - unfold exec. destruct (exec_in_txn rv d q) as [d1 r]. destruct r as [n els|e|]; cbn [fst snd is_failure].
      + reflexivity.
      + destruct (rollback rv d1); cbn [snd is_failure]; discriminate.
      + discriminate.
    - unfold txn_failed, transaction. destruct (txn_run rv d qs []) as [[d1 results] all_ok]. cbn [fst snd].
      intros H. apply Bool.negb_false_iff in H. rewrite H.
      destruct (existsb _ results); reflexivity.
  Qed.

  Lemma item_peak_nea d it : nea d -> nea (item_peak rv d it).
  Proof. intros Hd. destruct it as [q|qs f]; cbn [item_peak]; [now apply exec_in_txn_nea|now apply txn_run_nea]. Qed.
End Nea.

(* ---------- histories, rv_fixed ---------- *)
Lemma restored_nea d d' : restored d d' -> nea d -> nea d'.
Proof. intros [Ho _] Hd. unfold nea. rewrite <- (oe_alias_value _ _ Ho). exact Hd. Qed.

Theorem history_nea_fixed its : forall d,
  Forall item_ok its -> HInv d -> nea d -> bounded rv_fixed d its ->
  nea (run_items rv_fixed d its).
Proof.
  induction its as [|it r IH]; intros d Hok Hd Hn Hb; [exact Hn|].
  inversion Hok as [|? ? Hok1 Hok2]; subst. destruct Hb as [Hb1 Hb2]. cbn [run_items fold_left].
  destruct (item_atomic rv_fixed eq_refl eq_refl eq_refl eq_refl eq_refl search_live_fixed d it Hok1 Hd Hb1) as [Hd' Hres].
  apply (IH (run_item rv_fixed d it) Hok2 Hd'); [|exact Hb2].
  destruct (item_failed rv_fixed d it) eqn:Ef.
  - exact (restored_nea _ _ (Hres eq_refl) Hn).
  - apply (nea_same (item_peak rv_fixed d it)); [now apply run_item_commit|now apply (item_peak_nea rv_fixed eq_refl)].
Qed.

Theorem history_no_empty_alias_fixed its :
  Forall item_ok its -> bounded rv_fixed db_new its ->
  let d := run_items rv_fixed db_new its in
  imap_value (aliases d) [] = None /\ forall id, imap_key (aliases d) id <> Some [].
Proof.
  intros Hok Hb. cbv zeta. pose proof (history_nea_fixed its db_new Hok HInv_new nea_new Hb) as Hn.
  split; [exact Hn|]. intros id Hk.
  pose proof (history_HInv_fixed its Hok Hb) as ((_ & Hbij & _) & _).
  unfold imap_key in Hk. apply (proj1 Hbij [] id) in Hk. unfold nea, imap_value in Hn. congruence.
Qed.
