(* StoredDbOpsLinkStorage.v — proofs (stored database, part 30): the covered histories transferred to the MODEL OF storage.rs
   (C04; file-like and memory-like): from any storage state refining a record map that holds d (HInv d), opening the handles
   (so_open) and running the programs of a covered history either dies by a panic of the storage (a request beyond 2^64
   bytes) or returns the ids `exec rv_fixed` reports in a storage state refining a record map that HOLDS the fold of
   `exec rv_fixed`, at the same transaction depth, the change confined to the database's footprint. *)
From Coq Require Import Permutation.
From Agdb Require Import Bytes BytesProofs Utf8 Codec DbValue ValueIndex Graph DbModel Search Queries Revisions Records RecordsProofs
  Storage StorageSpec
  StorageLayout StorageWp StorageRefine StorageProofs Collections CollValues CollWp CollBytes CollVecBase CollVecOps CollVec CollVec2
  CollElems CollSep CollMap CollGraph CollValuesProofs StoredDb StoredDbRep StoredDbLoad StoredDbProofs StoredDbFrame StoredDbOps
  StoredDbOpsGraph StoredDbOpsGraph2 StoredDbOpsDb StoredDbOpsKv StoredDbOpsKv2 StoredDbOpsKv3 StoredDbOpsDb2 StoredDbOpsDb3
  StoredDbOpsQuery StoredDbOpsLink StoredDbOpsLinkHist.
From Agdb Require HistoryAtomicProofs.

Theorem so_covered_on_storage (ops : store_ops cdata) (fl : bool) : kind ops fl ->
  forall s sp root d l, Rel s sp -> stored_db (hp sp) root d -> HistoryAtomicProofs.HInv d -> so_covered_all rv_fixed d l ->
    let r := cp_run (st_step cdata ops) (h <~ so_open root ;; cq_runs h l) s in
    snd r = CrDead \/
    exists sp' h' w w', Rel (fst r) sp' /\ snd r = CrOk (h', snd (cq_model rv_fixed d l)) /\
                        stored_db_w (hp sp) root d w /\ stored_db_w (hp sp') root (fst (cq_model rv_fixed d l)) w' /\
                        so_handles h' w' /\ HistoryAtomicProofs.HInv (fst (cq_model rv_fixed d l)) /\ sdepth sp' = sdepth sp /\
                        frame (hp sp) (hp sp') (sd_foot root w) (sd_foot root w').
Proof.
  intros K s sp root d l RL (w0 & H0) HI OK r.
  assert (HW : cwp fl (h <~ so_open root ;; cq_runs h l) sp
                   (fun r sp' => exists h' w w', r = CrOk (h', snd (cq_model rv_fixed d l)) /\
                        stored_db_w (hp sp) root d w /\ stored_db_w (hp sp') root (fst (cq_model rv_fixed d l)) w' /\
                        so_handles h' w' /\ HistoryAtomicProofs.HInv (fst (cq_model rv_fixed d l)) /\ sdepth sp' = sdepth sp /\
                        frame (hp sp) (hp sp') (sd_foot root w) (sd_foot root w'))).
  { apply cwp_bind. eapply so_open_spec; [exact H0|]. intros h w1 H1 Hh1 _. cbn [kont].
    eapply cwp_mono; [|eapply so_cqs_stored; eassumption].
    intros r0 sp' (h' & w' & -> & H' & Hh' & HI' & D' & F'). exists h', w1, w'. repeat (split; [first [reflexivity|assumption]|]). exact F'. }
  destruct (cwp_sound ops fl K _ s sp _ RL HW) as [D|(sp' & RL' & h' & w & w' & E & X)]; [left; exact D|right].
  exists sp', h', w, w'. split; [exact RL'|]. split; [exact E|exact X].
Qed.
