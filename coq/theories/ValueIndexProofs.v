(* ValueIndexProofs.v — C12: every stored value reads back bit-for-bit
   (lemmas about ValueIndex.v). *)
From Agdb Require Import Bytes BytesProofs Utf8 Codec CodecProofs DbValue ValueIndex.
From Coq Require Import ZifyBool ZifyNat ZifyN.
Ltac Zify.zify_post_hook ::= Z.div_mod_to_equations.
Open Scope N_scope.
Arguments N.add : simpl never.
Arguments N.mul : simpl never.
Arguments N.sub : simpl never.
Arguments N.div : simpl never.
Arguments N.modulo : simpl never.
Arguments N.ltb : simpl never.
Arguments N.leb : simpl never.
Arguments N.eqb : simpl never.
Arguments N.of_nat : simpl never.
Arguments N.to_nat : simpl never.
Arguments N.land : simpl never.
Arguments N.lor : simpl never.
Arguments N.shiftl : simpl never.
Arguments N.shiftr : simpl never.

(* ------------------------------------------------------------------ *)
(* byte 15: the mask / shift facts by a finite sweep                     *)
(* ------------------------------------------------------------------ *)

Definition range256 : list N := map N.of_nat (seq 0 256).
Definition range16 : list N := map N.of_nat (seq 0 16).

(* set_size: new byte from old byte b and size s *)
Definition size_byte (b s : N) : N := N.lor (N.land s 15) (N.land b 240).
(* set_type: new byte from old byte b and type t *)
Definition type_byte (b t : N) : N := N.lor (N.land (N.shiftl t 4) 255) (N.land b 15).

Definition size_facts (b s : N) : bool :=
  let v := size_byte b s in
  (v <? 256) && (N.land v 15 =? s) && (N.shiftr v 4 =? N.shiftr b 4).
Definition type_facts (b t : N) : bool :=
  let v := type_byte b t in
  (v <? 256) && (N.shiftr v 4 =? t) && (N.land v 15 =? N.land b 15).
Definition nib_facts (b : N) : bool :=
  (N.land b 15 <? 16) && (N.shiftr b 4 <? 16) && (N.shiftr b 4 * 16 + N.land b 15 =? b).

Lemma sweep_size : forallb (fun b => forallb (size_facts b) range16) range256 = true.
Proof. vm_compute. reflexivity. Qed.
Lemma sweep_type : forallb (fun b => forallb (type_facts b) range16) range256 = true.
Proof. vm_compute. reflexivity. Qed.
Lemma sweep_nib : forallb nib_facts range256 = true.
Proof. vm_compute. reflexivity. Qed.

Lemma in_range256 b : b < 256 -> In b range256.
Proof.
  intros Hb. unfold range256. apply in_map_iff. exists (N.to_nat b). split; [lia|].
  apply in_seq. lia.
Qed.
Lemma in_range16 b : b < 16 -> In b range16.
Proof.
  intros Hb. unfold range16. apply in_map_iff. exists (N.to_nat b). split; [lia|].
  apply in_seq. lia.
Qed.

Lemma size_byte_facts b s : b < 256 -> s < 16 ->
  size_byte b s < 256 /\ N.land (size_byte b s) 15 = s /\ N.shiftr (size_byte b s) 4 = N.shiftr b 4.
Proof.
  intros Hb Hs. pose proof sweep_size as H.
  rewrite forallb_forall in H. specialize (H b (in_range256 b Hb)).
  rewrite forallb_forall in H. specialize (H s (in_range16 s Hs)).
  unfold size_facts in H. cbv zeta in H. lia.
Qed.

Lemma type_byte_facts b t : b < 256 -> t < 16 ->
  type_byte b t < 256 /\ N.shiftr (type_byte b t) 4 = t /\ N.land (type_byte b t) 15 = N.land b 15.
Proof.
  intros Hb Ht. pose proof sweep_type as H.
  rewrite forallb_forall in H. specialize (H b (in_range256 b Hb)).
  rewrite forallb_forall in H. specialize (H t (in_range16 t Ht)).
  unfold type_facts in H. cbv zeta in H. lia.
Qed.

Lemma nibbles b : b < 256 ->
  N.land b 15 < 16 /\ N.shiftr b 4 < 16 /\ N.shiftr b 4 * 16 + N.land b 15 = b.
Proof.
  intros Hb. pose proof sweep_nib as H.
  rewrite forallb_forall in H. specialize (H b (in_range256 b Hb)).
  unfold nib_facts in H. lia.
Qed.

(* ------------------------------------------------------------------ *)
(* list facts                                                           *)
(* ------------------------------------------------------------------ *)

Lemma nth_skipn {A} (l : list A) k i d : nth i (skipn k l) d = nth (k + i) l d.
Proof.
  revert l; induction k as [|k IH]; intros l; [reflexivity|].
  destruct l as [|x l]; cbn [skipn Nat.add nth]; [now destruct i|apply IH].
Qed.

Lemma firstn_app_exact {A} (a b : list A) n : length a = n -> firstn n (a ++ b) = a.
Proof.
  intros <-. rewrite firstn_app, Nat.sub_diag, firstn_all. cbn [firstn]. apply app_nil_r.
Qed.

Lemma firstn_app_le {A} (a b : list A) n : (n <= length a)%nat -> firstn n (a ++ b) = firstn n a.
Proof.
  intros H. rewrite firstn_app. replace (n - length a)%nat with 0%nat by lia.
  cbn [firstn]. apply app_nil_r.
Qed.

Lemma skipn_app_exact {A} (a b : list A) n : length a = n -> skipn n (a ++ b) = b.
Proof.
  intros <-. rewrite skipn_app, Nat.sub_diag, skipn_all. reflexivity.
Qed.

(* ------------------------------------------------------------------ *)
(* the index as sixteen bytes                                           *)
(* ------------------------------------------------------------------ *)

Definition wf_ix (ix : vindex) : Prop := length ix = 16%nat.

Lemma vi_new_wf : wf_ix vi_new.
Proof. reflexivity. Qed.

Lemma byte15_lt ix : byte15 ix < 256.
Proof. apply b2n_lt. Qed.

Lemma put15_wf ix n : wf_ix ix -> wf_ix (put15 ix n).
Proof.
  unfold wf_ix, put15. intros H. rewrite app_length, firstn_length. cbn [length]. lia.
Qed.

Lemma byte15_put15 ix n : wf_ix ix -> n < 256 -> byte15 (put15 ix n) = n.
Proof.
  unfold wf_ix, put15, byte15. intros H Hn.
  rewrite app_nth2; rewrite firstn_length; [|lia].
  replace (15 - Nat.min 15 (length ix))%nat with 0%nat by lia. cbn [nth].
  rewrite b2n_n2b. apply N.mod_small. exact Hn.
Qed.

Lemma firstn15_put15 ix n : wf_ix ix -> firstn 15 (put15 ix n) = firstn 15 ix.
Proof.
  unfold wf_ix, put15. intros H. apply firstn_app_exact. rewrite firstn_length. lia.
Qed.

Lemma firstn_put15 ix n k : wf_ix ix -> (k <= 15)%nat -> firstn k (put15 ix n) = firstn k ix.
Proof.
  intros H Hk. replace k with (Nat.min k 15) by lia.
  rewrite <- !firstn_firstn. now rewrite firstn15_put15.
Qed.

Lemma overwrite_wf ix src : wf_ix ix -> (length src <= 15)%nat -> wf_ix (overwrite ix src).
Proof.
  unfold wf_ix, overwrite. intros H Hs. rewrite app_length, skipn_length. lia.
Qed.

Lemma byte15_overwrite ix src : wf_ix ix -> (length src <= 15)%nat ->
  byte15 (overwrite ix src) = byte15 ix.
Proof.
  unfold wf_ix, overwrite, byte15. intros H Hs.
  rewrite app_nth2 by lia. rewrite nth_skipn. f_equal. f_equal. lia.
Qed.

Lemma firstn_overwrite ix src : firstn (length src) (overwrite ix src) = src.
Proof. unfold overwrite. now apply firstn_app_exact. Qed.

Lemma skipn_overwrite ix src : skipn (length src) (overwrite ix src) = skipn (length src) ix.
Proof. unfold overwrite. now apply skipn_app_exact. Qed.

Lemma skipn_firstn_overwrite ix src : (length src <= 15)%nat ->
  skipn (length src) (firstn 15 (overwrite ix src)) = skipn (length src) (firstn 15 ix).
Proof.
  intros Hs. unfold overwrite. rewrite firstn_app.
  rewrite (firstn_all2 src) by lia.
  rewrite skipn_app_exact by reflexivity.
  rewrite skipn_firstn_comm.
  replace (length src + (15 - length src))%nat with 15%nat by lia. reflexivity.
Qed.

(* ---- set_size ---- *)

Lemma set_size_wf ix s : wf_ix ix -> wf_ix (set_size ix s).
Proof. intros H. now apply put15_wf. Qed.

Lemma set_size_fields ix s : wf_ix ix -> s < 16 ->
  vi_size (set_size ix s) = s /\
  vi_type (set_size ix s) = vi_type ix /\
  firstn 15 (set_size ix s) = firstn 15 ix.
Proof.
  intros H Hs. unfold vi_size, vi_type, set_size.
  destruct (size_byte_facts (byte15 ix) s (byte15_lt ix) Hs) as (Hlt & Hsz & Hty).
  fold (size_byte (byte15 ix) s).
  rewrite byte15_put15 by assumption. repeat split; try assumption.
  now apply firstn15_put15.
Qed.

(* set_size masks its argument: only the low four bits of `s` matter *)
Lemma set_size_mask ix s : set_size ix s = set_size ix (N.land s 15).
Proof.
  unfold set_size. f_equal. f_equal.
  rewrite <- N.land_assoc. reflexivity.
Qed.

Lemma land15_lt s : N.land s 15 < 16.
Proof. change 15 with (N.ones 4). rewrite N.land_ones. apply N.mod_lt. discriminate. Qed.

Lemma set_size_keeps_type ix s : wf_ix ix ->
  vi_type (set_size ix s) = vi_type ix /\ firstn 15 (set_size ix s) = firstn 15 ix.
Proof.
  intros H. rewrite set_size_mask.
  destruct (set_size_fields ix (N.land s 15) H (land15_lt s)) as (_ & ? & ?). now split.
Qed.

(* ---- set_type ---- *)

Lemma set_type_wf ix t : wf_ix ix -> wf_ix (set_type ix t).
Proof. intros H. now apply put15_wf. Qed.

Lemma set_type_fields ix t : wf_ix ix -> t < 16 ->
  vi_type (set_type ix t) = t /\
  vi_size (set_type ix t) = vi_size ix /\
  firstn 15 (set_type ix t) = firstn 15 ix.
Proof.
  intros H Ht. unfold vi_size, vi_type, set_type.
  destruct (type_byte_facts (byte15 ix) t (byte15_lt ix) Ht) as (Hlt & Hty & Hsz).
  unfold vi_size. fold (type_byte (byte15 ix) t).
  rewrite byte15_put15 by assumption. repeat split; try assumption.
  now apply firstn15_put15.
Qed.

(* `value << 4` on u8 drops the high bits: only t mod 16 matters *)
Lemma set_type_mask ix t : set_type ix t = set_type ix (t mod 16).
Proof.
  unfold set_type. f_equal. f_equal.
  change 255 with (N.ones 8). rewrite !N.land_ones, !N.shiftl_mul_pow2.
  change (2 ^ 4) with 16. change (2 ^ 8) with 256. lia.
Qed.

Lemma set_type_keeps_size ix t : wf_ix ix ->
  vi_size (set_type ix t) = vi_size ix /\ firstn 15 (set_type ix t) = firstn 15 ix.
Proof.
  intros H. rewrite set_type_mask.
  assert (Ht : t mod 16 < 16) by (apply N.mod_lt; discriminate).
  destruct (set_type_fields ix (t mod 16) H Ht) as (_ & ? & ?). now split.
Qed.

(* ---- payload writes ---- *)

Lemma overwrite_fields ix src : wf_ix ix -> (length src <= 15)%nat ->
  vi_type (overwrite ix src) = vi_type ix /\
  vi_size (overwrite ix src) = vi_size ix /\
  firstn (length src) (overwrite ix src) = src /\
  skipn (length src) (overwrite ix src) = skipn (length src) ix.
Proof.
  intros H Hs. unfold vi_type, vi_size. rewrite byte15_overwrite by assumption.
  repeat split; [apply firstn_overwrite|apply skipn_overwrite].
Qed.

Lemma lenN_le_nat {A} (l : list A) k : lenN l <= N.of_nat k -> (length l <= k)%nat.
Proof. unfold lenN. lia. Qed.

(* set_value of at most 15 bytes *)
Lemma set_value_fields ix bs : wf_ix ix -> lenN bs <= 15 ->
  let r := set_value ix bs in
  fst r = true /\ wf_ix (snd r) /\
  vi_type (snd r) = vi_type ix /\ vi_size (snd r) = lenN bs /\ vi_value (snd r) = bs /\
  skipn (length bs) (firstn 15 (snd r)) = skipn (length bs) (firstn 15 ix).
Proof.
  intros H Hl. unfold set_value.
  destruct (15 <? lenN bs) eqn:E; [lia|]. cbn [fst snd].
  assert (Hn : (length bs <= 15)%nat) by (unfold lenN in Hl; lia).
  assert (Hs : lenN bs < 16) by lia.
  pose proof (set_size_wf ix (lenN bs) H) as Hw.
  destruct (set_size_fields ix (lenN bs) H Hs) as (Hsz & Hty & Hpay).
  destruct (overwrite_fields (set_size ix (lenN bs)) bs Hw Hn) as (Hty' & Hsz' & Hfst & Hskp).
  split; [reflexivity|]. split; [now apply overwrite_wf|].
  split; [congruence|]. split; [congruence|]. split.
  - unfold vi_value. rewrite Hsz', Hsz. unfold lenN. rewrite Nat2N.id. exact Hfst.
  - rewrite skipn_firstn_overwrite by assumption. now rewrite Hpay.
Qed.

(* set_value of more than 15 bytes changes nothing *)
Lemma set_value_too_long ix bs : 15 < lenN bs -> set_value ix bs = (false, ix).
Proof. intros H. unfold set_value. destruct (15 <? lenN bs) eqn:E; [reflexivity|lia]. Qed.

Lemma set_index_fields ix n : wf_ix ix -> n < two64 ->
  wf_ix (set_index ix n) /\
  vi_type (set_index ix n) = vi_type ix /\ vi_size (set_index ix n) = 0 /\
  vi_index (set_index ix n) = n /\
  skipn 8 (firstn 15 (set_index ix n)) = skipn 8 (firstn 15 ix).
Proof.
  intros H Hn. unfold set_index.
  pose proof (set_size_wf ix 0 H) as Hw.
  destruct (set_size_fields ix 0 H ltac:(lia)) as (Hsz & Hty & Hpay).
  assert (Hl : (length (le64 n) <= 15)%nat) by (rewrite le64_length; lia).
  destruct (overwrite_fields (set_size ix 0) (le64 n) Hw Hl) as (Hty' & Hsz' & Hfst & Hskp).
  split; [now apply overwrite_wf|]. split; [congruence|]. split; [congruence|]. split.
  - unfold vi_index. rewrite le64_length in Hfst. rewrite Hfst. now apply de_le64.
  - pose proof (skipn_firstn_overwrite (set_size ix 0) (le64 n) Hl) as E.
    rewrite le64_length in E. rewrite E. now rewrite Hpay.
Qed.

(* ------------------------------------------------------------------ *)
(* the indexes store_db_value builds                                    *)
(* ------------------------------------------------------------------ *)

Lemma vi_index_zero_prefix ix : firstn 8 ix = repeat x00 8 -> vi_index ix = 0.
Proof. unfold vi_index. intros ->. reflexivity. Qed.

(* inline: type t, at most 15 payload bytes *)
Lemma inline_ix t bs : t < 16 -> lenN bs <= 15 ->
  let ix := snd (set_value (set_type vi_new t) bs) in
  fst (set_value (set_type vi_new t) bs) = true /\
  wf_ix ix /\ vi_type ix = t /\ vi_size ix = lenN bs /\ vi_value ix = bs /\ is_value ix = true.
Proof.
  intros Ht Hl. cbv zeta.
  pose proof (set_type_wf vi_new t vi_new_wf) as Hw.
  destruct (set_type_fields vi_new t vi_new_wf Ht) as (Hty & Hsz & Hpay).
  destruct (set_value_fields (set_type vi_new t) bs Hw Hl) as (Hok & Hw' & Hty' & Hsz' & Hval & Hrest).
  repeat split; try assumption; try congruence.
  unfold is_value. rewrite Hsz'.
  destruct bs as [|b bs'].
  - (* the empty payload: size 0, and bytes 0..8 are still zero *)
    cbn [negb orb]. replace (lenN (@nil byte) =? 0) with true by reflexivity. cbn [negb orb].
    cbn [length skipn] in Hrest.
    assert (E : firstn 8 (snd (set_value (set_type vi_new t) [])) = repeat x00 8).
    { replace 8%nat with (Nat.min 8 15) by reflexivity. rewrite <- firstn_firstn.
      rewrite Hrest, Hpay. reflexivity. }
    rewrite (vi_index_zero_prefix _ E). reflexivity.
  - replace (lenN (b :: bs') =? 0) with false by (unfold lenN; cbn [length]; lia). reflexivity.
Qed.

(* out of line: type t, storage index i *)
Lemma outline_ix t i : t < 16 -> i < two64 ->
  let ix := set_index (set_type vi_new t) i in
  wf_ix ix /\ vi_type ix = t /\ vi_size ix = 0 /\ vi_index ix = i /\ is_value ix = (i =? 0).
Proof.
  intros Ht Hi. cbv zeta.
  pose proof (set_type_wf vi_new t vi_new_wf) as Hw.
  destruct (set_type_fields vi_new t vi_new_wf Ht) as (Hty & Hsz & Hpay).
  destruct (set_index_fields (set_type vi_new t) i Hw Hi) as (Hw' & Hty' & Hsz' & Hix & _).
  repeat split; try assumption; try congruence.
  unfold is_value. rewrite Hsz', Hix. reflexivity.
Qed.

(* ------------------------------------------------------------------ *)
(* the abstract store                                                   *)
(* ------------------------------------------------------------------ *)

(* what the allocator must guarantee at a store: a fresh, non-zero u64 index *)
Definition alloc_ok (alloc : store -> N) (st : store) : Prop :=
  alloc st <> 0 /\ alloc st < two64 /\ lookup (alloc st) st = None.

Lemma lookup_cons_eq i b st : lookup i ((i, b) :: st) = Some b.
Proof. cbn [lookup]. now rewrite N.eqb_refl. Qed.

Lemma lookup_cons_ne i j b st : j <> i -> lookup i ((j, b) :: st) = lookup i st.
Proof. intros H. cbn [lookup]. destruct (j =? i) eqn:E; [lia|reflexivity]. Qed.

Lemma lookup_none_notin i st : lookup i st = None -> ~ In i (keys st).
Proof.
  induction st as [|[j b] st IH]; cbn [lookup keys map fst In]; [tauto|].
  destruct (j =? i) eqn:E; [discriminate|]. intros H [Hj|Hin]; [lia|]. now apply IH.
Qed.

Lemma filter_notin i st : ~ In i (keys st) -> filter (fun p => negb (fst p =? i)) st = st.
Proof.
  induction st as [|[j b] st IH]; cbn [filter keys map fst In]; [reflexivity|].
  intros H. destruct (j =? i) eqn:E; [exfalso; apply H; left; lia|].
  cbn [negb]. f_equal. apply IH. intros Hin. apply H. now right.
Qed.

Lemma st_remove_fresh i b st : lookup i st = None -> st_remove i ((i, b) :: st) = Ok st.
Proof.
  intros H. unfold st_remove. rewrite lookup_cons_eq. cbn [filter fst].
  rewrite N.eqb_refl. cbn [negb]. f_equal. apply filter_notin. now apply lookup_none_notin.
Qed.

Lemma fold_max_ge l i : In i l -> i <= fold_right N.max 0 l.
Proof.
  induction l as [|x l IH]; cbn [In fold_right]; [tauto|]. intros [->|H]; [lia|].
  specialize (IH H). lia.
Qed.

Lemma lookup_some_in i st b : lookup i st = Some b -> In i (keys st).
Proof.
  induction st as [|[j c] st IH]; cbn [lookup keys map fst In]; [discriminate|].
  destruct (j =? i) eqn:E; [left; lia|]. intros H. right. now apply IH.
Qed.

(* the driver's allocator is fresh as long as the indexes in use leave room *)
Lemma fresh_ix_ok st : (forall i, In i (keys st) -> i + 1 < two64) -> alloc_ok fresh_ix st.
Proof.
  intros Hb. unfold alloc_ok, fresh_ix. repeat split; [lia| |].
  - assert (H : fold_right N.max 0 (keys st) + 1 < two64 \/ fold_right N.max 0 (keys st) = 0).
    { clear -Hb. induction (keys st) as [|x l IH]; cbn [fold_right]; [now right|].
      left. assert (Hx := Hb x (or_introl eq_refl)).
      destruct IH as [IH|IH]; [intros i Hi; apply Hb; now right| |]; lia. }
    unfold two64 in *. lia.
  - destruct (lookup (1 + fold_right N.max 0 (keys st)) st) eqn:E; [|reflexivity].
    apply lookup_some_in in E. apply fold_max_ge in E. lia.
Qed.

(* ------------------------------------------------------------------ *)
(* codec values for the vector kinds                                    *)
(* ------------------------------------------------------------------ *)

Lemma forallb_map {A B} (f : B -> bool) (g : A -> B) l : forallb f (map g l) = forallb (fun x => f (g x)) l.
Proof. induction l as [|x l IH]; cbn [map forallb]; [reflexivity|now rewrite IH]. Qed.

Lemma lenN_map {A B} (g : A -> B) l : lenN (map g l) = lenN l.
Proof. unfold lenN. now rewrite map_length. Qed.

Lemma map_un {A} (mk : A -> val) (un : val -> A) l : (forall x, un (mk x) = x) -> map un (map mk l) = l.
Proof. intros H. rewrite map_map. induction l as [|x l IH]; cbn [map]; [reflexivity|now rewrite H, IH]. Qed.

Lemma value_as_found t v i st :
  ty_ok t = true -> has_type t v = true ->
  lookup i st = Some (enc v) -> value_as t i st = Ok v.
Proof.
  intros Hty Hv Hl. unfold value_as, rec_get. rewrite Hl. cbn [obind].
  rewrite <- (app_nil_r (enc v)). rewrite (roundtrip Debug guards_fixed t v [] Hty Hv).
  reflexivity.
Qed.

(* ------------------------------------------------------------------ *)
(* round trip                                                           *)
(* ------------------------------------------------------------------ *)

Definition extends (st st' : store) : Prop :=
  forall i b, lookup i st = Some b -> lookup i st' = Some b.

(* `store` adds at most one record, under the allocator's fresh index; every
   existing record is unchanged and no other index becomes readable *)
Definition adds_only (alloc : store -> N) (st st' : store) : Prop :=
  st' = st \/ exists b, st' = (alloc st, b) :: st.

Lemma adds_only_extends alloc st st' : alloc_ok alloc st -> adds_only alloc st st' -> extends st st'.
Proof.
  intros (_ & _ & Hf) [->|[b ->]] i c H; [exact H|].
  rewrite lookup_cons_ne; [exact H|]. intros E. rewrite E in Hf. congruence.
Qed.

Lemma adds_only_others alloc st st' i :
  adds_only alloc st st' -> i <> alloc st -> lookup i st' = lookup i st.
Proof. intros [->|[b ->]] H; [reflexivity|]. apply lookup_cons_ne. congruence. Qed.

Lemma store_adds_only alloc v st : adds_only alloc st (snd (store_db_value alloc v st)).
Proof.
  destruct v; cbn [store_db_value snd]; try (now left);
    unfold store_inline_or, store_out, st_insert;
    try (destruct (set_value _ _) as [[|] ?]; cbn [snd]; [now left|]);
    cbn [snd]; right; eexists; reflexivity.
Qed.

Lemma num_roundtrip t n : t < 16 -> n < two64 ->
  let ix := snd (set_value (set_type vi_new t) (le64 n)) in
  vi_type ix = t /\ load_num ix = Ok n.
Proof.
  intros Ht Hn. cbv zeta.
  assert (Hl : lenN (le64 n) <= 15) by (rewrite lenN_le64; lia).
  destruct (inline_ix t (le64 n) Ht Hl) as (_ & _ & Hty & Hsz & Hval & _).
  split; [exact Hty|]. unfold load_num. rewrite Hsz, lenN_le64. cbn [N.eqb].
  replace (8 =? 8) with true by reflexivity. rewrite Hval. now rewrite de_le64.
Qed.

Lemma i64_ok_range z : i64_ok z = true -> (- 9223372036854775808 <= z < 9223372036854775808)%Z.
Proof. unfold i64_ok. lia. Qed.

Theorem store_load_roundtrip_ext alloc v st st' :
  wf_value v = true -> alloc_ok alloc st ->
  extends (snd (store_db_value alloc v st)) st' ->
  load_db_value (fst (store_db_value alloc v st)) st' = Ok v.
Proof.
  intros Hwf (Hnz & Hlt & Hfresh) Hext.
  destruct v as [bs|z|n|b|bs|l|l|l|l]; cbn [store_db_value wf_value] in *.
  - (* Bytes: the 15 / 16 boundary is this case split *)
    unfold store_inline_or in *.
    destruct (N.le_gt_cases (lenN bs) 15) as [Hle|Hgt].
    + destruct (inline_ix BYTES_META bs ltac:(reflexivity) Hle) as (Hok & _ & Hty & Hsz & Hval & Hisv).
      destruct (set_value (set_type vi_new BYTES_META) bs) as [ok ix]. cbn [fst snd] in *. subst ok.
      cbn [fst snd]. unfold load_db_value. rewrite Hty. change BYTES_META with 1.
      cbv iota. rewrite Hisv, Hval. reflexivity.
    + rewrite set_value_too_long in * by lia. unfold st_insert in *. cbn [fst snd] in *.
      destruct (outline_ix BYTES_META (alloc st) ltac:(reflexivity) Hlt) as (_ & Hty & Hsz & Hix & Hisv).
    set (ix := set_index (set_type vi_new BYTES_META) (alloc st)) in *.
      unfold load_db_value. rewrite Hty. change BYTES_META with 1. cbv iota.
      rewrite Hisv, Hix. replace (alloc st =? 0) with false by lia.
      unfold rec_get. rewrite (Hext _ _ (lookup_cons_eq _ _ _)). reflexivity.
  - (* I64 *)
    cbn [fst snd]. apply i64_ok_range in Hwf.
    destruct (num_roundtrip I64_META (z2u z) ltac:(reflexivity) (z2u_lt z)) as (Hty & Hnum).
    set (ix := snd (set_value (set_type vi_new I64_META) (le64 (z2u z)))) in *.
    unfold load_db_value. rewrite Hty. change I64_META with 2. cbv iota.
    rewrite Hnum. cbn [obind]. now rewrite u2z_z2u.
  - (* U64 *)
    cbn [fst snd].
    destruct (num_roundtrip U64_META n ltac:(reflexivity) ltac:(lia)) as (Hty & Hnum).
    set (ix := snd (set_value (set_type vi_new U64_META) (le64 n))) in *.
    unfold load_db_value. rewrite Hty. change U64_META with 3. cbv iota.
    rewrite Hnum. reflexivity.
  - (* F64: eight opaque bytes, every one of the 2^64 patterns *)
    cbn [fst snd].
    destruct (num_roundtrip F64_META b ltac:(reflexivity) ltac:(lia)) as (Hty & Hnum).
    set (ix := snd (set_value (set_type vi_new F64_META) (le64 b))) in *.
    unfold load_db_value. rewrite Hty. change F64_META with 4. cbv iota.
    rewrite Hnum. reflexivity.
  - (* String *)
    unfold store_inline_or in *. unfold str_ok in Hwf. apply andb_prop in Hwf. destruct Hwf as [Hu Hl60].
    destruct (N.le_gt_cases (lenN bs) 15) as [Hle|Hgt].
    + destruct (inline_ix STRING_META bs ltac:(reflexivity) Hle) as (Hok & _ & Hty & Hsz & Hval & Hisv).
      destruct (set_value (set_type vi_new STRING_META) bs) as [ok ix]. cbn [fst snd] in *. subst ok.
      cbn [fst snd]. unfold load_db_value. rewrite Hty. change STRING_META with 5.
      cbv iota. rewrite Hisv, Hval. unfold utf8_lossy.
      rewrite Hu. reflexivity.
    + rewrite set_value_too_long in * by lia. unfold st_insert in *. cbn [fst snd] in *.
      destruct (outline_ix STRING_META (alloc st) ltac:(reflexivity) Hlt) as (_ & Hty & Hsz & Hix & Hisv).
    set (ix := set_index (set_type vi_new STRING_META) (alloc st)) in *.
      unfold load_db_value. rewrite Hty. change STRING_META with 5. cbv iota.
      rewrite Hisv, Hix. replace (alloc st =? 0) with false by lia.
      rewrite (value_as_found TStr (VStr bs)); [reflexivity|reflexivity| |].
      * cbn [has_type]. now rewrite Hu, Hl60.
      * apply Hext, lookup_cons_eq.
  - (* Vec<i64> *)
    unfold store_out, st_insert in *. cbn [fst snd] in *.
    destruct (outline_ix VEC_I64_META (alloc st) ltac:(reflexivity) Hlt) as (_ & Hty & Hsz & Hix & Hisv).
    set (ix := set_index (set_type vi_new VEC_I64_META) (alloc st)) in *.
    unfold load_db_value. rewrite Hty. change VEC_I64_META with 6. cbv iota. rewrite Hix.
    rewrite (value_as_found (TVec TI64) (VVec (map VI64 l))); [|reflexivity| |apply Hext, lookup_cons_eq].
    + cbn [obind un_vec]. now rewrite (map_un VI64 un_i64).
    + cbn [has_type]. rewrite forallb_map, lenN_map. exact Hwf.
  - (* Vec<u64> *)
    unfold store_out, st_insert in *. cbn [fst snd] in *.
    destruct (outline_ix VEC_U64_META (alloc st) ltac:(reflexivity) Hlt) as (_ & Hty & Hsz & Hix & Hisv).
    set (ix := set_index (set_type vi_new VEC_U64_META) (alloc st)) in *.
    unfold load_db_value. rewrite Hty. change VEC_U64_META with 7. cbv iota. rewrite Hix.
    rewrite (value_as_found (TVec TU64) (VVec (map VU64 l))); [|reflexivity| |apply Hext, lookup_cons_eq].
    + cbn [obind un_vec]. now rewrite (map_un VU64 un_n).
    + cbn [has_type]. rewrite forallb_map, lenN_map. exact Hwf.
  - (* Vec<f64> *)
    unfold store_out, st_insert in *. cbn [fst snd] in *.
    destruct (outline_ix VEC_F64_META (alloc st) ltac:(reflexivity) Hlt) as (_ & Hty & Hsz & Hix & Hisv).
    set (ix := set_index (set_type vi_new VEC_F64_META) (alloc st)) in *.
    unfold load_db_value. rewrite Hty. change VEC_F64_META with 8. cbv iota. rewrite Hix.
    rewrite (value_as_found (TVec TF64) (VVec (map VF64 l))); [|reflexivity| |apply Hext, lookup_cons_eq].
    + cbn [obind un_vec]. now rewrite (map_un VF64 un_n).
    + cbn [has_type]. rewrite forallb_map, lenN_map. exact Hwf.
  - (* Vec<String> *)
    unfold store_out, st_insert in *. cbn [fst snd] in *.
    destruct (outline_ix VEC_STRING_META (alloc st) ltac:(reflexivity) Hlt) as (_ & Hty & Hsz & Hix & Hisv).
    set (ix := set_index (set_type vi_new VEC_STRING_META) (alloc st)) in *.
    unfold load_db_value. rewrite Hty. change VEC_STRING_META with 9. cbv iota. rewrite Hix.
    rewrite (value_as_found (TVec TStr) (VVec (map VStr l))); [|reflexivity| |apply Hext, lookup_cons_eq].
    + cbn [obind un_vec]. now rewrite (map_un VStr un_str).
    + cbn [has_type]. rewrite forallb_map, lenN_map. exact Hwf.
Qed.

Lemma extends_refl st : extends st st.
Proof. intros i b H. exact H. Qed.

Lemma extends_trans a b c : extends a b -> extends b c -> extends a c.
Proof. intros H1 H2 i x H. apply H2, H1, H. Qed.

Theorem store_load_roundtrip alloc v st :
  wf_value v = true -> alloc_ok alloc st ->
  load_db_value (fst (store_db_value alloc v st)) (snd (store_db_value alloc v st)) = Ok v.
Proof. intros Hwf Hal. apply store_load_roundtrip_ext; [assumption|assumption|apply extends_refl]. Qed.

(* ------------------------------------------------------------------ *)
(* shape of what `store` returns; removal                               *)
(* ------------------------------------------------------------------ *)

Lemma set_index_wf ix n : wf_ix ix -> wf_ix (set_index ix n).
Proof.
  intros H. unfold set_index. apply overwrite_wf; [now apply set_size_wf|].
  rewrite le64_length. lia.
Qed.

Lemma set_value_wf ix bs : wf_ix ix -> wf_ix (snd (set_value ix bs)).
Proof.
  intros H. unfold set_value. destruct (15 <? lenN bs) eqn:E; cbn [snd]; [exact H|].
  apply overwrite_wf; [now apply set_size_wf|]. unfold lenN in E. lia.
Qed.

Lemma vi_deserialize_app ix rest : wf_ix ix -> vi_deserialize (ix ++ rest) = Ok ix.
Proof.
  intros H. unfold vi_deserialize. rewrite (slice_app_exact ix rest 16 H). reflexivity.
Qed.

Lemma vi_deserialize_wf ix : wf_ix ix -> vi_deserialize ix = Ok ix.
Proof. intros H. rewrite <- (app_nil_r ix) at 1. now apply vi_deserialize_app. Qed.

(* either the value is inline and the store is untouched, or exactly one
   record was inserted under the allocator's index and the index names it *)
Definition stored_shape (alloc : store -> N) (st : store) (r : vindex * store) : Prop :=
  wf_ix (fst r) /\
  ((is_value (fst r) = true /\ snd r = st) \/
   (is_value (fst r) = false /\ vi_index (fst r) = alloc st /\ exists b, snd r = (alloc st, b) :: st)).

Lemma shape_inline alloc t bs st : t < 16 -> lenN bs <= 15 ->
  stored_shape alloc st (snd (set_value (set_type vi_new t) bs), st).
Proof.
  intros Ht Hl. destruct (inline_ix t bs Ht Hl) as (_ & Hw & _ & _ & _ & Hisv).
  split; [exact Hw|]. left. now split.
Qed.

Lemma shape_outline alloc t b st : t < 16 -> alloc_ok alloc st ->
  stored_shape alloc st (set_index (set_type vi_new t) (alloc st), (alloc st, b) :: st).
Proof.
  intros Ht (Hnz & Hlt & _).
  destruct (outline_ix t (alloc st) Ht Hlt) as (Hw & _ & _ & Hix & Hisv).
  split; [exact Hw|]. right. cbn [fst snd]. rewrite Hisv. repeat split; [lia|exact Hix|].
  now exists b.
Qed.

Lemma store_shape alloc v st : alloc_ok alloc st -> stored_shape alloc st (store_db_value alloc v st).
Proof.
  intros Hal.
  destruct v as [bs|z|n|b|bs|l|l|l|l]; cbn [store_db_value].
  - unfold store_inline_or. destruct (N.le_gt_cases (lenN bs) 15) as [Hle|Hgt].
    + pose proof (shape_inline alloc BYTES_META bs st ltac:(reflexivity) Hle) as Hs.
      destruct (inline_ix BYTES_META bs ltac:(reflexivity) Hle) as (Hok & _).
      destruct (set_value (set_type vi_new BYTES_META) bs) as [ok ix]. cbn [fst snd] in *. now subst ok.
    + rewrite set_value_too_long by lia. unfold st_insert.
      now apply shape_outline.
  - apply shape_inline; [reflexivity|rewrite lenN_le64; lia].
  - apply shape_inline; [reflexivity|rewrite lenN_le64; lia].
  - apply shape_inline; [reflexivity|rewrite lenN_le64; lia].
  - unfold store_inline_or. destruct (N.le_gt_cases (lenN bs) 15) as [Hle|Hgt].
    + pose proof (shape_inline alloc STRING_META bs st ltac:(reflexivity) Hle) as Hs.
      destruct (inline_ix STRING_META bs ltac:(reflexivity) Hle) as (Hok & _).
      destruct (set_value (set_type vi_new STRING_META) bs) as [ok ix]. cbn [fst snd] in *. now subst ok.
    + rewrite set_value_too_long by lia. unfold st_insert.
      now apply shape_outline.
  - unfold store_out, st_insert. now apply shape_outline.
  - unfold store_out, st_insert. now apply shape_outline.
  - unfold store_out, st_insert. now apply shape_outline.
  - unfold store_out, st_insert. now apply shape_outline.
Qed.

Lemma store_ix_wf alloc v st : wf_ix (fst (store_db_value alloc v st)).
Proof.
  pose proof (set_type_wf vi_new) as Hw.
  destruct v as [bs|z|n|b|bs|l|l|l|l]; cbn [store_db_value fst];
    unfold store_inline_or, store_out, st_insert;
    try (apply set_value_wf; apply Hw; exact vi_new_wf);
    try (apply set_index_wf; apply Hw; exact vi_new_wf).
  - pose proof (set_value_wf (set_type vi_new BYTES_META) bs (Hw _ vi_new_wf)) as H.
    destruct (set_value (set_type vi_new BYTES_META) bs) as [[|] ix]; cbn [fst snd] in *; [exact H|].
    apply set_index_wf, Hw, vi_new_wf.
  - pose proof (set_value_wf (set_type vi_new STRING_META) bs (Hw _ vi_new_wf)) as H.
    destruct (set_value (set_type vi_new STRING_META) bs) as [[|] ix]; cbn [fst snd] in *; [exact H|].
    apply set_index_wf, Hw, vi_new_wf.
Qed.

(* VecValue<DbValue>::remove applied to the stored index gives back the store
   as it was before `store`: the record `store` allocated is freed, nothing else *)
Theorem remove_frees_exactly alloc v st :
  alloc_ok alloc st ->
  remove_value (fst (store_db_value alloc v st)) (snd (store_db_value alloc v st)) = Ok st.
Proof.
  intros Hal. destruct (store_shape alloc v st Hal) as (Hw & [(Hv & Hst)|(Hv & Hix & b & Hst)]);
    unfold remove_value; rewrite (vi_deserialize_wf _ Hw); cbn [obind]; rewrite Hv.
  - now rewrite Hst.
  - rewrite Hst, Hix. apply st_remove_fresh. apply Hal.
Qed.

(* and a value that is not inline really occupies a record, which is gone afterwards *)
Theorem remove_unreadable alloc v st :
  alloc_ok alloc st -> is_value (fst (store_db_value alloc v st)) = false ->
  lookup (vi_index (fst (store_db_value alloc v st))) (snd (store_db_value alloc v st)) <> None /\
  lookup (vi_index (fst (store_db_value alloc v st))) st = None.
Proof.
  intros Hal Hnv. destruct (store_shape alloc v st Hal) as (Hw & [(Hv & Hst)|(Hv & Hix & b & Hst)]);
    [congruence|].
  rewrite Hst, Hix, lookup_cons_eq. split; [discriminate|apply Hal].
Qed.

(* ------------------------------------------------------------------ *)
(* key-value pairs: two indexes, 32 bytes                               *)
(* ------------------------------------------------------------------ *)

Lemma store_kv_length alloc k v st : length (fst (store_kv alloc k v st)) = 32%nat.
Proof.
  unfold store_kv.
  pose proof (store_ix_wf alloc k st) as Hk.
  destruct (store_db_value alloc k st) as [ki st1].
  pose proof (store_ix_wf alloc v st1) as Hv.
  destruct (store_db_value alloc v st1) as [vi st2]. cbn [fst snd] in *.
  unfold wf_ix in *. rewrite app_length. lia.
Qed.

Theorem kv_roundtrip alloc k v st :
  wf_value k = true -> wf_value v = true ->
  alloc_ok alloc st -> alloc_ok alloc (snd (store_db_value alloc k st)) ->
  load_kv (fst (store_kv alloc k v st)) (snd (store_kv alloc k v st)) = Ok (k, v).
Proof.
  intros Hk Hv Hal Hal1. unfold store_kv.
  pose proof (store_ix_wf alloc k st) as Hkw.
  pose proof (store_load_roundtrip_ext alloc k st) as Hkr.
  destruct (store_db_value alloc k st) as [ki st1]. cbn [fst snd] in *.
  pose proof (store_ix_wf alloc v st1) as Hvw.
  pose proof (store_load_roundtrip alloc v st1 Hv Hal1) as Hvr.
  pose proof (store_adds_only alloc v st1) as Hadd.
  destruct (store_db_value alloc v st1) as [vi st2]. cbn [fst snd] in *.
  unfold load_kv. rewrite (vi_deserialize_app ki vi Hkw). cbn [obind].
  rewrite (skipn_app_exact ki vi 16 Hkw), (vi_deserialize_wf vi Hvw). cbn [obind].
  rewrite (Hkr st2 Hk Hal (adds_only_extends alloc st1 st2 Hal1 Hadd)). cbn [obind].
  rewrite Hvr. reflexivity.
Qed.

Theorem kv_remove_frees_exactly alloc k v st :
  alloc_ok alloc st -> alloc_ok alloc (snd (store_db_value alloc k st)) ->
  remove_kv (fst (store_kv alloc k v st)) (snd (store_kv alloc k v st)) = Ok st.
Proof.
  intros Hal Hal1. unfold store_kv.
  pose proof (store_shape alloc k st Hal) as Hks.
  destruct (store_db_value alloc k st) as [ki st1]. cbn [fst snd] in *.
  pose proof (store_shape alloc v st1 Hal1) as Hvs.
  destruct (store_db_value alloc v st1) as [vi st2]. cbn [fst snd] in *.
  destruct Hks as (Hkw & Hks), Hvs as (Hvw & Hvs). cbn [fst snd] in *.
  unfold remove_kv. rewrite (vi_deserialize_app ki vi Hkw). cbn [obind].
  rewrite (skipn_app_exact ki vi 16 Hkw), (vi_deserialize_wf vi Hvw). cbn [obind].
  destruct Hal1 as (Hnz1 & Hlt1 & Hf1).
  destruct Hks as [(Hkv & Hst1)|(Hkv & Hkix & kb & Hst1)];
  destruct Hvs as [(Hvv & Hst2)|(Hvv & Hvix & vb & Hst2)]; rewrite Hkv; subst st1 st2.
  - cbn [obind]. now rewrite Hvv.
  - cbn [obind]. rewrite Hvv, Hvix. now apply st_remove_fresh.
  - rewrite Hkix, (st_remove_fresh _ _ _ (proj2 (proj2 Hal))). cbn [obind]. now rewrite Hvv.
  - (* both out of line: the key's record lies under the value's *)
    rewrite Hkix.
    assert (Hne : alloc ((alloc st, kb) :: st) <> alloc st).
    { intros E. rewrite E in Hf1. now rewrite lookup_cons_eq in Hf1. }
    assert (Hf1' : lookup (alloc ((alloc st, kb) :: st)) st = None).
    { rewrite lookup_cons_ne in Hf1 by congruence. exact Hf1. }
    unfold st_remove at 1. rewrite lookup_cons_ne by exact Hne. rewrite lookup_cons_eq.
    cbn [filter fst]. replace (alloc ((alloc st, kb) :: st) =? alloc st) with false by lia.
    rewrite N.eqb_refl. cbn [negb obind].
    rewrite (filter_notin _ _ (lookup_none_notin _ _ (proj2 (proj2 Hal)))).
    rewrite Hvv, Hvix. now apply st_remove_fresh.
Qed.

Lemma fold_max_bound l c :
  (forall i, In i l -> i + c < two64) ->
  fold_right N.max 0 l + c < two64 \/ fold_right N.max 0 l = 0.
Proof.
  intros Hb. induction l as [|x l IH]; cbn [fold_right]; [now right|].
  left. assert (Hx := Hb x (or_introl eq_refl)).
  destruct IH as [IH|IH]; [intros i Hi; apply Hb; now right| |]; lia.
Qed.

(* the concrete allocator of the driver: room for two more indexes suffices *)
Lemma fresh_ix_ok_twice k st :
  (forall i, In i (keys st) -> i + 2 < two64) ->
  alloc_ok fresh_ix st /\ alloc_ok fresh_ix (snd (store_db_value fresh_ix k st)).
Proof.
  intros Hb.
  assert (H0 : alloc_ok fresh_ix st) by (apply fresh_ix_ok; intros i Hi; specialize (Hb i Hi); lia).
  split; [exact H0|]. apply fresh_ix_ok. intros i Hi.
  destruct (store_adds_only fresh_ix k st) as [E|[b E]]; rewrite E in Hi.
  - specialize (Hb i Hi). lia.
  - cbn [keys map fst In] in Hi. destruct Hi as [<-|Hi]; [|specialize (Hb i Hi); lia].
    unfold fresh_ix. pose proof (fold_max_bound (keys st) 2 Hb) as H.
    unfold two64 in *. lia.
Qed.

(* ------------------------------------------------------------------ *)
(* field disjointness, as one statement                                 *)
(* ------------------------------------------------------------------ *)

Theorem index_fields_disjoint ix :
  wf_ix ix ->
  (* set_type: writes the type nibble only *)
  (forall t, wf_ix (set_type ix t) /\ vi_size (set_type ix t) = vi_size ix /\
             firstn 15 (set_type ix t) = firstn 15 ix /\ (t < 16 -> vi_type (set_type ix t) = t)) /\
  (* set_value (<= 15 bytes): writes the size nibble and bytes 0..len only *)
  (forall bs, lenN bs <= 15 ->
     fst (set_value ix bs) = true /\ wf_ix (snd (set_value ix bs)) /\
     vi_type (snd (set_value ix bs)) = vi_type ix /\
     vi_size (snd (set_value ix bs)) = lenN bs /\ vi_value (snd (set_value ix bs)) = bs /\
     skipn (length bs) (firstn 15 (snd (set_value ix bs))) = skipn (length bs) (firstn 15 ix)) /\
  (* set_value (> 15 bytes): writes nothing *)
  (forall bs, 15 < lenN bs -> set_value ix bs = (false, ix)) /\
  (* set_index: writes bytes 0..8 and clears the size nibble only *)
  (forall n, n < two64 ->
     wf_ix (set_index ix n) /\ vi_type (set_index ix n) = vi_type ix /\
     vi_size (set_index ix n) = 0 /\ vi_index (set_index ix n) = n /\
     skipn 8 (firstn 15 (set_index ix n)) = skipn 8 (firstn 15 ix)) /\
  (* byte 15 is exactly the two nibbles *)
  (vi_type ix < 16 /\ vi_size ix < 16 /\ vi_type ix * 16 + vi_size ix = byte15 ix).
Proof.
  intros H. split; [|split; [|split; [|split]]].
  - intros t. destruct (set_type_keeps_size ix t H) as (? & ?).
    split; [now apply set_type_wf|]. split; [assumption|]. split; [assumption|].
    intros Ht. now apply set_type_fields.
  - intros bs Hb. exact (set_value_fields ix bs H Hb).
  - intros bs Hb. now apply set_value_too_long.
  - intros n Hn. now apply set_index_fields.
  - destruct (nibbles (byte15 ix) (byte15_lt ix)) as (? & ? & ?). unfold vi_type, vi_size. now repeat split.
Qed.

(* ------------------------------------------------------------------ *)
(* non-vacuity                                                          *)
(* ------------------------------------------------------------------ *)

Definition ex_str16 : bytes :=     (* 16 bytes: 12 ASCII + one 4-byte sequence, ends exactly at 16 *)
  repeat x61 12 ++ [xf0; x9f; x98; x80].
Definition ex_str15 : bytes :=     (* 15 bytes: 12 ASCII + one 3-byte sequence *)
  repeat x61 12 ++ [xe2; x82; xac].
Definition ex_values : list dbvalue :=
  [DBytes []; DBytes (repeat xff 15); DBytes (repeat xff 16); DI64 (-9223372036854775808);
   DU64 18446744073709551615; DF64 9221120237041090561 (* NaN with payload 1 *);
   DF64 9223372036854775808 (* -0.0 *); DString ex_str15; DString ex_str16;
   DVecI64 []; DVecU64 [0; 18446744073709551615]; DVecF64 [18444492273895866368];
   DVecString [[]; ex_str16]].

Definition rt_ok (v : dbvalue) (st : store) : bool :=
  let r := store_db_value fresh_ix v st in
  match load_db_value (fst r) (snd r) with Ok v' => dbv_eqb v v' | _ => false end.

Lemma examples_roundtrip :
  forallb wf_value ex_values = true /\
  forallb (fun v => rt_ok v [(7, [x01])]) ex_values = true /\
  (* the 15 / 16 boundary really separates inline from out of line *)
  is_value (fst (store_db_value fresh_ix (DString ex_str15) [])) = true /\
  is_value (fst (store_db_value fresh_ix (DString ex_str16) [])) = false /\
  snd (store_db_value fresh_ix (DString ex_str16) []) = [(1, le64 16 ++ ex_str16)] /\
  load_kv (fst (store_kv fresh_ix (DString ex_str16) (DVecF64 [9221120237041090561]) []))
          (snd (store_kv fresh_ix (DString ex_str16) (DVecF64 [9221120237041090561]) []))
    = Ok (DString ex_str16, DVecF64 [9221120237041090561]).
Proof. vm_compute. repeat split. Qed.

(* what a damaged index does: unknown type and wrong-length numerics panic *)
Lemma load_panics_unknown_type : load_db_value (repeat x00 16) [] = Panic.
Proof. reflexivity. Qed.
Lemma load_panics_short_i64 : load_db_value (repeat x00 15 ++ [x23]) [] = Panic.
Proof. reflexivity. Qed.

(* ---- the statements pinned in Props/C12.v ---- *)

Lemma roundtrip_full :
  forall (alloc : store -> N) (v : dbvalue) (st : store),
    wf_value v = true -> alloc_ok alloc st ->
    let (ix, st') := store_db_value alloc v st in
    load_db_value ix st' = Ok v /\
    (forall st'', extends st' st'' -> load_db_value ix st'' = Ok v) /\
    length ix = 16%nat /\
    (st' = st \/ exists b, st' = (alloc st, b) :: st) /\
    (forall i b, lookup i st = Some b -> lookup i st' = Some b).
Proof.
  intros alloc v st Hwf Hal.
  pose proof (store_load_roundtrip alloc v st Hwf Hal) as H1.
  pose proof (store_load_roundtrip_ext alloc v st) as H2.
  pose proof (store_ix_wf alloc v st) as H3.
  pose proof (store_adds_only alloc v st) as H4.
  destruct (store_db_value alloc v st) as [ix st']. cbn [fst snd] in *.
  split; [exact H1|]. split; [intros st'' He; now apply H2|]. split; [exact H3|].
  split; [exact H4|]. exact (adds_only_extends alloc st st' Hal H4).
Qed.

Lemma kv_roundtrip_full :
  forall (alloc : store -> N) (k v : dbvalue) (st : store),
    wf_value k = true -> wf_value v = true ->
    alloc_ok alloc st -> alloc_ok alloc (snd (store_db_value alloc k st)) ->
    length (fst (store_kv alloc k v st)) = 32%nat /\
    load_kv (fst (store_kv alloc k v st)) (snd (store_kv alloc k v st)) = Ok (k, v).
Proof.
  intros alloc k v st Hk Hv H0 H1. split; [apply store_kv_length|now apply kv_roundtrip].
Qed.

Lemma remove_frees_exactly_full :
  forall (alloc : store -> N) (v : dbvalue) (st : store),
    alloc_ok alloc st ->
    remove_value (fst (store_db_value alloc v st)) (snd (store_db_value alloc v st)) = Ok st /\
    (is_value (fst (store_db_value alloc v st)) = false ->
       lookup (vi_index (fst (store_db_value alloc v st))) (snd (store_db_value alloc v st)) <> None /\
       lookup (vi_index (fst (store_db_value alloc v st))) st = None).
Proof.
  intros alloc v st Hal. split; [now apply remove_frees_exactly|].
  intros H. now apply remove_unreadable.
Qed.
