(* GraphRemove.v — remove_edge and remove_node as simulation steps; the loops of
   remove_node (remove_from_edges / remove_to_edges) never run out of fuel. *)
From Agdb Require Import Bytes Graph GraphArr GraphSim GraphSim2 GraphSim3 GraphOps GraphOps2 GraphProofs.
From Coq Require Import ZifyBool ZifyNat ZifyN.
Ltac Zify.zify_post_hook ::= Z.div_mod_to_equations.
Open Scope Z_scope.

(* ---------- remove_edge ---------- *)

Definition free_push (s : Z) (fl : list Z) : list Z := if - s =? i64_min then [] else s :: fl.

Lemma notin_remE s E : ~ In s (map eslot (remE s E)).
Proof. rewrite map_eslot_remE. intros Hi. apply in_zrem in Hi. tauto. Qed.

Lemma remove_edge_sim g a fl e :
  sim g a fl -> In e (a_edges a) ->
  exists g', remove_edge g (- eslot e) = Some g' /\
    sim g' {| a_nodes := a_nodes a; a_edges := remE (eslot e) (a_edges a) |} (free_push (eslot e) fl).
Proof.
  intros HS He. unfold remove_edge.
  pose proof (b_ER_range _ _ _ (r_base _ _ _ _ _ _ _ _ _ _ _ _ _ (proj2 HS)) e He) as Hsr.
  assert (Ee : is_edge g (- eslot e) = true).
  { apply (is_edge_iff _ _ _ _ _ _ _ _ _ HS). rewrite Z.abs_opp, Z.abs_eq by lia. apply in_map. assumption. }
  rewrite Ee.
  destruct (unlink_out_spec _ _ _ _ _ _ _ _ _ HS e He I) as [g1 [E1 [S1 _]]]. rewrite E1.
  destruct (unlink_in_spec _ _ _ _ _ _ _ _ _ S1 e He I) as [g2 [E2 [S2 _]]]. rewrite E2.
  eexists. split; [reflexivity|]. rewrite Z.opp_involutive.
  unfold sim. cbn [a_nodes a_edges].
  apply (free_rec_spec _ _ _ _ _ _ _ _ _ S2 e He); apply notin_remE.
Qed.

Lemma remove_edge_noop g a fl i :
  sim g a fl -> ~ In (Z.abs i) (map eslot (a_edges a)) -> remove_edge g i = Some g.
Proof.
  intros HS Hn. unfold remove_edge.
  destruct (is_edge g i) eqn:E; [|reflexivity].
  apply (is_edge_iff _ _ _ _ _ _ _ _ _ HS) in E. contradiction.
Qed.

(* ---------- helpers ---------- *)

Lemma filter_remE (p : aedge -> bool) s E :
  (forall x, In x E -> eslot x = s -> p x = false) -> filter p (remE s E) = filter p E.
Proof.
  unfold remE. induction E as [|x r IH]; intros H; cbn [filter]; [reflexivity|].
  destruct (Z.eqb_spec (eslot x) s) as [Hs|Hs]; cbn [negb].
  - rewrite (H x (or_introl eq_refl) Hs). apply IH. intros y Hy; apply H; right; assumption.
  - cbn [filter]. destruct (p x); [f_equal|]; apply IH; intros y Hy; apply H; right; assumption.
Qed.

Lemma filter_all (p : aedge -> bool) E : (forall x, In x E -> p x = true) -> filter p E = E.
Proof.
  induction E as [|x r IH]; intros H; cbn [filter]; [reflexivity|].
  rewrite (H x (or_introl eq_refl)). f_equal. apply IH. intros y Hy; apply H; right; assumption.
Qed.

Lemma filter_filter (p q : aedge -> bool) E :
  filter q (filter p E) = filter (fun x => p x && q x) E.
Proof.
  induction E as [|x r IH]; cbn [filter]; [reflexivity|].
  destruct (p x); cbn [filter andb]; [destruct (q x); [f_equal|]|]; exact IH.
Qed.

Lemma free_index_fmeta_other g s y :
  wfl g -> 0 < s < capacity g -> 0 < y -> y <> s -> fmeta (free_index g s) y = fmeta g y /\ tmeta (free_index g s) y = tmeta g y.
Proof.
  intros W Hs Hy Hne. unfold free_index, fmeta, tmeta, set_tmeta, set_to, set_from, set_fmeta.
  cbn [g_fmeta g_tmeta]. destruct W as [L1 [L2 L3]].
  rewrite !get_set_other by lia. auto.
Qed.

Lemma adj_length_le key E m (n : nat) :
  NoDup (map eslot E) -> (forall x, In x E -> 0 < eslot x < Z.of_nat n) -> (length (adj key E m) <= n)%nat.
Proof.
  intros Hnd Hr.
  destruct (NoDup_range_length (adj key E m) n) as [H|[H _]].
  - apply NoDup_adj. assumption.
  - intros y Hy. apply in_adj in Hy. destruct Hy as [x [Hx [<- _]]]. apply Hr. assumption.
  - lia.
  - rewrite H. cbn [length]. lia.
Qed.

Definition neqP (n : Z) : Z -> Prop := fun m => m <> n.

(* ---------- remove_from_edges: the out-list of node n ---------- *)

Lemma remove_from_edges_sim n nodes cnt :
  forall (l : list Z) (fuel : nat) g E fl h,
    (length l <= fuel)%nat ->
    rsim g nodes (neqP n) allP E E E fl cnt ->
    l = adj esrc E n -> chain (fmeta g) h l ->
    let E' := filter (fun x => negb (esrc x =? n)) E in
    exists g' fl', remove_from_edges fuel g (- h) = Some g' /\ capacity g' = capacity g /\
      rsim g' nodes (neqP n) allP E' E' E' fl' cnt.
Proof.
  induction l as [|s r IH]; intros fuel g E fl h Hfuel RS Hl Hc E'.
  - cbn [chain] in Hc. subst h. exists g, fl.
    split; [destruct fuel; reflexivity|]. split; [reflexivity|].
    unfold E'. rewrite filter_all; [assumption|].
    intros x Hx. destruct (Z.eqb_spec (esrc x) n) as [E0|E0]; [|reflexivity].
    exfalso. assert (Hi : In (eslot x) (adj esrc E n)) by (apply in_adj; exists x; auto).
    rewrite <- Hl in Hi. destruct Hi.
  - cbn [chain] in Hc. destruct Hc as [-> Hc].
    destruct fuel as [|fuel]; [cbn [length] in Hfuel; lia|].
    assert (Hs : In s (adj esrc E n)) by (rewrite <- Hl; left; reflexivity).
    apply in_adj in Hs. destruct Hs as [e [He [Hes Hen]]].
    pose proof (b_ER_range _ _ _ (r_base _ _ _ _ _ _ _ _ _ _ _ _ _ (proj2 RS)) e He) as Hsr.
    rewrite Hes in Hsr.
    cbn [remove_from_edges]. destruct (Z.eqb_spec (- s) 0) as [E0|_]; [lia|].
    destruct (unlink_in_spec _ _ _ _ _ _ _ _ _ RS e He I) as [g1 [E1 [S1 [Hfr Hfm]]]].
    rewrite Hes in E1, S1. rewrite E1. rewrite Z.opp_involutive.
    assert (S1' : rsim g1 nodes (neqP n) allP E (remE s E) (remE s E) fl cnt).
    { rewrite <- Hes. apply drop_out_spec; [rewrite Hes; assumption|assumption|].
      unfold neqP. rewrite Hen. intros Hf. apply Hf. reflexivity. }
    pose proof (free_rec_spec _ _ _ _ _ _ _ _ _ S1' e He) as S2. rewrite Hes in S2.
    specialize (S2 (notin_remE s E) (notin_remE s E)).
    assert (Hfm1 : forall y, fmeta g1 y = fmeta g y).
    { intros y. unfold fmeta. rewrite Hfm. reflexivity. }
    rewrite (Hfm1 (- s)), fmeta_even.
    assert (Hcap1 : capacity g1 = capacity g).
    { unfold capacity. rewrite Hfr. reflexivity. }
    assert (Hnd : NoDup (s :: r)).
    { rewrite Hl. apply NoDup_adj. apply (b_ER_nodup _ _ _ (r_base _ _ _ _ _ _ _ _ _ _ _ _ _ (proj2 RS))). }
    apply NoDup_cons_iff in Hnd. destruct Hnd as [Hsr' Hndr].
    assert (Hr : r = adj esrc (remE s E) n).
    { rewrite adj_remE, <- Hl. cbn [zrem filter]. rewrite Z.eqb_refl. cbn [negb].
      fold (zrem s r). rewrite zrem_notin by assumption. reflexivity. }
    destruct (IH fuel (free_index g1 s) (remE s E) (free_push s fl) (fmeta g s)) as [g' [fl' [Hrun [Hcap RS']]]].
    + cbn [length] in Hfuel. lia.
    + exact S2.
    + exact Hr.
    + eapply chain_ext; [|exact Hc]. intros y Hy.
      assert (Hyr : 0 < y).
      { assert (Hy' : In y (adj esrc E n)) by (rewrite <- Hl; right; assumption).
        apply in_adj in Hy'. destruct Hy' as [z [Hz [<- _]]].
        apply (b_ER_range _ _ _ (r_base _ _ _ _ _ _ _ _ _ _ _ _ _ (proj2 RS)) z Hz). }
      assert (Hys : y <> s) by (intros ->; contradiction).
      destruct (free_index_fmeta_other g1 s y (proj1 S1)) as [Hq _]; [lia|lia|exact Hys|].
      rewrite Hq. apply Hfm1.
    + exists g', fl'. split; [exact Hrun|]. split.
      { rewrite Hcap. rewrite <- Hcap1. apply (proj1 (proj2 (free_desc _ _ _ _ _ _ _ _ _ S1' s ltac:(lia)))). }
      unfold E'. rewrite <- (filter_remE _ s E); [exact RS'|].
      intros x Hx Hxs.
      assert (x = e).
      { apply (slot_inj E); try assumption; [|congruence].
        apply (b_ER_nodup _ _ _ (r_base _ _ _ _ _ _ _ _ _ _ _ _ _ (proj2 RS))). }
      subst x. rewrite Hen, Z.eqb_refl. reflexivity.
Qed.

(* ---------- remove_to_edges: the in-list of node n (self-loops are already gone) ---------- *)

Lemma remove_to_edges_sim n nodes cnt :
  forall (l : list Z) (fuel : nat) g E fl h,
    (length l <= fuel)%nat ->
    rsim g nodes (neqP n) (neqP n) E E E fl cnt ->
    (forall x, In x E -> esrc x <> n) ->
    l = adj etgt E n -> chain (tmeta g) h l ->
    let E' := filter (fun x => negb (etgt x =? n)) E in
    exists g' fl', remove_to_edges fuel g (- h) = Some g' /\ capacity g' = capacity g /\
      rsim g' nodes (neqP n) (neqP n) E' E' E' fl' cnt.
Proof.
  induction l as [|s r IH]; intros fuel g E fl h Hfuel RS Hsrc Hl Hc E'.
  - cbn [chain] in Hc. subst h. exists g, fl.
    split; [destruct fuel; reflexivity|]. split; [reflexivity|].
    unfold E'. rewrite filter_all; [assumption|].
    intros x Hx. destruct (Z.eqb_spec (etgt x) n) as [E0|E0]; [|reflexivity].
    exfalso. assert (Hi : In (eslot x) (adj etgt E n)) by (apply in_adj; exists x; auto).
    rewrite <- Hl in Hi. destruct Hi.
  - cbn [chain] in Hc. destruct Hc as [-> Hc].
    destruct fuel as [|fuel]; [cbn [length] in Hfuel; lia|].
    assert (Hs : In s (adj etgt E n)) by (rewrite <- Hl; left; reflexivity).
    apply in_adj in Hs. destruct Hs as [e [He [Hes Hen]]].
    pose proof (b_ER_range _ _ _ (r_base _ _ _ _ _ _ _ _ _ _ _ _ _ (proj2 RS)) e He) as Hsr.
    rewrite Hes in Hsr.
    cbn [remove_to_edges]. destruct (Z.eqb_spec (- s) 0) as [E0|_]; [lia|].
    destruct (unlink_out_spec _ _ _ _ _ _ _ _ _ RS e He (Hsrc e He)) as [g1 [E1 [S1 [Hto Htm]]]].
    rewrite Hes in E1, S1. rewrite E1. rewrite Z.opp_involutive.
    assert (S1' : rsim g1 nodes (neqP n) (neqP n) E (remE s E) (remE s E) fl cnt).
    { rewrite <- Hes. apply drop_in_spec; [rewrite Hes; assumption|assumption|].
      unfold neqP. rewrite Hen. intros Hf. apply Hf. reflexivity. }
    pose proof (free_rec_spec _ _ _ _ _ _ _ _ _ S1' e He) as S2. rewrite Hes in S2.
    specialize (S2 (notin_remE s E) (notin_remE s E)).
    assert (Htm1 : forall y, tmeta g1 y = tmeta g y).
    { intros y. unfold tmeta. rewrite Htm. reflexivity. }
    rewrite (Htm1 (- s)), tmeta_even.
    assert (Hnd : NoDup (s :: r)).
    { rewrite Hl. apply NoDup_adj. apply (b_ER_nodup _ _ _ (r_base _ _ _ _ _ _ _ _ _ _ _ _ _ (proj2 RS))). }
    apply NoDup_cons_iff in Hnd. destruct Hnd as [Hsr' Hndr].
    assert (Hr : r = adj etgt (remE s E) n).
    { rewrite adj_remE, <- Hl. cbn [zrem filter]. rewrite Z.eqb_refl. cbn [negb].
      fold (zrem s r). rewrite zrem_notin by assumption. reflexivity. }
    pose proof (free_desc _ _ _ _ _ _ _ _ _ S1' s) as FD.
    assert (Hcap1 : capacity g1 = capacity g).
    { pose proof (proj1 S1) as W1. pose proof (proj1 RS) as W0. unfold wfl, capacity in *.
      destruct W1 as [A1 _], W0 as [A0 _]. rewrite <- A1, <- A0, Hto. reflexivity. }
    destruct (IH fuel (free_index g1 s) (remE s E) (free_push s fl) (tmeta g s)) as [g' [fl' [Hrun [Hcap RS']]]].
    + cbn [length] in Hfuel. lia.
    + exact S2.
    + intros x Hx. apply in_remE in Hx. apply Hsrc. tauto.
    + exact Hr.
    + eapply chain_ext; [|exact Hc]. intros y Hy.
      assert (Hyr : 0 < y).
      { assert (Hy' : In y (adj etgt E n)) by (rewrite <- Hl; right; assumption).
        apply in_adj in Hy'. destruct Hy' as [z [Hz [<- _]]].
        apply (b_ER_range _ _ _ (r_base _ _ _ _ _ _ _ _ _ _ _ _ _ (proj2 RS)) z Hz). }
      assert (Hys : y <> s) by (intros ->; contradiction).
      destruct (free_index_fmeta_other g1 s y (proj1 S1)) as [_ Hq]; [lia|lia|exact Hys|].
      rewrite Hq. apply Htm1.
    + exists g', fl'. split; [exact Hrun|]. split.
      { rewrite Hcap. rewrite <- Hcap1. apply (proj1 (proj2 (FD ltac:(lia)))). }
      unfold E'. rewrite <- (filter_remE _ s E); [exact RS'|].
      intros x Hx Hxs.
      assert (x = e).
      { apply (slot_inj E); try assumption; [|congruence].
        apply (b_ER_nodup _ _ _ (r_base _ _ _ _ _ _ _ _ _ _ _ _ _ (proj2 RS))). }
      subst x. rewrite Hen, Z.eqb_refl. reflexivity.
Qed.

(* ---------- remove_node ---------- *)

Definition keep_edge (n : Z) (x : aedge) : bool := negb (esrc x =? n) && negb (etgt x =? n).

Lemma remove_node_sim g a fl n :
  sim g a fl -> In n (a_nodes a) ->
  exists g' fl', remove_node g n = Some g' /\
    sim g' {| a_nodes := zrem n (a_nodes a); a_edges := filter (keep_edge n) (a_edges a) |} fl'.
Proof.
  intros HS Hn. unfold remove_node.
  pose proof (proj2 HS) as R0. pose proof (r_base _ _ _ _ _ _ _ _ _ _ _ _ _ R0) as B0.
  pose proof (b_nodes_range _ _ _ B0 n Hn) as Hnr.
  assert (En : is_node g n = true).
  { apply (is_node_iff _ _ _ _ _ _ _ _ _ HS). rewrite Z.abs_eq by lia. assumption. }
  rewrite En.
  set (E := a_edges a) in *. set (nodes := a_nodes a) in *.
  (* phase 1 *)
  assert (S0 : rsim g nodes (neqP n) allP E E E fl (Z.of_nat (length nodes))).
  { apply (weaken_spec _ _ _ _ _ _ _ _ _ HS); intros; exact I. }
  destruct (h_chain _ _ _ _ _ _ _ (r_out _ _ _ _ _ _ _ _ _ _ _ _ _ R0) n Hn I) as [Hc0 _].
  destruct (remove_from_edges_sim n nodes (Z.of_nat (length nodes)) (adj esrc E n) (length (g_from g)) g E fl (from g n))
    as [g1 [fl1 [Hrun1 [Hcap1 S1]]]]; try assumption; try reflexivity.
  { apply adj_length_le; [apply (b_ER_nodup _ _ _ B0)|]. intros x Hx. apply (b_ER_range _ _ _ B0 x Hx). }
  rewrite Hrun1.
  set (E1 := filter (fun x => negb (esrc x =? n)) E) in *.
  (* phase 2 *)
  pose proof (proj2 S1) as R1.
  destruct (h_chain _ _ _ _ _ _ _ (r_in _ _ _ _ _ _ _ _ _ _ _ _ _ R1) n Hn I) as [Hc1 _].
  assert (S1' : rsim g1 nodes (neqP n) (neqP n) E1 E1 E1 fl1 (Z.of_nat (length nodes))).
  { apply (weaken_spec _ _ _ _ _ _ _ _ _ S1); intros; [assumption|exact I]. }
  assert (Hsrc1 : forall x, In x E1 -> esrc x <> n).
  { intros x Hx. apply filter_In in Hx. destruct Hx as [_ Hx]. lia. }
  destruct (remove_to_edges_sim n nodes (Z.of_nat (length nodes)) (adj etgt E1 n) (length (g_from g)) g1 E1 fl1 (to g1 n))
    as [g2 [fl2 [Hrun2 [Hcap2 S2]]]]; try assumption; try reflexivity.
  { apply adj_length_le.
    - apply (b_ER_nodup _ _ _ (r_base _ _ _ _ _ _ _ _ _ _ _ _ _ R1)).
    - intros x Hx. apply filter_In in Hx. apply (b_ER_range _ _ _ B0 x). tauto. }
  rewrite Hrun2.
  set (E2 := filter (fun x => negb (etgt x =? n)) E1) in *.
  (* free the node, fix the count *)
  assert (Hiso : forall y, In y E2 -> esrc y <> n /\ etgt y <> n).
  { intros y Hy. apply filter_In in Hy. destruct Hy as [Hy Ht]. split; [apply Hsrc1; assumption|lia]. }
  pose proof (free_node_spec _ _ _ _ _ _ _ _ _ S2 n Hn Hiso) as S3.
  assert (S3' : rsim (free_index g2 n) (zrem n nodes) allP allP E2 E2 E2 (free_push n fl2) (Z.of_nat (length nodes))).
  { apply (weaken_spec _ _ _ _ _ _ _ _ _ S3); intros m Hm _; apply in_zrem in Hm; unfold neqP; tauto. }
  rewrite (node_count_spec _ _ _ _ _ _ _ _ _ S3').
  eexists. exists (free_push n fl2). split; [reflexivity|].
  unfold sim. cbn [a_nodes a_edges].
  replace (filter (keep_edge n) E) with E2.
  2:{ unfold E2, E1, keep_edge. apply filter_filter. }
  rewrite zrem_length; [|apply (b_nodes_nodup _ _ _ B0)|assumption].
  eapply cnt_spec. exact S3'.
Qed.

Lemma remove_node_noop g a fl i :
  sim g a fl -> ~ In (Z.abs i) (a_nodes a) -> remove_node g i = Some g.
Proof.
  intros HS Hn. unfold remove_node.
  destruct (is_node g i) eqn:E; [|reflexivity].
  apply (is_node_iff _ _ _ _ _ _ _ _ _ HS) in E. contradiction.
Qed.
