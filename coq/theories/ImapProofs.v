(* ImapProofs.v — C10: the alias map (IndexedMapImpl<String, DbId>) is a bijection between
   aliases and ids; exact semantics of insert / remove_key. *)
From Agdb Require Import Bytes BytesProofs DbValue Graph DbModel AssocProofs.
Open Scope Z_scope.

Lemma zeqb_eq (a b : Z) : Z.eqb a b = true <-> a = b.
Proof. apply Z.eqb_eq. Qed.

(* one-to-one: the two directions describe the same relation, and no key is listed twice *)
Definition bij (m : imap) : Prop :=
  (forall a id, alookup bytes_eqb (k2v m) a = Some id <-> alookup Z.eqb (v2k m) id = Some a)
  /\ NoDup (map fst (k2v m)) /\ NoDup (map fst (v2k m)).

Lemma bij_empty : bij imap_empty.
Proof. split; [|split]; cbn; [intros; split; discriminate|constructor|constructor]. Qed.

(* raw lookup equations of imap_insert (no invariant needed) *)
Lemma imap_insert_key m a id y :
  imap_key (imap_insert m a id) y =
  if id =? y then Some a
  else match imap_value m a with
       | Some v => if v =? y then None else imap_key m y
       | None => imap_key m y
       end.
Proof.
  unfold imap_key, imap_value, imap_insert.
  destruct (ainsert bytes_eqb (k2v m) a id) as [old_v k2v1] eqn:E1.
  destruct (ainsert Z.eqb _ id a) as [old_k v2k2] eqn:E2.
  cbn [v2k].
  change v2k2 with (snd (old_k, v2k2)). rewrite <- E2.
  rewrite (alookup_ainsert Z.eqb zeqb_eq).
  destruct (id =? y); [reflexivity|].
  assert (Hov : old_v = alookup bytes_eqb (k2v m) a) by (unfold ainsert in E1; congruence).
  rewrite <- Hov. destruct old_v as [v|]; [|reflexivity].
  now rewrite (alookup_aremove Z.eqb zeqb_eq).
Qed.

Definition insert_old_k (m : imap) (a : bytes) (id : Z) : option bytes :=
  match imap_value m a with
  | Some v => if v =? id then None else imap_key m id
  | None => imap_key m id
  end.

Lemma imap_insert_value_raw m a id x :
  imap_value (imap_insert m a id) x =
  let l1 := if bytes_eqb a x then Some id else imap_value m x in
  match insert_old_k m a id with
  | Some k => if bytes_eqb k x then None else l1
  | None => l1
  end.
Proof.
  unfold insert_old_k, imap_key, imap_value, imap_insert.
  destruct (ainsert bytes_eqb (k2v m) a id) as [old_v k2v1] eqn:E1.
  destruct (ainsert Z.eqb _ id a) as [old_k v2k2] eqn:E2.
  cbn [k2v].
  assert (Hov : old_v = alookup bytes_eqb (k2v m) a) by (unfold ainsert in E1; congruence).
  assert (Hk1 : forall x, alookup bytes_eqb k2v1 x = if bytes_eqb a x then Some id else alookup bytes_eqb (k2v m) x).
  { intros x0. change k2v1 with (snd (old_v, k2v1)). rewrite <- E1.
    apply (alookup_ainsert bytes_eqb bytes_eqb_eq). }
  assert (Hok : old_k = match old_v with
                        | Some v => if v =? id then None else alookup Z.eqb (v2k m) id
                        | None => alookup Z.eqb (v2k m) id end).
  { change old_k with (fst (old_k, v2k2)). rewrite <- E2. unfold ainsert. cbn [fst].
    destruct old_v as [v|]; [|reflexivity].
    now rewrite (alookup_aremove Z.eqb zeqb_eq). }
  rewrite <- Hov, <- Hok. cbv zeta.
  destruct old_k as [k|]; [|apply Hk1].
  rewrite (alookup_aremove bytes_eqb bytes_eqb_eq), Hk1. reflexivity.
Qed.

Lemma imap_remove_key_value m a x :
  imap_value (imap_remove_key m a) x = if bytes_eqb a x then None else imap_value m x.
Proof. unfold imap_value, imap_remove_key. cbn [k2v]. apply (alookup_aremove bytes_eqb bytes_eqb_eq). Qed.

Lemma imap_remove_key_key m a y :
  imap_key (imap_remove_key m a) y =
  match imap_value m a with
  | Some v => if v =? y then None else imap_key m y
  | None => imap_key m y
  end.
Proof.
  unfold imap_key, imap_value, imap_remove_key. cbn [v2k].
  destruct (alookup bytes_eqb (k2v m) a); [|reflexivity].
  apply (alookup_aremove Z.eqb zeqb_eq).
Qed.

Lemma bij_value_key m a id : bij m -> (imap_value m a = Some id <-> imap_key m id = Some a).
Proof. intros [H _]. apply H. Qed.

(* under the invariant: the key displaced on the id side is the previous alias of id, unless it is `a` itself *)
Lemma insert_old_k_bij m a id :
  bij m ->
  insert_old_k m a id = match imap_key m id with
                        | Some k => if bytes_eqb k a then None else Some k
                        | None => None
                        end.
Proof.
  intros Hb. unfold insert_old_k.
  destruct (imap_value m a) as [v|] eqn:Ev.
  - destruct (Z.eqb_spec v id) as [->|Hne].
    + apply (bij_value_key m a id Hb) in Ev. rewrite Ev.
      now rewrite (keqb_refl bytes_eqb bytes_eqb_eq).
    + destruct (imap_key m id) as [k|] eqn:Ek; [|reflexivity].
      destruct (keqb_spec bytes_eqb bytes_eqb_eq k a) as [->|]; [|reflexivity].
      apply (bij_value_key m a id Hb) in Ek. congruence.
  - destruct (imap_key m id) as [k|] eqn:Ek; [|reflexivity].
    destruct (keqb_spec bytes_eqb bytes_eqb_eq k a) as [->|]; [|reflexivity].
    apply (bij_value_key m a id Hb) in Ek. congruence.
Qed.

(* semantics of insert under the invariant *)
Lemma imap_insert_value m a id x :
  bij m ->
  imap_value (imap_insert m a id) x =
  if bytes_eqb a x then Some id
  else match imap_key m id with
       | Some k => if bytes_eqb k x then None else imap_value m x
       | None => imap_value m x
       end.
Proof.
  intros Hb. rewrite imap_insert_value_raw, (insert_old_k_bij m a id Hb). cbv zeta.
  destruct (imap_key m id) as [k|] eqn:Ek.
  - destruct (keqb_spec bytes_eqb bytes_eqb_eq k a) as [->|Hka].
    + destruct (bytes_eqb a x); reflexivity.
    + destruct (keqb_spec bytes_eqb bytes_eqb_eq k x) as [->|Hkx].
      * rewrite (keqb_neq bytes_eqb bytes_eqb_eq a x); [reflexivity|congruence].
      * reflexivity.
  - reflexivity.
Qed.

Lemma bij_imap_insert m a id : bij m -> bij (imap_insert m a id).
Proof.
  intros Hb. split; [|split].
  - intros x y. change (imap_value (imap_insert m a id) x = Some y <-> imap_key (imap_insert m a id) y = Some x).
    rewrite (imap_insert_value m a id x Hb), imap_insert_key.
    pose proof (bij_value_key m x y Hb) as Hxy.
    destruct (keqb_spec bytes_eqb bytes_eqb_eq a x) as [->|Hax].
    + destruct (Z.eqb_spec id y) as [->|Hiy].
      * tauto.
      * destruct (imap_value m x) as [v|] eqn:Ev.
        -- destruct (Z.eqb_spec v y) as [->|Hvy].
           ++ split; [congruence|discriminate].
           ++ split; [congruence|]. intros H. apply Hxy in H. congruence.
        -- split; [congruence|]. intros H. apply Hxy in H. congruence.
    + destruct (Z.eqb_spec id y) as [->|Hiy].
      * destruct (imap_key m y) as [k|] eqn:Ek.
        -- destruct (keqb_spec bytes_eqb bytes_eqb_eq k x) as [->|Hkx].
           ++ split; [discriminate|congruence].
           ++ split; [|congruence]. intros H. apply Hxy in H. congruence.
        -- split; [|congruence]. intros H. apply Hxy in H. congruence.
      * destruct (imap_key m id) as [k|] eqn:Ek.
        -- destruct (keqb_spec bytes_eqb bytes_eqb_eq k x) as [->|Hkx].
           ++ apply (bij_value_key m x id Hb) in Ek.
              destruct (imap_value m a) as [v|] eqn:Ev.
              ** destruct (Z.eqb_spec v y) as [->|Hvy]; [split; discriminate|].
                 split; [discriminate|]. intros H. apply Hxy in H. congruence.
              ** split; [discriminate|]. intros H. apply Hxy in H. congruence.
           ++ destruct (imap_value m a) as [v|] eqn:Ev; [|exact Hxy].
              destruct (Z.eqb_spec v y) as [->|Hvy]; [|exact Hxy].
              split; [|discriminate]. intros H.
              pose proof (proj1 (bij_value_key m x y Hb) H) as H1.
              pose proof (proj1 (bij_value_key m a y Hb) Ev) as H2. congruence.
        -- destruct (imap_value m a) as [v|] eqn:Ev; [|exact Hxy].
           destruct (Z.eqb_spec v y) as [->|Hvy]; [|exact Hxy].
           split; [|discriminate]. intros H.
           pose proof (proj1 (bij_value_key m x y Hb) H) as H1.
           pose proof (proj1 (bij_value_key m a y Hb) Ev) as H2. congruence.
  - destruct Hb as (_ & Hk & Hv). unfold imap_insert.
    destruct (ainsert bytes_eqb (k2v m) a id) as [old_v k2v1] eqn:E1.
    destruct (ainsert Z.eqb _ id a) as [old_k v2k2] eqn:E2. cbn [k2v].
    assert (Hn1 : NoDup (map fst k2v1)).
    { change k2v1 with (snd (old_v, k2v1)). rewrite <- E1. now apply (nodup_ainsert bytes_eqb bytes_eqb_eq). }
    destruct old_k; [now apply (nodup_aremove bytes_eqb bytes_eqb_eq)|assumption].
  - destruct Hb as (_ & Hk & Hv). unfold imap_insert.
    destruct (ainsert bytes_eqb (k2v m) a id) as [old_v k2v1] eqn:E1.
    destruct (ainsert Z.eqb _ id a) as [old_k v2k2] eqn:E2. cbn [v2k].
    change v2k2 with (snd (old_k, v2k2)). rewrite <- E2.
    apply (nodup_ainsert Z.eqb zeqb_eq).
    destruct old_v; [now apply (nodup_aremove Z.eqb zeqb_eq)|assumption].
Qed.

Lemma bij_imap_remove_key m a : bij m -> bij (imap_remove_key m a).
Proof.
  intros Hb. split; [|split].
  - intros x y. change (imap_value (imap_remove_key m a) x = Some y <-> imap_key (imap_remove_key m a) y = Some x).
    rewrite imap_remove_key_value, imap_remove_key_key.
    pose proof (bij_value_key m x y Hb) as Hxy.
    destruct (keqb_spec bytes_eqb bytes_eqb_eq a x) as [->|Hax].
    + destruct (imap_value m x) as [v|] eqn:Ev.
      * destruct (Z.eqb_spec v y) as [->|Hvy]; [split; discriminate|].
        split; [discriminate|]. intros H. apply Hxy in H. congruence.
      * split; [discriminate|]. intros H. apply Hxy in H. congruence.
    + destruct (imap_value m a) as [v|] eqn:Ev; [|exact Hxy].
      destruct (Z.eqb_spec v y) as [->|Hvy]; [|exact Hxy].
      split; [|discriminate]. intros H.
      pose proof (proj1 (bij_value_key m x y Hb) H) as H1.
      pose proof (proj1 (bij_value_key m a y Hb) Ev) as H2. congruence.
  - destruct Hb as (_ & Hk & Hv). unfold imap_remove_key. cbn [k2v].
    now apply (nodup_aremove bytes_eqb bytes_eqb_eq).
  - destruct Hb as (_ & Hk & Hv). unfold imap_remove_key. cbn [v2k].
    destruct (alookup bytes_eqb (k2v m) a); [now apply (nodup_aremove Z.eqb zeqb_eq)|assumption].
Qed.

(* ---- the semantic summaries pinned by C10 ---- *)
Lemma imap_insert_semantics m a id :
  bij m ->
  let m' := imap_insert m a id in
  imap_value m' a = Some id /\ imap_key m' id = Some a /\
  (forall x, x <> a ->
     imap_value m' x = match imap_key m id with
                       | Some k => if bytes_eqb k x then None else imap_value m x
                       | None => imap_value m x
                       end) /\
  (forall y, y <> id ->
     imap_key m' y = match imap_value m a with
                     | Some v => if v =? y then None else imap_key m y
                     | None => imap_key m y
                     end).
Proof.
  intros Hb. cbv zeta. repeat split.
  - rewrite (imap_insert_value m a id a Hb). now rewrite (keqb_refl bytes_eqb bytes_eqb_eq).
  - rewrite imap_insert_key. now rewrite Z.eqb_refl.
  - intros x Hx. rewrite (imap_insert_value m a id x Hb).
    rewrite (keqb_neq bytes_eqb bytes_eqb_eq a x); [reflexivity|congruence].
  - intros y Hy. rewrite imap_insert_key.
    rewrite (proj2 (Z.eqb_neq id y)); [reflexivity|congruence].
Qed.

Lemma imap_remove_semantics m a :
  let m' := imap_remove_key m a in
  imap_value m' a = None /\
  (forall x, x <> a -> imap_value m' x = imap_value m x) /\
  (forall y, imap_key m' y = match imap_value m a with
                             | Some v => if v =? y then None else imap_key m y
                             | None => imap_key m y
                             end).
Proof.
  cbv zeta. repeat split.
  - rewrite imap_remove_key_value. now rewrite (keqb_refl bytes_eqb bytes_eqb_eq).
  - intros x Hx. rewrite imap_remove_key_value.
    rewrite (keqb_neq bytes_eqb bytes_eqb_eq a x); [reflexivity|congruence].
  - intros y. apply imap_remove_key_key.
Qed.

(* each alias names at most one id and each id has at most one alias: immediate, both sides are
   functions; the content of `bij` is that the two functions are inverse to each other *)
Lemma bij_injective m a b id :
  bij m -> imap_value m a = Some id -> imap_value m b = Some id -> a = b.
Proof.
  intros Hb Ha Hb'. apply (bij_value_key m a id Hb) in Ha. apply (bij_value_key m b id Hb) in Hb'. congruence.
Qed.
