(* UndoBridge.v — C13: from the simulation relation (abstract views) to the observational
   equivalence of UndoObs.v stated on the model's own read functions (slot kinds, out_edges,
   in_edges, node_count, degree counters, the next slots handed out). *)
From Agdb Require Import Bytes BytesProofs DbValue Graph DbModel Revisions UndoBase UndoObs UndoAlias UndoKv
  UndoGraphBase UndoGraph UndoGraphAlloc UndoGraphEdge UndoGraphOps UndoAbs UndoDb UndoStepsGraph.
From Coq Require Import Permutation ZifyBool ZifyNat ZifyN.
Ltac Zify.zify_post_hook ::= Z.div_mod_to_equations.
Open Scope Z_scope.

Lemma slot_kind_zero g : slot_kind g 0 = KFree.
Proof. reflexivity. Qed.

Section Bridge.
  Variables (g : graph) (a : ag).
  Hypothesis R : rep g a.

  Lemma rep_slot_kind i : slot_kind g i = if 0 <? Z.abs i then ak a (Z.abs i) else KFree.
  Proof.
    rewrite <- slot_kind_abs. destruct (Z.ltb_spec 0 (Z.abs i)).
    - symmetry. apply (r_kind _ _ _ _ R). assumption.
    - replace (Z.abs i) with 0 by lia. reflexivity.
  Qed.

  Lemma rep_out_edges n : 0 < n -> ak a n = KNode -> out_edges g n = map Z.opp (aout a n).
  Proof.
    intros Hn Hk. destruct (r_out _ _ _ _ R n Hn Hk) as (Hc & _).
    unfold out_edges, first_edge_from.
    apply (edge_list_chain (fun e => fmeta g e) (aout a n) (from g n) (length (g_from g)) Hc).
    - apply (rep_out_length _ _ _ _ R); assumption.
    - intros x. apply fmeta_opp.
  Qed.

  Lemma rep_in_edges n : 0 < n -> ak a n = KNode -> in_edges g n = map Z.opp (ain a n).
  Proof.
    intros Hn Hk. destruct (r_in _ _ _ _ R n Hn Hk) as (Hc & _).
    unfold in_edges, first_edge_to.
    apply (edge_list_chain (fun e => tmeta g e) (ain a n) (to g n) (length (g_from g)) Hc).
    - apply (rep_in_length _ _ _ _ R); assumption.
    - intros x. apply tmeta_opp.
  Qed.

  Lemma rep_node_of_kind n : slot_kind g n = KNode -> 0 < Z.abs n /\ ak a (Z.abs n) = KNode.
  Proof.
    rewrite rep_slot_kind. destruct (Z.ltb_spec 0 (Z.abs n)); [auto | discriminate].
  Qed.
End Bridge.

Lemma map_opp_nil l : map Z.opp l = [] -> l = [].
Proof. destruct l; [reflexivity | discriminate]. Qed.

Lemma gsim_graph_obs_eq g g' : gsim g g' -> graph_obs_eq g g'.
Proof.
  intros (a & a' & R & R' & E). constructor.
  - intros i. rewrite (rep_slot_kind g a R), (rep_slot_kind g' a' R').
    destruct (Z.ltb_spec 0 (Z.abs i)); [apply (ae_kind _ _ E); assumption | reflexivity].
  - unfold rep in R, R'. rewrite <- (r_count _ _ _ _ R), <- (r_count _ _ _ _ R'). apply (ae_count _ _ E).
  - intros n Hk. destruct (rep_node_of_kind g a R n Hk) as (Hn & Kn).
    assert (Kn' : ak a' (Z.abs n) = KNode) by (rewrite <- (ae_kind _ _ E); assumption).
    rewrite <- (out_edges_abs g), <- (out_edges_abs g').
    rewrite (rep_out_edges g a R), (rep_out_edges g' a' R') by assumption.
    apply Permutation_map, (ae_out _ _ E); assumption.
  - intros n Hk. destruct (rep_node_of_kind g a R n Hk) as (Hn & Kn).
    assert (Kn' : ak a' (Z.abs n) = KNode) by (rewrite <- (ae_kind _ _ E); assumption).
    rewrite <- (in_edges_abs g), <- (in_edges_abs g').
    rewrite (rep_in_edges g a R), (rep_in_edges g' a' R') by assumption.
    apply Permutation_map, (ae_in _ _ E); assumption.
Qed.

Lemma sim_obs_eq d d' : sim d d' -> obs_eq d d'.
Proof.
  intros [G (_ & _ & (A1 & A2)) (_ & _ & V) (_ & _ & I)]. constructor; auto using gsim_graph_obs_eq.
Qed.

(* degree counters *)
Lemma gsim_degrees g g' n :
  gsim g g' -> slot_kind g n = KNode ->
  edge_count_from g n = edge_count_from g' n /\ edge_count_to g n = edge_count_to g' n.
Proof.
  intros (a & a' & R & R' & E) Hk. destruct (rep_node_of_kind g a R n Hk) as (Hn & Kn).
  assert (Kn' : ak a' (Z.abs n) = KNode) by (rewrite <- (ae_kind _ _ E); assumption).
  unfold edge_count_from, edge_count_to.
  assert (Ef : forall h, fmeta h n = fmeta h (Z.abs n)) by (intros; unfold fmeta; symmetry; apply get_abs).
  assert (Et : forall h, tmeta h n = tmeta h (Z.abs n)) by (intros; unfold tmeta; symmetry; apply get_abs).
  rewrite !Ef, !Et. unfold rep in R, R'.
  destruct (r_out _ _ _ _ R _ Hn Kn) as (_ & _ & ->). destruct (r_out _ _ _ _ R' _ Hn Kn') as (_ & _ & ->).
  destruct (r_in _ _ _ _ R _ Hn Kn) as (_ & _ & ->). destruct (r_in _ _ _ _ R' _ Hn Kn') as (_ & _ & ->).
  rewrite (Permutation_length (ae_out _ _ E _ Hn Kn)), (Permutation_length (ae_in _ _ E _ Hn Kn)). auto.
Qed.

(* the next slots handed out coincide (as long as the capacity stays within i64) *)
Lemma gsim_next_slots n : forall g g' a a',
  rep g a -> rep g' a' -> aeqv a a' ->
  capacity g + Z.of_nat n <= two63z -> capacity g' + Z.of_nat n <= two63z ->
  next_slots n g = next_slots n g'.
Proof.
  induction n as [|n IH]; intros g g' a a' R R' E Hb Hb'; cbn [next_slots]; [reflexivity|].
  destruct (get_free_index g) as [i g1] eqn:Eg, (get_free_index g') as [i' g1'] eqn:Eg'.
  assert (Hc : capacity g1 <= capacity g + 1).
  { change g1 with (snd (i, g1)). rewrite <- Eg, cap_get_free_index. destruct (fmeta g 0 =? i64_min); lia. }
  assert (Hc' : capacity g1' <= capacity g' + 1).
  { change g1' with (snd (i', g1')). rewrite <- Eg', cap_get_free_index. destruct (fmeta g' 0 =? i64_min); lia. }
  destruct (rep_alloc _ _ _ _ _ _ R Eg) as (Ei & R1); [lia|].
  destruct (rep_alloc _ _ _ _ _ _ R' Eg') as (Ei' & R1'); [lia|].
  destruct (aeqv_alloc _ _ E) as (Efst & E1). f_equal; [congruence|].
  apply (IH _ _ _ _ R1 R1' E1); lia.
Qed.

Lemma out_edges_nil_aout g a n : rep g a -> 0 < n -> ak a n = KNode -> out_edges g n = [] -> aout a n = [].
Proof. intros R Hn Hk H. rewrite (rep_out_edges g a R n Hn Hk) in H. apply map_opp_nil, H. Qed.
Lemma in_edges_nil_ain g a n : rep g a -> 0 < n -> ak a n = KNode -> in_edges g n = [] -> ain a n = [].
Proof. intros R Hn Hk H. rewrite (rep_in_edges g a R n Hn Hk) in H. apply map_opp_nil, H. Qed.
