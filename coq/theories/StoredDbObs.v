(* StoredDbObs.v — proofs (stored database, part 6): `sd_eqv`, the equality a reload determines, is STRONGER than
   the observational equivalences of C13 (UndoObs.v): `obs_eq` (what "no observable effect" means there) and
   `obs_eq_strong` (degree counters and the ids handed out next included). *)
From Coq Require Import Permutation.
From Agdb Require Import Bytes DbValue Graph DbModel UndoBase UndoObs StoredDbRep.
Open Scope Z_scope.

Lemma sd_idx_find ixs ixs' key : Forall2 sd_index_eqv ixs ixs' -> idx_rel (idx_find ixs key) (idx_find ixs' key).
Proof.
  unfold idx_find. induction 1 as [|a b l l' [H1 H2] _ IH]; cbn [find]; [exact I|].
  rewrite <- H1. destruct (dbv_eqb (fst a) key); [cbn [idx_rel]; exact H2|exact IH].
Qed.

Theorem sd_eqv_obs_eq d d' : sd_eqv d d' -> obs_eq d d'.
Proof.
  intros H. constructor.
  - rewrite (se_graph _ _ H). apply graph_obs_eq_refl.
  - intros i. rewrite (se_vals _ _ H). apply Permutation_refl.
  - apply (se_alias_value _ _ H).
  - apply (se_alias_key _ _ H).
  - intros key. apply sd_idx_find. apply (se_indexes _ _ H).
Qed.

Theorem sd_eqv_obs_eq_strong d d' : sd_eqv d d' -> obs_eq_strong d d'.
Proof.
  intros H. constructor; [apply sd_eqv_obs_eq; exact H|..]; intros; rewrite (se_graph _ _ H); reflexivity.
Qed.
