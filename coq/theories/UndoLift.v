(* UndoLift.v — C13 lifted to Queries.exec (one failing query) and Queries.transaction
   (several queries, a failing one or a failure injected at the end) — PARTIAL: for the mutating
   queries whose primitives need no cross-component side condition (insert aliases, remove
   aliases, insert index, remove index) and every read-only query in between. *)
From Agdb Require Import Bytes BytesProofs DbValue Graph DbModel Search Queries Revisions UndoBase UndoObs UndoAlias UndoKv
  UndoGraphBase UndoGraph UndoGraphAlloc UndoGraphEdge UndoGraphOps UndoAbs UndoDb
  UndoStepsAlias UndoStepsKv UndoStepsKv2 UndoStepsIndex UndoStepsGraph UndoBridge UndoMain UndoFinal.
From Coq Require Import Permutation ZifyBool ZifyNat ZifyN.
Ltac Zify.zify_post_hook ::= Z.div_mod_to_equations.
Open Scope Z_scope.

Definition liftable (q : query) : bool :=
  match q with
  | InsertAliases _ _ | RemoveAliases _ | InsertIndex _ | RemoveIndex _ => true
  | _ => negb (is_mutating q)
  end.

(* undo commands never touch the undo stack of the state they are applied to *)
Lemma undo_one_undo d c d' : undo_one d c = ROk d' -> undo d' = undo d.
Proof.
  destruct c; cbn [undo_one]; try (intros [= <-]; reflexivity).
  - destruct (insert_edge (gr d) f t) as [[i g]|]; [|discriminate]. intros [= <-]. reflexivity.
  - destruct (insert_node (gr d)). intros [= <-]. reflexivity.
  - destruct (Graph.remove_edge (gr d) index); [|discriminate]. intros [= <-]. reflexivity.
  - destruct (Graph.remove_node (gr d) index); [|discriminate]. intros [= <-]. reflexivity.
  - destruct (kvs_insert_or_replace (vals d) id x) as [[old|] s]; [|discriminate]. intros [= <-]. reflexivity.
Qed.

Lemma rollback_cmds_undo rv cs : forall d d', rollback_cmds rv d cs = ROk d' -> undo d' = undo d.
Proof.
  induction cs as [|c r IH]; intros d d'; cbn [rollback_cmds]; [intros [= <-]; reflexivity|].
  destruct (undo_one d c) as [d1|] eqn:E; [|discriminate]. apply undo_one_undo in E. rewrite <- E.
  destruct c; try apply IH. destruct (fix_rollback_replace rv); [apply IH | intros [= <-]; reflexivity].
Qed.

Lemma rollback_undo rv d d' : rollback rv d = ROk d' -> undo d' = [].
Proof. unfold rollback. intros H. apply rollback_cmds_undo in H. exact H. Qed.

Section Lift.
  Variable rv : revision.
  Hypothesis Hrv : fix_rollback_replace rv = true.
  Hypothesis Hsteal : fix_alias_steal_undo rv = true.

  Notation psteps := (psteps rv).

  Lemma psteps_trans d d1 d2 : psteps d d1 -> psteps d1 d2 -> psteps d d2.
  Proof.
    intros H1 H2. induction H2 as [|x y z H2 IH H3]; [assumption|].
    eapply pss_snoc; [apply IH; assumption | exact H3].
  Qed.
  Lemma psteps_one d d1 : pstep rv d d1 -> psteps d d1.
  Proof. intros H. eapply pss_snoc; [apply pss_nil | exact H]. Qed.

  (* a step that only touches aliases / indexes *)
  Definition light (d d1 : db) : Prop := psteps d d1 /\ gr d1 = gr d.

  Lemma light_refl d : light d d.
  Proof. split; [apply pss_nil | reflexivity]. Qed.
  Lemma light_trans d d1 d2 : light d d1 -> light d1 d2 -> light d d2.
  Proof. intros (H1 & E1) (H2 & E2). split; [eapply psteps_trans; eassumption | congruence]. Qed.

  Lemma gr_insert_alias d id a : gr (insert_alias rv d id a) = gr d.
  Proof.
    unfold insert_alias. rewrite Hsteal.
    destruct (imap_key (aliases d) id); cbn [aliases with_aliases push_undo];
      match goal with |- context [imap_value ?m a] => destruct (imap_value m a) end; reflexivity.
  Qed.

  Definition step_db {A} (s : step A) : db :=
    match s with StOk _ d _ => d | StErr _ d _ => d | StPanic _ d => d end.

  Lemma st_fold_light {A B} (f : db -> B -> A -> step B) l :
    (forall a b x, light a (step_db (f a b x))) ->
    forall d b, light d (step_db (st_fold f d b l)).
  Proof.
    intros Hf. induction l as [|x r IH]; intros d b; cbn [st_fold]; [apply light_refl|].
    specialize (Hf d b x). destruct (f d b x) as [d1 b1|d1 e|d1]; cbn [step_db] in *; [|assumption|assumption].
    eapply light_trans; [exact Hf | apply IH].
  Qed.

  Lemma insert_aliases_light d ids als : light d (step_db (insert_aliases rv d ids als)).
  Proof.
    unfold insert_aliases. destruct ids as [l|s]; [|apply light_refl].
    destruct (negb (Nat.eqb (length l) (length als))); [apply light_refl|].
    match goal with |- context [st_fold ?f d 0 ?l'] =>
      assert (Hf : forall a0 b x, light a0 (step_db (f a0 b x)));
      [| pose proof (st_fold_light f l' Hf d 0) as Hl; destruct (st_fold f d 0 l'); exact Hl] end.
    intros a0 b [q al]. destruct al as [|c al']; [apply light_refl|].
    destruct (db_id a0 q) as [id|e]; [|apply light_refl].
    destruct (fix_alias_nodes_only rv && (id <? 0)); [apply light_refl|].
    cbn [step_db]. split; [apply psteps_one, ps_insert_alias | apply gr_insert_alias].
  Qed.

  Lemma remove_aliases_light als : forall d n,
    light d (snd (fold_left (fun (acc : Z * db) al =>
                       let '(b, a1) := remove_alias (snd acc) al in
                       (if b then fst acc + 1 else fst acc, a1)) als (n, d))).
  Proof.
    induction als as [|al r IH]; intros d n; cbn [fold_left snd fst]; [apply light_refl|].
    destruct (remove_alias d al) as [b a1] eqn:E.
    eapply light_trans; [|apply IH].
    replace a1 with (snd (remove_alias d al)) by (rewrite E; reflexivity).
    split; [apply psteps_one, ps_remove_alias|].
    unfold remove_alias. destruct (imap_value (aliases d) al); reflexivity.
  Qed.

  Lemma gr_insert_index d key n d1 : insert_index d key = ROk (n, d1) -> gr d1 = gr d.
  Proof.
    unfold insert_index. destruct (idx_find (indexes d) key); [discriminate|]. intros [= _ <-].
    match goal with |- gr ?X = _ => assert (Hinv : backfill_inv key (with_indexes (push_undo d (CRemoveIndex key)) (indexes (push_undo d (CRemoveIndex key)) ++ [(key, [])])) X) end.
    { apply backfill_inv_outer. repeat split. }
    destruct Hinv as (Eg & _). rewrite Eg. reflexivity.
  Qed.

  Lemma gr_remove_index d key : gr (snd (remove_index d key)) = gr d.
  Proof.
    unfold remove_index. destruct (idx_find (indexes d) key) as [ids|]; cbn [snd]; [|reflexivity].
    cbn [gr with_indexes push_undo]. destruct (push_fold_fields key ids d) as (Eg & _). exact Eg.
  Qed.

  Lemma exec_in_txn_light d q : liftable q = true -> light d (fst (exec_in_txn rv d q)).
  Proof.
    intros Hq. unfold exec_in_txn. destruct (is_mutating q) eqn:Em; [|apply light_refl].
    destruct q; cbn in Hq, Em; try discriminate; cbn [exec_mut_step].
    - pose proof (insert_aliases_light d ids aliases) as H.
      destruct (insert_aliases rv d ids aliases) as [d1 [n els]|d1 e|d1]; exact H.
    - destruct (insert_index d key) as [[n d1]|e] eqn:E; cbn [fst]; [|apply light_refl].
      split; [eapply psteps_one, ps_insert_index, E | eapply gr_insert_index, E].
    - destruct (remove_index d key) as [n d1] eqn:E. cbn [fst].
      replace d1 with (snd (remove_index d key)) by (rewrite E; reflexivity).
      split; [apply psteps_one, ps_remove_index | apply gr_remove_index].
    - unfold remove_aliases. pose proof (remove_aliases_light aliases d 0) as H.
      destruct (fold_left _ aliases (0, d)) as [n d1]. exact H.
  Qed.

  Lemma db_ok_cap d : db_ok d -> capacity (gr d) <= two63z.
  Proof. intros Hok. destruct (db_ok_rep d Hok) as (a & R). apply (r_cap _ _ _ _ R). Qed.

  (* rolling back after light steps *)
  Lemma light_rollback d d1 :
    db_ok d -> undo d = [] -> light d d1 ->
    exists d', rollback rv d1 = ROk d' /\ obs_eq d d' /\ db_ok d' /\ undo d' = [].
  Proof.
    intros Hok Hu (Hs & Eg).
    destruct (rollback_restores_obs rv Hrv Hsteal d d1 Hok Hu Hs) as (d' & Hr & Ho & _ & _ & Hok').
    - rewrite Eg. apply db_ok_cap, Hok.
    - exists d'. split; [exact Hr|]. split; [exact Ho|]. split; [exact Hok'|]. eapply rollback_undo, Hr.
  Qed.

  (* one failing query *)
  Theorem exec_failure_restores d q d' e :
    liftable q = true -> db_ok d -> undo d = [] -> exec rv d q = (d', QErr e) ->
    obs_eq d d' /\ db_ok d' /\ undo d' = [].
  Proof.
    intros Hq Hok Hu Hex. unfold exec in Hex. pose proof (exec_in_txn_light d q Hq) as Hl.
    destruct (exec_in_txn rv d q) as [d1 r]. cbn [fst] in Hl.
    destruct (light_rollback d d1 Hok Hu Hl) as (d2 & Hr & Ho & Hok2 & Hu2).
    destruct r as [n els|k|]; [discriminate | | discriminate]. rewrite Hr in Hex. injection Hex as <- _. auto.
  Qed.

  (* several queries *)
  Lemma txn_run_light qs : forall d acc, Forall (fun q => liftable q = true) qs ->
    light d (fst (fst (txn_run rv d qs acc))).
  Proof.
    induction qs as [|q r IH]; intros d acc Hall; cbn [txn_run]; [apply light_refl|].
    inversion Hall as [|? ? Hq Hr]. subst. pose proof (exec_in_txn_light d q Hq) as Hl.
    destruct (exec_in_txn rv d q) as [d1 res]. cbn [fst] in Hl.
    destruct (is_failure res); [exact Hl|]. eapply light_trans; [exact Hl | apply IH, Hr].
  Qed.

  Theorem transaction_failure_restores d qs fail_at_end :
    Forall (fun q => liftable q = true) qs -> db_ok d -> undo d = [] ->
    let '(d1, results, all_ok) := txn_run rv d qs [] in
    existsb (fun r => match r with QPanic => true | _ => false end) results = false ->
    all_ok && negb fail_at_end = false ->
    exists d', transaction rv d qs fail_at_end = (d', results) /\ obs_eq d d' /\ db_ok d' /\ undo d' = [].
  Proof.
    intros Hall Hok Hu. pose proof (txn_run_light qs d [] Hall) as Hl. unfold transaction.
    destruct (txn_run rv d qs []) as [[d1 results] all_ok]. cbn [fst] in Hl. intros Hnp Hfail.
    rewrite Hnp, Hfail. destruct (light_rollback d d1 Hok Hu Hl) as (d2 & Hr & Ho & Hok2 & Hu2).
    rewrite Hr. exists d2. auto.
  Qed.
End Lift.
