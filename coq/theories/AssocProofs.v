(* AssocProofs.v — lookup / removal / insertion facts about the association lists of DbModel.v
   (used by the alias map, C10). *)
From Agdb Require Import Bytes BytesProofs DbValue Graph DbModel.
Open Scope Z_scope.

(* ---------- association lists ---------- *)
Section AssocFacts.
  Context {K V : Type} (keqb : K -> K -> bool).
  Hypothesis keqb_eq : forall a b, keqb a b = true <-> a = b.

  Lemma keqb_refl a : keqb a a = true.
  Proof. now apply keqb_eq. Qed.

  Lemma keqb_neq a b : a <> b -> keqb a b = false.
  Proof.
    intros Hne. destruct (keqb a b) eqn:E; [|reflexivity].
    apply keqb_eq in E. contradiction.
  Qed.

  Lemma keqb_spec a b : reflect (a = b) (keqb a b).
  Proof.
    destruct (keqb a b) eqn:E; constructor.
    - now apply keqb_eq.
    - intros ->. rewrite keqb_refl in E. discriminate.
  Qed.

  Lemma alookup_aremove (m : list (K * V)) k k' :
    alookup keqb (aremove keqb m k) k' = if keqb k k' then None else alookup keqb m k'.
  Proof.
    induction m as [|[k0 v0] m IH]; cbn [alookup aremove].
    - now destruct (keqb k k').
    - destruct (keqb_spec k0 k) as [->|Hne].
      + rewrite IH. destruct (keqb_spec k k'); reflexivity.
      + cbn [alookup]. rewrite IH.
        destruct (keqb_spec k0 k') as [->|Hne'].
        * destruct (keqb_spec k k') as [->|]; [contradiction|reflexivity].
        * reflexivity.
  Qed.

  Lemma alookup_app1 (m : list (K * V)) k v k' :
    alookup keqb (m ++ [(k, v)]) k' =
    match alookup keqb m k' with
    | Some x => Some x
    | None => if keqb k k' then Some v else None
    end.
  Proof.
    induction m as [|[k0 v0] m IH]; cbn [alookup app].
    - reflexivity.
    - destruct (keqb k0 k'); [reflexivity|apply IH].
  Qed.

  Lemma alookup_ainsert (m : list (K * V)) k v k' :
    alookup keqb (snd (ainsert keqb m k v)) k' = if keqb k k' then Some v else alookup keqb m k'.
  Proof.
    unfold ainsert. cbn [snd]. rewrite alookup_app1, alookup_aremove.
    destruct (keqb k k'); [reflexivity|]. now destruct (alookup keqb m k').
  Qed.

  Lemma in_aremove (m : list (K * V)) k k' v :
    In (k', v) (aremove keqb m k) -> In (k', v) m /\ k' <> k.
  Proof.
    induction m as [|[k0 v0] m IH]; cbn [aremove]; [intros []|].
    destruct (keqb_spec k0 k) as [->|Hne].
    - intros H. apply IH in H. split; [right|]; tauto.
    - intros [H|H].
      + inversion H; subst. split; [now left|assumption].
      + apply IH in H. split; [right|]; tauto.
  Qed.

  Lemma in_keys_aremove (m : list (K * V)) k k' :
    In k' (map fst (aremove keqb m k)) -> In k' (map fst m) /\ k' <> k.
  Proof.
    intros H. apply in_map_iff in H. destruct H as [[k1 v1] [E H]]. cbn in E. subst k1.
    apply in_aremove in H. split; [|tauto]. apply in_map_iff. exists (k', v1). tauto.
  Qed.

  Lemma nodup_aremove (m : list (K * V)) k :
    NoDup (map fst m) -> NoDup (map fst (aremove keqb m k)).
  Proof.
    induction m as [|[k0 v0] m IH]; cbn [aremove map fst]; [trivial|].
    intros H. inversion H as [|? ? Hni Hnd]; subst.
    destruct (keqb k0 k); [now apply IH|].
    cbn [map fst]. constructor; [|now apply IH].
    intros Hin. apply in_keys_aremove in Hin. tauto.
  Qed.

  Lemma nodup_snoc {A} (l : list A) (x : A) : NoDup l -> ~ In x l -> NoDup (l ++ [x]).
  Proof.
    induction l as [|y l IH]; cbn [app]; intros Hnd Hni.
    - constructor; [intros []|constructor].
    - inversion Hnd as [|? ? Hy Hl]; subst. constructor.
      + rewrite in_app_iff. cbn [In]. intros [H|[H|[]]]; [tauto|].
        subst. apply Hni. now left.
      + apply IH; [assumption|]. intros H. apply Hni. now right.
  Qed.

  Lemma nodup_ainsert (m : list (K * V)) k v :
    NoDup (map fst m) -> NoDup (map fst (snd (ainsert keqb m k v))).
  Proof.
    intros H. unfold ainsert. cbn [snd]. rewrite map_app. cbn [map fst].
    apply nodup_snoc; [now apply nodup_aremove|].
    intros Hin. apply in_keys_aremove in Hin. tauto.
  Qed.

  Lemma alookup_in (m : list (K * V)) k v : alookup keqb m k = Some v -> In (k, v) m.
  Proof.
    induction m as [|[k0 v0] m IH]; cbn [alookup]; [discriminate|].
    destruct (keqb_spec k0 k) as [->|Hne].
    - intros H. inversion H. now left.
    - intros H. right. now apply IH.
  Qed.

  Lemma in_alookup (m : list (K * V)) k v :
    NoDup (map fst m) -> In (k, v) m -> alookup keqb m k = Some v.
  Proof.
    induction m as [|[k0 v0] m IH]; cbn [alookup map fst]; [intros _ []|].
    intros Hnd [H|H].
    - inversion H; subst. now rewrite keqb_refl.
    - inversion Hnd as [|? ? Hni Hnd']; subst.
      destruct (keqb_spec k0 k) as [->|Hne].
      + exfalso. apply Hni. apply in_map_iff. exists (k, v). tauto.
      + now apply IH.
  Qed.
End AssocFacts.
