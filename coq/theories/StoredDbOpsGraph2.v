(* StoredDbOpsGraph2.v — proofs (stored database, part 16): GraphImpl::insert_edge as a program over the storage
   computes Graph.insert_edge on the arrays of a stored graph (validate_node twice, get_free_index, set_edge =
   set_from, set_to, update_from_edge, update_to_edge inside one storage transaction).

     so_edge_ok G f t    beyond so_graph_ok: the two degree counters the code increments stay i64 values (under C08's
                         well-formedness they are bounded by the number of edges) *)
From Agdb Require Import Bytes BytesProofs Utf8 Codec DbValue ValueIndex Graph DbModel Records RecordsProofs Storage StorageSpec
  StorageLayout Collections CollValues CollWp CollBytes CollVecBase CollVecOps CollVec CollVec2 CollElems CollSep CollMap
  CollGraph CollValuesProofs StoredDb StoredDbRep StoredDbFrame StoredDbOps StoredDbOpsGraph.
From Coq Require Import ZifyBool ZifyNat ZifyN.
Ltac Zify.zify_post_hook ::= Z.div_mod_to_equations.
Open Scope N_scope.
Arguments N.add : simpl never.
Arguments N.mul : simpl never.
Arguments N.sub : simpl never.
Arguments N.of_nat : simpl never.
Arguments N.to_nat : simpl never.
Arguments N.eqb : simpl never.
Arguments N.ltb : simpl never.
Arguments N.leb : simpl never.
Arguments N.div : simpl never.

Definition glen (G : graph) (n : nat) : Prop := forall f, length (garr G f) = n.

Lemma glen_gset G n f i v : glen G n -> glen (gset G f i v) n.
Proof.
  intros HL f'. pose proof (HL f') as H'. pose proof (HL f) as Hf. unfold garr, gset in *. rewrite sd_arrays_of.
  destruct f, f'; cbn [ga_put ga_get ga_from ga_to ga_from_meta ga_to_meta] in *; try exact H'; unfold Graph.set; rewrite set_nth_length; exact Hf.
Qed.

Lemma glen_of_ok G : so_graph_ok G -> glen G (length (g_from G)).
Proof. intros OK f. apply garr_length. exact OK. Qed.

Lemma glen_grow G n : glen G n -> glen (grow G) (S n).
Proof.
  intros HL f. specialize (HL f). destruct f; cbn [garr ga_get sd_arrays grow ga_from ga_to ga_from_meta ga_to_meta g_from g_to g_fmeta g_tmeta] in *;
    rewrite app_length; cbn [length]; lia.
Qed.

Lemma get_free_index_glen G : so_graph_ok G ->
  exists n, glen (snd (get_free_index G)) n /\ (zabs_nat (fst (get_free_index G)) < n)%nat /\ (length (g_from G) <= n)%nat /\
            (Z.of_nat n <= 1152921504606846976)%Z.
Proof.
  intros OK. pose proof (glen_of_ok G OK) as HL. pose proof OK as [_ _ _ Lpos Lcap Lfree _].
  unfold get_free_index. destruct (Z.eqb_spec (fmeta G 0) i64_min) as [E|NE]; cbn [fst snd].
  - exists (S (length (g_from G))). split; [apply glen_grow; exact HL|]. unfold capacity, zabs_nat. split; [lia|]. split; lia.
  - exists (length (g_from G)). split; [|split; [rewrite zabs_opp; apply Lfree; exact NE|split; lia]].
    rewrite <- !gset_fmeta. apply glen_gset. apply glen_gset. exact HL.
Qed.

Section EdgeOps.
  Variable fl : bool.

  (* ---------------- validate_node ---------------- *)
  Lemma so_validate_node_spec d s G i sp (Q : cres bool -> spec -> Prop) :
    grep (hp sp) d s (sd_arrays G) -> so_graph_ok G ->
    Q (CrOk (is_node G i)) sp -> cwp fl (so_validate_node d i) sp Q.
  Proof.
    intros H OK HQ. pose proof (glen_of_ok G OK) as HL. pose proof (go_cap _ OK) as Hcap.
    unfold so_validate_node, so_is_valid_index. unfold is_node, valid_index in HQ.
    destruct (Z.eqb_spec i 0) as [->|Hi]; cbn [negb andb] in HQ; [cbn [cbind cwp]; exact HQ|].
    rewrite (cap_of_grep _ _ _ _ H). unfold capacity in HQ.
    destruct (N.leb_spec (lenN (g_from G)) (cg_as_u64 i)) as [Hle|Hlt].
    - destruct (Z.ltb_spec (Z.abs i) (Z.of_nat (length (g_from G)))) as [X|_]; [unfold lenN, cg_as_u64 in Hle; lia|].
      cbn [andb cbind cwp] in *. exact HQ.
    - destruct (Z.ltb_spec (Z.abs i) (Z.of_nat (length (g_from G)))) as [_|X]; [|unfold lenN, cg_as_u64 in Hlt; lia].
      assert (Hr : (zabs_nat i < length (g_from G))%nat) by (unfold lenN, cg_as_u64, zabs_nat in *; lia).
      cbn [andb] in HQ. apply cwp_bind. apply cwp_bind.
      eapply (gget_spec fl d s G GfFromMeta); [exact H|rewrite HL; exact Hr|]. cbn [kont cwp].
      change (get (garr G GfFromMeta) i) with (fmeta G i).
      destruct (fmeta G i <? 0)%Z; cbn [negb andb] in *; [exact HQ|].
      apply cwp_bind. eapply (gget_spec fl d s G GfFrom); [exact H|rewrite HL; exact Hr|]. cbn [kont cwp]. exact HQ.
  Qed.

  (* ---------------- update_from_edge / update_to_edge ---------------- *)
  Lemma so_update_from_edge_spec d s0 g0 s G n node edge sp (Q : cres unit -> spec -> Prop) :
    grep (hp sp) d s (sd_arrays G) -> glen G n -> (zabs_nat node < n)%nat -> (zabs_nat edge < n)%nat ->
    (Z.of_nat n <= 1152921504606846976)%Z ->
    i64_range (fmeta (set_from (set_fmeta G edge (from G node)) node (- edge)) node + 1) ->
    frame g0 (hp sp) (gfoot d s0) (gfoot d s) ->
    (forall s' sp', grep (hp sp') d s' (sd_arrays (update_from_edge G node edge)) -> sdepth sp' = sdepth sp ->
        frame g0 (hp sp') (gfoot d s0) (gfoot d s') -> Q (CrOk tt) sp') ->
    cwp fl (so_update_from_edge d node edge) sp Q.
  Proof.
    intros H HL Hn He Hcap Hcnt F0 HQ. unfold so_update_from_edge.
    apply cwp_bind. eapply (gget_spec fl d s G GfFrom); [exact H|rewrite HL; exact Hn|]. cbn [kont].
    change (get (garr G GfFrom) node) with (from G node).
    apply cwp_bind. eapply (gset_spec fl d s G GfFromMeta); [exact H|apply (grep_range _ _ _ G GfFrom node H)|rewrite HL; exact He|].
    intros s1 sp1 H1 D1 F1. cbn [kont]. rewrite gset_fmeta in H1.
    pose proof (glen_gset G n GfFromMeta edge (from G node) HL) as HL1. rewrite gset_fmeta in HL1.
    apply cwp_bind. eapply (gset_spec fl d s1 _ GfFrom); [exact H1|unfold i64_range, zabs_nat in *; lia|rewrite HL1; exact Hn|].
    intros s2 sp2 H2 D2 F2. cbn [kont]. rewrite gset_from in H2.
    pose proof (glen_gset _ n GfFrom node (- edge)%Z HL1) as HL2. rewrite gset_from in HL2.
    apply cwp_bind. eapply (gget_spec fl d s2 _ GfFromMeta); [exact H2|rewrite HL2; exact Hn|]. cbn [kont].
    match goal with |- context [get (garr ?g GfFromMeta) node] => change (get (garr g GfFromMeta) node) with (fmeta g node) end.
    eapply (gset_spec fl d s2 _ GfFromMeta); [exact H2|exact Hcnt|rewrite HL2; exact Hn|].
    intros s3 sp3 H3 D3 F3. rewrite gset_fmeta in H3.
    eapply HQ; [exact H3|congruence|].
    eapply frame_trans; [exact F0|]. eapply frame_trans; [exact F1|]. eapply frame_trans; [exact F2|exact F3].
  Qed.

  Lemma so_update_to_edge_spec d s0 g0 s G n node edge sp (Q : cres unit -> spec -> Prop) :
    grep (hp sp) d s (sd_arrays G) -> glen G n -> (zabs_nat node < n)%nat -> (zabs_nat edge < n)%nat ->
    (Z.of_nat n <= 1152921504606846976)%Z ->
    i64_range (tmeta (set_to (set_tmeta G edge (to G node)) node (- edge)) node + 1) ->
    frame g0 (hp sp) (gfoot d s0) (gfoot d s) ->
    (forall s' sp', grep (hp sp') d s' (sd_arrays (update_to_edge G node edge)) -> sdepth sp' = sdepth sp ->
        frame g0 (hp sp') (gfoot d s0) (gfoot d s') -> Q (CrOk tt) sp') ->
    cwp fl (so_update_to_edge d node edge) sp Q.
  Proof.
    intros H HL Hn He Hcap Hcnt F0 HQ. unfold so_update_to_edge.
    apply cwp_bind. eapply (gget_spec fl d s G GfTo); [exact H|rewrite HL; exact Hn|]. cbn [kont].
    change (get (garr G GfTo) node) with (to G node).
    apply cwp_bind. eapply (gset_spec fl d s G GfToMeta); [exact H|apply (grep_range _ _ _ G GfTo node H)|rewrite HL; exact He|].
    intros s1 sp1 H1 D1 F1. cbn [kont]. rewrite gset_tmeta in H1.
    pose proof (glen_gset G n GfToMeta edge (to G node) HL) as HL1. rewrite gset_tmeta in HL1.
    apply cwp_bind. eapply (gset_spec fl d s1 _ GfTo); [exact H1|unfold i64_range, zabs_nat in *; lia|rewrite HL1; exact Hn|].
    intros s2 sp2 H2 D2 F2. cbn [kont]. rewrite gset_to in H2.
    pose proof (glen_gset _ n GfTo node (- edge)%Z HL1) as HL2. rewrite gset_to in HL2.
    apply cwp_bind. eapply (gget_spec fl d s2 _ GfToMeta); [exact H2|rewrite HL2; exact Hn|]. cbn [kont].
    match goal with |- context [get (garr ?g GfToMeta) node] => change (get (garr g GfToMeta) node) with (tmeta g node) end.
    eapply (gset_spec fl d s2 _ GfToMeta); [exact H2|exact Hcnt|rewrite HL2; exact Hn|].
    intros s3 sp3 H3 D3 F3. rewrite gset_tmeta in H3.
    eapply HQ; [exact H3|congruence|].
    eapply frame_trans; [exact F0|]. eapply frame_trans; [exact F1|]. eapply frame_trans; [exact F2|exact F3].
  Qed.

  (* ---------------- what insert_edge needs beyond so_graph_ok ---------------- *)
  Definition so_edge_ok (G : graph) (f t : Z) : Prop :=
    let g1 := snd (get_free_index G) in
    let index := (- fst (get_free_index G))%Z in
    let g3 := set_to (set_from g1 index (- f)) index (- t) in
    let g4 := update_from_edge g3 f index in
    i64_range (fmeta (set_from (set_fmeta g3 index (from g3 f)) f (- index)) f + 1) /\
    i64_range (tmeta (set_to (set_tmeta g4 index (to g4 t)) t (- index)) t + 1).

  Lemma is_node_range G i : is_node G i = true -> (zabs_nat i < length (g_from G))%nat.
  Proof.
    unfold is_node, valid_index, capacity. intros H. apply andb_prop in H. destruct H as [H _].
    apply andb_prop in H. destruct H as [H _]. apply andb_prop in H. destruct H as [_ H].
    apply Z.ltb_lt in H. unfold zabs_nat. lia.
  Qed.

  (* ---------------- GraphImpl::insert_edge ---------------- *)
  Theorem so_graph_insert_edge_spec d s G f t sp (Q : cres (cg_data * option Z) -> spec -> Prop) :
    grep (hp sp) d s (sd_arrays G) -> so_graph_ok G ->
    match insert_edge G f t with
    | None => Q (CrOk (d, None)) sp
    | Some (e, G') =>
      so_edge_ok G f t ->
      forall d' s' sp', grep (hp sp') d' s' (sd_arrays G') -> cg_index d' = cg_index d ->
        sdepth sp' = sdepth sp -> frame (hp sp) (hp sp') (gfoot d s) (gfoot d' s') -> Q (CrOk (d', Some e)) sp'
    end ->
    (insert_edge G f t <> None -> so_edge_ok G f t) ->
    cwp fl (so_graph_insert_edge d f t) sp Q.
  Proof.
    intros H OK HQ HE. unfold so_graph_insert_edge. unfold insert_edge in HQ, HE.
    apply cwp_bind. eapply so_validate_node_spec; [exact H|exact OK|]. cbn [kont].
    destruct (is_node G f) eqn:Nf; cbn [negb andb] in *; [|cbn [cwp]; exact HQ].
    apply cwp_bind. eapply so_validate_node_spec; [exact H|exact OK|]. cbn [kont].
    destruct (is_node G t) eqn:Nt; cbn [negb andb] in *; [|cbn [cwp]; exact HQ].
    apply is_node_range in Nf, Nt.
    destruct (get_free_index_glen G OK) as (n & HL1 & Hslot & Hn & Hcap).
    assert (HEok : so_edge_ok G f t) by (apply HE; destruct (get_free_index G); discriminate).
    pose proof HEok as HEok0. unfold so_edge_ok in HEok. destruct (get_free_index G) as [slot G1] eqn:EG. cbn [fst snd] in *. destruct HEok as [Hc1 Hc2].
    specialize (HQ HEok0).
    apply cwp_bind. apply hwp_transaction. intros sp0 Hm0 Hd0. cbn [kont].
    apply cwp_bind. eapply so_get_free_index_spec; [eapply grep_heq; [exact H|exact Hm0]|exact OK|].
    rewrite EG. cbn [fst snd]. intros d1 s1 sp1 H1 I1 D1 F1. cbn [kont fst snd].
    set (index := (- slot)%Z) in *.
    assert (Hidx : (zabs_nat index < n)%nat) by (unfold index; rewrite zabs_opp; exact Hslot).
    unfold so_set_edge.
    apply cwp_bind. apply cwp_bind.
    eapply (gset_spec fl d1 s1 G1 GfFrom); [exact H1|unfold i64_range, zabs_nat in *; lia|rewrite HL1; exact Hidx|].
    intros s2 sp2 H2 D2 F2. cbn [kont]. rewrite gset_from in H2.
    pose proof (glen_gset G1 n GfFrom index (- f)%Z HL1) as HL2. rewrite gset_from in HL2.
    apply cwp_bind.
    eapply (gset_spec fl d1 s2 _ GfTo); [exact H2|unfold i64_range, zabs_nat in *; lia|rewrite HL2; exact Hidx|].
    intros s3 sp3 H3 D3 F3. cbn [kont]. rewrite gset_to in H3.
    pose proof (glen_gset _ n GfTo index (- t)%Z HL2) as HL3. rewrite gset_to in HL3.
    assert (F13 : frame (hp sp1) (hp sp3) (gfoot d1 s1) (gfoot d1 s3)) by (eapply frame_trans; eassumption).
    apply cwp_bind.
    eapply (so_update_from_edge_spec d1 s1 (hp sp1) s3 _ n f index); [exact H3|exact HL3|lia|exact Hidx|exact Hcap|exact Hc1|exact F13|].
    intros s4 sp4 H4 D4 F4. cbn [kont].
    assert (HL4 : glen (update_from_edge (set_to (set_from G1 index (- f)) index (- t)) f index) n).
    { unfold update_from_edge. rewrite <- !gset_fmeta, <- gset_from. apply glen_gset. apply glen_gset. rewrite gset_fmeta. rewrite <- gset_fmeta. apply glen_gset. exact HL3. }
    eapply (so_update_to_edge_spec d1 s1 (hp sp1) s4 _ n t index); [exact H4|exact HL4|lia|exact Hidx|exact Hcap|exact Hc2|exact F4|].
    intros s5 sp5 H5 D5 F5. cbn [kont].
    apply cwp_bind. apply hwp_commit; [lia|lia|]. intros sp6 Hm6 Hd6. cbn [kont cwp].
    eapply HQ; [eapply grep_heq; [exact H5|exact Hm6]|exact I1|lia|].
    eapply frame_trans; [apply frame_refl; exact Hm0|]. eapply frame_trans; [exact F1|].
    eapply frame_trans; [exact F5|apply frame_refl; exact Hm6].
  Qed.
End EdgeOps.
