(* StoredDbOps.v — the CORE MUTATIONS of DbImpl as PROGRAMS over the storage (layer L3, executable part;
   definitions only, extracted).  Each program issues exactly the Storage<D> calls the code issues, through the
   storage-backed collections of Collections.v, and branches on what the storage answers:

     graph.rs       GraphImpl::get_free_index / insert_node / insert_edge (validate_node, set_edge, update_from_edge,
                    update_to_edge) over GraphDataStorage (cg_get / cg_set / cg_grow / cg_free_index / cg_node_count /
                    cg_set_node_count: DbVec<i64>::value / replace / push)
     db_key_value.rs DbKeyValues::insert_value / insert_or_replace / reserve_capacity / valid_index / kvs over the
                    DbVec<StorageIndex> of the element slots and the elements' DbVec<DbKeyValue>
     db.rs          DbImpl::insert_node / insert_edge / insert_key_value / insert_or_replace_key_value /
                    reserve_key_value_capacity — for a key that is NOT indexed (`self.indexes.index_mut(&key)` is an
                    in-memory lookup that returns None: no storage call); the undo stack is in memory (no storage call)
     query/*.rs     what `insert nodes` (count, values) and `insert values` (ids) issue inside transaction_mut (one
                    storage transaction around everything): so_q_*

   The handles (`so_db`): GraphDataStorage = cg_data, DbKeyValues = the cv_vec of the slot vector.  `so_open` builds them
   the way DbImpl::try_new_with_storage does for an existing file (from_storage).  The alias tables and the indexes are
   not touched by the core operations. *)
From Agdb Require Import Bytes Utf8 Codec DbValue ValueIndex Graph DbModel Records Storage StorageSpec Collections CollValues StoredDb.
Open Scope N_scope.

(* ------------------------------------------------------------------------- *)
(* graph.rs                                                                   *)
(* ------------------------------------------------------------------------- *)
(* get_free_index: free_index() == i64::MIN => capacity as i64, grow; else pop the free list *)
Definition so_get_free_index (g : cg_data) : cprog (cg_data * Z) :=
  index <~ cg_free_index g ;;
  if (index =? cg_i64_min)%Z then
    g' <~ cg_grow g ;;
    CRet (g', u2z (cg_capacity g))                                   (* `capacity()? as i64`, read before grow *)
  else
    next <~ cg_get g GfFromMeta (- index) ;;
    cg_set g GfFromMeta 0 next ;;~
    cg_set g GfFromMeta (- index) 0 ;;~
    CRet (g, (- index)%Z).

(* GraphImpl::insert_node *)
Definition so_graph_insert_node (g : cg_data) : cprog (cg_data * Z) :=
  id <~ cp_transaction ;;
  r <~ so_get_free_index g ;;
  count <~ cg_node_count (fst r) ;;
  cg_set_node_count (fst r) (count + 1) ;;~
  cp_commit id ;;~
  CRet r.

(* is_valid_index: index.is_valid() && index.as_u64() < capacity && !is_removed_index (short-circuit) *)
Definition so_is_valid_index (g : cg_data) (i : Z) : cprog bool :=
  if (i =? 0)%Z then CRet false
  else if cg_capacity g <=? cg_as_u64 i then CRet false
  else fm <~ cg_get g GfFromMeta i ;; CRet (negb (fm <? 0)%Z).
(* validate_node: true = Ok(()) *)
Definition so_validate_node (g : cg_data) (i : Z) : cprog bool :=
  v <~ so_is_valid_index g i ;;
  if v then f <~ cg_get g GfFrom i ;; CRet (0 <=? f)%Z else CRet false.
Definition so_validate_edge (g : cg_data) (i : Z) : cprog bool :=
  v <~ so_is_valid_index g i ;;
  if v then f <~ cg_get g GfFrom i ;; CRet (f <? 0)%Z else CRet false.

Definition so_update_from_edge (g : cg_data) (node edge : Z) : cprog unit :=
  next <~ cg_get g GfFrom node ;;
  cg_set g GfFromMeta edge next ;;~
  cg_set g GfFrom node (- edge) ;;~
  count <~ cg_get g GfFromMeta node ;;
  cg_set g GfFromMeta node (count + 1).
Definition so_update_to_edge (g : cg_data) (node edge : Z) : cprog unit :=
  next <~ cg_get g GfTo node ;;
  cg_set g GfToMeta edge next ;;~
  cg_set g GfTo node (- edge) ;;~
  count <~ cg_get g GfToMeta node ;;
  cg_set g GfToMeta node (count + 1).
Definition so_set_edge (g : cg_data) (index f t : Z) : cprog unit :=
  cg_set g GfFrom index (- f) ;;~
  cg_set g GfTo index (- t) ;;~
  so_update_from_edge g f index ;;~
  so_update_to_edge g t index.

(* GraphImpl::insert_edge: None = Err(invalid_index) of a validate_node (nothing written) *)
Definition so_graph_insert_edge (g : cg_data) (f t : Z) : cprog (cg_data * option Z) :=
  vf <~ so_validate_node g f ;;
  if negb vf then CRet (g, None) else
  vt <~ so_validate_node g t ;;
  if negb vt then CRet (g, None) else
  id <~ cp_transaction ;;
  r <~ so_get_free_index g ;;
  let index := (- snd r)%Z in
  so_set_edge (fst r) index f t ;;~
  cp_commit id ;;~
  CRet (fst r, Some index).

(* ------------------------------------------------------------------------- *)
(* db_key_value.rs                                                            *)
(* ------------------------------------------------------------------------- *)
(* the common beginning of insert_value and reserve_capacity: grow the slot vector up to the index, read the slot,
   create the element's vector (DbVec::new + replace of the slot) or rebuild its handle (from_storage) *)
Definition so_kv_open_slot (vh : cv_vec) (index : N) : cprog (cv_vec * cv_vec) :=
  vh1 <~ (if cv_len vh <=? index then cv_resize N ce_u64 vh (index + 1) 0 else CRet vh) ;;
  si <~ cv_value N ce_u64 vh1 index ;;
  k <~ (if si =? 0 then
          k0 <~ cv_new ;;
          cv_replace N ce_u64 vh1 index (cv_index k0) ;;~
          CRet k0
        else cv_from_storage kv ce_dbkv si) ;;
  CRet (vh1, k).

Definition so_kv_insert_value (vh : cv_vec) (index : N) (x : kv) : cprog cv_vec :=
  r <~ so_kv_open_slot vh index ;;
  k1 <~ cv_reserve kv ce_dbkv (snd r) (cv_len (snd r) + 1) ;;
  cv_push kv ce_dbkv k1 x ;;~
  CRet (fst r).

Definition so_kv_reserve_capacity (vh : cv_vec) (index len : N) : cprog cv_vec :=
  r <~ so_kv_open_slot vh index ;;
  cv_reserve kv ce_dbkv (snd r) len ;;~
  CRet (fst r).

(* valid_index: index < len && value(index) != 0 *)
Definition so_kv_valid_index (vh : cv_vec) (index : N) : cprog bool :=
  if index <? cv_len vh then si <~ cv_value N ce_u64 vh index ;; CRet (negb (si =? 0)) else CRet false.
(* kvs *)
Definition so_kv_kvs (vh : cv_vec) (index : N) : cprog cv_vec :=
  si <~ cv_value N ce_u64 vh index ;; cv_from_storage kv ce_dbkv si.

(* kvs.iter(storage).enumerate().find(|(_, kv)| kv.key == value.key): the iterator is lazy — it stops at the first
   pair with an equal key; a failing value() ends it (VecIterator: .ok()) *)
Fixpoint so_kv_find (k : cv_vec) (key : dbvalue) (fuel : nat) (i : N) : cprog (option (N * kv)) :=
  match fuel with
  | O => CRet None
  | S f =>
    r <~ cp_try (cv_value kv ce_dbkv k i) ;;
    match r with
    | None => CRet None
    | Some y => if dbv_eqb (fst y) key then CRet (Some (i, y)) else so_kv_find k key f (i + 1)
    end
  end.

Definition so_kv_insert_or_replace (vh : cv_vec) (index : N) (x : kv) : cprog (cv_vec * option kv) :=
  v <~ so_kv_valid_index vh index ;;
  if negb v then vh' <~ so_kv_insert_value vh index x ;; CRet (vh', None)
  else
    k <~ so_kv_kvs vh index ;;
    r <~ so_kv_find k (fst x) (S (N.to_nat (cv_len k))) 0 ;;
    match r with
    | Some (i, old) => cv_replace kv ce_dbkv k i x ;;~ CRet (vh, Some old)
    | None =>
      k1 <~ cv_reserve kv ce_dbkv k (cv_len k + 1) ;;
      cv_push kv ce_dbkv k1 x ;;~
      CRet (vh, None)
    end.

(* ------------------------------------------------------------------------- *)
(* db.rs                                                                      *)
(* ------------------------------------------------------------------------- *)
Record so_db := { so_graph : cg_data; so_values : cv_vec }.
Definition so_with_graph (h : so_db) (g : cg_data) : so_db := {| so_graph := g; so_values := so_values h |}.
Definition so_with_values (h : so_db) (v : cv_vec) : so_db := {| so_graph := so_graph h; so_values := v |}.

(* the handles of an existing file (try_new_with_storage, second branch): the root record, DbGraph::from_storage,
   DbKeyValues::from_storage (the alias and index handles are not used by the core operations) *)
Definition so_open (root : N) : cprog so_db :=
  r <~ sd_root_load root ;;
  g <~ cg_from_storage (cr_graph r) ;;
  v <~ cv_from_storage N ce_u64 (cr_values r) ;;
  CRet {| so_graph := g; so_values := v |}.

(* DbImpl::insert_node *)
Definition so_insert_node (h : so_db) : cprog (so_db * Z) :=
  r <~ so_graph_insert_node (so_graph h) ;; CRet (so_with_graph h (fst r), snd r).
(* DbImpl::insert_edge *)
Definition so_insert_edge (h : so_db) (f t : Z) : cprog (so_db * option Z) :=
  r <~ so_graph_insert_edge (so_graph h) f t ;; CRet (so_with_graph h (fst r), snd r).
(* DbImpl::insert_key_value, key not indexed; db_id.as_index() = unsigned_abs *)
Definition so_insert_key_value (h : so_db) (id : Z) (x : kv) : cprog so_db :=
  v <~ so_kv_insert_value (so_values h) (cg_as_u64 id) x ;; CRet (so_with_values h v).
(* DbImpl::insert_or_replace_key_value, neither the old nor the new key indexed *)
Definition so_insert_or_replace_key_value (h : so_db) (id : Z) (x : kv) : cprog (so_db * option kv) :=
  r <~ so_kv_insert_or_replace (so_values h) (cg_as_u64 id) x ;; CRet (so_with_values h (fst r), snd r).
(* DbImpl::reserve_key_value_capacity *)
Definition so_reserve_key_value_capacity (h : so_db) (id : Z) (len : N) : cprog so_db :=
  v <~ so_kv_reserve_capacity (so_values h) (cg_as_u64 id) len ;; CRet (so_with_values h v).

(* ------------------------------------------------------------------------- *)
(* the queries of the public API that consist of core operations only         *)
(* ------------------------------------------------------------------------- *)
Fixpoint so_insert_key_values (h : so_db) (id : Z) (l : list kv) : cprog so_db :=
  match l with
  | [] => CRet h
  | x :: r => h1 <~ so_insert_key_value h id x ;; so_insert_key_values h1 id r
  end.
Fixpoint so_insert_or_replace_key_values (h : so_db) (id : Z) (l : list kv) : cprog so_db :=
  match l with
  | [] => CRet h
  | x :: r => h1 <~ so_insert_or_replace_key_value h id x ;; so_insert_or_replace_key_values (fst h1) id r
  end.

(* QueryBuilder::insert().nodes().values([l]) (no alias, no ids): insert_node, reserve_key_value_capacity(id, |l|),
   insert_key_value for each pair — inside transaction_mut (storage.transaction() ... storage.commit(id)); the reads
   that follow (from_id / to_id for the result) do not write *)
Definition so_q_insert_node (h : so_db) (l : list kv) : cprog (so_db * Z) :=
  id <~ cp_transaction ;;
  r <~ so_insert_node h ;;
  h1 <~ so_reserve_key_value_capacity (fst r) (snd r) (lenN l) ;;
  h2 <~ so_insert_key_values h1 (snd r) l ;;
  cp_commit id ;;~
  CRet (h2, snd r).
(* QueryBuilder::insert().values([l]).ids(id) on an existing element: reserve_key_value_capacity(id, |l|),
   insert_or_replace_key_value for each pair *)
Definition so_q_insert_values (h : so_db) (i : Z) (l : list kv) : cprog so_db :=
  id <~ cp_transaction ;;
  h1 <~ so_reserve_key_value_capacity h i (lenN l) ;;
  h2 <~ so_insert_or_replace_key_values h1 i l ;;
  cp_commit id ;;~
  CRet h2.
(* QueryBuilder::insert().edges().from(f).to(t) (ids; no values): insert_edge, reserve_key_value_capacity(id, 0) *)
Definition so_q_insert_edge (h : so_db) (f t : Z) : cprog (so_db * option Z) :=
  id <~ cp_transaction ;;
  r <~ so_insert_edge h f t ;;
  match snd r with
  | None => cp_commit id ;;~ CRet r
  | Some e =>
    h1 <~ so_reserve_key_value_capacity (fst r) e 0 ;;
    cp_commit id ;;~
    CRet (h1, Some e)
  end.

(* ------------------------------------------------------------------------- *)
(* histories of core operations                                               *)
(* ------------------------------------------------------------------------- *)
Inductive so_op :=
| SoInsertNode                                   (* DbImpl::insert_node *)
| SoInsertEdge (f t : Z)                         (* DbImpl::insert_edge *)
| SoReserve (id : Z) (len : N)                   (* DbImpl::reserve_key_value_capacity *)
| SoInsertKeyValue (id : Z) (x : kv)             (* DbImpl::insert_key_value, key not indexed *)
| SoInsertOrReplace (id : Z) (x : kv).           (* DbImpl::insert_or_replace_key_value, keys not indexed *)

(* the observation: the id an insertion returns / the replaced pair *)
Inductive so_out := SoUnit | SoId (i : Z) | SoErr | SoOld (o : option kv).

Definition so_op_run (h : so_db) (o : so_op) : cprog (so_db * so_out) :=
  match o with
  | SoInsertNode => r <~ so_insert_node h ;; CRet (fst r, SoId (snd r))
  | SoInsertEdge f t => r <~ so_insert_edge h f t ;; CRet (fst r, match snd r with Some i => SoId i | None => SoErr end)
  | SoReserve id len => h' <~ so_reserve_key_value_capacity h id len ;; CRet (h', SoUnit)
  | SoInsertKeyValue id x => h' <~ so_insert_key_value h id x ;; CRet (h', SoUnit)
  | SoInsertOrReplace id x => r <~ so_insert_or_replace_key_value h id x ;; CRet (fst r, SoOld (snd r))
  end.

Fixpoint so_ops_run (h : so_db) (l : list so_op) : cprog (so_db * list so_out) :=
  match l with
  | [] => CRet (h, [])
  | o :: t =>
    r <~ so_op_run h o ;;
    r' <~ so_ops_run (fst r) t ;;
    CRet (fst r', snd r :: snd r')
  end.

(* ------------------------------------------------------------------------- *)
(* graph.rs: removals (graph only)                                            *)
(* ------------------------------------------------------------------------- *)
(* free_index *)
Definition so_free_index (g : cg_data) (index : Z) : cprog unit :=
  next_free <~ cg_get g GfFromMeta 0 ;;
  cg_set g GfFromMeta index next_free ;;~
  cg_set g GfFromMeta 0 (- index) ;;~
  cg_set g GfFrom index 0 ;;~
  cg_set g GfTo index 0 ;;~
  cg_set g GfToMeta index 0.

(* `while meta(previous) != target { previous = meta(previous) }` (the code reads twice per round); the fuel — the
   capacity, as in Graph.v — stands for the loop: running out of it (CErr) stands for non-termination *)
Fixpoint so_find_prev (g : cg_data) (f : cg_field) (fuel : nat) (previous target : Z) : cprog Z :=
  match fuel with
  | O => CErr CvData
  | S k =>
    nx <~ cg_get g f previous ;;
    if (nx =? target)%Z then CRet previous
    else nx2 <~ cg_get g f previous ;; so_find_prev g f k nx2 target
  end.

Definition so_remove_from_edge (g : cg_data) (index : Z) : cprog unit :=
  fi <~ cg_get g GfFrom index ;;
  let node_index := (- fi)%Z in
  ff <~ cg_get g GfFrom node_index ;;
  let first_index := (- ff)%Z in
  next <~ cg_get g GfFromMeta index ;;
  (if (first_index =? index)%Z then cg_set g GfFrom node_index next
   else previous <~ so_find_prev g GfFromMeta (N.to_nat (cg_capacity g)) first_index (- index) ;;
        cg_set g GfFromMeta previous next) ;;~
  count <~ cg_get g GfFromMeta node_index ;;
  cg_set g GfFromMeta node_index (count - 1).

Definition so_remove_to_edge (g : cg_data) (index : Z) : cprog unit :=
  fi <~ cg_get g GfTo index ;;
  let node_index := (- fi)%Z in
  ff <~ cg_get g GfTo node_index ;;
  let first_index := (- ff)%Z in
  next <~ cg_get g GfToMeta index ;;
  (if (first_index =? index)%Z then cg_set g GfTo node_index next
   else previous <~ so_find_prev g GfToMeta (N.to_nat (cg_capacity g)) first_index (- index) ;;
        cg_set g GfToMeta previous next) ;;~
  count <~ cg_get g GfToMeta node_index ;;
  cg_set g GfToMeta node_index (count - 1).

(* GraphImpl::remove_edge: an invalid edge is a no-op *)
Definition so_graph_remove_edge (g : cg_data) (index : Z) : cprog unit :=
  v <~ so_validate_edge g index ;;
  if negb v then CRet tt else
  id <~ cp_transaction ;;
  so_remove_from_edge g index ;;~
  so_remove_to_edge g index ;;~
  so_free_index g (- index) ;;~
  cp_commit id.

(* remove_from_edges / remove_to_edges of remove_node: `while edge.is_valid() { .. }` *)
Fixpoint so_remove_from_edges (fuel : nat) (g : cg_data) (edge : Z) : cprog unit :=
  if (edge =? 0)%Z then CRet tt
  else match fuel with
       | O => CErr CvData
       | S k =>
         so_remove_to_edge g edge ;;~
         nx <~ cg_get g GfFromMeta edge ;;
         so_free_index g (- edge) ;;~
         so_remove_from_edges k g (- nx)
       end.
Fixpoint so_remove_to_edges (fuel : nat) (g : cg_data) (edge : Z) : cprog unit :=
  if (edge =? 0)%Z then CRet tt
  else match fuel with
       | O => CErr CvData
       | S k =>
         so_remove_from_edge g edge ;;~
         nx <~ cg_get g GfToMeta edge ;;
         so_free_index g (- edge) ;;~
         so_remove_to_edges k g (- nx)
       end.

(* GraphImpl::remove_node: an invalid node is a no-op *)
Definition so_graph_remove_node (g : cg_data) (index : Z) : cprog unit :=
  v <~ so_validate_node g index ;;
  if negb v then CRet tt else
  id <~ cp_transaction ;;
  e <~ cg_get g GfFrom index ;;
  so_remove_from_edges (N.to_nat (cg_capacity g)) g (- e) ;;~
  e2 <~ cg_get g GfTo index ;;
  so_remove_to_edges (N.to_nat (cg_capacity g)) g (- e2) ;;~
  so_free_index g index ;;~
  count <~ cg_node_count g ;;
  cg_set_node_count g (count - 1) ;;~
  cp_commit id.

(* ------------------------------------------------------------------------- *)
(* removal of an element through the public API (correspondence only)         *)
(* ------------------------------------------------------------------------- *)
(* DbKeyValues::remove: the element's vector is freed (remove_from_storage: every pair's out-of-line records, the vector
   record), the slot is removed when it is the last one, else set to 0 *)
Definition so_kv_remove (vh : cv_vec) (index : N) : cprog cv_vec :=
  v <~ so_kv_valid_index vh index ;;
  if negb v then CRet vh else
  k <~ so_kv_kvs vh index ;;
  cv_remove_from_storage kv ce_dbkv k ;;~
  if cv_len vh - 1 =? index then r <~ cv_remove N ce_u64 vh index ;; CRet (fst r)
  else cv_replace N ce_u64 vh index 0 ;;~ CRet vh.

(* QueryBuilder::remove().ids(id) for an EDGE id (< 0), or a NODE id (> 0) that has no edges and no alias, none of whose
   keys is indexed: DbImpl::remove_id = graph.remove_edge / graph.remove_node (node_edges is empty: no cascade), then
   remove_all_values = DbKeyValues::remove — inside transaction_mut's storage transaction; the reads in between
   (graph_index, aliases.key, node_edges, values) do not write *)
Definition so_q_remove (h : so_db) (id : Z) : cprog so_db :=
  tx <~ cp_transaction ;;
  (if (id <? 0)%Z then so_graph_remove_edge (so_graph h) id else so_graph_remove_node (so_graph h) id) ;;~
  vh <~ so_kv_remove (so_values h) (cg_as_u64 id) ;;
  cp_commit tx ;;~
  CRet (so_with_values h vh).
